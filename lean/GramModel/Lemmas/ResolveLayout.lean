import GramModel.Lemmas.RewriteMore
import GramModel.Lemmas.ResolveRename

/-!
# Name resolution does not depend on layout

Two surface trees that are equal after erasing source ranges, `group` flags and recorded-error lists
(`RewriteMore.strip`) resolve alike: same success/failure, the same semantic term (`RTm.erase`: the
resolved term without its ranges), the same final context, the same hole counter and the same
*number* of diagnostics (their ranges are layout).  `resolve_variables` never branches on a range, a
`group` flag or an error list: ranges are only copied into the result and into diagnostics,
`collect_definitions` follows the body chain of nested lets whatever their `group` flag.

Proof: a two-state simulation of `resolveAux t` by `resolveAux (strip t)` (states related by: equal
context, equal allocator, error lists of equal length), by the same mutual structural induction as
`resolveAux_rename`.
-/

namespace PModel
open RewriteMore

/-- States equal up to the content of the error list. -/
def StEq (st st' : RState) : Prop :=
  st.ctx = st'.ctx ∧ st.nextHole = st'.nextHole ∧ st.errors.length = st'.errors.length

theorem StEq.refl (st : RState) : StEq st st := ⟨rfl, rfl, rfl⟩

/-- `m'` does what `m` does, from related states, up to `R` on the results. -/
def LSim {α : Type} (R : α → α → Prop) (m m' : ResolveM α) : Prop :=
  ∀ st st' : RState, StEq st st' →
    match m st, m' st' with
    | none, none => True
    | some (a, s1), some (a', s1') => R a a' ∧ StEq s1 s1'
    | _, _ => False

theorem LSim.bind {α β : Type} {R : α → α → Prop} {Q : β → β → Prop}
    {m m' : ResolveM α} {k k' : α → ResolveM β}
    (h1 : LSim R m m') (h2 : ∀ a a', R a a' → LSim Q (k a) (k' a')) :
    LSim Q (m >>= k) (m' >>= k') := by
  intro st st' hs
  have h := h1 st st' hs
  rw [StateT_bind_run, StateT_bind_run]
  cases hm : m st with
  | none =>
    cases hm' : m' st' with
    | none => trivial
    | some p' => rw [hm, hm'] at h; exact h.elim
  | some p =>
    obtain ⟨a, s1⟩ := p
    cases hm' : m' st' with
    | none => rw [hm, hm'] at h; exact h.elim
    | some p' =>
      obtain ⟨a', s1'⟩ := p'
      rw [hm, hm'] at h
      exact h2 a a' h.1 s1 s1' h.2

theorem LSim.pure {α : Type} {R : α → α → Prop} {a a' : α} (h : R a a') :
    LSim R (pure a) (pure a') := by
  intro st st' hs
  have e1 : (Pure.pure a : ResolveM α) st = some (a, st) := rfl
  have e2 : (Pure.pure a' : ResolveM α) st' = some (a', st') := rfl
  rw [e1, e2]
  exact ⟨h, hs⟩

theorem LSim.fail {α : Type} {R : α → α → Prop} :
    LSim R (fun _ => (none : Option (α × RState))) (fun _ => none) := by
  intro st st' _; trivial

theorem freshHole_lsim (r r' : Option SourceRange) (s : Nat) :
    LSim (fun a b => a.erase = b.erase) (freshHole r s) (freshHole r' s) := by
  intro st st' hs
  obtain ⟨h1, h2, h3⟩ := hs
  refine ⟨?_, h1, ?_, h3⟩
  · simp [RTm.erase, h2]
  · simp [h2]

theorem bindName_lsim (v v' : SrcVar) (d : Nat) (hv : v'.name = v.name) :
    LSim (fun _ _ => True) (bindName v d) (bindName v' d) := by
  intro st st' hs
  obtain ⟨h1, h2, h3⟩ := hs
  unfold bindName
  rw [hv, ← h1]
  by_cases hp : (v.name != placeholder) = true
  · simp only [hp, if_true]
    refine ⟨trivial, rfl, h2, ?_⟩
    simp only
    split <;> simp [h3]
  · simp only [hp]
    exact ⟨trivial, h1, h2, h3⟩

theorem unbindName_lsim (x : Name) :
    LSim (fun _ _ => True) (unbindName x) (unbindName x) := by
  intro st st' hs
  obtain ⟨h1, h2, h3⟩ := hs
  exact ⟨trivial, by simp [h1], h2, h3⟩

/-! ## The let-chain helpers -/

def stripDef (d : SrcVar × OptSrc × Src) : SrcVar × OptSrc × Src :=
  (⟨⟨0, 0⟩, d.1.name⟩, stripO d.2.1, strip d.2.2)

theorem collectDefinitions_strip : ∀ (t : Src),
    (collectDefinitions (strip t)).1 = (collectDefinitions t).1.map stripDef
  | .mk _ _ (.let_ v ann defn body) _ => by
      simp only [strip, stripV, collectDefinitions, List.map_cons]
      rw [collectDefinitions_strip body]
      rfl
  | .mk _ _ .parseError _ | .mk _ _ .type _ | .mk _ _ (.var _) _ | .mk _ _ (.lam ..) _
  | .mk _ _ (.pi ..) _ | .mk _ _ (.app ..) _ | .mk _ _ .int _ | .mk _ _ (.lit _) _
  | .mk _ _ (.neg _) _ | .mk _ _ (.bin ..) _ | .mk _ _ .bool _ | .mk _ _ .tt _ | .mk _ _ .ff _
  | .mk _ _ (.ite ..) _ => by simp [strip, stripV, collectDefinitions]

theorem bindDefinitions_lsim (depth : Nat) : ∀ (ds : List (SrcVar × OptSrc × Src)) (i : Nat),
    LSim (fun _ _ => True) (bindDefinitions depth ds i) (bindDefinitions depth (ds.map stripDef) i)
  | [], i => by
      simp only [bindDefinitions, List.map_nil]
      exact LSim.pure trivial
  | (v, a, d) :: rest, i => by
      simp only [bindDefinitions, List.map_cons, stripDef]
      exact LSim.bind (bindName_lsim v _ (depth + i) rfl)
        (fun _ _ _ => bindDefinitions_lsim depth rest (i + 1))

theorem unbindDefinitions_lsim : ∀ (ds : List (SrcVar × OptSrc × Src)),
    LSim (fun _ _ => True) (unbindDefinitions ds) (unbindDefinitions (ds.map stripDef))
  | [] => by
      simp only [unbindDefinitions, List.map_nil]
      exact LSim.pure trivial
  | (v, a, d) :: rest => by
      have ih := unbindDefinitions_lsim rest
      simp only [unbindDefinitions, List.map_cons, stripDef]
      by_cases hp : (v.name != placeholder) = true
      · simp only [hp, if_true]
        exact LSim.bind (unbindName_lsim v.name) (fun _ _ _ => ih)
      · simp only [hp]
        exact ih

/-! ## The resolver does not look at layout -/

/-- Results equal up to ranges. -/
def ResEq (p p' : RDefs × RTm) : Prop := p.1.erase = p'.1.erase ∧ p.2.erase = p'.2.erase

macro "lsim_step " t:term : tactic =>
  `(tactic| (refine LSim.bind $t (fun p p' hp => ?_); obtain ⟨d, r⟩ := p; obtain ⟨d', r'⟩ := p';
             dsimp only))

macro "lsim_done" : tactic =>
  `(tactic| exact LSim.pure (by simp_all [ResEq, RTm.erase, RDefs.erase]))

mutual
theorem resolveAux_strip : ∀ (t : Src) (chain : Option (Nat × Nat)) (depth : Nat),
    LSim ResEq (resolveAux t chain depth) (resolveAux (strip t) chain depth)
  | .mk range g .parseError es, chain, depth => by
      simp only [strip, stripV]; unfold resolveAux; exact LSim.fail
  | .mk range g .type es, chain, depth => by
      simp only [strip, stripV]; unfold resolveAux; lsim_done
  | .mk range g .int es, chain, depth => by
      simp only [strip, stripV]; unfold resolveAux; lsim_done
  | .mk range g (.lit n) es, chain, depth => by
      simp only [strip, stripV]; unfold resolveAux; lsim_done
  | .mk range g .bool es, chain, depth => by
      simp only [strip, stripV]; unfold resolveAux; lsim_done
  | .mk range g .tt es, chain, depth => by
      simp only [strip, stripV]; unfold resolveAux; lsim_done
  | .mk range g .ff es, chain, depth => by
      simp only [strip, stripV]; unfold resolveAux; lsim_done
  | .mk range g (.var x) es, chain, depth => by
      simp only [strip, stripV]; unfold resolveAux
      intro st st' hs
      obtain ⟨h1, h2, h3⟩ := hs
      simp only [← h1]
      cases hg : st.ctx.get x with
      | some vd => exact ⟨by simp [ResEq, RTm.erase, RDefs.erase], h1, h2, h3⟩
      | none =>
        refine ⟨by simp [ResEq, RTm.erase, RDefs.erase, h2], rfl, by simp [h2], ?_⟩
        simp only
        split <;> simp [h3]
  | .mk range g (.app f a) es, chain, depth => by
      simp only [strip, stripV]; unfold resolveAux
      lsim_step (resolveAux_strip f none depth)
      lsim_step (resolveAux_strip a none depth)
      lsim_done
  | .mk range g (.neg a) es, chain, depth => by
      simp only [strip, stripV]; unfold resolveAux
      lsim_step (resolveAux_strip a none depth)
      lsim_done
  | .mk range g (.bin o a b) es, chain, depth => by
      simp only [strip, stripV]; unfold resolveAux
      lsim_step (resolveAux_strip a none depth)
      lsim_step (resolveAux_strip b none depth)
      lsim_done
  | .mk range g (.ite c a b) es, chain, depth => by
      simp only [strip, stripV]; unfold resolveAux
      lsim_step (resolveAux_strip c none depth)
      lsim_step (resolveAux_strip a none depth)
      lsim_step (resolveAux_strip b none depth)
      lsim_done
  | .mk range g (.pi v imp dom cod) es, chain, depth => by
      simp only [strip, stripV]; unfold resolveAux
      lsim_step (resolveAux_strip dom none depth)
      refine LSim.bind (bindName_lsim v _ depth rfl) (fun _ _ _ => ?_)
      lsim_step (resolveAux_strip cod none (depth + 1))
      refine LSim.bind (unbindName_lsim v.name) (fun _ _ _ => ?_)
      lsim_done
  | .mk range g (.lam v imp dom body) es, chain, depth => by
      simp only [strip, stripV]; unfold resolveAux
      refine LSim.bind (resolveOpt_strip dom depth) (fun od od' hod => ?_)
      refine LSim.bind (bindName_lsim v _ depth rfl) (fun _ _ _ => ?_)
      have hbody := resolveAux_strip body none (depth + 1)
      cases od with
      | none =>
        cases od' with
        | some _ => exact hod.elim
        | none =>
          dsimp only
          refine LSim.bind (freshHole_lsim none none 0) (fun d1 d1' hd1 => ?_)
          lsim_step hbody
          refine LSim.bind (unbindName_lsim v.name) (fun _ _ _ => ?_)
          lsim_done
      | some d0 =>
        cases od' with
        | none => exact hod.elim
        | some d0' =>
          dsimp only
          refine LSim.bind (R := fun a b => a.erase = b.erase) (LSim.pure hod) (fun d1 d1' hd1 => ?_)
          lsim_step hbody
          refine LSim.bind (unbindName_lsim v.name) (fun _ _ _ => ?_)
          lsim_done
  | .mk range g (.let_ v ann defn body) es, some (n, i), depth => by
      simp only [strip, stripV]; unfold resolveAux
      refine LSim.bind (resolveAnnotation_strip ann n i depth) (fun a1 a1' ha1 => ?_)
      lsim_step (resolveAux_strip defn none depth)
      lsim_step (resolveAux_strip body (some (n, i + 1)) depth)
      lsim_done
  | .mk range g (.let_ v ann defn body) es, none, depth => by
      have hmap : ((⟨⟨0, 0⟩, v.name⟩ : SrcVar), stripO ann, strip defn) ::
          (collectDefinitions (strip body)).1 =
          ((v, ann, defn) :: (collectDefinitions body).1).map stripDef := by
        rw [collectDefinitions_strip]; rfl
      simp only [strip, stripV]; unfold resolveAux
      dsimp only
      rw [hmap, List.length_map]
      refine LSim.bind (bindDefinitions_lsim depth _ 0) (fun _ _ _ => ?_)
      refine LSim.bind (resolveAnnotation_strip ann _ 0 _) (fun a1 a1' ha1 => ?_)
      lsim_step (resolveAux_strip defn none _)
      lsim_step (resolveAux_strip body (some (_, 1)) _)
      refine LSim.bind (unbindDefinitions_lsim _) (fun _ _ _ => ?_)
      lsim_done
theorem resolveOpt_strip : ∀ (o : OptSrc) (depth : Nat),
    LSim (fun a b => match a, b with
        | none, none => True
        | some x, some y => x.erase = y.erase
        | _, _ => False)
      (resolveOpt o depth) (resolveOpt (stripO o) depth)
  | .none, depth => by
      simp only [stripO]; unfold resolveOpt; exact LSim.pure trivial
  | .some t, depth => by
      simp only [stripO]; unfold resolveOpt
      refine LSim.bind (resolveAux_strip t none depth) (fun p p' hp => ?_)
      exact LSim.pure hp.2
theorem resolveAnnotation_strip : ∀ (o : OptSrc) (n i newDepth : Nat),
    LSim (fun a b => a.erase = b.erase) (resolveAnnotation o n i newDepth)
      (resolveAnnotation (stripO o) n i newDepth)
  | .none, n, i, depth => by
      simp only [stripO]; unfold resolveAnnotation; exact freshHole_lsim _ _ _
  | .some t, n, i, depth => by
      simp only [stripO]; unfold resolveAnnotation
      refine LSim.bind (resolveAux_strip t none depth) (fun p p' hp => ?_)
      exact LSim.pure hp.2
end

theorem resolve_strip (s : Src) (depth : Nat) (st : RState) :
    (resolve (strip s) depth st).map resView = (resolve s depth st).map resView := by
  have h := resolveAux_strip s none depth st st (StEq.refl st)
  unfold resolve
  rw [StateT_bind_run, StateT_bind_run]
  cases hm : resolveAux s none depth st with
  | none =>
    cases hm' : resolveAux (strip s) none depth st with
    | none => rfl
    | some p' => rw [hm, hm'] at h; exact h.elim
  | some p =>
    obtain ⟨⟨ds, r⟩, s1⟩ := p
    cases hm' : resolveAux (strip s) none depth st with
    | none => rw [hm, hm'] at h; exact h.elim
    | some p' =>
      obtain ⟨⟨ds', r'⟩, s1'⟩ := p'
      rw [hm, hm'] at h
      obtain ⟨⟨_, hr⟩, h1, h2, h3⟩ := h
      simp only at hr
      show some (resView (r', s1')) = some (resView (r, s1))
      simp only [resView, hr, h1, h2, h3]

/-- **Layout independence of name resolution.** -/
theorem resolve_layout_independent (s s' : Src) (depth : Nat) (st : RState)
    (h : strip s = strip s') :
    (resolve s depth st).map resView = (resolve s' depth st).map resView := by
  rw [← resolve_strip s, ← resolve_strip s', h]

end PModel
