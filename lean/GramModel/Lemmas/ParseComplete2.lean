import GramModel.Lemmas.ParseComplete

/-! # General completeness, stage 1: the precedence tower on the operator sublanguage -/

namespace PModel
open Unamb

section
variable {toks : Array PTok}

/-- completeness of `parse_A` on maximal segments of length at most `n` -/
def Comp1 (toks : Array PTok) (A : NT) (n : Nat) : Prop :=
  ∀ a b t, b - a ≤ n → SegT toks A a b t → NoExt toks b (ext A) → RetN toks A a ⟨t, b, true⟩

def isOp (k : PKind) : Bool := isMul k || isAdd k || isCmp k

/-- what `parse_small_term` returned at the start of the segment `a … b`: a failure, or a result that
ends at `b` or before an infix operator -/
def SmallInfo (toks : Array PTok) (b : Nat) (r0 : PResult) : Prop :=
  r0.term.isParseError = true ∨ r0.next = b ∨ ∃ k, KAt toks r0.next k ∧ isOp k = true

theorem SmallInfo.step {b m : Nat} {r0 : PResult} {op : PKind} (h : SmallInfo toks m r0)
    (k1 : KAt toks m op) (hop : isOp op = true) : SmallInfo toks b r0 := by
  rcases h with h | h | h
  · exact Or.inl h
  · exact Or.inr (Or.inr ⟨op, h ▸ k1, hop⟩)
  · exact Or.inr (Or.inr h)

/-- … and `parse_small_term` returns something at the same start -/
def Comp2 (toks : Array PTok) (A : NT) (n : Nat) : Prop :=
  ∀ a b t, b - a ≤ n → SegT toks A a b t → NoExt toks b (ext A) →
    RetN toks A a ⟨t, b, true⟩ ∧ ∃ r0, RetN toks .smallTerm a r0 ∧ SmallInfo toks b r0

theorem comp_atom {n : Nat} (hT : Comp1 toks .term n) : Comp1 toks .atom (n + 1) := by
  intro a b t hl h _
  rcases inv_atom h with ⟨k, k1, lk, rfl, rfl⟩ | ⟨m, inner, p1, i1, q1, rfl, rfl⟩
  · exact atom_leaf_complete k1 lk
  · have := SegT.lt i1
    exact atom_group_complete p1 (hT _ _ _ (by omega) i1 (NoExt.of_kat q1 rfl)) i1 q1

theorem comp_small {n : Nat} (hA : Comp1 toks .atom (n + 1)) (hS : Comp1 toks .smallTerm n) :
    Comp1 toks .smallTerm (n + 1) := by
  intro a b t hl h hf
  rcases inv_small h with h1 | ⟨m, f, x, h1, h2, rfl⟩
  · have r := hA _ _ _ hl h1 (fun _ _ => rfl)
    exact up_small r (segT_facts h1).2 (NoExt.follow hf)
  · have l1 := SegT.lt h1
    have l2 := SegT.lt h2
    have r1 := hA _ _ _ (by omega) h1 (fun _ _ => rfl)
    have r2 := hS _ _ _ (by omega) h2 hf
    have := application_ok r1 (segT_facts h1).2 r2 (segT_facts h2).2
    have e : (⟨.mk (span f.range x.range) false (.app f x) [], b, true⟩ : PResult)
        = ⟨.mk (rng toks a b) false (.app f x) [], b, true⟩ := by
      rw [h1.range, h2.range]; rfl
    rw [← e]
    exact choice_ok [] [.atom] rfl (fun _ hX => by cases hX) this rfl

theorem comp_medium {n : Nat} (hS : Comp1 toks .smallTerm (n + 1)) (hL : Comp2 toks .largeTerm n) :
    Comp2 toks .mediumTerm (n + 1) := by
  intro a b t hl h hf
  have hf' : NoExt toks b extLarge := hf
  rcases inv_medium h with h1 | ⟨m, op, x, y, hop, h1, k1, h2, rfl⟩
  · have r := hS _ _ _ hl h1 (hf'.mono (fun k hk => by simp only [extLarge, Bool.or_eq_true]; exact Or.inl hk))
    exact ⟨up_medium r (segT_facts h1).2 (hf'.not rfl) (hf'.not rfl), _, r, Or.inr (Or.inl rfl)⟩
  · have l1 := SegT.lt h1
    have l2 := SegT.lt h2
    have r1 := hS _ _ _ (by omega) h1
      (NoExt.of_kat k1 (by cases op <;> simp [isMul] at hop <;> rfl))
    have r2 := (hL _ _ _ (by omega) h2 hf').1
    have e : ∀ o, (⟨.mk (span x.range y.range) false (.bin o x y) [], b, true⟩ : PResult)
        = ⟨.mk (rng toks a b) false (.bin o x y) [], b, true⟩ := by
      intro o; rw [h1.range, h2.range]; rfl
    refine ⟨?_, _, r1, Or.inr (Or.inr ⟨op, k1, by simp [isOp, hop]⟩)⟩
    cases op <;> simp [isMul] at hop
    · have := binary_ok bn_prod r1 (segT_facts h1).2 k1 r2
      rw [← e]
      exact choice_ok [] [.quotient, .smallTerm] rfl (fun _ hX => by cases hX) this rfl
    · have := binary_ok bn_quot r1 (segT_facts h1).2 k1 r2
      rw [← e]
      refine choice_ok [.product] [.smallTerm] rfl ?_ this rfl
      intro X hX
      simp only [List.mem_cons, List.mem_nil_iff, or_false] at hX; subst hX
      exact binary_fail_op bn_prod r1 (segT_facts h1).2 (k1.ne (by decide))

theorem comp_large {n : Nat} (hM : Comp2 toks .mediumTerm (n + 1)) (hL : Comp2 toks .largeTerm n) :
    Comp2 toks .largeTerm (n + 1) := by
  intro a b t hl h hf
  rcases inv_large h with h1 | ⟨x, k1, h1, rfl⟩
  · obtain ⟨r, rs⟩ := hM _ _ _ hl h1 hf
    obtain ⟨k, k0, hk⟩ := first_medium h1
    exact ⟨up_large r (segT_facts h1).2 (k0.ne (by intro e; subst e; simp [isF] at hk)), rs⟩
  · have l1 := SegT.lt h1
    have r1 := (hL _ _ _ (by omega) h1 hf).1
    have := negation_ok k1 r1
    have e : (⟨.mk (span (tokenRange toks a) x.range) false (.neg x) [], b, true⟩ : PResult)
        = ⟨.mk (rng toks a b) false (.neg x) [], b, true⟩ := by
      rw [h1.range]; rfl
    rw [← e]
    refine ⟨choice_ok [] [.mediumTerm] rfl (fun _ hX => by cases hX) this rfl, ?_⟩
    obtain ⟨r0, h0, hpe⟩ := small_fails (toks := toks) (b := a) (Follow.of_kat k1 rfl)
    exact ⟨r0, h0, Or.inl hpe⟩

theorem comp_huge {n : Nat} (hL : Comp2 toks .largeTerm (n + 1)) (hH : Comp2 toks .hugeTerm n) :
    Comp2 toks .hugeTerm (n + 1) := by
  intro a b t hl h hf
  have hf' : NoExt toks b extHuge := hf
  rcases inv_huge h with h1 | ⟨m, op, x, y, hop, h1, k1, h2, rfl⟩
  · obtain ⟨r, rs⟩ := hL _ _ _ hl h1 (hf'.mono (fun k hk => by simp only [extHuge, Bool.or_eq_true]; exact Or.inl hk))
    exact ⟨up_huge r (segT_facts h1).2 (hf'.not rfl) (hf'.not rfl), rs⟩
  · have l1 := SegT.lt h1
    have l2 := SegT.lt h2
    obtain ⟨r1, rs⟩ := hL _ _ _ (by omega) h1
      (NoExt.of_kat k1 (by cases op <;> simp [isAdd] at hop <;> rfl))
    have r2 := (hH _ _ _ (by omega) h2 hf').1
    have e : ∀ o, (⟨.mk (span x.range y.range) false (.bin o x y) [], b, true⟩ : PResult)
        = ⟨.mk (rng toks a b) false (.bin o x y) [], b, true⟩ := by
      intro o; rw [h1.range, h2.range]; rfl
    obtain ⟨r0, hr0, hi0⟩ := rs
    refine ⟨?_, r0, hr0, hi0.step k1 (by simp [isOp, hop])⟩
    cases op <;> simp [isAdd] at hop
    · have := binary_ok bn_diff r1 (segT_facts h1).2 k1 r2
      rw [← e]
      refine choice_ok [.sum] [.largeTerm] rfl ?_ this rfl
      intro X hX
      simp only [List.mem_cons, List.mem_nil_iff, or_false] at hX; subst hX
      exact binary_fail_op bn_sum r1 (segT_facts h1).2 (k1.ne (by decide))
    · have := binary_ok bn_sum r1 (segT_facts h1).2 k1 r2
      rw [← e]
      exact choice_ok [] [.difference, .largeTerm] rfl (fun _ hX => by cases hX) this rfl

theorem comp_giant {n : Nat} (hH : Comp2 toks .hugeTerm (n + 1)) :
    Comp2 toks .giantTerm (n + 1) := by
  intro a b t hl h hf
  have hf' : NoExt toks b extGiant := hf
  have hfh : NoExt toks b extHuge := hf'.mono (fun k hk => by simp only [extGiant, Bool.or_eq_true]; exact Or.inl hk)
  rcases inv_giant h with h1 | ⟨m, op, x, y, hop, h1, k1, h2, rfl⟩
  · obtain ⟨r, rs⟩ := hH _ _ _ hl h1 hfh
    exact ⟨up_giant r (segT_facts h1).2 (hf'.not rfl) (hf'.not rfl) (hf'.not rfl) (hf'.not rfl)
      (hf'.not rfl), rs⟩
  · have l1 := SegT.lt h1
    have l2 := SegT.lt h2
    obtain ⟨r1, rs⟩ := hH _ _ _ (by omega) h1
      (NoExt.of_kat k1 (by cases op <;> simp [isCmp] at hop <;> rfl))
    have r2 := (hH _ _ _ (by omega) h2 hfh).1
    have e : ∀ o, (⟨.mk (span x.range y.range) false (.bin o x y) [], b, true⟩ : PResult)
        = ⟨.mk (rng toks a b) false (.bin o x y) [], b, true⟩ := by
      intro o; rw [h1.range, h2.range]; rfl
    have nx := (segT_facts h1).2
    obtain ⟨r0, hr0, hi0⟩ := rs
    refine ⟨?_, r0, hr0, hi0.step k1 (by simp [isOp, hop])⟩
    cases op <;> simp [isCmp] at hop
    · have := binary_ok bn_eq r1 nx k1 r2
      rw [← e]
      refine choice_ok [.lessThan, .lessThanOrEqualTo] _ rfl ?_ this rfl
      intro X hX
      simp only [List.mem_cons, List.mem_nil_iff, or_false] at hX
      rcases hX with rfl | rfl
      · exact binary_fail_op bn_lt r1 nx (k1.ne (by decide))
      · exact binary_fail_op bn_le r1 nx (k1.ne (by decide))
    · have := binary_ok bn_gt r1 nx k1 r2
      rw [← e]
      refine choice_ok [.lessThan, .lessThanOrEqualTo, .equalTo] _ rfl ?_ this rfl
      intro X hX
      simp only [List.mem_cons, List.mem_nil_iff, or_false] at hX
      rcases hX with rfl | rfl | rfl
      · exact binary_fail_op bn_lt r1 nx (k1.ne (by decide))
      · exact binary_fail_op bn_le r1 nx (k1.ne (by decide))
      · exact binary_fail_op bn_eq r1 nx (k1.ne (by decide))
    · have := binary_ok bn_ge r1 nx k1 r2
      rw [← e]
      refine choice_ok [.lessThan, .lessThanOrEqualTo, .equalTo, .greaterThan] _ rfl ?_ this rfl
      intro X hX
      simp only [List.mem_cons, List.mem_nil_iff, or_false] at hX
      rcases hX with rfl | rfl | rfl | rfl
      · exact binary_fail_op bn_lt r1 nx (k1.ne (by decide))
      · exact binary_fail_op bn_le r1 nx (k1.ne (by decide))
      · exact binary_fail_op bn_eq r1 nx (k1.ne (by decide))
      · exact binary_fail_op bn_gt r1 nx (k1.ne (by decide))
    · have := binary_ok bn_lt r1 nx k1 r2
      rw [← e]
      exact choice_ok [] _ rfl (fun _ hX => by cases hX) this rfl
    · have := binary_ok bn_le r1 nx k1 r2
      rw [← e]
      refine choice_ok [.lessThan] _ rfl ?_ this rfl
      intro X hX
      simp only [List.mem_cons, List.mem_nil_iff, or_false] at hX; subst hX
      exact binary_fail_op bn_lt r1 nx (k1.ne (by decide))

end

end PModel
