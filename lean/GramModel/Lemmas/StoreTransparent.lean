import GramModel.Print
import GramModel.Lemmas.UnifySound

/-!
# Transparency of the store-aware de Bruijn functions on fully solved terms (C11)

On a term all of whose reachable hole cells are solved (`FullySolved σ t`: `zonk` answers with a
hole-free term), the store-aware functions `sshiftS`, `ushiftS`, `openS` (`Store.lean`) and
`freeAtS` (`Print.lean`) compute **literally** what the pure functions `sshift`, `ushift`, `openT`,
`freeAt` compute on the zonked term, and they leave the state untouched (in particular `openS`
allocates no cell).  This covers the `Unifier(Some(..), k)` arms of `signed_shift`, `open`,
`free_variables`: a solved hole is read as `unsigned_shift(solution, 0, k)` and the operation goes on
on that.

The statements hold for *every* fuel at which the store-aware function answers; `…_total` gives a
fuel at which it does answer.
-/

namespace StoreTransparent

open StoreMono (bind_ok pure_ok)
open UnifySound
open WhnfLemmas (Det ushift_holeFree sshiftS_det ushiftS_det openS_det)

/-! ## `FullySolved` -/

/-- every hole cell reachable from `t` through the store is solved: `zonk` answers, with a hole-free
term -/
def FullySolved (σ : List (Option Tm)) (t : Tm) : Prop :=
  ∃ fuel z, zonk fuel σ t = some z ∧ z.holeFree = true

/-- executable checker -/
def fullySolvedB (fuel : Nat) (σ : List (Option Tm)) (t : Tm) : Bool :=
  match zonk fuel σ t with
  | some z => z.holeFree
  | none => false

theorem fullySolvedB_sound {fuel : Nat} {σ : List (Option Tm)} {t : Tm}
    (h : fullySolvedB fuel σ t = true) : FullySolved σ t := by
  unfold fullySolvedB at h
  split at h
  · next z hz => exact ⟨fuel, z, hz, h⟩
  · cases h

theorem FullySolved_iff {σ : List (Option Tm)} {t : Tm} :
    FullySolved σ t ↔ ∃ z, Zk σ t z ∧ z.holeFree = true := by
  constructor
  · rintro ⟨n, z, h, hf⟩; exact ⟨z, ⟨n, h⟩, hf⟩
  · rintro ⟨z, ⟨n, h⟩, hf⟩; exact ⟨n, z, h, hf⟩

theorem FullySolved_holeFree {σ : List (Option Tm)} {t : Tm} (hf : t.holeFree = true) :
    FullySolved σ t :=
  FullySolved_iff.2 ⟨t, Zk_holeFree t hf, hf⟩

/-! ## `DetAt s m v`: from state `s`, every successful run of `m` returns `v` and leaves `s` -/

def DetAt {α} (s : St) (m : M α) (v : α) : Prop :=
  ∀ a s', m s = .ok a s' → a = v ∧ s' = s

theorem DetAt.pure {α} {s : St} (a : α) : DetAt s (pure a : M α) a := by
  intro b s' h
  obtain ⟨rfl, rfl⟩ := pure_ok h
  exact ⟨rfl, rfl⟩

theorem DetAt.outOfFuel {α} {s : St} {v : α} : DetAt s (outOfFuel : M α) v := by
  intro b s' h; cases h

theorem DetAt.panicAt {α} {s : St} {v : α} (site : String) : DetAt s (panicAt site : M α) v := by
  intro b s' h; cases h

theorem DetAt.of_det {α} {s : St} {m : M α} {v : α} (h : Det m v) : DetAt s m v :=
  fun a s' e => h.out s a s' e

theorem DetAt.bind {α β} {s : St} {m : M α} {f : α → M β} {v : α} {w : β} (hm : DetAt s m v)
    (hf : DetAt s (f v) w) : DetAt s (m >>= f) w := by
  intro b s' h
  obtain ⟨a, s1, h1, h2⟩ := bind_ok h
  obtain ⟨rfl, rfl⟩ := hm _ _ h1
  exact hf _ _ h2

theorem DetAt.bind' {α β} {s : St} {m : M α} {f : α → M β} {v : α} {w : β} (hm : DetAt s m v)
    (hf : ∀ a, v = a → DetAt s (f a) w) : DetAt s (m >>= f) w := DetAt.bind hm (hf v rfl)

theorem DetAt.cellGet {β} {s : St} {id : Nat} {k : Option Tm → M β} {w : β}
    (h : DetAt s (k (cellVal s.store id)) w) : DetAt s (cellGet id >>= k) w := h

/-! ## `sshiftS` -/

set_option hygiene false in
local macro "hf_side" : tactic => `(tactic| first
  | exact hf | exact hf.1 | exact hf.2 | exact hf.1.1 | exact hf.1.2)

set_option hygiene false in
local macro "sh_step" : tactic => `(tactic| first
  | with_reducible exact DetAt.pure _
  | (with_reducible refine DetAt.bind' (ih1 _ _ _ _ _ (by assumption) (by hf_side)) (fun a ha => ?_)
     try rw [ha]
     cases a <;> dsimp only)
  | (with_reducible refine DetAt.bind' (ih2 _ _ _ _ _ (by assumption) (by hf_side)) (fun a ha => ?_)
     try rw [ha]
     cases a <;> dsimp only)
  | split)

theorem sshiftS_solved : ∀ f,
    (∀ c amt t z s, Zk s.store t z → z.holeFree = true →
      DetAt s (sshiftS f c amt t) (sshift c amt z)) ∧
    (∀ c amt ds zs s, ZkD s.store ds zs → zs.holeFree = true →
      DetAt s (sshiftDefsS f c amt ds) (sshiftDefs c amt zs)) := by
  intro f
  induction f with
  | zero =>
    constructor
    · intros; rw [sshiftS]; exact DetAt.outOfFuel
    · intros; rw [sshiftDefsS]; exact DetAt.outOfFuel
  | succ f ih =>
    obtain ⟨ih1, ih2⟩ := ih
    constructor
    · intro c amt t z s hz hf
      cases t
      case hole id k =>
        unfold sshiftS
        dsimp only
        refine DetAt.cellGet ?_
        cases hv : cellVal s.store id with
        | none =>
          have hn : ∀ sub, s.store[id]? ≠ some (some sub) := by
            intro sub hs
            rw [← cellVal_some, hv] at hs
            cases hs
          rw [Zk_hole_none hn] at hz
          subst hz
          cases hf
        | some sub =>
          dsimp only
          have hsub : s.store[id]? = some (some sub) := cellVal_some.1 hv
          rw [Zk_hole_some hsub] at hz
          obtain ⟨zs, hzs, rfl⟩ := hz
          rw [ushift_holeFree] at hf
          have h1 := ih1 0 (k : Int) sub zs s hzs hf
          rw [sshift_ushift] at h1
          refine DetAt.bind h1 ?_
          dsimp only
          exact DetAt.of_det ((sshiftS_det f).1 c amt _ (by rw [ushift_holeFree]; exact hf))
      case var x i =>
        rw [Zk_leaf (by simp [Leaf])] at hz; subst hz
        unfold sshiftS sshift; dsimp only
        repeat sh_step
      case lam x im d b =>
        rw [Zk_lam] at hz
        obtain ⟨zd, zb, hzd, hzb, rfl⟩ := hz
        simp only [Tm.holeFree, Bool.and_eq_true] at hf
        unfold sshiftS sshift; dsimp only
        repeat sh_step
      case pi x im d b =>
        rw [Zk_pi] at hz
        obtain ⟨zd, zb, hzd, hzb, rfl⟩ := hz
        simp only [Tm.holeFree, Bool.and_eq_true] at hf
        unfold sshiftS sshift; dsimp only
        repeat sh_step
      case app g a =>
        rw [Zk_app] at hz
        obtain ⟨zd, zb, hzd, hzb, rfl⟩ := hz
        simp only [Tm.holeFree, Bool.and_eq_true] at hf
        unfold sshiftS sshift; dsimp only
        repeat sh_step
      case letg ds b =>
        rw [Zk_letg] at hz
        obtain ⟨zd, zb, hzd, hzb, rfl⟩ := hz
        simp only [Tm.holeFree, Bool.and_eq_true] at hf
        unfold sshiftS sshift; dsimp only
        rw [ZkD_len hzd]
        repeat sh_step
      case neg a =>
        rw [Zk_neg] at hz
        obtain ⟨zd, hzd, rfl⟩ := hz
        simp only [Tm.holeFree] at hf
        unfold sshiftS sshift; dsimp only
        repeat sh_step
      case bin op a b =>
        rw [Zk_bin] at hz
        obtain ⟨zd, zb, hzd, hzb, rfl⟩ := hz
        simp only [Tm.holeFree, Bool.and_eq_true] at hf
        unfold sshiftS sshift; dsimp only
        repeat sh_step
      case ite a b d =>
        rw [Zk_ite] at hz
        obtain ⟨za, zb, zd, hza, hzb, hzd, rfl⟩ := hz
        simp only [Tm.holeFree, Bool.and_eq_true] at hf
        unfold sshiftS sshift; dsimp only
        repeat sh_step
      all_goals
        rw [Zk_leaf (by simp [Leaf])] at hz; subst hz
        unfold sshiftS sshift; dsimp only
        exact DetAt.pure _
    · intro c amt ds zs s hz hf
      cases ds
      case nil =>
        rw [ZkD_nil] at hz; subst hz
        unfold sshiftDefsS sshiftDefs; dsimp only
        exact DetAt.pure _
      case cons x a d r =>
        rw [ZkD_cons] at hz
        obtain ⟨za, zd, zr, hza, hzd, hzr, rfl⟩ := hz
        simp only [Defs.holeFree, Bool.and_eq_true] at hf
        unfold sshiftDefsS sshiftDefs; dsimp only
        repeat sh_step

theorem sshiftS_transparent {f c : Nat} {amt : Int} {t z : Tm} {s s' : St} {o : Option Tm}
    (hz : Zk s.store t z) (hf : z.holeFree = true) (h : sshiftS f c amt t s = .ok o s') :
    o = sshift c amt z ∧ s' = s :=
  (sshiftS_solved f).1 c amt t z s hz hf o s' h

theorem ushiftS_solved (f c a : Nat) (t z : Tm) (s : St) (hz : Zk s.store t z)
    (hf : z.holeFree = true) : DetAt s (ushiftS f c a t) (ushift c a z) := by
  unfold ushiftS
  have h1 := (sshiftS_solved f).1 c (a : Int) t z s hz hf
  rw [sshift_ushift] at h1
  refine DetAt.bind h1 ?_
  exact DetAt.pure _

/-! ## `openS` -/

set_option hygiene false in
local macro "op_step" : tactic => `(tactic| first
  | with_reducible exact DetAt.pure _
  | with_reducible refine DetAt.bind (ih1 _ _ _ _ _ _ _ (by assumption) (by hf_side) hzu hfu) ?_
  | with_reducible refine DetAt.bind (ih2 _ _ _ _ _ _ _ (by assumption) (by hf_side) hzu hfu) ?_)

theorem openS_solved : ∀ f,
    (∀ t i u sh zt zu s, Zk s.store t zt → zt.holeFree = true → Zk s.store u zu →
      zu.holeFree = true → DetAt s (openS f t i u sh) (openT zt i zu sh)) ∧
    (∀ ds i u sh zs zu s, ZkD s.store ds zs → zs.holeFree = true → Zk s.store u zu →
      zu.holeFree = true → DetAt s (openDefsS f ds i u sh) (openDefs zs i zu sh)) := by
  intro f
  induction f with
  | zero =>
    constructor
    · intros; rw [openS]; exact DetAt.outOfFuel
    · intros; rw [openDefsS]; exact DetAt.outOfFuel
  | succ f ih =>
    obtain ⟨ih1, ih2⟩ := ih
    constructor
    · intro t i u sh z zu s hz hf hzu hfu
      cases t
      case hole id k =>
        unfold openS
        dsimp only
        refine DetAt.cellGet ?_
        cases hv : cellVal s.store id with
        | none =>
          have hn : ∀ sub, s.store[id]? ≠ some (some sub) := by
            intro sub hs
            rw [← cellVal_some, hv] at hs
            cases hs
          rw [Zk_hole_none hn] at hz
          subst hz
          cases hf
        | some sub =>
          dsimp only
          have hsub : s.store[id]? = some (some sub) := cellVal_some.1 hv
          rw [Zk_hole_some hsub] at hz
          obtain ⟨zs, hzs, rfl⟩ := hz
          have hf' := hf
          rw [ushift_holeFree] at hf'
          refine DetAt.bind (ushiftS_solved f 0 k sub zs s hzs hf') ?_
          exact ih1 _ i u sh _ zu s (Zk_holeFree _ hf) hf hzu hfu
      case var x j =>
        rw [Zk_leaf (by simp [Leaf])] at hz; subst hz
        unfold openS openT; dsimp only
        split
        · exact ushiftS_solved f 0 sh u zu s hzu hfu
        · split <;> exact DetAt.pure _
      case lam x im d b =>
        rw [Zk_lam] at hz
        obtain ⟨zd, zb, hzd, hzb, rfl⟩ := hz
        simp only [Tm.holeFree, Bool.and_eq_true] at hf
        unfold openS openT; dsimp only
        repeat op_step
      case pi x im d b =>
        rw [Zk_pi] at hz
        obtain ⟨zd, zb, hzd, hzb, rfl⟩ := hz
        simp only [Tm.holeFree, Bool.and_eq_true] at hf
        unfold openS openT; dsimp only
        repeat op_step
      case app g a =>
        rw [Zk_app] at hz
        obtain ⟨zd, zb, hzd, hzb, rfl⟩ := hz
        simp only [Tm.holeFree, Bool.and_eq_true] at hf
        unfold openS openT; dsimp only
        repeat op_step
      case letg ds b =>
        rw [Zk_letg] at hz
        obtain ⟨zd, zb, hzd, hzb, rfl⟩ := hz
        simp only [Tm.holeFree, Bool.and_eq_true] at hf
        unfold openS openT; dsimp only
        rw [ZkD_len hzd]
        repeat op_step
      case neg a =>
        rw [Zk_neg] at hz
        obtain ⟨zd, hzd, rfl⟩ := hz
        simp only [Tm.holeFree] at hf
        unfold openS openT; dsimp only
        repeat op_step
      case bin op a b =>
        rw [Zk_bin] at hz
        obtain ⟨zd, zb, hzd, hzb, rfl⟩ := hz
        simp only [Tm.holeFree, Bool.and_eq_true] at hf
        unfold openS openT; dsimp only
        repeat op_step
      case ite a b d =>
        rw [Zk_ite] at hz
        obtain ⟨za, zb, zd, hza, hzb, hzd, rfl⟩ := hz
        simp only [Tm.holeFree, Bool.and_eq_true] at hf
        unfold openS openT; dsimp only
        repeat op_step
      all_goals
        rw [Zk_leaf (by simp [Leaf])] at hz; subst hz
        unfold openS openT; dsimp only
        exact DetAt.pure _
    · intro ds i u sh zs zu s hz hf hzu hfu
      cases ds
      case nil =>
        rw [ZkD_nil] at hz; subst hz
        unfold openDefsS openDefs; dsimp only
        exact DetAt.pure _
      case cons x a d r =>
        rw [ZkD_cons] at hz
        obtain ⟨za, zd, zr, hza, hzd, hzr, rfl⟩ := hz
        simp only [Defs.holeFree, Bool.and_eq_true] at hf
        unfold openDefsS openDefs; dsimp only
        repeat op_step

theorem openS_transparent {f i sh : Nat} {t u zt zu r : Tm} {s s' : St}
    (hz : Zk s.store t zt) (hf : zt.holeFree = true) (hzu : Zk s.store u zu)
    (hfu : zu.holeFree = true) (h : openS f t i u sh s = .ok r s') :
    r = openT zt i zu sh ∧ s' = s :=
  (openS_solved f).1 t i u sh zt zu s hz hf hzu hfu r s' h

/-! ## `freeAtS` (the printer's dependent / non-dependent test) -/

theorem orO_some {a b : Option Bool} {r : Bool} (h : orO a b = some r) :
    ∃ x y, a = some x ∧ b = some y ∧ r = (x || y) := by
  cases a <;> cases b <;> simp [orO] at h
  exact ⟨_, _, rfl, rfl, h.symm⟩

theorem freeAtS_solved : ∀ f,
    (∀ σ t z i b, Zk σ t z → z.holeFree = true → freeAtS f σ t i = some b → b = freeAt z i) ∧
    (∀ σ ds zs i b, ZkD σ ds zs → zs.holeFree = true → freeAtDefsS f σ ds i = some b →
      b = freeAtDefs zs i) := by
  intro f
  induction f with
  | zero =>
    constructor
    · intro σ t z i b _ _ h; simp [freeAtS] at h
    · intro σ t z i b _ _ h; simp [freeAtDefsS] at h
  | succ f ih =>
    obtain ⟨ih1, ih2⟩ := ih
    constructor
    · intro σ t z i b hz hf h
      cases t
      case hole id k =>
        unfold freeAtS at h
        dsimp only at h
        split at h
        · next sub hsub =>
          rw [Zk_hole_some hsub] at hz
          obtain ⟨zs, hzs, rfl⟩ := hz
          have hf' := hf
          rw [ushift_holeFree] at hf'
          split at h
          · next sub' s1 hs =>
            have h1 := sshiftS_transparent (s := { store := σ }) hzs hf' hs
            rw [sshift_ushift] at h1
            obtain ⟨h1, _⟩ := h1
            cases h1
            exact ih1 σ _ _ i b (Zk_holeFree _ hf) hf h
          · cases h
        · next hn =>
          have hn' : ∀ sub, σ[id]? ≠ some (some sub) := fun sub hs => hn sub hs
          rw [Zk_hole_none hn'] at hz
          subst hz
          cases hf
      case var x j =>
        rw [Zk_leaf (by simp [Leaf])] at hz; subst hz
        simp only [freeAtS, Option.some.injEq] at h
        simp only [freeAt, h]
      case lam x im d c =>
        rw [Zk_lam] at hz
        obtain ⟨zd, zb, hzd, hzb, rfl⟩ := hz
        simp only [Tm.holeFree, Bool.and_eq_true] at hf
        unfold freeAtS at h; dsimp only at h
        obtain ⟨x1, x2, e1, e2, rfl⟩ := orO_some h
        simp only [freeAt, ih1 _ _ _ _ _ hzd hf.1 e1, ih1 _ _ _ _ _ hzb hf.2 e2]
      case pi x im d c =>
        rw [Zk_pi] at hz
        obtain ⟨zd, zb, hzd, hzb, rfl⟩ := hz
        simp only [Tm.holeFree, Bool.and_eq_true] at hf
        unfold freeAtS at h; dsimp only at h
        obtain ⟨x1, x2, e1, e2, rfl⟩ := orO_some h
        simp only [freeAt, ih1 _ _ _ _ _ hzd hf.1 e1, ih1 _ _ _ _ _ hzb hf.2 e2]
      case app g a =>
        rw [Zk_app] at hz
        obtain ⟨zd, zb, hzd, hzb, rfl⟩ := hz
        simp only [Tm.holeFree, Bool.and_eq_true] at hf
        unfold freeAtS at h; dsimp only at h
        obtain ⟨x1, x2, e1, e2, rfl⟩ := orO_some h
        simp only [freeAt, ih1 _ _ _ _ _ hzd hf.1 e1, ih1 _ _ _ _ _ hzb hf.2 e2]
      case letg ds c =>
        rw [Zk_letg] at hz
        obtain ⟨zd, zb, hzd, hzb, rfl⟩ := hz
        simp only [Tm.holeFree, Bool.and_eq_true] at hf
        unfold freeAtS at h; dsimp only at h
        obtain ⟨x1, x2, e1, e2, rfl⟩ := orO_some h
        simp only [freeAt, ZkD_len hzd, ih2 _ _ _ _ _ hzd hf.1 e1, ih1 _ _ _ _ _ hzb hf.2 e2]
      case neg a =>
        rw [Zk_neg] at hz
        obtain ⟨zd, hzd, rfl⟩ := hz
        simp only [Tm.holeFree] at hf
        unfold freeAtS at h; dsimp only at h
        simp only [freeAt, ih1 _ _ _ _ _ hzd hf h]
      case bin op g a =>
        rw [Zk_bin] at hz
        obtain ⟨zd, zb, hzd, hzb, rfl⟩ := hz
        simp only [Tm.holeFree, Bool.and_eq_true] at hf
        unfold freeAtS at h; dsimp only at h
        obtain ⟨x1, x2, e1, e2, rfl⟩ := orO_some h
        simp only [freeAt, ih1 _ _ _ _ _ hzd hf.1 e1, ih1 _ _ _ _ _ hzb hf.2 e2]
      case ite a c d =>
        rw [Zk_ite] at hz
        obtain ⟨za, zb, zd, hza, hzb, hzd, rfl⟩ := hz
        simp only [Tm.holeFree, Bool.and_eq_true] at hf
        unfold freeAtS at h; dsimp only at h
        obtain ⟨x12, x3, e12, e3, rfl⟩ := orO_some h
        obtain ⟨x1, x2, e1, e2, rfl⟩ := orO_some e12
        simp only [freeAt, ih1 _ _ _ _ _ hza hf.1.1 e1, ih1 _ _ _ _ _ hzb hf.1.2 e2,
          ih1 _ _ _ _ _ hzd hf.2 e3]
      all_goals
        rw [Zk_leaf (by simp [Leaf])] at hz; subst hz
        simp only [freeAtS, Option.some.injEq] at h
        simp only [freeAt, h]
    · intro σ ds zs i b hz hf h
      cases ds
      case nil =>
        rw [ZkD_nil] at hz; subst hz
        simp only [freeAtDefsS, Option.some.injEq] at h
        simp only [freeAtDefs, h]
      case cons x a d r =>
        rw [ZkD_cons] at hz
        obtain ⟨za, zd, zr, hza, hzd, hzr, rfl⟩ := hz
        simp only [Defs.holeFree, Bool.and_eq_true] at hf
        unfold freeAtDefsS at h; dsimp only at h
        obtain ⟨x12, x3, e12, e3, rfl⟩ := orO_some h
        obtain ⟨x1, x2, e1, e2, rfl⟩ := orO_some e12
        simp only [freeAtDefs, ih1 _ _ _ _ _ hza hf.1.1 e1, ih1 _ _ _ _ _ hzd hf.1.2 e2,
          ih2 _ _ _ _ _ hzr hf.2 e3]

theorem freeAtS_transparent {f i : Nat} {σ : List (Option Tm)} {t z : Tm} {b : Bool}
    (hz : Zk σ t z) (hf : z.holeFree = true) (h : freeAtS f σ t i = some b) : b = freeAt z i :=
  (freeAtS_solved f).1 σ t z i b hz hf h

/-! ## `free_variables` with a cutoff, store-aware

`Print.lean` models the only use of `free_variables` on elaborated terms (`contains(&0)` at some
index, `freeAtS`).  `freeVarsS` is the whole function of `term.rs`, `Unifier` arm included: a solved
cell is shifted by its shift and traversed, an unsolved one contributes nothing. -/

def appO : Option (List Nat) → Option (List Nat) → Option (List Nat)
  | some a, some b => some (a ++ b)
  | _, _ => none

mutual
def freeVarsS : Nat → List (Option Tm) → Tm → Nat → Option (List Nat)
  | 0, _, _, _ => none
  | f+1, σ, t, c =>
    match t with
    | .hole id s =>
        match σ[id]? with
        | some (some sub) =>
            match sshiftS f 0 (s : Int) sub { store := σ } with
            | .ok (some sub') _ => freeVarsS f σ sub' c
            | _ => none
        | _ => some []
    | .var _ i => some (if i ≥ c then [i - c] else [])
    | .lam _ _ d b => appO (freeVarsS f σ d c) (freeVarsS f σ b (c+1))
    | .pi _ _ d b => appO (freeVarsS f σ d c) (freeVarsS f σ b (c+1))
    | .app g a => appO (freeVarsS f σ g c) (freeVarsS f σ a c)
    | .letg ds b => appO (freeVarsDefsS f σ ds (c + ds.len)) (freeVarsS f σ b (c + ds.len))
    | .neg a => freeVarsS f σ a c
    | .bin _ a b => appO (freeVarsS f σ a c) (freeVarsS f σ b c)
    | .ite a b d => appO (appO (freeVarsS f σ a c) (freeVarsS f σ b c)) (freeVarsS f σ d c)
    | _ => some []
def freeVarsDefsS : Nat → List (Option Tm) → Defs → Nat → Option (List Nat)
  | 0, _, _, _ => none
  | f+1, σ, ds, c =>
    match ds with
    | .nil => some []
    | .cons _ a d r => appO (appO (freeVarsS f σ a c) (freeVarsS f σ d c)) (freeVarsDefsS f σ r c)
end

theorem appO_some {a b : Option (List Nat)} {r : List Nat} (h : appO a b = some r) :
    ∃ x y, a = some x ∧ b = some y ∧ r = x ++ y := by
  cases a <;> cases b <;> simp [appO] at h
  exact ⟨_, _, rfl, rfl, h.symm⟩

theorem freeVarsS_solved : ∀ f,
    (∀ σ t z c l, Zk σ t z → z.holeFree = true → freeVarsS f σ t c = some l → l = freeVars z c) ∧
    (∀ σ ds zs c l, ZkD σ ds zs → zs.holeFree = true → freeVarsDefsS f σ ds c = some l →
      l = freeVarsDefs zs c) := by
  intro f
  induction f with
  | zero =>
    constructor
    · intro σ t z i b _ _ h; simp [freeVarsS] at h
    · intro σ t z i b _ _ h; simp [freeVarsDefsS] at h
  | succ f ih =>
    obtain ⟨ih1, ih2⟩ := ih
    constructor
    · intro σ t z i b hz hf h
      cases t
      case hole id k =>
        unfold freeVarsS at h
        dsimp only at h
        split at h
        · next sub hsub =>
          rw [Zk_hole_some hsub] at hz
          obtain ⟨zs, hzs, rfl⟩ := hz
          have hf' := hf
          rw [ushift_holeFree] at hf'
          split at h
          · next sub' s1 hs =>
            have h1 := sshiftS_transparent (s := { store := σ }) hzs hf' hs
            rw [sshift_ushift] at h1
            obtain ⟨h1, _⟩ := h1
            cases h1
            exact ih1 σ _ _ i b (Zk_holeFree _ hf) hf h
          · cases h
        · next hn =>
          have hn' : ∀ sub, σ[id]? ≠ some (some sub) := fun sub hs => hn sub hs
          rw [Zk_hole_none hn'] at hz
          subst hz
          cases hf
      case var x j =>
        rw [Zk_leaf (by simp [Leaf])] at hz; subst hz
        simp only [freeVarsS, Option.some.injEq] at h
        simp only [freeVars, h]
      case lam x im d c =>
        rw [Zk_lam] at hz
        obtain ⟨zd, zb, hzd, hzb, rfl⟩ := hz
        simp only [Tm.holeFree, Bool.and_eq_true] at hf
        unfold freeVarsS at h; dsimp only at h
        obtain ⟨x1, x2, e1, e2, rfl⟩ := appO_some h
        simp only [freeVars, ih1 _ _ _ _ _ hzd hf.1 e1, ih1 _ _ _ _ _ hzb hf.2 e2]
      case pi x im d c =>
        rw [Zk_pi] at hz
        obtain ⟨zd, zb, hzd, hzb, rfl⟩ := hz
        simp only [Tm.holeFree, Bool.and_eq_true] at hf
        unfold freeVarsS at h; dsimp only at h
        obtain ⟨x1, x2, e1, e2, rfl⟩ := appO_some h
        simp only [freeVars, ih1 _ _ _ _ _ hzd hf.1 e1, ih1 _ _ _ _ _ hzb hf.2 e2]
      case app g a =>
        rw [Zk_app] at hz
        obtain ⟨zd, zb, hzd, hzb, rfl⟩ := hz
        simp only [Tm.holeFree, Bool.and_eq_true] at hf
        unfold freeVarsS at h; dsimp only at h
        obtain ⟨x1, x2, e1, e2, rfl⟩ := appO_some h
        simp only [freeVars, ih1 _ _ _ _ _ hzd hf.1 e1, ih1 _ _ _ _ _ hzb hf.2 e2]
      case letg ds c =>
        rw [Zk_letg] at hz
        obtain ⟨zd, zb, hzd, hzb, rfl⟩ := hz
        simp only [Tm.holeFree, Bool.and_eq_true] at hf
        unfold freeVarsS at h; dsimp only at h
        obtain ⟨x1, x2, e1, e2, rfl⟩ := appO_some h
        simp only [freeVars, ZkD_len hzd, ih2 _ _ _ _ _ hzd hf.1 e1, ih1 _ _ _ _ _ hzb hf.2 e2]
      case neg a =>
        rw [Zk_neg] at hz
        obtain ⟨zd, hzd, rfl⟩ := hz
        simp only [Tm.holeFree] at hf
        unfold freeVarsS at h; dsimp only at h
        simp only [freeVars, ih1 _ _ _ _ _ hzd hf h]
      case bin op g a =>
        rw [Zk_bin] at hz
        obtain ⟨zd, zb, hzd, hzb, rfl⟩ := hz
        simp only [Tm.holeFree, Bool.and_eq_true] at hf
        unfold freeVarsS at h; dsimp only at h
        obtain ⟨x1, x2, e1, e2, rfl⟩ := appO_some h
        simp only [freeVars, ih1 _ _ _ _ _ hzd hf.1 e1, ih1 _ _ _ _ _ hzb hf.2 e2]
      case ite a c d =>
        rw [Zk_ite] at hz
        obtain ⟨za, zb, zd, hza, hzb, hzd, rfl⟩ := hz
        simp only [Tm.holeFree, Bool.and_eq_true] at hf
        unfold freeVarsS at h; dsimp only at h
        obtain ⟨x12, x3, e12, e3, rfl⟩ := appO_some h
        obtain ⟨x1, x2, e1, e2, rfl⟩ := appO_some e12
        simp only [freeVars, ih1 _ _ _ _ _ hza hf.1.1 e1, ih1 _ _ _ _ _ hzb hf.1.2 e2,
          ih1 _ _ _ _ _ hzd hf.2 e3]
      all_goals
        rw [Zk_leaf (by simp [Leaf])] at hz; subst hz
        simp only [freeVarsS, Option.some.injEq] at h
        simp only [freeVars, h]
    · intro σ ds zs i b hz hf h
      cases ds
      case nil =>
        rw [ZkD_nil] at hz; subst hz
        simp only [freeVarsDefsS, Option.some.injEq] at h
        simp only [freeVarsDefs, h]
      case cons x a d r =>
        rw [ZkD_cons] at hz
        obtain ⟨za, zd, zr, hza, hzd, hzr, rfl⟩ := hz
        simp only [Defs.holeFree, Bool.and_eq_true] at hf
        unfold freeVarsDefsS at h; dsimp only at h
        obtain ⟨x12, x3, e12, e3, rfl⟩ := appO_some h
        obtain ⟨x1, x2, e1, e2, rfl⟩ := appO_some e12
        simp only [freeVarsDefs, ih1 _ _ _ _ _ hza hf.1.1 e1, ih1 _ _ _ _ _ hzd hf.1.2 e2,
          ih2 _ _ _ _ _ hzr hf.2 e3]

theorem freeVarsS_transparent {f c : Nat} {σ : List (Option Tm)} {t z : Tm} {l : List Nat}
    (hz : Zk σ t z) (hf : z.holeFree = true) (h : freeVarsS f σ t c = some l) : l = freeVars z c :=
  (freeVarsS_solved f).1 σ t z c l hz hf h

/-! ## `sshift` keeps hole-freeness -/

mutual
theorem sshift_hf : ∀ (t : Tm) (c : Nat) (amt : Int) (r : Tm), sshift c amt t = some r →
    r.holeFree = t.holeFree
  | .var x i, c, amt, r, h => by
      simp only [sshift] at h
      split at h
      · split at h
        · cases h; rfl
        · cases h
      · cases h; rfl
  | .hole x i, c, amt, r, h => by
      simp only [sshift] at h
      split at h
      · split at h
        · cases h; rfl
        · cases h
      · cases h; rfl
  | .lam x im d b, c, amt, r, h => by
      simp only [sshift] at h
      cases h1 : sshift c amt d with
      | none => simp [h1] at h
      | some d' =>
        cases h2 : sshift (c+1) amt b with
        | none => simp [h1, h2] at h
        | some b' =>
          simp only [h1, h2, Option.some.injEq] at h; subst h
          simp only [Tm.holeFree, sshift_hf d _ _ _ h1, sshift_hf b _ _ _ h2]
  | .pi x im d b, c, amt, r, h => by
      simp only [sshift] at h
      cases h1 : sshift c amt d with
      | none => simp [h1] at h
      | some d' =>
        cases h2 : sshift (c+1) amt b with
        | none => simp [h1, h2] at h
        | some b' =>
          simp only [h1, h2, Option.some.injEq] at h; subst h
          simp only [Tm.holeFree, sshift_hf d _ _ _ h1, sshift_hf b _ _ _ h2]
  | .app d b, c, amt, r, h => by
      simp only [sshift] at h
      cases h1 : sshift c amt d with
      | none => simp [h1] at h
      | some d' =>
        cases h2 : sshift c amt b with
        | none => simp [h1, h2] at h
        | some b' =>
          simp only [h1, h2, Option.some.injEq] at h; subst h
          simp only [Tm.holeFree, sshift_hf d _ _ _ h1, sshift_hf b _ _ _ h2]
  | .bin op d b, c, amt, r, h => by
      simp only [sshift] at h
      cases h1 : sshift c amt d with
      | none => simp [h1] at h
      | some d' =>
        cases h2 : sshift c amt b with
        | none => simp [h1, h2] at h
        | some b' =>
          simp only [h1, h2, Option.some.injEq] at h; subst h
          simp only [Tm.holeFree, sshift_hf d _ _ _ h1, sshift_hf b _ _ _ h2]
  | .letg ds b, c, amt, r, h => by
      simp only [sshift] at h
      cases h1 : sshiftDefs (c + ds.len) amt ds with
      | none => simp [h1] at h
      | some d' =>
        cases h2 : sshift (c + ds.len) amt b with
        | none => simp [h1, h2] at h
        | some b' =>
          simp only [h1, h2, Option.some.injEq] at h; subst h
          simp only [Tm.holeFree, sshiftDefs_hf ds _ _ _ h1, sshift_hf b _ _ _ h2]
  | .neg d, c, amt, r, h => by
      simp only [sshift] at h
      cases h1 : sshift c amt d with
      | none => simp [h1] at h
      | some d' =>
        simp only [h1, Option.some.injEq] at h; subst h
        simp only [Tm.holeFree, sshift_hf d _ _ _ h1]
  | .ite a d b, c, amt, r, h => by
      simp only [sshift] at h
      cases h0 : sshift c amt a with
      | none => simp [h0] at h
      | some a' =>
        cases h1 : sshift c amt d with
        | none => simp [h0, h1] at h
        | some d' =>
          cases h2 : sshift c amt b with
          | none => simp [h0, h1, h2] at h
          | some b' =>
            simp only [h0, h1, h2, Option.some.injEq] at h; subst h
            simp only [Tm.holeFree, sshift_hf a _ _ _ h0, sshift_hf d _ _ _ h1, sshift_hf b _ _ _ h2]
  | .type, _, _, r, h | .int, _, _, r, h | .bool, _, _, r, h | .tt, _, _, r, h | .ff, _, _, r, h
  | .lit _, _, _, r, h => by simp only [sshift, Option.some.injEq] at h; subst h; rfl
theorem sshiftDefs_hf : ∀ (ds : Defs) (c : Nat) (amt : Int) (r : Defs), sshiftDefs c amt ds = some r →
    r.holeFree = ds.holeFree
  | .nil, _, _, r, h => by simp only [sshiftDefs, Option.some.injEq] at h; subst h; rfl
  | .cons x a d b, c, amt, r, h => by
      simp only [sshiftDefs] at h
      cases h0 : sshift c amt a with
      | none => simp [h0] at h
      | some a' =>
        cases h1 : sshift c amt d with
        | none => simp [h0, h1] at h
        | some d' =>
          cases h2 : sshiftDefs c amt b with
          | none => simp [h0, h1, h2] at h
          | some b' =>
            simp only [h0, h1, h2, Option.some.injEq] at h; subst h
            simp only [Defs.holeFree, sshift_hf a _ _ _ h0, sshift_hf d _ _ _ h1,
              sshiftDefs_hf b _ _ _ h2]
end

/-! ## Totality: with enough fuel the store-aware shift answers on a fully solved term -/

theorem bind_run {α β} (m : M α) (k : α → M β) (s : St) :
    (m >>= k) s = match m s with | .ok a s' => k a s' | .fuel => .fuel | .panic p => .panic p := rfl
theorem pure_run {α} (a : α) (s : St) : (pure a : M α) s = .ok a s := rfl

mutual
theorem ushift_size : ∀ (t : Tm) (c a : Nat), (ushift c a t).size = t.size
  | .var x i, c, a => by simp only [ushift]; split <;> rfl
  | .hole id s, c, a => by simp only [ushift]; split <;> rfl
  | .lam x im d b, c, a => by simp only [ushift, Tm.size, ushift_size d, ushift_size b]
  | .pi x im d b, c, a => by simp only [ushift, Tm.size, ushift_size d, ushift_size b]
  | .app f g, c, a => by simp only [ushift, Tm.size, ushift_size f, ushift_size g]
  | .letg ds b, c, a => by simp only [ushift, Tm.size, ushiftDefs_size ds, ushift_size b]
  | .neg t, c, a => by simp only [ushift, Tm.size, ushift_size t]
  | .bin op t u, c, a => by simp only [ushift, Tm.size, ushift_size t, ushift_size u]
  | .ite t u v, c, a => by simp only [ushift, Tm.size, ushift_size t, ushift_size u, ushift_size v]
  | .type, _, _ | .int, _, _ | .bool, _, _ | .tt, _, _ | .ff, _, _ | .lit _, _, _ => by
      simp only [ushift]
theorem ushiftDefs_size : ∀ (ds : Defs) (c a : Nat), (ushiftDefs c a ds).size = ds.size
  | .nil, _, _ => by simp only [ushiftDefs]
  | .cons x t u r, c, a => by
      simp only [ushiftDefs, Defs.size, ushift_size t, ushift_size u, ushiftDefs_size r]
end

mutual
theorem sshiftS_hf_ok : ∀ (t : Tm) (f c : Nat) (amt : Int) (s : St), t.holeFree = true → t.size < f →
    sshiftS f c amt t s = .ok (sshift c amt t) s
  | _, 0, _, _, _, _, hs => by omega
  | .hole _ _, _+1, _, _, _, h, _ => by cases h
  | .type, _+1, _, _, _, _, _ | .int, _+1, _, _, _, _, _ | .bool, _+1, _, _, _, _, _
  | .tt, _+1, _, _, _, _, _ | .ff, _+1, _, _, _, _, _ | .lit _, _+1, _, _, _, _, _ => by
      simp only [sshiftS, sshift, pure_run]
  | .var x i, _+1, c, amt, s, _, _ => by
      simp only [sshiftS, sshift]
      repeat' split
      all_goals rfl
  | .lam x im d b, f+1, c, amt, s, h, hs => by
      simp only [Tm.holeFree, Bool.and_eq_true] at h
      simp only [Tm.size] at hs
      have h1 := sshiftS_hf_ok d f c amt s h.1 (by omega)
      have h2 := sshiftS_hf_ok b f (c+1) amt s h.2 (by omega)
      simp only [sshiftS, sshift, bind_run, h1]
      cases sshift c amt d with
      | none => rfl
      | some d' =>
        simp only [bind_run, h2]
        cases sshift (c+1) amt b <;> rfl
  | .pi x im d b, f+1, c, amt, s, h, hs => by
      simp only [Tm.holeFree, Bool.and_eq_true] at h
      simp only [Tm.size] at hs
      have h1 := sshiftS_hf_ok d f c amt s h.1 (by omega)
      have h2 := sshiftS_hf_ok b f (c+1) amt s h.2 (by omega)
      simp only [sshiftS, sshift, bind_run, h1]
      cases sshift c amt d with
      | none => rfl
      | some d' =>
        simp only [bind_run, h2]
        cases sshift (c+1) amt b <;> rfl
  | .app d b, f+1, c, amt, s, h, hs => by
      simp only [Tm.holeFree, Bool.and_eq_true] at h
      simp only [Tm.size] at hs
      have h1 := sshiftS_hf_ok d f c amt s h.1 (by omega)
      have h2 := sshiftS_hf_ok b f c amt s h.2 (by omega)
      simp only [sshiftS, sshift, bind_run, h1]
      cases sshift c amt d with
      | none => rfl
      | some d' =>
        simp only [bind_run, h2]
        cases sshift c amt b <;> rfl
  | .bin op d b, f+1, c, amt, s, h, hs => by
      simp only [Tm.holeFree, Bool.and_eq_true] at h
      simp only [Tm.size] at hs
      have h1 := sshiftS_hf_ok d f c amt s h.1 (by omega)
      have h2 := sshiftS_hf_ok b f c amt s h.2 (by omega)
      simp only [sshiftS, sshift, bind_run, h1]
      cases sshift c amt d with
      | none => rfl
      | some d' =>
        simp only [bind_run, h2]
        cases sshift c amt b <;> rfl
  | .letg ds b, f+1, c, amt, s, h, hs => by
      simp only [Tm.holeFree, Bool.and_eq_true] at h
      simp only [Tm.size] at hs
      have h1 := sshiftDefsS_hf_ok ds f (c + ds.len) amt s h.1 (by omega)
      have h2 := sshiftS_hf_ok b f (c + ds.len) amt s h.2 (by omega)
      simp only [sshiftS, sshift, bind_run, h1]
      cases sshiftDefs (c + ds.len) amt ds with
      | none => rfl
      | some d' =>
        simp only [bind_run, h2]
        cases sshift (c + ds.len) amt b <;> rfl
  | .neg d, f+1, c, amt, s, h, hs => by
      simp only [Tm.holeFree] at h
      simp only [Tm.size] at hs
      have h1 := sshiftS_hf_ok d f c amt s h (by omega)
      simp only [sshiftS, sshift, bind_run, h1]
      cases sshift c amt d <;> rfl
  | .ite a d b, f+1, c, amt, s, h, hs => by
      simp only [Tm.holeFree, Bool.and_eq_true] at h
      simp only [Tm.size] at hs
      have h0 := sshiftS_hf_ok a f c amt s h.1.1 (by omega)
      have h1 := sshiftS_hf_ok d f c amt s h.1.2 (by omega)
      have h2 := sshiftS_hf_ok b f c amt s h.2 (by omega)
      simp only [sshiftS, sshift, bind_run, h0]
      cases sshift c amt a with
      | none => rfl
      | some a' =>
        simp only [bind_run, h1]
        cases sshift c amt d with
        | none => rfl
        | some d' =>
          simp only [bind_run, h2]
          cases sshift c amt b <;> rfl
theorem sshiftDefsS_hf_ok : ∀ (ds : Defs) (f c : Nat) (amt : Int) (s : St), ds.holeFree = true →
    ds.size < f → sshiftDefsS f c amt ds s = .ok (sshiftDefs c amt ds) s
  | _, 0, _, _, _, _, hs => by omega
  | .nil, _+1, _, _, _, _, _ => by simp only [sshiftDefsS, sshiftDefs, pure_run]
  | .cons x a d b, f+1, c, amt, s, h, hs => by
      simp only [Defs.holeFree, Bool.and_eq_true] at h
      simp only [Defs.size] at hs
      have h0 := sshiftS_hf_ok a f c amt s h.1.1 (by omega)
      have h1 := sshiftS_hf_ok d f c amt s h.1.2 (by omega)
      have h2 := sshiftDefsS_hf_ok b f c amt s h.2 (by omega)
      simp only [sshiftDefsS, sshiftDefs, bind_run, h0]
      cases sshift c amt a with
      | none => rfl
      | some a' =>
        simp only [bind_run, h1]
        cases sshift c amt d with
        | none => rfl
        | some d' =>
          simp only [bind_run, h2]
          cases sshiftDefs c amt b <;> rfl
end

/-- with enough fuel `sshiftS` answers on a fully solved term -/
theorem sshiftS_total_aux : ∀ (n : Nat) (s : St),
    (∀ t z f c amt, zonk n s.store t = some z → z.holeFree = true → n + z.size < f →
      sshiftS f c amt t s = .ok (sshift c amt z) s) ∧
    (∀ ds zs f c amt, zonkDefs n s.store ds = some zs → zs.holeFree = true → n + zs.size < f →
      sshiftDefsS f c amt ds s = .ok (sshiftDefs c amt zs) s) := by
  intro n s
  induction n with
  | zero => constructor <;> (intro t z f c amt h; simp [zonk, zonkDefs] at h)
  | succ n ih =>
    obtain ⟨ih1, ih2⟩ := ih
    constructor
    · intro t z f c amt hz hf hs
      cases f with
      | zero => omega
      | succ f =>
      cases t
      case hole id k =>
        simp only [zonk] at hz
        split at hz
        · next sub hsub =>
          cases hzs : zonk n s.store sub with
          | none => simp [hzs] at hz
          | some zs =>
            simp only [hzs, Option.some.injEq] at hz
            subst hz
            rw [ushift_holeFree] at hf
            rw [ushift_size] at hs
            have hv : cellVal s.store id = some sub := cellVal_some.2 hsub
            have h1 := ih1 sub zs f 0 (k : Int) hzs hf (by omega)
            rw [sshift_ushift] at h1
            have h2 := sshiftS_hf_ok (ushift 0 k zs) f c amt s
              (by rw [ushift_holeFree]; exact hf) (by rw [ushift_size]; omega)
            simp only [sshiftS]
            show (match cellVal s.store id with
              | some sub => _
              | none => _ : M (Option Tm)) s = _
            simp only [hv, bind_run, h1, h2]
        · simp only [Option.some.injEq] at hz; subst hz; cases hf
      case lam x im d b =>
        simp only [zonk] at hz
        cases hzd : zonk n s.store d with
        | none => simp [hzd] at hz
        | some zd =>
          cases hzb : zonk n s.store b with
          | none => simp [hzd, hzb] at hz
          | some zb =>
            simp only [hzd, hzb, Option.some.injEq] at hz
            subst hz
            simp only [Tm.holeFree, Bool.and_eq_true] at hf
            simp only [Tm.size] at hs
            have h1 := ih1 d zd f c amt hzd hf.1 (by omega)
            have h2 := ih1 b zb f (c+1) amt hzb hf.2 (by omega)
            skip
            simp only [sshiftS, sshift, bind_run, h1]
            cases sshift c amt zd with
            | none => rfl
            | some d' =>
              simp only [bind_run, h2]
              cases sshift (c+1) amt zb <;> rfl
      case pi x im d b =>
        simp only [zonk] at hz
        cases hzd : zonk n s.store d with
        | none => simp [hzd] at hz
        | some zd =>
          cases hzb : zonk n s.store b with
          | none => simp [hzd, hzb] at hz
          | some zb =>
            simp only [hzd, hzb, Option.some.injEq] at hz
            subst hz
            simp only [Tm.holeFree, Bool.and_eq_true] at hf
            simp only [Tm.size] at hs
            have h1 := ih1 d zd f c amt hzd hf.1 (by omega)
            have h2 := ih1 b zb f (c+1) amt hzb hf.2 (by omega)
            skip
            simp only [sshiftS, sshift, bind_run, h1]
            cases sshift c amt zd with
            | none => rfl
            | some d' =>
              simp only [bind_run, h2]
              cases sshift (c+1) amt zb <;> rfl
      case app d b =>
        simp only [zonk] at hz
        cases hzd : zonk n s.store d with
        | none => simp [hzd] at hz
        | some zd =>
          cases hzb : zonk n s.store b with
          | none => simp [hzd, hzb] at hz
          | some zb =>
            simp only [hzd, hzb, Option.some.injEq] at hz
            subst hz
            simp only [Tm.holeFree, Bool.and_eq_true] at hf
            simp only [Tm.size] at hs
            have h1 := ih1 d zd f c amt hzd hf.1 (by omega)
            have h2 := ih1 b zb f c amt hzb hf.2 (by omega)
            skip
            simp only [sshiftS, sshift, bind_run, h1]
            cases sshift c amt zd with
            | none => rfl
            | some d' =>
              simp only [bind_run, h2]
              cases sshift c amt zb <;> rfl
      case bin op d b =>
        simp only [zonk] at hz
        cases hzd : zonk n s.store d with
        | none => simp [hzd] at hz
        | some zd =>
          cases hzb : zonk n s.store b with
          | none => simp [hzd, hzb] at hz
          | some zb =>
            simp only [hzd, hzb, Option.some.injEq] at hz
            subst hz
            simp only [Tm.holeFree, Bool.and_eq_true] at hf
            simp only [Tm.size] at hs
            have h1 := ih1 d zd f c amt hzd hf.1 (by omega)
            have h2 := ih1 b zb f c amt hzb hf.2 (by omega)
            skip
            simp only [sshiftS, sshift, bind_run, h1]
            cases sshift c amt zd with
            | none => rfl
            | some d' =>
              simp only [bind_run, h2]
              cases sshift c amt zb <;> rfl
      case letg ds b =>
        simp only [zonk] at hz
        cases hzd : zonkDefs n s.store ds with
        | none => simp [hzd] at hz
        | some zd =>
          cases hzb : zonk n s.store b with
          | none => simp [hzd, hzb] at hz
          | some zb =>
            simp only [hzd, hzb, Option.some.injEq] at hz
            subst hz
            simp only [Tm.holeFree, Bool.and_eq_true] at hf
            simp only [Tm.size] at hs
            have h1 := ih2 ds zd f (c + ds.len) amt hzd hf.1 (by omega)
            have h2 := ih1 b zb f (c + ds.len) amt hzb hf.2 (by omega)
            have hl : zd.len = ds.len := ZkD_len ⟨n, hzd⟩
            simp only [sshiftS, sshift, bind_run, h1, hl]
            cases sshiftDefs (c + ds.len) amt zd with
            | none => rfl
            | some d' =>
              simp only [bind_run, h2]
              cases sshift (c + ds.len) amt zb <;> rfl
      case neg d =>
        simp only [zonk] at hz
        cases hzd : zonk n s.store d with
        | none => simp [hzd] at hz
        | some zd =>
          simp only [hzd, Option.some.injEq] at hz
          subst hz
          simp only [Tm.holeFree] at hf
          simp only [Tm.size] at hs
          have h1 := ih1 d zd f c amt hzd hf (by omega)
          simp only [sshiftS, sshift, bind_run, h1]
          cases sshift c amt zd <;> rfl
      case ite a d b =>
        simp only [zonk] at hz
        cases hza : zonk n s.store a with
        | none => simp [hza] at hz
        | some za =>
          cases hzd : zonk n s.store d with
          | none => simp [hza, hzd] at hz
          | some zd =>
            cases hzb : zonk n s.store b with
            | none => simp [hza, hzd, hzb] at hz
            | some zb =>
              simp only [hza, hzd, hzb, Option.some.injEq] at hz
              subst hz
              simp only [Tm.holeFree, Bool.and_eq_true] at hf
              simp only [Tm.size] at hs
              have h0 := ih1 a za f c amt hza hf.1.1 (by omega)
              have h1 := ih1 d zd f c amt hzd hf.1.2 (by omega)
              have h2 := ih1 b zb f c amt hzb hf.2 (by omega)
              simp only [sshiftS, sshift, bind_run, h0]
              cases sshift c amt za with
              | none => rfl
              | some a' =>
                simp only [bind_run, h1]
                cases sshift c amt zd with
                | none => rfl
                | some d' =>
                  simp only [bind_run, h2]
                  cases sshift c amt zb <;> rfl
      case var x i =>
        simp only [zonk, Option.some.injEq] at hz; subst hz
        simp only [sshiftS, sshift]
        repeat' split
        all_goals rfl
      all_goals
        simp only [zonk, Option.some.injEq] at hz; subst hz
        simp only [sshiftS, sshift, pure_run]
    · intro ds zs f c amt hz hf hs
      cases f with
      | zero => omega
      | succ f =>
      cases ds
      case nil =>
        simp only [zonkDefs, Option.some.injEq] at hz; subst hz
        simp only [sshiftDefsS, sshiftDefs, pure_run]
      case cons x a d b =>
        simp only [zonkDefs] at hz
        cases hza : zonk n s.store a with
        | none => simp [hza] at hz
        | some za =>
          cases hzd : zonk n s.store d with
          | none => simp [hza, hzd] at hz
          | some zd =>
            cases hzb : zonkDefs n s.store b with
            | none => simp [hza, hzd, hzb] at hz
            | some zb =>
              simp only [hza, hzd, hzb, Option.some.injEq] at hz
              subst hz
              simp only [Defs.holeFree, Bool.and_eq_true] at hf
              simp only [Defs.size] at hs
              have h0 := ih1 a za f c amt hza hf.1.1 (by omega)
              have h1 := ih1 d zd f c amt hzd hf.1.2 (by omega)
              have h2 := ih2 b zb f c amt hzb hf.2 (by omega)
              simp only [sshiftDefsS, sshiftDefs, bind_run, h0]
              cases sshift c amt za with
              | none => rfl
              | some a' =>
                simp only [bind_run, h1]
                cases sshift c amt zd with
                | none => rfl
                | some d' =>
                  simp only [bind_run, h2]
                  cases sshiftDefs c amt zb <;> rfl

theorem sshiftS_total {n f c : Nat} {amt : Int} {t z : Tm} {s : St}
    (hz : zonk n s.store t = some z) (hf : z.holeFree = true) (hfu : n + z.size < f) :
    sshiftS f c amt t s = .ok (sshift c amt z) s :=
  (sshiftS_total_aux n s).1 t z f c amt hz hf hfu

theorem ushiftS_total {n f c a : Nat} {t z : Tm} {s : St}
    (hz : zonk n s.store t = some z) (hf : z.holeFree = true) (hfu : n + z.size < f) :
    ushiftS f c a t s = .ok (ushift c a z) s := by
  unfold ushiftS
  simp only [bind_run, sshiftS_total hz hf hfu, sshift_ushift, pure_run]

/-! ## Totality of `openS` and `freeAtS` on fully solved terms -/

theorem cellGet_run {β} (id : Nat) (k : Option Tm → M β) (s : St) :
    (cellGet id >>= k) s = k (cellVal s.store id) s := rfl

mutual
/-- `openS` on a hole-free term with a fully solved argument answers, with fuel above the sizes -/
theorem openS_hf_ok {m : Nat} {u zu : Tm} {s : St} (hzu : zonk m s.store u = some zu)
    (hfu : zu.holeFree = true) : ∀ (t : Tm) (f i sh : Nat), t.holeFree = true →
    t.size + m + zu.size < f → openS f t i u sh s = .ok (openT t i zu sh) s
  | _, 0, _, _, _, hs => by omega
  | .hole _ _, _+1, _, _, h, _ => by cases h
  | .type, _+1, _, _, _, _ | .int, _+1, _, _, _, _ | .bool, _+1, _, _, _, _
  | .tt, _+1, _, _, _, _ | .ff, _+1, _, _, _, _ | .lit _, _+1, _, _, _, _ => by
      simp only [openS, openT, pure_run]
  | .var x j, f+1, i, sh, _, hs => by
      simp only [Tm.size] at hs
      simp only [openS, openT]
      split
      · exact ushiftS_total hzu hfu (by omega)
      · split <;> simp only [pure_run] <;> simp_all
  | .lam x im d b, f+1, i, sh, h, hs => by
      simp only [Tm.holeFree, Bool.and_eq_true] at h
      simp only [Tm.size] at hs
      have h1 := openS_hf_ok hzu hfu d f i sh h.1 (by omega)
      have h2 := openS_hf_ok hzu hfu b f (i+1) (sh+1) h.2 (by omega)
      simp only [openS, openT, bind_run, h1, h2, pure_run]
  | .pi x im d b, f+1, i, sh, h, hs => by
      simp only [Tm.holeFree, Bool.and_eq_true] at h
      simp only [Tm.size] at hs
      have h1 := openS_hf_ok hzu hfu d f i sh h.1 (by omega)
      have h2 := openS_hf_ok hzu hfu b f (i+1) (sh+1) h.2 (by omega)
      simp only [openS, openT, bind_run, h1, h2, pure_run]
  | .app d b, f+1, i, sh, h, hs => by
      simp only [Tm.holeFree, Bool.and_eq_true] at h
      simp only [Tm.size] at hs
      have h1 := openS_hf_ok hzu hfu d f i sh h.1 (by omega)
      have h2 := openS_hf_ok hzu hfu b f i sh h.2 (by omega)
      simp only [openS, openT, bind_run, h1, h2, pure_run]
  | .bin op d b, f+1, i, sh, h, hs => by
      simp only [Tm.holeFree, Bool.and_eq_true] at h
      simp only [Tm.size] at hs
      have h1 := openS_hf_ok hzu hfu d f i sh h.1 (by omega)
      have h2 := openS_hf_ok hzu hfu b f i sh h.2 (by omega)
      simp only [openS, openT, bind_run, h1, h2, pure_run]
  | .letg ds b, f+1, i, sh, h, hs => by
      simp only [Tm.holeFree, Bool.and_eq_true] at h
      simp only [Tm.size] at hs
      have h1 := openDefsS_hf_ok hzu hfu ds f (i + ds.len) (sh + ds.len) h.1 (by omega)
      have h2 := openS_hf_ok hzu hfu b f (i + ds.len) (sh + ds.len) h.2 (by omega)
      simp only [openS, openT, bind_run, h1, h2, pure_run]
  | .neg d, f+1, i, sh, h, hs => by
      simp only [Tm.holeFree] at h
      simp only [Tm.size] at hs
      have h1 := openS_hf_ok hzu hfu d f i sh h (by omega)
      simp only [openS, openT, bind_run, h1, pure_run]
  | .ite a d b, f+1, i, sh, h, hs => by
      simp only [Tm.holeFree, Bool.and_eq_true] at h
      simp only [Tm.size] at hs
      have h0 := openS_hf_ok hzu hfu a f i sh h.1.1 (by omega)
      have h1 := openS_hf_ok hzu hfu d f i sh h.1.2 (by omega)
      have h2 := openS_hf_ok hzu hfu b f i sh h.2 (by omega)
      simp only [openS, openT, bind_run, h0, h1, h2, pure_run]
theorem openDefsS_hf_ok {m : Nat} {u zu : Tm} {s : St} (hzu : zonk m s.store u = some zu)
    (hfu : zu.holeFree = true) : ∀ (ds : Defs) (f i sh : Nat), ds.holeFree = true →
    ds.size + m + zu.size < f → openDefsS f ds i u sh s = .ok (openDefs ds i zu sh) s
  | _, 0, _, _, _, hs => by omega
  | .nil, _+1, _, _, _, _ => by simp only [openDefsS, openDefs, pure_run]
  | .cons x a d b, f+1, i, sh, h, hs => by
      simp only [Defs.holeFree, Bool.and_eq_true] at h
      simp only [Defs.size] at hs
      have h0 := openS_hf_ok hzu hfu a f i sh h.1.1 (by omega)
      have h1 := openS_hf_ok hzu hfu d f i sh h.1.2 (by omega)
      have h2 := openDefsS_hf_ok hzu hfu b f i sh h.2 (by omega)
      simp only [openDefsS, openDefs, bind_run, h0, h1, h2, pure_run]
end

theorem openS_total_aux {m : Nat} {u zu : Tm} {s : St} (hzu : zonk m s.store u = some zu)
    (hfu : zu.holeFree = true) : ∀ (n : Nat),
    (∀ t z f i sh, zonk n s.store t = some z → z.holeFree = true → n + z.size + m + zu.size < f →
      openS f t i u sh s = .ok (openT z i zu sh) s) ∧
    (∀ ds zs f i sh, zonkDefs n s.store ds = some zs → zs.holeFree = true →
      n + zs.size + m + zu.size < f → openDefsS f ds i u sh s = .ok (openDefs zs i zu sh) s) := by
  intro n
  induction n with
  | zero => constructor <;> (intro t z f i sh h; simp [zonk, zonkDefs] at h)
  | succ n ih =>
    obtain ⟨ih1, ih2⟩ := ih
    constructor
    · intro t z f i sh hz hf hs
      cases f with
      | zero => omega
      | succ f =>
      cases t
      case hole id k =>
        simp only [zonk] at hz
        split at hz
        · next sub hsub =>
          cases hzs : zonk n s.store sub with
          | none => simp [hzs] at hz
          | some zs =>
            simp only [hzs, Option.some.injEq] at hz
            subst hz
            have hf' := hf
            rw [ushift_holeFree] at hf'
            rw [ushift_size] at hs
            have hv : cellVal s.store id = some sub := cellVal_some.2 hsub
            have h1 : ushiftS f 0 k sub s = .ok (ushift 0 k zs) s :=
              ushiftS_total hzs hf' (by omega)
            have h2 := openS_hf_ok hzu hfu (ushift 0 k zs) f i sh hf (by rw [ushift_size]; omega)
            simp only [openS]
            rw [cellGet_run, hv]
            simp only [bind_run, h1, h2]
        · simp only [Option.some.injEq] at hz; subst hz; cases hf
      case lam x im d b =>
        simp only [zonk] at hz
        cases hzd : zonk n s.store d with
        | none => simp [hzd] at hz
        | some zd =>
          cases hzb : zonk n s.store b with
          | none => simp [hzd, hzb] at hz
          | some zb =>
            simp only [hzd, hzb, Option.some.injEq] at hz
            subst hz
            simp only [Tm.holeFree, Bool.and_eq_true] at hf
            simp only [Tm.size] at hs
            have h1 := ih1 d zd f i sh hzd hf.1 (by omega)
            have h2 := ih1 b zb f (i+1) (sh+1) hzb hf.2 (by omega)
            skip
            simp only [openS, openT, bind_run, h1, h2, pure_run]
      case pi x im d b =>
        simp only [zonk] at hz
        cases hzd : zonk n s.store d with
        | none => simp [hzd] at hz
        | some zd =>
          cases hzb : zonk n s.store b with
          | none => simp [hzd, hzb] at hz
          | some zb =>
            simp only [hzd, hzb, Option.some.injEq] at hz
            subst hz
            simp only [Tm.holeFree, Bool.and_eq_true] at hf
            simp only [Tm.size] at hs
            have h1 := ih1 d zd f i sh hzd hf.1 (by omega)
            have h2 := ih1 b zb f (i+1) (sh+1) hzb hf.2 (by omega)
            skip
            simp only [openS, openT, bind_run, h1, h2, pure_run]
      case app d b =>
        simp only [zonk] at hz
        cases hzd : zonk n s.store d with
        | none => simp [hzd] at hz
        | some zd =>
          cases hzb : zonk n s.store b with
          | none => simp [hzd, hzb] at hz
          | some zb =>
            simp only [hzd, hzb, Option.some.injEq] at hz
            subst hz
            simp only [Tm.holeFree, Bool.and_eq_true] at hf
            simp only [Tm.size] at hs
            have h1 := ih1 d zd f i sh hzd hf.1 (by omega)
            have h2 := ih1 b zb f i sh hzb hf.2 (by omega)
            skip
            simp only [openS, openT, bind_run, h1, h2, pure_run]
      case bin op d b =>
        simp only [zonk] at hz
        cases hzd : zonk n s.store d with
        | none => simp [hzd] at hz
        | some zd =>
          cases hzb : zonk n s.store b with
          | none => simp [hzd, hzb] at hz
          | some zb =>
            simp only [hzd, hzb, Option.some.injEq] at hz
            subst hz
            simp only [Tm.holeFree, Bool.and_eq_true] at hf
            simp only [Tm.size] at hs
            have h1 := ih1 d zd f i sh hzd hf.1 (by omega)
            have h2 := ih1 b zb f i sh hzb hf.2 (by omega)
            skip
            simp only [openS, openT, bind_run, h1, h2, pure_run]
      case letg ds b =>
        simp only [zonk] at hz
        cases hzd : zonkDefs n s.store ds with
        | none => simp [hzd] at hz
        | some zd =>
          cases hzb : zonk n s.store b with
          | none => simp [hzd, hzb] at hz
          | some zb =>
            simp only [hzd, hzb, Option.some.injEq] at hz
            subst hz
            simp only [Tm.holeFree, Bool.and_eq_true] at hf
            simp only [Tm.size] at hs
            have h1 := ih2 ds zd f (i + ds.len) (sh + ds.len) hzd hf.1 (by omega)
            have h2 := ih1 b zb f (i + ds.len) (sh + ds.len) hzb hf.2 (by omega)
            have hl : zd.len = ds.len := ZkD_len ⟨n, hzd⟩
            simp only [openS, openT, bind_run, h1, h2, pure_run, hl]
      case neg d =>
        simp only [zonk] at hz
        cases hzd : zonk n s.store d with
        | none => simp [hzd] at hz
        | some zd =>
          simp only [hzd, Option.some.injEq] at hz
          subst hz
          simp only [Tm.holeFree] at hf
          simp only [Tm.size] at hs
          have h1 := ih1 d zd f i sh hzd hf (by omega)
          simp only [openS, openT, bind_run, h1, pure_run]
      case ite a d b =>
        simp only [zonk] at hz
        cases hza : zonk n s.store a with
        | none => simp [hza] at hz
        | some za =>
          cases hzd : zonk n s.store d with
          | none => simp [hza, hzd] at hz
          | some zd =>
            cases hzb : zonk n s.store b with
            | none => simp [hza, hzd, hzb] at hz
            | some zb =>
              simp only [hza, hzd, hzb, Option.some.injEq] at hz
              subst hz
              simp only [Tm.holeFree, Bool.and_eq_true] at hf
              simp only [Tm.size] at hs
              have h0 := ih1 a za f i sh hza hf.1.1 (by omega)
              have h1 := ih1 d zd f i sh hzd hf.1.2 (by omega)
              have h2 := ih1 b zb f i sh hzb hf.2 (by omega)
              simp only [openS, openT, bind_run, h0, h1, h2, pure_run]
      case var x j =>
        simp only [zonk, Option.some.injEq] at hz; subst hz
        simp only [Tm.size] at hs
        simp only [openS, openT]
        split
        · exact ushiftS_total hzu hfu (by omega)
        · split <;> simp only [pure_run] <;> simp_all
      all_goals
        simp only [zonk, Option.some.injEq] at hz; subst hz
        simp only [openS, openT, pure_run]
    · intro ds zs f i sh hz hf hs
      cases f with
      | zero => omega
      | succ f =>
      cases ds
      case nil =>
        simp only [zonkDefs, Option.some.injEq] at hz; subst hz
        simp only [openDefsS, openDefs, pure_run]
      case cons x a d b =>
        simp only [zonkDefs] at hz
        cases hza : zonk n s.store a with
        | none => simp [hza] at hz
        | some za =>
          cases hzd : zonk n s.store d with
          | none => simp [hza, hzd] at hz
          | some zd =>
            cases hzb : zonkDefs n s.store b with
            | none => simp [hza, hzd, hzb] at hz
            | some zb =>
              simp only [hza, hzd, hzb, Option.some.injEq] at hz
              subst hz
              simp only [Defs.holeFree, Bool.and_eq_true] at hf
              simp only [Defs.size] at hs
              have h0 := ih1 a za f i sh hza hf.1.1 (by omega)
              have h1 := ih1 d zd f i sh hzd hf.1.2 (by omega)
              have h2 := ih2 b zb f i sh hzb hf.2 (by omega)
              simp only [openDefsS, openDefs, bind_run, h0, h1, h2, pure_run]

theorem openS_total {n m f i sh : Nat} {t u zt zu : Tm} {s : St}
    (hz : zonk n s.store t = some zt) (hf : zt.holeFree = true)
    (hzu : zonk m s.store u = some zu) (hfu : zu.holeFree = true)
    (hfuel : n + zt.size + m + zu.size < f) :
    openS f t i u sh s = .ok (openT zt i zu sh) s :=
  (openS_total_aux hzu hfu n).1 t zt f i sh hz hf hfuel

mutual
theorem freeAtS_hf_ok (σ : List (Option Tm)) : ∀ (t : Tm) (f i : Nat), t.holeFree = true →
    t.size < f → freeAtS f σ t i = some (freeAt t i)
  | _, 0, _, _, hs => by omega
  | .hole _ _, _+1, _, h, _ => by cases h
  | .type, _+1, _, _, _ | .int, _+1, _, _, _ | .bool, _+1, _, _, _
  | .tt, _+1, _, _, _ | .ff, _+1, _, _, _ | .lit _, _+1, _, _, _ | .var _ _, _+1, _, _, _ => by
      simp only [freeAtS, freeAt]
  | .lam x im d b, f+1, i, h, hs => by
      simp only [Tm.holeFree, Bool.and_eq_true] at h
      simp only [Tm.size] at hs
      simp only [freeAtS, freeAt, orO, freeAtS_hf_ok σ d f i h.1 (by omega),
        freeAtS_hf_ok σ b f (i+1) h.2 (by omega)]
  | .pi x im d b, f+1, i, h, hs => by
      simp only [Tm.holeFree, Bool.and_eq_true] at h
      simp only [Tm.size] at hs
      simp only [freeAtS, freeAt, orO, freeAtS_hf_ok σ d f i h.1 (by omega),
        freeAtS_hf_ok σ b f (i+1) h.2 (by omega)]
  | .app d b, f+1, i, h, hs => by
      simp only [Tm.holeFree, Bool.and_eq_true] at h
      simp only [Tm.size] at hs
      simp only [freeAtS, freeAt, orO, freeAtS_hf_ok σ d f i h.1 (by omega),
        freeAtS_hf_ok σ b f i h.2 (by omega)]
  | .bin op d b, f+1, i, h, hs => by
      simp only [Tm.holeFree, Bool.and_eq_true] at h
      simp only [Tm.size] at hs
      simp only [freeAtS, freeAt, orO, freeAtS_hf_ok σ d f i h.1 (by omega),
        freeAtS_hf_ok σ b f i h.2 (by omega)]
  | .letg ds b, f+1, i, h, hs => by
      simp only [Tm.holeFree, Bool.and_eq_true] at h
      simp only [Tm.size] at hs
      simp only [freeAtS, freeAt, orO, freeAtDefsS_hf_ok σ ds f (i + ds.len) h.1 (by omega),
        freeAtS_hf_ok σ b f (i + ds.len) h.2 (by omega)]
  | .neg d, f+1, i, h, hs => by
      simp only [Tm.holeFree] at h
      simp only [Tm.size] at hs
      simp only [freeAtS, freeAt, freeAtS_hf_ok σ d f i h (by omega)]
  | .ite a d b, f+1, i, h, hs => by
      simp only [Tm.holeFree, Bool.and_eq_true] at h
      simp only [Tm.size] at hs
      simp only [freeAtS, freeAt, orO, freeAtS_hf_ok σ a f i h.1.1 (by omega),
        freeAtS_hf_ok σ d f i h.1.2 (by omega), freeAtS_hf_ok σ b f i h.2 (by omega)]
theorem freeAtDefsS_hf_ok (σ : List (Option Tm)) : ∀ (ds : Defs) (f i : Nat), ds.holeFree = true →
    ds.size < f → freeAtDefsS f σ ds i = some (freeAtDefs ds i)
  | _, 0, _, _, hs => by omega
  | .nil, _+1, _, _, _ => by simp only [freeAtDefsS, freeAtDefs]
  | .cons x a d b, f+1, i, h, hs => by
      simp only [Defs.holeFree, Bool.and_eq_true] at h
      simp only [Defs.size] at hs
      simp only [freeAtDefsS, freeAtDefs, orO, freeAtS_hf_ok σ a f i h.1.1 (by omega),
        freeAtS_hf_ok σ d f i h.1.2 (by omega), freeAtDefsS_hf_ok σ b f i h.2 (by omega)]
end

theorem freeAtS_total_aux (σ : List (Option Tm)) : ∀ (n : Nat),
    (∀ t z f i, zonk n σ t = some z → z.holeFree = true → n + z.size < f →
      freeAtS f σ t i = some (freeAt z i)) ∧
    (∀ ds zs f i, zonkDefs n σ ds = some zs → zs.holeFree = true → n + zs.size < f →
      freeAtDefsS f σ ds i = some (freeAtDefs zs i)) := by
  intro n
  induction n with
  | zero => constructor <;> (intro t z f i h; simp [zonk, zonkDefs] at h)
  | succ n ih =>
    obtain ⟨ih1, ih2⟩ := ih
    constructor
    · intro t z f i hz hf hs
      cases f with
      | zero => omega
      | succ f =>
      cases t
      case hole id k =>
        simp only [zonk] at hz
        split at hz
        · next sub hsub =>
          cases hzs : zonk n σ sub with
          | none => simp [hzs] at hz
          | some zs =>
            simp only [hzs, Option.some.injEq] at hz
            subst hz
            have hf' := hf
            rw [ushift_holeFree] at hf'
            rw [ushift_size] at hs
            have h1 : sshiftS f 0 (k : Int) sub { store := σ } = .ok (sshift 0 (k : Int) zs) { store := σ } :=
              sshiftS_total (s := { store := σ }) hzs hf' (by omega)
            rw [sshift_ushift] at h1
            have h2 := freeAtS_hf_ok σ (ushift 0 k zs) f i hf (by rw [ushift_size]; omega)
            simp only [freeAtS, hsub, h1, h2]
        · simp only [Option.some.injEq] at hz; subst hz; cases hf
      case lam x im d b =>
        simp only [zonk] at hz
        cases hzd : zonk n σ d with
        | none => simp [hzd] at hz
        | some zd =>
          cases hzb : zonk n σ b with
          | none => simp [hzd, hzb] at hz
          | some zb =>
            simp only [hzd, hzb, Option.some.injEq] at hz
            subst hz
            simp only [Tm.holeFree, Bool.and_eq_true] at hf
            simp only [Tm.size] at hs
            have h1 := ih1 d zd f i hzd hf.1 (by omega)
            have h2 := ih1 b zb f (i+1) hzb hf.2 (by omega)
            skip
            simp only [freeAtS, freeAt, h1, h2, orO]
      case pi x im d b =>
        simp only [zonk] at hz
        cases hzd : zonk n σ d with
        | none => simp [hzd] at hz
        | some zd =>
          cases hzb : zonk n σ b with
          | none => simp [hzd, hzb] at hz
          | some zb =>
            simp only [hzd, hzb, Option.some.injEq] at hz
            subst hz
            simp only [Tm.holeFree, Bool.and_eq_true] at hf
            simp only [Tm.size] at hs
            have h1 := ih1 d zd f i hzd hf.1 (by omega)
            have h2 := ih1 b zb f (i+1) hzb hf.2 (by omega)
            skip
            simp only [freeAtS, freeAt, h1, h2, orO]
      case app d b =>
        simp only [zonk] at hz
        cases hzd : zonk n σ d with
        | none => simp [hzd] at hz
        | some zd =>
          cases hzb : zonk n σ b with
          | none => simp [hzd, hzb] at hz
          | some zb =>
            simp only [hzd, hzb, Option.some.injEq] at hz
            subst hz
            simp only [Tm.holeFree, Bool.and_eq_true] at hf
            simp only [Tm.size] at hs
            have h1 := ih1 d zd f i hzd hf.1 (by omega)
            have h2 := ih1 b zb f i hzb hf.2 (by omega)
            skip
            simp only [freeAtS, freeAt, h1, h2, orO]
      case bin op d b =>
        simp only [zonk] at hz
        cases hzd : zonk n σ d with
        | none => simp [hzd] at hz
        | some zd =>
          cases hzb : zonk n σ b with
          | none => simp [hzd, hzb] at hz
          | some zb =>
            simp only [hzd, hzb, Option.some.injEq] at hz
            subst hz
            simp only [Tm.holeFree, Bool.and_eq_true] at hf
            simp only [Tm.size] at hs
            have h1 := ih1 d zd f i hzd hf.1 (by omega)
            have h2 := ih1 b zb f i hzb hf.2 (by omega)
            skip
            simp only [freeAtS, freeAt, h1, h2, orO]
      case letg ds b =>
        simp only [zonk] at hz
        cases hzd : zonkDefs n σ ds with
        | none => simp [hzd] at hz
        | some zd =>
          cases hzb : zonk n σ b with
          | none => simp [hzd, hzb] at hz
          | some zb =>
            simp only [hzd, hzb, Option.some.injEq] at hz
            subst hz
            simp only [Tm.holeFree, Bool.and_eq_true] at hf
            simp only [Tm.size] at hs
            have h1 := ih2 ds zd f (i + ds.len) hzd hf.1 (by omega)
            have h2 := ih1 b zb f (i + ds.len) hzb hf.2 (by omega)
            have hl : zd.len = ds.len := ZkD_len ⟨n, hzd⟩
            simp only [freeAtS, freeAt, h1, h2, orO, hl]
      case neg d =>
        simp only [zonk] at hz
        cases hzd : zonk n σ d with
        | none => simp [hzd] at hz
        | some zd =>
          simp only [hzd, Option.some.injEq] at hz
          subst hz
          simp only [Tm.holeFree] at hf
          simp only [Tm.size] at hs
          have h1 := ih1 d zd f i hzd hf (by omega)
          simp only [freeAtS, freeAt, h1]
      case ite a d b =>
        simp only [zonk] at hz
        cases hza : zonk n σ a with
        | none => simp [hza] at hz
        | some za =>
          cases hzd : zonk n σ d with
          | none => simp [hza, hzd] at hz
          | some zd =>
            cases hzb : zonk n σ b with
            | none => simp [hza, hzd, hzb] at hz
            | some zb =>
              simp only [hza, hzd, hzb, Option.some.injEq] at hz
              subst hz
              simp only [Tm.holeFree, Bool.and_eq_true] at hf
              simp only [Tm.size] at hs
              have h0 := ih1 a za f i hza hf.1.1 (by omega)
              have h1 := ih1 d zd f i hzd hf.1.2 (by omega)
              have h2 := ih1 b zb f i hzb hf.2 (by omega)
              simp only [freeAtS, freeAt, h0, h1, h2, orO]
      all_goals
        simp only [zonk, Option.some.injEq] at hz; subst hz
        simp only [freeAtS, freeAt]
    · intro ds zs f i hz hf hs
      cases f with
      | zero => omega
      | succ f =>
      cases ds
      case nil =>
        simp only [zonkDefs, Option.some.injEq] at hz; subst hz
        simp only [freeAtDefsS, freeAtDefs]
      case cons x a d b =>
        simp only [zonkDefs] at hz
        cases hza : zonk n σ a with
        | none => simp [hza] at hz
        | some za =>
          cases hzd : zonk n σ d with
          | none => simp [hza, hzd] at hz
          | some zd =>
            cases hzb : zonkDefs n σ b with
            | none => simp [hza, hzd, hzb] at hz
            | some zb =>
              simp only [hza, hzd, hzb, Option.some.injEq] at hz
              subst hz
              simp only [Defs.holeFree, Bool.and_eq_true] at hf
              simp only [Defs.size] at hs
              have h0 := ih1 a za f i hza hf.1.1 (by omega)
              have h1 := ih1 d zd f i hzd hf.1.2 (by omega)
              have h2 := ih2 b zb f i hzb hf.2 (by omega)
              simp only [freeAtDefsS, freeAtDefs, h0, h1, h2, orO]

theorem freeAtS_total {n f i : Nat} {σ : List (Option Tm)} {t z : Tm}
    (hz : zonk n σ t = some z) (hf : z.holeFree = true) (hfuel : n + z.size < f) :
    freeAtS f σ t i = some (freeAt z i) :=
  (freeAtS_total_aux σ n).1 t z f i hz hf hfuel

/-! ## Observing a run (for `decide`d examples) -/

/-- the value and the final store of a successful run -/
def runOut {α} : R α → Option (α × List (Option Tm))
  | .ok a s => some (a, s.store)
  | _ => none

end StoreTransparent
