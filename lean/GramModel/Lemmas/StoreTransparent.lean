import GramModel.Print
import GramModel.Lemmas.UnifySound

/-!
# Transparency of the store-aware de Bruijn functions on fully solved terms (C11)

On a term all of whose reachable hole cells are solved (`FullySolved σ t`: `zonk` answers with a
hole-free term), the store-aware functions `sshiftS`, `ushiftS`, `openS` (`Store.lean`) and
`freeAtS` (`Print.lean`) compute **literally** what the pure functions `sshift`, `ushift`, `openT`,
`freeAt` compute on the zonked term, and they leave the state untouched (in particular `openS`
allocates no cell).  This covers the `Unifier(Some(..), k)` arms of `signed_shift`, `open`,
`free_variables`: a solved hole is read as `unsigned_shift(solution, 0, k)` and the operation goes on
on that.

The statements hold for *every* fuel at which the store-aware function answers; `…_total` gives a
fuel at which it does answer.
-/

namespace StoreTransparent

open StoreMono (bind_ok pure_ok)
open UnifySound
open WhnfLemmas (Det ushift_holeFree sshiftS_det ushiftS_det openS_det)

/-! ## `FullySolved` -/

/-- every hole cell reachable from `t` through the store is solved: `zonk` answers, with a hole-free
term -/
def FullySolved (σ : List (Option Tm)) (t : Tm) : Prop :=
  ∃ fuel z, zonk fuel σ t = some z ∧ z.holeFree = true

/-- executable checker -/
def fullySolvedB (fuel : Nat) (σ : List (Option Tm)) (t : Tm) : Bool :=
  match zonk fuel σ t with
  | some z => z.holeFree
  | none => false

theorem fullySolvedB_sound {fuel : Nat} {σ : List (Option Tm)} {t : Tm}
    (h : fullySolvedB fuel σ t = true) : FullySolved σ t := by
  unfold fullySolvedB at h
  split at h
  · next z hz => exact ⟨fuel, z, hz, h⟩
  · cases h

theorem FullySolved_iff {σ : List (Option Tm)} {t : Tm} :
    FullySolved σ t ↔ ∃ z, Zk σ t z ∧ z.holeFree = true := by
  constructor
  · rintro ⟨n, z, h, hf⟩; exact ⟨z, ⟨n, h⟩, hf⟩
  · rintro ⟨z, ⟨n, h⟩, hf⟩; exact ⟨n, z, h, hf⟩

theorem FullySolved_holeFree {σ : List (Option Tm)} {t : Tm} (hf : t.holeFree = true) :
    FullySolved σ t :=
  FullySolved_iff.2 ⟨t, Zk_holeFree t hf, hf⟩

/-! ## `DetAt s m v`: from state `s`, every successful run of `m` returns `v` and leaves `s` -/

def DetAt {α} (s : St) (m : M α) (v : α) : Prop :=
  ∀ a s', m s = .ok a s' → a = v ∧ s' = s

theorem DetAt.pure {α} {s : St} (a : α) : DetAt s (pure a : M α) a := by
  intro b s' h
  obtain ⟨rfl, rfl⟩ := pure_ok h
  exact ⟨rfl, rfl⟩

theorem DetAt.outOfFuel {α} {s : St} {v : α} : DetAt s (outOfFuel : M α) v := by
  intro b s' h; cases h

theorem DetAt.panicAt {α} {s : St} {v : α} (site : String) : DetAt s (panicAt site : M α) v := by
  intro b s' h; cases h

theorem DetAt.of_det {α} {s : St} {m : M α} {v : α} (h : Det m v) : DetAt s m v :=
  fun a s' e => h.out s a s' e

theorem DetAt.bind {α β} {s : St} {m : M α} {f : α → M β} {v : α} {w : β} (hm : DetAt s m v)
    (hf : DetAt s (f v) w) : DetAt s (m >>= f) w := by
  intro b s' h
  obtain ⟨a, s1, h1, h2⟩ := bind_ok h
  obtain ⟨rfl, rfl⟩ := hm _ _ h1
  exact hf _ _ h2

theorem DetAt.bind' {α β} {s : St} {m : M α} {f : α → M β} {v : α} {w : β} (hm : DetAt s m v)
    (hf : ∀ a, v = a → DetAt s (f a) w) : DetAt s (m >>= f) w := DetAt.bind hm (hf v rfl)

theorem DetAt.cellGet {β} {s : St} {id : Nat} {k : Option Tm → M β} {w : β}
    (h : DetAt s (k (cellVal s.store id)) w) : DetAt s (cellGet id >>= k) w := h

/-! ## `sshiftS` -/

set_option hygiene false in
local macro "hf_side" : tactic => `(tactic| first
  | exact hf | exact hf.1 | exact hf.2 | exact hf.1.1 | exact hf.1.2)

set_option hygiene false in
local macro "sh_step" : tactic => `(tactic| first
  | with_reducible exact DetAt.pure _
  | (with_reducible refine DetAt.bind' (ih1 _ _ _ _ _ (by assumption) (by hf_side)) (fun a ha => ?_)
     try rw [ha]
     cases a <;> dsimp only)
  | (with_reducible refine DetAt.bind' (ih2 _ _ _ _ _ (by assumption) (by hf_side)) (fun a ha => ?_)
     try rw [ha]
     cases a <;> dsimp only)
  | split)

theorem sshiftS_solved : ∀ f,
    (∀ c amt t z s, Zk s.store t z → z.holeFree = true →
      DetAt s (sshiftS f c amt t) (sshift c amt z)) ∧
    (∀ c amt ds zs s, ZkD s.store ds zs → zs.holeFree = true →
      DetAt s (sshiftDefsS f c amt ds) (sshiftDefs c amt zs)) := by
  intro f
  induction f with
  | zero =>
    constructor
    · intros; rw [sshiftS]; exact DetAt.outOfFuel
    · intros; rw [sshiftDefsS]; exact DetAt.outOfFuel
  | succ f ih =>
    obtain ⟨ih1, ih2⟩ := ih
    constructor
    · intro c amt t z s hz hf
      cases t
      case hole id k =>
        unfold sshiftS
        dsimp only
        refine DetAt.cellGet ?_
        cases hv : cellVal s.store id with
        | none =>
          have hn : ∀ sub, s.store[id]? ≠ some (some sub) := by
            intro sub hs
            rw [← cellVal_some, hv] at hs
            cases hs
          rw [Zk_hole_none hn] at hz
          subst hz
          cases hf
        | some sub =>
          dsimp only
          have hsub : s.store[id]? = some (some sub) := cellVal_some.1 hv
          rw [Zk_hole_some hsub] at hz
          obtain ⟨zs, hzs, rfl⟩ := hz
          rw [ushift_holeFree] at hf
          have h1 := ih1 0 (k : Int) sub zs s hzs hf
          rw [sshift_ushift] at h1
          refine DetAt.bind h1 ?_
          dsimp only
          exact DetAt.of_det ((sshiftS_det f).1 c amt _ (by rw [ushift_holeFree]; exact hf))
      case var x i =>
        rw [Zk_leaf (by simp [Leaf])] at hz; subst hz
        unfold sshiftS sshift; dsimp only
        repeat sh_step
      case lam x im d b =>
        rw [Zk_lam] at hz
        obtain ⟨zd, zb, hzd, hzb, rfl⟩ := hz
        simp only [Tm.holeFree, Bool.and_eq_true] at hf
        unfold sshiftS sshift; dsimp only
        repeat sh_step
      case pi x im d b =>
        rw [Zk_pi] at hz
        obtain ⟨zd, zb, hzd, hzb, rfl⟩ := hz
        simp only [Tm.holeFree, Bool.and_eq_true] at hf
        unfold sshiftS sshift; dsimp only
        repeat sh_step
      case app g a =>
        rw [Zk_app] at hz
        obtain ⟨zd, zb, hzd, hzb, rfl⟩ := hz
        simp only [Tm.holeFree, Bool.and_eq_true] at hf
        unfold sshiftS sshift; dsimp only
        repeat sh_step
      case letg ds b =>
        rw [Zk_letg] at hz
        obtain ⟨zd, zb, hzd, hzb, rfl⟩ := hz
        simp only [Tm.holeFree, Bool.and_eq_true] at hf
        unfold sshiftS sshift; dsimp only
        rw [ZkD_len hzd]
        repeat sh_step
      case neg a =>
        rw [Zk_neg] at hz
        obtain ⟨zd, hzd, rfl⟩ := hz
        simp only [Tm.holeFree] at hf
        unfold sshiftS sshift; dsimp only
        repeat sh_step
      case bin op a b =>
        rw [Zk_bin] at hz
        obtain ⟨zd, zb, hzd, hzb, rfl⟩ := hz
        simp only [Tm.holeFree, Bool.and_eq_true] at hf
        unfold sshiftS sshift; dsimp only
        repeat sh_step
      case ite a b d =>
        rw [Zk_ite] at hz
        obtain ⟨za, zb, zd, hza, hzb, hzd, rfl⟩ := hz
        simp only [Tm.holeFree, Bool.and_eq_true] at hf
        unfold sshiftS sshift; dsimp only
        repeat sh_step
      all_goals
        rw [Zk_leaf (by simp [Leaf])] at hz; subst hz
        unfold sshiftS sshift; dsimp only
        exact DetAt.pure _
    · intro c amt ds zs s hz hf
      cases ds
      case nil =>
        rw [ZkD_nil] at hz; subst hz
        unfold sshiftDefsS sshiftDefs; dsimp only
        exact DetAt.pure _
      case cons x a d r =>
        rw [ZkD_cons] at hz
        obtain ⟨za, zd, zr, hza, hzd, hzr, rfl⟩ := hz
        simp only [Defs.holeFree, Bool.and_eq_true] at hf
        unfold sshiftDefsS sshiftDefs; dsimp only
        repeat sh_step

theorem sshiftS_transparent {f c : Nat} {amt : Int} {t z : Tm} {s s' : St} {o : Option Tm}
    (hz : Zk s.store t z) (hf : z.holeFree = true) (h : sshiftS f c amt t s = .ok o s') :
    o = sshift c amt z ∧ s' = s :=
  (sshiftS_solved f).1 c amt t z s hz hf o s' h

theorem ushiftS_solved (f c a : Nat) (t z : Tm) (s : St) (hz : Zk s.store t z)
    (hf : z.holeFree = true) : DetAt s (ushiftS f c a t) (ushift c a z) := by
  unfold ushiftS
  have h1 := (sshiftS_solved f).1 c (a : Int) t z s hz hf
  rw [sshift_ushift] at h1
  refine DetAt.bind h1 ?_
  exact DetAt.pure _

end StoreTransparent
