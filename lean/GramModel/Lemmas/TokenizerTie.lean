import GramModel.Lemmas.LexerRender
import GramModel.Generated.TokenizerArms

/-!
# The symbol arms of the scanner model are the ones `tokenizer.rs` contains

`Generated/TokenizerArms.lean` is rewritten from `tokenizer.rs` on every run (`extract/arms.py`): every arm of the
`match c` of the first pass that starts with a symbol character — the character, the second character if the arm peeks
and consumes one, the byte length of the token it pushes and its kind — and the order of all arms.
Here: (1) every row is a step of the MODEL scanner (`scan`), for every classifier, position, state and rest of the text;
(2) the rows are exactly the symbol table `symTable` over which the render/tokenize law (C10) is proved.
-/

open Generated

/-- what a row says, as a statement about the model scanner -/
def armHolds (r : Char × Option Char × Nat × TokKind) : Prop :=
  ∀ (cc : CharClass) (f pos : Nat) (rest : List Char) (s : LexState),
    match r.2.1 with
    | some d => scan cc (f+1) pos (r.1 :: d :: rest) s = scan cc f (pos + r.2.2.1) rest (s.push r.2.2.2 pos (pos + r.2.2.1))
    | none =>
        -- the one-character token, when no two-character arm of the same first character applies
        (∀ d k n, (r.1, some d, n, k) ∈ symbolArms → rest.head? ≠ some d) →
        scan cc (f+1) pos (r.1 :: rest) s = scan cc f (pos + r.2.2.1) rest (s.push r.2.2.2 pos (pos + r.2.2.1))

theorem symbolArms_hold : ∀ r ∈ symbolArms, armHolds r := by
  intro r hr
  simp only [symbolArms, List.mem_cons, List.mem_nil_iff, or_false] at hr
  rcases hr with rfl | rfl | rfl | rfl | rfl | rfl | rfl | rfl | rfl | rfl | rfl | rfl | rfl | rfl | rfl | rfl | rfl | rfl
  all_goals (intro cc f pos rest s; simp only []; rw [scan.eq_def]; simp)
  all_goals (intro h; simp [symbolArms] at h; split <;> simp_all)
  · exact absurd rfl (h '=' .doubleEquals 2 (Or.inl ⟨rfl, rfl, rfl⟩))
  · exact absurd rfl (h '>' .thickArrow 2 (Or.inr ⟨rfl, rfl, rfl⟩))

/-- the rows, as (text, kind) pairs -/
def armLexemes : List (List Char × TokKind) :=
  symbolArms.map (fun r => (r.1 :: (match r.2.1 with | some d => [d] | none => []), r.2.2.2))

/-- the rows are exactly the symbol table of the render/tokenize law, and every token is as long as its text -/
theorem armLexemes_symTable :
    (∀ x, x ∈ armLexemes ↔ x ∈ symTable) ∧ armLexemes.length = symTable.length ∧
    (∀ r ∈ symbolArms, r.2.2.1 = 1 + (match r.2.1 with | some _ => 1 | none => 0)) := by
  refine ⟨?_, by decide, by decide⟩
  have h1 : ∀ x ∈ armLexemes, x ∈ symTable := by decide
  have h2 : ∀ x ∈ symTable, x ∈ armLexemes := by decide
  exact fun x => ⟨h1 x, h2 x⟩

/-- the order in which the scanner tries its arms: the symbols (with the line feed among them), then identifiers
(`is_alphabetic` or `_`), then digits, then whitespace, then `#`, then the unexpected-symbol arm -/
def scanArmOrderExpected : List String :=
  ["sym", "sym", "sym", "sym", "sym", "sym", "sym", "sym", "sym", "'\\n'", "sym", "sym", "sym", "sym",
   "if c == '_' || c.is_alphabetic()", "'0'..='9'", "if c.is_whitespace()", "'#'", "_"]

/-- what continues an identifier (`is_alphanumeric` or `_`: the model's `identCont`) and a number (ASCII digits: `isDigit`), and
how a literal gets its value (the decimal value of exactly the scanned bytes, arbitrary precision: `digitsValue`) -/
def scanLoopsExpected : List (String × String) :=
  [("ident", "d == '_' || d.is_alphanumeric()"), ("number", "d.is_ascii_digit()")]
def literalValueExpected : String := "BigInt::parse_bytes(&source_contents.as_bytes()[i..end],10).unwrap()"
