import GramModel.Parser
import GramModel.Lemmas.ParserNoPanicDefs

/-! `check_definitions` neither panics nor runs out of fuel on a `Clean` term. -/

namespace PModel

/-- The `visited` set of `check_definition`: duplicate-free, all indices `< n`. -/
def VisOK (n : Nat) (v : List Nat) : Prop := v.Nodup ∧ ∀ x ∈ v, x < n

theorem VisOK.length_le {n : Nat} {v : List Nat} (h : VisOK n v) : v.length ≤ n := by
  have h1 : v.length ≤ (List.range n).length :=
    List.Nodup.length_le_of_subset h.1 (fun x hx => List.mem_range.2 (h.2 x hx))
  simpa using h1

theorem VisOK.cons {n x : Nat} {v : List Nat} (h : VisOK n v) (hx : x < n) (hn : x ∉ v) :
    VisOK n (x :: v) := by
  refine ⟨List.nodup_cons.2 ⟨hn, h.1⟩, ?_⟩
  intro y hy
  rcases List.mem_cons.1 hy with rfl | hy
  · exact hx
  · exact h.2 y hy

/-- The loop of `check_definition`, given that the recursive call succeeds with `F` fuel. -/
theorem checkVariables_ok (defs : Array (Name × RTm × RTm)) (start : Nat)
    (rec : Nat → CheckSt → Option CheckSt) (F : Nat)
    (hrec : ∀ i (st : CheckSt), VisOK defs.size st.1 → defs.size + 1 ≤ F + st.1.length →
      ∃ st', rec i st = some st' ∧ VisOK defs.size st'.1 ∧ st.1.length ≤ st'.1.length) :
    ∀ (vars : List Nat) (st : CheckSt), VisOK defs.size st.1 →
      defs.size ≤ F + st.1.length →
      ∃ st', checkVariables defs start rec vars st = some st' ∧ VisOK defs.size st'.1 ∧
        st.1.length ≤ st'.1.length := by
  intro vars
  induction vars with
  | nil =>
    intro st hv _
    exact ⟨st, by simp [checkVariables], hv, Nat.le_refl _⟩
  | cons var rest ih =>
    intro st hv hf
    obtain ⟨visited, errors⟩ := st
    simp only at hv hf
    unfold checkVariables
    by_cases hlt : var < defs.size
    · simp only [hlt, if_true]
      by_cases hc : visited.contains (defs.size - 1 - var) = true
      · simp only [hc, if_true]
        exact ih (visited, errors) hv hf
      · simp only [hc]
        have hnm : (defs.size - 1 - var) ∉ visited := by
          intro hm
          exact hc (List.contains_iff_mem.2 hm)
        have hv' : VisOK defs.size ((defs.size - 1 - var) :: visited) :=
          hv.cons (by omega) hnm
        by_cases hval : isValue (defs[defs.size - 1 - var]!).2.2.erase = true
        · simp only [hval, if_true]
          obtain ⟨st1, h1, hv1, hl1⟩ :=
            hrec (defs.size - 1 - var) ((defs.size - 1 - var) :: visited, errors) hv'
              (by simp only [List.length_cons]; omega)
          simp only [h1]
          simp only [List.length_cons] at hl1
          obtain ⟨st2, h2, hv2, hl2⟩ := ih st1 hv1 (by omega)
          exact ⟨st2, h2, hv2, by omega⟩
        · simp only [hval]
          by_cases hge : defs.size - 1 - var ≥ start
          · simp only [hge, if_true]
            obtain ⟨st2, h2, hv2, hl2⟩ :=
              ih ((defs.size - 1 - var) :: visited, errors ++ [match (defs[start]!).2.2.range with
                | some r => [r]
                | none => []]) hv' (by simp only [List.length_cons]; omega)
            simp only [List.length_cons] at hl2
            exact ⟨st2, h2, hv2, by omega⟩
          · simp only [hge]
            obtain ⟨st2, h2, hv2, hl2⟩ :=
              ih ((defs.size - 1 - var) :: visited, errors) hv'
                (by simp only [List.length_cons]; omega)
            simp only [List.length_cons] at hl2
            exact ⟨st2, h2, hv2, by omega⟩
    · simp only [hlt]
      exact ih (visited, errors) hv hf

/-- `check_definition` never runs out of fuel under the `visited` invariant. -/
theorem checkDefinition_ok (defs : Array (Name × RTm × RTm)) (start : Nat) :
    ∀ (fuel current : Nat) (st : CheckSt), VisOK defs.size st.1 →
      defs.size + 1 ≤ fuel + st.1.length →
      ∃ st', checkDefinition defs start fuel current st = some st' ∧ VisOK defs.size st'.1 ∧
        st.1.length ≤ st'.1.length := by
  intro fuel
  induction fuel with
  | zero =>
    intro current st hv hf
    have := hv.length_le
    omega
  | succ fuel ih =>
    intro current st hv hf
    unfold checkDefinition
    exact checkVariables_ok defs start (checkDefinition defs start fuel) fuel
      (fun i st' hv' hf' => ih i st' hv' hf') _ st hv (by omega)

theorem checkEachDefinition_ok (defs : Array (Name × RTm × RTm)) :
    ∀ (is : List Nat) (errors : List PErr), ∃ es, checkEachDefinition defs is errors = .ok es := by
  intro is
  induction is with
  | nil => intro errors; exact ⟨errors, by simp [checkEachDefinition]⟩
  | cons i rest ih =>
    intro errors
    unfold checkEachDefinition
    by_cases hval : isValue (defs[i]!).2.2.erase = true
    · simp only [hval, Bool.not_true, Bool.false_eq_true, if_false]
      exact ih errors
    · simp only [hval, Bool.not_false, if_true]
      obtain ⟨st', h1, _, _⟩ := checkDefinition_ok defs i (defs.size + 1) i ([], errors)
        ⟨List.nodup_nil, by simp⟩ (by simp)
      obtain ⟨v', es'⟩ := st'
      simp only [h1]
      exact ih es'

mutual
theorem checkDefinitions_ok' : ∀ (t : RTm) (depth : Nat) (errors : List PErr), Clean t →
    ∃ es, checkDefinitions t depth errors = .ok es
  | .mk _ (.hole _ shift), depth, errors, h => by
    simp only [Clean] at h
    unfold checkDefinitions
    exact ⟨errors, by simp [h]⟩
  | .mk _ .type, _, errors, _ => ⟨errors, by unfold checkDefinitions; rfl⟩
  | .mk _ .int, _, errors, _ => ⟨errors, by unfold checkDefinitions; rfl⟩
  | .mk _ .bool, _, errors, _ => ⟨errors, by unfold checkDefinitions; rfl⟩
  | .mk _ .tt, _, errors, _ => ⟨errors, by unfold checkDefinitions; rfl⟩
  | .mk _ .ff, _, errors, _ => ⟨errors, by unfold checkDefinitions; rfl⟩
  | .mk _ (.lit _), _, errors, _ => ⟨errors, by unfold checkDefinitions; rfl⟩
  | .mk _ (.var _ _), _, errors, _ => ⟨errors, by unfold checkDefinitions; rfl⟩
  | .mk _ (.lam _ _ d b), depth, errors, h => by
    simp only [Clean] at h
    unfold checkDefinitions
    dsimp only
    obtain ⟨es1, h1⟩ := checkDefinitions_ok' d depth errors h.1
    simp only [h1]
    exact checkDefinitions_ok' b (depth + 1) es1 h.2
  | .mk _ (.pi _ _ d b), depth, errors, h => by
    simp only [Clean] at h
    unfold checkDefinitions
    dsimp only
    obtain ⟨es1, h1⟩ := checkDefinitions_ok' d depth errors h.1
    simp only [h1]
    exact checkDefinitions_ok' b (depth + 1) es1 h.2
  | .mk _ (.app f a), depth, errors, h => by
    simp only [Clean] at h
    unfold checkDefinitions
    dsimp only
    obtain ⟨es1, h1⟩ := checkDefinitions_ok' f depth errors h.1
    simp only [h1]
    exact checkDefinitions_ok' a depth es1 h.2
  | .mk _ (.letg ds b), depth, errors, h => by
    simp only [Clean] at h
    unfold checkDefinitions
    dsimp only
    obtain ⟨es0, h0⟩ := checkEachDefinition_ok ds.toList.toArray
      (List.range ds.toList.toArray.size) errors
    simp only [h0]
    obtain ⟨es1, h1⟩ := checkDefinitionsDefs_ok ds (depth + ds.len) es0 h.1
    simp only [h1]
    exact checkDefinitions_ok' b (depth + ds.len) es1 h.2
  | .mk _ (.neg a), depth, errors, h => by
    simp only [Clean] at h
    unfold checkDefinitions
    dsimp only
    exact checkDefinitions_ok' a depth errors h
  | .mk _ (.bin _ a b), depth, errors, h => by
    simp only [Clean] at h
    unfold checkDefinitions
    dsimp only
    obtain ⟨es1, h1⟩ := checkDefinitions_ok' a depth errors h.1
    simp only [h1]
    exact checkDefinitions_ok' b depth es1 h.2
  | .mk _ (.ite c a b), depth, errors, h => by
    simp only [Clean] at h
    unfold checkDefinitions
    dsimp only
    obtain ⟨es1, h1⟩ := checkDefinitions_ok' c depth errors h.1
    simp only [h1]
    obtain ⟨es2, h2⟩ := checkDefinitions_ok' a depth es1 h.2.1
    simp only [h2]
    exact checkDefinitions_ok' b depth es2 h.2.2
theorem checkDefinitionsDefs_ok : ∀ (ds : RDefs) (depth : Nat) (errors : List PErr),
    CleanDefs ds → ∃ es, checkDefinitionsDefs ds depth errors = .ok es
  | .nil, _, errors, _ => ⟨errors, by unfold checkDefinitionsDefs; rfl⟩
  | .cons _ _ defn rest, depth, errors, h => by
    simp only [CleanDefs] at h
    unfold checkDefinitionsDefs
    obtain ⟨es1, h1⟩ := checkDefinitions_ok' defn depth errors h.1
    simp only [h1]
    exact checkDefinitionsDefs_ok rest depth es1 h.2
end

/-- On a `Clean` term `check_definitions` neither panics nor runs out of fuel. -/
theorem checkDefinitions_ok (t : RTm) (depth : Nat) (errors : List PErr) (h : Clean t) :
    ∃ es, checkDefinitions t depth errors = .ok es :=
  checkDefinitions_ok' t depth errors h

end PModel
