import GramModel.Lexer

/-! Helper lemmas about the tokenizer model. -/

/-- `chain ts bound`: `ts` (newest first) are non-empty ranges, pairwise ordered and disjoint, all
ending at or before `bound`. -/
def chain : List Tok → Nat → Prop
  | [], _ => True
  | t :: rest, bound => t.start < t.stop ∧ t.stop ≤ bound ∧ chain rest t.start

theorem chain_mono {ts : List Tok} {a b : Nat} (h : chain ts a) (hab : a ≤ b) : chain ts b := by
  cases ts with
  | nil => trivial
  | cons t rest => exact ⟨h.1, Nat.le_trans h.2.1 hab, h.2.2⟩

theorem chain_push {ts : List Tok} {pos a b : Nat} (k : TokKind) (h : chain ts pos)
    (h1 : pos ≤ a) (h2 : a < b) : chain (⟨k, a, b⟩ :: ts) b :=
  ⟨h2, Nat.le_refl _, chain_mono h h1⟩

theorem bytesOf_cons (c : Char) (cs : List Char) : bytesOf (c :: cs) = c.utf8Size + bytesOf cs := by
  unfold bytesOf
  simp only [List.foldl_cons]
  have : ∀ (l : List Char) (n : Nat), l.foldl (fun n c => n + c.utf8Size) n = n + l.foldl (fun n c => n + c.utf8Size) 0 := by
    intro l
    induction l with
    | nil => intro n; simp
    | cons d l ih => intro n; simp only [List.foldl_cons]; rw [ih (n + d.utf8Size), ih (0 + d.utf8Size)]; omega
  rw [this cs (0 + c.utf8Size)]; omega

theorem utf8Size_pos (c : Char) : 0 < c.utf8Size := Char.utf8Size_pos c

theorem spanChars_bytes (p : Char → Bool) : ∀ (cs : List Char),
    bytesOf (spanChars p cs).1 + bytesOf (spanChars p cs).2 = bytesOf cs
  | [] => by simp [spanChars, bytesOf]
  | c :: cs => by
      simp only [spanChars]
      split
      · have ih := spanChars_bytes p cs
        simp only [bytesOf_cons]
        omega
      · simp [bytesOf]

theorem spanChars_length (p : Char → Bool) : ∀ (cs : List Char),
    (spanChars p cs).2.length ≤ cs.length
  | [] => by simp [spanChars]
  | c :: cs => by
      simp only [spanChars]
      split
      · have := spanChars_length p cs; simp; omega
      · simp

theorem skipComment_spec : ∀ (cs : List Char) (pos : Nat),
    (skipComment cs pos).2 + bytesOf (skipComment cs pos).1 = pos + bytesOf cs ∧
    (skipComment cs pos).1.length ≤ cs.length ∧ pos ≤ (skipComment cs pos).2
  | [], pos => by simp [skipComment]
  | c :: cs, pos => by
      simp only [skipComment]
      split
      · simp
      · have ih := skipComment_spec cs (pos + c.utf8Size)
        simp only [bytesOf_cons, List.length_cons]
        omega

/-- a comment is skipped up to, not including, its line feed -/
theorem skipComment_line : ∀ (c r : List Char) (pos : Nat), (∀ x ∈ c, x ≠ '\n') →
    skipComment (c ++ '\n' :: r) pos = ('\n' :: r, pos + bytesOf c)
  | [], r, pos, _ => by simp [skipComment, bytesOf]
  | x :: c, r, pos, h => by
      have hx : x ≠ '\n' := h x (by simp)
      have ih := skipComment_line c r (pos + x.utf8Size) (fun y hy => h y (by simp [hy]))
      simp only [List.cons_append, skipComment, beq_iff_eq, hx, if_false, ih, bytesOf_cons]
      congr 1; omega

theorem skipComment_eof : ∀ (c : List Char) (pos : Nat), (∀ x ∈ c, x ≠ '\n') →
    skipComment c pos = ([], pos + bytesOf c)
  | [], pos, _ => by simp [skipComment, bytesOf]
  | x :: c, pos, h => by
      have hx : x ≠ '\n' := h x (by simp)
      have ih := skipComment_eof c (pos + x.utf8Size) (fun y hy => h y (by simp [hy]))
      simp only [skipComment, beq_iff_eq, hx, if_false, ih, bytesOf_cons]
      congr 1; omega


theorem canEnd_ne_none (k : TokKind) : Generated.canEnd k ≠ none := by
  cases k <;> simp [Generated.canEnd]

theorem lastCanEnd_ne_none (s : LexState) : lastCanEnd s ≠ none := by
  unfold lastCanEnd
  split
  · simp
  · exact canEnd_ne_none _

theorem isDigit_utf8Size {c : Char} (h : isDigit c = true) : c.utf8Size = 1 := by
  simp [isDigit, Char.le_def] at h
  unfold Char.utf8Size
  have h2 := h.2
  have : c.val ≤ 127 := UInt32.le_trans h2 (by decide)
  simp [this]

theorem spanChars_append (p : Char → Bool) : ∀ (cs : List Char),
    (spanChars p cs).1 ++ (spanChars p cs).2 = cs
  | [] => by simp [spanChars]
  | c :: cs => by
      simp only [spanChars]
      split
      · have ih := spanChars_append p cs
        simp [ih]
      · simp

theorem spanChars_all (p : Char → Bool) : ∀ (cs : List Char), ∀ x ∈ (spanChars p cs).1, p x = true
  | [] => by simp [spanChars]
  | c :: cs => by
      simp only [spanChars]
      split
      · have ih := spanChars_all p cs
        intro x hx
        simp at hx
        rcases hx with rfl | hx
        · assumption
        · exact ih x hx
      · simp

theorem skipComment_prefix : ∀ (cs : List Char) (pos : Nat),
    ∃ pre, cs = pre ++ (skipComment cs pos).1 ∧ (skipComment cs pos).2 = pos + bytesOf pre
  | [], pos => ⟨[], by simp [skipComment, bytesOf]⟩
  | c :: cs, pos => by
      simp only [skipComment]
      split
      · exact ⟨[], by simp [bytesOf]⟩
      · obtain ⟨pre, h1, h2⟩ := skipComment_prefix cs (pos + c.utf8Size)
        refine ⟨c :: pre, ?_, ?_⟩
        · simp; exact h1
        · rw [h2, bytesOf_cons]; omega

/-- what a token's kind says about the token's own text -/
def lexOK (k : TokKind) (lex : List Char) : Prop :=
  match k with
  | .identifier w => lex = w
  | .integerLiteral n => digitsValue lex = n ∧ ∀ c ∈ lex, isDigit c = true
  | .terminatorLineBreak => lex = ['\n']
  | _ => True

theorem wordKind_cases (w : List Char) :
    wordKind w = .identifier w ∨ ∃ p ∈ Generated.keywords, wordKind w = p.1 := by
  unfold wordKind
  split
  · rename_i p hp
    exact Or.inr ⟨p, List.mem_of_find?_eq_some hp, rfl⟩
  · exact Or.inl rfl

theorem keywords_plain : ∀ p ∈ Generated.keywords, p.1 ≠ .terminatorLineBreak ∧ ∀ lex, lexOK p.1 lex := by
  intro p hp
  simp only [Generated.keywords, List.mem_cons, List.not_mem_nil, or_false] at hp
  rcases hp with rfl | rfl | rfl | rfl | rfl | rfl | rfl | rfl <;>
    exact ⟨by simp, fun _ => True.intro⟩

theorem wordKind_ne_lineBreak (w : List Char) : wordKind w ≠ .terminatorLineBreak := by
  rcases wordKind_cases w with h | ⟨p, hp, h⟩
  · rw [h]; simp
  · rw [h]; exact (keywords_plain p hp).1

theorem wordKind_lexOK (w : List Char) : lexOK (wordKind w) w := by
  rcases wordKind_cases w with h | ⟨p, hp, h⟩
  · rw [h]; rfl
  · rw [h]; exact (keywords_plain p hp).2 w

/-- One iteration of the scanning loop, abstractly: it consumes a non-empty prefix `lex` of the
remaining text, advances the position by its byte length, leaves `panic` alone, and either leaves
the tokens alone or pushes one token spanning exactly `lex`. -/
def StepOK (pos : Nat) (cs : List Char) (s : LexState) (pos' : Nat) (cs' : List Char)
    (s' : LexState) : Prop :=
  ∃ lex, lex ≠ [] ∧ cs = lex ++ cs' ∧ pos' = pos + bytesOf lex ∧ s'.panic = s.panic ∧
    (s'.toks = s.toks ∨ ∃ k, s'.toks = ⟨k, pos, pos'⟩ :: s.toks ∧
      (k = .terminatorLineBreak → lastCanEnd s = some true) ∧ lexOK k lex)

theorem bytesOf_one (c : Char) : bytesOf [c] = c.utf8Size := by simp [bytesOf]
theorem bytesOf_nil : bytesOf [] = 0 := rfl

theorem step_one {pos : Nat} {c : Char} {cs : List Char} {s : LexState} (k : TokKind)
    (hc : c.utf8Size = 1) (hk : k = .terminatorLineBreak → lastCanEnd s = some true)
    (hl : lexOK k [c]) : StepOK pos (c :: cs) s (pos + 1) cs (s.push k pos (pos + 1)) :=
  ⟨[c], by simp, rfl, by rw [bytesOf_one, hc], rfl, Or.inr ⟨k, rfl, hk, hl⟩⟩

theorem step_two {pos : Nat} {c d : Char} {r : List Char} {s : LexState} (k : TokKind)
    (hc : c.utf8Size = 1) (hd : d.utf8Size = 1) (hk : k ≠ .terminatorLineBreak)
    (hl : lexOK k [c, d]) : StepOK pos (c :: d :: r) s (pos + 2) r (s.push k pos (pos + 2)) :=
  ⟨[c, d], by simp, rfl, by rw [bytesOf_cons, bytesOf_one, hc, hd], rfl,
    Or.inr ⟨k, rfl, fun h => absurd h hk, hl⟩⟩

theorem step_skip {pos : Nat} {c : Char} {cs : List Char} {s s' : LexState}
    (ht : s'.toks = s.toks) (hp : s'.panic = s.panic) :
    StepOK pos (c :: cs) s (pos + c.utf8Size) cs s' :=
  ⟨[c], by simp, rfl, by rw [bytesOf_one], hp, Or.inl ht⟩

theorem scan_step (cc : CharClass) (fuel pos : Nat) (c : Char) (cs : List Char) (s : LexState)
    (P : LexState → Prop)
    (h : ∀ pos' cs' s', StepOK pos (c :: cs) s pos' cs' s' → P (scan cc fuel pos' cs' s')) :
    P (scan cc (fuel+1) pos (c :: cs) s) := by
  rw [scan.eq_def]
  dsimp only
  by_cases h1 : (c == '*') = true
  · rw [if_pos h1]; obtain rfl := eq_of_beq h1
    exact h _ _ _ (step_one _ rfl (by nofun) True.intro)
  rw [if_neg h1]; clear h1
  by_cases h1 : (c == ':') = true
  · rw [if_pos h1]; obtain rfl := eq_of_beq h1
    exact h _ _ _ (step_one _ rfl (by nofun) True.intro)
  rw [if_neg h1]; clear h1
  by_cases h1 : (c == '{') = true
  · rw [if_pos h1]; obtain rfl := eq_of_beq h1
    exact h _ _ _ (step_one _ rfl (by nofun) True.intro)
  rw [if_neg h1]; clear h1
  by_cases h1 : (c == '(') = true
  · rw [if_pos h1]; obtain rfl := eq_of_beq h1
    exact h _ _ _ (step_one _ rfl (by nofun) True.intro)
  rw [if_neg h1]; clear h1
  by_cases h1 : (c == '+') = true
  · rw [if_pos h1]; obtain rfl := eq_of_beq h1
    exact h _ _ _ (step_one _ rfl (by nofun) True.intro)
  rw [if_neg h1]; clear h1
  by_cases h1 : (c == '}') = true
  · rw [if_pos h1]; obtain rfl := eq_of_beq h1
    exact h _ _ _ (step_one _ rfl (by nofun) True.intro)
  rw [if_neg h1]; clear h1
  by_cases h1 : (c == ')') = true
  · rw [if_pos h1]; obtain rfl := eq_of_beq h1
    exact h _ _ _ (step_one _ rfl (by nofun) True.intro)
  rw [if_neg h1]; clear h1
  by_cases h1 : (c == '/') = true
  · rw [if_pos h1]; obtain rfl := eq_of_beq h1
    exact h _ _ _ (step_one _ rfl (by nofun) True.intro)
  rw [if_neg h1]; clear h1
  by_cases h1 : (c == ';') = true
  · rw [if_pos h1]; obtain rfl := eq_of_beq h1
    exact h _ _ _ (step_one _ rfl (by nofun) True.intro)
  rw [if_neg h1]; clear h1
  by_cases h1 : (c == '\n') = true
  · rw [if_pos h1]; obtain rfl := eq_of_beq h1
    split
    · rename_i hl; exact absurd hl (lastCanEnd_ne_none s)
    · rename_i hl; exact h _ _ _ (step_one _ rfl (fun _ => hl) rfl)
    · exact h _ _ _ (step_skip (c := '\n') rfl rfl)
  rw [if_neg h1]; clear h1
  by_cases h1 : (c == '-') = true
  · rw [if_pos h1]; obtain rfl := eq_of_beq h1
    split
    · exact h _ _ _ (step_two _ rfl rfl (by simp) True.intro)
    · exact h _ _ _ (step_one _ rfl (by nofun) True.intro)
  rw [if_neg h1]; clear h1
  by_cases h1 : (c == '<') = true
  · rw [if_pos h1]; obtain rfl := eq_of_beq h1
    split
    · exact h _ _ _ (step_two _ rfl rfl (by simp) True.intro)
    · exact h _ _ _ (step_one _ rfl (by nofun) True.intro)
  rw [if_neg h1]; clear h1
  by_cases h1 : (c == '=') = true
  · rw [if_pos h1]; obtain rfl := eq_of_beq h1
    split
    · exact h _ _ _ (step_two _ rfl rfl (by simp) True.intro)
    · exact h _ _ _ (step_two _ rfl rfl (by simp) True.intro)
    · exact h _ _ _ (step_one _ rfl (by nofun) True.intro)
  rw [if_neg h1]; clear h1
  by_cases h1 : (c == '>') = true
  · rw [if_pos h1]; obtain rfl := eq_of_beq h1
    split
    · exact h _ _ _ (step_two _ rfl rfl (by simp) True.intro)
    · exact h _ _ _ (step_one _ rfl (by nofun) True.intro)
  rw [if_neg h1]; clear h1
  by_cases h1 : identStart cc c = true
  · rw [if_pos h1]
    apply h
    refine ⟨c :: (spanChars (identCont cc) cs).1, by simp, ?_, ?_, rfl, Or.inr ⟨_, rfl, ?_, ?_⟩⟩
    · rw [List.cons_append, spanChars_append]
    · rw [bytesOf_cons]; omega
    · intro hk; exact absurd hk (wordKind_ne_lineBreak _)
    · exact wordKind_lexOK _
  rw [if_neg h1]; clear h1
  by_cases h1 : isDigit c = true
  · rw [if_pos h1]
    apply h
    refine ⟨c :: (spanChars isDigit cs).1, by simp, ?_, ?_, rfl, Or.inr ⟨_, rfl, by nofun, rfl, ?_⟩⟩
    · rw [List.cons_append, spanChars_append]
    · rw [bytesOf_cons, isDigit_utf8Size h1]; omega
    · intro x hx
      rcases List.mem_cons.1 hx with rfl | hx
      · exact h1
      · exact spanChars_all _ _ _ hx
  rw [if_neg h1]; clear h1
  by_cases h1 : cc.isWs c = true
  · rw [if_pos h1]; exact h _ _ _ (step_skip rfl rfl)
  rw [if_neg h1]; clear h1
  by_cases h1 : (c == '#') = true
  · rw [if_pos h1]; obtain rfl := eq_of_beq h1
    apply h
    obtain ⟨pre, hp1, hp2⟩ := skipComment_prefix cs (pos + 1)
    refine ⟨'#' :: pre, by simp, ?_, ?_, rfl, Or.inl rfl⟩
    · rw [List.cons_append, ← hp1]
    · rw [hp2, bytesOf_cons, show ('#' : Char).utf8Size = 1 from rfl]; omega
  rw [if_neg h1]; clear h1
  exact h _ _ _ (step_skip rfl rfl)

/-- Invariants of the scanning loop: anything preserved by every abstract step holds at the end. -/
theorem scan_inv (cc : CharClass) (Inv : Nat → List Char → LexState → Prop)
    (hstep : ∀ pos cs s pos' cs' s', Inv pos cs s → StepOK pos cs s pos' cs' s' → Inv pos' cs' s') :
    ∀ fuel pos cs s, Inv pos cs s → ∃ pos' cs', Inv pos' cs' (scan cc fuel pos cs s) := by
  intro fuel
  induction fuel with
  | zero => intro pos cs s h; rw [scan.eq_1]; exact ⟨_, _, h⟩
  | succ n ih =>
    intro pos cs s h
    cases cs with
    | nil => rw [scan.eq_2 _ _ _ _ (by simp)]; exact ⟨_, _, h⟩
    | cons c cs =>
      apply scan_step cc n pos c cs s (fun r => ∃ pos' cs', Inv pos' cs' r)
      intro pos' cs' s' hs
      exact ih _ _ _ (hstep _ _ _ _ _ _ h hs)

theorem scan_panic (cc : CharClass) (fuel pos : Nat) (cs : List Char) (s : LexState) :
    (scan cc fuel pos cs s).panic = s.panic := by
  obtain ⟨_, _, h⟩ := scan_inv cc (fun _ _ s' => s'.panic = s.panic)
    (fun _ _ _ _ _ _ hi ⟨_, _, _, _, hp, _⟩ => hp.trans hi) fuel pos cs s rfl
  exact h

theorem canEnd_lineBreak {k : TokKind} (h : Generated.canEnd k = some true) :
    k ≠ .terminatorLineBreak := by
  intro hk; subst hk; simp [Generated.canEnd] at h

theorem noTwoLB_push {toks : List Tok} {k : TokKind} {a b : Nat} (h : noTwoLB toks)
    (hk : k = .terminatorLineBreak → lastCanEnd ⟨toks, [], false⟩ = some true) :
    noTwoLB (⟨k, a, b⟩ :: toks) := by
  cases toks with
  | nil => trivial
  | cons t r =>
    refine ⟨?_, h⟩
    rintro ⟨h1, h2⟩
    exact canEnd_lineBreak (hk h1) h2

theorem lastCanEnd_toks {s s' : LexState} (h : s.toks = s'.toks) : lastCanEnd s = lastCanEnd s' := by
  unfold lastCanEnd; rw [h]

theorem scan_noTwoLB (cc : CharClass) (fuel pos : Nat) (cs : List Char) (s : LexState)
    (h : noTwoLB s.toks) : noTwoLB (scan cc fuel pos cs s).toks := by
  have hstep : ∀ (pos : Nat) (cs : List Char) (s : LexState) (pos' : Nat) (cs' : List Char)
      (s' : LexState), noTwoLB s.toks → StepOK pos cs s pos' cs' s' → noTwoLB s'.toks := by
    rintro pos cs s pos' cs' s' hi ⟨lex, _, _, _, _, ht | ⟨k, ht, hk, _⟩⟩
    · rw [ht]; exact hi
    · rw [ht]; exact noTwoLB_push hi (fun e => (lastCanEnd_toks rfl).trans (hk e))
  obtain ⟨_, _, h⟩ := scan_inv cc (fun _ _ s' => noTwoLB s'.toks) hstep fuel pos cs s h
  exact h

theorem bytesOf_append (a b : List Char) : bytesOf (a ++ b) = bytesOf a + bytesOf b := by
  induction a with
  | nil => simp [bytesOf_nil]
  | cons c a ih => rw [List.cons_append, bytesOf_cons, bytesOf_cons, ih]; omega

theorem bytesOf_pos {l : List Char} (h : l ≠ []) : 0 < bytesOf l := by
  cases l with
  | nil => exact absurd rfl h
  | cons c l => rw [bytesOf_cons]; have := utf8Size_pos c; omega

theorem scan_chain (cc : CharClass) (fuel pos : Nat) (cs : List Char) (s : LexState)
    (h : chain s.toks pos) : chain (scan cc fuel pos cs s).toks (pos + bytesOf cs) := by
  have hstep : ∀ (p : Nat) (c : List Char) (s : LexState) (p' : Nat) (c' : List Char)
      (s' : LexState), (chain s.toks p ∧ p + bytesOf c = pos + bytesOf cs) →
      StepOK p c s p' c' s' → (chain s'.toks p' ∧ p' + bytesOf c' = pos + bytesOf cs) := by
    rintro p c s p' c' s' ⟨hi, he⟩ ⟨lex, hne, rfl, rfl, _, ht | ⟨k, ht, _, _⟩⟩
    · rw [ht]; rw [bytesOf_append] at he
      exact ⟨chain_mono hi (by omega), by omega⟩
    · rw [ht]; rw [bytesOf_append] at he
      have := bytesOf_pos hne
      exact ⟨chain_push k hi (Nat.le_refl _) (by omega), by omega⟩
  obtain ⟨pos', cs', h1, h2⟩ := scan_inv cc
    (fun p c s' => chain s'.toks p ∧ p + bytesOf c = pos + bytesOf cs) hstep fuel pos cs s ⟨h, rfl⟩
  exact chain_mono h1 (by omega)

theorem orderedIn_mono_lo {l : List Tok} {lo lo' hi : Nat} (h : orderedIn l lo hi) (hl : lo' ≤ lo) :
    orderedIn l lo' hi := by
  cases l with
  | nil => exact Nat.le_trans hl h
  | cons t r => exact ⟨Nat.le_trans hl h.1, h.2⟩

theorem orderedIn_sublist {l' l : List Tok} (hs : l'.Sublist l) :
    ∀ {lo hi : Nat}, orderedIn l lo hi → orderedIn l' lo hi := by
  induction hs with
  | slnil => intro lo hi h; exact h
  | cons a _ ih =>
    intro lo hi h
    exact orderedIn_mono_lo (ih h.2.2) (by have := h.1; have := h.2.1; omega)
  | cons_cons a _ ih =>
    intro lo hi h
    exact ⟨h.1, h.2.1, ih h.2.2⟩

theorem chain_orderedIn : ∀ (ts acc : List Tok) (bound hi : Nat), chain ts bound →
    orderedIn acc bound hi → orderedIn (ts.reverse ++ acc) 0 hi
  | [], acc, bound, hi, _, h => by simpa using orderedIn_mono_lo h (Nat.zero_le _)
  | t :: rest, acc, bound, hi, hc, h => by
    rw [List.reverse_cons, List.append_assoc]
    exact chain_orderedIn rest _ t.start hi hc.2.2
      ⟨Nat.le_refl _, hc.1, orderedIn_mono_lo h hc.2.1⟩

theorem filterToks_sublist : ∀ (l ts : List Tok), filterToks l = some ts → ts.Sublist l
  | [], ts, h => by simp [filterToks] at h; subst h; exact .slnil
  | t :: rest, ts, h => by
    rw [filterToks] at h
    split at h
    · cases h
    · rename_i rest' hr
      have ih := filterToks_sublist rest rest' hr
      split at h
      · split at h
        · cases h; exact ih.cons _
        · split at h
          · cases h
          · cases h; exact ih.cons_cons _
          · cases h; exact ih.cons _
      · cases h; exact ih.cons_cons _

theorem canStart_none {k : TokKind} (h : Generated.canStart k = none) : k = .terminatorLineBreak := by
  cases k <;> simp [Generated.canStart] at h ⊢

theorem filterToks_isSome : ∀ (l : List Tok), noTwoLB l → ∃ ts, filterToks l = some ts
  | [], _ => ⟨[], rfl⟩
  | [t], _ => by
    rw [filterToks, filterToks]; dsimp only
    split <;> exact ⟨_, rfl⟩
  | t :: n :: r, h => by
    obtain ⟨ts, hts⟩ := filterToks_isSome (n :: r) h.2
    rw [filterToks, hts]; dsimp only
    split
    · rename_i ht
      split
      · rename_i hn; exact absurd ⟨ht, canStart_none hn⟩ h.1
      · exact ⟨_, rfl⟩
      · exact ⟨_, rfl⟩
    · exact ⟨_, rfl⟩

theorem noTwoLB_snoc : ∀ (l : List Tok) (a : Tok), noTwoLB l →
    (∀ b, l.getLast? = some b → ¬(b.kind = .terminatorLineBreak ∧ a.kind = .terminatorLineBreak)) →
    noTwoLB (l ++ [a])
  | [], a, _, _ => trivial
  | [x], a, _, h => ⟨h x rfl, trivial⟩
  | x :: y :: r, a, h1, h2 =>
    ⟨h1.1, noTwoLB_snoc (y :: r) a h1.2 (fun b hb => h2 b (by simpa using hb))⟩

theorem noTwoLB_reverse : ∀ (l : List Tok), noTwoLB l → noTwoLB l.reverse
  | [], _ => trivial
  | [x], _ => trivial
  | x :: y :: r, h => by
    rw [List.reverse_cons]
    apply noTwoLB_snoc _ _ (noTwoLB_reverse (y :: r) h.2)
    intro b hb
    rw [List.getLast?_reverse] at hb
    cases hb
    exact fun ⟨h1, h2⟩ => h.1 ⟨h2, h1⟩

theorem tokenize_ok {cc : CharClass} {text : List Char} {ts : List Tok}
    (h : tokenize cc text = .ok ts) :
    filterToks (scan cc text.length 0 text { toks := [], errs := [] }).toks.reverse = some ts := by
  unfold tokenize at h
  dsimp only at h
  split at h
  · cases h
  · split at h
    · cases h
    · split at h
      · rename_i hf; cases h; exact hf
      · cases h

theorem scan_first_not_lineBreak (cc : CharClass) (fuel pos : Nat) (cs : List Char) (s : LexState)
    (h : ∀ t, s.toks.getLast? = some t → t.kind ≠ .terminatorLineBreak) :
    ∀ t, (scan cc fuel pos cs s).toks.getLast? = some t → t.kind ≠ .terminatorLineBreak := by
  have hstep : ∀ (pos : Nat) (cs : List Char) (s : LexState) (pos' : Nat) (cs' : List Char)
      (s' : LexState), (∀ t, s.toks.getLast? = some t → t.kind ≠ .terminatorLineBreak) →
      StepOK pos cs s pos' cs' s' →
      (∀ t, s'.toks.getLast? = some t → t.kind ≠ .terminatorLineBreak) := by
    rintro pos cs s pos' cs' s' hi ⟨lex, _, _, _, _, ht | ⟨k, ht, hk, _⟩⟩
    · rw [ht]; exact hi
    · rw [ht]
      cases hs : s.toks with
      | nil =>
        intro t ht'
        cases ht'
        intro hk'
        have := hk hk'
        simp [lastCanEnd, hs] at this
      | cons x r =>
        intro t ht'
        rw [List.getLast?_cons_cons] at ht'
        exact hi t (by rw [hs]; exact ht')
  obtain ⟨_, _, h⟩ := scan_inv cc
    (fun _ _ s' => ∀ t, s'.toks.getLast? = some t → t.kind ≠ .terminatorLineBreak) hstep fuel pos cs s h
  exact h

theorem filterToks_head : ∀ (n : Tok) (r ts : List Tok), filterToks (n :: r) = some ts →
    n.kind ≠ .terminatorLineBreak → ∃ r', ts = n :: r' := by
  intro n r ts h hn
  rw [filterToks] at h
  split at h
  · cases h
  · rw [if_neg hn] at h
    cases h
    exact ⟨_, rfl⟩

theorem canStart_lineBreak {k : TokKind} (h : Generated.canStart k = some true) :
    k ≠ .terminatorLineBreak := by
  intro hk; subst hk; simp [Generated.canStart] at h

theorem filterToks_last : ∀ (l ts : List Tok), filterToks l = some ts →
    ∀ t, ts.getLast? = some t → t.kind ≠ .terminatorLineBreak
  | [], ts, h => by simp [filterToks] at h; subst h; simp
  | t :: rest, ts, h => by
    rw [filterToks] at h
    split at h
    · cases h
    · rename_i rest' hr
      have ih := filterToks_last rest rest' hr
      split at h
      · split at h
        · cases h; exact ih
        · rename_i n r'
          split at h
          · cases h
          · rename_i hn
            cases h
            obtain ⟨r'', rfl⟩ := filterToks_head n _ _ hr (canStart_lineBreak hn)
            intro x hx
            rw [List.getLast?_cons_cons] at hx
            exact ih x hx
          · cases h; exact ih
      · rename_i ht
        cases h
        cases rest' with
        | nil => intro x hx; cases hx; exact ht
        | cons y r' =>
          intro x hx
          rw [List.getLast?_cons_cons] at hx
          exact ih x hx

/-- the token's range contains exactly the token's own text -/
def Slice (text : List Char) (t : Tok) : Prop :=
  ∃ pre lex post, text = pre ++ lex ++ post ∧ bytesOf pre = t.start ∧
    bytesOf lex = t.stop - t.start ∧ lexOK t.kind lex

theorem scan_slice (cc : CharClass) (text : List Char) (fuel pos : Nat) (cs : List Char)
    (s : LexState) (h0 : ∃ pre, text = pre ++ cs ∧ bytesOf pre = pos)
    (h : ∀ t ∈ s.toks, Slice text t) : ∀ t ∈ (scan cc fuel pos cs s).toks, Slice text t := by
  have hstep : ∀ (pos : Nat) (cs : List Char) (s : LexState) (pos' : Nat) (cs' : List Char)
      (s' : LexState),
      ((∃ pre, text = pre ++ cs ∧ bytesOf pre = pos) ∧ ∀ t ∈ s.toks, Slice text t) →
      StepOK pos cs s pos' cs' s' →
      ((∃ pre, text = pre ++ cs' ∧ bytesOf pre = pos') ∧ ∀ t ∈ s'.toks, Slice text t) := by
    rintro pos cs s pos' cs' s' ⟨⟨pre, hp1, hp2⟩, hi⟩ ⟨lex, _, rfl, rfl, _, ht | ⟨k, ht, _, hl⟩⟩
    · refine ⟨⟨pre ++ lex, by rw [hp1, List.append_assoc], by rw [bytesOf_append, hp2]⟩, ?_⟩
      rw [ht]; exact hi
    · refine ⟨⟨pre ++ lex, by rw [hp1, List.append_assoc], by rw [bytesOf_append, hp2]⟩, ?_⟩
      rw [ht]
      intro t htm
      rcases List.mem_cons.1 htm with rfl | htm
      · exact ⟨pre, lex, cs', by rw [hp1, List.append_assoc], hp2, by dsimp only; omega, hl⟩
      · exact hi t htm
  obtain ⟨_, _, _, h⟩ := scan_inv cc
    (fun p c s' => (∃ pre, text = pre ++ c ∧ bytesOf pre = p) ∧ ∀ t ∈ s'.toks, Slice text t)
    hstep fuel pos cs s ⟨h0, h⟩
  exact h
