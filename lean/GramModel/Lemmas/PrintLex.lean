import GramModel.Lemmas.LexerRender
import GramModel.Lemmas.PrintDerives

/-!
# What the printer prints is tokenized back to the lexemes it was made of (tokenizer half of C16)

`PrintDerives.printItems nm t` is the printed text of `t` as a list of lexemes with their kinds and
"followed by one space" flags (`printTm nm t = flatten (printItems nm t)`).  Here that list is shown
to be a *rendering* in the sense of `Lemmas/LexerRender.lean`: every item is a lexeme of its kind
(`IsLexeme`) and two adjacent lexemes without a space between them never fuse (`SepOK`).  The
render/tokenize law then gives

* `print_tokenizes` — `tokenize cc (printTm nm t)` succeeds and the kinds of its tokens are exactly
  `printKinds nm t`;
* `printed_text_is_sentence` — with `print_derives`: the token stream of the printed text is a
  sentence of the start symbol `term` of `grammar.y`.

The places where the printer puts two lexemes next to each other without a space are
`(`/`{` + anything, anything + `)`/`}`/`;`, and `-` + operand (negation, negative literal); the
operand of a negation never starts with `>` (it starts with `(`, `_`, a keyword, a digit, a `-` or a
name), so no two printed tokens ever fuse.
-/

/-- What the printer needs of the Unicode classifier beyond `Sane2`; every clause is true of Rust's
`char::is_alphabetic` / `is_alphanumeric`. -/
structure CharClass.PrintSane (cc : CharClass) : Prop extends cc.Sane2 where
  /-- the first letters of the printed keywords `type true then int if bool false else` -/
  kw_start : ∀ c ∈ ['t', 'i', 'b', 'f', 'e'], cc.isAlpha c = true
  /-- the other letters of these keywords -/
  kw_cont : ∀ c ∈ ['y', 'p', 'e', 'n', 't', 'o', 'l', 'r', 'u', 'a', 's', 'f', 'h'],
    cc.isAlnum c = true
  /-- a space does not continue a word -/
  space_cont : cc.isAlnum ' ' = false
  /-- an ASCII digit does not start a word -/
  digit_start : ∀ c, isDigit c = true → cc.isAlpha c = false
  /-- `)`, `}` and `;` (printed directly after the last lexeme of a term) do not continue a word -/
  closer_cont : cc.isAlnum ')' = false ∧ cc.isAlnum '}' = false ∧ cc.isAlnum ';' = false

namespace PrintLex
open PrintDerives

/-! ## Decimal digit strings -/

theorem isDigit_of_charIsDigit {c : Char} (h : c.isDigit = true) : isDigit c = true := by
  simp only [Char.isDigit, Bool.and_eq_true, decide_eq_true_eq] at h
  simp only [isDigit, decide_eq_true_eq, Char.le_def]
  exact h

theorem toDigits_isDigit (n : Nat) : ∀ c ∈ Nat.toDigits 10 n, isDigit c = true := fun _ hc =>
  isDigit_of_charIsDigit (Nat.isDigit_of_mem_toDigits (by decide) (by decide) hc)

theorem digitsValue_eq (l : List Char) : digitsValue l = Nat.ofDigitChars 10 l 0 := by
  unfold digitsValue Nat.ofDigitChars
  congr 1
  funext n d
  simp [Nat.mul_comm]

theorem digitsValue_toDigits (n : Nat) : digitsValue (Nat.toDigits 10 n) = n := by
  rw [digitsValue_eq, Nat.ofDigitChars_ten_toDigits]

theorem digit_ne_gt {c : Char} (h : isDigit c = true) : c ≠ '>' := by
  intro e; subst e; exact absurd h (by decide)

theorem digit_ne_underscore {c : Char} (h : isDigit c = true) : c ≠ '_' := by
  intro e; subst e; exact absurd h (by decide)

/-! ## A lexeme list as a rendering -/

/-- the item as an item of a rendering: the gap after it is one space or nothing -/
def toLex (it : Item) : LexItem := (it.1, it.2.1, if it.2.2 then [GapItem.blank ' '] else [])

theorem renderItems_toLex : ∀ l : List Item, renderItems (l.map toLex) none = flatten l
  | [] => rfl
  | (s, k, sp) :: r => by
    have ih := renderItems_toLex r
    cases sp <;> simp [toLex, renderItems, flatten, Gap.chars, GapItem.chars, ih]

/-- the text of the rendering is the text of the lexeme list -/
theorem renderText_toLex (l : List Item) : renderText [] (l.map toLex) none = flatten l := by
  simp [renderText, Gap.chars, renderItems_toLex]

/-- without line breaks `weave` adds nothing -/
theorem weave_noNL : ∀ its : List (TokKind × Bool), (∀ p ∈ its, p.2 = false) →
    weave its = its.map (·.1)
  | [], _ => rfl
  | [(k, _)], _ => rfl
  | (k, nl) :: (k', nl') :: r, h => by
    have ih := weave_noNL ((k', nl') :: r) (fun p hp => h p (List.mem_cons_of_mem _ hp))
    have hnl : nl = false := h (k, nl) (by simp)
    subst hnl
    rw [weave, ih]
    simp

theorem weave_toLex (l : List Item) : weave (lexFlags (l.map toLex)) = kindsOf l := by
  rw [weave_noNL]
  · simp [lexFlags, kindsOf, toLex]
  · intro p hp
    simp only [lexFlags, List.map_map, List.mem_map, Function.comp] at hp
    obtain ⟨it, _, rfl⟩ := hp
    obtain ⟨s, k, sp⟩ := it
    cases sp <;> simp [toLex, Gap.hasNL, GapItem.hasNL]

/-! ## Separation, compositionally

`SepN cc l nx`: no two adjacent lexemes of `l` without a space between them fuse, and the last one
does not fuse with the lexeme `nx` that follows the list (`[]`: nothing follows). -/

/-- the text of the first lexeme, `nx` for the empty list -/
def hdText : List Item → List Char → List Char
  | [], nx => nx
  | (l, _, _) :: _, _ => l

def SepN (cc : CharClass) : List Item → List Char → Prop
  | [], _ => True
  | (l, _, sp) :: r, nx => (sp = true ∨ fusesHead cc l (hdText r nx) = false) ∧ SepN cc r nx

@[simp] theorem hdText_nil (nx) : hdText [] nx = nx := rfl
@[simp] theorem hdText_tk (s k r nx) : hdText (tk s k :: r) nx = s := rfl
@[simp] theorem hdText_tkS (s k r nx) : hdText (tkS s k :: r) nx = s := rfl

@[simp] theorem hdText_append : ∀ (a b : List Item) (nx : List Char),
    hdText (a ++ b) nx = hdText a (hdText b nx)
  | [], _, _ => rfl
  | (_, _, _) :: _, _, _ => rfl

@[simp] theorem hdText_spaced : ∀ (l : List Item) (nx : List Char), hdText (spaced l) nx = hdText l nx
  | [], _ => rfl
  | [(_, _, _)], _ => rfl
  | (_, _, _) :: _ :: _, _ => rfl

@[simp] theorem sepN_nil (cc nx) : SepN cc [] nx = True := rfl

@[simp] theorem sepN_tk (cc : CharClass) (s k r nx) :
    SepN cc (tk s k :: r) nx ↔ fusesHead cc s (hdText r nx) = false ∧ SepN cc r nx := by
  simp [tk, SepN]

@[simp] theorem sepN_tkS (cc : CharClass) (s k r nx) : SepN cc (tkS s k :: r) nx ↔ SepN cc r nx := by
  simp [tkS, SepN]

@[simp] theorem sepN_append (cc : CharClass) : ∀ (a b : List Item) (nx : List Char),
    SepN cc (a ++ b) nx ↔ SepN cc a (hdText b nx) ∧ SepN cc b nx
  | [], b, nx => by simp
  | (l, k, sp) :: r, b, nx => by
    have ih := sepN_append cc r b nx
    simp only [List.cons_append, SepN, ih, hdText_append, and_assoc]

/-- a space after the last lexeme separates it from whatever follows -/
theorem sepN_spaced (cc : CharClass) : ∀ (l : List Item) (nx nx' : List Char),
    SepN cc l nx → SepN cc (spaced l) nx'
  | [], _, _, _ => trivial
  | [(s, k, sp)], _, _, _ => by simp [spaced, SepN]
  | (s, k, sp) :: y :: r, nx, nx', h => by
    obtain ⟨s', k', sp'⟩ := y
    have ih := sepN_spaced cc ((s', k', sp') :: r) nx nx' h.2
    have h1 := h.1
    simp only [hdText] at h1
    refine ⟨?_, ih⟩
    rw [hdText_spaced]
    exact h1

theorem sepN_sepOK (cc : CharClass) : ∀ l : List Item, SepN cc l [] → SepOK cc (l.map toLex)
  | [], _ => trivial
  | [_], _ => trivial
  | (s, k, sp) :: (s', k', sp') :: r, h => by
    have ih := sepN_sepOK cc ((s', k', sp') :: r) h.2
    refine ⟨?_, ih⟩
    rcases h.1 with h1 | h1
    · left; simp [h1]
    · right; exact h1

/-! ## What never fuses -/

@[simp] theorem fusesHead_nil (cc : CharClass) (a : List Char) : fusesHead cc a [] = false := rfl

@[simp] theorem fusesHead_lparen (cc : CharClass) (b : List Char) : fusesHead cc ['('] b = false := by
  cases b <;> simp [fusesHead, fuses, symbolChars]
@[simp] theorem fusesHead_rparen (cc : CharClass) (b : List Char) : fusesHead cc [')'] b = false := by
  cases b <;> simp [fusesHead, fuses, symbolChars]
@[simp] theorem fusesHead_lcurly (cc : CharClass) (b : List Char) : fusesHead cc ['{'] b = false := by
  cases b <;> simp [fusesHead, fuses, symbolChars]

theorem fusesHead_minus (cc : CharClass) (c : Char) (w : List Char) (h : c ≠ '>') :
    fusesHead cc ['-'] (c :: w) = false := by
  simp [fusesHead, fuses, h]

/-- a lexeme that may follow the last lexeme of any printed term directly -/
def Safe (cc : CharClass) (nx : List Char) : Prop := ∀ l k, IsLexeme cc l k → fusesHead cc l nx = false

theorem safe_nil (cc : CharClass) : Safe cc [] := fun _ _ _ => rfl

theorem fuses_closer {cc : CharClass} (hs : cc.PrintSane) {l : List Char} {k : TokKind} {d : Char}
    (h : IsLexeme cc l k) (hd : d = ')' ∨ d = '}' ∨ d = ';') : fuses cc l d = false := by
  have hne : d ≠ '=' ∧ d ≠ '>' := by rcases hd with rfl | rfl | rfl <;> decide
  have hcont : identCont cc d = false := by
    rcases hd with rfl | rfl | rfl
    · simp [identCont, hs.closer_cont.1]
    · simp [identCont, hs.closer_cont.2.1]
    · simp [identCont, hs.closer_cont.2.2]
  have hdig : isDigit d = false := by rcases hd with rfl | rfl | rfl <;> decide
  cases h with
  | sym l k h =>
    simp only [symTable, List.mem_cons, Prod.mk.injEq, List.not_mem_nil, or_false] at h
    rcases h with ⟨rfl, rfl⟩ | ⟨rfl, rfl⟩ | ⟨rfl, rfl⟩ | ⟨rfl, rfl⟩ | ⟨rfl, rfl⟩ | ⟨rfl, rfl⟩ |
      ⟨rfl, rfl⟩ | ⟨rfl, rfl⟩ | ⟨rfl, rfl⟩ | ⟨rfl, rfl⟩ | ⟨rfl, rfl⟩ | ⟨rfl, rfl⟩ | ⟨rfl, rfl⟩ |
      ⟨rfl, rfl⟩ | ⟨rfl, rfl⟩ | ⟨rfl, rfl⟩ | ⟨rfl, rfl⟩ | ⟨rfl, rfl⟩ <;>
      simp [fuses, symbolChars, hne.1, hne.2]
  | word c w hc hst hw => rw [fuses_word w d hc hst]; exact hcont
  | number c w hst hdg hw => rw [fuses_number w d (digit_not_sym hdg) hst]; exact hdig

theorem safe_rparen {cc : CharClass} (hs : cc.PrintSane) : Safe cc [')'] :=
  fun _ _ h => fuses_closer hs h (Or.inl rfl)
theorem safe_rcurly {cc : CharClass} (hs : cc.PrintSane) : Safe cc ['}'] :=
  fun _ _ h => fuses_closer hs h (Or.inr (Or.inl rfl))
theorem safe_semi {cc : CharClass} (hs : cc.PrintSane) : Safe cc [';'] :=
  fun _ _ h => fuses_closer hs h (Or.inr (Or.inr rfl))

/-! ## The invariant of the printer -/

/-- every item is a lexeme of its kind -/
def LexAll (cc : CharClass) (l : List Item) : Prop := ∀ it ∈ l, IsLexeme cc it.1 it.2.1

@[simp] theorem lexAll_nil (cc : CharClass) : LexAll cc [] ↔ True := by simp [LexAll]
@[simp] theorem lexAll_tk (cc : CharClass) (s k r) :
    LexAll cc (tk s k :: r) ↔ IsLexeme cc s k ∧ LexAll cc r := by simp [LexAll, tk]
@[simp] theorem lexAll_tkS (cc : CharClass) (s k r) :
    LexAll cc (tkS s k :: r) ↔ IsLexeme cc s k ∧ LexAll cc r := by simp [LexAll, tkS]
@[simp] theorem lexAll_append (cc : CharClass) (a b : List Item) :
    LexAll cc (a ++ b) ↔ LexAll cc a ∧ LexAll cc b := by
  simp only [LexAll, List.mem_append]
  exact ⟨fun h => ⟨fun it hi => h it (Or.inl hi), fun it hi => h it (Or.inr hi)⟩,
    fun h it hi => hi.elim (h.1 it) (h.2 it)⟩

theorem lexAll_spaced (cc : CharClass) : ∀ l : List Item, LexAll cc l → LexAll cc (spaced l)
  | [], h => h
  | [(s, k, sp)], h => by
    intro it hi
    simp only [spaced, List.mem_singleton] at hi
    subst hi
    exact h (s, k, sp) (by simp)
  | x :: y :: r, h => by
    have ih := lexAll_spaced cc (y :: r) (fun it hi => h it (List.mem_cons_of_mem _ hi))
    intro it hi
    simp only [spaced, List.mem_cons] at hi
    rcases hi with rfl | hi
    · exact h _ (by simp)
    · exact ih it (by simpa using hi)

/-- the first lexeme does not start with `>` (so it may follow a `-` directly) -/
def HdOK (l : List Item) : Prop := ∃ c w k sp r, l = (c :: w, k, sp) :: r ∧ c ≠ '>'

theorem hdOK_append {a : List Item} (b : List Item) (h : HdOK a) : HdOK (a ++ b) := by
  obtain ⟨c, w, k, sp, r, rfl, hc⟩ := h
  exact ⟨c, w, k, sp, r ++ b, rfl, hc⟩

theorem hdOK_spaced {a : List Item} (h : HdOK a) : HdOK (spaced a) := by
  obtain ⟨c, w, k, sp, r, rfl, hc⟩ := h
  cases r with
  | nil => exact ⟨c, w, k, true, [], rfl, hc⟩
  | cons y r => exact ⟨c, w, k, sp, spaced (y :: r), rfl, hc⟩

theorem hdOK_tk (c : Char) (w : List Char) (k : TokKind) (r : List Item) (h : c ≠ '>') :
    HdOK (tk (c :: w) k :: r) := ⟨c, w, k, false, r, rfl, h⟩
theorem hdOK_tkS (c : Char) (w : List Char) (k : TokKind) (r : List Item) (h : c ≠ '>') :
    HdOK (tkS (c :: w) k :: r) := ⟨c, w, k, true, r, rfl, h⟩

theorem sepN_minus (cc : CharClass) {a : List Item} (nx : List Char) (h : HdOK a) :
    fusesHead cc ['-'] (hdText a nx) = false := by
  obtain ⟨c, w, k, sp, r, rfl, hc⟩ := h
  exact fusesHead_minus cc c w hc

/-- what the induction carries for the lexeme list of a term -/
structure Inv (cc : CharClass) (l : List Item) : Prop where
  lex : LexAll cc l
  sep : ∀ nx, Safe cc nx → SepN cc l nx
  hd : HdOK l

/-- … and for the lexeme list of the definitions of a group (it ends with `; `) -/
structure InvD (cc : CharClass) (l : List Item) : Prop where
  lex : LexAll cc l
  sep : ∀ nx, SepN cc l nx
  hd : l = [] ∨ HdOK l

/-! ### Lexemes -/

theorem lx_sym (cc : CharClass) {l : List Char} {k : TokKind} (h : (l, k) ∈ symTable) :
    IsLexeme cc l k := .sym l k h

theorem lx_hole (cc : CharClass) : IsLexeme cc holeText (.identifier holeText) := by
  have e : wordKind ['_'] = .identifier ['_'] := by decide
  have := IsLexeme.word (cc := cc) '_' [] (by decide) (by simp [identStart]) (by simp)
  rw [e] at this
  exact this

theorem lx_keyword {cc : CharClass} (hs : cc.PrintSane) (c : Char) (w : List Char)
    (hc : c ∈ ['t', 'i', 'b', 'f', 'e'])
    (hw : ∀ x ∈ w, x ∈ ['y', 'p', 'e', 'n', 't', 'o', 'l', 'r', 'u', 'a', 's', 'f', 'h']) :
    IsLexeme cc (c :: w) (wordKind (c :: w)) := by
  refine .word c w ?_ ?_ ?_
  · revert c; decide
  · simp [identStart, hs.kw_start c hc]
  · intro x hx
    simp [identCont, hs.kw_cont x (hw x hx)]

theorem lx_type {cc : CharClass} (hs : cc.PrintSane) : IsLexeme cc kwType .type_ :=
  lx_keyword hs 't' ['y', 'p', 'e'] (by decide) (by decide)
theorem lx_int {cc : CharClass} (hs : cc.PrintSane) : IsLexeme cc kwInt .integer :=
  lx_keyword hs 'i' ['n', 't'] (by decide) (by decide)
theorem lx_bool {cc : CharClass} (hs : cc.PrintSane) : IsLexeme cc kwBool .boolean :=
  lx_keyword hs 'b' ['o', 'o', 'l'] (by decide) (by decide)
theorem lx_true {cc : CharClass} (hs : cc.PrintSane) : IsLexeme cc kwTrue .true_ :=
  lx_keyword hs 't' ['r', 'u', 'e'] (by decide) (by decide)
theorem lx_false {cc : CharClass} (hs : cc.PrintSane) : IsLexeme cc kwFalse .false_ :=
  lx_keyword hs 'f' ['a', 'l', 's', 'e'] (by decide) (by decide)
theorem lx_if {cc : CharClass} (hs : cc.PrintSane) : IsLexeme cc ['i', 'f'] .if_ :=
  lx_keyword hs 'i' ['f'] (by decide) (by decide)
theorem lx_then {cc : CharClass} (hs : cc.PrintSane) : IsLexeme cc ['t', 'h', 'e', 'n'] .then_ :=
  lx_keyword hs 't' ['h', 'e', 'n'] (by decide) (by decide)
theorem lx_else {cc : CharClass} (hs : cc.PrintSane) : IsLexeme cc ['e', 'l', 's', 'e'] .else_ :=
  lx_keyword hs 'e' ['l', 's', 'e'] (by decide) (by decide)

/-- a decimal digit string is a number lexeme of its value -/
theorem lx_digits {cc : CharClass} (hs : cc.PrintSane) (n : Nat) :
    IsLexeme cc (Nat.toDigits 10 n) (.integerLiteral n) ∧
      ∃ c w, Nat.toDigits 10 n = c :: w ∧ c ≠ '>' := by
  have hall := toDigits_isDigit n
  have hval := digitsValue_toDigits n
  cases hd : Nat.toDigits 10 n with
  | nil => exact absurd hd Nat.toDigits_ne_nil
  | cons c w =>
    rw [hd] at hall hval
    have hc : isDigit c = true := hall c (by simp)
    refine ⟨?_, c, w, rfl, digit_ne_gt hc⟩
    have := IsLexeme.number (cc := cc) c w
      (by simp [identStart, hs.digit_start c hc, digit_ne_underscore hc]) hc
      (fun x hx => hall x (by simp [hx]))
    rw [hval] at this
    exact this

theorem lx_op (cc : CharClass) (op : BinOp) : IsLexeme cc (opChars op) (opKind op) := by
  cases op <;> exact .sym _ _ (by decide)

/-- the text of an identifier does not start with `>` -/
theorem ident_hd {cc : CharClass} {l n : List Char} (h : IsLexeme cc l (.identifier n)) :
    ∃ c w, l = c :: w ∧ c ≠ '>' := by
  generalize hk : TokKind.identifier n = k at h
  cases h with
  | sym l k h =>
    subst hk
    simp [symTable] at h
  | word c w hc _ _ => exact ⟨c, w, rfl, (not_sym hc).2.2.2.2.2.2.2.2.2.2.2.2.2⟩
  | number c w _ hd _ => exact ⟨c, w, rfl, digit_ne_gt hd⟩

/-! ### The lexeme lists of the printer, one former at a time -/

section formers
variable {cc : CharClass}

theorem inv_single {s : List Char} {k : TokKind} (h : IsLexeme cc s k)
    (hh : ∃ c w, s = c :: w ∧ c ≠ '>') : Inv cc [tk s k] := by
  obtain ⟨c, w, rfl, hc⟩ := hh
  exact ⟨by simp [h], fun nx hnx => by simpa using hnx _ _ h, hdOK_tk c w k [] hc⟩

theorem inv_paren (hs : cc.PrintSane) {l : List Item} (h : Inv cc l) : Inv cc (parenI l) := by
  refine ⟨?_, fun nx _ => ?_, hdOK_tk '(' [] _ _ (by decide)⟩
  · simp only [parenI, lexAll_tk, lexAll_append, lexAll_nil, and_true, List.cons_append]
    exact ⟨lx_sym cc (by decide), h.lex, lx_sym cc (by decide)⟩
  · simp only [parenI, List.cons_append, sepN_tk, sepN_append, hdText_tk, fusesHead_lparen, fusesHead_rparen,
      sepN_nil, and_true, true_and]
    exact h.sep _ (safe_rparen hs)

theorem inv_wrapGroup (hs : cc.PrintSane) (t : Tm) {l : List Item} (h : Inv cc l) :
    Inv cc (wrapGroupI t l) := by
  unfold wrapGroupI
  split
  · exact h
  · exact inv_paren hs h

theorem inv_wrapHead (hs : cc.PrintSane) (t : Tm) {l : List Item} (h : Inv cc l) :
    Inv cc (wrapHeadI t l) := by
  cases t <;> first
    | exact h
    | exact inv_wrapGroup hs _ h

theorem inv_wrapAnnot (hs : cc.PrintSane) (t : Tm) {l : List Item} (h : Inv cc l) :
    Inv cc (wrapAnnotI t l) := by
  cases t <;> first
    | exact inv_paren hs h
    | exact h

theorem inv_int (hs : cc.PrintSane) (n : Int) : Inv cc (intItems n) := by
  cases n with
  | ofNat n =>
    obtain ⟨h1, h2⟩ := lx_digits hs n
    exact inv_single h1 h2
  | negSucc n =>
    obtain ⟨h1, c, w, e, hc⟩ := lx_digits hs (n + 1)
    refine ⟨?_, fun nx hnx => ?_, hdOK_tk '-' [] _ _ (by decide)⟩
    · simp only [intItems, lexAll_tk, lexAll_nil, and_true]
      exact ⟨lx_sym cc (by decide), h1⟩
    · simp only [intItems, sepN_tk, hdText_tk, hdText_nil, sepN_nil, and_true]
      exact ⟨by rw [e]; exact fusesHead_minus cc c w hc, hnx _ _ h1⟩

theorem inv_binder (open_ close : List Char) (ko kc ka : TokKind) (arrow : List Char)
    (hs : cc.PrintSane) {x : List Char} {ann body : List Item}
    (hopen : open_ = ['('] ∧ close = [')'] ∨ open_ = ['{'] ∧ close = ['}'])
    (ho : IsLexeme cc open_ ko) (hc : IsLexeme cc close kc) (ha : IsLexeme cc arrow ka)
    (hx : IsLexeme cc x (.identifier x)) (hann : Inv cc ann) (hbody : Inv cc body) :
    Inv cc (tk open_ ko :: tkS x (.identifier x) :: tkS [':'] .colon :: ann ++
      tkS close kc :: tkS arrow ka :: body) := by
  refine ⟨?_, fun nx hnx => ?_, ?_⟩
  · simp only [lexAll_tk, lexAll_tkS, lexAll_append, List.cons_append]
    exact ⟨ho, hx, lx_sym cc (by decide), hann.lex, hc, ha, hbody.lex⟩
  · simp only [sepN_tk, sepN_tkS, sepN_append, hdText_tkS, List.cons_append]
    rcases hopen with ⟨rfl, rfl⟩ | ⟨rfl, rfl⟩
    · exact ⟨fusesHead_lparen cc x, hann.sep _ (safe_rparen hs), hbody.sep nx hnx⟩
    · exact ⟨fusesHead_lcurly cc x, hann.sep _ (safe_rcurly hs), hbody.sep nx hnx⟩
  · rcases hopen with ⟨rfl, rfl⟩ | ⟨rfl, rfl⟩
    · exact hdOK_tk '(' [] _ _ (by decide)
    · exact hdOK_tk '{' [] _ _ (by decide)

theorem inv_lam (hs : cc.PrintSane) (imp : Bool) {x : List Char} {ann body : List Item}
    (hx : IsLexeme cc x (.identifier x)) (hann : Inv cc ann) (hbody : Inv cc body) :
    Inv cc (lamItems imp x ann body) := by
  cases imp
  · exact inv_binder ['('] [')'] _ _ _ ['=', '>'] hs (Or.inl ⟨rfl, rfl⟩) (lx_sym cc (by decide))
      (lx_sym cc (by decide)) (lx_sym cc (by decide)) hx hann hbody
  · exact inv_binder ['{'] ['}'] _ _ _ ['=', '>'] hs (Or.inr ⟨rfl, rfl⟩) (lx_sym cc (by decide))
      (lx_sym cc (by decide)) (lx_sym cc (by decide)) hx hann hbody

theorem inv_piDep (hs : cc.PrintSane) (imp : Bool) {x : List Char} {ann cod : List Item}
    (hx : IsLexeme cc x (.identifier x)) (hann : Inv cc ann) (hcod : Inv cc cod) :
    Inv cc (piDepItems imp x ann cod) := by
  cases imp
  · exact inv_binder ['('] [')'] _ _ _ ['-', '>'] hs (Or.inl ⟨rfl, rfl⟩) (lx_sym cc (by decide))
      (lx_sym cc (by decide)) (lx_sym cc (by decide)) hx hann hcod
  · exact inv_binder ['{'] ['}'] _ _ _ ['-', '>'] hs (Or.inr ⟨rfl, rfl⟩) (lx_sym cc (by decide))
      (lx_sym cc (by decide)) (lx_sym cc (by decide)) hx hann hcod

theorem inv_piImp (hs : cc.PrintSane) {dom cod : List Item} (hdom : Inv cc dom) (hcod : Inv cc cod) :
    Inv cc (piImpItems dom cod) := by
  refine ⟨?_, fun nx hnx => ?_, hdOK_tk '{' [] _ _ (by decide)⟩
  · simp only [piImpItems, lexAll_tk, lexAll_tkS, lexAll_append, List.cons_append]
    exact ⟨lx_sym cc (by decide), hdom.lex, lx_sym cc (by decide), lx_sym cc (by decide), hcod.lex⟩
  · simp only [piImpItems, sepN_tk, sepN_tkS, sepN_append, hdText_tkS, fusesHead_lcurly, true_and, List.cons_append]
    exact ⟨hdom.sep _ (safe_rcurly hs), hcod.sep nx hnx⟩

theorem inv_arrow {dom cod : List Item} (hdom : Inv cc dom) (hcod : Inv cc cod) :
    Inv cc (arrowItems dom cod) := by
  refine ⟨?_, fun nx hnx => ?_, hdOK_append _ (hdOK_spaced hdom.hd)⟩
  · simp only [arrowItems, lexAll_tkS, lexAll_append]
    exact ⟨lexAll_spaced cc _ hdom.lex, lx_sym cc (by decide), hcod.lex⟩
  · simp only [arrowItems, sepN_tkS, sepN_append]
    exact ⟨sepN_spaced cc _ [] _ (hdom.sep [] (safe_nil cc)), hcod.sep nx hnx⟩

theorem inv_app {f a : List Item} (hf : Inv cc f) (ha : Inv cc a) : Inv cc (appItems f a) := by
  refine ⟨?_, fun nx hnx => ?_, hdOK_append _ (hdOK_spaced hf.hd)⟩
  · simp only [appItems, lexAll_append]
    exact ⟨lexAll_spaced cc _ hf.lex, ha.lex⟩
  · simp only [appItems, sepN_append]
    exact ⟨sepN_spaced cc _ [] _ (hf.sep [] (safe_nil cc)), ha.sep nx hnx⟩

theorem inv_neg {a : List Item} (ha : Inv cc a) : Inv cc (negItems a) := by
  refine ⟨?_, fun nx hnx => ?_, hdOK_tk '-' [] _ _ (by decide)⟩
  · simp only [negItems, lexAll_tk]
    exact ⟨lx_sym cc (by decide), ha.lex⟩
  · simp only [negItems, sepN_tk]
    exact ⟨sepN_minus cc nx ha.hd, ha.sep nx hnx⟩

theorem inv_bin (op : BinOp) {a b : List Item} (ha : Inv cc a) (hb : Inv cc b) :
    Inv cc (binItems op a b) := by
  refine ⟨?_, fun nx hnx => ?_, hdOK_append _ (hdOK_spaced ha.hd)⟩
  · simp only [binItems, lexAll_tkS, lexAll_append]
    exact ⟨lexAll_spaced cc _ ha.lex, lx_op cc op, hb.lex⟩
  · simp only [binItems, sepN_tkS, sepN_append]
    exact ⟨sepN_spaced cc _ [] _ (ha.sep [] (safe_nil cc)), hb.sep nx hnx⟩

theorem inv_ite (hs : cc.PrintSane) {c a b : List Item} (hc : Inv cc c) (ha : Inv cc a)
    (hb : Inv cc b) : Inv cc (iteItems c a b) := by
  refine ⟨?_, fun nx hnx => ?_, hdOK_tkS 'i' ['f'] _ _ (by decide)⟩
  · simp only [iteItems, lexAll_tkS, lexAll_append, List.cons_append, List.append_assoc]
    exact ⟨lx_if hs, lexAll_spaced cc _ hc.lex, lx_then hs, lexAll_spaced cc _ ha.lex, lx_else hs,
      hb.lex⟩
  · simp only [iteItems, sepN_tkS, sepN_append, List.cons_append, List.append_assoc]
    exact ⟨sepN_spaced cc _ [] _ (hc.sep [] (safe_nil cc)),
      sepN_spaced cc _ [] _ (ha.sep [] (safe_nil cc)), hb.sep nx hnx⟩

theorem invD_def (hs : cc.PrintSane) {x : List Char} {ann d : List Item}
    (hx : IsLexeme cc x (.identifier x)) (hann : Inv cc ann) (hd : Inv cc d) :
    InvD cc (defItems x ann d) := by
  obtain ⟨c, w, rfl, hc⟩ := ident_hd hx
  refine ⟨?_, fun nx => ?_, Or.inr (hdOK_tkS c w _ _ hc)⟩
  · simp only [defItems, lexAll_tkS, lexAll_append, lexAll_nil, and_true, List.cons_append, List.append_assoc]
    exact ⟨hx, lx_sym cc (by decide), lexAll_spaced cc _ hann.lex, lx_sym cc (by decide), hd.lex,
      lx_sym cc (by decide)⟩
  · simp only [defItems, sepN_tkS, sepN_append, hdText_tkS, sepN_nil, and_true, List.cons_append, List.append_assoc]
    exact ⟨sepN_spaced cc _ [] _ (hann.sep [] (safe_nil cc)), hd.sep _ (safe_semi hs)⟩

theorem invD_nil : InvD cc [] := ⟨by simp, fun _ => trivial, Or.inl rfl⟩

theorem invD_append {a b : List Item} (ha : InvD cc a) (hb : InvD cc b) : InvD cc (a ++ b) := by
  refine ⟨by simp [ha.lex, hb.lex], fun nx => by simp [ha.sep, hb.sep], ?_⟩
  rcases ha.hd with rfl | h
  · simpa using hb.hd
  · exact Or.inr (hdOK_append _ h)

theorem inv_let {ds b : List Item} (hds : InvD cc ds) (hb : Inv cc b) : Inv cc (ds ++ b) := by
  refine ⟨by simp [hds.lex, hb.lex], fun nx hnx => by simp [hds.sep, hb.sep nx hnx], ?_⟩
  rcases hds.hd with rfl | h
  · simpa using hb.hd
  · exact hdOK_append _ h

end formers

/-! ## The names that are printed -/

mutual
/-- the names the printer prints: every variable, every binder of a lambda, of a *dependent*
function type and of a definition (the binder of a non-dependent function type is not printed) -/
def printedNames : Tm → List Name
  | .var x _ => [x]
  | .lam x _ d b => x :: (printedNames d ++ printedNames b)
  | .pi x _ d c => (if freeAt c 0 then [x] else []) ++ (printedNames d ++ printedNames c)
  | .app f a => printedNames f ++ printedNames a
  | .letg ds b => printedNamesDefs ds ++ printedNames b
  | .neg a => printedNames a
  | .bin _ a b => printedNames a ++ printedNames b
  | .ite c a b => printedNames c ++ (printedNames a ++ printedNames b)
  | _ => []
def printedNamesDefs : Defs → List Name
  | .nil => []
  | .cons x a d r => x :: (printedNames a ++ (printedNames d ++ printedNamesDefs r))
end

/-- every printed name is the text of one identifier token (not a keyword): it starts with an
identifier-start character, continues with identifier characters and is not a keyword — what the
tokenizer guarantees for every name that came out of parsing -/
def NamesOK (cc : CharClass) (nm : Name → List Char) (xs : List Name) : Prop :=
  ∀ x ∈ xs, IsLexeme cc (nm x) (.identifier (nm x))

theorem NamesOK.left {cc : CharClass} {nm : Name → List Char} {a b : List Name}
    (h : NamesOK cc nm (a ++ b)) : NamesOK cc nm a := fun x hx => h x (List.mem_append_left _ hx)
theorem NamesOK.right {cc : CharClass} {nm : Name → List Char} {a b : List Name}
    (h : NamesOK cc nm (a ++ b)) : NamesOK cc nm b := fun x hx => h x (List.mem_append_right _ hx)
theorem NamesOK.head {cc : CharClass} {nm : Name → List Char} {x : Name} {b : List Name}
    (h : NamesOK cc nm (x :: b)) : IsLexeme cc (nm x) (.identifier (nm x)) := h x (by simp)
theorem NamesOK.tail {cc : CharClass} {nm : Name → List Char} {x : Name} {b : List Name}
    (h : NamesOK cc nm (x :: b)) : NamesOK cc nm b := fun y hy => h y (List.mem_cons_of_mem _ hy)

/-! ## The printer's lexeme list is a rendering -/

mutual
theorem inv_printItems {cc : CharClass} (hs : cc.PrintSane) (nm : Name → List Char) :
    ∀ t : Tm, NamesOK cc nm (printedNames t) → Inv cc (printItems nm t)
  | .hole _ _, _ => inv_single (lx_hole cc) ⟨'_', [], rfl, by decide⟩
  | .type, _ => inv_single (lx_type hs) ⟨'t', ['y', 'p', 'e'], by decide, by decide⟩
  | .int, _ => inv_single (lx_int hs) ⟨'i', ['n', 't'], by decide, by decide⟩
  | .bool, _ => inv_single (lx_bool hs) ⟨'b', ['o', 'o', 'l'], by decide, by decide⟩
  | .tt, _ => inv_single (lx_true hs) ⟨'t', ['r', 'u', 'e'], by decide, by decide⟩
  | .ff, _ => inv_single (lx_false hs) ⟨'f', ['a', 'l', 's', 'e'], by decide, by decide⟩
  | .lit n, _ => by rw [printItems]; exact inv_int hs n
  | .var x _, hn => by
      rw [printItems]
      have hx : IsLexeme cc (nm x) (.identifier (nm x)) := hn x (by simp [printedNames])
      exact inv_single hx (ident_hd hx)
  | .lam x imp d b, hn => by
      rw [printedNames] at hn
      rw [printItems]
      exact inv_lam hs imp hn.head (inv_wrapAnnot hs d (inv_printItems hs nm d hn.tail.left))
        (inv_printItems hs nm b hn.tail.right)
  | .pi x imp d c, hn => by
      rw [printedNames] at hn
      have hd := inv_printItems hs nm d hn.right.left
      have hc := inv_printItems hs nm c hn.right.right
      rw [printItems]
      split
      · rename_i hf
        have hx : IsLexeme cc (nm x) (.identifier (nm x)) := hn x (by simp [hf])
        exact inv_piDep hs imp hx (inv_wrapAnnot hs d hd) hc
      · split
        · exact inv_piImp hs hd hc
        · exact inv_arrow (inv_wrapHead hs d hd) hc
  | .app f a, hn => by
      rw [printedNames] at hn
      rw [printItems]
      exact inv_app (inv_wrapHead hs f (inv_printItems hs nm f hn.left))
        (inv_wrapGroup hs a (inv_printItems hs nm a hn.right))
  | .letg ds b, hn => by
      rw [printedNames] at hn
      rw [printItems]
      exact inv_let (invD_printDefsItems hs nm ds hn.left) (inv_printItems hs nm b hn.right)
  | .neg a, hn => by
      rw [printedNames] at hn
      rw [printItems]
      exact inv_neg (inv_wrapGroup hs a (inv_printItems hs nm a hn))
  | .bin op a b, hn => by
      rw [printedNames] at hn
      rw [printItems]
      exact inv_bin op (inv_wrapGroup hs a (inv_printItems hs nm a hn.left))
        (inv_wrapGroup hs b (inv_printItems hs nm b hn.right))
  | .ite c a b, hn => by
      rw [printedNames] at hn
      rw [printItems]
      exact inv_ite hs (inv_printItems hs nm c hn.left) (inv_printItems hs nm a hn.right.left)
        (inv_printItems hs nm b hn.right.right)
theorem invD_printDefsItems {cc : CharClass} (hs : cc.PrintSane) (nm : Name → List Char) :
    ∀ ds : Defs, NamesOK cc nm (printedNamesDefs ds) → InvD cc (printDefsItems nm ds)
  | .nil, _ => by rw [printDefsItems]; exact invD_nil
  | .cons x a d r, hn => by
      rw [printedNamesDefs] at hn
      rw [printDefsItems]
      exact invD_append
        (invD_def hs hn.head (inv_wrapGroup hs a (inv_printItems hs nm a hn.tail.left))
          (inv_wrapGroup hs d (inv_printItems hs nm d hn.tail.right.left)))
        (invD_printDefsItems hs nm r hn.tail.right.right)
end

/-- the lexeme list of the printer, as a rendering: no leading gap, one space or nothing after
every lexeme, no final comment -/
theorem print_rendering {cc : CharClass} (hs : cc.PrintSane) (nm : Name → List Char) (t : Tm)
    (hn : NamesOK cc nm (printedNames t)) :
    Rendering cc [] ((printItems nm t).map toLex) none := by
  have h := inv_printItems hs nm t hn
  refine ⟨by simp [Gap.ok], ?_, eofOK_none, sepN_sepOK cc _ (h.sep [] (safe_nil cc))⟩
  intro it hit
  simp only [List.mem_map] at hit
  obtain ⟨i, hi, rfl⟩ := hit
  refine ⟨h.lex i hi, ?_⟩
  obtain ⟨s, k, sp⟩ := i
  cases sp
  · simp [toLex, Gap.ok]
  · simp only [toLex, if_true, Gap.ok, List.mem_singleton, forall_eq, GapItem.ok]
    refine ⟨hs.space_ws.1, by decide, hs.space_ws.2, ?_, by decide, by decide⟩
    simp [identCont, hs.space_cont]

/-- **The printed text tokenizes to the lexemes it was printed from**: for every sane classifier and
every name table that maps the printed names to identifier lexemes, `tokenize` of the printed text
succeeds (no error, no panic) and the kinds of its tokens (with payloads: identifier texts, literal
values) are exactly `printKinds nm t`. -/
theorem print_tokenizes {cc : CharClass} (hs : cc.PrintSane) (nm : Name → List Char) (t : Tm)
    (hn : NamesOK cc nm (printedNames t)) :
    ∃ ts, tokenize cc (printTm nm t) = .ok ts ∧ ts.map (·.kind) = printKinds nm t := by
  obtain ⟨ts, h1, h2⟩ := (print_rendering hs nm t hn).law hs.toSane2
  rw [renderText_toLex, ← printTm_eq_flatten] at h1
  rw [weave_toLex] at h2
  exact ⟨ts, h1, h2⟩

/-- **The printed text is a sentence of `grammar.y`**: tokenized, its terminals derive from the start
symbol. -/
theorem printed_text_is_sentence {cc : CharClass} (hs : cc.PrintSane) (nm : Name → List Char) (t : Tm)
    (hn : NamesOK cc nm (printedNames t)) (h1 : noImplicitArrow t = true) (h2 : noNegLit t = true) :
    ∃ ts, tokenize cc (printTm nm t) = .ok ts ∧
      Derives Generated.grammarProductions "term" (ts.map (fun tk => kindTerminal tk.kind)) := by
  obtain ⟨ts, e1, e2⟩ := print_tokenizes hs nm t hn
  refine ⟨ts, e1, ?_⟩
  have := print_derives nm t h1 h2
  rw [printToks_eq_map, ← e2, List.map_map] at this
  exact this

end PrintLex
