import GramModel.Lemmas.ParserSpan

/-! Unambiguity of the published grammar `grammar.y` (last clause of property C07), in the form
available in this development: the tree-carrying segment relation `SegT` (one constructor per
production of `grammar.y`) assigns at most one tree to any segment of any token array.

Method.  For the eight "tower" nonterminals (`atom`, `small_term`, … , `jumbo_term`, `term`) we prove,
by induction on the length of the longer segment, the *extension law*: two derivations from the same
nonterminal that start at the same token either end at the same token and carry the same tree, or
the token that follows the shorter one belongs to a fixed *extension set* of the nonterminal
(`ext`).  The separator tokens of the sequence productions are never in the extension set of the
operand before them, hence split points are unique; alternatives are told apart by their first
tokens and by the extension law itself. -/

set_option linter.unusedSimpArgs false
set_option linter.unusedVariables false

namespace PModel
namespace Unamb

variable {toks : Array PTok}

/-! ## Basics -/

theorem KAt.inj {a : Nat} {k k' : PKind} (h : KAt toks a k) (h' : KAt toks a k') : k = k' := by
  obtain ⟨_, e⟩ := h; obtain ⟨_, e'⟩ := h'; rw [← e, ← e']

theorem SegT.lt {A : NT} {a b : Nat} {t : Src} (h : SegT toks A a b t) : a < b :=
  h.spanned.bounds.1

theorem SegT.le_size {A : NT} {a b : Nat} {t : Src} (h : SegT toks A a b t) : b ≤ toks.size :=
  h.spanned.bounds.2

/-- The one-token atoms. -/
def isLeafK : PKind → Bool
  | .type_ | .identifier _ | .integer | .integerLiteral _ | .boolean | .true_ | .false_ => true
  | _ => false

/-- The first tokens of `atom` (and of `small_term`, `medium_term`). -/
def isF : PKind → Bool
  | .type_ | .identifier _ | .integer | .integerLiteral _ | .boolean | .true_ | .false_
  | .leftParen => true
  | _ => false

def isMul : PKind → Bool
  | .asterisk | .slash => true
  | _ => false

def isAdd : PKind → Bool
  | .plus | .minus => true
  | _ => false

def isCmp : PKind → Bool
  | .lessThan | .lessThanOrEqualTo | .doubleEquals | .greaterThan | .greaterThanOrEqualTo => true
  | _ => false

def isArrow : PKind → Bool
  | .thinArrow | .thickArrow => true
  | _ => false

def isDef : PKind → Bool
  | .equals | .colon => true
  | _ => false

def extLarge (k : PKind) : Bool := isF k || isMul k
def extHuge (k : PKind) : Bool := extLarge k || isAdd k
def extGiant (k : PKind) : Bool := extHuge k || isCmp k
def extGJ (k : PKind) : Bool := extGiant k || isArrow k
def extTerm (k : PKind) : Bool := extGJ k || isDef k

/-- The extension sets of the tower nonterminals: the tokens that can follow a segment derived from
the nonterminal when a longer segment with the same start is derived from it too. -/
def ext : NT → PKind → Bool
  | .smallTerm => isF
  | .mediumTerm | .largeTerm => extLarge
  | .hugeTerm => extHuge
  | .giantTerm => extGiant
  | .jumboTerm | .term => extTerm
  | _ => fun _ => false

/-- The tree of a one-token atom. -/
def leafTree (toks : Array PTok) (a : Nat) : PKind → Src
  | .type_ => .mk (rng toks a (a + 1)) false .type []
  | .identifier x => .mk (rng toks a (a + 1)) false (.var x) []
  | .integer => .mk (rng toks a (a + 1)) false .int []
  | .integerLiteral n => .mk (rng toks a (a + 1)) false (.lit (Int.ofNat n)) []
  | .boolean => .mk (rng toks a (a + 1)) false .bool []
  | .true_ => .mk (rng toks a (a + 1)) false .tt []
  | _ => .mk (rng toks a (a + 1)) false .ff []

/-- The operator built for an operator token. -/
def binOpTok : PKind → BinOp
  | .plus => .sum | .minus => .diff | .asterisk => .prod | .slash => .quot
  | .lessThan => .lt | .lessThanOrEqualTo => .le | .doubleEquals => .eq | .greaterThan => .gt
  | _ => .ge

/-- Closes the cases of a `cases` on `SegT` whose production-table membership is impossible. -/
local macro "junk" : tactic => `(tactic| try (simp only [unitProds, leafProds, binderProds, binProds,
  List.mem_cons, Prod.mk.injEq, reduceCtorEq, false_and, and_false, or_false, false_or,
  List.not_mem_nil, true_and, and_true] at *; done))

/-! ## Inversion of `SegT`, production by production -/

/-- The tower nonterminals have unit productions only. -/
theorem inv_unit {A : NT} {a b : Nat} {t : Src} (h : SegT toks A a b t)
    (hA : A ∈ [NT.term, .atom, .smallTerm, .mediumTerm, .largeTerm, .hugeTerm, .giantTerm,
      .jumboTerm]) : ∃ B, (A, B) ∈ unitProds ∧ SegT toks B a b t := by
  simp only [List.mem_cons, List.not_mem_nil, or_false] at hA
  rcases hA with rfl | rfl | rfl | rfl | rfl | rfl | rfl | rfl
  all_goals cases h
  all_goals junk
  all_goals exact ⟨_, ‹_›, ‹_›⟩

theorem inv_leafNT {A : NT} {a b : Nat} {t : Src} (h : SegT toks A a b t)
    (hA : A ∈ [NT.type, .variable, .integer, .integerLiteral, .boolean, .true_, .false_]) :
    ∃ k, KAt toks a k ∧ isLeafK k = true ∧ b = a + 1 ∧ t = leafTree toks a k := by
  simp only [List.mem_cons, List.not_mem_nil, or_false] at hA
  rcases hA with rfl | rfl | rfl | rfl | rfl | rfl | rfl
  all_goals cases h
  all_goals junk
  all_goals first
    | exact ⟨_, ‹KAt _ _ _›, rfl, rfl, rfl⟩
    | (rename_i hm hk
       simp only [leafProds, List.mem_cons, Prod.mk.injEq, reduceCtorEq, false_and, and_false,
         or_false, false_or, List.not_mem_nil, true_and] at hm
       subst hm
       exact ⟨_, hk, rfl, rfl, rfl⟩)

theorem inv_group {a b : Nat} {t : Src} (h : SegT toks .group a b t) :
    ∃ m inner, KAt toks a .leftParen ∧ SegT toks .term (a + 1) m inner ∧ KAt toks m .rightParen ∧
      b = m + 1 ∧ t = .mk (rng toks a (m + 1)) true inner.variant [] := by
  cases h
  all_goals junk
  exact ⟨_, _, ‹_›, ‹_›, ‹_›, rfl, rfl⟩

theorem inv_application {a b : Nat} {t : Src} (h : SegT toks .application a b t) :
    ∃ m f x, SegT toks .atom a m f ∧ SegT toks .smallTerm m b x ∧
      t = .mk (rng toks a b) false (.app f x) [] := by
  cases h
  all_goals junk
  exact ⟨_, _, _, ‹_›, ‹_›, rfl⟩

theorem inv_negation {a b : Nat} {t : Src} (h : SegT toks .negation a b t) :
    ∃ x, KAt toks a .minus ∧ SegT toks .largeTerm (a + 1) b x ∧
      t = .mk (rng toks a b) false (.neg x) [] := by
  cases h
  all_goals junk
  exact ⟨_, ‹_›, ‹_›, rfl⟩

theorem inv_lambda {a b : Nat} {t : Src} (h : SegT toks .lambda a b t) :
    ∃ x body, KAt toks a (.identifier x) ∧ KAt toks (a + 1) .thickArrow ∧
      SegT toks .term (a + 1 + 1) b body ∧
      t = .mk (rng toks a b) false (.lam ⟨tokenRange toks a, x⟩ false .none body) [] := by
  cases h
  all_goals junk
  exact ⟨_, _, ‹_›, ‹_›, ‹_›, rfl⟩

theorem inv_lambdaImplicit {a b : Nat} {t : Src} (h : SegT toks .lambdaImplicit a b t) :
    ∃ x body, KAt toks a .leftCurly ∧ KAt toks (a + 1) (.identifier x) ∧
      KAt toks (a + 1 + 1) .rightCurly ∧ KAt toks (a + 1 + 1 + 1) .thickArrow ∧
      SegT toks .term (a + 1 + 1 + 1 + 1) b body ∧
      t = .mk (rng toks a b) false (.lam ⟨tokenRange toks (a + 1), x⟩ true .none body) [] := by
  cases h
  all_goals junk
  exact ⟨_, _, ‹_›, ‹_›, ‹_›, ‹_›, ‹_›, rfl⟩

theorem inv_binder {A : NT} {a d : Nat} {t : Src} (h : SegT toks A a d t)
    (hA : A ∈ [NT.annotatedLambda, .annotatedLambdaImplicit, .pi, .piImplicit]) :
    ∃ o c ar x b dom body, (A, o, c, ar) ∈ binderProds ∧ KAt toks a o ∧
      KAt toks (a + 1) (.identifier x) ∧ KAt toks (a + 1 + 1) .colon ∧
      SegT toks .jumboTerm (a + 1 + 1 + 1) b dom ∧ KAt toks b c ∧ KAt toks (b + 1) ar ∧
      SegT toks .term (b + 1 + 1) d body ∧
      t = .mk (rng toks a d) false (binderV A ⟨tokenRange toks (a + 1), x⟩ dom body) [] := by
  simp only [List.mem_cons, List.not_mem_nil, or_false] at hA
  rcases hA with rfl | rfl | rfl | rfl
  all_goals cases h
  all_goals junk
  all_goals exact ⟨_, _, _, _, _, _, _, ‹_›, ‹_›, ‹_›, ‹_›, ‹_›, ‹_›, ‹_›, ‹_›, rfl⟩

theorem inv_ndpi {a c : Nat} {t : Src} (h : SegT toks .nonDependentPi a c t) :
    ∃ b dom cod, SegT toks .smallTerm a b dom ∧ KAt toks b .thinArrow ∧
      SegT toks .term (b + 1) c cod ∧
      t = .mk (rng toks a c) false (.pi ⟨emptyRange toks a, placeholder⟩ false dom cod) [] := by
  cases h
  all_goals junk
  exact ⟨_, _, _, ‹_›, ‹_›, ‹_›, rfl⟩

theorem inv_ite {a d : Nat} {t : Src} (h : SegT toks .if_ a d t) :
    ∃ b c x y z, KAt toks a .if_ ∧ SegT toks .term (a + 1) b x ∧ KAt toks b .then_ ∧
      SegT toks .term (b + 1) c y ∧ KAt toks c .else_ ∧ SegT toks .term (c + 1) d z ∧
      t = .mk (rng toks a d) false (.ite x y z) [] := by
  cases h
  all_goals junk
  exact ⟨_, _, _, _, _, ‹_›, ‹_›, ‹_›, ‹_›, ‹_›, ‹_›, rfl⟩

theorem inv_let {a d : Nat} {t : Src} (h : SegT toks .let_ a d t) :
    (∃ x tm b defn body, KAt toks a (.identifier x) ∧ KAt toks (a + 1) .equals ∧
      SegT toks .term (a + 1 + 1) b defn ∧ KAt toks b (.terminator tm) ∧
      SegT toks .term (b + 1) d body ∧
      t = .mk (rng toks a d) false (.let_ ⟨tokenRange toks a, x⟩ .none defn body) []) ∨
    (∃ x tm b c ann defn body, KAt toks a (.identifier x) ∧ KAt toks (a + 1) .colon ∧
      SegT toks .smallTerm (a + 1 + 1) b ann ∧ KAt toks b .equals ∧
      SegT toks .term (b + 1) c defn ∧ KAt toks c (.terminator tm) ∧
      SegT toks .term (c + 1) d body ∧
      t = .mk (rng toks a d) false (.let_ ⟨tokenRange toks a, x⟩ (.some ann) defn body) []) := by
  cases h
  all_goals junk
  · exact Or.inl ⟨_, _, _, _, _, ‹_›, ‹_›, ‹_›, ‹_›, ‹_›, rfl⟩
  · exact Or.inr ⟨_, _, _, _, _, _, _, ‹_›, ‹_›, ‹_›, ‹_›, ‹_›, ‹_›, ‹_›, rfl⟩

/-- The binary operator productions, by the class of their operator token. -/
theorem inv_bin {A : NT} {a c : Nat} {t : Src} (h : SegT toks A a c t)
    (hA : A ∈ [NT.sum, .difference, .product, .quotient, .lessThan, .lessThanOrEqualTo, .equalTo,
      .greaterThan, .greaterThanOrEqualTo]) :
    ∃ L op R b x y, (A, L, op, R) ∈ binProds ∧ SegT toks L a b x ∧ KAt toks b op ∧
      SegT toks R (b + 1) c y ∧ t = .mk (rng toks a c) false (.bin (binOpTok op) x y) [] := by
  simp only [List.mem_cons, List.not_mem_nil, or_false] at hA
  rcases hA with rfl | rfl | rfl | rfl | rfl | rfl | rfl | rfl | rfl
  all_goals cases h
  all_goals junk
  all_goals
    rename_i hm _ _
    refine ⟨_, _, _, _, _, _, hm, ‹_›, ‹_›, ‹_›, ?_⟩
    simp only [binProds, List.mem_cons, Prod.mk.injEq, reduceCtorEq, false_and, and_false,
      or_false, false_or, List.not_mem_nil, true_and] at hm
    obtain ⟨_, rfl, _⟩ := hm
    rfl

/-- Simplifies a membership in a production table with a concrete head. -/
local macro "prods" " at " h:ident : tactic => `(tactic| simp only [unitProds, leafProds, binderProds,
  binProds, List.mem_cons, Prod.mk.injEq, reduceCtorEq, false_and, and_false, or_false, false_or,
  List.not_mem_nil, true_and, and_true] at $h:ident)

/-! ## Inversion of the tower nonterminals -/

theorem inv_atom {a b : Nat} {t : Src} (h : SegT toks .atom a b t) :
    (∃ k, KAt toks a k ∧ isLeafK k = true ∧ b = a + 1 ∧ t = leafTree toks a k) ∨
    (∃ m inner, KAt toks a .leftParen ∧ SegT toks .term (a + 1) m inner ∧ KAt toks m .rightParen ∧
      b = m + 1 ∧ t = .mk (rng toks a (m + 1)) true inner.variant []) := by
  obtain ⟨B, hm, hB⟩ := inv_unit h (by simp)
  prods at hm
  rcases hm with rfl | rfl | rfl | rfl | rfl | rfl | rfl | rfl
  all_goals first
    | exact Or.inr (inv_group hB)
    | exact Or.inl (inv_leafNT hB (by simp))

theorem inv_small {a b : Nat} {t : Src} (h : SegT toks .smallTerm a b t) :
    SegT toks .atom a b t ∨ ∃ m f x, SegT toks .atom a m f ∧ SegT toks .smallTerm m b x ∧
      t = .mk (rng toks a b) false (.app f x) [] := by
  obtain ⟨B, hm, hB⟩ := inv_unit h (by simp)
  prods at hm
  rcases hm with rfl | rfl
  · exact Or.inr (inv_application hB)
  · exact Or.inl hB

/-- The shape of the three binary-operator levels. -/
def BinInv (toks : Array PTok) (X Y R : NT) (ops : PKind → Bool) : Prop :=
  ∀ {a b : Nat} {t : Src}, SegT toks X a b t → SegT toks Y a b t ∨
    ∃ m op x y, ops op = true ∧ SegT toks Y a m x ∧ KAt toks m op ∧ SegT toks R (m + 1) b y ∧
      t = .mk (rng toks a b) false (.bin (binOpTok op) x y) []

theorem inv_medium : BinInv toks .mediumTerm .smallTerm .largeTerm isMul := by
  intro a b t h
  obtain ⟨B, hm, hB⟩ := inv_unit h (by simp)
  prods at hm
  rcases hm with rfl | rfl | rfl
  · obtain ⟨L, op, R, m, x, y, hm, h1, h2, h3, h4⟩ := inv_bin hB (by simp)
    prods at hm
    obtain ⟨rfl, rfl, rfl⟩ := hm
    exact Or.inr ⟨m, _, x, y, rfl, h1, h2, h3, h4⟩
  · obtain ⟨L, op, R, m, x, y, hm, h1, h2, h3, h4⟩ := inv_bin hB (by simp)
    prods at hm
    obtain ⟨rfl, rfl, rfl⟩ := hm
    exact Or.inr ⟨m, _, x, y, rfl, h1, h2, h3, h4⟩
  · exact Or.inl hB

theorem inv_huge : BinInv toks .hugeTerm .largeTerm .hugeTerm isAdd := by
  intro a b t h
  obtain ⟨B, hm, hB⟩ := inv_unit h (by simp)
  prods at hm
  rcases hm with rfl | rfl | rfl
  · obtain ⟨L, op, R, m, x, y, hm, h1, h2, h3, h4⟩ := inv_bin hB (by simp)
    prods at hm
    obtain ⟨rfl, rfl, rfl⟩ := hm
    exact Or.inr ⟨m, _, x, y, rfl, h1, h2, h3, h4⟩
  · obtain ⟨L, op, R, m, x, y, hm, h1, h2, h3, h4⟩ := inv_bin hB (by simp)
    prods at hm
    obtain ⟨rfl, rfl, rfl⟩ := hm
    exact Or.inr ⟨m, _, x, y, rfl, h1, h2, h3, h4⟩
  · exact Or.inl hB

theorem inv_giant : BinInv toks .giantTerm .hugeTerm .hugeTerm isCmp := by
  intro a b t h
  obtain ⟨B, hm, hB⟩ := inv_unit h (by simp)
  prods at hm
  rcases hm with rfl | rfl | rfl | rfl | rfl | rfl
  all_goals first
    | exact Or.inl hB
    | (obtain ⟨L, op, R, m, x, y, hm, h1, h2, h3, h4⟩ := inv_bin hB (by simp)
       prods at hm
       obtain ⟨rfl, rfl, rfl⟩ := hm
       exact Or.inr ⟨m, _, x, y, rfl, h1, h2, h3, h4⟩)

theorem inv_large {a b : Nat} {t : Src} (h : SegT toks .largeTerm a b t) :
    SegT toks .mediumTerm a b t ∨ ∃ x, KAt toks a .minus ∧ SegT toks .largeTerm (a + 1) b x ∧
      t = .mk (rng toks a b) false (.neg x) [] := by
  obtain ⟨B, hm, hB⟩ := inv_unit h (by simp)
  prods at hm
  rcases hm with rfl | rfl
  · exact Or.inr (inv_negation hB)
  · exact Or.inl hB

/-- The alternatives of `jumbo_term` other than `giant_term` (they all end in a `term`). -/
def Open (toks : Array PTok) (a d : Nat) (t : Src) : Prop :=
  (∃ x body, KAt toks a (.identifier x) ∧ KAt toks (a + 1) .thickArrow ∧
      SegT toks .term (a + 1 + 1) d body ∧
      t = .mk (rng toks a d) false (.lam ⟨tokenRange toks a, x⟩ false .none body) []) ∨
  (∃ x body, KAt toks a .leftCurly ∧ KAt toks (a + 1) (.identifier x) ∧
      KAt toks (a + 1 + 1) .rightCurly ∧ KAt toks (a + 1 + 1 + 1) .thickArrow ∧
      SegT toks .term (a + 1 + 1 + 1 + 1) d body ∧
      t = .mk (rng toks a d) false (.lam ⟨tokenRange toks (a + 1), x⟩ true .none body) []) ∨
  (∃ A o c ar x b dom body, (A, o, c, ar) ∈ binderProds ∧ KAt toks a o ∧
      KAt toks (a + 1) (.identifier x) ∧ KAt toks (a + 1 + 1) .colon ∧
      SegT toks .jumboTerm (a + 1 + 1 + 1) b dom ∧ KAt toks b c ∧ KAt toks (b + 1) ar ∧
      SegT toks .term (b + 1 + 1) d body ∧
      t = .mk (rng toks a d) false (binderV A ⟨tokenRange toks (a + 1), x⟩ dom body) []) ∨
  (∃ b dom cod, SegT toks .smallTerm a b dom ∧ KAt toks b .thinArrow ∧
      SegT toks .term (b + 1) d cod ∧
      t = .mk (rng toks a d) false (.pi ⟨emptyRange toks a, placeholder⟩ false dom cod) []) ∨
  (∃ b c x y z, KAt toks a .if_ ∧ SegT toks .term (a + 1) b x ∧ KAt toks b .then_ ∧
      SegT toks .term (b + 1) c y ∧ KAt toks c .else_ ∧ SegT toks .term (c + 1) d z ∧
      t = .mk (rng toks a d) false (.ite x y z) [])

theorem inv_jumbo {a b : Nat} {t : Src} (h : SegT toks .jumboTerm a b t) :
    SegT toks .giantTerm a b t ∨ Open toks a b t := by
  obtain ⟨B, hm, hB⟩ := inv_unit h (by simp)
  prods at hm
  rcases hm with rfl | rfl | rfl | rfl | rfl | rfl | rfl | rfl | rfl
  · exact Or.inr (Or.inl (inv_lambda hB))
  · exact Or.inr (Or.inr (Or.inl (inv_lambdaImplicit hB)))
  · exact Or.inr (Or.inr (Or.inr (Or.inl ⟨_, inv_binder hB (by simp)⟩)))
  · exact Or.inr (Or.inr (Or.inr (Or.inl ⟨_, inv_binder hB (by simp)⟩)))
  · exact Or.inr (Or.inr (Or.inr (Or.inl ⟨_, inv_binder hB (by simp)⟩)))
  · exact Or.inr (Or.inr (Or.inr (Or.inl ⟨_, inv_binder hB (by simp)⟩)))
  · exact Or.inr (Or.inr (Or.inr (Or.inr (Or.inl (inv_ndpi hB)))))
  · exact Or.inr (Or.inr (Or.inr (Or.inr (Or.inr (inv_ite hB)))))
  · exact Or.inl hB

theorem inv_term {a b : Nat} {t : Src} (h : SegT toks .term a b t) :
    SegT toks .jumboTerm a b t ∨ SegT toks .let_ a b t := by
  obtain ⟨B, hm, hB⟩ := inv_unit h (by simp)
  prods at hm
  rcases hm with rfl | rfl
  · exact Or.inr hB
  · exact Or.inl hB

/-! ## Lifting along the tower -/

theorem up_small {a b : Nat} {t : Src} (h : SegT toks .atom a b t) : SegT toks .smallTerm a b t :=
  .unit (by simp [unitProds]) h
theorem up_medium {a b : Nat} {t : Src} (h : SegT toks .smallTerm a b t) :
    SegT toks .mediumTerm a b t := .unit (by simp [unitProds]) h
theorem up_large {a b : Nat} {t : Src} (h : SegT toks .mediumTerm a b t) :
    SegT toks .largeTerm a b t := .unit (by simp [unitProds]) h
theorem up_huge {a b : Nat} {t : Src} (h : SegT toks .largeTerm a b t) :
    SegT toks .hugeTerm a b t := .unit (by simp [unitProds]) h
theorem up_giant {a b : Nat} {t : Src} (h : SegT toks .hugeTerm a b t) :
    SegT toks .giantTerm a b t := .unit (by simp [unitProds]) h
theorem up_jumbo {a b : Nat} {t : Src} (h : SegT toks .giantTerm a b t) :
    SegT toks .jumboTerm a b t := .unit (by simp [unitProds]) h
theorem up_term {a b : Nat} {t : Src} (h : SegT toks .jumboTerm a b t) :
    SegT toks .term a b t := .unit (by simp [unitProds]) h

theorem small_giant {a b : Nat} {t : Src} (h : SegT toks .smallTerm a b t) :
    SegT toks .giantTerm a b t := up_giant (up_huge (up_large (up_medium h)))

/-- An identifier token is a variable, hence an atom. -/
theorem var_atom {a : Nat} {x : Name} (h : KAt toks a (.identifier x)) :
    SegT toks .atom a (a + 1) (leafTree toks a (.identifier x)) :=
  .unit (B := .variable) (by simp [unitProds]) (.var h)

/-! ## First tokens -/

theorem isF_of_leaf {k : PKind} (h : isLeafK k = true) : isF k = true := by
  cases k <;> simp_all [isLeafK, isF]

def isFM : PKind → Bool
  | .minus => true
  | k => isF k

theorem isFM_of_isF {k : PKind} (h : isF k = true) : isFM k = true := by
  cases k <;> simp_all [isFM, isF]

theorem first_atom {a b : Nat} {t : Src} (h : SegT toks .atom a b t) :
    ∃ k, KAt toks a k ∧ isF k = true := by
  rcases inv_atom h with ⟨k, k1, lk, _, _⟩ | ⟨m, inner, p1, _⟩
  · exact ⟨k, k1, isF_of_leaf lk⟩
  · exact ⟨_, p1, rfl⟩

theorem first_small {a b : Nat} {t : Src} (h : SegT toks .smallTerm a b t) :
    ∃ k, KAt toks a k ∧ isF k = true := by
  rcases inv_small h with h | ⟨m, f, x, h, _⟩ <;> exact first_atom h

theorem first_medium {a b : Nat} {t : Src} (h : SegT toks .mediumTerm a b t) :
    ∃ k, KAt toks a k ∧ isF k = true := by
  rcases inv_medium h with h | ⟨m, op, x, y, _, h, _⟩ <;> exact first_small h

theorem first_large {a b : Nat} {t : Src} (h : SegT toks .largeTerm a b t) :
    ∃ k, KAt toks a k ∧ isFM k = true := by
  rcases inv_large h with h | ⟨x, h, _⟩
  · obtain ⟨k, k1, hk⟩ := first_medium h
    exact ⟨k, k1, isFM_of_isF hk⟩
  · exact ⟨_, h, rfl⟩

theorem first_huge {a b : Nat} {t : Src} (h : SegT toks .hugeTerm a b t) :
    ∃ k, KAt toks a k ∧ isFM k = true := by
  rcases inv_huge h with h | ⟨m, op, x, y, _, h, _⟩ <;> exact first_large h

theorem first_giant {a b : Nat} {t : Src} (h : SegT toks .giantTerm a b t) :
    ∃ k, KAt toks a k ∧ isFM k = true := by
  rcases inv_giant h with h | ⟨m, op, x, y, _, h, _⟩ <;> exact first_huge h

/-- A `giant_term` that starts with an atom token starts with an atom. -/
theorem lead_atom {a e : Nat} {t : Src} (h : SegT toks .giantTerm a e t) {k : PKind}
    (k1 : KAt toks a k) (hk : isF k = true) : ∃ m f, m ≤ e ∧ SegT toks .atom a m f := by
  have h1 : ∃ e1 t1, e1 ≤ e ∧ SegT toks .hugeTerm a e1 t1 := by
    rcases inv_giant h with h | ⟨m, op, x, y, _, h, _, h3, _⟩
    · exact ⟨_, _, Nat.le_refl _, h⟩
    · exact ⟨_, _, by have := SegT.lt h3; omega, h⟩
  obtain ⟨e1, t1, le1, h1⟩ := h1
  have h2 : ∃ e2 t2, e2 ≤ e ∧ SegT toks .largeTerm a e2 t2 := by
    rcases inv_huge h1 with h | ⟨m, op, x, y, _, h, _, h3, _⟩
    · exact ⟨_, _, le1, h⟩
    · exact ⟨_, _, by have := SegT.lt h3; omega, h⟩
  obtain ⟨e2, t2, le2, h2⟩ := h2
  have h3 : SegT toks .mediumTerm a e2 t2 := by
    rcases inv_large h2 with h | ⟨x, h, _⟩
    · exact h
    · cases KAt.inj k1 h; simp [isF] at hk
  have h4 : ∃ e4 t4, e4 ≤ e ∧ SegT toks .smallTerm a e4 t4 := by
    rcases inv_medium h3 with h | ⟨m, op, x, y, _, h, _, h3, _⟩
    · exact ⟨_, _, le2, h⟩
    · exact ⟨_, _, by have := SegT.lt h3; omega, h⟩
  obtain ⟨e4, t4, le4, h4⟩ := h4
  rcases inv_small h4 with h | ⟨m, f, x, h, h5, _⟩
  · exact ⟨_, _, le4, h⟩
  · exact ⟨_, _, by have := SegT.lt h5; omega, h⟩

/-! ## The extension law -/

/-- The outcome of comparing two derivations with the same start: same end and same tree, or the
first is shorter and is followed by a token of the extension set `e`. -/
def Res (toks : Array PTok) (e : PKind → Bool) (b b' : Nat) (t t' : Src) : Prop :=
  (b = b' ∧ t = t') ∨ (b < b' ∧ ∃ k, KAt toks b k ∧ e k = true)

theorem Res.mono {e e' : PKind → Bool} {b b' : Nat} {t t' : Src} (h : Res toks e b b' t t')
    (he : ∀ k, e k = true → e' k = true) : Res toks e' b b' t t' := by
  rcases h with h | ⟨h1, k, h2, h3⟩
  · exact Or.inl h
  · exact Or.inr ⟨h1, k, h2, he k h3⟩

/-- The extension law for `A`, for segments of length at most `n`. -/
def MainLe (toks : Array PTok) (A : NT) (n : Nat) : Prop :=
  ∀ a b b' t t', b' - a ≤ n → SegT toks A a b t → SegT toks A a b' t' → b ≤ b' →
    Res toks (ext A) b b' t t'

theorem MainLe.tri {A : NT} {n : Nat} (h : MainLe toks A n) {a b b' : Nat} {t t' : Src}
    (h1 : SegT toks A a b t) (h2 : SegT toks A a b' t') (hb : b - a ≤ n) (hb' : b' - a ≤ n) :
    (b = b' ∧ t = t') ∨ (b < b' ∧ ∃ k, KAt toks b k ∧ ext A k = true) ∨
      (b' < b ∧ ∃ k, KAt toks b' k ∧ ext A k = true) := by
  rcases Nat.le_total b b' with hle | hle
  · rcases h a b b' t t' hb' h1 h2 hle with h | h
    · exact Or.inl h
    · exact Or.inr (Or.inl h)
  · rcases h a b' b t' t hb h2 h1 hle with h | h
    · exact Or.inl ⟨h.1.symm, h.2.symm⟩
    · exact Or.inr (Or.inr h)

/-- Split points are unique: the separator is not in the extension set of the left operand. -/
theorem MainLe.split {A : NT} {n : Nat} (h : MainLe toks A n) {a m m' : Nat} {x x' : Src}
    {op op' : PKind} (h1 : SegT toks A a m x) (h2 : SegT toks A a m' x') (hm : m - a ≤ n)
    (hm' : m' - a ≤ n) (k1 : KAt toks m op) (k2 : KAt toks m' op') (e1 : ext A op = false)
    (e2 : ext A op' = false) : m = m' ∧ x = x' := by
  rcases h.tri h1 h2 hm hm' with h | ⟨_, k, k3, e3⟩ | ⟨_, k, k3, e3⟩
  · exact h
  · cases KAt.inj k1 k3; rw [e1] at e3; cases e3
  · cases KAt.inj k2 k3; rw [e2] at e3; cases e3

theorem MainLe.anti {A : NT} {n m : Nat} (h : MainLe toks A n) (hm : m ≤ n) : MainLe toks A m :=
  fun a b b' t t' hl => h a b b' t t' (by omega)

/-- A `giant_term` against a longer `jumbo_term`. -/
def GJ (toks : Array PTok) (n : Nat) : Prop :=
  ∀ a b b' t t', b' - a ≤ n → SegT toks .giantTerm a b t → SegT toks .jumboTerm a b' t' → b < b' →
    ∃ k, KAt toks b k ∧ extGJ k = true

/-- The induction package. -/
structure P (toks : Array PTok) (n : Nat) : Prop where
  atom : MainLe toks .atom n
  small : MainLe toks .smallTerm n
  medium : MainLe toks .mediumTerm n
  large : MainLe toks .largeTerm n
  huge : MainLe toks .hugeTerm n
  giant : MainLe toks .giantTerm n
  jumbo : MainLe toks .jumboTerm n
  term : MainLe toks .term n
  gj : GJ toks n

/-! ### Stage 1: `atom`, `small_term` -/

theorem main_atom {n : Nat} (ih : P toks n) : MainLe toks .atom (n + 1) := by
  intro a b b' t t' hl h1 h2 hb
  rcases inv_atom h1 with ⟨k, k1, lk, rfl, rfl⟩ | ⟨m, inner, p1, i1, q1, rfl, rfl⟩
  · rcases inv_atom h2 with ⟨k', k1', lk', rfl, rfl⟩ | ⟨m', inner', p1', i1', q1', rfl, rfl⟩
    · cases KAt.inj k1 k1'; exact Or.inl ⟨rfl, rfl⟩
    · cases KAt.inj k1 p1'; simp [isLeafK] at lk
  · rcases inv_atom h2 with ⟨k', k1', lk', rfl, rfl⟩ | ⟨m', inner', p1', i1', q1', rfl, rfl⟩
    · cases KAt.inj k1' p1; simp [isLeafK] at lk'
    · have hi := SegT.lt i1
      have hi' := SegT.lt i1'
      obtain ⟨rfl, rfl⟩ := ih.term.split i1 i1' (by omega) (by omega) q1 q1' rfl rfl
      exact Or.inl ⟨rfl, rfl⟩

theorem main_small {n : Nat} (ih : P toks n) (hA : MainLe toks .atom (n + 1)) :
    MainLe toks .smallTerm (n + 1) := by
  intro a b b' t t' hl h1 h2 hb
  have noext : ∀ k, ext .atom k = true → False := fun k h => by simp [ext] at h
  rcases inv_small h1 with g1 | ⟨m, f, x, g1, s1, rfl⟩
  · rcases inv_small h2 with g2 | ⟨m', f', x', g2, s2, rfl⟩
    · exact (hA a b b' t t' hl g1 g2 hb).mono (fun k h => (noext k h).elim)
    · have := SegT.lt s2
      rcases hA.tri g1 g2 (by omega) (by omega) with ⟨rfl, _⟩ | ⟨_, k, _, e⟩ | ⟨_, k, _, e⟩
      · obtain ⟨k, k1, hk⟩ := first_small s2
        exact Or.inr ⟨by omega, k, k1, hk⟩
      · exact (noext k e).elim
      · exact (noext k e).elim
  · have l1 := SegT.lt s1
    have l0 := SegT.lt g1
    rcases inv_small h2 with g2 | ⟨m', f', x', g2, s2, rfl⟩
    · rcases hA.tri g1 g2 (by omega) (by omega) with ⟨rfl, _⟩ | ⟨_, k, _, e⟩ | ⟨_, k, _, e⟩
      · omega
      · exact (noext k e).elim
      · exact (noext k e).elim
    · have l2 := SegT.lt s2
      rcases hA.tri g1 g2 (by omega) (by omega) with ⟨rfl, rfl⟩ | ⟨_, k, _, e⟩ | ⟨_, k, _, e⟩
      · rcases ih.small m b b' x x' (by omega) s1 s2 hb with ⟨rfl, rfl⟩ | h
        · exact Or.inl ⟨rfl, rfl⟩
        · exact Or.inr h
      · exact (noext k e).elim
      · exact (noext k e).elim

/-! ### Stage 2: the arithmetic and comparison tower -/

/-- The three levels `X : Y | Y op R`. -/
theorem main_binlevel {X Y R : NT} {ops : PKind → Bool} {n : Nat} (hinv : BinInv toks X Y R ops)
    (hY : MainLe toks Y (n + 1)) (hR : MainLe toks R n)
    (eY : ∀ k, ext Y k = true → ext X k = true) (eR : ∀ k, ext R k = true → ext X k = true)
    (eO : ∀ k, ops k = true → ext X k = true) (dis : ∀ k, ops k = true → ext Y k = false) :
    MainLe toks X (n + 1) := by
  intro a b b' t t' hl h1 h2 hb
  rcases hinv h1 with g1 | ⟨m, op, x, y, o1, g1, k1, r1, rfl⟩
  · rcases hinv h2 with g2 | ⟨m', op', x', y', o2, g2, k2, r2, rfl⟩
    · exact (hY a b b' t t' hl g1 g2 hb).mono eY
    · have := SegT.lt r2
      rcases hY.tri g1 g2 (by omega) (by omega) with ⟨rfl, _⟩ | ⟨_, k, k3, e⟩ | ⟨_, k, k3, e⟩
      · exact Or.inr ⟨by omega, _, k2, eO _ o2⟩
      · exact Or.inr ⟨by omega, k, k3, eY k e⟩
      · cases KAt.inj k2 k3; rw [dis _ o2] at e; cases e
  · have l1 := SegT.lt r1
    have l0 := SegT.lt g1
    rcases hinv h2 with g2 | ⟨m', op', x', y', o2, g2, k2, r2, rfl⟩
    · rcases hY.tri g1 g2 (by omega) (by omega) with ⟨rfl, _⟩ | ⟨_, k, k3, e⟩ | ⟨_, k, k3, e⟩
      · omega
      · cases KAt.inj k1 k3; rw [dis _ o1] at e; cases e
      · omega
    · have l2 := SegT.lt r2
      obtain ⟨rfl, rfl⟩ := hY.split g1 g2 (by omega) (by omega) k1 k2 (dis _ o1) (dis _ o2)
      cases KAt.inj k1 k2
      rcases hR (m + 1) b b' y y' (by omega) r1 r2 hb with ⟨rfl, rfl⟩ | h
      · exact Or.inl ⟨rfl, rfl⟩
      · obtain ⟨h3, k, k3, e⟩ := h
        exact Or.inr ⟨h3, k, k3, eR k e⟩

theorem main_medium {n : Nat} (ih : P toks n) (hS : MainLe toks .smallTerm (n + 1)) :
    MainLe toks .mediumTerm (n + 1) :=
  main_binlevel inv_medium hS ih.large
    (fun k h => by simp only [ext, extLarge] at h ⊢; simp [h])
    (fun k h => h)
    (fun k h => by simp only [ext, extLarge] at h ⊢; simp [h])
    (fun k h => by cases k <;> simp_all [isMul, ext, isF])

theorem main_large {n : Nat} (ih : P toks n) (hM : MainLe toks .mediumTerm (n + 1)) :
    MainLe toks .largeTerm (n + 1) := by
  intro a b b' t t' hl h1 h2 hb
  rcases inv_large h1 with g1 | ⟨x, k1, r1, rfl⟩
  · rcases inv_large h2 with g2 | ⟨x', k2, r2, rfl⟩
    · exact hM a b b' t t' hl g1 g2 hb
    · obtain ⟨k, k3, hk⟩ := first_medium g1
      cases KAt.inj k2 k3; simp [isF] at hk
  · rcases inv_large h2 with g2 | ⟨x', k2, r2, rfl⟩
    · obtain ⟨k, k3, hk⟩ := first_medium g2
      cases KAt.inj k1 k3; simp [isF] at hk
    · rcases ih.large (a + 1) b b' x x' (by omega) r1 r2 hb with ⟨rfl, rfl⟩ | h
      · exact Or.inl ⟨rfl, rfl⟩
      · exact Or.inr h

theorem main_huge {n : Nat} (ih : P toks n) (hL : MainLe toks .largeTerm (n + 1)) :
    MainLe toks .hugeTerm (n + 1) :=
  main_binlevel inv_huge hL ih.huge
    (fun k h => by simp only [ext, extHuge] at h ⊢; simp [h])
    (fun k h => h)
    (fun k h => by simp only [ext, extHuge] at h ⊢; simp [h])
    (fun k h => by cases k <;> simp_all [isAdd, ext, extLarge, isF, isMul])

theorem main_giant {n : Nat} (ih : P toks n) (hH : MainLe toks .hugeTerm (n + 1)) :
    MainLe toks .giantTerm (n + 1) :=
  main_binlevel inv_giant hH ih.huge
    (fun k h => by simp only [ext, extGiant] at h ⊢; simp [h])
    (fun k h => by simp only [ext, extGiant] at h ⊢; simp [h])
    (fun k h => by simp only [ext, extGiant] at h ⊢; simp [h])
    (fun k h => by cases k <;> simp_all [isCmp, ext, extHuge, extLarge, isF, isMul, isAdd])

/-! ### Stage 3: binders, arrows, conditionals, definitions -/

theorem Res.map {e : PKind → Bool} {b b' : Nat} {x x' t t' : Src} (h : Res toks e b b' x x')
    (ht : b = b' → x = x' → t = t') : Res toks e b b' t t' := by
  rcases h with ⟨h1, h2⟩ | h
  · exact Or.inl ⟨h1, ht h1 h2⟩
  · exact Or.inr h

/-- A `small_term` that starts with an identifier followed by a token that starts no atom is that
identifier. -/
theorem small_ident_next {n : Nat} (hS : MainLe toks .smallTerm n) {a m : Nat} {t : Src}
    (h : SegT toks .smallTerm a m t) (hm : m - a ≤ n) {x : Name} {k : PKind}
    (k1 : KAt toks a (.identifier x)) (k2 : KAt toks (a + 1) k) (hk : isF k = false) :
    m = a + 1 := by
  have l := SegT.lt h
  rcases hS.tri (up_small (var_atom k1)) h (by omega) hm with ⟨h1, _⟩ | ⟨_, k', k3, e⟩ | ⟨_, _⟩
  · exact h1.symm
  · cases KAt.inj k2 k3; rw [show ext .smallTerm k = isF k from rfl, hk] at e; cases e
  · omega

/-- The `pi`/`group` conflict: no atom starts with `( x : jumbo_term )`. -/
theorem conflict_paren {n : Nat} (ih : P toks n) {a m b : Nat} {f dom : Src} {x : Name}
    (h : SegT toks .atom a m f) (hl : m - a ≤ n + 1) (p1 : KAt toks a .leftParen)
    (p2 : KAt toks (a + 1) (.identifier x)) (p3 : KAt toks (a + 1 + 1) .colon)
    (hd : SegT toks .jumboTerm (a + 1 + 1 + 1) b dom) (hdl : b - a ≤ n + 1)
    (p4 : KAt toks b .rightParen) : False := by
  rcases inv_atom h with ⟨k, k1, lk, _, _⟩ | ⟨m', inner, _, i1, q1, rfl, rfl⟩
  · cases KAt.inj k1 p1; simp [isLeafK] at lk
  · have li := SegT.lt i1
    rcases inv_term i1 with j | l
    · have v := up_jumbo (small_giant (up_small (var_atom p2)))
      have v' := small_giant (up_small (var_atom p2))
      rcases Nat.lt_or_ge (a + 1 + 1) m' with hlt | hge
      · obtain ⟨k, k3, e⟩ := ih.gj _ _ _ _ _ (by omega) v' j hlt
        cases KAt.inj p3 k3; exact absurd e (by decide)
      · have : m' = a + 1 + 1 := by omega
        subst this
        exact nomatch KAt.inj p3 q1
    · rcases inv_let l with ⟨x', tm, b2, defn, body, _, e2, _⟩ |
        ⟨x', tm, p, c, ann, defn, body, _, _, s1, e1, d1, _, d2, _⟩
      · exact nomatch KAt.inj p3 e2
      · have l1 := SegT.lt s1
        have l2 := SegT.lt d1
        have l3 := SegT.lt d2
        have l4 := SegT.lt hd
        rcases ih.jumbo.tri (up_jumbo (small_giant s1)) hd (by omega) (by omega) with
          ⟨rfl, _⟩ | ⟨hlt, k, k3, e⟩ | ⟨hlt, k, k3, e⟩
        · exact nomatch KAt.inj e1 p4
        · obtain ⟨k, k3, e⟩ := ih.gj _ _ _ _ _ (by omega) (small_giant s1) hd hlt
          cases KAt.inj e1 k3; exact absurd e (by decide)
        · cases KAt.inj p4 k3; exact absurd e (by decide)

theorem binder_open {A : NT} {o c ar : PKind} (h : (A, o, c, ar) ∈ binderProds) :
    (o = .leftParen ∧ c = .rightParen) ∨ (o = .leftCurly ∧ c = .rightCurly) := by
  prods at h
  rcases h with ⟨_, rfl, rfl, _⟩ | ⟨_, rfl, rfl, _⟩ | ⟨_, rfl, rfl, _⟩ | ⟨_, rfl, rfl, _⟩ <;> simp

theorem binder_det {A A' : NT} {o o' c ar : PKind} (h : (A, o, c, ar) ∈ binderProds)
    (h' : (A', o', c, ar) ∈ binderProds) : A = A' := by
  prods at h
  prods at h'
  rcases h with ⟨rfl, rfl, rfl, rfl⟩ | ⟨rfl, rfl, rfl, rfl⟩ | ⟨rfl, rfl, rfl, rfl⟩ |
      ⟨rfl, rfl, rfl, rfl⟩ <;>
    rcases h' with ⟨rfl, rfl, h3, h4⟩ | ⟨rfl, rfl, h3, h4⟩ | ⟨rfl, rfl, h3, h4⟩ |
      ⟨rfl, rfl, h3, h4⟩ <;>
    first | rfl | (cases h3; done) | (cases h4; done)

/-- A `giant_term` is strictly shorter than any other `jumbo_term` alternative with the same start,
and is then followed by an arrow (or by a token that extends a `giant_term`). -/
theorem giant_open {n : Nat} (ih : P toks n) (hG : MainLe toks .giantTerm (n + 1))
    {a e d : Nat} {t t' : Src} (h : SegT toks .giantTerm a e t) (ho : Open toks a d t')
    (he : e - a ≤ n + 1) (hd : d - a ≤ n + 1) :
    e < d ∧ ∃ k, KAt toks e k ∧ extGJ k = true := by
  obtain ⟨k0, f0, hk0⟩ := first_giant h
  have le := SegT.lt h
  rcases ho with ⟨x, body, k1, k2, hb, _⟩ | ⟨x, body, k1, _⟩ |
    ⟨A, o, c, ar, x, b, dom, body, hm, k1, k2, k3, hd', k4, k5, hb, _⟩ |
    ⟨m, dom, cod, s1, k1, hc, _⟩ | ⟨b, c, x, y, z, k1, _⟩
  · have lb := SegT.lt hb
    rcases hG.tri (small_giant (up_small (var_atom k1))) h (by omega) he with
      ⟨rfl, _⟩ | ⟨_, k, k3, e⟩ | ⟨hlt, _⟩
    · exact ⟨by omega, _, k2, rfl⟩
    · cases KAt.inj k2 k3; exact absurd e (by decide)
    · omega
  · cases KAt.inj f0 k1; exact absurd hk0 (by decide)
  · have l1 := SegT.lt hd'
    have l2 := SegT.lt hb
    rcases binder_open hm with ⟨rfl, rfl⟩ | ⟨rfl, rfl⟩
    · obtain ⟨m, f, hle, hat⟩ := lead_atom h k1 rfl
      exact (conflict_paren ih hat (by omega) k1 k2 k3 hd' (by omega) k4).elim
    · cases KAt.inj f0 k1; exact absurd hk0 (by decide)
  · have l1 := SegT.lt s1
    have l2 := SegT.lt hc
    rcases hG.tri (small_giant s1) h (by omega) he with ⟨rfl, _⟩ | ⟨hlt, k, k3, e⟩ | ⟨hlt, k, k3, e⟩
    · exact ⟨by omega, _, k1, rfl⟩
    · cases KAt.inj k1 k3; exact absurd e (by decide)
    · refine ⟨by omega, k, k3, ?_⟩
      rw [show ext .giantTerm k = extGiant k from rfl] at e
      simp [extGJ, e]
  · cases KAt.inj f0 k1; exact absurd hk0 (by decide)

theorem gj_step {n : Nat} (ih : P toks n) (hG : MainLe toks .giantTerm (n + 1)) :
    GJ toks (n + 1) := by
  intro a b b' t t' hl h1 h2 hlt
  rcases inv_jumbo h2 with g | o
  · rcases hG a b b' t t' hl h1 g (by omega) with ⟨h, _⟩ | ⟨_, k, k3, e⟩
    · omega
    · refine ⟨k, k3, ?_⟩
      rw [show ext .giantTerm k = extGiant k from rfl] at e
      simp [extGJ, e]
  · exact (giant_open ih hG h1 o (by omega) hl).2

theorem open_open {n : Nat} (ih : P toks n) {a b b' : Nat} {t t' : Src} (o1 : Open toks a b t)
    (o2 : Open toks a b' t') (hl : b' - a ≤ n + 1) (hb : b ≤ b') : Res toks extTerm b b' t t' := by
  rcases o1 with ⟨x, body, k1, k2, hb1, rfl⟩ | ⟨x, body, k1, k2, k3, k4, hb1, rfl⟩ |
    ⟨A, o, c, ar, x, m, dom, body, hm, k1, k2, k3, hd1, k4, k5, hb1, rfl⟩ |
    ⟨m, dom, cod, s1, k1, hc1, rfl⟩ | ⟨m, c, x, y, z, k1, c1, k2, c2, k3, c3, rfl⟩
  · -- lambda
    rcases o2 with ⟨x', body', j1, j2, hb2, rfl⟩ | ⟨x', body', j1, _⟩ |
      ⟨A', o', c', ar', x', m', dom', body', hm', j1, _⟩ |
      ⟨m', dom', cod', s2, j1, hc2, rfl⟩ | ⟨m', c', x', y', z', j1, _⟩
    · cases KAt.inj k1 j1
      exact (ih.term _ _ _ _ _ (by omega) hb1 hb2 hb).map (by rintro rfl rfl; rfl)
    · exact nomatch KAt.inj k1 j1
    · rcases binder_open hm' with ⟨rfl, _⟩ | ⟨rfl, _⟩ <;> exact nomatch KAt.inj k1 j1
    · have := SegT.lt hc2
      have := small_ident_next ih.small s2 (by omega) k1 k2 rfl
      subst this
      exact nomatch KAt.inj k2 j1
    · exact nomatch KAt.inj k1 j1
  · -- implicit lambda
    rcases o2 with ⟨x', body', j1, _⟩ | ⟨x', body', j1, j2, j3, j4, hb2, rfl⟩ |
      ⟨A', o', c', ar', x', m', dom', body', hm', j1, j2, j3, _⟩ |
      ⟨m', dom', cod', s2, j1, hc2, rfl⟩ | ⟨m', c', x', y', z', j1, _⟩
    · exact nomatch KAt.inj k1 j1
    · cases KAt.inj k2 j2
      exact (ih.term _ _ _ _ _ (by omega) hb1 hb2 hb).map (by rintro rfl rfl; rfl)
    · rcases binder_open hm' with ⟨rfl, _⟩ | ⟨rfl, _⟩
      · exact nomatch KAt.inj k1 j1
      · exact nomatch KAt.inj k3 j3
    · obtain ⟨k, f1, hk⟩ := first_small s2
      cases KAt.inj k1 f1; exact absurd hk (by decide)
    · exact nomatch KAt.inj k1 j1
  · -- annotated binders
    have l1 := SegT.lt hd1
    have l2 := SegT.lt hb1
    rcases o2 with ⟨x', body', j1, _⟩ | ⟨x', body', j1, j2, j3, _⟩ |
      ⟨A', o', c', ar', x', m', dom', body', hm', j1, j2, j3, hd2, j4, j5, hb2, rfl⟩ |
      ⟨m', dom', cod', s2, j1, hc2, rfl⟩ | ⟨m', c', x', y', z', j1, _⟩
    · rcases binder_open hm with ⟨rfl, _⟩ | ⟨rfl, _⟩ <;> exact nomatch KAt.inj k1 j1
    · rcases binder_open hm with ⟨rfl, _⟩ | ⟨rfl, _⟩
      · exact nomatch KAt.inj k1 j1
      · exact nomatch KAt.inj k3 j3
    · have l3 := SegT.lt hd2
      have l4 := SegT.lt hb2
      cases KAt.inj k2 j2
      have hc : ext .jumboTerm c = false := by
        rcases binder_open hm with ⟨_, rfl⟩ | ⟨_, rfl⟩ <;> rfl
      have hc' : ext .jumboTerm c' = false := by
        rcases binder_open hm' with ⟨_, rfl⟩ | ⟨_, rfl⟩ <;> rfl
      obtain ⟨rfl, rfl⟩ := ih.jumbo.split hd1 hd2 (by omega) (by omega) k4 j4 hc hc'
      cases KAt.inj k4 j4
      cases KAt.inj k5 j5
      have hA : A = A' := binder_det hm hm'
      subst hA
      exact (ih.term _ _ _ _ _ (by omega) hb1 hb2 hb).map (by rintro rfl rfl; rfl)
    · have l3 := SegT.lt hc2
      rcases binder_open hm with ⟨rfl, rfl⟩ | ⟨rfl, rfl⟩
      · have hat : ∃ e f, e ≤ m' ∧ SegT toks .atom a e f := by
          rcases inv_small s2 with g | ⟨e, f, _, g, s3, _⟩
          · exact ⟨_, _, Nat.le_refl _, g⟩
          · exact ⟨_, _, by have := SegT.lt s3; omega, g⟩
        obtain ⟨e, f, hle, hat⟩ := hat
        exact (conflict_paren ih hat (by omega) k1 k2 k3 hd1 (by omega) k4).elim
      · obtain ⟨k, f1, hk⟩ := first_small s2
        cases KAt.inj k1 f1; exact absurd hk (by decide)
    · rcases binder_open hm with ⟨rfl, _⟩ | ⟨rfl, _⟩ <;> exact nomatch KAt.inj k1 j1
  · -- non-dependent arrow
    have l1 := SegT.lt s1
    have l2 := SegT.lt hc1
    obtain ⟨k0, f0, hk0⟩ := first_small s1
    rcases o2 with ⟨x', body', j1, j2, hb2, rfl⟩ | ⟨x', body', j1, _⟩ |
      ⟨A', o', c', ar', x', m', dom', body', hm', j1, j2, j3, hd2, j4, j5, hb2, rfl⟩ |
      ⟨m', dom', cod', s2, j1, hc2, rfl⟩ | ⟨m', c', x', y', z', j1, _⟩
    · have := small_ident_next ih.small s1 (by omega) j1 j2 rfl
      subst this
      exact nomatch KAt.inj k1 j2
    · cases KAt.inj f0 j1; exact absurd hk0 (by decide)
    · have l3 := SegT.lt hd2
      have l4 := SegT.lt hb2
      rcases binder_open hm' with ⟨rfl, rfl⟩ | ⟨rfl, rfl⟩
      · have hat : ∃ e f, e ≤ m ∧ SegT toks .atom a e f := by
          rcases inv_small s1 with g | ⟨e, f, _, g, s3, _⟩
          · exact ⟨_, _, Nat.le_refl _, g⟩
          · exact ⟨_, _, by have := SegT.lt s3; omega, g⟩
        obtain ⟨e, f, hle, hat⟩ := hat
        exact (conflict_paren ih hat (by omega) j1 j2 j3 hd2 (by omega) j4).elim
      · cases KAt.inj f0 j1; exact absurd hk0 (by decide)
    · have l3 := SegT.lt s2
      have l4 := SegT.lt hc2
      obtain ⟨rfl, rfl⟩ := ih.small.split s1 s2 (by omega) (by omega) k1 j1 rfl rfl
      exact (ih.term _ _ _ _ _ (by omega) hc1 hc2 hb).map (by rintro rfl rfl; rfl)
    · cases KAt.inj f0 j1; exact absurd hk0 (by decide)
  · -- conditional
    rcases o2 with ⟨x', body', j1, _⟩ | ⟨x', body', j1, _⟩ |
      ⟨A', o', c', ar', x', m', dom', body', hm', j1, _⟩ |
      ⟨m', dom', cod', s2, j1, hc2, rfl⟩ | ⟨m', c', x', y', z', j1, d1, j2, d2, j3, d3, rfl⟩
    · exact nomatch KAt.inj k1 j1
    · exact nomatch KAt.inj k1 j1
    · rcases binder_open hm' with ⟨rfl, _⟩ | ⟨rfl, _⟩ <;> exact nomatch KAt.inj k1 j1
    · obtain ⟨k, f1, hk⟩ := first_small s2
      cases KAt.inj k1 f1; exact absurd hk (by decide)
    · have l1 := SegT.lt c1
      have l2 := SegT.lt c2
      have l3 := SegT.lt c3
      have l4 := SegT.lt d1
      have l5 := SegT.lt d2
      have l6 := SegT.lt d3
      obtain ⟨rfl, rfl⟩ := ih.term.split c1 d1 (by omega) (by omega) k2 j2 rfl rfl
      obtain ⟨rfl, rfl⟩ := ih.term.split c2 d2 (by omega) (by omega) k3 j3 rfl rfl
      exact (ih.term _ _ _ _ _ (by omega) c3 d3 hb).map (by rintro rfl rfl; rfl)

theorem main_jumbo {n : Nat} (ih : P toks n) (hG : MainLe toks .giantTerm (n + 1)) :
    MainLe toks .jumboTerm (n + 1) := by
  intro a b b' t t' hl h1 h2 hb
  rcases inv_jumbo h1 with g1 | o1
  · rcases inv_jumbo h2 with g2 | o2
    · refine (hG a b b' t t' hl g1 g2 hb).mono (fun k e => ?_)
      rw [show ext .giantTerm k = extGiant k from rfl] at e
      simp [ext, extTerm, extGJ, e]
    · obtain ⟨hlt, k, k3, e⟩ := giant_open ih hG g1 o2 (by omega) hl
      exact Or.inr ⟨hlt, k, k3, by simp [ext, extTerm, e]⟩
  · rcases inv_jumbo h2 with g2 | o2
    · have := (giant_open ih hG g2 o1 hl (by omega)).1
      omega
    · exact open_open ih o1 o2 hl hb

/-- A `jumbo_term` that starts with an identifier followed by `=` or `:` is that identifier. -/
theorem jumbo_ident_next {n : Nat} (ih : P toks n) (hG : MainLe toks .giantTerm (n + 1))
    {a e : Nat} {t : Src} (h : SegT toks .jumboTerm a e t) (he : e - a ≤ n + 1) {x : Name}
    {k : PKind} (k1 : KAt toks a (.identifier x)) (k2 : KAt toks (a + 1) k)
    (hk : isDef k = true) : e = a + 1 := by
  have hk1 : extGiant k = false := by cases k <;> simp_all [isDef, extGiant, extHuge, extLarge,
    isF, isMul, isAdd, isCmp]
  have hk2 : isF k = false := by cases k <;> simp_all [isDef, isF]
  have l := SegT.lt h
  rcases inv_jumbo h with g | o
  · rcases hG.tri (small_giant (up_small (var_atom k1))) g (by omega) he with
      ⟨h1, _⟩ | ⟨_, k', k3, e⟩ | ⟨_, _⟩
    · exact h1.symm
    · cases KAt.inj k2 k3
      rw [show ext .giantTerm k = extGiant k from rfl, hk1] at e; cases e
    · omega
  · rcases o with ⟨x', body', j1, j2, _⟩ | ⟨x', body', j1, _⟩ |
      ⟨A', o', c', ar', x', m', dom', body', hm', j1, _⟩ |
      ⟨m', dom', cod', s2, j1, hc2, rfl⟩ | ⟨m', c', x', y', z', j1, _⟩
    · cases KAt.inj k2 j2; simp [isDef] at hk
    · exact nomatch KAt.inj k1 j1
    · rcases binder_open hm' with ⟨rfl, _⟩ | ⟨rfl, _⟩ <;> exact nomatch KAt.inj k1 j1
    · have := SegT.lt hc2
      have := small_ident_next ih.small s2 (by omega) k1 k2 hk2
      subst this
      cases KAt.inj k2 j1; simp [isDef] at hk
    · exact nomatch KAt.inj k1 j1

theorem let_let {n : Nat} (ih : P toks n) {a b b' : Nat} {t t' : Src}
    (h1 : SegT toks .let_ a b t) (h2 : SegT toks .let_ a b' t') (hl : b' - a ≤ n + 1)
    (hb : b ≤ b') : Res toks extTerm b b' t t' := by
  rcases inv_let h1 with ⟨x, tm, m, defn, body, k1, k2, d1, k3, b1, rfl⟩ |
    ⟨x, tm, p, m, ann, defn, body, k1, k2, s1, k3, d1, k4, b1, rfl⟩
  · rcases inv_let h2 with ⟨x', tm', m', defn', body', j1, j2, d2, j3, b2, rfl⟩ |
      ⟨x', tm', p', m', ann', defn', body', j1, j2, s2, j3, d2, j4, b2, rfl⟩
    · have l1 := SegT.lt d1
      have l2 := SegT.lt b1
      have l3 := SegT.lt d2
      have l4 := SegT.lt b2
      cases KAt.inj k1 j1
      obtain ⟨rfl, rfl⟩ := ih.term.split d1 d2 (by omega) (by omega) k3 j3 rfl rfl
      exact (ih.term _ _ _ _ _ (by omega) b1 b2 hb).map (by rintro rfl rfl; rfl)
    · exact nomatch KAt.inj k2 j2
  · rcases inv_let h2 with ⟨x', tm', m', defn', body', j1, j2, d2, j3, b2, rfl⟩ |
      ⟨x', tm', p', m', ann', defn', body', j1, j2, s2, j3, d2, j4, b2, rfl⟩
    · exact nomatch KAt.inj k2 j2
    · have l1 := SegT.lt d1
      have l2 := SegT.lt b1
      have l3 := SegT.lt d2
      have l4 := SegT.lt b2
      have l5 := SegT.lt s1
      have l6 := SegT.lt s2
      cases KAt.inj k1 j1
      obtain ⟨rfl, rfl⟩ := ih.small.split s1 s2 (by omega) (by omega) k3 j3 rfl rfl
      obtain ⟨rfl, rfl⟩ := ih.term.split d1 d2 (by omega) (by omega) k4 j4 rfl rfl
      exact (ih.term _ _ _ _ _ (by omega) b1 b2 hb).map (by rintro rfl rfl; rfl)

/-- The first two tokens of a definition. -/
theorem let_head {a b : Nat} {t : Src} (h : SegT toks .let_ a b t) :
    ∃ x k, KAt toks a (.identifier x) ∧ KAt toks (a + 1) k ∧ isDef k = true ∧ a + 1 + 1 < b := by
  rcases inv_let h with ⟨x, tm, m, defn, body, k1, k2, d1, k3, b1, rfl⟩ |
    ⟨x, tm, p, m, ann, defn, body, k1, k2, s1, k3, d1, k4, b1, rfl⟩
  · exact ⟨x, _, k1, k2, rfl, by have := SegT.lt d1; have := SegT.lt b1; omega⟩
  · exact ⟨x, _, k1, k2, rfl, by have := SegT.lt s1; have := SegT.lt d1; have := SegT.lt b1; omega⟩

theorem main_term {n : Nat} (ih : P toks n) (hG : MainLe toks .giantTerm (n + 1))
    (hJ : MainLe toks .jumboTerm (n + 1)) : MainLe toks .term (n + 1) := by
  intro a b b' t t' hl h1 h2 hb
  rcases inv_term h1 with g1 | o1
  · rcases inv_term h2 with g2 | o2
    · exact hJ a b b' t t' hl g1 g2 hb
    · obtain ⟨x, k, k1, k2, hk, hlen⟩ := let_head o2
      have := jumbo_ident_next ih hG g1 (by omega) k1 k2 hk
      subst this
      refine Or.inr ⟨by omega, k, k2, ?_⟩
      simp [ext, extTerm, hk]
  · rcases inv_term h2 with g2 | o2
    · obtain ⟨x, k, k1, k2, hk, hlen⟩ := let_head o1
      have := jumbo_ident_next ih hG g2 hl k1 k2 hk
      omega
    · exact let_let ih o1 o2 hl hb

/-! ## Assembly -/

theorem P.zero : P toks 0 := by
  have h : ∀ A, MainLe toks A 0 := by
    intro A a b b' t t' hl h1 h2 hb
    have := SegT.lt h2
    omega
  refine ⟨h _, h _, h _, h _, h _, h _, h _, h _, ?_⟩
  intro a b b' t t' hl h1 h2 hb
  have := SegT.lt h2
  omega

theorem P.succ {n : Nat} (ih : P toks n) : P toks (n + 1) :=
  have hA := main_atom ih
  have hS := main_small ih hA
  have hM := main_medium ih hS
  have hL := main_large ih hM
  have hH := main_huge ih hL
  have hG := main_giant ih hH
  have hJ := main_jumbo ih hG
  ⟨hA, hS, hM, hL, hH, hG, hJ, main_term ih hG hJ, gj_step ih hG⟩

theorem P.all : ∀ n, P toks n
  | 0 => P.zero
  | n + 1 => P.succ (P.all n)

/-- The eight nonterminals of the precedence tower. -/
def tower : List NT :=
  [.atom, .smallTerm, .mediumTerm, .largeTerm, .hugeTerm, .giantTerm, .jumboTerm, .term]

theorem mainLe_tower {A : NT} (hA : A ∈ tower) (n : Nat) : MainLe toks A n := by
  simp only [tower, List.mem_cons, List.not_mem_nil, or_false] at hA
  rcases hA with rfl | rfl | rfl | rfl | rfl | rfl | rfl | rfl
  · exact (P.all n).atom
  · exact (P.all n).small
  · exact (P.all n).medium
  · exact (P.all n).large
  · exact (P.all n).huge
  · exact (P.all n).giant
  · exact (P.all n).jumbo
  · exact (P.all n).term

/-- The tower nonterminal whose alternative a production nonterminal is. -/
def towerOf : NT → NT
  | .let_ => .term
  | .lambda | .lambdaImplicit | .annotatedLambda | .annotatedLambdaImplicit | .pi | .piImplicit
  | .nonDependentPi | .if_ => .jumboTerm
  | .lessThan | .lessThanOrEqualTo | .equalTo | .greaterThan | .greaterThanOrEqualTo => .giantTerm
  | .sum | .difference => .hugeTerm
  | .negation => .largeTerm
  | .product | .quotient => .mediumTerm
  | .application => .smallTerm
  | .type | .variable | .integer | .integerLiteral | .boolean | .true_ | .false_ | .group => .atom
  | A => A

theorem towerOf_spec (A : NT) : A ∈ tower ∨ ((towerOf A, A) ∈ unitProds ∧ towerOf A ∈ tower) := by
  cases A <;> decide

end Unamb

open Unamb

/-- **The extension law** (tower nonterminals): of two segments with the same start derived from
the same nonterminal, the shorter one is followed by a token of the nonterminal's extension set
(`atom`: none — atoms are prefix-free; `small_term`: the first tokens of atoms; `medium_term`,
`large_term`: those and `*` `/`; `huge_term`: also `+` `-`; `giant_term`: also the comparison
operators; `jumbo_term`, `term`: also `->` `=>` `=` `:`).  Never `)`, `}`, `then`, `else`, a
terminator, `if`, `{`. -/
theorem ext_law {toks : Array PTok} {A : NT} (hA : A ∈ tower) {a b b' : Nat} {t t' : Src}
    (h1 : SegT toks A a b t) (h2 : SegT toks A a b' t') (hlt : b < b') :
    ∃ k, KAt toks b k ∧ ext A k = true := by
  rcases mainLe_tower hA (b' - a) a b b' t t' (Nat.le_refl _) h1 h2 (by omega) with ⟨h, _⟩ | ⟨_, h⟩
  · omega
  · exact h

/-- **Unambiguity of `grammar.y`**: a segment has at most one parse tree from any nonterminal. -/
theorem unambiguous {toks : Array PTok} {A : NT} {a b : Nat} {t₁ t₂ : Src}
    (h1 : SegT toks A a b t₁) (h2 : SegT toks A a b t₂) : t₁ = t₂ := by
  have key : ∀ {X : NT}, X ∈ tower → SegT toks X a b t₁ → SegT toks X a b t₂ → t₁ = t₂ := by
    intro X hX g1 g2
    rcases mainLe_tower hX (b - a) a b b t₁ t₂ (Nat.le_refl _) g1 g2 (Nat.le_refl _) with
      ⟨_, h⟩ | ⟨h, _⟩
    · exact h
    · omega
  rcases towerOf_spec A with hA | ⟨hu, hA⟩
  · exact key hA h1 h2
  · exact key hA (.unit hu h1) (.unit hu h2)

/-- Every `Seg` derivation has a tree. -/
theorem Seg.toSegT {toks : Array PTok} {A : NT} {a b : Nat} (h : Seg toks A a b) :
    ∃ t, SegT toks A a b t := by
  induction h with
  | unit hm _ ih => obtain ⟨t, ht⟩ := ih; exact ⟨t, .unit hm ht⟩
  | leaf hm hk => exact ⟨_, .leaf hm hk⟩
  | var hk => exact ⟨_, .var hk⟩
  | lit hk => exact ⟨_, .lit hk⟩
  | lambda h1 h2 _ ih => obtain ⟨t, ht⟩ := ih; exact ⟨_, .lambda h1 h2 ht⟩
  | lambdaImplicit h1 h2 h3 h4 _ ih => obtain ⟨t, ht⟩ := ih; exact ⟨_, .lambdaImplicit h1 h2 h3 h4 ht⟩
  | binder hm h1 h2 h3 _ h4 h5 _ ih1 ih2 =>
    obtain ⟨t1, ht1⟩ := ih1; obtain ⟨t2, ht2⟩ := ih2
    exact ⟨_, .binder hm h1 h2 h3 ht1 h4 h5 ht2⟩
  | nonDependentPi _ hk _ ih1 ih2 =>
    obtain ⟨t1, ht1⟩ := ih1; obtain ⟨t2, ht2⟩ := ih2
    exact ⟨_, .nonDependentPi ht1 hk ht2⟩
  | application _ _ ih1 ih2 =>
    obtain ⟨t1, ht1⟩ := ih1; obtain ⟨t2, ht2⟩ := ih2
    exact ⟨_, .application ht1 ht2⟩
  | letPlain h1 h2 _ h3 _ ih1 ih2 =>
    obtain ⟨t1, ht1⟩ := ih1; obtain ⟨t2, ht2⟩ := ih2
    exact ⟨_, .letPlain h1 h2 ht1 h3 ht2⟩
  | letAnn h1 h2 _ h3 _ h4 _ ih1 ih2 ih3 =>
    obtain ⟨t1, ht1⟩ := ih1; obtain ⟨t2, ht2⟩ := ih2; obtain ⟨t3, ht3⟩ := ih3
    exact ⟨_, .letAnn h1 h2 ht1 h3 ht2 h4 ht3⟩
  | negation h1 _ ih => obtain ⟨t, ht⟩ := ih; exact ⟨_, .negation h1 ht⟩
  | bin hm _ hk _ ih1 ih2 =>
    obtain ⟨t1, ht1⟩ := ih1; obtain ⟨t2, ht2⟩ := ih2
    exact ⟨_, .bin hm ht1 hk ht2⟩
  | ite h1 _ h2 _ h3 _ ih1 ih2 ih3 =>
    obtain ⟨t1, ht1⟩ := ih1; obtain ⟨t2, ht2⟩ := ih2; obtain ⟨t3, ht3⟩ := ih3
    exact ⟨_, .ite h1 ht1 h2 ht2 h3 ht3⟩
  | group h1 _ h2 ih => obtain ⟨t, ht⟩ := ih; exact ⟨_, .group h1 ht h2⟩

/-- Atoms are prefix-free: the end of an atom is determined by its start (a single token, or the
parenthesis that closes the one it starts with). -/
theorem atom_end_unique {toks : Array PTok} {a b b' : Nat} (h1 : Seg toks .atom a b)
    (h2 : Seg toks .atom a b') : b = b' := by
  obtain ⟨t, g1⟩ := h1.toSegT
  obtain ⟨t', g2⟩ := h2.toSegT
  rcases Nat.lt_trichotomy b b' with h | h | h
  · obtain ⟨k, _, e⟩ := ext_law (A := .atom) (by decide) g1 g2 h
    simp [ext] at e
  · exact h
  · obtain ⟨k, _, e⟩ := ext_law (A := .atom) (by decide) g2 g1 h
    simp [ext] at e

/-- The tree the packrat parser returns for an error-free result is THE parse tree of the consumed
segment. -/
theorem parse_tree_unique {toks : Array PTok} {fuel : Nat} {nt : NT} {start : Nat} {r : PResult}
    {st st' : PState} (hI : CacheInvT toks st) (h : parseNT toks fuel nt start st = some (r, st'))
    (hce : collectErrors r.term = []) {t : Src} (ht : SegT toks nt start r.next t) : t = r.term :=
  unambiguous ht (parse_spans hI h hce).1

/-! Non-vacuity: the two-token input `x y`. -/
section Examples

private def toksXY : Array PTok := #[⟨.identifier 0, ⟨0, 1⟩⟩, ⟨.identifier 1, ⟨2, 3⟩⟩]

private theorem kx : KAt toksXY 0 (.identifier 0) := ⟨by decide, rfl⟩
private theorem ky : KAt toksXY 1 (.identifier 1) := ⟨by decide, rfl⟩

/-- `x` and `x y` are both `small_term`s from position 0; the token after the shorter one, `y`,
starts an atom. -/
example : ∃ t t', SegT toksXY .smallTerm 0 1 t ∧ SegT toksXY .smallTerm 0 2 t' :=
  ⟨_, _, up_small (var_atom kx),
    .unit (B := .application) (by decide) (.application (var_atom kx) (up_small (var_atom ky)))⟩

example : ∃ t, SegT toksXY .term 0 2 t :=
  ⟨_, up_term (up_jumbo (small_giant (.unit (B := .application) (by decide)
    (.application (var_atom kx) (up_small (var_atom ky))))))⟩

example : Seg toksXY .atom 0 1 := (var_atom kx).toSeg

end Examples

end PModel
