import GramModel.Parser

/-! Predicates used by the panic-freedom proofs of the parser model (`Props/C14.lean`):
`NoPE` (a surface tree without `ParseError` node) and `Clean` (a resolved term whose holes outside
let-annotations all have shift 0). -/

namespace PModel

mutual
/-- The surface tree contains no `ParseError` node. -/
def NoPE (t : Src) : Prop :=
  match t with
  | .mk _ _ v _ =>
    match v with
    | .parseError => False
    | .type | .var _ | .int | .lit _ | .bool | .tt | .ff => True
    | .lam _ _ dom body => NoPEOpt dom ∧ NoPE body
    | .pi _ _ dom cod => NoPE dom ∧ NoPE cod
    | .app f a => NoPE f ∧ NoPE a
    | .let_ _ ann defn body => NoPEOpt ann ∧ NoPE defn ∧ NoPE body
    | .neg a => NoPE a
    | .bin _ a b => NoPE a ∧ NoPE b
    | .ite c a b => NoPE c ∧ NoPE a ∧ NoPE b
termination_by structural t
def NoPEOpt (o : OptSrc) : Prop :=
  match o with
  | .none => True
  | .some t => NoPE t
termination_by structural o
end

mutual
/-- Every hole of the resolved term that `check_definitions` visits (i.e. outside the annotations
of let-definitions) has shift 0. -/
def Clean (t : RTm) : Prop :=
  match t with
  | .mk _ v =>
    match v with
    | .hole _ shift => shift = 0
    | .type | .int | .bool | .tt | .ff | .lit _ | .var _ _ => True
    | .lam _ _ d b => Clean d ∧ Clean b
    | .pi _ _ d b => Clean d ∧ Clean b
    | .app f a => Clean f ∧ Clean a
    | .letg ds b => CleanDefs ds ∧ Clean b
    | .neg a => Clean a
    | .bin _ a b => Clean a ∧ Clean b
    | .ite c a b => Clean c ∧ Clean a ∧ Clean b
termination_by structural t
def CleanDefs (ds : RDefs) : Prop :=
  match ds with
  | .nil => True
  | .cons _ _ defn rest => Clean defn ∧ CleanDefs rest
termination_by structural ds
end

end PModel
