import GramModel.Lemmas.ParseComplete2

/-! # General completeness, stage 1: the theorem for the operator sublanguage -/

namespace PModel
open Unamb

/-- the tokens of the operator sublanguage: leaves, parentheses, the nine binary operators (`-` also
as negation) -/
def simpleK : PKind → Bool
  | .type_ | .identifier _ | .integer | .integerLiteral _ | .boolean | .true_ | .false_
  | .leftParen | .rightParen | .asterisk | .slash | .plus | .minus | .lessThan
  | .lessThanOrEqualTo | .doubleEquals | .greaterThan | .greaterThanOrEqualTo => true
  | _ => false

section
variable {toks : Array PTok} (hS : ∀ i k, KAt toks i k → simpleK k = true)
include hS

theorem comp_jumbo {n : Nat} (hG : Comp2 toks .giantTerm (n + 1)) :
    Comp1 toks .jumboTerm (n + 1) := by
  intro a b t hl h hf
  have hf' : NoExt toks b extTerm := hf
  have no : ∀ {i k}, simpleK k = false → ¬KAt toks i k := fun hk h => by
    rw [hS _ _ h] at hk; cases hk
  rcases inv_jumbo h with g | o
  · obtain ⟨r, r0, hr0, _⟩ := hG _ _ _ hl g (hf'.mono (fun k hk => by
      simp only [extTerm, extGJ, Bool.or_eq_true]; exact Or.inl (Or.inl hk)))
    refine jumbo_of [.lambda, .lambdaImplicit, .annotatedLambda, .annotatedLambdaImplicit, .pi,
      .piImplicit, .nonDependentPi, .if_] [] rfl ?_ r (segT_facts g).2
    intro X hX
    simp only [List.mem_cons, List.mem_nil_iff, or_false] at hX
    rcases hX with rfl | rfl | rfl | rfl | rfl | rfl | rfl | rfl
    · exact lambda_fail (Or.inr (no rfl))
    · exact lambdaImplicit_fail (Or.inl (no rfl))
    · exact binder_fail_start bp_al (Or.inr (Or.inr (no rfl)))
    · exact binder_fail_start bp_ali (Or.inr (Or.inr (no rfl)))
    · exact binder_fail_start bp_pi (Or.inr (Or.inr (no rfl)))
    · exact binder_fail_start bp_pii (Or.inr (Or.inr (no rfl)))
    · by_cases hpe : r0.term.isParseError = true
      · exact ndpi_fail_small ⟨r0, hr0, hpe⟩
      · exact ndpi_fail_arrow hr0 (by simpa using hpe) (no rfl)
    · exact if_fail (no rfl)
  · rcases o with ⟨x', body', j1, j2, _⟩ | ⟨x', body', j1, _⟩ |
      ⟨A', o', c', ar', x', m', dom', body', hm', j1, j2, j3, _⟩ |
      ⟨m', dom', cod', s2, j1, _⟩ | ⟨m', c', x', y', z', j1, _⟩
    · exact absurd j2 (no rfl)
    · exact absurd j1 (no rfl)
    · exact absurd j3 (no rfl)
    · exact absurd j1 (no rfl)
    · exact absurd j1 (no rfl)

theorem comp_term {n : Nat} (hJ : Comp1 toks .jumboTerm (n + 1)) : Comp1 toks .term (n + 1) := by
  intro a b t hl h hf
  have no : ∀ {i k}, simpleK k = false → ¬KAt toks i k := fun hk h => by
    rw [hS _ _ h] at hk; cases hk
  rcases inv_term h with j | l
  · exact up_term (hJ _ _ _ hl j hf) (segT_facts j).2 (let_fail (Or.inr ⟨no rfl, no rfl⟩))
  · obtain ⟨x, k, _, k2, hk, _⟩ := let_head l
    cases k <;> simp [isDef] at hk
    · exact absurd k2 (no rfl)
    · exact absurd k2 (no rfl)

/-- the induction package -/
structure CompAll (toks : Array PTok) (n : Nat) : Prop where
  atom : Comp1 toks .atom n
  small : Comp1 toks .smallTerm n
  medium : Comp2 toks .mediumTerm n
  large : Comp2 toks .largeTerm n
  huge : Comp2 toks .hugeTerm n
  giant : Comp2 toks .giantTerm n
  jumbo : Comp1 toks .jumboTerm n
  term : Comp1 toks .term n

theorem compAll : ∀ n, CompAll toks n
  | 0 => by
    refine ⟨?_, ?_, ?_, ?_, ?_, ?_, ?_, ?_⟩ <;>
      (intro a b t hl h _; have := SegT.lt h; omega)
  | n + 1 => by
    have ih := compAll n
    have hA := comp_atom ih.term
    have hSm := comp_small hA ih.small
    have hM := comp_medium hSm ih.large
    have hL := comp_large hM ih.large
    have hH := comp_huge hL ih.huge
    have hG := comp_giant hH
    have hJ := comp_jumbo hS hG
    exact ⟨hA, hSm, hM, hL, hH, hG, hJ, comp_term hS hJ⟩

end

theorem ce_variant (t : Src) (r : SourceRange) (g : Bool) (h : collectErrors t = []) :
    collectErrors (.mk r g t.variant []) = [] := by
  obtain ⟨_, _, v, es⟩ := t
  cases v <;> simp_all [collectErrors, Src.variant]

theorem ce_segT {toks : Array PTok} {A : NT} {a b : Nat} {t : Src} (h : SegT toks A a b t) :
    collectErrors t = [] := by
  induction h with
  | unit _ _ ih => exact ih
  | leaf hm _ =>
    simp only [leafProds, List.mem_cons, Prod.mk.injEq, List.mem_nil_iff, or_false] at hm
    rcases hm with ⟨rfl, _⟩ | ⟨rfl, _⟩ | ⟨rfl, _⟩ | ⟨rfl, _⟩ | ⟨rfl, _⟩ <;>
      simp [collectErrors, leafV]
  | binder hm _ _ _ _ _ _ _ ih1 ih2 =>
    simp only [binderProds, List.mem_cons, Prod.mk.injEq, List.mem_nil_iff, or_false] at hm
    rcases hm with ⟨rfl, _⟩ | ⟨rfl, _⟩ | ⟨rfl, _⟩ | ⟨rfl, _⟩ <;>
      simp [collectErrors, collectErrorsOpt, binderV, ih1, ih2]
  | group _ _ _ ih => exact ce_variant _ _ _ ih
  | var _ => simp [collectErrors]
  | lit _ => simp [collectErrors]
  | lambda _ _ _ ih => simp [collectErrors, collectErrorsOpt, ih]
  | lambdaImplicit _ _ _ _ _ ih => simp [collectErrors, collectErrorsOpt, ih]
  | nonDependentPi _ _ _ ih1 ih2 => simp [collectErrors, ih1, ih2]
  | application _ _ ih1 ih2 => simp [collectErrors, ih1, ih2]
  | letPlain _ _ _ _ _ ih1 ih2 => simp [collectErrors, collectErrorsOpt, ih1, ih2]
  | letAnn _ _ _ _ _ _ _ ih1 ih2 ih3 => simp [collectErrors, collectErrorsOpt, ih1, ih2, ih3]
  | negation _ _ ih => simp [collectErrors, ih]
  | bin _ _ _ _ ih1 ih2 => simp [collectErrors, ih1, ih2]
  | ite _ _ _ _ _ _ ih1 ih2 ih3 => simp [collectErrors, ih1, ih2, ih3]

/-- **Completeness of the parser model on the operator sublanguage**: if every token is a leaf, a
parenthesis or one of the nine binary operators, every sentence of `term` (with its parse tree `t`)
is accepted: the parse phase returns exactly `t`, consumes every token, records no error and is
confident. -/
theorem parse_complete_simple {toks : Array PTok} {t : Src}
    (hS : ∀ i k, KAt toks i k → simpleK k = true) (h : SegT toks .term 0 toks.size t) :
    ∃ r st, runParser toks = some (r, st) ∧ r.term = t ∧ r.next = toks.size ∧
      collectErrors r.term = [] ∧ r.confident = true := by
  have hr := (compAll hS toks.size).term 0 toks.size t (by omega) h
    (fun k ⟨hlt, _⟩ => absurd hlt (by omega))
  obtain ⟨F, hF⟩ := hr
  obtain ⟨st, hst⟩ := runParser_eq_pure (hF F (Nat.le_refl _) PState.init)
  exact ⟨_, st, hst, rfl, rfl, ce_segT h, rfl⟩

end PModel
