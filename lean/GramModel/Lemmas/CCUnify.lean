import GramModel.Lemmas.CCJoin

/-!
# Completeness of `unifyS` for joinable hole-free terms (C05)

* `Tm.explicit` : no implicit binder (gram's application rule unifies the function's type with an
  *explicit* `Π`, so a function with an implicit parameter can never be applied).
* `whnfS_wx` : a run of `whnfS` that answers returns a weak head normal form (`Whnf` of the erasure),
  explicit if the input and the context are.
* `unifyS_comp` : on hole-free terms whose erasures are joinable, `unifyS` never answers `false`.
-/

namespace CCPar

open CCSubst WhnfLemmas UnifyAgree CheckNoPanic CheckSound TypingSound

/-! ## explicit terms -/

mutual
def explicitT : Tm → Bool
  | .lam _ im d b => !im && explicitT d && explicitT b
  | .pi _ im d b => !im && explicitT d && explicitT b
  | .app f a => explicitT f && explicitT a
  | .letg ds b => explicitDefs ds && explicitT b
  | .neg a => explicitT a
  | .bin _ a b => explicitT a && explicitT b
  | .ite c t e => explicitT c && explicitT t && explicitT e
  | _ => true
def explicitDefs : Defs → Bool
  | .nil => true
  | .cons _ a d r => explicitT a && explicitT d && explicitDefs r
end

/-- every definition in the context is explicit -/
def DEX (Δ : DCtxX) : Prop := ∀ e ∈ Δ, ∀ d o, e = some (d, o) → explicitT d = true
/-- every type in the context is explicit -/
def TEX (Γ : TCtxX) : Prop := ∀ e ∈ Γ, explicitT e.1 = true

theorem DEX.push {Δ : DCtxX} (h : DEX Δ) : DEX (none :: Δ) := by
  intro e he d o hd
  rcases List.mem_cons.1 he with e' | e'
  · subst e'; cases hd
  · exact h e e' d o hd

mutual
theorem explicit_ushift : ∀ (t : Tm) (c a : Nat), explicitT (ushift c a t) = explicitT t
  | .var x i, c, a => by simp only [ushift]; split <;> rfl
  | .hole id s, c, a => by simp only [ushift]; split <;> rfl
  | .lam x im d b, c, a => by simp only [ushift, explicitT, explicit_ushift d, explicit_ushift b]
  | .pi x im d b, c, a => by simp only [ushift, explicitT, explicit_ushift d, explicit_ushift b]
  | .app f g, c, a => by simp only [ushift, explicitT, explicit_ushift f, explicit_ushift g]
  | .letg ds b, c, a => by
      simp only [ushift, explicitT, explicitDefs_ushiftDefs ds, explicit_ushift b]
  | .neg t, c, a => by simp only [ushift, explicitT, explicit_ushift t]
  | .bin op t u, c, a => by simp only [ushift, explicitT, explicit_ushift t, explicit_ushift u]
  | .ite t u v, c, a => by
      simp only [ushift, explicitT, explicit_ushift t, explicit_ushift u, explicit_ushift v]
  | .type, _, _ | .int, _, _ | .bool, _, _ | .tt, _, _ | .ff, _, _ | .lit _, _, _ => rfl
theorem explicitDefs_ushiftDefs : ∀ (ds : Defs) (c a : Nat),
    explicitDefs (ushiftDefs c a ds) = explicitDefs ds
  | .nil, _, _ => rfl
  | .cons x t u r, c, a => by
      simp only [ushiftDefs, explicitDefs, explicit_ushift t, explicit_ushift u,
        explicitDefs_ushiftDefs r]
end

mutual
theorem explicit_openT : ∀ (t : Tm) (i : Nat) (u : Tm) (s : Nat), explicitT t = true →
    explicitT u = true → explicitT (openT t i u s) = true
  | .var x j, i, u, s, _, hu => by
      simp only [openT]
      split
      · rw [explicit_ushift]; exact hu
      · split <;> rfl
  | .hole id k, i, u, s, _, _ => by simp only [openT]; split <;> rfl
  | .lam x im d b, i, u, s, h, hu => by
      simp only [explicitT, Bool.and_eq_true] at h
      simp only [openT, explicitT, Bool.and_eq_true]
      exact ⟨⟨h.1.1, explicit_openT d _ _ _ h.1.2 hu⟩, explicit_openT b _ _ _ h.2 hu⟩
  | .pi x im d b, i, u, s, h, hu => by
      simp only [explicitT, Bool.and_eq_true] at h
      simp only [openT, explicitT, Bool.and_eq_true]
      exact ⟨⟨h.1.1, explicit_openT d _ _ _ h.1.2 hu⟩, explicit_openT b _ _ _ h.2 hu⟩
  | .app f g, i, u, s, h, hu => by
      simp only [explicitT, Bool.and_eq_true] at h
      simp only [openT, explicitT, Bool.and_eq_true]
      exact ⟨explicit_openT f _ _ _ h.1 hu, explicit_openT g _ _ _ h.2 hu⟩
  | .letg ds b, i, u, s, h, hu => by
      simp only [explicitT, Bool.and_eq_true] at h
      simp only [openT, explicitT, Bool.and_eq_true]
      exact ⟨explicitDefs_openDefs ds _ _ _ h.1 hu, explicit_openT b _ _ _ h.2 hu⟩
  | .neg t, i, u, s, h, hu => by
      simp only [explicitT] at h
      simp only [openT, explicitT]
      exact explicit_openT t _ _ _ h hu
  | .bin op t v, i, u, s, h, hu => by
      simp only [explicitT, Bool.and_eq_true] at h
      simp only [openT, explicitT, Bool.and_eq_true]
      exact ⟨explicit_openT t _ _ _ h.1 hu, explicit_openT v _ _ _ h.2 hu⟩
  | .ite t v w, i, u, s, h, hu => by
      simp only [explicitT, Bool.and_eq_true] at h
      simp only [openT, explicitT, Bool.and_eq_true]
      exact ⟨⟨explicit_openT t _ _ _ h.1.1 hu, explicit_openT v _ _ _ h.1.2 hu⟩,
        explicit_openT w _ _ _ h.2 hu⟩
  | .type, _, _, _, _, _ | .int, _, _, _, _, _ | .bool, _, _, _, _, _ | .tt, _, _, _, _, _
  | .ff, _, _, _, _, _ | .lit _, _, _, _, _, _ => rfl
theorem explicitDefs_openDefs : ∀ (ds : Defs) (i : Nat) (u : Tm) (s : Nat), explicitDefs ds = true →
    explicitT u = true → explicitDefs (openDefs ds i u s) = true
  | .nil, _, _, _, _, _ => rfl
  | .cons x t v r, i, u, s, h, hu => by
      simp only [explicitDefs, Bool.and_eq_true] at h
      simp only [openDefs, explicitDefs, Bool.and_eq_true]
      exact ⟨⟨explicit_openT t _ _ _ h.1.1 hu, explicit_openT v _ _ _ h.1.2 hu⟩,
        explicitDefs_openDefs r _ _ _ h.2 hu⟩
end

theorem explicit_unfoldDef (x : Name) (a d : Tm) (idx : Nat) (ha : explicitT a = true)
    (hd : explicitT d = true) : explicitT (unfoldDef x a d idx) = true := by
  unfold unfoldDef
  refine explicit_openT _ _ _ _ hd ?_
  simp only [explicitT, explicitDefs, Bool.and_eq_true, and_true]
  exact ⟨explicit_openT _ _ _ _ (by rw [explicit_ushift]; exact ha) rfl,
    explicit_openT _ _ _ _ (by rw [explicit_ushift]; exact hd) rfl⟩

theorem delta_explicit {op : BinOp} {x y : Int} {r : Tm} (h : delta op x y = some r) :
    explicitT r = true := by
  have : (∃ z, r = .lit z) ∨ r = .tt ∨ r = .ff := by
    cases op <;> simp only [delta] at h
    case quot => split at h <;> cases h; exact Or.inl ⟨_, rfl⟩
    all_goals first
      | (cases h; exact Or.inl ⟨_, rfl⟩)
      | (split at h <;> cases h <;> simp)
  rcases this with ⟨z, rfl⟩ | rfl | rfl <;> rfl

theorem delta_whnf {Δ : DCtxX} {n : Nat} {op : BinOp} {x y : Int} {r : Tm}
    (h : delta op x y = some r) : Whnf Δ n (er r) := by
  have : (∃ z, r = .lit z) ∨ r = .tt ∨ r = .ff := by
    cases op <;> simp only [delta] at h
    case quot => split at h <;> cases h; exact Or.inl ⟨_, rfl⟩
    all_goals first
      | (cases h; exact Or.inl ⟨_, rfl⟩)
      | (split at h <;> cases h <;> simp)
  rcases this with ⟨z, rfl⟩ | rfl | rfl
  · exact .lit z
  · exact .tt
  · exact .ff


/-! ## the normalizer returns weak head normal forms -/

theorem explicitDefs_substDefs : ∀ (r : Defs) (idx : Nat) (u : Tm), explicitDefs r = true →
    explicitT u = true → explicitDefs (openDefs r idx u 0) = true :=
  fun r idx u h hu => explicitDefs_openDefs r idx u 0 h hu

theorem letLoopS_x : ∀ (f : Nat) (todo : Defs) (body : Tm) (s : St),
    todo.holeFree = true → body.holeFree = true →
    Out3 s AnyP (fun b => b.holeFree = true ∧
      (explicitDefs todo = true → explicitT body = true → explicitT b = true))
      (letLoopS f todo body s) := by
  intro f
  induction f with
  | zero => intro todo body s _ _; rw [letLoopS]; exact .fuel
  | succ f ih =>
    intro todo body s hd hb
    cases todo with
    | nil =>
      unfold letLoopS
      exact Out3.pure ⟨hb, fun _ h => h⟩
    | cons x a d r =>
      simp only [Defs.holeFree, Bool.and_eq_true] at hd
      have hu := unfoldDef_holeFree x a d r.len hd.1.1 hd.1.2
      unfold letLoopS
      dsimp only
      refine Out3.bind_pure (unfoldDefS_P f x a d r.len hd.1.1 hd.1.2) ?_
      refine Out3.bind_pure (openS_P' f a r.len _ 0 hd.1.1 hu) ?_
      refine Out3.bind_pure (openS_P' f d r.len _ 0 hd.1.2 hu) ?_
      refine Out3.bind_pure (substDefsS_P f r r.len _ hd.2 hu) ?_
      refine Out3.bind_pure (openS_P' f body r.len _ 0 hb hu) ?_
      refine (ih _ _ s (openDefs_holeFree _ _ _ _ hd.2 hu) (openT_holeFree _ _ _ _ hb hu)).mono ?_
      rintro b ⟨hbf, hx⟩
      refine ⟨hbf, fun e1 e2 => ?_⟩
      simp only [explicitDefs, Bool.and_eq_true] at e1
      have eu := explicit_unfoldDef x a d r.len e1.1.1 e1.1.2
      exact hx (explicitDefs_openDefs _ _ _ _ e1.2 eu) (explicit_openT _ _ _ _ e2 eu)

theorem er_not_lam {t : Tm} (h : ∀ x im d b, t ≠ .lam x im d b) : ∀ x im d b, er t ≠ .lam x im d b := by
  intro x im d b e
  cases t <;> simp only [er] at e <;> try cases e
  exact h _ _ _ _ rfl
theorem er_not_lit {t : Tm} (h : ∀ k, t ≠ .lit k) : ∀ k, er t ≠ .lit k := by
  intro k e
  cases t <;> simp only [er] at e <;> try cases e
  exact h _ rfl
theorem er_lit_inv {t : Tm} {k : Int} (hf : t.holeFree = true) (e : er t = .lit k) : t = .lit k := by
  cases t <;> simp only [er] at e <;> first | (cases hf; done) | cases e | skip
  rfl
theorem er_ne_tt {t : Tm} (hf : t.holeFree = true) (h : t ≠ .tt) : er t ≠ .tt := by
  intro e
  cases t <;> simp only [er] at e <;> first | (cases hf; done) | cases e | skip
  exact h rfl
theorem er_ne_ff {t : Tm} (hf : t.holeFree = true) (h : t ≠ .ff) : er t ≠ .ff := by
  intro e
  cases t <;> simp only [er] at e <;> first | (cases hf; done) | cases e | skip
  exact h rfl

/-- what `unifyS` needs to know about the result of `whnfS` beyond `whnfS_cv'` -/
def WX (Δ : DCtxX) (t r : Tm) : Prop :=
  Whnf (erD Δ) 0 (er r) ∧ (explicitT t = true → DEX Δ → explicitT r = true)

theorem whnfS_wx : ∀ (f : Nat) (t : Tm) (s : St), t.holeFree = true → DHF s.dctx →
    Out3 s AnyP (fun r => r.holeFree = true ∧ WX s.dctx t r) (whnfS f t s) := by
  intro f
  induction f with
  | zero => intro t s _ _; rw [whnfS]; exact .fuel
  | succ f ih =>
    intro t s hf hD
    have triv : ∀ (t : Tm), t.holeFree = true → (whnfS (f+1) t = pure t) →
        Whnf (erD s.dctx) 0 (er t) →
        Out3 s AnyP (fun r => r.holeFree = true ∧ WX s.dctx t r) (whnfS (f+1) t s) := by
      intro t hf e hw
      rw [e]
      exact Out3.pure ⟨hf, hw, fun h _ => h⟩
    cases t with
    | hole id sh => cases hf
    | type => exact triv _ hf (by unfold whnfS; rfl) .type
    | int => exact triv _ hf (by unfold whnfS; rfl) .int
    | bool => exact triv _ hf (by unfold whnfS; rfl) .bool
    | tt => exact triv _ hf (by unfold whnfS; rfl) .tt
    | ff => exact triv _ hf (by unfold whnfS; rfl) .ff
    | lit n => exact triv _ hf (by unfold whnfS; rfl) (.lit n)
    | lam x im d b => exact triv _ hf (by unfold whnfS; rfl) (.lam _ _ _ _)
    | pi x im d b => exact triv _ hf (by unfold whnfS; rfl) (.pi _ _ _ _)
    | var x i =>
      unfold whnfS
      dsimp only
      show Out3 s _ _ ((match s.dctx[i]? with
        | none => panicAt "normalize_weak_head.definitions_context[index]"
        | some none => pure (Tm.var x i)
        | some (some (d, off)) =>
            if i + 1 < off then panicAt "normalize_weak_head.index+1-offset"
            else do
              let d' ← ushiftS f 0 (i + 1 - off) d
              whnfS f d') s)
      rcases heq : s.dctx[i]? with _ | _ | ⟨d, off⟩ <;> dsimp only
      · exact .panic trivial
      · refine Out3.pure ⟨rfl, ?_, fun h _ => h⟩
        refine .var 0 i (fun d off _ e => ?_)
        rw [Nat.sub_zero, erD_get, heq] at e
        cases e
      · have hd : d.holeFree = true := hD _ (List.mem_of_getElem? heq) d off rfl
        split
        · exact .panic trivial
        · next hlt =>
          refine Out3.bind_pure (ushiftS_P f 0 (i + 1 - off) d hd) ?_
          refine (ih _ s (by rw [ushift_holeFree]; exact hd) hD).mono ?_
          rintro r ⟨hr, hw, hx⟩
          refine ⟨hr, hw, fun _ hΔ => hx ?_ hΔ⟩
          rw [explicit_ushift]
          exact hΔ _ (List.mem_of_getElem? heq) d off rfl
    | app g0 a =>
      simp only [Tm.holeFree, Bool.and_eq_true] at hf
      unfold whnfS
      dsimp only
      refine Out3.bind (ih g0 s hf.1 hD) ?_
      rintro g' ⟨hg', wg, xg⟩
      split
      · next x im d body =>
        simp only [Tm.holeFree, Bool.and_eq_true] at hg'
        refine Out3.bind_pure (openS_P' f body 0 a 0 hg'.2 hf.2) ?_
        refine (ih _ s (openT_holeFree _ _ _ _ hg'.2 hf.2) hD).mono ?_
        rintro r ⟨hr, hw, hx⟩
        refine ⟨hr, hw, fun e hΔ => hx ?_ hΔ⟩
        simp only [explicitT, Bool.and_eq_true] at e
        have := xg e.1 hΔ
        simp only [explicitT, Bool.and_eq_true] at this
        exact explicit_openT _ _ _ _ this.2 e.2
      · next hnl =>
        refine Out3.pure ⟨by simp [Tm.holeFree, hg', hf.2], ?_, fun e hΔ => ?_⟩
        · simp only [er]
          exact .app wg (er_not_lam (fun x im d b e => hnl x im d b e))
        · simp only [explicitT, Bool.and_eq_true] at e ⊢
          exact ⟨xg e.1 hΔ, e.2⟩
    | letg ds body =>
      simp only [Tm.holeFree, Bool.and_eq_true] at hf
      unfold whnfS
      dsimp only
      refine Out3.bind (letLoopS_x f ds body s hf.1 hf.2) ?_
      rintro b ⟨hb, xb⟩
      refine (ih b s hb hD).mono ?_
      rintro r ⟨hr, hw, hx⟩
      refine ⟨hr, hw, fun e hΔ => hx ?_ hΔ⟩
      simp only [explicitT, Bool.and_eq_true] at e
      exact xb e.1 e.2
    | neg a =>
      simp only [Tm.holeFree] at hf
      unfold whnfS
      dsimp only
      refine Out3.bind (ih a s hf hD) ?_
      rintro a' ⟨ha', wa, xa⟩
      split
      · next n => exact Out3.pure ⟨rfl, .lit _, fun _ _ => rfl⟩
      · next hnl =>
        refine Out3.pure ⟨ha', ?_, fun e hΔ => ?_⟩
        · simp only [er]
          exact .neg wa (er_not_lit (fun k e => hnl k e))
        · simp only [explicitT] at e ⊢
          exact xa e hΔ
    | bin op a b =>
      simp only [Tm.holeFree, Bool.and_eq_true] at hf
      unfold whnfS
      dsimp only
      refine Out3.bind (ih a s hf.1 hD) ?_
      rintro a' ⟨ha', wa, xa⟩
      refine Out3.bind (ih b s hf.2 hD) ?_
      rintro b' ⟨hb', wb, xb⟩
      have hx : explicitT (Tm.bin op a b) = true → DEX s.dctx → explicitT (Tm.bin op a' b') = true := by
        intro e hΔ
        simp only [explicitT, Bool.and_eq_true] at e ⊢
        exact ⟨xa e.1 hΔ, xb e.2 hΔ⟩
      split
      · next x y =>
        cases hdl : delta op x y with
        | some rr => exact Out3.pure ⟨delta_holeFree hdl, delta_whnf hdl, fun _ _ => delta_explicit hdl⟩
        | none =>
          refine Out3.pure ⟨by simp [Tm.holeFree], ?_, hx⟩
          simp only [er]
          refine .bin (.lit _) (.lit _) (fun x' y' e1 e2 => ?_)
          cases e1; cases e2; exact hdl
      · next hnl =>
        refine Out3.pure ⟨by simp [Tm.holeFree, ha', hb'], ?_, hx⟩
        simp only [er]
        refine .bin wa wb (fun x' y' e1 e2 => ?_)
        exact (hnl x' y' (er_lit_inv ha' e1) (er_lit_inv hb' e2)).elim
    | ite c a b =>
      simp only [Tm.holeFree, Bool.and_eq_true] at hf
      unfold whnfS
      dsimp only
      refine Out3.bind (ih c s hf.1.1 hD) ?_
      rintro c' ⟨hc', wc, xc⟩
      split
      · refine (ih a s hf.1.2 hD).mono ?_
        rintro r ⟨hr, hw, hx⟩
        refine ⟨hr, hw, fun e hΔ => hx ?_ hΔ⟩
        simp only [explicitT, Bool.and_eq_true] at e
        exact e.1.2
      · refine (ih b s hf.2 hD).mono ?_
        rintro r ⟨hr, hw, hx⟩
        refine ⟨hr, hw, fun e hΔ => hx ?_ hΔ⟩
        simp only [explicitT, Bool.and_eq_true] at e
        exact e.2
      · next h1 h2 =>
        refine Out3.pure ⟨by simp [Tm.holeFree, hc', hf.1.2, hf.2], ?_, fun e hΔ => ?_⟩
        · simp only [er]
          exact .ite wc (er_ne_tt hc' (fun e => h1 e)) (er_ne_ff hc' (fun e => h2 e))
        · simp only [explicitT, Bool.and_eq_true] at e ⊢
          exact ⟨⟨xc e.1.1 hΔ, e.1.2⟩, e.2⟩


/-! ## `unifyS` on joinable hole-free terms -/

theorem Out3.and {α} {s : St} {P : String → Prop} {Q1 Q2 : α → Prop} {x : R α}
    (h1 : Out3 s P Q1 x) (h2 : Out3 s P Q2 x) : Out3 s P (fun r => Q1 r ∧ Q2 r) x := by
  cases h1 with
  | fuel => exact .fuel
  | panic h => exact .panic h
  | ok q1 => cases h2 with | ok q2 => exact .ok ⟨q1, q2⟩

theorem comp_if {s : St} {P : String → Prop} {m : M Bool} (c : Bool) (hc : c = true)
    (h : Out3 s P (fun r => r = true) (m s)) :
    Out3 s P (fun r => r = true) ((if c = true then m else pure false) s) := by
  subst hc
  simpa using h

theorem comp_seq {s : St} {P : String → Prop} {m1 m2 : M Bool}
    (h1 : Out3 s P (fun r => r = true) (m1 s)) (h2 : Out3 s P (fun r => r = true) (m2 s)) :
    Out3 s P (fun r => r = true) ((do if ← m1 then m2 else pure false) s) := by
  refine Out3.bind h1 (fun r1 hr1 => ?_)
  subst hr1
  simpa using h2

/-- the induction hypothesis on `unifyS` -/
def CompIH (f : Nat) : Prop := ∀ (a b : Tm) (s : St), a.holeFree = true → b.holeFree = true →
  DHF s.dctx → DWF s.dctx → Join (erD s.dctx) 0 (er a) (er b) →
  Out3 s AnyP (fun r => r = true) (unifyS f a b s)

theorem DWF.push {Δ : DCtxX} (h : DWF Δ) : DWF (none :: Δ) := CheckNoPanic.DOff.push_none h

theorem head_comp (f : Nat) (ih : CompIH f) (w1 w2 : Tm) (s : St) (h1 : w1.holeFree = true)
    (h2 : w2.holeFree = true) (n1 : NotLet w1) (n2 : NotLet w2) (hD : DHF s.dctx) (hW : DWF s.dctx)
    (hw1 : Whnf (erD s.dctx) 0 (er w1)) (hw2 : Whnf (erD s.dctx) 0 (er w2))
    (hj : Join (erD s.dctx) 0 (er w1) (er w2)) :
    Out3 s AnyP (fun r => r = true) (unifyHead f w1 w2 s) := by
  obtain ⟨c, p1, p2⟩ := Join.heads hw1 hw2 hj
  clear hw1 hw2 hj
  cases w1 <;> cases w2
  all_goals first
    | (exfalso; exact n1 _ _ rfl)
    | (exfalso; exact n2 _ _ rfl)
    | (exfalso; cases h1; done)
    | (exfalso; cases h2; done)
    | skip
  all_goals simp only [er] at p1 p2
  all_goals first
    | (exfalso; cases p1 <;> cases p2; done)
    | skip
  all_goals simp only [unifyHead]
  all_goals try exact Out3.pure rfl
  case lit.lit n m =>
    cases p1; cases p2
    exact Out3.pure (by simp)
  case var.var x i y j =>
    cases p1; cases p2
    exact Out3.pure (by simp)
  case lam.lam x1 i1 d1 b1 x2 i2 d2 b2 =>
    simp only [Tm.holeFree, Bool.and_eq_true] at h1 h2
    cases p1 with
    | lam _ _ q1 q2 =>
    cases p2 with
    | lam _ _ r1 r2 =>
    refine comp_if _ (by simp) (out3_under (ih b1 b2 _ h1.2 h2.2 (DHF.push hD) hW.push ?_))
    exact Join.pop1 ⟨_, q2, r2⟩
  case pi.pi x1 i1 d1 c1 x2 i2 d2 c2 =>
    simp only [Tm.holeFree, Bool.and_eq_true] at h1 h2
    cases p1 with
    | pi _ _ q1 q2 =>
    cases p2 with
    | pi _ _ r1 r2 =>
    refine comp_if _ (by simp) (comp_seq (ih d1 d2 s h1.1 h2.1 hD hW ⟨_, q1, r1⟩)
      (out3_under (ih c1 c2 _ h1.2 h2.2 (DHF.push hD) hW.push ?_)))
    exact Join.pop1 ⟨_, q2, r2⟩
  case app.app f1 a1 f2 a2 =>
    simp only [Tm.holeFree, Bool.and_eq_true] at h1 h2
    cases p1 with
    | app q1 q2 =>
    cases p2 with
    | app r1 r2 =>
    exact comp_seq (ih f1 f2 s h1.1 h2.1 hD hW ⟨_, q1, r1⟩) (ih a1 a2 s h1.2 h2.2 hD hW ⟨_, q2, r2⟩)
  case neg.neg a1 a2 =>
    simp only [Tm.holeFree] at h1 h2
    cases p1 with
    | neg q1 =>
    cases p2 with
    | neg r1 =>
    exact ih a1 a2 s h1 h2 hD hW ⟨_, q1, r1⟩
  case bin.bin o1 a1 b1 o2 a2 b2 =>
    simp only [Tm.holeFree, Bool.and_eq_true] at h1 h2
    cases p1 with
    | bin _ q1 q2 =>
    cases p2 with
    | bin _ r1 r2 =>
    exact comp_if _ (by simp) (comp_seq (ih a1 a2 s h1.1 h2.1 hD hW ⟨_, q1, r1⟩)
      (ih b1 b2 s h1.2 h2.2 hD hW ⟨_, q2, r2⟩))
  case ite.ite c1 a1 b1 c2 a2 b2 =>
    simp only [Tm.holeFree, Bool.and_eq_true] at h1 h2
    cases p1 with
    | ite q0 q1 q2 =>
    cases p2 with
    | ite r0 r1 r2 =>
    exact comp_seq (ih c1 c2 s h1.1.1 h2.1.1 hD hW ⟨_, q0, r0⟩)
      (comp_seq (ih a1 a2 s h1.1.2 h2.1.2 hD hW ⟨_, q1, r1⟩) (ih b1 b2 s h1.2 h2.2 hD hW ⟨_, q2, r2⟩))

/-- everything `unifyS` needs to know about a run of `whnfS` on a hole-free term -/
theorem whnfS_all (f : Nat) (t : Tm) (s : St) (hf : t.holeFree = true) (hD : DHF s.dctx) :
    Out3 s AnyP (fun r => (r.holeFree = true ∧ NotLet r ∧ Conv s.dctx t r) ∧
      (r.holeFree = true ∧ WX s.dctx t r)) (whnfS f t s) :=
  Out3.and (whnfS_cv' f t s hf hD) (whnfS_wx f t s hf hD)

theorem unifyS_comp : ∀ (f : Nat), CompIH f := by
  intro f
  induction f with
  | zero => intro a b s _ _ _ _ _; rw [unifyS]; exact .fuel
  | succ f ih =>
    intro a b s ha hb hD hW hj
    rw [unifyS_succ]
    refine Out3.bind_pure ((synEqS_P f).1 a b ha hb) ?_
    cases hs : sameX a b
    · simp only [Bool.false_eq_true, if_false]
      refine Out3.bind (whnfS_all f a s ha hD) ?_
      rintro w1 ⟨⟨hw1, n1, c1⟩, _, wx1, _⟩
      refine Out3.bind (whnfS_all f b s hb hD) ?_
      rintro w2 ⟨⟨hw2, n2, c2⟩, _, wx2, _⟩
      refine head_comp f ih w1 w2 s hw1 hw2 n1 n2 hD hW wx1 wx2 ?_
      have j1 := Conv.join c1 hW
      have j2 := Conv.join c2 hW
      exact Join.trans (DWF_erD hW) (DHF_erD _) (Join.trans (DWF_erD hW) (DHF_erD _) j1.symm hj) j2
    · simp only [if_true]
      exact Out3.pure rfl

/-- inversion form: on hole-free terms with joinable erasures a run of `unifyS` that answers,
answers `true` and leaves the state alone -/
theorem unifyS_ok_true {f : Nat} {a b : Tm} {s s' : St} {r : Bool} (ha : a.holeFree = true)
    (hb : b.holeFree = true) (hD : DHF s.dctx) (hW : DWF s.dctx)
    (hj : Join (erD s.dctx) 0 (er a) (er b)) (h : unifyS f a b s = .ok r s') :
    s' = s ∧ r = true := by
  have := unifyS_comp f a b s ha hb hD hW hj
  rw [h] at this
  cases this with
  | ok hq => exact ⟨rfl, hq⟩


/-! ## the shapes of `unifyS` calls that involve a cell -/

open StoreMono (bind_ok pure_ok)

theorem whnfS_ok_all {f : Nat} {t : Tm} {s s' : St} {r : Tm} (ht : t.holeFree = true)
    (hD : DHF s.dctx) (h : whnfS f t s = .ok r s') :
    s' = s ∧ r.holeFree = true ∧ NotLet r ∧ Conv s.dctx t r ∧ WX s.dctx t r := by
  have := whnfS_all f t s ht hD
  rw [h] at this
  cases this with
  | ok hq => exact ⟨rfl, hq.1.1, hq.1.2.1, hq.1.2.2, hq.2.2⟩

/-- `unifyS` with an unsolved cell (shift 0) on the left and a hole-free term on the right: the cell
is solved with the weak head normal form of the term -/
theorem unify_fresh_x {f i : Nat} {b : Tm} {s s' : St} {r : Bool} (hc : cellVal s.store i = none)
    (hb : b.holeFree = true) (hD : DHF s.dctx) (h : unifyS f (.hole i 0) b s = .ok r s') :
    r = true ∧ ∃ W, s' = { s with store := s.store.set i (some W) } ∧ W.holeFree = true ∧
      Conv s.dctx b W ∧ WX s.dctx b W := by
  cases f with
  | zero => rw [unifyS] at h; cases h
  | succ f =>
    rw [unifyS_succ] at h
    obtain ⟨x, s1, h1, h2⟩ := bind_ok h
    obtain ⟨rfl, rfl⟩ := synEqS_unsolved hc hb h1
    simp only [Bool.false_eq_true, if_false] at h2
    obtain ⟨w1, s2, h3, h4⟩ := bind_ok h2
    obtain ⟨rfl, rfl⟩ := whnfS_unsolved hc h3
    obtain ⟨w2, s3, h5, h6⟩ := bind_ok h4
    obtain ⟨rfl, hw2, _, c2, wx2⟩ := whnfS_ok_all hb hD h5
    rw [unifyHead_hole_left f i 0 w2 hw2] at h6
    obtain ⟨o, s4, h7, h8⟩ := bind_ok h6
    obtain ⟨rfl, rfl⟩ := solveS_fresh hw2 h7
    dsimp only at h8
    obtain ⟨rfl, rfl⟩ := pure_ok h8
    exact ⟨rfl, w2, rfl, hw2, c2, wx2⟩

theorem er_pi_inv {t : Tm} {y : Name} {im : Bool} {A B : Tm} (hf : t.holeFree = true)
    (e : er t = .pi y im A B) : ∃ x d c, t = .pi x im d c := by
  cases t <;> simp only [er] at e <;> first | (cases hf; done) | cases e | skip
  exact ⟨_, _, _, rfl⟩

/-- joinable `Π`s have the same implicitness flag and joinable components -/
theorem Join.pi_inv {Δ : DCtxX} {n : Nat} {x y : Name} {im jm : Bool} {a b a' b' : Tm}
    (h : Join Δ n (.pi x im a b) (.pi y jm a' b')) :
    im = jm ∧ Join Δ n a a' ∧ Join Δ (n+1) b b' := by
  obtain ⟨c, p1, p2⟩ := Join.heads (.pi _ _ _ _) (.pi _ _ _ _) h
  cases p1 with
  | pi _ _ q1 q2 =>
  cases p2 with
  | pi _ _ r1 r2 => exact ⟨rfl, ⟨_, q1, r1⟩, ⟨_, q2, r2⟩⟩

/-- the application rule's first unification, when the function's type is joinable with a `Π` and
explicit: it succeeds, and the components of the weak head normal form solve the two cells -/
theorem unify_pi_fresh_x {f i j : Nat} {x0 : Name} {g : Tm} {s s' : St} {r : Bool}
    (hi : cellVal s.store i = none) (hj : cellVal s.store j = none) (hij : j ≠ i)
    (hg : g.holeFree = true) (hD : DHF s.dctx) (hW : DWF s.dctx) (hx : explicitT g = true)
    (hΔx : DEX s.dctx)
    (hjn : ∃ y im A0 B0, Join (erD s.dctx) 0 (er g) (.pi y im A0 B0))
    (h : unifyS f (.pi x0 false (.hole i 0) (.hole j 0)) g s = .ok r s') :
    r = true ∧ ∃ y A B, s' = { s with store := (s.store.set i (some A)).set j (some B) } ∧
      A.holeFree = true ∧ B.holeFree = true ∧ explicitT A = true ∧ explicitT B = true ∧
      Conv s.dctx g (.pi y false A B) := by
  cases f with
  | zero => rw [unifyS] at h; cases h
  | succ f =>
    rw [unifyS_succ] at h
    obtain ⟨x, s1, h1, h2⟩ := bind_ok h
    obtain ⟨rfl, rfl⟩ := synEqS_pi_unsolved hi hg h1
    simp only [Bool.false_eq_true, if_false] at h2
    obtain ⟨w1, s2, h3, h4⟩ := bind_ok h2
    obtain ⟨rfl, rfl⟩ := whnfS_pi h3
    obtain ⟨w2, s3, h5, h6⟩ := bind_ok h4
    obtain ⟨rfl, hw2, nl2, c2, wx2⟩ := whnfS_ok_all hg hD h5
    obtain ⟨y0, im0, A0, B0, hjn⟩ := hjn
    -- the weak head normal form is a `Π`
    have jw : Join (erD s3.dctx) 0 (er w2) (.pi y0 im0 A0 B0) :=
      Join.trans (DWF_erD hW) (DHF_erD _) (Conv.join c2 hW).symm hjn
    obtain ⟨c, p1, p2⟩ := Join.heads wx2.1 (.pi _ _ _ _) jw
    have hpi : ∃ y jm d2 c2', w2 = .pi y jm d2 c2' := by
      cases p2 with
      | pi _ _ r1 r2 =>
        generalize he : er w2 = ew at p1
        cases p1 with
        | pi _ _ q1 q2 =>
          obtain ⟨x, d, c', rfl⟩ := er_pi_inv hw2 he
          exact ⟨_, _, _, _, rfl⟩
    obtain ⟨y, jm, d2, c2', rfl⟩ := hpi
    have hx2 := wx2.2 hx hΔx
    simp only [explicitT, Bool.and_eq_true, Bool.not_eq_true'] at hx2
    obtain ⟨⟨rfl, xd2⟩, xc2⟩ := hx2
    rw [unifyHead_pi_left f _ _ _ _ _ hw2] at h6
    simp only [Tm.holeFree, Bool.and_eq_true] at hw2
    simp only [structM] at h6
    simp only [beq_self_eq_true, if_true] at h6
    obtain ⟨r1, s4, h7, h8⟩ := bind_ok h6
    obtain ⟨rfl, A, rfl, hA, cA, wxA⟩ := unify_fresh_x hi hw2.1 hD h7
    simp only [if_true] at h8
    obtain ⟨s5, h9, rfl⟩ := under_inv h8
    have hj' : cellVal (s3.store.set i (some A)) j = none := by
      rw [cellVal_set_ne A hij]; exact hj
    obtain ⟨rfl, B, rfl, hB, cB, wxB⟩ := unify_fresh_x (i := j) hj' hw2.2 (DHF.push hD) h9
    refine ⟨rfl, y, A, B, rfl, hA, hB, wxA.2 xd2 hΔx, wxB.2 xc2 hΔx.push, ?_⟩
    exact .trans c2 (.pi _ _ _ cA cB)

/-- `unifyS` with a cell solved by a hole-free term on the left, against a hole-free term with a
joinable erasure -/
theorem unify_solved_true {f i : Nat} {A b : Tm} {s s' : St} {r : Bool}
    (hc : cellVal s.store i = some A) (hA : A.holeFree = true) (hb : b.holeFree = true)
    (hD : DHF s.dctx) (hW : DWF s.dctx) (hj : Join (erD s.dctx) 0 (er A) (er b))
    (h : unifyS f (.hole i 0) b s = .ok r s') : s' = s ∧ r = true := by
  cases f with
  | zero => rw [unifyS] at h; cases h
  | succ f =>
    rw [unifyS_succ] at h
    obtain ⟨x, s1, h1, h2⟩ := bind_ok h
    obtain ⟨rfl, rfl⟩ := synEqS_solved hc hA hb h1
    cases hs : sameX A b
    · rw [hs] at h2
      simp only [Bool.false_eq_true, if_false] at h2
      obtain ⟨w1, s2, h3, h4⟩ := bind_ok h2
      obtain ⟨f', h3'⟩ := whnfS_solved hc hA h3
      obtain ⟨rfl, hw1, n1, c1, wx1⟩ := whnfS_ok_all hA hD h3'
      obtain ⟨w2, s3, h5, h6⟩ := bind_ok h4
      obtain ⟨rfl, hw2, n2, c2, wx2⟩ := whnfS_ok_all hb hD h5
      have jw : Join (erD s3.dctx) 0 (er w1) (er w2) :=
        Join.trans (DWF_erD hW) (DHF_erD _)
          (Join.trans (DWF_erD hW) (DHF_erD _) (Conv.join c1 hW).symm hj) (Conv.join c2 hW)
      have := head_comp f (unifyS_comp f) w1 w2 _ hw1 hw2 n1 n2 hD hW wx1.1 wx2.1 jw
      rw [h6] at this
      cases this with
      | ok hq => exact ⟨rfl, hq⟩
    · rw [hs] at h2
      simp only [if_true] at h2
      obtain ⟨rfl, rfl⟩ := pure_ok h2
      exact ⟨rfl, rfl⟩

end CCPar
