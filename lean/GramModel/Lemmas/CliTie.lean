import GramModel.Generated.Cli

/-!
# Where `main.rs` writes, read off the source on every run

`Generated/Cli.lean`: for `run`, `entry`, `main` the stage calls, the error propagations (`?`), every output macro and every `exit`.
`cliOK` is a law over that table (not a pin):
* `run` writes to standard output only, never exits, and writes nothing before `tokenize`, `parse` and `type_check` have each been called and
  their error propagated (`?`) — so a rejected program produces no standard output; the value is written after `evaluate` and its `?`;
* `entry` writes nothing;
* `main` writes to standard error only, every such write is followed at once by `exit 1`, and there is no other `exit`.
-/

def eventsOf (fn : String) (tbl : List (String × List String)) : List String :=
  ((tbl.find? (fun r => r.1 == fn)).map (·.2)).getD []

def isOut (e : String) : Bool := e == "println!" || e == "print!"
def isErr (e : String) : Bool := e == "eprintln!" || e == "eprint!"
def isWrite (e : String) : Bool := isOut e || isErr e || e == "write!" || e == "writeln!"

/-- the events up to (not including) the first standard-output write -/
def beforeFirstOut : List String → List String
  | [] => []
  | e :: r => if isOut e then [] else e :: beforeFirstOut r

/-- every `eprintln!` is followed at once by `exit 1` -/
def errThenExit : List String → Bool
  | [] => true
  | e :: r => if isErr e then (match r with | "exit 1" :: r' => errThenExit r' | _ => false) else errThenExit r

def cliOK (tbl : List (String × List String)) : Bool :=
  let run := eventsOf "run" tbl
  let entry := eventsOf "entry" tbl
  let mainEv := eventsOf "main" tbl
  -- run
  run.all (fun e => !isErr e && !(e.startsWith "exit") && e != "write!" && e != "writeln!") &&
  run.any isOut &&
  (beforeFirstOut run).filter (fun e => e != "call read_to_string") ==
    ["?", "call tokenize", "?", "call parse", "?", "call type_check", "?"] &&
  (((run.reverse.dropWhile (fun e => !isOut e)).drop 1).take 2 == ["?", "call evaluate"]) &&
  -- entry
  entry.all (fun e => !isWrite e && !(e.startsWith "exit")) &&
  -- main
  mainEv.all (fun e => !isOut e && e != "exit 0") && errThenExit mainEv &&
  mainEv.all (fun e => !(e.startsWith "exit") || e == "exit 1")
