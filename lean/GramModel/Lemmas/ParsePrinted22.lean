import GramModel.Lemmas.ParsePrinted21

/-! # Reading a printed term back: the full round trip -/

namespace PModel
open RewriteMore PrintDerives

/-- **Stage B**: name resolution of any tree that is the tree of `t` up to ranges, flags and errors,
in the scope `names`, returns `canon t` without error. -/
theorem resolve_printed (I : List Char → Name) (nm : Name → List Char) (names : List Name)
    (t : Tm) (s : Src) (hI : ∀ x, I (nm x) = x) (hnd : names.Nodup)
    (hph : ∀ x ∈ names, x ≠ placeholder)
    (hsc : scopedOK names.reverse t = true) (hs : strip s = lsrc I nm t) :
    ∃ rt st, resolve s (initialContext names).length
        { ctx := initialContext names, errors := [], nextHole := 0 } = some (rt, st) ∧
      rt.erase = canon t ∧ st.errors = [] := by
  have hnd' : names.reverse.Nodup := by
    rw [List.Nodup, List.pairwise_reverse]
    exact hnd.imp (fun h => h.symm)
  have hph' : ∀ x ∈ names.reverse, x ≠ placeholder := fun x hx => hph x (List.mem_reverse.mp hx)
  obtain ⟨hinv, hlen⟩ := initialContext_inv names.reverse hnd' hph'
  rw [List.reverse_reverse] at hinv hlen
  obtain ⟨hdb, hhf⟩ := toDB_lsrcF I nm hI t names.reverse s hsc (scopeOK_of_nodup _ hnd') hs
  obtain ⟨r, st', hres, herr, her⟩ := C08_resolve_complete_fixed s (names.reverse.map slot)
    { ctx := initialContext names, errors := [], nextHole := 0 } (canon t) hinv.1 (hinv.2 trivial) hdb
  have hl : (names.reverse.map slot).length = (initialContext names).length := by
    rw [hlen]; simp
  rw [hl] at hres
  refine ⟨r, st', hres, ?_, herr⟩
  rw [← her]
  exact (ehi r.erase (by rw [her]; exact hhf)).symm

/-- **Reading a printed term back.** -/
theorem read_back (toks : Array PTok) (I : List Char → Name) (nm : Name → List Char)
    (names : List Name) (t : Tm) (hI : ∀ x, I (nm x) = x) (hnd : names.Nodup)
    (hph : ∀ x ∈ names, x ≠ placeholder) (hsc : scopedOK names.reverse t = true)
    (h1 : noImplicitArrow t = true) (h2 : noNegLit t = true)
    (hk : toks.toList.map (·.kind) = (printKinds nm t).map (kindP I)) :
    readBack toks names = some (canon t, []) := by
  obtain ⟨r, st, s3, hr, h3, hs3⟩ := reassocAll_printed toks I nm t h1 h2 hk
  obtain ⟨rt, st', hres, her, herr⟩ := resolve_printed I nm names t s3 hI hnd hph hsc hs3
  simp [readBack, hr, h3, hres, her, herr]

end PModel
