import GramModel.Lemmas.ParserTermination
import GramModel.Lemmas.ParserNoPanicDefs

/-! The invariant of parse results behind `[tag:error_check]` (`Good`), carried through all 36
parsing functions and the memo table (partial correctness; termination is in
`ParserTermination.lean`). -/

namespace PModel

/-- The invariant of parse results behind `[tag:error_check]`: an unconfident result carries a
recorded error, and a tree without recorded errors contains no `ParseError` node. -/
def Good (r : PResult) : Prop :=
  (r.confident = false → collectErrors r.term ≠ []) ∧ (collectErrors r.term = [] → NoPE r.term)

def CacheGood (st : PState) : Prop :=
  ∀ (k : Nat × Nat) (r : PResult), st.cache[k]? = some r → Good r

/-- Partial correctness w.r.t. the invariant `CacheGood`. -/
def Pres {α : Type} (m : ParseM α) (post : α → Prop) : Prop :=
  ∀ st a st', CacheGood st → m st = some (a, st') → CacheGood st' ∧ post a

section Comb
variable {α β : Type}

theorem Pres.pure {a : α} {post : α → Prop} (h : post a) : Pres (Pure.pure a : ParseM α) post := by
  intro st b st' hI e
  have : (Pure.pure a : ParseM α) st = some (a, st) := rfl
  rw [this] at e
  simp only [Option.some.injEq, Prod.mk.injEq] at e
  rw [← e.1, ← e.2]; exact ⟨hI, h⟩

theorem Pres.bind {m : ParseM α} {f : α → ParseM β} {p : α → Prop} {q : β → Prop}
    (hm : Pres m p) (hf : ∀ a, p a → Pres (f a) q) : Pres (m >>= f) q := by
  intro st b st' hI e
  rw [ParseM_bind_eq] at e
  cases h1 : m st with
  | none => simp [h1] at e
  | some p1 =>
    obtain ⟨a, s1⟩ := p1
    simp only [h1] at e
    obtain ⟨hI1, hp⟩ := hm st a s1 hI h1
    exact hf a hp s1 b st' hI1 e

theorem Pres.ite {c : Prop} [Decidable c] {m1 m2 : ParseM α} {p : α → Prop}
    (h1 : c → Pres m1 p) (h2 : ¬c → Pres m2 p) : Pres (if c then m1 else m2) p := by
  split
  · exact h1 ‹_›
  · exact h2 ‹_›

theorem Pres.fail {post : α → Prop} : Pres (fun _ => none : ParseM α) post := by
  intro st a st' _ e; simp at e

variable {toks : Array PTok} {post : PResult → Prop}

theorem Pres.consume0 {next : Nat} {kind : PKind} {k : Nat → ParseM PResult}
    (hfail : post (failAt toks next)) (hk : Pres (k (next + 1)) post) :
    Pres (consume0 toks next kind k) post := by
  unfold PModel.consume0
  split
  · split
    · exact hk
    · exact Pres.pure hfail
  · exact Pres.pure hfail

theorem Pres.consumeIdent {next : Nat} {k : Name → Nat → ParseM PResult}
    (hfail : post (failAt toks next)) (hk : ∀ x, Pres (k x (next + 1)) post) :
    Pres (consumeIdent toks next k) post := by
  unfold PModel.consumeIdent
  split
  · split
    · exact hk _
    · exact Pres.pure hfail
  · exact Pres.pure hfail

theorem Pres.consumeLiteral {next : Nat} {k : Nat → Nat → ParseM PResult}
    (hfail : post (failAt toks next)) (hk : ∀ x, Pres (k x (next + 1)) post) :
    Pres (consumeLiteral toks next k) post := by
  unfold PModel.consumeLiteral
  split
  · split
    · exact hk _
    · exact Pres.pure hfail
  · exact Pres.pure hfail

theorem Pres.tryReturn {p k : ParseM PResult} (hp : Pres p post) (hk : Pres k post) :
    Pres (tryReturn p k) post := by
  unfold PModel.tryReturn
  refine Pres.bind hp (fun r hr => ?_)
  exact Pres.ite (fun _ => hk) (fun _ => Pres.pure hr)

theorem Pres.tryEval {p : ParseM PResult} {k : Src → Nat → Bool → ParseM PResult}
    {pp : PResult → Prop} (hp : Pres p pp) (herr : ∀ r, pp r → post r)
    (hk : ∀ r, pp r → r.term.isParseError = false → Pres (k r.term r.next r.confident) post) :
    Pres (tryEval p k) post := by
  unfold PModel.tryEval
  refine Pres.bind hp (fun r hr => ?_)
  cases h : r.term.isParseError
  · simp only [Bool.false_eq_true, if_false]; exact hk r hr h
  · simp only [if_true]; exact Pres.pure (herr r hr)

theorem Pres.cacheCheck {nt : NT} {start : Nat} {body : ParseM PResult} (hb : Pres body Good) :
    Pres (cacheCheck nt start body) Good := by
  intro st r st' hI e
  cases hc : st.cache[(nt.idx, start)]? with
  | some r0 =>
    rw [cacheCheck_hit nt start body st r0 hc] at e
    simp only [Option.some.injEq, Prod.mk.injEq] at e
    rw [← e.1, ← e.2]
    exact ⟨hI, hI _ _ hc⟩
  | none =>
    rw [cacheCheck_miss nt start body st hc] at e
    cases hb1 : body { st with misses := st.misses.modify nt.idx (· + 1) } with
    | none => simp [hb1] at e
    | some p =>
      obtain ⟨r1, s1⟩ := p
      simp only [hb1, Option.some.injEq, Prod.mk.injEq] at e
      obtain ⟨hI1, hg⟩ := hb { st with misses := st.misses.modify nt.idx (· + 1) } _ _ hI hb1
      rw [← e.1, ← e.2]
      refine ⟨?_, hg⟩
      intro k r' hr'
      simp only [Std.HashMap.getElem?_insert] at hr'
      split at hr'
      · cases hr'; exact hg
      · exact hI1 k r' hr'

end Comb

theorem Good.failAt (toks : Array PTok) (next : Nat) : Good (failAt toks next) := by
  simp [Good, PModel.failAt, errorTerm, collectErrors]

/-- `found = false` with error reporting on leaves an error. -/
theorem expectToken_errs (toks : Array PTok) (next : Nat) (target : PKind → Bool) :
    (expectToken toks next target true).2.1 = false → (expectToken toks next target true).1 ≠ [] := by
  unfold expectToken
  simp only [if_true]
  intro hf he
  split at he
  · rename_i hlt
    split at he
    · rename_i ht
      have hn : toks.size - next = (toks.size - next - 1) + 1 := by omega
      rw [hn] at hf
      unfold scanLoop at hf
      simp [hlt, ht] at hf
    · cases he
  · cases he

section Bodies
variable {toks : Array PTok} {rec : NT → Nat → ParseM PResult}
  (hrec : ∀ nt pos, Pres (rec nt pos) Good)

theorem Pres.parseLeaf {kind : PKind} {v : SrcV} {start : Nat}
    (hv : ∀ r, collectErrors (.mk r false v []) = [] ∧ NoPE (.mk r false v [])) :
    Pres (parseLeaf toks kind v start) Good := by
  unfold PModel.parseLeaf
  refine Pres.consume0 (Good.failAt _ _) (Pres.pure ?_)
  have := hv (tokenRange toks start)
  simp [Good, this]

include hrec

theorem Pres.parseLambda {start : Nat} : Pres (parseLambda toks rec start) Good := by
  unfold PModel.parseLambda
  refine Pres.consumeIdent (Good.failAt _ _) (fun x => ?_)
  refine Pres.consume0 (Good.failAt _ _) ?_
  refine Pres.bind (hrec _ _) ?_
  intro r2 hr2
  obtain ⟨t2, n2, c2⟩ := r2
  refine Pres.pure ?_
  simp only [Good, collectErrors, collectErrorsOpt, NoPE, NoPEOpt, List.append_nil,
    List.nil_append, true_and] at hr2 ⊢
  exact hr2

macro "good_simp" : tactic => `(tactic|
  simp only [Good, collectErrors, collectErrorsOpt, NoPE, NoPEOpt, List.append_nil,
    List.nil_append, List.append_eq_nil_iff, true_and, and_true, ne_eq] at *)

theorem Pres.parseBinary {left right : NT} {opTok : PKind} {op : BinOp} {start : Nat} :
    Pres (parseBinary toks rec left opTok right op start) Good := by
  unfold PModel.parseBinary
  refine Pres.tryEval (hrec _ _) (fun r hr => hr) ?_
  intro r hr hne
  refine Pres.consume0 (Good.failAt _ _) ?_
  refine Pres.bind (hrec _ _) ?_
  intro r2 hr2
  obtain ⟨t2, n2, c2⟩ := r2
  refine Pres.pure ?_
  good_simp
  grind

theorem Pres.parseBinder {openK closeK arrowK : PKind} {mk : SrcVar → Src → Src → SrcV}
    {start : Nat}
    (hce : ∀ r g v d b es, collectErrors (.mk r g (mk v d b) es) = collectErrors d ++ collectErrors b ++ es)
    (hnp : ∀ r g v d b es, NoPE (.mk r g (mk v d b) es) ↔ NoPE d ∧ NoPE b) :
    Pres (parseBinder toks rec openK closeK arrowK mk start) Good := by
  unfold PModel.parseBinder
  refine Pres.consume0 (Good.failAt _ _) ?_
  refine Pres.consumeIdent (Good.failAt _ _) (fun x => ?_)
  refine Pres.consume0 (Good.failAt _ _) ?_
  refine Pres.tryEval (hrec _ _) (fun r hr => hr) ?_
  intro r hr hne
  refine Pres.consume0 (Good.failAt _ _) ?_
  refine Pres.consume0 (Good.failAt _ _) ?_
  refine Pres.bind (hrec _ _) ?_
  intro r2 hr2
  obtain ⟨t2, n2, c2⟩ := r2
  refine Pres.pure ?_
  simp only [Good, hce, hnp] at *
  good_simp
  grind

theorem Pres.parseLambdaImplicit {start : Nat} : Pres (parseLambdaImplicit toks rec start) Good := by
  unfold PModel.parseLambdaImplicit
  refine Pres.consume0 (Good.failAt _ _) ?_
  refine Pres.consumeIdent (Good.failAt _ _) (fun x => ?_)
  refine Pres.consume0 (Good.failAt _ _) ?_
  refine Pres.consume0 (Good.failAt _ _) ?_
  refine Pres.bind (hrec _ _) ?_
  intro r2 hr2
  obtain ⟨t2, n2, c2⟩ := r2
  refine Pres.pure ?_
  good_simp
  exact hr2

theorem Pres.parseNegation {start : Nat} : Pres (parseNegation toks rec start) Good := by
  unfold PModel.parseNegation
  refine Pres.consume0 (Good.failAt _ _) ?_
  refine Pres.bind (hrec _ _) ?_
  intro r2 hr2
  obtain ⟨t2, n2, c2⟩ := r2
  refine Pres.pure ?_
  good_simp
  exact hr2

theorem Pres.parseNonDependentPi {start : Nat} : Pres (parseNonDependentPi toks rec start) Good := by
  unfold PModel.parseNonDependentPi
  refine Pres.tryEval (hrec _ _) (fun r hr => hr) ?_
  intro r hr hne
  refine Pres.consume0 (Good.failAt _ _) ?_
  refine Pres.bind (hrec _ _) ?_
  intro r2 hr2
  obtain ⟨t2, n2, c2⟩ := r2
  refine Pres.pure ?_
  good_simp
  grind

theorem Pres.parseApplication {start : Nat} : Pres (parseApplication rec start) Good := by
  unfold PModel.parseApplication
  refine Pres.tryEval (hrec _ _) (fun r hr => hr) ?_
  intro r hr hne
  refine Pres.tryEval (hrec _ _) (fun r hr => hr) ?_
  intro r2 hr2 hne2
  refine Pres.pure ?_
  good_simp
  grind

omit hrec in
theorem collectErrors_mk_variant (t : Src) (r : SourceRange) (g : Bool) (es : List PErr) :
    ∃ X, collectErrors t = X ++ t.errors ∧ collectErrors (.mk r g t.variant es) = X ++ es := by
  obtain ⟨r0, g0, v, es0⟩ := t
  simp only [Src.variant, Src.errors]
  unfold collectErrors
  exact ⟨_, rfl, rfl⟩

omit hrec in
theorem NoPE_mk_variant (t : Src) (r : SourceRange) (g : Bool) (es : List PErr) :
    NoPE (.mk r g t.variant es) ↔ NoPE t := by
  obtain ⟨r0, g0, v, es0⟩ := t
  simp only [Src.variant]
  unfold NoPE
  exact Iff.rfl

theorem Pres.parseGroup {start : Nat} : Pres (parseGroup toks rec start) Good := by
  unfold PModel.parseGroup
  refine Pres.consume0 (Good.failAt _ _) ?_
  refine Pres.tryEval (hrec _ _) (fun r hr => hr) ?_
  intro r hr hne
  generalize expectToken toks r.next (· = .rightParen) r.confident = e
  obtain ⟨errs, found, nx⟩ := e
  dsimp only
  refine Pres.pure ?_
  obtain ⟨X, hX1, hX2⟩ := collectErrors_mk_variant r.term
    (span (tokenRange toks start) (tokenRange toks (nx - 1))) true
    (if (!found) = true then (if found = true then r.term.errors ++ errs else r.term.errors) ++
      [neverClosed toks start nx] else if found = true then r.term.errors ++ errs else r.term.errors)
  unfold Good at hr ⊢
  dsimp only
  rw [hX2, NoPE_mk_variant]
  rw [hX1] at hr
  cases found <;> simp at hr ⊢ <;> grind

omit hrec in
theorem expectToken_errs' (toks : Array PTok) (next : Nat) (target : PKind → Bool) (rep : Bool) :
    rep = true → (expectToken toks next target rep).2.1 = false →
      (expectToken toks next target rep).1 ≠ [] := by
  intro h; subst h; exact expectToken_errs toks next target

theorem Pres.optTerm {next : Nat} {found : Bool} {jp : PResult → ParseM PResult}
    {post : PResult → Prop}
    (hk : ∀ r, (found = true → Good r) → (found = false → r.confident = false) → Pres (jp r) post) :
    Pres (if found = true then rec .term next >>= jp
          else (Pure.pure ⟨skippedTerm toks next, next, false⟩ : ParseM PResult) >>= jp) post := by
  refine Pres.ite (fun hf => Pres.bind (hrec _ _) (fun r hr => hk r (fun _ => hr) ?_))
    (fun hf => Pres.bind (Pres.pure rfl) (fun r hr => hk r ?_ ?_))
  · intro h; rw [hf] at h; cases h
  · intro h; exact absurd h hf
  · intro _; rw [← hr]

theorem Pres.parseIf {start : Nat} : Pres (parseIf toks rec start) Good := by
  unfold PModel.parseIf
  refine Pres.consume0 (Good.failAt _ _) ?_
  refine Pres.bind (hrec _ _) ?_
  intro r1 hr1
  obtain ⟨t1, n1, c1⟩ := r1
  dsimp only
  have he1 := expectToken_errs' toks n1 (· = .then_) c1
  generalize expectToken toks n1 (· = .then_) c1 = e at he1
  obtain ⟨errs, found, nx⟩ := e
  dsimp only at he1 ⊢
  refine Pres.optTerm hrec ?_
  intro r2 hr2 hr2'
  obtain ⟨t2, n2, c2⟩ := r2
  dsimp only
  have he2 := expectToken_errs' toks n2 (· = .else_) c2
  generalize expectToken toks n2 (· = .else_) c2 = e2 at he2
  obtain ⟨errs2, found2, nx2⟩ := e2
  dsimp only at he2 ⊢
  refine Pres.optTerm hrec ?_
  intro r3 hr3 hr3'
  obtain ⟨t3, n3, c3⟩ := r3
  refine Pres.pure ?_
  good_simp
  grind

theorem Pres.parseLetRest {next : Nat} {vr : SourceRange} {x : Name} {ann : OptSrc}
    {errors : List PErr} {ef : Bool}
    (h1 : ef = false → errors ≠ [] ∨ collectErrorsOpt ann ≠ [])
    (h2 : collectErrorsOpt ann = [] → NoPEOpt ann) :
    Pres (parseLetRest toks rec vr x ann next errors ef) Good := by
  unfold PModel.parseLetRest
  refine Pres.optTerm hrec ?_
  intro r2 hr2 hr2'
  obtain ⟨t2, n2, c2⟩ := r2
  dsimp only
  have he2 := expectToken_errs' toks n2 PKind.isTerminator c2
  generalize expectToken toks n2 PKind.isTerminator c2 = e2 at he2
  obtain ⟨errs2, found2, nx2⟩ := e2
  dsimp only at he2 ⊢
  refine Pres.optTerm hrec ?_
  intro r3 hr3 hr3'
  obtain ⟨t3, n3, c3⟩ := r3
  refine Pres.pure ?_
  good_simp
  grind

theorem Pres.parseLet {start : Nat} : Pres (parseLet toks rec start) Good := by
  rw [parseLet_eq]
  refine Pres.consumeIdent (Good.failAt _ _) (fun x => ?_)
  split
  · split
    · refine Pres.consume0 (Good.failAt _ _) ?_
      refine Pres.tryEval (hrec _ _) (fun r hr => hr) ?_
      intro r hr hne
      have he := expectToken_errs' toks r.next (· = .equals) r.confident
      refine Pres.parseLetRest hrec ?_ ?_
      · intro hf
        by_cases hc : r.confident = true
        · exact Or.inl (he hc hf)
        · exact Or.inr (hr.1 (by simpa using hc))
      · exact hr.2
    · refine Pres.consume0 (Good.failAt _ _) ?_
      exact Pres.parseLetRest hrec (by simp) (by simp [NoPEOpt])
  · refine Pres.consume0 (Good.failAt _ _) ?_
    exact Pres.parseLetRest hrec (by simp) (by simp [NoPEOpt])

end Bodies

macro "galt_tac" hrec:ident : tactic => `(tactic|
  repeat (first
    | exact Pres.pure (Good.failAt _ _)
    | refine Pres.tryReturn ($hrec _ _) ?_))

theorem Pres.parseBody {toks : Array PTok} {rec : NT → Nat → ParseM PResult}
    (hrec : ∀ nt pos, Pres (rec nt pos) Good) (nt : NT) (start : Nat) :
    Pres (parseBody toks rec nt start) Good := by
  cases nt <;> simp only [PModel.parseBody]
  case term => unfold parseTerm noParse; galt_tac hrec
  case type => exact Pres.parseLeaf (by simp [collectErrors, NoPE])
  case «variable» =>
    unfold parseVariable
    refine Pres.consumeIdent (Good.failAt _ _) (fun x => Pres.pure ?_)
    simp [Good, collectErrors, NoPE]
  case lambda => exact Pres.parseLambda hrec
  case lambdaImplicit => exact Pres.parseLambdaImplicit hrec
  case annotatedLambda =>
    exact Pres.parseBinder hrec (by simp [collectErrors, collectErrorsOpt]) (by simp [NoPE, NoPEOpt])
  case annotatedLambdaImplicit =>
    exact Pres.parseBinder hrec (by simp [collectErrors, collectErrorsOpt]) (by simp [NoPE, NoPEOpt])
  case pi => exact Pres.parseBinder hrec (by simp [collectErrors]) (by simp [NoPE])
  case piImplicit => exact Pres.parseBinder hrec (by simp [collectErrors]) (by simp [NoPE])
  case nonDependentPi => exact Pres.parseNonDependentPi hrec
  case application => exact Pres.parseApplication hrec
  case let_ => exact Pres.parseLet hrec
  case integer => exact Pres.parseLeaf (by simp [collectErrors, NoPE])
  case integerLiteral =>
    unfold parseIntegerLiteral
    refine Pres.consumeLiteral (Good.failAt _ _) (fun x => Pres.pure ?_)
    simp [Good, collectErrors, NoPE]
  case negation => exact Pres.parseNegation hrec
  case sum => exact Pres.parseBinary hrec
  case difference => exact Pres.parseBinary hrec
  case product => exact Pres.parseBinary hrec
  case quotient => exact Pres.parseBinary hrec
  case lessThan => exact Pres.parseBinary hrec
  case lessThanOrEqualTo => exact Pres.parseBinary hrec
  case equalTo => exact Pres.parseBinary hrec
  case greaterThan => exact Pres.parseBinary hrec
  case greaterThanOrEqualTo => exact Pres.parseBinary hrec
  case boolean => exact Pres.parseLeaf (by simp [collectErrors, NoPE])
  case true_ => exact Pres.parseLeaf (by simp [collectErrors, NoPE])
  case false_ => exact Pres.parseLeaf (by simp [collectErrors, NoPE])
  case if_ => exact Pres.parseIf hrec
  case group => exact Pres.parseGroup hrec
  case atom => unfold parseAtom noParse; galt_tac hrec
  case smallTerm => unfold parseSmallTerm noParse; galt_tac hrec
  case mediumTerm => unfold parseMediumTerm noParse; galt_tac hrec
  case largeTerm => unfold parseLargeTerm noParse; galt_tac hrec
  case hugeTerm => unfold parseHugeTerm noParse; galt_tac hrec
  case giantTerm => unfold parseGiantTerm noParse; galt_tac hrec
  case jumboTerm => unfold parseJumboTerm noParse; galt_tac hrec

theorem Pres.parseNT (toks : Array PTok) : ∀ (fuel : Nat) (nt : NT) (start : Nat),
    Pres (parseNT toks fuel nt start) Good
  | 0, _, _ => by unfold PModel.parseNT; exact Pres.fail
  | fuel + 1, nt, start => by
      unfold PModel.parseNT
      exact Pres.cacheCheck (Pres.parseBody (fun nt pos => Pres.parseNT toks fuel nt pos) nt start)

/-- The result of the parse phase is `Good`. -/
theorem runParser_good {toks : Array PTok} {r : PResult} {st : PState}
    (h : runParser toks = some (r, st)) : Good r := by
  refine (Pres.parseNT toks _ _ _ PState.init r st ?_ h).2
  intro k r' hr'
  simp [PState.init] at hr'

end PModel
