import GramModel.Lemmas.DeBruijn

/-!
# Positions of names in binder stacks

List facts behind `Props/C11.lean`'s "opening is named substitution" / "shifting is named weakening":
how `List.idxOf?` (the de Bruijn index of a name = position of its nearest binder) changes when names are
inserted into, or a name is removed from, the middle of the stack.  (The lemmas about `NTm` itself live in
the Props file, below the definitions they speak about.)
-/

namespace NamedLemmas

variable {α : Type} [DecidableEq α]

/-- a prefix not containing the name just adds its length -/
theorem idxOf?_append_not_mem (y : α) (Δ Γ : List α) (h : y ∉ Δ) :
    (Δ ++ Γ).idxOf? y = (Γ.idxOf? y).map (· + Δ.length) := by
  induction Δ with
  | nil => simp
  | cons a Δ ih =>
    have h1 : a ≠ y := fun e => h (by simp [e])
    have h2 : y ∉ Δ := fun e => h (by simp [e])
    simp only [List.cons_append, List.idxOf?_cons, beq_iff_eq, h1, if_false, ih h2, List.length_cons]
    cases Γ.idxOf? y <;> simp [Nat.add_assoc]

/-- a prefix containing the name decides the position -/
theorem idxOf?_append_mem (y : α) (Δ Γ : List α) (h : y ∈ Δ) :
    ∃ i, i < Δ.length ∧ Δ.idxOf? y = some i ∧ (Δ ++ Γ).idxOf? y = some i := by
  induction Δ with
  | nil => simp at h
  | cons a Δ ih =>
    by_cases e : a = y
    · exact ⟨0, by simp, by simp [List.idxOf?_cons, e], by simp [List.idxOf?_cons, e]⟩
    · have h2 : y ∈ Δ := by
        rcases List.mem_cons.mp h with h | h
        · exact absurd h.symm e
        · exact h
      obtain ⟨i, hi, h3, h4⟩ := ih h2
      exact ⟨i + 1, by simp [hi], by simp [List.idxOf?_cons, e, h3], by simp [List.idxOf?_cons, e, h4]⟩

/-- **Insertion** of names `Δ` at depth `Γ₁.length`: a name that is bound in `Γ₁`, or else is not among the
inserted ones, keeps its position below `Γ₁.length` and moves up by `Δ.length` at or above it. -/
theorem idxOf?_insert (y : α) (Γ₁ Δ Γ₂ : List α) (i : Nat) (hΔ : y ∉ Γ₁ → y ∉ Δ)
    (h : (Γ₁ ++ Γ₂).idxOf? y = some i) :
    (Γ₁ ++ (Δ ++ Γ₂)).idxOf? y = some (if i ≥ Γ₁.length then i + Δ.length else i) := by
  by_cases hy : y ∈ Γ₁
  · obtain ⟨j, hj, h1, h2⟩ := idxOf?_append_mem y Γ₁ Γ₂ hy
    obtain ⟨j', _, h3, h4⟩ := idxOf?_append_mem y Γ₁ (Δ ++ Γ₂) hy
    have e1 : j = i := by rw [h2] at h; exact Option.some.inj h
    have e2 : j' = j := by rw [h1] at h3; exact (Option.some.inj h3).symm
    rw [h4, e2, e1]
    have : ¬ i ≥ Γ₁.length := by omega
    simp [this]
  · rw [idxOf?_append_not_mem y Γ₁ Γ₂ hy] at h
    rw [idxOf?_append_not_mem y Γ₁ _ hy, idxOf?_append_not_mem y Δ Γ₂ (hΔ hy)]
    cases hk : Γ₂.idxOf? y with
    | none => rw [hk] at h; simp at h
    | some k =>
      rw [hk] at h
      simp only [Option.map_some, Option.some.injEq] at h
      subst h
      simp only [Option.map_some, Option.some.injEq]
      have : k + Γ₁.length ≥ Γ₁.length := by omega
      simp only [this, if_true]
      omega

/-- the removed name itself sits at depth `Γ₁.length` -/
theorem idxOf?_middle (x : α) (Γ₁ Γ : List α) (hx : x ∉ Γ₁) :
    (Γ₁ ++ x :: Γ).idxOf? x = some Γ₁.length := by
  rw [idxOf?_append_not_mem x Γ₁ _ hx]
  simp [List.idxOf?_cons]

/-- **Removal** of the name `x` at depth `Γ₁.length`: any other name is never at that depth, keeps its position
below it and moves down by one above it. -/
theorem idxOf?_remove (x y : α) (Γ₁ Γ : List α) (j : Nat) (hxy : y ≠ x)
    (h : (Γ₁ ++ x :: Γ).idxOf? y = some j) :
    j ≠ Γ₁.length ∧ (Γ₁ ++ Γ).idxOf? y = some (if j > Γ₁.length then j - 1 else j) := by
  by_cases hy : y ∈ Γ₁
  · obtain ⟨i, hi, h1, h2⟩ := idxOf?_append_mem y Γ₁ (x :: Γ) hy
    obtain ⟨i', _, h3, h4⟩ := idxOf?_append_mem y Γ₁ Γ hy
    have e1 : i = j := by rw [h2] at h; exact Option.some.inj h
    have e2 : i' = i := by rw [h1] at h3; exact (Option.some.inj h3).symm
    subst e1
    refine ⟨by omega, ?_⟩
    rw [h4, e2]
    have : ¬ i > Γ₁.length := by omega
    simp [this]
  · rw [idxOf?_append_not_mem y Γ₁ _ hy] at h
    rw [idxOf?_append_not_mem y Γ₁ _ hy]
    have hxy' : x ≠ y := fun e => hxy e.symm
    simp only [List.idxOf?_cons, beq_iff_eq, hxy', if_false] at h
    cases hk : Γ.idxOf? y with
    | none => rw [hk] at h; simp at h
    | some k =>
      rw [hk] at h
      simp only [Option.map_some, Option.some.injEq] at h
      subst h
      refine ⟨by omega, ?_⟩
      simp only [Option.map_some, Option.some.injEq]
      have : k + 1 + Γ₁.length > Γ₁.length := by omega
      simp only [this, if_true]
      omega

end NamedLemmas
