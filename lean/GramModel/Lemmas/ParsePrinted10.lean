import GramModel.Lemmas.ParsePrinted9
import GramModel.Lemmas.RewriteMore

/-! # Re-association of the parsed tree of a printed term: application chains get their shape back

The packrat functions return the application chain `f a b c` right-nested (`f (a (b c))`, no `group`
flag on the inner nodes); `reassociate_applications` turns it into the left-nested `((f a) b) c`.
Here: for every chain of *opaque* operands (leaves, parenthesised terms — `opaque_of`), whatever the
ranges. -/

namespace PModel
open RewriteMore

/-- the variant is a chain node of the family -/
def inFam (fam : Family) : SrcV → Bool
  | .app _ _ => decide (fam = .applications)
  | .bin o _ _ => decide ((fam = .productsAndQuotients ∧ (o = .prod ∨ o = .quot))
      ∨ (fam = .sumsAndDifferences ∧ (o = .sum ∨ o = .diff)))
  | _ => false

/-- **Everything but an unparenthesised chain node of the family is opaque to a pass**: with an
accumulator, the pass re-associates the subtree on its own and then applies the common tail. -/
theorem opaque_of (fam : Family) (r : SourceRange) (g : Bool) (v : SrcV) (es : List PErr)
    (h : g = true ∨ inFam fam v = false) : Opaque fam (.mk r g v es) := by
  intro acc
  cases acc with
  | none => cases reassoc fam none (.mk r g v es) <;> rfl
  | some p =>
    obtain ⟨ac, l⟩ := p
    cases v with
    | app f a =>
      by_cases hf : fam = .applications
      · have hg : g = true := by
          rcases h with h | h
          · exact h
          · simp [inFam, hf] at h
        subst hg
        rw [reassoc, reassoc]
        simp only [hf, if_true, Option.isSome, Bool.and_self]
        simp only [Bool.false_and, Bool.false_eq_true, if_false]
        generalize (if a.group = true then _ else _ : Option Src) = X
        cases X <;> rfl
      · rw [reassoc, reassoc]
        simp only [hf, if_false]
        cases reassoc fam none f <;> cases reassoc fam none a <;> rfl
    | bin o a b =>
      by_cases ho : (fam = .productsAndQuotients ∧ (o = .prod ∨ o = .quot))
          ∨ (fam = .sumsAndDifferences ∧ (o = .sum ∨ o = .diff))
      · have hg : g = true := by
          rcases h with h | h
          · exact h
          · simp [inFam, ho] at h
        subst hg
        exact opaque_grouped fam r o a b es ho (some (ac, l))
      · rw [reassoc, reassoc]
        simp only [ho, if_false]
        cases reassoc fam none a <;> cases reassoc fam none b <;> rfl
    | lam x imp dom body =>
      rw [reassoc, reassoc]
      cases reassocOpt fam dom <;> cases reassoc fam none body <;> rfl
    | pi x imp dom cod =>
      rw [reassoc, reassoc]
      cases reassoc fam none dom <;> cases reassoc fam none cod <;> rfl
    | let_ x ann d b =>
      rw [reassoc, reassoc]
      cases reassocOpt fam ann <;> cases reassoc fam none d <;> cases reassoc fam none b <;> rfl
    | neg a =>
      rw [reassoc, reassoc]
      cases reassoc fam none a <;> rfl
    | ite c a b =>
      rw [reassoc, reassoc]
      cases reassoc fam none c <;> cases reassoc fam none a <;> cases reassoc fam none b <;> rfl
    | _ => rw [reassoc, reassoc]; rfl

/-- a node without range, flag and errors (what `strip` builds) -/
def mk00 (v : SrcV) : Src := .mk ⟨0, 0⟩ false v []

/-- the left-nested application of a head to a list of arguments -/
def leftN : Src → List Src → Src
  | h, [] => h
  | h, x :: l => leftN (mk00 (.app h x)) l

/-- `s` is the right-nested chain (as the packrat functions build it: inner nodes not flagged
`group`, any ranges) of the operands `l` -/
inductive IsChain : Src → List Src → Prop
  | one (x : Src) : IsChain x [x]
  | cons (r : SourceRange) (es : List PErr) (x rest y : Src) (l : List Src) :
      IsChain rest (y :: l) → IsChain (.mk r false (.app x rest) es) (x :: y :: l)

/-- the stripped result of the applications pass on a chain: left-nested, starting from the
accumulator if there is one -/
def chainRes : Option Src → List Src → Src
  | none, [] => mk00 .parseError
  | none, x :: l => leftN x l
  | some a, l => leftN a l

/-- the operands `l` are opaque to the applications pass, which turns them into `l'` -/
inductive Ops : List Src → List Src → Prop
  | nil : Ops [] []
  | cons {x x' : Src} {l l' : List Src} :
      (Opaque .applications x ∧ reassoc .applications none x = some x') → Ops l l' →
      Ops (x :: l) (x' :: l')

theorem strip_tail_app (ac x : Src) :
    strip (reassocTail (some (ac, Link.app)) x) = mk00 (.app (strip ac) (strip x)) := by
  simp [reassocTail, strip, stripV, Link.build, mk00]

/-- **Application chains get their shape back**: `reassociate_applications` turns the right-nested
chain of opaque operands `x₀ x₁ … xₙ` into the left-nested application of the re-associated
operands (up to ranges, `group` flags and error lists). -/
theorem reassoc_chain {s : Src} {l : List Src} (hc : IsChain s l) :
    ∀ (l' : List Src),
      Ops l l' →
      ∀ acc : Option (Src × Link), (acc = none ∨ ∃ ac, acc = some (ac, Link.app)) →
        (reassoc .applications acc s).map strip =
          some (chainRes (acc.map (fun p => strip p.1)) (l'.map strip)) := by
  induction hc with
  | one x =>
    intro l' hl acc hacc
    cases hl with
    | cons hx hnil =>
      cases hnil
      obtain ⟨hop, hx'⟩ := hx
      rw [hop acc, hx']
      rcases hacc with rfl | ⟨ac, rfl⟩
      · simp [chainRes, leftN, reassocTail]
      · simp only [Option.map_some, chainRes, List.map_cons, List.map_nil, leftN, strip_tail_app]
  | cons r es x rest y l0 hrest ih =>
    intro l' hl acc hacc
    cases hl with
    | cons hx hl1 =>
      rename_i x' l1'
      obtain ⟨hop, hx'⟩ := hx
      rw [reassoc]
      simp only [if_true, Bool.and_false, Bool.false_eq_true, if_false]
      by_cases hg : rest.group = true
      · -- the rest is the last operand, parenthesised
        have hlast : rest = y ∧ l0 = [] := by
          cases hrest with
          | one _ => exact ⟨rfl, rfl⟩
          | cons _ _ _ _ _ _ _ => simp [Src.group] at hg
        obtain ⟨rfl, rfl⟩ := hlast
        cases hl1 with
        | cons hy hnil =>
          cases hnil
          obtain ⟨_, hy'⟩ := hy
          simp only [hg, if_true]
          rcases hacc with rfl | ⟨ac, rfl⟩
          · simp [hx', hy', chainRes, leftN, strip, stripV, mk00]
          · simp only [hop (some (ac, Link.app)), hx', hy', Option.map_some]
            have := strip_tail_app ac x'
            simp only [strip, stripV, chainRes, List.map_cons, List.map_nil, leftN, mk00] at this ⊢
            rw [this]
      · simp only [hg, hx']
        rcases hacc with rfl | ⟨ac, rfl⟩
        · have := ih l1' hl1 (some (x', Link.app)) (Or.inr ⟨_, rfl⟩)
          simpa [chainRes, leftN] using this
        · have := ih l1' hl1 (some (Src.mk (span ac.range x.range) true (Link.app.build ac x') [],
            Link.app)) (Or.inr ⟨_, rfl⟩)
          simpa [chainRes, leftN, strip, stripV, Link.build, mk00] using this

end PModel
