import GramModel.Lemmas.CCSubst
import GramModel.Lemmas.CheckSound

/-!
# Parallel reduction for gram's conversion, and its confluence (C05)
-/

namespace CCPar

open CCSubst WhnfLemmas

/-- every definition entry at position `p` refers at most to itself and later entries -/
def DWF (Δ : DCtxX) : Prop := ∀ p d off, Δ[p]? = some (some (d, off)) → off ≤ p + 1

mutual
/-- parallel reduction under `n` opaque binders on top of the definitions context `Δ` -/
inductive Par (Δ : DCtxX) : Nat → Tm → Tm → Prop
  | type (n : Nat) : Par Δ n .type .type
  | int (n : Nat) : Par Δ n .int .int
  | bool (n : Nat) : Par Δ n .bool .bool
  | tt (n : Nat) : Par Δ n .tt .tt
  | ff (n : Nat) : Par Δ n .ff .ff
  | lit (n : Nat) (k : Int) : Par Δ n (.lit k) (.lit k)
  | var (n : Nat) (x : Name) (i : Nat) : Par Δ n (.var x i) (.var x i)
  | delta (n : Nat) (x : Name) (i : Nat) (d : Tm) (off : Nat) : n ≤ i →
      Δ[i - n]? = some (some (d, off)) → Par Δ n (.var x i) (ushift 0 (i + 1 - off) d)
  | lam {n : Nat} (x : Name) (im : Bool) {d d' b b' : Tm} :
      Par Δ n d d' → Par Δ (n+1) b b' → Par Δ n (.lam x im d b) (.lam x im d' b')
  | pi {n : Nat} (x : Name) (im : Bool) {d d' b b' : Tm} :
      Par Δ n d d' → Par Δ (n+1) b b' → Par Δ n (.pi x im d b) (.pi x im d' b')
  | app {n : Nat} {f f' a a' : Tm} : Par Δ n f f' → Par Δ n a a' → Par Δ n (.app f a) (.app f' a')
  | beta {n : Nat} (x : Name) (im : Bool) {d d' b b' a a' : Tm} :
      Par Δ n d d' → Par Δ (n+1) b b' → Par Δ n a a' →
      Par Δ n (.app (.lam x im d b) a) (openT b' 0 a' 0)
  | letg {n : Nat} {ds ds' : Defs} {b b' : Tm} :
      ParDefs Δ (n + ds.len) ds ds' → Par Δ (n + ds.len) b b' → Par Δ n (.letg ds b) (.letg ds' b')
  | letStep {n : Nat} (x : Name) {a a' d d' : Tm} {r r' : Defs} {b b' : Tm} :
      Par Δ (n + r.len + 1) a a' → Par Δ (n + r.len + 1) d d' →
      ParDefs Δ (n + r.len + 1) r r' → Par Δ (n + r.len + 1) b b' →
      Par Δ n (.letg (.cons x a d r) b)
        (.letg (openDefs r' r.len (unfoldDef x a' d' r.len) 0)
          (openT b' r.len (unfoldDef x a' d' r.len) 0))
  | letNil {n : Nat} {b b' : Tm} : Par Δ n b b' → Par Δ n (.letg .nil b) b'
  | neg {n : Nat} {a a' : Tm} : Par Δ n a a' → Par Δ n (.neg a) (.neg a')
  | negLit (n : Nat) (k : Int) : Par Δ n (.neg (.lit k)) (.lit (-k))
  | bin {n : Nat} (op : BinOp) {a a' b b' : Tm} :
      Par Δ n a a' → Par Δ n b b' → Par Δ n (.bin op a b) (.bin op a' b')
  | arith (n : Nat) (op : BinOp) (x y : Int) (r : Tm) : delta op x y = some r →
      Par Δ n (.bin op (.lit x) (.lit y)) r
  | ite {n : Nat} {c c' a a' b b' : Tm} :
      Par Δ n c c' → Par Δ n a a' → Par Δ n b b' → Par Δ n (.ite c a b) (.ite c' a' b')
  | iteT {n : Nat} {a a' b b' : Tm} : Par Δ n a a' → Par Δ n b b' → Par Δ n (.ite .tt a b) a'
  | iteF {n : Nat} {a a' b b' : Tm} : Par Δ n a a' → Par Δ n b b' → Par Δ n (.ite .ff a b) b'
inductive ParDefs (Δ : DCtxX) : Nat → Defs → Defs → Prop
  | nil (n : Nat) : ParDefs Δ n .nil .nil
  | cons {n : Nat} (x : Name) {a a' d d' : Tm} {r r' : Defs} :
      Par Δ n a a' → Par Δ n d d' → ParDefs Δ n r r' →
      ParDefs Δ n (.cons x a d r) (.cons x a' d' r')
end

variable {Δ : DCtxX}

theorem ParDefs.len : ∀ {n : Nat} {ds ds' : Defs}, ParDefs Δ n ds ds' → ds'.len = ds.len
  | _, _, _, .nil _ => rfl
  | _, _, _, .cons _ _ _ hr => by simp only [Defs.len, ParDefs.len hr]

theorem Par.cast {n m : Nat} {t t' : Tm} (e : n = m) (h : Par Δ n t t') : Par Δ m t t' := e ▸ h
theorem ParDefs.cast {n m : Nat} {t t' : Defs} (e : n = m) (h : ParDefs Δ n t t') : ParDefs Δ m t t' :=
  e ▸ h

mutual
theorem Par.hfL : ∀ {n : Nat} {t t' : Tm}, Par Δ n t t' → t.holeFree = true
  | _, _, _, .type _ | _, _, _, .int _ | _, _, _, .bool _ | _, _, _, .tt _ | _, _, _, .ff _
  | _, _, _, .lit _ _ | _, _, _, .var _ _ _ | _, _, _, .delta _ _ _ _ _ _ _ => rfl
  | _, _, _, .lam _ _ h1 h2 => by simp [Tm.holeFree, Par.hfL h1, Par.hfL h2]
  | _, _, _, .pi _ _ h1 h2 => by simp [Tm.holeFree, Par.hfL h1, Par.hfL h2]
  | _, _, _, .app h1 h2 => by simp [Tm.holeFree, Par.hfL h1, Par.hfL h2]
  | _, _, _, .beta _ _ h1 h2 h3 => by simp [Tm.holeFree, Par.hfL h1, Par.hfL h2, Par.hfL h3]
  | _, _, _, .letg h1 h2 => by simp [Tm.holeFree, ParDefs.hfL h1, Par.hfL h2]
  | _, _, _, .letStep _ h1 h2 h3 h4 => by
      simp [Tm.holeFree, Defs.holeFree, Par.hfL h1, Par.hfL h2, ParDefs.hfL h3, Par.hfL h4]
  | _, _, _, .letNil h => by simp [Tm.holeFree, Defs.holeFree, Par.hfL h]
  | _, _, _, .neg h => by simp [Tm.holeFree, Par.hfL h]
  | _, _, _, .negLit _ _ => rfl
  | _, _, _, .bin _ h1 h2 => by simp [Tm.holeFree, Par.hfL h1, Par.hfL h2]
  | _, _, _, .arith _ _ _ _ _ _ => rfl
  | _, _, _, .ite h1 h2 h3 => by simp [Tm.holeFree, Par.hfL h1, Par.hfL h2, Par.hfL h3]
  | _, _, _, .iteT h1 h2 => by simp [Tm.holeFree, Par.hfL h1, Par.hfL h2]
  | _, _, _, .iteF h1 h2 => by simp [Tm.holeFree, Par.hfL h1, Par.hfL h2]
theorem ParDefs.hfL : ∀ {n : Nat} {t t' : Defs}, ParDefs Δ n t t' → t.holeFree = true
  | _, _, _, .nil _ => rfl
  | _, _, _, .cons _ h1 h2 h3 => by simp [Defs.holeFree, Par.hfL h1, Par.hfL h2, ParDefs.hfL h3]
end

mutual
theorem Par.hfR (hD : DHF Δ) : ∀ {n : Nat} {t t' : Tm}, Par Δ n t t' → t'.holeFree = true
  | _, _, _, .type _ | _, _, _, .int _ | _, _, _, .bool _ | _, _, _, .tt _ | _, _, _, .ff _
  | _, _, _, .lit _ _ | _, _, _, .var _ _ _ => rfl
  | _, _, _, .delta _ _ _ d off _ h => by
      rw [ushift_holeFree]
      exact hD _ (List.mem_of_getElem? h) d off rfl
  | _, _, _, .lam _ _ h1 h2 => by simp [Tm.holeFree, Par.hfR hD h1, Par.hfR hD h2]
  | _, _, _, .pi _ _ h1 h2 => by simp [Tm.holeFree, Par.hfR hD h1, Par.hfR hD h2]
  | _, _, _, .app h1 h2 => by simp [Tm.holeFree, Par.hfR hD h1, Par.hfR hD h2]
  | _, _, _, .beta _ _ h1 h2 h3 => openT_holeFree _ _ _ _ (Par.hfR hD h2) (Par.hfR hD h3)
  | _, _, _, .letg h1 h2 => by simp [Tm.holeFree, ParDefs.hfR hD h1, Par.hfR hD h2]
  | _, _, _, @Par.letStep _ n x a a' d d' r r' b b' h1 h2 h3 h4 => by
      have hu := unfoldDef_holeFree x a' d' r.len (Par.hfR hD h1) (Par.hfR hD h2)
      simp [Tm.holeFree, openDefs_holeFree _ _ _ _ (ParDefs.hfR hD h3) hu,
        openT_holeFree _ _ _ _ (Par.hfR hD h4) hu]
  | _, _, _, .letNil h => Par.hfR hD h
  | _, _, _, .neg h => by simp [Tm.holeFree, Par.hfR hD h]
  | _, _, _, .negLit _ _ => rfl
  | _, _, _, .bin _ h1 h2 => by simp [Tm.holeFree, Par.hfR hD h1, Par.hfR hD h2]
  | _, _, _, .arith _ _ _ _ _ h => delta_holeFree h
  | _, _, _, .ite h1 h2 h3 => by simp [Tm.holeFree, Par.hfR hD h1, Par.hfR hD h2, Par.hfR hD h3]
  | _, _, _, .iteT h1 _ => Par.hfR hD h1
  | _, _, _, .iteF _ h2 => Par.hfR hD h2
theorem ParDefs.hfR (hD : DHF Δ) : ∀ {n : Nat} {t t' : Defs}, ParDefs Δ n t t' → t'.holeFree = true
  | _, _, _, .nil _ => rfl
  | _, _, _, .cons _ h1 h2 h3 => by
      simp [Defs.holeFree, Par.hfR hD h1, Par.hfR hD h2, ParDefs.hfR hD h3]
end

mutual
theorem Par.refl : ∀ (t : Tm) (n : Nat), t.holeFree = true → Par Δ n t t
  | .hole _ _, _, h => by cases h
  | .type, n, _ => .type n
  | .int, n, _ => .int n
  | .bool, n, _ => .bool n
  | .tt, n, _ => .tt n
  | .ff, n, _ => .ff n
  | .lit k, n, _ => .lit n k
  | .var x i, n, _ => .var n x i
  | .lam x im d b, n, h => by
      simp only [Tm.holeFree, Bool.and_eq_true] at h
      exact .lam x im (Par.refl d n h.1) (Par.refl b (n+1) h.2)
  | .pi x im d b, n, h => by
      simp only [Tm.holeFree, Bool.and_eq_true] at h
      exact .pi x im (Par.refl d n h.1) (Par.refl b (n+1) h.2)
  | .app f a, n, h => by
      simp only [Tm.holeFree, Bool.and_eq_true] at h
      exact .app (Par.refl f n h.1) (Par.refl a n h.2)
  | .letg ds b, n, h => by
      simp only [Tm.holeFree, Bool.and_eq_true] at h
      exact .letg (ParDefs.refl ds _ h.1) (Par.refl b _ h.2)
  | .neg a, n, h => by
      simp only [Tm.holeFree] at h
      exact .neg (Par.refl a n h)
  | .bin op a b, n, h => by
      simp only [Tm.holeFree, Bool.and_eq_true] at h
      exact .bin op (Par.refl a n h.1) (Par.refl b n h.2)
  | .ite c a b, n, h => by
      simp only [Tm.holeFree, Bool.and_eq_true] at h
      exact .ite (Par.refl c n h.1.1) (Par.refl a n h.1.2) (Par.refl b n h.2)
theorem ParDefs.refl : ∀ (ds : Defs) (n : Nat), ds.holeFree = true → ParDefs Δ n ds ds
  | .nil, n, _ => .nil n
  | .cons x a d r, n, h => by
      simp only [Defs.holeFree, Bool.and_eq_true] at h
      exact .cons x (Par.refl a n h.1.1) (Par.refl d n h.1.2) (ParDefs.refl r n h.2)
end


theorem delta_closed {op : BinOp} {x y : Int} {r : Tm} (h : delta op x y = some r) :
    (∀ c k, ushift c k r = r) ∧ (∀ i u s, openT r i u s = r) := by
  have : (∃ z, r = .lit z) ∨ r = .tt ∨ r = .ff := by
    cases op <;> simp only [delta] at h
    case quot => split at h <;> cases h; exact Or.inl ⟨_, rfl⟩
    all_goals first
      | (cases h; exact Or.inl ⟨_, rfl⟩)
      | (split at h <;> cases h <;> simp)
  rcases this with ⟨z, rfl⟩ | rfl | rfl <;> exact ⟨fun _ _ => rfl, fun _ _ _ => rfl⟩

mutual
theorem Par.shift (hW : DWF Δ) (hD : DHF Δ) (k : Nat) : ∀ {n : Nat} {t t' : Tm}, Par Δ n t t' →
    ∀ (c : Nat), c ≤ n → Par Δ (n + k) (ushift c k t) (ushift c k t')
  | _, _, _, .type _, _, _ => .type _
  | _, _, _, .int _, _, _ => .int _
  | _, _, _, .bool _, _, _ => .bool _
  | _, _, _, .tt _, _, _ => .tt _
  | _, _, _, .ff _, _, _ => .ff _
  | _, _, _, .lit _ _, _, _ => .lit _ _
  | _, _, _, .var _ _ _, _, _ => by simp only [ushift]; split <;> exact .var _ _ _
  | _, _, _, .delta n x i d off hni hΔ, c, hc => by
      have hoff := hW _ _ _ hΔ
      simp only [ushift]
      rw [if_pos (by omega), ushift_ushift_mid d c 0 k (i + 1 - off) (Nat.zero_le _) (by omega)]
      have := Par.delta (Δ := Δ) (n + k) x (i + k) d off (by omega)
        (by rw [show i + k - (n + k) = i - n by omega]; exact hΔ)
      rw [show i + k + 1 - off = k + (i + 1 - off) by omega] at this
      exact this
  | _, _, _, .lam x im h1 h2, c, hc => by
      simp only [ushift]
      exact .lam x im (Par.shift hW hD k h1 c hc)
        ((Par.shift hW hD k h2 (c+1) (by omega)).cast (by omega))
  | _, _, _, .pi x im h1 h2, c, hc => by
      simp only [ushift]
      exact .pi x im (Par.shift hW hD k h1 c hc)
        ((Par.shift hW hD k h2 (c+1) (by omega)).cast (by omega))
  | _, _, _, .app h1 h2, c, hc => by
      simp only [ushift]
      exact .app (Par.shift hW hD k h1 c hc) (Par.shift hW hD k h2 c hc)
  | _, _, _, @Par.beta _ n x im d d' b b' a a' h1 h2 h3, c, hc => by
      simp only [ushift]
      have e := open_ushift_high b' a' 0 c k 0 (Par.hfR hD h2) (Nat.zero_le _)
      rw [Nat.sub_zero] at e
      rw [e]
      exact .beta x im (Par.shift hW hD k h1 c hc)
        ((Par.shift hW hD k h2 (c+1) (by omega)).cast (by omega)) (Par.shift hW hD k h3 c hc)
  | _, _, _, @Par.letg _ n ds ds' b b' h1 h2, c, hc => by
      simp only [ushift]
      rw [ParDefs.len h1]
      refine .letg ?_ ?_
      · rw [ushiftDefs_len]
        exact (ParDefs.shift hW hD k h1 (c + ds.len) (by omega)).cast (by omega)
      · rw [ushiftDefs_len]
        exact (Par.shift hW hD k h2 (c + ds.len) (by omega)).cast (by omega)
  | _, _, _, @Par.letStep _ n x a a' d d' r r' b b' h1 h2 h3 h4, c, hc => by
      have hl := ParDefs.len h3
      have ha' := Par.hfR hD h1
      have hd' := Par.hfR hD h2
      have hr' := ParDefs.hfR hD h3
      have hb' := Par.hfR hD h4
      simp only [ushift, ushiftDefs, openDefs_len, Defs.len]
      rw [hl]
      have eU := CheckSound.unfoldDef_ushift x a' d' r.len (c + r.len) k ha' hd' (by omega)
      have e1 := open_ushift_high b' (unfoldDef x a' d' r.len) r.len (c + r.len) k 0 hb' (by omega)
      have e2 := openDefs_ushiftDefs_high r' (unfoldDef x a' d' r.len) r.len (c + r.len) k 0 hr'
        (by omega)
      rw [Nat.sub_zero, eU] at e1 e2
      rw [e1, e2]
      have i1 := (Par.shift hW hD k h1 (c + r.len + 1) (by omega)).cast
        (show n + r.len + 1 + k = n + k + r.len + 1 by omega)
      have i2 := (Par.shift hW hD k h2 (c + r.len + 1) (by omega)).cast
        (show n + r.len + 1 + k = n + k + r.len + 1 by omega)
      have i3 := (ParDefs.shift hW hD k h3 (c + r.len + 1) (by omega)).cast
        (show n + r.len + 1 + k = n + k + r.len + 1 by omega)
      have i4 := (Par.shift hW hD k h4 (c + r.len + 1) (by omega)).cast
        (show n + r.len + 1 + k = n + k + r.len + 1 by omega)
      have := Par.letStep (Δ := Δ) (n := n + k) x
        (r := ushiftDefs (c + r.len + 1) k r) (by rw [ushiftDefs_len]; exact i1)
        (by rw [ushiftDefs_len]; exact i2) (by rw [ushiftDefs_len]; exact i3)
        (by rw [ushiftDefs_len]; exact i4)
      rw [ushiftDefs_len] at this
      exact this
  | _, _, _, .letNil h, c, hc => by
      simp only [ushift, ushiftDefs, Defs.len, Nat.add_zero]
      exact .letNil (Par.shift hW hD k h c hc)
  | _, _, _, .neg h, c, hc => by
      simp only [ushift]
      exact .neg (Par.shift hW hD k h c hc)
  | _, _, _, .negLit _ _, _, _ => .negLit _ _
  | _, _, _, .bin op h1 h2, c, hc => by
      simp only [ushift]
      exact .bin op (Par.shift hW hD k h1 c hc) (Par.shift hW hD k h2 c hc)
  | _, _, _, .arith _ op x y r h, c, _ => by
      rw [(delta_closed h).1]
      exact .arith _ op x y r h
  | _, _, _, .ite h1 h2 h3, c, hc => by
      simp only [ushift]
      exact .ite (Par.shift hW hD k h1 c hc) (Par.shift hW hD k h2 c hc) (Par.shift hW hD k h3 c hc)
  | _, _, _, .iteT h1 h2, c, hc => by
      simp only [ushift]
      exact .iteT (Par.shift hW hD k h1 c hc) (Par.shift hW hD k h2 c hc)
  | _, _, _, .iteF h1 h2, c, hc => by
      simp only [ushift]
      exact .iteF (Par.shift hW hD k h1 c hc) (Par.shift hW hD k h2 c hc)
theorem ParDefs.shift (hW : DWF Δ) (hD : DHF Δ) (k : Nat) : ∀ {n : Nat} {t t' : Defs}, ParDefs Δ n t t' →
    ∀ (c : Nat), c ≤ n → ParDefs Δ (n + k) (ushiftDefs c k t) (ushiftDefs c k t')
  | _, _, _, .nil _, _, _ => .nil _
  | _, _, _, .cons x h1 h2 h3, c, hc => by
      simp only [ushiftDefs]
      exact .cons x (Par.shift hW hD k h1 c hc) (Par.shift hW hD k h2 c hc)
        (ParDefs.shift hW hD k h3 c hc)
end


mutual
theorem Par.subst (hW : DWF Δ) (hD : DHF Δ) {N : Nat} {u u' : Tm} (hu : Par Δ N u u') (i : Nat)
    (hi : i ≤ N) : ∀ {n : Nat} {t t' : Tm}, Par Δ n t t' → ∀ (m : Nat), n = m + N + 1 →
    Par Δ (m + N) (openT t (i + m) u m) (openT t' (i + m) u' m)
  | _, _, _, .type _, _, _ => .type _
  | _, _, _, .int _, _, _ => .int _
  | _, _, _, .bool _, _, _ => .bool _
  | _, _, _, .tt _, _, _ => .tt _
  | _, _, _, .ff _, _, _ => .ff _
  | _, _, _, .lit _ _, _, _ => .lit _ _
  | _, _, _, .var _ x j, m, _ => by
      simp only [openT]
      split
      · exact (Par.shift hW hD m hu 0 (Nat.zero_le _)).cast (by omega)
      · split <;> exact .var _ _ _
  | _, _, _, .delta n x j d off hnj hΔ, m, hn => by
      have hoff := hW _ _ _ hΔ
      simp only [openT]
      rw [if_neg (by omega), if_pos (by omega)]
      have e : j + 1 - off = (j - off) + 1 := by omega
      rw [e, open_ushift_past d (j - off) (i + m) u' m (by omega)]
      have := Par.delta (Δ := Δ) (m + N) x (j - 1) d off (by omega)
        (by rw [show j - 1 - (m + N) = j - n by omega]; exact hΔ)
      rw [show j - 1 + 1 - off = j - off by omega] at this
      exact this
  | _, _, _, .lam x im h1 h2, m, hn => by
      simp only [openT]
      exact .lam x im (Par.subst hW hD hu i hi h1 m hn)
        ((Par.subst hW hD hu i hi h2 (m+1) (by omega)).cast (by omega))
  | _, _, _, .pi x im h1 h2, m, hn => by
      simp only [openT]
      exact .pi x im (Par.subst hW hD hu i hi h1 m hn)
        ((Par.subst hW hD hu i hi h2 (m+1) (by omega)).cast (by omega))
  | _, _, _, .app h1 h2, m, hn => by
      simp only [openT]
      exact .app (Par.subst hW hD hu i hi h1 m hn) (Par.subst hW hD hu i hi h2 m hn)
  | _, _, _, @Par.beta _ n x im d d' b b' a a' h1 h2 h3, m, hn => by
      simp only [openT]
      rw [open_open_sh b' a' u' 0 (i + m) m (Nat.zero_le _) (Nat.zero_le _)]
      exact .beta x im (Par.subst hW hD hu i hi h1 m hn)
        ((Par.subst hW hD hu i hi h2 (m+1) (by omega)).cast (by omega))
        (Par.subst hW hD hu i hi h3 m hn)
  | _, _, _, @Par.letg _ n ds ds' b b' h1 h2, m, hn => by
      simp only [openT]
      rw [ParDefs.len h1]
      refine .letg ?_ ?_
      · rw [openDefs_len, Nat.add_assoc i m ds.len]
        exact (ParDefs.subst hW hD hu i hi h1 (m + ds.len) (by omega)).cast
          (show m + ds.len + N = m + N + ds.len by omega)
      · rw [openDefs_len, Nat.add_assoc i m ds.len]
        exact (Par.subst hW hD hu i hi h2 (m + ds.len) (by omega)).cast
          (show m + ds.len + N = m + N + ds.len by omega)
  | _, _, _, @Par.letStep _ n x a a' d d' r r' b b' h1 h2 h3 h4, m, hn => by
      have hl := ParDefs.len h3
      simp only [openT, openDefs, openDefs_len, Defs.len]
      rw [hl]
      rw [open_open_sh b' (unfoldDef x a' d' r.len) u' r.len (i + m + r.len) (m + r.len) (by omega)
        (by omega)]
      rw [openDefs_open_sh r' (unfoldDef x a' d' r.len) u' r.len (i + m + r.len) (m + r.len)
        (by omega) (by omega)]
      rw [unfoldDef_open x a' d' r.len (i + m + r.len) (m + r.len) u' (by omega) (by omega)]
      have i1 := (Par.subst hW hD hu i hi h1 (m + r.len + 1) (by omega)).cast
        (show m + r.len + 1 + N = m + N + r.len + 1 by omega)
      have i2 := (Par.subst hW hD hu i hi h2 (m + r.len + 1) (by omega)).cast
        (show m + r.len + 1 + N = m + N + r.len + 1 by omega)
      have i3 := (ParDefs.subst hW hD hu i hi h3 (m + r.len + 1) (by omega)).cast
        (show m + r.len + 1 + N = m + N + r.len + 1 by omega)
      have i4 := (Par.subst hW hD hu i hi h4 (m + r.len + 1) (by omega)).cast
        (show m + r.len + 1 + N = m + N + r.len + 1 by omega)
      have := Par.letStep (Δ := Δ) (n := m + N) x
        (r := openDefs r (i + (m + r.len + 1)) u (m + r.len + 1)) (by rw [openDefs_len]; exact i1)
        (by rw [openDefs_len]; exact i2) (by rw [openDefs_len]; exact i3)
        (by rw [openDefs_len]; exact i4)
      rw [openDefs_len] at this
      simp only [← Nat.add_assoc] at this ⊢
      exact this
  | _, _, _, .letNil h, m, hn => by
      simp only [openT, openDefs, Defs.len, Nat.add_zero]
      exact .letNil (Par.subst hW hD hu i hi h m hn)
  | _, _, _, .neg h, m, hn => by
      simp only [openT]
      exact .neg (Par.subst hW hD hu i hi h m hn)
  | _, _, _, .negLit _ _, _, _ => .negLit _ _
  | _, _, _, .bin op h1 h2, m, hn => by
      simp only [openT]
      exact .bin op (Par.subst hW hD hu i hi h1 m hn) (Par.subst hW hD hu i hi h2 m hn)
  | _, _, _, .arith _ op x y r h, m, _ => by
      rw [(delta_closed h).2]
      exact .arith _ op x y r h
  | _, _, _, .ite h1 h2 h3, m, hn => by
      simp only [openT]
      exact .ite (Par.subst hW hD hu i hi h1 m hn) (Par.subst hW hD hu i hi h2 m hn)
        (Par.subst hW hD hu i hi h3 m hn)
  | _, _, _, .iteT h1 h2, m, hn => by
      simp only [openT]
      exact .iteT (Par.subst hW hD hu i hi h1 m hn) (Par.subst hW hD hu i hi h2 m hn)
  | _, _, _, .iteF h1 h2, m, hn => by
      simp only [openT]
      exact .iteF (Par.subst hW hD hu i hi h1 m hn) (Par.subst hW hD hu i hi h2 m hn)
theorem ParDefs.subst (hW : DWF Δ) (hD : DHF Δ) {N : Nat} {u u' : Tm} (hu : Par Δ N u u') (i : Nat)
    (hi : i ≤ N) : ∀ {n : Nat} {t t' : Defs}, ParDefs Δ n t t' → ∀ (m : Nat), n = m + N + 1 →
    ParDefs Δ (m + N) (openDefs t (i + m) u m) (openDefs t' (i + m) u' m)
  | _, _, _, .nil _, _, _ => .nil _
  | _, _, _, .cons x h1 h2 h3, m, hn => by
      simp only [openDefs]
      exact .cons x (Par.subst hW hD hu i hi h1 m hn) (Par.subst hW hD hu i hi h2 m hn)
        (ParDefs.subst hW hD hu i hi h3 m hn)
end


theorem Par.unfoldC (hW : DWF Δ) (hD : DHF Δ) (x : Name) {N idx : Nat} {a a' d d' : Tm}
    (ha : Par Δ (N + idx + 1) a a') (hd : Par Δ (N + idx + 1) d d') :
    Par Δ (N + idx) (unfoldDef x a d idx) (unfoldDef x a' d' idx) := by
  have inner : ∀ {t t' : Tm}, Par Δ (N + idx + 1) t t' →
      Par Δ (N + idx + 1) (openT (ushift 0 1 t) (idx + 1) (Tm.var x 0) 0)
        (openT (ushift 0 1 t') (idx + 1) (Tm.var x 0) 0) := by
    intro t t' h
    have h1 := Par.shift hW hD 1 h 0 (Nat.zero_le _)
    have := Par.subst hW hD (Par.var (Δ := Δ) (N + idx + 1) x 0) (idx + 1) (by omega) h1 0 (by omega)
    simpa using this
  have hL : Par Δ (N + idx)
      (.letg (.cons x (openT (ushift 0 1 a) (idx + 1) (Tm.var x 0) 0)
        (openT (ushift 0 1 d) (idx + 1) (Tm.var x 0) 0) .nil) (Tm.var x 0))
      (.letg (.cons x (openT (ushift 0 1 a') (idx + 1) (Tm.var x 0) 0)
        (openT (ushift 0 1 d') (idx + 1) (Tm.var x 0) 0) .nil) (Tm.var x 0)) :=
    .letg (.cons x (inner ha) (inner hd) (.nil _)) (.var _ _ _)
  have := Par.subst hW hD hL idx (by omega) hd 0 (by omega)
  simpa [_root_.unfoldDef] using this

/-! ## complete development -/

def appC (f cf ca : Tm) : Tm :=
  match f with
  | .lam .. => (match cf with
      | .lam _ _ _ cb => openT cb 0 ca 0
      | _ => .app cf ca)
  | _ => .app cf ca

def negC (a ca : Tm) : Tm :=
  match a with
  | .lit k => .lit (-k)
  | _ => .neg ca

def binC (op : BinOp) (a b ca cb : Tm) : Tm :=
  match a, b with
  | .lit x, .lit y => (match delta op x y with
      | some r => r
      | none => .bin op ca cb)
  | _, _ => .bin op ca cb

def letC (cds : Defs) (cb : Tm) : Tm :=
  match cds with
  | .nil => cb
  | .cons x a d r => .letg (openDefs r r.len (unfoldDef x a d r.len) 0) (openT cb r.len (unfoldDef x a d r.len) 0)

mutual
def cd (Δ : DCtxX) : Nat → Tm → Tm
  | n, .var x i =>
      if n ≤ i then
        match Δ[i - n]? with
        | some (some (d, off)) => ushift 0 (i + 1 - off) d
        | _ => .var x i
      else .var x i
  | n, .lam x im d b => .lam x im (cd Δ n d) (cd Δ (n+1) b)
  | n, .pi x im d b => .pi x im (cd Δ n d) (cd Δ (n+1) b)
  | n, .app f a => appC f (cd Δ n f) (cd Δ n a)
  | n, .letg ds b => letC (cdDefs Δ (n + ds.len) ds) (cd Δ (n + ds.len) b)
  | n, .neg a => negC a (cd Δ n a)
  | n, .bin op a b => binC op a b (cd Δ n a) (cd Δ n b)
  | n, .ite c a b =>
      match c with
      | .tt => cd Δ n a
      | .ff => cd Δ n b
      | _ => .ite (cd Δ n c) (cd Δ n a) (cd Δ n b)
  | _, t => t
def cdDefs (Δ : DCtxX) : Nat → Defs → Defs
  | _, .nil => .nil
  | n, .cons x a d r => .cons x (cd Δ n a) (cd Δ n d) (cdDefs Δ n r)
end

theorem cdDefs_len (Δ : DCtxX) (n : Nat) : ∀ (ds : Defs), (cdDefs Δ n ds).len = ds.len
  | .nil => rfl
  | .cons _ _ _ r => by simp only [cdDefs, Defs.len, cdDefs_len Δ n r]


mutual
theorem Par.tri (hW : DWF Δ) (hD : DHF Δ) : ∀ {n : Nat} {t t' : Tm}, Par Δ n t t' →
    Par Δ n t' (cd Δ n t)
  | _, _, _, .type _ => by simp only [cd]; exact .type _
  | _, _, _, .int _ => by simp only [cd]; exact .int _
  | _, _, _, .bool _ => by simp only [cd]; exact .bool _
  | _, _, _, .tt _ => by simp only [cd]; exact .tt _
  | _, _, _, .ff _ => by simp only [cd]; exact .ff _
  | _, _, _, .lit _ _ => by simp only [cd]; exact .lit _ _
  | _, _, _, .var n x i => by
      simp only [cd]
      split
      · next hni =>
        split
        · next d off hΔ => exact .delta n x i d off hni hΔ
        · exact .var _ _ _
      · exact .var _ _ _
  | _, _, _, .delta n x i d off hni hΔ => by
      simp only [cd]
      rw [if_pos hni, hΔ]
      exact Par.refl _ _ (by rw [ushift_holeFree]; exact hD _ (List.mem_of_getElem? hΔ) d off rfl)
  | _, _, _, .lam x im h1 h2 => by
      simp only [cd]
      exact .lam x im (Par.tri hW hD h1) (Par.tri hW hD h2)
  | _, _, _, .pi x im h1 h2 => by
      simp only [cd]
      exact .pi x im (Par.tri hW hD h1) (Par.tri hW hD h2)
  | _, _, _, @Par.app _ n f f' a a' h1 h2 => by
      have ih1 := Par.tri hW hD h1
      have ih2 := Par.tri hW hD h2
      simp only [cd]
      cases f
      case lam x im d b =>
        cases h1
        next d' b' hd hb =>
        simp only [cd] at ih1
        cases ih1
        next id ib =>
        simp only [appC]
        exact .beta x im id ib ih2
      all_goals (simp only [appC]; exact .app ih1 ih2)
  | _, _, _, @Par.beta _ n x im d d' b b' a a' h1 h2 h3 => by
      have ih2 := Par.tri hW hD h2
      have ih3 := Par.tri hW hD h3
      simp only [cd, appC]
      have := Par.subst hW hD ih3 0 (Nat.zero_le _) ih2 0 (by omega)
      simpa using this
  | _, _, _, @Par.letg _ n ds ds' b b' h1 h2 => by
      have ih1 := ParDefs.tri hW hD h1
      have ih2 := Par.tri hW hD h2
      simp only [cd]
      cases ds
      case nil =>
        cases h1
        simp only [cdDefs, letC]
        simp only [Defs.len, Nat.add_zero] at ih2
        exact .letNil ih2
      case cons x a d r =>
        cases h1
        next a' d' r' ha hd hr =>
        simp only [cdDefs] at ih1
        cases ih1
        next ia id ir =>
        simp only [cdDefs, letC, cdDefs_len, Defs.len]
        have hl := ParDefs.len hr
        have := Par.letStep (Δ := Δ) (n := n) x (r := r') (a := a') (d := d') (b := b')
          (a' := cd Δ (n + (r.len + 1)) a) (d' := cd Δ (n + (r.len + 1)) d)
          (r' := cdDefs Δ (n + (r.len + 1)) r) (b' := cd Δ (n + (r.len + 1)) b)
          (by rw [hl]; exact ia) (by rw [hl]; exact id) (by rw [hl]; exact ir) (by rw [hl]; exact ih2)
        rw [hl] at this
        exact this
  | _, _, _, @Par.letStep _ n x a a' d d' r r' b b' h1 h2 h3 h4 => by
      have ih1 := Par.tri hW hD h1
      have ih2 := Par.tri hW hD h2
      have ih3 := ParDefs.tri hW hD h3
      have ih4 := Par.tri hW hD h4
      have hl := ParDefs.len h3
      simp only [cd, cdDefs, letC, cdDefs_len, Defs.len]
      have hU := Par.unfoldC hW hD x (N := n) (idx := r.len) ih1 ih2
      refine .letg ?_ ?_
      · rw [openDefs_len, hl]
        have := ParDefs.subst hW hD hU r.len (by omega) ih3 0 (by omega)
        simpa [Nat.add_assoc] using this
      · rw [openDefs_len, hl]
        have := Par.subst hW hD hU r.len (by omega) ih4 0 (by omega)
        simpa [Nat.add_assoc] using this
  | _, _, _, .letNil h => by
      have ih := Par.tri hW hD h
      simp only [cd, cdDefs, letC, Defs.len, Nat.add_zero]
      exact ih
  | _, _, _, @Par.neg _ n a a' h => by
      have ih := Par.tri hW hD h
      simp only [cd]
      cases a
      case lit k =>
        cases h
        simp only [negC]
        exact .negLit _ _
      all_goals (simp only [negC]; exact .neg ih)
  | _, _, _, .negLit _ _ => by simp only [cd, negC]; exact .lit _ _
  | _, _, _, @Par.bin _ n op a a' b b' h1 h2 => by
      have ih1 := Par.tri hW hD h1
      have ih2 := Par.tri hW hD h2
      simp only [cd]
      cases a
      case lit x =>
        cases b
        case lit y =>
          cases h1
          cases h2
          simp only [binC]
          split
          · next r hr => exact .arith _ op x y r hr
          · exact .bin op ih1 ih2
        all_goals (simp only [binC]; exact .bin op ih1 ih2)
      all_goals (simp only [binC]; exact .bin op ih1 ih2)
  | _, _, _, .arith _ op x y r h => by
      simp only [cd, binC, h]
      exact Par.refl _ _ (delta_holeFree h)
  | _, _, _, @Par.ite _ n c c' a a' b b' h1 h2 h3 => by
      have ih1 := Par.tri hW hD h1
      have ih2 := Par.tri hW hD h2
      have ih3 := Par.tri hW hD h3
      cases c
      case tt => cases h1; simp only [cd]; exact .iteT ih2 ih3
      case ff => cases h1; simp only [cd]; exact .iteF ih2 ih3
      all_goals (simp only [cd] at ih1 ⊢; exact .ite ih1 ih2 ih3)
  | _, _, _, .iteT h1 h2 => by simp only [cd]; exact Par.tri hW hD h1
  | _, _, _, .iteF h1 h2 => by simp only [cd]; exact Par.tri hW hD h2
theorem ParDefs.tri (hW : DWF Δ) (hD : DHF Δ) : ∀ {n : Nat} {t t' : Defs}, ParDefs Δ n t t' →
    ParDefs Δ n t' (cdDefs Δ n t)
  | _, _, _, .nil _ => by simp only [cdDefs]; exact .nil _
  | _, _, _, .cons x h1 h2 h3 => by
      simp only [cdDefs]
      exact .cons x (Par.tri hW hD h1) (Par.tri hW hD h2) (ParDefs.tri hW hD h3)
end


theorem Par.diamond (hW : DWF Δ) (hD : DHF Δ) {n : Nat} {t t1 t2 : Tm} (h1 : Par Δ n t t1)
    (h2 : Par Δ n t t2) : ∃ t3, Par Δ n t1 t3 ∧ Par Δ n t2 t3 :=
  ⟨cd Δ n t, Par.tri hW hD h1, Par.tri hW hD h2⟩

theorem ParDefs.diamond (hW : DWF Δ) (hD : DHF Δ) {n : Nat} {t t1 t2 : Defs} (h1 : ParDefs Δ n t t1)
    (h2 : ParDefs Δ n t t2) : ∃ t3, ParDefs Δ n t1 t3 ∧ ParDefs Δ n t2 t3 :=
  ⟨cdDefs Δ n t, ParDefs.tri hW hD h1, ParDefs.tri hW hD h2⟩

/-! ## reflexive-transitive closure, confluence, joinability -/

inductive Pars (Δ : DCtxX) (n : Nat) : Tm → Tm → Prop
  | refl (t : Tm) : Pars Δ n t t
  | tail {a b c : Tm} : Pars Δ n a b → Par Δ n b c → Pars Δ n a c

inductive ParsDefs (Δ : DCtxX) (n : Nat) : Defs → Defs → Prop
  | refl (t : Defs) : ParsDefs Δ n t t
  | tail {a b c : Defs} : ParsDefs Δ n a b → ParDefs Δ n b c → ParsDefs Δ n a c

theorem Pars.single {n : Nat} {a b : Tm} (h : Par Δ n a b) : Pars Δ n a b := .tail (.refl _) h
theorem ParsDefs.single {n : Nat} {a b : Defs} (h : ParDefs Δ n a b) : ParsDefs Δ n a b :=
  .tail (.refl _) h

theorem Pars.trans {n : Nat} {a b c : Tm} (h1 : Pars Δ n a b) (h2 : Pars Δ n b c) : Pars Δ n a c := by
  induction h2 with
  | refl => exact h1
  | tail _ hp ih => exact .tail ih hp
theorem ParsDefs.trans {n : Nat} {a b c : Defs} (h1 : ParsDefs Δ n a b) (h2 : ParsDefs Δ n b c) :
    ParsDefs Δ n a c := by
  induction h2 with
  | refl => exact h1
  | tail _ hp ih => exact .tail ih hp

theorem Pars.cast {n m : Nat} {t t' : Tm} (e : n = m) (h : Pars Δ n t t') : Pars Δ m t t' := e ▸ h

theorem Pars.hf (hD : DHF Δ) {n : Nat} {a b : Tm} (h : Pars Δ n a b) (ha : a.holeFree = true) :
    b.holeFree = true := by
  induction h with
  | refl => exact ha
  | tail _ hp _ => exact Par.hfR hD hp
theorem ParsDefs.hf (hD : DHF Δ) {n : Nat} {a b : Defs} (h : ParsDefs Δ n a b)
    (ha : a.holeFree = true) : b.holeFree = true := by
  induction h with
  | refl => exact ha
  | tail _ hp _ => exact ParDefs.hfR hD hp
theorem ParsDefs.len {n : Nat} {a b : Defs} (h : ParsDefs Δ n a b) : b.len = a.len := by
  induction h with
  | refl => rfl
  | tail _ hp ih => rw [ParDefs.len hp, ih]

theorem Pars.strip (hW : DWF Δ) (hD : DHF Δ) {n : Nat} {t t1 t2 : Tm} (h1 : Par Δ n t t1)
    (h2 : Pars Δ n t t2) : ∃ t3, Pars Δ n t1 t3 ∧ Par Δ n t2 t3 := by
  induction h2 with
  | refl => exact ⟨t1, .refl _, h1⟩
  | tail _ hp ih =>
    obtain ⟨t3, h3, h4⟩ := ih
    obtain ⟨t4, h5, h6⟩ := Par.diamond hW hD h4 hp
    exact ⟨t4, .tail h3 h5, h6⟩

theorem Pars.confluence (hW : DWF Δ) (hD : DHF Δ) {n : Nat} {t t1 t2 : Tm} (h1 : Pars Δ n t t1)
    (h2 : Pars Δ n t t2) : ∃ t3, Pars Δ n t1 t3 ∧ Pars Δ n t2 t3 := by
  induction h1 with
  | refl => exact ⟨t2, h2, .refl _⟩
  | tail _ hp ih =>
    obtain ⟨t3, h3, h4⟩ := ih
    obtain ⟨t4, h5, h6⟩ := Pars.strip hW hD hp h3
    exact ⟨t4, h5, .tail h4 h6⟩

theorem ParsDefs.strip (hW : DWF Δ) (hD : DHF Δ) {n : Nat} {t t1 t2 : Defs} (h1 : ParDefs Δ n t t1)
    (h2 : ParsDefs Δ n t t2) : ∃ t3, ParsDefs Δ n t1 t3 ∧ ParDefs Δ n t2 t3 := by
  induction h2 with
  | refl => exact ⟨t1, .refl _, h1⟩
  | tail _ hp ih =>
    obtain ⟨t3, h3, h4⟩ := ih
    obtain ⟨t4, h5, h6⟩ := ParDefs.diamond hW hD h4 hp
    exact ⟨t4, .tail h3 h5, h6⟩

theorem ParsDefs.confluence (hW : DWF Δ) (hD : DHF Δ) {n : Nat} {t t1 t2 : Defs}
    (h1 : ParsDefs Δ n t t1) (h2 : ParsDefs Δ n t t2) :
    ∃ t3, ParsDefs Δ n t1 t3 ∧ ParsDefs Δ n t2 t3 := by
  induction h1 with
  | refl => exact ⟨t2, h2, .refl _⟩
  | tail _ hp ih =>
    obtain ⟨t3, h3, h4⟩ := ih
    obtain ⟨t4, h5, h6⟩ := ParsDefs.strip hW hD hp h3
    exact ⟨t4, h5, .tail h4 h6⟩

/-- two terms have a common reduct -/
def Join (Δ : DCtxX) (n : Nat) (a b : Tm) : Prop := ∃ c, Pars Δ n a c ∧ Pars Δ n b c
def JoinDefs (Δ : DCtxX) (n : Nat) (a b : Defs) : Prop := ∃ c, ParsDefs Δ n a c ∧ ParsDefs Δ n b c

theorem Join.refl (n : Nat) (a : Tm) : Join Δ n a a := ⟨a, .refl _, .refl _⟩
theorem Join.symm {n : Nat} {a b : Tm} (h : Join Δ n a b) : Join Δ n b a := by
  obtain ⟨c, h1, h2⟩ := h
  exact ⟨c, h2, h1⟩
theorem Join.trans (hW : DWF Δ) (hD : DHF Δ) {n : Nat} {a b c : Tm} (h1 : Join Δ n a b)
    (h2 : Join Δ n b c) : Join Δ n a c := by
  obtain ⟨x, h3, h4⟩ := h1
  obtain ⟨y, h5, h6⟩ := h2
  obtain ⟨z, h7, h8⟩ := Pars.confluence hW hD h4 h5
  exact ⟨z, h3.trans h7, h6.trans h8⟩
theorem Join.of_pars {n : Nat} {a b : Tm} (h : Pars Δ n a b) : Join Δ n a b := ⟨b, h, .refl _⟩
theorem Join.of_par {n : Nat} {a b : Tm} (h : Par Δ n a b) : Join Δ n a b := .of_pars (.single h)
theorem Join.cast {n m : Nat} {t t' : Tm} (e : n = m) (h : Join Δ n t t') : Join Δ m t t' := e ▸ h

theorem JoinDefs.refl (n : Nat) (a : Defs) : JoinDefs Δ n a a := ⟨a, .refl _, .refl _⟩

/-! ## congruences for `Pars` -/

theorem Pars.map {n m : Nat} (F : Tm → Tm) (hF : ∀ a a', Par Δ n a a' → Par Δ m (F a) (F a'))
    {a a' : Tm} (h : Pars Δ n a a') : Pars Δ m (F a) (F a') := by
  induction h with
  | refl => exact .refl _
  | tail _ hp ih => exact .tail ih (hF _ _ hp)

theorem Pars.mapD {n m : Nat} (F : Tm → Defs) (hF : ∀ a a', Par Δ n a a' → ParDefs Δ m (F a) (F a'))
    {a a' : Tm} (h : Pars Δ n a a') : ParsDefs Δ m (F a) (F a') := by
  induction h with
  | refl => exact .refl _
  | tail _ hp ih => exact .tail ih (hF _ _ hp)

theorem ParsDefs.map {n m : Nat} (F : Defs → Tm) (hF : ∀ a a', ParDefs Δ n a a' → Par Δ m (F a) (F a'))
    {a a' : Defs} (h : ParsDefs Δ n a a') : Pars Δ m (F a) (F a') := by
  induction h with
  | refl => exact .refl _
  | tail _ hp ih => exact .tail ih (hF _ _ hp)

theorem ParsDefs.mapD {n m : Nat} (F : Defs → Defs)
    (hF : ∀ a a', ParDefs Δ n a a' → ParDefs Δ m (F a) (F a'))
    {a a' : Defs} (h : ParsDefs Δ n a a') : ParsDefs Δ m (F a) (F a') := by
  induction h with
  | refl => exact .refl _
  | tail _ hp ih => exact .tail ih (hF _ _ hp)

section Cong
variable (hD : DHF Δ)
include hD

theorem Pars.lam {n : Nat} (x : Name) (im : Bool) {d d' b b' : Tm} (hd : d.holeFree = true)
    (hb : b.holeFree = true) (h1 : Pars Δ n d d') (h2 : Pars Δ (n+1) b b') :
    Pars Δ n (.lam x im d b) (.lam x im d' b') :=
  (Pars.map (fun t => .lam x im t b) (fun _ _ h => .lam x im h (Par.refl b _ hb)) h1).trans
    (Pars.map (fun t => .lam x im d' t) (fun _ _ h => .lam x im (Par.refl d' _ (h1.hf hD hd)) h) h2)

theorem Pars.pi {n : Nat} (x : Name) (im : Bool) {d d' b b' : Tm} (hd : d.holeFree = true)
    (hb : b.holeFree = true) (h1 : Pars Δ n d d') (h2 : Pars Δ (n+1) b b') :
    Pars Δ n (.pi x im d b) (.pi x im d' b') :=
  (Pars.map (fun t => .pi x im t b) (fun _ _ h => .pi x im h (Par.refl b _ hb)) h1).trans
    (Pars.map (fun t => .pi x im d' t) (fun _ _ h => .pi x im (Par.refl d' _ (h1.hf hD hd)) h) h2)

theorem Pars.app {n : Nat} {f f' a a' : Tm} (hf : f.holeFree = true)
    (ha : a.holeFree = true) (h1 : Pars Δ n f f') (h2 : Pars Δ n a a') :
    Pars Δ n (.app f a) (.app f' a') :=
  (Pars.map (fun t => .app t a) (fun _ _ h => .app h (Par.refl a _ ha)) h1).trans
    (Pars.map (fun t => .app f' t) (fun _ _ h => .app (Par.refl f' _ (h1.hf hD hf)) h) h2)

omit hD in
theorem Pars.neg {n : Nat} {a a' : Tm} (h1 : Pars Δ n a a') : Pars Δ n (.neg a) (.neg a') :=
  Pars.map (fun t => .neg t) (fun _ _ h => .neg h) h1

theorem Pars.bin {n : Nat} (op : BinOp) {f f' a a' : Tm} (hf : f.holeFree = true)
    (ha : a.holeFree = true) (h1 : Pars Δ n f f') (h2 : Pars Δ n a a') :
    Pars Δ n (.bin op f a) (.bin op f' a') :=
  (Pars.map (fun t => .bin op t a) (fun _ _ h => .bin op h (Par.refl a _ ha)) h1).trans
    (Pars.map (fun t => .bin op f' t) (fun _ _ h => .bin op (Par.refl f' _ (h1.hf hD hf)) h) h2)

theorem Pars.ite {n : Nat} {c c' a a' b b' : Tm} (hc : c.holeFree = true) (ha : a.holeFree = true)
    (hb : b.holeFree = true) (h1 : Pars Δ n c c') (h2 : Pars Δ n a a') (h3 : Pars Δ n b b') :
    Pars Δ n (.ite c a b) (.ite c' a' b') :=
  ((Pars.map (fun t => .ite t a b) (fun _ _ h => .ite h (Par.refl a _ ha) (Par.refl b _ hb)) h1).trans
    (Pars.map (fun t => .ite c' t b)
      (fun _ _ h => .ite (Par.refl c' _ (h1.hf hD hc)) h (Par.refl b _ hb)) h2)).trans
    (Pars.map (fun t => .ite c' a' t)
      (fun _ _ h => .ite (Par.refl c' _ (h1.hf hD hc)) (Par.refl a' _ (h2.hf hD ha)) h) h3)

theorem ParsDefs.cons {n : Nat} (x : Name) {a a' d d' : Tm} {r r' : Defs} (ha : a.holeFree = true)
    (hd : d.holeFree = true) (hr : r.holeFree = true) (h1 : Pars Δ n a a') (h2 : Pars Δ n d d')
    (h3 : ParsDefs Δ n r r') : ParsDefs Δ n (.cons x a d r) (.cons x a' d' r') :=
  ((Pars.mapD (fun t => .cons x t d r)
      (fun _ _ h => .cons x h (Par.refl d _ hd) (ParDefs.refl r _ hr)) h1).trans
    (Pars.mapD (fun t => .cons x a' t r)
      (fun _ _ h => .cons x (Par.refl a' _ (h1.hf hD ha)) h (ParDefs.refl r _ hr)) h2)).trans
    (ParsDefs.mapD (fun t => .cons x a' d' t)
      (fun _ _ h => .cons x (Par.refl a' _ (h1.hf hD ha)) (Par.refl d' _ (h2.hf hD hd)) h) h3)

theorem Pars.letg {n : Nat} {ds ds' : Defs} {b b' : Tm} (hds : ds.holeFree = true)
    (hb : b.holeFree = true) (h1 : ParsDefs Δ (n + ds.len) ds ds') (h2 : Pars Δ (n + ds.len) b b') :
    Pars Δ n (.letg ds b) (.letg ds' b') := by
  have s1 : Pars Δ n (.letg ds b) (.letg ds' b) := by
    clear h2
    induction h1 with
    | refl => exact .refl _
    | @tail m1 m2 hm hp ih =>
      refine .tail ih (.letg ?_ ?_)
      · rw [ParsDefs.len hm]; exact hp
      · rw [ParsDefs.len hm]; exact Par.refl b _ hb
  refine s1.trans ?_
  have hl := ParsDefs.len h1
  have hds' := h1.hf hD hds
  refine Pars.map (n := n + ds.len) (fun t => .letg ds' t) (fun _ _ h => .letg ?_ ?_) h2
  · rw [hl]; exact ParDefs.refl ds' _ hds'
  · rw [hl]; exact h

end Cong

end CCPar
