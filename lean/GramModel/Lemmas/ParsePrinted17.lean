import GramModel.Lemmas.ParsePrinted16

/-! # Stage A complete: the three re-association passes on the parsed tree of a printed term -/

namespace PModel
open RewriteMore PrintDerives

/-! ## The applications pass on a chain, with the structure of the result -/

/-- `res` is the left-nested application of `h` to `l` (any ranges and flags on the new nodes) -/
inductive LApp : Src → List Src → Src → Prop
  | nil (h : Src) : LApp h [] h
  | cons {h x : Src} {l : List Src} {res : Src} (r : SourceRange) (g : Bool) :
      LApp (.mk r g (.app h x) []) l res → LApp h (x :: l) res

def LRes : Option Src → List Src → Src → Prop
  | none, [], _ => False
  | none, x :: l, s1 => LApp x l s1
  | some a, l, s1 => LApp a l s1

theorem LApp.ok23 {h : Src} {l : List Src} {res : Src} (hl : LApp h l res) :
    OK23 h → (∀ x ∈ l, OK23 x) → OK23 res := by
  induction hl with
  | nil h => exact fun hh _ => hh
  | cons r g _ ih =>
    intro hh hx
    refine ih ?_ (fun y hy => hx y (by simp [hy]))
    rw [OK23, OK23V]
    exact ⟨hh, hx _ (by simp)⟩

theorem reassoc_chainS {s : Src} {l : List Src} (hc : IsChain s l) :
    ∀ (l' : List Src), Ops l l' →
      ∀ acc : Option (Src × Link), (acc = none ∨ ∃ ac, acc = some (ac, Link.app)) →
        ∃ s1, reassoc .applications acc s = some s1 ∧ LRes (acc.map (·.1)) l' s1 := by
  induction hc with
  | one x =>
    intro l' hl acc hacc
    cases hl with
    | cons hx hnil =>
      cases hnil
      obtain ⟨hop, hx'⟩ := hx
      rw [hop acc, hx']
      rcases hacc with rfl | ⟨ac, rfl⟩
      · exact ⟨_, rfl, .nil _⟩
      · exact ⟨_, rfl, .cons _ _ (.nil _)⟩
  | cons r es x rest y l0 hrest ih =>
    intro l' hl acc hacc
    cases hl with
    | cons hx hl1 =>
      rename_i x' l1'
      obtain ⟨hop, hx'⟩ := hx
      rw [reassoc]
      simp only [if_true, Bool.and_false, Bool.false_eq_true, if_false]
      by_cases hg : rest.group = true
      · have hlast : rest = y ∧ l0 = [] := by
          cases hrest with
          | one _ => exact ⟨rfl, rfl⟩
          | cons _ _ _ _ _ _ _ => simp [Src.group] at hg
        obtain ⟨rfl, rfl⟩ := hlast
        cases hl1 with
        | cons hy hnil =>
          cases hnil
          obtain ⟨_, hy'⟩ := hy
          simp only [hg, if_true]
          rcases hacc with rfl | ⟨ac, rfl⟩
          · simp only [hx', hy']
            exact ⟨_, rfl, .cons _ _ (.nil _)⟩
          · simp only [hop (some (ac, Link.app)), hx', hy', Option.map_some]
            exact ⟨_, rfl, .cons _ _ (.cons _ _ (.nil _))⟩
      · simp only [hg, hx']
        rcases hacc with rfl | ⟨ac, rfl⟩
        · obtain ⟨s1, h1, h2⟩ := ih l1' hl1 (some (x', Link.app)) (Or.inr ⟨_, rfl⟩)
          exact ⟨s1, h1, h2⟩
        · obtain ⟨s1, h1, h2⟩ := ih l1' hl1
            (some (Src.mk (span ac.range x.range) true (Link.app.build ac x') [], Link.app))
            (Or.inr ⟨_, rfl⟩)
          exact ⟨s1, h1, .cons _ _ h2⟩

/-! ## The strengthened result of the applications pass on a subtree -/

/-- the applications pass succeeds on `x`; the result is `E` up to ranges, flags and errors, is fully
parenthesised, and a binary-operator root keeps its `group` flag -/
def Res2 (x E : Src) : Prop :=
  ∃ x1, reassoc .applications none x = some x1 ∧ strip x1 = E ∧ OK23 x1 ∧
    isBinV x.variant = isBinV E.variant ∧ (isBinV x.variant = true → x1.group = x.group)

theorem OK23_of_variant {a b : Src} (h : a.variant = b.variant) : OK23 a ↔ OK23 b := by
  obtain ⟨_, _, va, _⟩ := a
  obtain ⟨_, _, vb, _⟩ := b
  simp only [Src.variant] at h
  subst h
  rw [OK23, OK23]

theorem reassoc_apps_bin_group {r : SourceRange} {g : Bool} {o : BinOp} {a b : Src} {es : List PErr}
    {s' : Src} (h : reassoc .applications none (.mk r g (.bin o a b) es) = some s') :
    s'.group = g := by
  rw [reassoc] at h
  simp only [reduceCtorEq, false_and, or_self, if_false] at h
  cases ha : reassoc .applications none a <;> cases hb : reassoc .applications none b <;>
    simp [ha, hb, reassocTail] at h
  subst h; rfl

theorem Res2.flag {r r' : SourceRange} {g g' : Bool} {v : SrcV} {es es' : List PErr} {E : Src}
    (h : Res2 (.mk r g v es) E) : Res2 (.mk r' g' v es') E := by
  obtain ⟨s1, h1, hs, hok, hK, _⟩ := h
  have := reassoc_top .applications r r' g g' v es es'
  rw [h1] at this
  cases h' : reassoc .applications none (.mk r' g' v es') with
  | none => rw [h'] at this; cases this
  | some x1 =>
    rw [h'] at this
    simp only [Option.map_some, Option.some.injEq] at this
    refine ⟨x1, h', by rw [strip_eq_of_variant this, hs], (OK23_of_variant this).mpr hok, hK, ?_⟩
    intro hb
    cases v <;> simp [isBinV, Src.variant] at hb
    exact reassoc_apps_bin_group h'

theorem Res2.of_setG {e E : Src} (ih : ∀ s, shape s = e → Res2 s E) {x : Src}
    (h : shape x = setG e) : Res2 x E := by
  obtain ⟨r, g, v, es⟩ := x
  obtain ⟨re, ge, ve, ese⟩ := e
  simp only [shape, setG, Src.mk.injEq] at h
  obtain ⟨hr, _, hv, hes⟩ := h
  exact (ih (.mk r ge v es) (by simp [shape, hr, hv, hes])).flag

theorem Res2.at23 {x E : Src} (h : Res2 x E) (hx : x.group = true ∨ isBinV E.variant = false) :
    ∀ x1, reassoc .applications none x = some x1 → At23 x1 := by
  obtain ⟨x1, h1, hs, _, hK, hG⟩ := h
  intro x1' h1'
  rw [h1] at h1'
  cases h1'
  have hk : isBinV x1.variant = isBinV E.variant := by rw [← hs, isBinV_strip]
  rcases hx with hx | hx
  · by_cases hb : isBinV x1.variant = true
    · left
      rw [hG (by rw [hK, ← hk]; exact hb)]; exact hx
    · right; simpa using hb
  · right; rw [hk]; exact hx

/-- operands with their expected stripped results -/
inductive AtomsRes2 : List Src → List Src → Prop
  | nil : AtomsRes2 [] []
  | cons {x e : Src} {l E : List Src} : Opaque .applications x → Res2 x e → AtomsRes2 l E →
      AtomsRes2 (x :: l) (e :: E)

theorem AtomsRes2.append {l1 l2 E1 E2 : List Src} (h1 : AtomsRes2 l1 E1) (h2 : AtomsRes2 l2 E2) :
    AtomsRes2 (l1 ++ l2) (E1 ++ E2) := by
  induction h1 with
  | nil => exact h2
  | cons ho hr _ ih => exact .cons ho hr ih

theorem AtomsRes2.ops {l E : List Src} (h : AtomsRes2 l E) :
    ∃ l', Ops l l' ∧ l'.map strip = E ∧ ∀ x' ∈ l', OK23 x' := by
  induction h with
  | nil => exact ⟨[], .nil, rfl, fun _ h => by cases h⟩
  | cons ho hr _ ih =>
    obtain ⟨l', h1, h2, h3⟩ := ih
    obtain ⟨x1, hx, hs, hok, _⟩ := hr
    refine ⟨x1 :: l', .cons ⟨ho, hx⟩ h1, by simp [hs, h2], ?_⟩
    intro y hy
    rcases List.mem_cons.mp hy with rfl | hy
    · exact hok
    · exact h3 y hy

end PModel
