import GramModel.Print

/-! Lemmas about the printer model: the store layer agrees with the pure layer on hole-free terms
(whatever the store, given fuel proportional to the size of the term); index erasure. -/

theorem Tm.size_pos : ∀ (t : Tm), 0 < t.size
  | .hole .. | .type | .int | .bool | .tt | .ff | .lit _ | .var .. => by simp [Tm.size]
  | .lam .. | .pi .. | .app .. | .letg .. | .neg _ | .bin .. | .ite .. => by simp [Tm.size]

/-! ## `freeAtS` on hole-free terms -/

mutual
theorem freeAtS_holeFree : ∀ (t : Tm) (f : Nat) (σ : List (Option Tm)) (i : Nat),
    t.holeFree = true → t.size ≤ f → freeAtS f σ t i = some (freeAt t i)
  | t, 0, _, _, _, hs => by have := Tm.size_pos t; omega
  | .hole _ _, _+1, _, _, h, _ => by simp [Tm.holeFree] at h
  | .type, _+1, _, _, _, _ | .int, _+1, _, _, _, _ | .bool, _+1, _, _, _, _ | .tt, _+1, _, _, _, _
  | .ff, _+1, _, _, _, _ | .lit _, _+1, _, _, _, _ => by simp [freeAtS, freeAt]
  | .var _ j, _+1, _, i, _, _ => by simp [freeAtS, freeAt]
  | .lam _ _ d b, f+1, σ, i, h, hs => by
      simp [Tm.holeFree] at h; simp [Tm.size] at hs
      simp [freeAtS, freeAt, orO, freeAtS_holeFree d f σ i h.1 (by omega),
        freeAtS_holeFree b f σ (i+1) h.2 (by omega)]
  | .pi _ _ d b, f+1, σ, i, h, hs => by
      simp [Tm.holeFree] at h; simp [Tm.size] at hs
      simp [freeAtS, freeAt, orO, freeAtS_holeFree d f σ i h.1 (by omega),
        freeAtS_holeFree b f σ (i+1) h.2 (by omega)]
  | .app g a, f+1, σ, i, h, hs => by
      simp [Tm.holeFree] at h; simp [Tm.size] at hs
      simp [freeAtS, freeAt, orO, freeAtS_holeFree g f σ i h.1 (by omega),
        freeAtS_holeFree a f σ i h.2 (by omega)]
  | .letg ds b, f+1, σ, i, h, hs => by
      simp [Tm.holeFree] at h; simp [Tm.size] at hs
      have := Tm.size_pos b
      simp [freeAtS, freeAt, orO, freeAtDefsS_holeFree ds f σ (i + ds.len) h.1 (by omega),
        freeAtS_holeFree b f σ (i + ds.len) h.2 (by omega)]
  | .neg a, f+1, σ, i, h, hs => by
      simp [Tm.holeFree] at h; simp [Tm.size] at hs
      simp [freeAtS, freeAt, freeAtS_holeFree a f σ i h (by omega)]
  | .bin _ a b, f+1, σ, i, h, hs => by
      simp [Tm.holeFree] at h; simp [Tm.size] at hs
      simp [freeAtS, freeAt, orO, freeAtS_holeFree a f σ i h.1 (by omega),
        freeAtS_holeFree b f σ i h.2 (by omega)]
  | .ite a b d, f+1, σ, i, h, hs => by
      simp [Tm.holeFree] at h; simp [Tm.size] at hs
      simp [freeAtS, freeAt, orO, freeAtS_holeFree a f σ i h.1.1 (by omega),
        freeAtS_holeFree b f σ i h.1.2 (by omega), freeAtS_holeFree d f σ i h.2 (by omega)]
theorem freeAtDefsS_holeFree : ∀ (ds : Defs) (f : Nat) (σ : List (Option Tm)) (i : Nat),
    ds.holeFree = true → ds.size + 1 ≤ f → freeAtDefsS f σ ds i = some (freeAtDefs ds i)
  | _, 0, _, _, _, hs => by omega
  | .nil, _+1, _, _, _, _ => by simp [freeAtDefsS, freeAtDefs]
  | .cons _ a d r, f+1, σ, i, h, hs => by
      simp [Defs.holeFree] at h; simp [Defs.size] at hs
      simp [freeAtDefsS, freeAtDefs, orO, freeAtS_holeFree a f σ i h.1.1 (by omega),
        freeAtS_holeFree d f σ i h.1.2 (by omega), freeAtDefsS_holeFree r f σ i h.2 (by omega)]
end

/-! ## One-step unfoldings of the store layer -/

section unfold
variable (nm : Name → List Char) (σ : List (Option Tm)) (f : Nat)

theorem printS_lam (x imp d b) : printS nm σ (f+1) (.lam x imp d b) =
    map2O (lamText imp (nm x)) (annotS nm σ f d) (printS nm σ f b) := by simp only [printS]
theorem printS_pi (x imp d c) : printS nm σ (f+1) (.pi x imp d c) =
    (match freeAtS f σ c 0 with
     | none => none
     | some true => map2O (piDepText imp (nm x)) (annotS nm σ f d) (printS nm σ f c)
     | some false =>
        if imp then map2O piImpText (printS nm σ f d) (printS nm σ f c)
        else map2O arrowText (headS nm σ f d) (printS nm σ f c)) := by
  simp only [printS]
  cases freeAtS f σ c 0 with
  | none => rfl
  | some b => cases b <;> rfl
theorem printS_app (g a) : printS nm σ (f+1) (.app g a) =
    map2O appText (headS nm σ f g) (groupS nm σ f a) := by simp only [printS]
theorem printS_letg (ds b) : printS nm σ (f+1) (.letg ds b) =
    map2O (· ++ ·) (printDefsS nm σ f ds) (printS nm σ f b) := by simp only [printS]
theorem printS_neg (a) : printS nm σ (f+1) (.neg a) = (groupS nm σ f a).map negText := by
  simp only [printS]
theorem printS_bin (op a b) : printS nm σ (f+1) (.bin op a b) =
    map2O (binText op) (groupS nm σ f a) (groupS nm σ f b) := by simp only [printS]
theorem printS_ite (c a b) : printS nm σ (f+1) (.ite c a b) =
    map3O iteText (printS nm σ f c) (printS nm σ f a) (printS nm σ f b) := by simp only [printS]
theorem printS_hole (id s) : printS nm σ (f+1) (.hole id s) =
    (match σ[id]? with
     | some (some sub) => printS nm σ f sub
     | _ => some holeText) := by
  simp only [printS]
  cases σ[id]? with
  | none => rfl
  | some c => cases c <;> rfl
theorem printDefsS_cons (x a d r) : printDefsS nm σ (f+1) (.cons x a d r) =
    map3O (fun a' d' r' => defText (nm x) a' d' ++ r')
      (groupS nm σ f a) (groupS nm σ f d) (printDefsS nm σ f r) := by simp only [printDefsS]
theorem groupS_hole (id s) : groupS nm σ (f+1) (.hole id s) =
    (match σ[id]? with
     | some (some sub) => groupS nm σ f sub
     | _ => printS nm σ f (.hole id s)) := by
  simp only [groupS]
  cases σ[id]? with
  | none => rfl
  | some c => cases c <;> rfl
theorem annotS_hole (id s) : annotS nm σ (f+1) (.hole id s) =
    (match σ[id]? with
     | some (some sub) => annotS nm σ f sub
     | _ => printS nm σ f (.hole id s)) := by
  simp only [annotS]
  cases σ[id]? with
  | none => rfl
  | some c => cases c <;> rfl

end unfold

/-! ## `group`, `annotation` and the head test, given the text of the term itself -/

theorem groupS_of (nm : Name → List Char) (σ : List (Option Tm)) (t : Tm) (f : Nat)
    (h : t.holeFree = true) (hp : printS nm σ f t = some (printTm nm t)) :
    groupS nm σ (f+1) t = some (groupP nm t) := by
  cases t <;> first | (simp [Tm.holeFree] at h; done) | simp [groupS, groupP, hp]

theorem annotS_of (nm : Name → List Char) (σ : List (Option Tm)) (t : Tm) (f : Nat)
    (h : t.holeFree = true) (hp : printS nm σ f t = some (printTm nm t)) :
    annotS nm σ (f+1) t = some (annotP nm t) := by
  cases t <;> first | (simp [Tm.holeFree] at h; done) | simp [annotS, annotP, hp]

/-- fuel `f+2`: one for the head test, one for `group` -/
theorem headS_of (nm : Name → List Char) (σ : List (Option Tm)) (t : Tm) (f : Nat)
    (h : t.holeFree = true) (hp : ∀ g, f ≤ g → printS nm σ g t = some (printTm nm t)) :
    headS nm σ (f+2) t = some (headP nm t) := by
  cases t <;>
    first
    | (simp [Tm.holeFree] at h; done)
    | (simp [headS, headP, wrapHead, hp (f+1) (by omega)]; done)
    | (simp [headS, headP, wrapHead, groupS_of nm σ _ f h (hp f (Nat.le_refl f)), groupP])

/-! ## The store layer agrees with the pure layer on hole-free terms -/

mutual
theorem printS_holeFree (nm : Name → List Char) : ∀ (t : Tm) (f : Nat) (σ : List (Option Tm)),
    t.holeFree = true → 2 * t.size ≤ f → printS nm σ f t = some (printTm nm t)
  | t, 0, _, _, hs => by have := Tm.size_pos t; omega
  | .hole _ _, _+1, _, h, _ => by simp [Tm.holeFree] at h
  | .type, _+1, _, _, _ | .int, _+1, _, _, _ | .bool, _+1, _, _, _ | .tt, _+1, _, _, _
  | .ff, _+1, _, _, _ | .lit _, _+1, _, _, _ | .var _ _, _+1, _, _, _ => by simp [printS, printTm]
  | .lam x imp d b, f+1, σ, h, hs => by
      simp [Tm.holeFree] at h; simp [Tm.size] at hs
      obtain ⟨f', rfl⟩ : ∃ f', f = f' + 1 := ⟨f - 1, by omega⟩
      have hd := annotS_of nm σ d f' h.1 (printS_holeFree nm d f' σ h.1 (by omega))
      have hb := printS_holeFree nm b (f'+1) σ h.2 (by omega)
      rw [printS_lam, hd, hb]; simp [printTm, map2O, annotP]
  | .pi x imp d c, f+1, σ, h, hs => by
      simp [Tm.holeFree] at h; simp [Tm.size] at hs
      have := Tm.size_pos d
      have := Tm.size_pos c
      obtain ⟨f', rfl⟩ : ∃ f', f = f' + 2 := ⟨f - 2, by omega⟩
      have hfree := freeAtS_holeFree c (f'+2) σ 0 h.2 (by omega)
      have hd := annotS_of nm σ d (f'+1) h.1 (printS_holeFree nm d (f'+1) σ h.1 (by omega))
      have hd' := printS_holeFree nm d (f'+2) σ h.1 (by omega)
      have hh := headS_of nm σ d f' h.1 (fun g hg => printS_holeFree nm d g σ h.1 (by omega))
      have hc := printS_holeFree nm c (f'+2) σ h.2 (by omega)
      rw [printS_pi, hfree, hd, hd', hh, hc]
      cases hfa : freeAt c 0 <;> cases imp <;> simp [printTm, map2O, hfa, annotP, headP]
  | .app g a, f+1, σ, h, hs => by
      simp [Tm.holeFree] at h; simp [Tm.size] at hs
      have := Tm.size_pos g
      have := Tm.size_pos a
      obtain ⟨f', rfl⟩ : ∃ f', f = f' + 2 := ⟨f - 2, by omega⟩
      have hg := headS_of nm σ g f' h.1 (fun k hk => printS_holeFree nm g k σ h.1 (by omega))
      have ha := groupS_of nm σ a (f'+1) h.2 (printS_holeFree nm a (f'+1) σ h.2 (by omega))
      rw [printS_app, hg, ha]; simp [printTm, map2O, headP, groupP]
  | .letg ds b, f+1, σ, h, hs => by
      simp [Tm.holeFree] at h; simp [Tm.size] at hs
      have hds := printDefsS_holeFree nm ds f σ h.1 (by omega)
      have hb := printS_holeFree nm b f σ h.2 (by omega)
      rw [printS_letg, hds, hb]; simp [printTm, map2O]
  | .neg a, f+1, σ, h, hs => by
      simp [Tm.holeFree] at h; simp [Tm.size] at hs
      obtain ⟨f', rfl⟩ : ∃ f', f = f' + 1 := ⟨f - 1, by omega⟩
      have ha := groupS_of nm σ a f' h (printS_holeFree nm a f' σ h (by omega))
      rw [printS_neg, ha]; simp [printTm, groupP]
  | .bin op a b, f+1, σ, h, hs => by
      simp [Tm.holeFree] at h; simp [Tm.size] at hs
      obtain ⟨f', rfl⟩ : ∃ f', f = f' + 1 := ⟨f - 1, by omega⟩
      have ha := groupS_of nm σ a f' h.1 (printS_holeFree nm a f' σ h.1 (by omega))
      have hb := groupS_of nm σ b f' h.2 (printS_holeFree nm b f' σ h.2 (by omega))
      rw [printS_bin, ha, hb]; simp [printTm, map2O, groupP]
  | .ite c a b, f+1, σ, h, hs => by
      simp [Tm.holeFree] at h; simp [Tm.size] at hs
      have hc := printS_holeFree nm c f σ h.1.1 (by omega)
      have ha := printS_holeFree nm a f σ h.1.2 (by omega)
      have hb := printS_holeFree nm b f σ h.2 (by omega)
      rw [printS_ite, hc, ha, hb]; simp [printTm, map3O]
theorem printDefsS_holeFree (nm : Name → List Char) : ∀ (ds : Defs) (f : Nat) (σ : List (Option Tm)),
    ds.holeFree = true → 2 * ds.size + 1 ≤ f → printDefsS nm σ f ds = some (printDefs nm ds)
  | _, 0, _, _, hs => by omega
  | .nil, _+1, _, _, _ => by simp [printDefsS, printDefs]
  | .cons x a d r, f+1, σ, h, hs => by
      simp [Defs.holeFree] at h; simp [Defs.size] at hs
      obtain ⟨f', rfl⟩ : ∃ f', f = f' + 1 := ⟨f - 1, by omega⟩
      have ha := groupS_of nm σ a f' h.1.1 (printS_holeFree nm a f' σ h.1.1 (by omega))
      have hd := groupS_of nm σ d f' h.1.2 (printS_holeFree nm d f' σ h.1.2 (by omega))
      have hr := printDefsS_holeFree nm r (f'+1) σ h.2 (by omega)
      rw [printDefsS_cons, ha, hd, hr]; simp [printDefs, map3O, groupP]
end

theorem groupS_holeFree (nm : Name → List Char) (σ : List (Option Tm)) (t : Tm) (f : Nat)
    (h : t.holeFree = true) (hs : 2 * t.size + 1 ≤ f) : groupS nm σ f t = some (groupP nm t) := by
  obtain ⟨f', rfl⟩ : ∃ f', f = f' + 1 := ⟨f - 1, by omega⟩
  exact groupS_of nm σ t f' h (printS_holeFree nm t f' σ h (by omega))

theorem annotS_holeFree (nm : Name → List Char) (σ : List (Option Tm)) (t : Tm) (f : Nat)
    (h : t.holeFree = true) (hs : 2 * t.size + 1 ≤ f) : annotS nm σ f t = some (annotP nm t) := by
  obtain ⟨f', rfl⟩ : ∃ f', f = f' + 1 := ⟨f - 1, by omega⟩
  exact annotS_of nm σ t f' h (printS_holeFree nm t f' σ h (by omega))

/-! ## Index erasure -/

theorem atomic_eraseIdx (t : Tm) : atomic (eraseIdx t) = atomic t := by
  cases t <;> rfl

theorem wrapGroup_eraseIdx (t : Tm) : wrapGroup (eraseIdx t) = wrapGroup t := by
  funext s; simp [wrapGroup, atomic_eraseIdx]

theorem wrapHead_eraseIdx (t : Tm) : wrapHead (eraseIdx t) = wrapHead t := by
  funext s
  cases t <;> rfl

theorem wrapAnnot_eraseIdx (t : Tm) : wrapAnnot (eraseIdx t) = wrapAnnot t := by
  funext s
  cases t <;> rfl

theorem wrapGroup_congr {t u : Tm} (h : eraseIdx t = eraseIdx u) : wrapGroup t = wrapGroup u := by
  rw [← wrapGroup_eraseIdx t, h, wrapGroup_eraseIdx]
theorem wrapHead_congr {t u : Tm} (h : eraseIdx t = eraseIdx u) : wrapHead t = wrapHead u := by
  rw [← wrapHead_eraseIdx t, h, wrapHead_eraseIdx]
theorem wrapAnnot_congr {t u : Tm} (h : eraseIdx t = eraseIdx u) : wrapAnnot t = wrapAnnot u := by
  rw [← wrapAnnot_eraseIdx t, h, wrapAnnot_eraseIdx]

mutual
theorem printTm_eraseIdx (nm : Name → List Char) : ∀ (t : Tm), noPi t = true →
    printTm nm (eraseIdx t) = printTm nm t
  | .hole .., _ | .type, _ | .int, _ | .bool, _ | .tt, _ | .ff, _ | .lit _, _ | .var .., _ => by
      simp [eraseIdx, printTm]
  | .pi .., h => by simp [noPi] at h
  | .lam x im d b, h => by
      simp [noPi] at h
      simp [eraseIdx, printTm, wrapAnnot_eraseIdx, printTm_eraseIdx nm d h.1, printTm_eraseIdx nm b h.2]
  | .app f a, h => by
      simp [noPi] at h
      simp [eraseIdx, printTm, wrapHead_eraseIdx, wrapGroup_eraseIdx, printTm_eraseIdx nm f h.1,
        printTm_eraseIdx nm a h.2]
  | .letg ds b, h => by
      simp [noPi] at h
      simp [eraseIdx, printTm, printDefs_eraseIdx nm ds h.1, printTm_eraseIdx nm b h.2]
  | .neg a, h => by
      simp [noPi] at h
      simp [eraseIdx, printTm, wrapGroup_eraseIdx, printTm_eraseIdx nm a h]
  | .bin op a b, h => by
      simp [noPi] at h
      simp [eraseIdx, printTm, wrapGroup_eraseIdx, printTm_eraseIdx nm a h.1, printTm_eraseIdx nm b h.2]
  | .ite c a b, h => by
      simp [noPi] at h
      simp [eraseIdx, printTm, printTm_eraseIdx nm c h.1.1, printTm_eraseIdx nm a h.1.2,
        printTm_eraseIdx nm b h.2]
theorem printDefs_eraseIdx (nm : Name → List Char) : ∀ (ds : Defs), noPiDefs ds = true →
    printDefs nm (eraseIdxDefs ds) = printDefs nm ds
  | .nil, _ => by simp [eraseIdxDefs]
  | .cons x a d r, h => by
      simp [noPiDefs] at h
      simp [eraseIdxDefs, printDefs, wrapGroup_eraseIdx, printTm_eraseIdx nm a h.1.1,
        printTm_eraseIdx nm d h.1.2, printDefs_eraseIdx nm r h.2]
end

/-! The general form: the only thing the printer reads off the indices is the verdict
"the bound variable occurs in the codomain" of every function type. -/

mutual
theorem printTm_congr (nm : Name → List Char) : ∀ (t u : Tm), eraseIdx t = eraseIdx u →
    sameDeps t u = true → printTm nm t = printTm nm u
  | .hole .., u, h, _ => by cases u <;> simp [eraseIdx] at h <;> simp [printTm]
  | .type, u, h, _ => by cases u <;> simp [eraseIdx] at h <;> simp [printTm]
  | .int, u, h, _ => by cases u <;> simp [eraseIdx] at h <;> simp [printTm]
  | .bool, u, h, _ => by cases u <;> simp [eraseIdx] at h <;> simp [printTm]
  | .tt, u, h, _ => by cases u <;> simp [eraseIdx] at h <;> simp [printTm]
  | .ff, u, h, _ => by cases u <;> simp [eraseIdx] at h <;> simp [printTm]
  | .lit _, u, h, _ => by cases u <;> simp [eraseIdx] at h <;> simp [printTm, h]
  | .var .., u, h, _ => by cases u <;> simp [eraseIdx] at h <;> simp [printTm, h]
  | .lam x im d b, u, h, hd => by
      cases u <;> simp [eraseIdx] at h
      rename_i y jm d' b'
      obtain ⟨rfl, rfl, h1, h2⟩ := h
      simp [sameDeps] at hd
      simp [printTm, wrapAnnot_congr h1, printTm_congr nm d d' h1 hd.1, printTm_congr nm b b' h2 hd.2]
  | .pi x im d c, u, h, hd => by
      cases u <;> simp [eraseIdx] at h
      rename_i y jm d' c'
      obtain ⟨rfl, rfl, h1, h2⟩ := h
      simp [sameDeps] at hd
      simp [printTm, hd.1.1, wrapAnnot_congr h1, wrapHead_congr h1, printTm_congr nm d d' h1 hd.1.2,
        printTm_congr nm c c' h2 hd.2]
  | .app f a, u, h, hd => by
      cases u <;> simp [eraseIdx] at h
      rename_i f' a'
      obtain ⟨h1, h2⟩ := h
      simp [sameDeps] at hd
      simp [printTm, wrapHead_congr h1, wrapGroup_congr h2, printTm_congr nm f f' h1 hd.1,
        printTm_congr nm a a' h2 hd.2]
  | .letg ds b, u, h, hd => by
      cases u <;> simp [eraseIdx] at h
      rename_i ds' b'
      obtain ⟨h1, h2⟩ := h
      simp [sameDeps] at hd
      simp [printTm, printDefs_congr nm ds ds' h1 hd.1, printTm_congr nm b b' h2 hd.2]
  | .neg a, u, h, hd => by
      cases u <;> simp [eraseIdx] at h
      rename_i a'
      simp [sameDeps] at hd
      simp [printTm, wrapGroup_congr h, printTm_congr nm a a' h hd]
  | .bin op a b, u, h, hd => by
      cases u <;> simp [eraseIdx] at h
      rename_i op' a' b'
      obtain ⟨rfl, h1, h2⟩ := h
      simp [sameDeps] at hd
      simp [printTm, wrapGroup_congr h1, wrapGroup_congr h2, printTm_congr nm a a' h1 hd.1,
        printTm_congr nm b b' h2 hd.2]
  | .ite c a b, u, h, hd => by
      cases u <;> simp [eraseIdx] at h
      rename_i c' a' b'
      obtain ⟨h0, h1, h2⟩ := h
      simp [sameDeps] at hd
      simp [printTm, printTm_congr nm c c' h0 hd.1.1, printTm_congr nm a a' h1 hd.1.2,
        printTm_congr nm b b' h2 hd.2]
theorem printDefs_congr (nm : Name → List Char) : ∀ (ds es : Defs), eraseIdxDefs ds = eraseIdxDefs es →
    sameDepsDefs ds es = true → printDefs nm ds = printDefs nm es
  | .nil, es, h, _ => by cases es <;> simp [eraseIdxDefs] at h <;> rfl
  | .cons x a d r, es, h, hd => by
      cases es <;> simp [eraseIdxDefs] at h
      rename_i y a' d' r'
      obtain ⟨rfl, h1, h2, h3⟩ := h
      simp [sameDepsDefs] at hd
      simp [printDefs, wrapGroup_congr h1, wrapGroup_congr h2, printTm_congr nm a a' h1 hd.1.1,
        printTm_congr nm d d' h2 hd.1.2, printDefs_congr nm r r' h3 hd.2]
end
