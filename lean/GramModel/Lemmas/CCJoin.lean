import GramModel.Lemmas.CCPar

/-!
# Joinability: change of context, substitution, congruences, stability of weak head normal forms,
and `Conv ⊆ Join` on erasures (C05)
-/

namespace CCPar

open CCSubst WhnfLemmas

/-! ## change of context -/

/-- every definition of `Δ` (under `n` binders) is a definition of `Δ'` (under `n'` binders) at the
same absolute index -/
def CtxSub (Δ : DCtxX) (n : Nat) (Δ' : DCtxX) (n' : Nat) : Prop :=
  ∀ j d off, Δ[j]? = some (some (d, off)) → ∃ j', j + n = j' + n' ∧ Δ'[j']? = some (some (d, off))

theorem CtxSub.add {Δ Δ' : DCtxX} {n n' : Nat} (h : CtxSub Δ n Δ' n') (k : Nat) :
    CtxSub Δ (n + k) Δ' (n' + k) := by
  intro j d off hj
  obtain ⟨j', e, h'⟩ := h j d off hj
  exact ⟨j', by omega, h'⟩

mutual
theorem Par.mono {Δ Δ' : DCtxX} : ∀ {n : Nat} {t t' : Tm}, Par Δ n t t' → ∀ (n' : Nat),
    CtxSub Δ n Δ' n' → Par Δ' n' t t'
  | _, _, _, .type _, _, _ => .type _
  | _, _, _, .int _, _, _ => .int _
  | _, _, _, .bool _, _, _ => .bool _
  | _, _, _, .tt _, _, _ => .tt _
  | _, _, _, .ff _, _, _ => .ff _
  | _, _, _, .lit _ _, _, _ => .lit _ _
  | _, _, _, .var _ _ _, _, _ => .var _ _ _
  | _, _, _, .delta n x i d off hni hΔ, n', H => by
      obtain ⟨j', e, h'⟩ := H _ d off hΔ
      refine .delta n' x i d off (by omega) ?_
      rw [show i - n' = j' by omega]
      exact h'
  | _, _, _, .lam x im h1 h2, n', H => .lam x im (Par.mono h1 n' H) (Par.mono h2 (n'+1) (H.add 1))
  | _, _, _, .pi x im h1 h2, n', H => .pi x im (Par.mono h1 n' H) (Par.mono h2 (n'+1) (H.add 1))
  | _, _, _, .app h1 h2, n', H => .app (Par.mono h1 n' H) (Par.mono h2 n' H)
  | _, _, _, .beta x im h1 h2 h3, n', H =>
      .beta x im (Par.mono h1 n' H) (Par.mono h2 (n'+1) (H.add 1)) (Par.mono h3 n' H)
  | _, _, _, .letg h1 h2, n', H => .letg (ParDefs.mono h1 _ (H.add _)) (Par.mono h2 _ (H.add _))
  | _, _, _, @Par.letStep _ n x a a' d d' r r' b b' h1 h2 h3 h4, n', H => by
      have H' : CtxSub Δ (n + r.len + 1) Δ' (n' + r.len + 1) := (H.add r.len).add 1
      exact .letStep x (Par.mono h1 _ H') (Par.mono h2 _ H') (ParDefs.mono h3 _ H') (Par.mono h4 _ H')
  | _, _, _, .letNil h, n', H => .letNil (Par.mono h n' H)
  | _, _, _, .neg h, n', H => .neg (Par.mono h n' H)
  | _, _, _, .negLit _ _, _, _ => .negLit _ _
  | _, _, _, .bin op h1 h2, n', H => .bin op (Par.mono h1 n' H) (Par.mono h2 n' H)
  | _, _, _, .arith _ op x y r h, _, _ => .arith _ op x y r h
  | _, _, _, .ite h1 h2 h3, n', H => .ite (Par.mono h1 n' H) (Par.mono h2 n' H) (Par.mono h3 n' H)
  | _, _, _, .iteT h1 h2, n', H => .iteT (Par.mono h1 n' H) (Par.mono h2 n' H)
  | _, _, _, .iteF h1 h2, n', H => .iteF (Par.mono h1 n' H) (Par.mono h2 n' H)
theorem ParDefs.mono {Δ Δ' : DCtxX} : ∀ {n : Nat} {t t' : Defs}, ParDefs Δ n t t' → ∀ (n' : Nat),
    CtxSub Δ n Δ' n' → ParDefs Δ' n' t t'
  | _, _, _, .nil _, _, _ => .nil _
  | _, _, _, .cons x h1 h2 h3, n', H =>
      .cons x (Par.mono h1 n' H) (Par.mono h2 n' H) (ParDefs.mono h3 n' H)
end

theorem Pars.mono {Δ Δ' : DCtxX} {n n' : Nat} (H : CtxSub Δ n Δ' n') {t t' : Tm}
    (h : Pars Δ n t t') : Pars Δ' n' t t' := by
  induction h with
  | refl => exact .refl _
  | tail _ hp ih => exact .tail ih (Par.mono hp n' H)

theorem Join.mono {Δ Δ' : DCtxX} {n n' : Nat} (H : CtxSub Δ n Δ' n') {t t' : Tm}
    (h : Join Δ n t t') : Join Δ' n' t t' := by
  obtain ⟨c, h1, h2⟩ := h
  exact ⟨c, h1.mono H, h2.mono H⟩

/-- `k` opaque entries on top of the context are `k` more binders -/
theorem ctxSub_push (Δ : DCtxX) (n k : Nat) : CtxSub (List.replicate k none ++ Δ) n Δ (n + k) := by
  intro j d off hj
  by_cases hjk : j < k
  · rw [List.getElem?_append_left (by simpa using hjk)] at hj
    simp [hjk] at hj
  · rw [List.getElem?_append_right (by simpa using hjk)] at hj
    simp only [List.length_replicate] at hj
    exact ⟨j - k, by omega, hj⟩

theorem ctxSub_pop (Δ : DCtxX) (n k : Nat) : CtxSub Δ (n + k) (List.replicate k none ++ Δ) n := by
  intro j d off hj
  refine ⟨j + k, by omega, ?_⟩
  rw [List.getElem?_append_right (by simp)]
  simpa using hj

theorem Join.push1 {Δ : DCtxX} {n : Nat} {a b : Tm} (h : Join (none :: Δ) n a b) : Join Δ (n + 1) a b :=
  h.mono (ctxSub_push Δ n 1)
theorem Join.pop1 {Δ : DCtxX} {n : Nat} {a b : Tm} (h : Join Δ (n + 1) a b) : Join (none :: Δ) n a b :=
  h.mono (ctxSub_pop Δ n 1)


/-! ## substitution and lifting for `Pars` / `Join` -/

section Subst
variable {Δ : DCtxX} (hW : DWF Δ) (hD : DHF Δ)
include hW hD

theorem Pars.subst {N : Nat} {u u' : Tm} (hu : Pars Δ N u u') (huf : u.holeFree = true) (i : Nat)
    (hi : i ≤ N) {m : Nat} {t t' : Tm} (ht : Pars Δ (m + N + 1) t t') (htf : t.holeFree = true) :
    Pars Δ (m + N) (openT t (i + m) u m) (openT t' (i + m) u' m) := by
  have s1 : Pars Δ (m + N) (openT t (i + m) u m) (openT t' (i + m) u m) :=
    Pars.map (fun x => openT x (i + m) u m)
      (fun _ _ h => Par.subst hW hD (Par.refl u N huf) i hi h m rfl) ht
  refine s1.trans ?_
  have ht' := ht.hf hD htf
  exact Pars.map (fun x => openT t' (i + m) x m)
    (fun _ _ h => Par.subst hW hD h i hi (Par.refl t' _ ht') m rfl) hu

theorem ParsDefs.subst {N : Nat} {u u' : Tm} (hu : Pars Δ N u u') (huf : u.holeFree = true) (i : Nat)
    (hi : i ≤ N) {m : Nat} {t t' : Defs} (ht : ParsDefs Δ (m + N + 1) t t') (htf : t.holeFree = true) :
    ParsDefs Δ (m + N) (openDefs t (i + m) u m) (openDefs t' (i + m) u' m) := by
  have s1 : ParsDefs Δ (m + N) (openDefs t (i + m) u m) (openDefs t' (i + m) u m) :=
    ParsDefs.mapD (fun x => openDefs x (i + m) u m)
      (fun _ _ h => ParDefs.subst hW hD (Par.refl u N huf) i hi h m rfl) ht
  refine s1.trans ?_
  have ht' := ht.hf hD htf
  exact Pars.mapD (fun x => openDefs t' (i + m) x m)
    (fun _ _ h => ParDefs.subst hW hD h i hi (ParDefs.refl t' _ ht') m rfl) hu

theorem Join.subst {N : Nat} {u u' : Tm} (hu : Join Δ N u u') (huf : u.holeFree = true)
    (huf' : u'.holeFree = true) (i : Nat) (hi : i ≤ N) {m : Nat} {t t' : Tm}
    (ht : Join Δ (m + N + 1) t t') (htf : t.holeFree = true) (htf' : t'.holeFree = true) :
    Join Δ (m + N) (openT t (i + m) u m) (openT t' (i + m) u' m) := by
  obtain ⟨cu, hu1, hu2⟩ := hu
  obtain ⟨ct, ht1, ht2⟩ := ht
  exact ⟨openT ct (i + m) cu m, Pars.subst hW hD hu1 huf i hi ht1 htf,
    Pars.subst hW hD hu2 huf' i hi ht2 htf'⟩

theorem Pars.shift (k : Nat) {n : Nat} {t t' : Tm} (h : Pars Δ n t t') (c : Nat) (hc : c ≤ n) :
    Pars Δ (n + k) (ushift c k t) (ushift c k t') :=
  Pars.map (fun x => ushift c k x) (fun _ _ h => Par.shift hW hD k h c hc) h

theorem Join.shift (k : Nat) {n : Nat} {t t' : Tm} (h : Join Δ n t t') (c : Nat) (hc : c ≤ n) :
    Join Δ (n + k) (ushift c k t) (ushift c k t') := by
  obtain ⟨x, h1, h2⟩ := h
  exact ⟨ushift c k x, h1.shift hW hD k c hc, h2.shift hW hD k c hc⟩

end Subst

/-! ## congruences for `Join` -/

section JCong
variable {Δ : DCtxX} (hD : DHF Δ)
include hD

theorem Join.lam {n : Nat} (x : Name) (im : Bool) {d d' b b' : Tm} (hd : d.holeFree = true)
    (hd' : d'.holeFree = true) (hb : b.holeFree = true) (hb' : b'.holeFree = true)
    (h1 : Join Δ n d d') (h2 : Join Δ (n+1) b b') : Join Δ n (.lam x im d b) (.lam x im d' b') := by
  obtain ⟨cd, d1, d2⟩ := h1
  obtain ⟨cb, b1, b2⟩ := h2
  exact ⟨.lam x im cd cb, Pars.lam hD x im hd hb d1 b1, Pars.lam hD x im hd' hb' d2 b2⟩

theorem Join.pi {n : Nat} (x : Name) (im : Bool) {d d' b b' : Tm} (hd : d.holeFree = true)
    (hd' : d'.holeFree = true) (hb : b.holeFree = true) (hb' : b'.holeFree = true)
    (h1 : Join Δ n d d') (h2 : Join Δ (n+1) b b') : Join Δ n (.pi x im d b) (.pi x im d' b') := by
  obtain ⟨cd, d1, d2⟩ := h1
  obtain ⟨cb, b1, b2⟩ := h2
  exact ⟨.pi x im cd cb, Pars.pi hD x im hd hb d1 b1, Pars.pi hD x im hd' hb' d2 b2⟩

theorem Join.app {n : Nat} {d d' b b' : Tm} (hd : d.holeFree = true)
    (hd' : d'.holeFree = true) (hb : b.holeFree = true) (hb' : b'.holeFree = true)
    (h1 : Join Δ n d d') (h2 : Join Δ n b b') : Join Δ n (.app d b) (.app d' b') := by
  obtain ⟨cd, d1, d2⟩ := h1
  obtain ⟨cb, b1, b2⟩ := h2
  exact ⟨.app cd cb, Pars.app hD hd hb d1 b1, Pars.app hD hd' hb' d2 b2⟩

omit hD in
theorem Join.neg {n : Nat} {d d' : Tm} (h1 : Join Δ n d d') : Join Δ n (.neg d) (.neg d') := by
  obtain ⟨cd, d1, d2⟩ := h1
  exact ⟨.neg cd, Pars.neg d1, Pars.neg d2⟩

theorem Join.bin {n : Nat} (op : BinOp) {d d' b b' : Tm} (hd : d.holeFree = true)
    (hd' : d'.holeFree = true) (hb : b.holeFree = true) (hb' : b'.holeFree = true)
    (h1 : Join Δ n d d') (h2 : Join Δ n b b') : Join Δ n (.bin op d b) (.bin op d' b') := by
  obtain ⟨cd, d1, d2⟩ := h1
  obtain ⟨cb, b1, b2⟩ := h2
  exact ⟨.bin op cd cb, Pars.bin hD op hd hb d1 b1, Pars.bin hD op hd' hb' d2 b2⟩

theorem Join.ite {n : Nat} {c c' d d' b b' : Tm} (hc : c.holeFree = true) (hc' : c'.holeFree = true)
    (hd : d.holeFree = true) (hd' : d'.holeFree = true) (hb : b.holeFree = true)
    (hb' : b'.holeFree = true) (h0 : Join Δ n c c')
    (h1 : Join Δ n d d') (h2 : Join Δ n b b') : Join Δ n (.ite c d b) (.ite c' d' b') := by
  obtain ⟨cc, c1, c2⟩ := h0
  obtain ⟨cd, d1, d2⟩ := h1
  obtain ⟨cb, b1, b2⟩ := h2
  exact ⟨.ite cc cd cb, Pars.ite hD hc hd hb c1 d1 b1, Pars.ite hD hc' hd' hb' c2 d2 b2⟩

theorem JoinDefs.cons {n : Nat} (x : Name) {a a' d d' : Tm} {r r' : Defs} (ha : a.holeFree = true)
    (ha' : a'.holeFree = true) (hd : d.holeFree = true) (hd' : d'.holeFree = true)
    (hr : r.holeFree = true) (hr' : r'.holeFree = true) (h0 : Join Δ n a a') (h1 : Join Δ n d d')
    (h2 : JoinDefs Δ n r r') : JoinDefs Δ n (.cons x a d r) (.cons x a' d' r') := by
  obtain ⟨ca, a1, a2⟩ := h0
  obtain ⟨cd, d1, d2⟩ := h1
  obtain ⟨cr, r1, r2⟩ := h2
  exact ⟨.cons x ca cd cr, ParsDefs.cons hD x ha hd hr a1 d1 r1, ParsDefs.cons hD x ha' hd' hr' a2 d2 r2⟩

theorem Join.letg {n : Nat} {ds ds' : Defs} {b b' : Tm} (hds : ds.holeFree = true)
    (hds' : ds'.holeFree = true) (hb : b.holeFree = true) (hb' : b'.holeFree = true)
    (hl : ds'.len = ds.len)
    (h1 : JoinDefs Δ (n + ds.len) ds ds') (h2 : Join Δ (n + ds.len) b b') :
    Join Δ n (.letg ds b) (.letg ds' b') := by
  obtain ⟨cd, d1, d2⟩ := h1
  obtain ⟨cb, b1, b2⟩ := h2
  refine ⟨.letg cd cb, Pars.letg hD hds hb d1 b1, Pars.letg hD hds' hb' ?_ ?_⟩
  · rw [hl]; exact d2
  · rw [hl]; exact b2

end JCong


/-! ## weak head normal forms are stable under reduction -/

inductive Whnf (Δ : DCtxX) (n : Nat) : Tm → Prop
  | type : Whnf Δ n .type
  | int : Whnf Δ n .int
  | bool : Whnf Δ n .bool
  | tt : Whnf Δ n .tt
  | ff : Whnf Δ n .ff
  | lit (k : Int) : Whnf Δ n (.lit k)
  | lam (x : Name) (im : Bool) (d b : Tm) : Whnf Δ n (.lam x im d b)
  | pi (x : Name) (im : Bool) (d b : Tm) : Whnf Δ n (.pi x im d b)
  | var (x : Name) (i : Nat) : (∀ d off, n ≤ i → Δ[i - n]? ≠ some (some (d, off))) →
      Whnf Δ n (.var x i)
  | app {f a : Tm} : Whnf Δ n f → (∀ x im d b, f ≠ .lam x im d b) → Whnf Δ n (.app f a)
  | neg {a : Tm} : Whnf Δ n a → (∀ k, a ≠ .lit k) → Whnf Δ n (.neg a)
  | bin {op : BinOp} {a b : Tm} : Whnf Δ n a → Whnf Δ n b →
      (∀ x y, a = .lit x → b = .lit y → delta op x y = none) → Whnf Δ n (.bin op a b)
  | ite {c a b : Tm} : Whnf Δ n c → c ≠ .tt → c ≠ .ff → Whnf Δ n (.ite c a b)

/-- a parallel step that keeps the head constructor -/
inductive ParH (Δ : DCtxX) (n : Nat) : Tm → Tm → Prop
  | type : ParH Δ n .type .type
  | int : ParH Δ n .int .int
  | bool : ParH Δ n .bool .bool
  | tt : ParH Δ n .tt .tt
  | ff : ParH Δ n .ff .ff
  | lit (k : Int) : ParH Δ n (.lit k) (.lit k)
  | var (x : Name) (i : Nat) : ParH Δ n (.var x i) (.var x i)
  | lam (x : Name) (im : Bool) {d d' b b' : Tm} : Par Δ n d d' → Par Δ (n+1) b b' →
      ParH Δ n (.lam x im d b) (.lam x im d' b')
  | pi (x : Name) (im : Bool) {d d' b b' : Tm} : Par Δ n d d' → Par Δ (n+1) b b' →
      ParH Δ n (.pi x im d b) (.pi x im d' b')
  | app {f f' a a' : Tm} : Par Δ n f f' → Par Δ n a a' → ParH Δ n (.app f a) (.app f' a')
  | neg {a a' : Tm} : Par Δ n a a' → ParH Δ n (.neg a) (.neg a')
  | bin (op : BinOp) {a a' b b' : Tm} : Par Δ n a a' → Par Δ n b b' →
      ParH Δ n (.bin op a b) (.bin op a' b')
  | ite {c c' a a' b b' : Tm} : Par Δ n c c' → Par Δ n a a' → Par Δ n b b' →
      ParH Δ n (.ite c a b) (.ite c' a' b')

/-- several steps that keep the head constructor -/
inductive ParsH (Δ : DCtxX) (n : Nat) : Tm → Tm → Prop
  | type : ParsH Δ n .type .type
  | int : ParsH Δ n .int .int
  | bool : ParsH Δ n .bool .bool
  | tt : ParsH Δ n .tt .tt
  | ff : ParsH Δ n .ff .ff
  | lit (k : Int) : ParsH Δ n (.lit k) (.lit k)
  | var (x : Name) (i : Nat) : ParsH Δ n (.var x i) (.var x i)
  | lam (x : Name) (im : Bool) {d d' b b' : Tm} : Pars Δ n d d' → Pars Δ (n+1) b b' →
      ParsH Δ n (.lam x im d b) (.lam x im d' b')
  | pi (x : Name) (im : Bool) {d d' b b' : Tm} : Pars Δ n d d' → Pars Δ (n+1) b b' →
      ParsH Δ n (.pi x im d b) (.pi x im d' b')
  | app {f f' a a' : Tm} : Pars Δ n f f' → Pars Δ n a a' → ParsH Δ n (.app f a) (.app f' a')
  | neg {a a' : Tm} : Pars Δ n a a' → ParsH Δ n (.neg a) (.neg a')
  | bin (op : BinOp) {a a' b b' : Tm} : Pars Δ n a a' → Pars Δ n b b' →
      ParsH Δ n (.bin op a b) (.bin op a' b')
  | ite {c c' a a' b b' : Tm} : Pars Δ n c c' → Pars Δ n a a' → Pars Δ n b b' →
      ParsH Δ n (.ite c a b) (.ite c' a' b')

variable {Δ : DCtxX}

theorem Whnf.par {n : Nat} {w : Tm} (hw : Whnf Δ n w) : ∀ {w' : Tm}, Par Δ n w w' →
    Whnf Δ n w' ∧ ParH Δ n w w' := by
  induction hw with
  | type => intro w' h; cases h; exact ⟨.type, .type⟩
  | int => intro w' h; cases h; exact ⟨.int, .int⟩
  | bool => intro w' h; cases h; exact ⟨.bool, .bool⟩
  | tt => intro w' h; cases h; exact ⟨.tt, .tt⟩
  | ff => intro w' h; cases h; exact ⟨.ff, .ff⟩
  | lit k => intro w' h; cases h; exact ⟨.lit k, .lit k⟩
  | lam x im d b => intro w' h; cases h with | lam _ _ h1 h2 => exact ⟨.lam _ _ _ _, .lam x im h1 h2⟩
  | pi x im d b => intro w' h; cases h with | pi _ _ h1 h2 => exact ⟨.pi _ _ _ _, .pi x im h1 h2⟩
  | var x i hs =>
    intro w' h
    cases h with
    | var => exact ⟨.var x i hs, .var x i⟩
    | delta _ _ _ d off hni hΔ => exact (hs d off hni hΔ).elim
  | @app f a hf hnl ih =>
    intro w' h
    cases h with
    | app h1 h2 =>
      obtain ⟨wf, ph⟩ := ih h1
      refine ⟨.app wf ?_, .app h1 h2⟩
      intro x im d b e
      subst e
      cases ph with
      | lam _ _ _ _ => exact hnl _ _ _ _ rfl
    | beta x im _ _ _ => exact (hnl _ _ _ _ rfl).elim
  | @neg a ha hnl ih =>
    intro w' h
    cases h with
    | neg h1 =>
      obtain ⟨wa, ph⟩ := ih h1
      refine ⟨.neg wa ?_, .neg h1⟩
      intro k e
      subst e
      cases ph with
      | lit _ => exact hnl _ rfl
    | negLit _ k => exact (hnl _ rfl).elim
  | @bin op a b ha hb hnd iha ihb =>
    intro w' h
    cases h with
    | bin _ h1 h2 =>
      obtain ⟨wa, pa⟩ := iha h1
      obtain ⟨wb, pb⟩ := ihb h2
      refine ⟨.bin wa wb ?_, .bin op h1 h2⟩
      intro x y e1 e2
      subst e1 e2
      cases pa with
      | lit _ => cases pb with
        | lit _ => exact hnd _ _ rfl rfl
    | arith _ _ x y r hr =>
      have := hnd x y rfl rfl
      rw [this] at hr
      cases hr
  | @ite c a b hc h1 h2 ih =>
    intro w' h
    cases h with
    | ite g1 g2 g3 =>
      obtain ⟨wc, pc⟩ := ih g1
      refine ⟨.ite wc ?_ ?_, .ite g1 g2 g3⟩
      · intro e; subst e; cases pc; exact h1 rfl
      · intro e; subst e; cases pc; exact h2 rfl
    | iteT _ _ => exact (h1 rfl).elim
    | iteF _ _ => exact (h2 rfl).elim

theorem ParsH.refl {n : Nat} {w : Tm} (hw : Whnf Δ n w) : ParsH Δ n w w := by
  cases hw with
  | type => exact .type
  | int => exact .int
  | bool => exact .bool
  | tt => exact .tt
  | ff => exact .ff
  | lit k => exact .lit k
  | lam x im d b => exact .lam x im (.refl _) (.refl _)
  | pi x im d b => exact .pi x im (.refl _) (.refl _)
  | var x i _ => exact .var x i
  | app _ _ => exact .app (.refl _) (.refl _)
  | neg _ _ => exact .neg (.refl _)
  | bin _ _ _ => exact .bin _ (.refl _) (.refl _)
  | ite _ _ _ => exact .ite (.refl _) (.refl _) (.refl _)

theorem ParsH.tail {n : Nat} {a b c : Tm} (h1 : ParsH Δ n a b) (h2 : ParH Δ n b c) : ParsH Δ n a c := by
  cases h1 with
  | type => cases h2; exact .type
  | int => cases h2; exact .int
  | bool => cases h2; exact .bool
  | tt => cases h2; exact .tt
  | ff => cases h2; exact .ff
  | lit k => cases h2; exact .lit k
  | var x i => cases h2; exact .var x i
  | lam x im p1 p2 => cases h2 with | lam _ _ q1 q2 => exact .lam x im (.tail p1 q1) (.tail p2 q2)
  | pi x im p1 p2 => cases h2 with | pi _ _ q1 q2 => exact .pi x im (.tail p1 q1) (.tail p2 q2)
  | app p1 p2 => cases h2 with | app q1 q2 => exact .app (.tail p1 q1) (.tail p2 q2)
  | neg p1 => cases h2 with | neg q1 => exact .neg (.tail p1 q1)
  | bin op p1 p2 => cases h2 with | bin _ q1 q2 => exact .bin op (.tail p1 q1) (.tail p2 q2)
  | ite p1 p2 p3 => cases h2 with | ite q1 q2 q3 => exact .ite (.tail p1 q1) (.tail p2 q2) (.tail p3 q3)

theorem Whnf.pars {n : Nat} {w c : Tm} (hw : Whnf Δ n w) (h : Pars Δ n w c) :
    Whnf Δ n c ∧ ParsH Δ n w c := by
  induction h with
  | refl => exact ⟨hw, ParsH.refl hw⟩
  | tail _ hp ih =>
    obtain ⟨wb, ph⟩ := ih
    obtain ⟨wc, p1⟩ := wb.par hp
    exact ⟨wc, ph.tail p1⟩

/-- joinable weak head normal forms reduce, keeping their heads, to a common term -/
theorem Join.heads {n : Nat} {w1 w2 : Tm} (h1 : Whnf Δ n w1) (h2 : Whnf Δ n w2)
    (hj : Join Δ n w1 w2) : ∃ c, ParsH Δ n w1 c ∧ ParsH Δ n w2 c := by
  obtain ⟨c, p1, p2⟩ := hj
  exact ⟨c, (h1.pars p1).2, (h2.pars p2).2⟩


/-! ## conversion implies joinability of the erasures -/

theorem erD_get (Δ : DCtxX) (i : Nat) :
    (erD Δ)[i]? = (Δ[i]?).map (Option.map (fun p => (er p.1, p.2))) := by
  unfold erD
  rw [List.getElem?_map]

theorem erD_some {Δ : DCtxX} {i : Nat} {d : Tm} {off : Nat} (h : Δ[i]? = some (some (d, off))) :
    (erD Δ)[i]? = some (some (er d, off)) := by
  rw [erD_get, h]; rfl

theorem erD_some_inv {Δ : DCtxX} {i : Nat} {d : Tm} {off : Nat}
    (h : (erD Δ)[i]? = some (some (d, off))) : ∃ d0, Δ[i]? = some (some (d0, off)) ∧ d = er d0 := by
  rw [erD_get] at h
  cases e : Δ[i]? with
  | none => rw [e] at h; cases h
  | some o =>
    rw [e] at h
    cases o with
    | none => cases h
    | some p =>
      obtain ⟨d0, off0⟩ := p
      simp only [Option.map_some, Option.some.injEq, Prod.mk.injEq] at h
      obtain ⟨rfl, rfl⟩ := h
      exact ⟨d0, rfl, rfl⟩

theorem DHF_erD (Δ : DCtxX) : DHF (erD Δ) := by
  intro e he d o heq
  unfold erD at he
  rw [List.mem_map] at he
  obtain ⟨e0, _, rfl⟩ := he
  cases e0 with
  | none => cases heq
  | some p =>
    simp only [Option.map_some, Option.some.injEq, Prod.mk.injEq] at heq
    rw [← heq.1]
    exact er_holeFree _

theorem DWF_erD {Δ : DCtxX} (h : DWF Δ) : DWF (erD Δ) := by
  intro p d off hp
  obtain ⟨d0, h0, _⟩ := erD_some_inv hp
  exact h p d0 off h0

theorem erD_cons_none (Δ : DCtxX) : erD (none :: Δ) = none :: erD Δ := rfl

theorem replicate_get_some {n i : Nat} {Δ0 : DCtxX} {d : Tm} {off : Nat}
    (h : (List.replicate n (none : Option (Tm × Nat)) ++ Δ0)[i]? = some (some (d, off))) :
    n ≤ i ∧ Δ0[i - n]? = some (some (d, off)) := by
  by_cases hin : i < n
  · rw [List.getElem?_append_left (by simpa using hin)] at h
    simp [hin] at h
  · rw [List.getElem?_append_right (by simpa using hin)] at h
    simp only [List.length_replicate] at h
    exact ⟨by omega, h⟩

theorem delta_er {op : BinOp} {x y : Int} {r : Tm} (h : delta op x y = some r) : er r = r := by
  have : (∃ z, r = .lit z) ∨ r = .tt ∨ r = .ff := by
    cases op <;> simp only [delta] at h
    case quot => split at h <;> cases h; exact Or.inl ⟨_, rfl⟩
    all_goals first
      | (cases h; exact Or.inl ⟨_, rfl⟩)
      | (split at h <;> cases h <;> simp)
  rcases this with ⟨z, rfl⟩ | rfl | rfl <;> rfl

theorem red1_par {Δ : DCtxX} {a b : Tm} (h : Red1 Δ a b) (n : Nat) (Δ0 : DCtxX)
    (e : Δ = List.replicate n none ++ Δ0) : Par (erD Δ0) n (er a) (er b) := by
  cases h with
  | beta x im d body a =>
    simp only [er, er_openT]
    exact .beta 0 im (.type _) (Par.refl _ _ (er_holeFree _)) (Par.refl _ _ (er_holeFree _))
  | delta x i d off hΔ hoff =>
    subst e
    obtain ⟨hni, h0⟩ := replicate_get_some hΔ
    simp only [er, er_ushift]
    exact .delta n 0 i (er d) off hni (erD_some h0)
  | letStep x a d rest body =>
    simp only [er, erDefs, letStepX, er_openT, erDefs_openDefs, er_unfoldDef]
    have := Par.letStep (Δ := erD Δ0) (n := n) 0 (a := .type) (a' := .type) (d := er d) (d' := er d)
      (r := erDefs rest) (r' := erDefs rest) (b := er body) (b' := er body) (.type _)
      (Par.refl _ _ (er_holeFree _)) (ParDefs.refl _ _ (erDefs_holeFree _))
      (Par.refl _ _ (er_holeFree _))
    rw [erDefs_len] at this
    exact this
  | letNil body =>
    simp only [er, erDefs]
    exact .letNil (Par.refl _ _ (er_holeFree _))
  | neg k => exact .negLit _ _
  | arith op x y _ hr =>
    simp only [er]
    rw [delta_er hr]
    exact .arith _ op x y _ hr
  | iteTrue a b =>
    simp only [er]
    exact .iteT (Par.refl _ _ (er_holeFree _)) (Par.refl _ _ (er_holeFree _))
  | iteFalse a b =>
    simp only [er]
    exact .iteF (Par.refl _ _ (er_holeFree _)) (Par.refl _ _ (er_holeFree _))

theorem ConvDefs.len_eq : ∀ {Δ : DCtxX} {ds1 ds2 : Defs}, ConvDefs Δ ds1 ds2 → ds2.len = ds1.len
  | _, _, _, .nil _ => rfl
  | _, _, _, .cons _ _ _ _ hr => by simp only [Defs.len, ConvDefs.len_eq hr]

mutual
theorem conv_join : ∀ {Δ : DCtxX} {a b : Tm}, Conv Δ a b → ∀ (n : Nat) (Δ0 : DCtxX),
    Δ = List.replicate n none ++ Δ0 → DWF Δ0 → Join (erD Δ0) n (er a) (er b)
  | _, _, _, .refl _ a, n, Δ0, _, _ => Join.refl _ _
  | _, _, _, .symm h, n, Δ0, e, hW => (conv_join h n Δ0 e hW).symm
  | _, _, _, .trans h1 h2, n, Δ0, e, hW =>
      Join.trans (DWF_erD hW) (DHF_erD _) (conv_join h1 n Δ0 e hW) (conv_join h2 n Δ0 e hW)
  | _, _, _, .red h, n, Δ0, e, hW => Join.of_par (red1_par h n Δ0 e)
  | _, _, _, .same h, n, Δ0, e, hW => by rw [er_same _ _ h]; exact Join.refl _ _
  | _, _, _, .lam x y im d1 d2 h, n, Δ0, e, hW => by
      simp only [er]
      exact Join.lam (DHF_erD _) 0 im rfl rfl (er_holeFree _) (er_holeFree _) (Join.refl _ _)
        (conv_join h (n+1) Δ0 (by rw [e, List.replicate_succ]; rfl) hW)
  | _, _, _, .pi x y im h1 h2, n, Δ0, e, hW => by
      simp only [er]
      exact Join.pi (DHF_erD _) 0 im (er_holeFree _) (er_holeFree _) (er_holeFree _) (er_holeFree _)
        (conv_join h1 n Δ0 e hW) (conv_join h2 (n+1) Δ0 (by rw [e, List.replicate_succ]; rfl) hW)
  | _, _, _, .app h1 h2, n, Δ0, e, hW => by
      simp only [er]
      exact Join.app (DHF_erD _) (er_holeFree _) (er_holeFree _) (er_holeFree _) (er_holeFree _)
        (conv_join h1 n Δ0 e hW) (conv_join h2 n Δ0 e hW)
  | _, _, _, .neg h1, n, Δ0, e, hW => by
      simp only [er]
      exact Join.neg (conv_join h1 n Δ0 e hW)
  | _, _, _, .bin op h1 h2, n, Δ0, e, hW => by
      simp only [er]
      exact Join.bin (DHF_erD _) op (er_holeFree _) (er_holeFree _) (er_holeFree _) (er_holeFree _)
        (conv_join h1 n Δ0 e hW) (conv_join h2 n Δ0 e hW)
  | _, _, _, .ite h0 h1 h2, n, Δ0, e, hW => by
      simp only [er]
      exact Join.ite (DHF_erD _) (er_holeFree _) (er_holeFree _) (er_holeFree _) (er_holeFree _)
        (er_holeFree _) (er_holeFree _)
        (conv_join h0 n Δ0 e hW) (conv_join h1 n Δ0 e hW) (conv_join h2 n Δ0 e hW)
  | _, _, _, @Conv.letg Δ ds1 ds2 b1 b2 h1 h2, n, Δ0, e, hW => by
      simp only [er]
      have e' : List.replicate ds1.len none ++ Δ = List.replicate (n + ds1.len) none ++ Δ0 := by
        rw [e, ← List.append_assoc, List.replicate_append_replicate, Nat.add_comm]
      have j1 := convDefs_join h1 (n + ds1.len) Δ0 e' hW
      have j2 := conv_join h2 (n + ds1.len) Δ0 e' hW
      refine Join.letg (DHF_erD _) (erDefs_holeFree _) (erDefs_holeFree _) (er_holeFree _)
        (er_holeFree _) ?_ ?_ ?_
      · rw [erDefs_len, erDefs_len, ConvDefs.len_eq h1]
      · rw [erDefs_len]; exact j1
      · rw [erDefs_len]; exact j2
theorem convDefs_join : ∀ {Δ : DCtxX} {a b : Defs}, ConvDefs Δ a b → ∀ (n : Nat) (Δ0 : DCtxX),
    Δ = List.replicate n none ++ Δ0 → DWF Δ0 → JoinDefs (erD Δ0) n (erDefs a) (erDefs b)
  | _, _, _, .nil _, n, Δ0, _, _ => JoinDefs.refl _ _
  | _, _, _, .cons x y h1 h2 h3, n, Δ0, e, hW => by
      simp only [erDefs]
      exact JoinDefs.cons (DHF_erD _) 0 rfl rfl (er_holeFree _) (er_holeFree _) (erDefs_holeFree _)
        (erDefs_holeFree _) (Join.refl _ _) (conv_join h2 n Δ0 e hW) (convDefs_join h3 n Δ0 e hW)
end

/-- **Conversion implies joinability** (of the erasures, under the erased context). -/
theorem Conv.join {Δ : DCtxX} {a b : Tm} (h : Conv Δ a b) (hW : DWF Δ) : Join (erD Δ) 0 (er a) (er b) :=
  conv_join h 0 Δ rfl hW

end CCPar
