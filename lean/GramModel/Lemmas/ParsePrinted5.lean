import GramModel.Lemmas.ParsePrinted4

/-! # Completeness of the parser model on printed terms, part 5: the induction -/

namespace PModel
open PrintDerives

section Eqs
variable (I : List Char → Name) (nm : Name → List Char)

theorem srcOf_neg (a) : srcOf I nm (.neg a) = mk0 false (.neg (grpS I nm a)) := by
  rw [srcOf]; rfl
theorem srcOf_bin (op a b) :
    srcOf I nm (.bin op a b) = mk0 false (.bin op (grpS I nm a) (grpS I nm b)) := by
  rw [srcOf]; rfl
theorem srcOf_ite (c a b) :
    srcOf I nm (.ite c a b) = mk0 false (.ite (srcOf I nm c) (srcOf I nm a) (srcOf I nm b)) := by
  rw [srcOf]
theorem srcOf_lam (x imp d b) :
    srcOf I nm (.lam x imp d b) =
      mk0 false (.lam ⟨⟨0, 0⟩, I (nm x)⟩ imp (.some (annS I nm d)) (srcOf I nm b)) := by
  rw [srcOf]; rfl
theorem srcOf_pi_dep (x imp d c) (h : freeAt c 0 = true) :
    srcOf I nm (.pi x imp d c) =
      mk0 false (.pi ⟨⟨0, 0⟩, I (nm x)⟩ imp (annS I nm d) (srcOf I nm c)) := by
  rw [srcOf]; simp only [h, if_true]; rfl
theorem srcOf_arrow (x imp d c) (h : freeAt c 0 = false) :
    srcOf I nm (.pi x imp d c) =
      mk0 false (.pi ⟨⟨0, 0⟩, placeholder⟩ false (nestL (headAtoms I nm d)) (srcOf I nm c)) := by
  rw [srcOf]; simp only [h, Bool.false_eq_true, if_false]; rfl
theorem srcOf_letg (ds b) : srcOf I nm (.letg ds b) = srcDefs I nm ds (srcOf I nm b) := by
  rw [srcOf]
theorem srcDefs_nil (e) : srcDefs I nm .nil e = e := by rw [srcDefs]
theorem srcDefs_cons (x a d r e) :
    srcDefs I nm (.cons x a d r) e =
      mk0 false (.let_ ⟨⟨0, 0⟩, I (nm x)⟩ (.some (grpS I nm a)) (grpS I nm d)
        (srcDefs I nm r e)) := by
  rw [srcDefs]; rfl

end Eqs

section Main
variable {toks : Array PTok} {I : List Char → Name} {nm : Name → List Char}

theorem stop_noatom {b : Nat} (hf : Follow toks b stopK) : Follow toks b (fun k => !atomStartK k) :=
  hf.mono (fun k hk => by cases k <;> simp_all [stopK, atomStartK])

theorem stop_opfree {b : Nat} (hf : Follow toks b stopK) : Follow toks b opFreeK :=
  hf.mono (fun k hk => by cases k <;> simp_all [stopK, opFreeK])

theorem huge_to_giant {a : Nat} {r : PResult} (h : RetN toks .hugeTerm a r)
    (hr : r.term.isParseError = false) (hf : Follow toks r.next opFreeK) :
    RetN toks .giantTerm a r :=
  up_giant h hr (hf.not rfl) (hf.not rfl) (hf.not rfl) (hf.not rfl) (hf.not rfl)

/-- a printed operand as a `small_term` -/
theorem AtomOK.small {a b : Nat} {e : Src} (A : AtomOK toks a b e)
    (hf : Follow toks b (fun k => !atomStartK k)) :
    ∃ tr, RetN toks .smallTerm a ⟨tr, b, true⟩ ∧ shape tr = e ∧ tr.isParseError = false := by
  obtain ⟨tr, h, s⟩ := A.parses
  have r : tr.isParseError = false := by rw [← shape_pe, s]; exact A.notPE
  exact ⟨tr, up_small h r hf, s, r⟩

/-- `A op B` at the jumbo level -/
theorem bin_jumbo {op : BinOp} {a m b : Nat} {ex ey : Src} (X : AtomOK toks a m ex)
    (hop : KAt toks m (opKindP I op)) (Y : AtomOK toks (m + 1) b ey) (hf : Follow toks b stopK) :
    Parses toks .jumboTerm a b (mk0 false (.bin op ex ey)) := by
  have hopk : atomStartK (opKindP I op) = false ∧ opKindP I op ≠ .thickArrow ∧
      opKindP I op ≠ .thinArrow := by
    cases op <;> simp [opKindP, opKind, kindP, atomStartK]
  have fa : Follow toks m (fun k => !atomStartK k) := Follow.of_kat hop (by simp [hopk.1])
  have fb := stop_noatom hf
  have fo := stop_opfree hf
  obtain ⟨tx, smx, sx, rx⟩ := X.small fa
  obtain ⟨ty, smy, sy, ry⟩ := Y.small fb
  have PX := X.pre (hop.ne hopk.2.1)
  have PY := Y.pre (hf.not rfl)
  have hnd := ndpi_fail_arrow smx rx (hop.ne hopk.2.2)
  have hg : ∃ tr, RetN toks .giantTerm a ⟨tr, b, true⟩ ∧ shape tr = mk0 false (.bin op ex ey) := by
    cases op
    · have hop' : KAt toks m .plus := hop
      have lx := small_to_large smx rx PX.noMinus (hop'.ne (by decide)) (hop'.ne (by decide))
      have hy := small_to_huge smy ry PY.noMinus (fo.not rfl) (fo.not rfl) (fo.not rfl) (fo.not rfl)
      have hb := binary_ok bn_sum lx rx hop' hy
      have hh := choice_ok (A := .hugeTerm) [] [.difference, .largeTerm] rfl
        (fun _ h => by cases h) hb rfl
      exact ⟨_, huge_to_giant hh rfl fo, by simp [shape, shapeV, binOpOf, sx, sy, mk0]⟩
    · have hop' : KAt toks m .minus := hop
      have lx := small_to_large smx rx PX.noMinus (hop'.ne (by decide)) (hop'.ne (by decide))
      have hy := small_to_huge smy ry PY.noMinus (fo.not rfl) (fo.not rfl) (fo.not rfl) (fo.not rfl)
      have hb := binary_ok bn_diff lx rx hop' hy
      have hh := choice_ok (A := .hugeTerm) [.sum] [.largeTerm] rfl
        (fun X hX => by
          simp only [List.mem_cons, List.mem_nil_iff, or_false] at hX; subst hX
          exact binary_fail_op bn_sum lx rx (hop'.ne (by decide))) hb rfl
      exact ⟨_, huge_to_giant hh rfl fo, by simp [shape, shapeV, binOpOf, sx, sy, mk0]⟩
    · have hop' : KAt toks m .asterisk := hop
      have hy := small_to_large smy ry PY.noMinus (fo.not rfl) (fo.not rfl)
      have hb := binary_ok bn_prod smx rx hop' hy
      have hh := choice_ok (A := .mediumTerm) [] [.quotient, .smallTerm] rfl
        (fun _ h => by cases h) hb rfl
      exact ⟨_, large_to_giant (up_large hh rfl PX.noMinus) rfl fo,
        by simp [shape, shapeV, binOpOf, sx, sy, mk0]⟩
    · have hop' : KAt toks m .slash := hop
      have hy := small_to_large smy ry PY.noMinus (fo.not rfl) (fo.not rfl)
      have hb := binary_ok bn_quot smx rx hop' hy
      have hh := choice_ok (A := .mediumTerm) [.product] [.smallTerm] rfl
        (fun X hX => by
          simp only [List.mem_cons, List.mem_nil_iff, or_false] at hX; subst hX
          exact binary_fail_op bn_prod smx rx (hop'.ne (by decide))) hb rfl
      exact ⟨_, large_to_giant (up_large hh rfl PX.noMinus) rfl fo,
        by simp [shape, shapeV, binOpOf, sx, sy, mk0]⟩
    all_goals
      have hy := small_to_huge smy ry PY.noMinus (fo.not rfl) (fo.not rfl) (fo.not rfl) (fo.not rfl)
    · have hop' : KAt toks m .lessThan := hop
      have lx := small_to_huge smx rx PX.noMinus (hop'.ne (by decide)) (hop'.ne (by decide))
        (hop'.ne (by decide)) (hop'.ne (by decide))
      have hb := binary_ok bn_lt lx rx hop' hy
      exact ⟨_, choice_ok (A := .giantTerm) [] _ rfl (fun _ h => by cases h) hb rfl,
        by simp [shape, shapeV, binOpOf, sx, sy, mk0]⟩
    · have hop' : KAt toks m .lessThanOrEqualTo := hop
      have lx := small_to_huge smx rx PX.noMinus (hop'.ne (by decide)) (hop'.ne (by decide))
        (hop'.ne (by decide)) (hop'.ne (by decide))
      have hb := binary_ok bn_le lx rx hop' hy
      refine ⟨_, choice_ok (A := .giantTerm) [.lessThan] _ rfl ?_ hb rfl,
        by simp [shape, shapeV, binOpOf, sx, sy, mk0]⟩
      intro X hX
      simp only [List.mem_cons, List.mem_nil_iff, or_false] at hX
      subst hX
      exact binary_fail_op bn_lt lx rx (hop'.ne (by decide))
    · have hop' : KAt toks m .doubleEquals := hop
      have lx := small_to_huge smx rx PX.noMinus (hop'.ne (by decide)) (hop'.ne (by decide))
        (hop'.ne (by decide)) (hop'.ne (by decide))
      have hb := binary_ok bn_eq lx rx hop' hy
      refine ⟨_, choice_ok (A := .giantTerm) [.lessThan, .lessThanOrEqualTo] _ rfl ?_ hb rfl,
        by simp [shape, shapeV, binOpOf, sx, sy, mk0]⟩
      intro X hX
      simp only [List.mem_cons, List.mem_nil_iff, or_false] at hX
      rcases hX with rfl | rfl
      · exact binary_fail_op bn_lt lx rx (hop'.ne (by decide))
      · exact binary_fail_op bn_le lx rx (hop'.ne (by decide))
    · have hop' : KAt toks m .greaterThan := hop
      have lx := small_to_huge smx rx PX.noMinus (hop'.ne (by decide)) (hop'.ne (by decide))
        (hop'.ne (by decide)) (hop'.ne (by decide))
      have hb := binary_ok bn_gt lx rx hop' hy
      refine ⟨_, choice_ok (A := .giantTerm) [.lessThan, .lessThanOrEqualTo, .equalTo] _ rfl ?_ hb
        rfl, by simp [shape, shapeV, binOpOf, sx, sy, mk0]⟩
      intro X hX
      simp only [List.mem_cons, List.mem_nil_iff, or_false] at hX
      rcases hX with rfl | rfl | rfl
      · exact binary_fail_op bn_lt lx rx (hop'.ne (by decide))
      · exact binary_fail_op bn_le lx rx (hop'.ne (by decide))
      · exact binary_fail_op bn_eq lx rx (hop'.ne (by decide))
    · have hop' : KAt toks m .greaterThanOrEqualTo := hop
      have lx := small_to_huge smx rx PX.noMinus (hop'.ne (by decide)) (hop'.ne (by decide))
        (hop'.ne (by decide)) (hop'.ne (by decide))
      have hb := binary_ok bn_ge lx rx hop' hy
      refine ⟨_, choice_ok (A := .giantTerm)
        [.lessThan, .lessThanOrEqualTo, .equalTo, .greaterThan] _ rfl ?_ hb rfl,
        by simp [shape, shapeV, binOpOf, sx, sy, mk0]⟩
      intro X hX
      simp only [List.mem_cons, List.mem_nil_iff, or_false] at hX
      rcases hX with rfl | rfl | rfl | rfl
      · exact binary_fail_op bn_lt lx rx (hop'.ne (by decide))
      · exact binary_fail_op bn_le lx rx (hop'.ne (by decide))
      · exact binary_fail_op bn_eq lx rx (hop'.ne (by decide))
      · exact binary_fail_op bn_gt lx rx (hop'.ne (by decide))
  obtain ⟨tr, hg, hs⟩ := hg
  have hr : tr.isParseError = false := by rw [← shape_pe, hs]; rfl
  refine ⟨tr, jumbo_of [.lambda, .lambdaImplicit, .annotatedLambda, .annotatedLambdaImplicit, .pi,
    .piImplicit, .nonDependentPi, .if_] [] rfl ?_ hg hr, hs⟩
  intro X hX
  simp only [List.mem_cons, List.mem_nil_iff, or_false] at hX
  rcases hX with rfl | rfl | rfl | rfl | rfl | rfl | rfl | rfl
  · exact PX.lambda
  · exact PX.lambdaImplicit
  · exact PX.annotatedLambda
  · exact PX.annotatedLambdaImplicit
  · exact PX.pi
  · exact PX.piImplicit
  · exact hnd
  · exact PX.if_

end Main

end PModel
