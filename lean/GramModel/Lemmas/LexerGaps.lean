import GramModel.Lemmas.Lexer

/-!
# Refined description of one tokenizer step

`StepOK` (in `Lemmas/Lexer.lean`) only records that a non-empty prefix was consumed and optionally a
token pushed.  `StepOK'` also records *what kind* of step it was: a token (with the shape of its
lexeme and its maximality fact), a blank (whitespace or dropped line feed), a comment, or an
unexpected symbol.  `scan_step'` redoes the case analysis of `scan` once for the refined version,
`scan_inv'` is the generic invariant induction (tracking the consumed prefix, and using that the fuel
suffices to consume the whole text).
-/

/-- token kinds produced from identifier-shaped lexemes -/
def wordish : TokKind → Bool
  | .identifier _ | .boolean | .else_ | .false_ | .if_ | .integer | .then_ | .true_ | .type_ => true
  | _ => false

/-- The shape of a token's lexeme `lex`, given the text `rest` that follows it. -/
def TokShape (cc : CharClass) (k : TokKind) (lex rest : List Char) : Prop :=
  ((∀ x ∈ lex, x ∈ symbolChars) ∧ wordish k = false ∧ ∀ n, k ≠ .integerLiteral n) ∨
  (∃ c w, lex = c :: w ∧ identStart cc c = true ∧ (∀ x ∈ w, identCont cc x = true) ∧
    (∀ d r, rest = d :: r → identCont cc d = false) ∧ k = wordKind lex) ∨
  ((∀ x ∈ lex, isDigit x = true) ∧ (∀ d r, rest = d :: r → isDigit d = false) ∧
    k = .integerLiteral (digitsValue lex))

/-- a character that belongs to no token class -/
def Unclassed (cc : CharClass) (c : Char) : Prop :=
  symbolChars.contains c = false ∧ identStart cc c = false ∧ isDigit c = false ∧
    cc.isWs c = false ∧ c ≠ '#'

/-- the four kinds of loop iteration -/
def StepCase (cc : CharClass) (pos pos' : Nat) (lex cs' : List Char) (s s' : LexState) : Prop :=
  -- (a) a token
  (∃ k, s'.toks = ⟨k, pos, pos'⟩ :: s.toks ∧ s'.errs = s.errs ∧
      (k = .terminatorLineBreak → lastCanEnd s = some true) ∧ lexOK k lex ∧ TokShape cc k lex cs') ∨
  -- (b) whitespace or a dropped line feed
  (s'.toks = s.toks ∧ s'.errs = s.errs ∧ ∃ c, lex = [c] ∧ (cc.isWs c = true ∨ c = '\n')) ∨
  -- (c) a comment, up to (not including) the next line feed
  (s'.toks = s.toks ∧ s'.errs = s.errs ∧ ∃ body, lex = '#' :: body ∧ (∀ x ∈ body, x ≠ '\n') ∧
      (cs' = [] ∨ ∃ r, cs' = '\n' :: r)) ∨
  -- (d) an unexpected symbol
  (s'.toks = s.toks ∧ s'.errs = (pos, cc.graphemeEnd pos) :: s.errs ∧ ∃ c, lex = [c] ∧ Unclassed cc c)

def StepOK' (cc : CharClass) (pos : Nat) (cs : List Char) (s : LexState) (pos' : Nat)
    (cs' : List Char) (s' : LexState) : Prop :=
  ∃ lex, lex ≠ [] ∧ cs = lex ++ cs' ∧ pos' = pos + bytesOf lex ∧ s'.panic = s.panic ∧
    StepCase cc pos pos' lex cs' s s'

/-- the refined description implies the coarse one -/
theorem StepOK'.toStepOK {cc : CharClass} {pos : Nat} {cs : List Char} {s : LexState} {pos' : Nat}
    {cs' : List Char} {s' : LexState} (h : StepOK' cc pos cs s pos' cs' s') :
    StepOK pos cs s pos' cs' s' := by
  obtain ⟨lex, h1, h2, h3, h4, h5⟩ := h
  refine ⟨lex, h1, h2, h3, h4, ?_⟩
  rcases h5 with ⟨k, ht, _, hk, hl, _⟩ | ⟨ht, _⟩ | ⟨ht, _⟩ | ⟨ht, _⟩
  · exact Or.inr ⟨k, ht, hk, hl⟩
  · exact Or.inl ht
  · exact Or.inl ht
  · exact Or.inl ht

theorem skipComment_body : ∀ (cs : List Char) (pos : Nat),
    ∃ pre, cs = pre ++ (skipComment cs pos).1 ∧ (skipComment cs pos).2 = pos + bytesOf pre ∧
      (∀ x ∈ pre, x ≠ '\n') ∧
      ((skipComment cs pos).1 = [] ∨ ∃ r, (skipComment cs pos).1 = '\n' :: r)
  | [], pos => ⟨[], by simp [skipComment, bytesOf]⟩
  | c :: cs, pos => by
      simp only [skipComment]
      split
      · rename_i hc
        obtain rfl := eq_of_beq hc
        exact ⟨[], by simp [bytesOf]⟩
      · rename_i hc
        obtain ⟨pre, h1, h2, h3, h4⟩ := skipComment_body cs (pos + c.utf8Size)
        refine ⟨c :: pre, ?_, ?_, ?_, h4⟩
        · simp; exact h1
        · rw [h2, bytesOf_cons]; omega
        · intro x hx
          rcases List.mem_cons.1 hx with rfl | hx
          · intro hx; apply hc; rw [hx]; rfl
          · exact h3 x hx

theorem spanChars_next (p : Char → Bool) : ∀ (cs : List Char) (d : Char) (r : List Char),
    (spanChars p cs).2 = d :: r → p d = false
  | [], d, r, h => by simp [spanChars] at h
  | c :: cs, d, r, h => by
      simp only [spanChars] at h
      split at h
      · exact spanChars_next p cs d r h
      · rename_i hc
        simp only [List.cons.injEq] at h
        rw [← h.1]; simpa using hc

theorem step_sym1 {cc : CharClass} {pos : Nat} {c : Char} {cs : List Char} {s : LexState}
    (k : TokKind) (hc : c.utf8Size = 1) (hk : k = .terminatorLineBreak → lastCanEnd s = some true)
    (hl : lexOK k [c]) (hs : c ∈ symbolChars) (hw : wordish k = false)
    (hn : ∀ n, k ≠ .integerLiteral n) :
    StepOK' cc pos (c :: cs) s (pos + 1) cs (s.push k pos (pos + 1)) :=
  ⟨[c], by simp, rfl, by rw [bytesOf_one, hc], rfl,
    Or.inl ⟨k, rfl, rfl, hk, hl, Or.inl ⟨by simpa using hs, hw, hn⟩⟩⟩

theorem step_sym2 {cc : CharClass} {pos : Nat} {c d : Char} {r : List Char} {s : LexState}
    (k : TokKind) (hc : c.utf8Size = 1) (hd : d.utf8Size = 1) (hk : k ≠ .terminatorLineBreak)
    (hl : lexOK k [c, d]) (hs : c ∈ symbolChars ∧ d ∈ symbolChars) (hw : wordish k = false)
    (hn : ∀ n, k ≠ .integerLiteral n) :
    StepOK' cc pos (c :: d :: r) s (pos + 2) r (s.push k pos (pos + 2)) :=
  ⟨[c, d], by simp, rfl, by rw [bytesOf_cons, bytesOf_one, hc, hd], rfl,
    Or.inl ⟨k, rfl, rfl, fun h => absurd h hk, hl, Or.inl ⟨by simpa using hs, hw, hn⟩⟩⟩

theorem scan_step' (cc : CharClass) (fuel pos : Nat) (c : Char) (cs : List Char) (s : LexState)
    (P : LexState → Prop)
    (h : ∀ pos' cs' s', StepOK' cc pos (c :: cs) s pos' cs' s' → P (scan cc fuel pos' cs' s')) :
    P (scan cc (fuel+1) pos (c :: cs) s) := by
  rw [scan.eq_def]
  dsimp only
  by_cases h1 : (c == '*') = true
  · rw [if_pos h1]; obtain rfl := eq_of_beq h1
    exact h _ _ _ (step_sym1 _ rfl (by nofun) True.intro (by decide) rfl (by nofun))
  rw [if_neg h1]
  by_cases h2 : (c == ':') = true
  · rw [if_pos h2]; obtain rfl := eq_of_beq h2
    exact h _ _ _ (step_sym1 _ rfl (by nofun) True.intro (by decide) rfl (by nofun))
  rw [if_neg h2]
  by_cases h3 : (c == '{') = true
  · rw [if_pos h3]; obtain rfl := eq_of_beq h3
    exact h _ _ _ (step_sym1 _ rfl (by nofun) True.intro (by decide) rfl (by nofun))
  rw [if_neg h3]
  by_cases h4 : (c == '(') = true
  · rw [if_pos h4]; obtain rfl := eq_of_beq h4
    exact h _ _ _ (step_sym1 _ rfl (by nofun) True.intro (by decide) rfl (by nofun))
  rw [if_neg h4]
  by_cases h5 : (c == '+') = true
  · rw [if_pos h5]; obtain rfl := eq_of_beq h5
    exact h _ _ _ (step_sym1 _ rfl (by nofun) True.intro (by decide) rfl (by nofun))
  rw [if_neg h5]
  by_cases h6 : (c == '}') = true
  · rw [if_pos h6]; obtain rfl := eq_of_beq h6
    exact h _ _ _ (step_sym1 _ rfl (by nofun) True.intro (by decide) rfl (by nofun))
  rw [if_neg h6]
  by_cases h7 : (c == ')') = true
  · rw [if_pos h7]; obtain rfl := eq_of_beq h7
    exact h _ _ _ (step_sym1 _ rfl (by nofun) True.intro (by decide) rfl (by nofun))
  rw [if_neg h7]
  by_cases h8 : (c == '/') = true
  · rw [if_pos h8]; obtain rfl := eq_of_beq h8
    exact h _ _ _ (step_sym1 _ rfl (by nofun) True.intro (by decide) rfl (by nofun))
  rw [if_neg h8]
  by_cases h9 : (c == ';') = true
  · rw [if_pos h9]; obtain rfl := eq_of_beq h9
    exact h _ _ _ (step_sym1 _ rfl (by nofun) True.intro (by decide) rfl (by nofun))
  rw [if_neg h9]
  by_cases h10 : (c == '\n') = true
  · rw [if_pos h10]; obtain rfl := eq_of_beq h10
    split
    · rename_i hl; exact absurd hl (lastCanEnd_ne_none s)
    · rename_i hl
      exact h _ _ _ (step_sym1 _ rfl (fun _ => hl) rfl (by decide) rfl (by nofun))
    · exact h _ _ _ ⟨['\n'], by simp, rfl, rfl, rfl, Or.inr (Or.inl ⟨rfl, rfl, '\n', rfl, Or.inr rfl⟩)⟩
  rw [if_neg h10]
  by_cases h11 : (c == '-') = true
  · rw [if_pos h11]; obtain rfl := eq_of_beq h11
    split
    · exact h _ _ _ (step_sym2 _ rfl rfl (by simp) True.intro (by decide) rfl (by nofun))
    · exact h _ _ _ (step_sym1 _ rfl (by nofun) True.intro (by decide) rfl (by nofun))
  rw [if_neg h11]
  by_cases h12 : (c == '<') = true
  · rw [if_pos h12]; obtain rfl := eq_of_beq h12
    split
    · exact h _ _ _ (step_sym2 _ rfl rfl (by simp) True.intro (by decide) rfl (by nofun))
    · exact h _ _ _ (step_sym1 _ rfl (by nofun) True.intro (by decide) rfl (by nofun))
  rw [if_neg h12]
  by_cases h13 : (c == '=') = true
  · rw [if_pos h13]; obtain rfl := eq_of_beq h13
    split
    · exact h _ _ _ (step_sym2 _ rfl rfl (by simp) True.intro (by decide) rfl (by nofun))
    · exact h _ _ _ (step_sym2 _ rfl rfl (by simp) True.intro (by decide) rfl (by nofun))
    · exact h _ _ _ (step_sym1 _ rfl (by nofun) True.intro (by decide) rfl (by nofun))
  rw [if_neg h13]
  by_cases h14 : (c == '>') = true
  · rw [if_pos h14]; obtain rfl := eq_of_beq h14
    split
    · exact h _ _ _ (step_sym2 _ rfl rfl (by simp) True.intro (by decide) rfl (by nofun))
    · exact h _ _ _ (step_sym1 _ rfl (by nofun) True.intro (by decide) rfl (by nofun))
  rw [if_neg h14]
  by_cases h15 : identStart cc c = true
  · rw [if_pos h15]
    apply h
    refine ⟨c :: (spanChars (identCont cc) cs).1, by simp, ?_, ?_, rfl,
      Or.inl ⟨_, rfl, rfl, ?_, ?_, Or.inr (Or.inl ⟨c, _, rfl, h15, ?_, ?_, rfl⟩)⟩⟩
    · rw [List.cons_append, spanChars_append]
    · rw [bytesOf_cons]; omega
    · intro hk; exact absurd hk (wordKind_ne_lineBreak _)
    · exact wordKind_lexOK _
    · exact spanChars_all _ _
    · exact spanChars_next _ _
  rw [if_neg h15]
  by_cases h16 : isDigit c = true
  · rw [if_pos h16]
    have hall : ∀ x ∈ c :: (spanChars isDigit cs).1, isDigit x = true := by
      intro x hx
      rcases List.mem_cons.1 hx with rfl | hx
      · exact h16
      · exact spanChars_all _ _ _ hx
    apply h
    refine ⟨c :: (spanChars isDigit cs).1, by simp, ?_, ?_, rfl,
      Or.inl ⟨_, rfl, rfl, by nofun, ⟨rfl, hall⟩, Or.inr (Or.inr ⟨hall, ?_, rfl⟩)⟩⟩
    · rw [List.cons_append, spanChars_append]
    · rw [bytesOf_cons, isDigit_utf8Size h16]; omega
    · exact spanChars_next _ _
  rw [if_neg h16]
  by_cases h17 : cc.isWs c = true
  · rw [if_pos h17]
    exact h _ _ _ ⟨[c], by simp, rfl, by rw [bytesOf_one], rfl,
      Or.inr (Or.inl ⟨rfl, rfl, c, rfl, Or.inl h17⟩)⟩
  rw [if_neg h17]
  by_cases h18 : (c == '#') = true
  · rw [if_pos h18]; obtain rfl := eq_of_beq h18
    apply h
    obtain ⟨pre, hp1, hp2, hp3, hp4⟩ := skipComment_body cs (pos + 1)
    refine ⟨'#' :: pre, by simp, ?_, ?_, rfl, Or.inr (Or.inr (Or.inl ⟨rfl, rfl, pre, rfl, hp3, hp4⟩))⟩
    · rw [List.cons_append, ← hp1]
    · rw [hp2, bytesOf_cons, show ('#' : Char).utf8Size = 1 from rfl]; omega
  rw [if_neg h18]
  refine h _ _ _ ⟨[c], by simp, rfl, by rw [bytesOf_one], rfl,
    Or.inr (Or.inr (Or.inr ⟨rfl, rfl, c, rfl, ?_, ?_, ?_, ?_, ?_⟩))⟩
  · simp only [symbolChars, List.contains_cons, List.contains_nil, Bool.or_false, Bool.or_eq_false_iff]
    simp only [Bool.not_eq_true] at h1 h2 h3 h4 h5 h6 h7 h8 h9 h10 h11 h12 h13 h14
    exact ⟨h1, h2, h3, h4, h5, h6, h7, h8, h9, h10, h11, h12, h13, h14⟩
  · simpa using h15
  · simpa using h16
  · simpa using h17
  · intro hc; apply h18; rw [hc]; rfl

/-- Invariant induction for the refined steps.  The invariant sees the consumed prefix `pre` (so the
position is `bytesOf pre`) and the remaining text; since every step consumes at least one character,
fuel `≥` the remaining length consumes everything. -/
theorem scan_inv' (cc : CharClass) (text : List Char) (Inv : List Char → List Char → LexState → Prop)
    (hstep : ∀ pre lex cs' s s', text = pre ++ (lex ++ cs') → Inv pre (lex ++ cs') s → lex ≠ [] →
      s'.panic = s.panic → StepCase cc (bytesOf pre) (bytesOf (pre ++ lex)) lex cs' s s' →
      Inv (pre ++ lex) cs' s') :
    ∀ fuel pre cs s, text = pre ++ cs → cs.length ≤ fuel → Inv pre cs s →
      Inv text [] (scan cc fuel (bytesOf pre) cs s) := by
  intro fuel
  induction fuel with
  | zero =>
    intro pre cs s ht hl h
    have : cs = [] := List.eq_nil_of_length_eq_zero (by omega)
    subst this
    rw [scan.eq_1]; rw [List.append_nil] at ht; subst ht; exact h
  | succ n ih =>
    intro pre cs s ht hl h
    cases cs with
    | nil => rw [scan.eq_2 _ _ _ _ (by simp)]; rw [List.append_nil] at ht; subst ht; exact h
    | cons c cs =>
      apply scan_step' cc n (bytesOf pre) c cs s (fun r => Inv text [] r)
      rintro pos' cs' s' ⟨lex, hne, hcs, hpos, hp, hcase⟩
      rw [hpos, ← bytesOf_append] at hcase ⊢
      rw [hcs] at ht h hl
      apply ih (pre ++ lex) cs' s' (by rw [ht, List.append_assoc])
      · have := List.length_pos_iff.2 hne
        rw [List.length_append] at hl; omega
      · exact hstep pre lex cs' s s' ht h hne hp hcase

/-! ## Comment lines -/

/-- state "a `#` occurs earlier on the current line", updated by one character -/
def hstep (st : Bool) (c : Char) : Bool := if c = '\n' then false else if c = '#' then true else st

/-- does the last line of `l` contain a `#`? -/
def hashLine (l : List Char) : Bool := (l.reverse.takeWhile (· != '\n')).contains '#'

theorem hashLine_snoc (l : List Char) (c : Char) : hashLine (l ++ [c]) = hstep (hashLine l) c := by
  unfold hashLine hstep
  rw [List.reverse_append]
  simp only [List.reverse_singleton, List.singleton_append, List.takeWhile_cons]
  by_cases h : c = '\n'
  · subst h; simp
  · by_cases h2 : c = '#'
    · subst h2; simp
    · simp [h, h2]
      intro e; exact absurd e.symm h2

theorem hashLine_append (a b : List Char) : hashLine (a ++ b) = b.foldl hstep (hashLine a) := by
  induction b generalizing a with
  | nil => simp
  | cons c b ih =>
    have : a ++ c :: b = (a ++ [c]) ++ b := by simp
    rw [this, ih, hashLine_snoc, List.foldl_cons]

theorem fold_nohash : ∀ (m : List Char) (st : Bool), '#' ∉ m →
    m.foldl hstep st = (st && m.all (· != '\n'))
  | [], st, _ => by simp
  | c :: m, st, h => by
    have hc : c ≠ '#' := fun e => h (by simp [e])
    have hm : '#' ∉ m := fun e => h (by simp [e])
    rw [List.foldl_cons, fold_nohash m _ hm]
    by_cases hn : c = '\n'
    · subst hn; simp [hstep]
    · have : (c != '\n') = true := by simp [hn]
      simp [hstep, hn, hc, this]

theorem fold_comment : ∀ (m : List Char), (∀ x ∈ m, x ≠ '\n') → m.foldl hstep true = true
  | [], _ => rfl
  | c :: m, h => by
    have hc : c ≠ '\n' := h c (by simp)
    rw [List.foldl_cons]
    have : hstep true c = true := by simp [hstep, hc]
    rw [this]
    exact fold_comment m (fun x hx => h x (by simp [hx]))

/-- mirror of `inComment` (Props/C09) -/
def inCom (text : List Char) (i : Nat) : Bool :=
  text[i]? != some '\n' && hashLine (text.take (i + 1))

/-- mirror of `offsetOf` (Props/C09) -/
def offs (text : List Char) (i : Nat) : Nat := bytesOf (text.take i)

theorem inCom_prefix {pre : List Char} (cs : List Char) {i : Nat} (h : i < pre.length) :
    inCom (pre ++ cs) i = inCom pre i := by
  unfold inCom
  rw [List.getElem?_append_left h, List.take_append_of_le_length (by omega)]

theorem getElem?_at (pre lex : List Char) (j : Nat) : (pre ++ lex)[pre.length + j]? = lex[j]? := by
  rw [List.getElem?_append_right (by omega)]
  congr 1; omega

theorem inCom_at (pre lex : List Char) (j : Nat) :
    inCom (pre ++ lex) (pre.length + j) =
      (lex[j]? != some '\n' && (lex.take (j + 1)).foldl hstep (hashLine pre)) := by
  unfold inCom
  rw [getElem?_at]
  have : (pre ++ lex).take (pre.length + j + 1) = pre ++ lex.take (j + 1) := by
    rw [List.take_append]
    rw [List.take_of_length_le (by omega)]
    congr 2; omega
  rw [this, hashLine_append]

/-- inside a lexeme without `#` that starts outside a comment (or with a line feed) nothing is in a
comment -/
theorem inCom_tok_false {pre lex : List Char} (hh : '#' ∉ lex)
    (hB : hashLine pre = false ∨ ∃ r, lex = '\n' :: r) (j : Nat) :
    inCom (pre ++ lex) (pre.length + j) = false := by
  rw [inCom_at, fold_nohash _ _ (fun e => hh (List.mem_of_mem_take e))]
  rcases hB with hB | ⟨r, rfl⟩
  · simp [hB]
  · cases j with
    | zero => simp
    | succ j => simp

theorem inCom_comment_true {pre body : List Char} (hb : ∀ x ∈ body, x ≠ '\n') {j : Nat}
    (hj : j < ('#' :: body).length) : inCom (pre ++ '#' :: body) (pre.length + j) = true := by
  rw [inCom_at]
  have h1 : ('#' :: body)[j]? ≠ some '\n' := by
    rw [List.getElem?_eq_getElem hj]
    intro e
    have hm : ('#' :: body)[j] ∈ '#' :: body := List.getElem_mem hj
    rw [Option.some.inj e] at hm
    rcases List.mem_cons.1 hm with e | hm
    · exact absurd e (by decide)
    · exact hb _ hm rfl
  have h2 : (('#' :: body).take (j + 1)).foldl hstep (hashLine pre) = true := by
    rw [List.take_succ_cons, List.foldl_cons]
    have : hstep (hashLine pre) '#' = true := by simp [hstep]
    rw [this]
    exact fold_comment _ (fun x hx => hb x (List.mem_of_mem_take hx))
  rw [h2, Bool.and_true]
  simpa using h1

/-- the "not inside a comment" part of the loop invariant: either no `#` on the current line so far,
or the scanner stands at the end of a line -/
def LineOK (pre cs : List Char) : Prop := hashLine pre = false ∨ cs = [] ∨ ∃ r, cs = '\n' :: r

theorem LineOK.start {pre lex cs' : List Char} (h : LineOK pre (lex ++ cs')) (hne : lex ≠ []) :
    hashLine pre = false ∨ ∃ r, lex = '\n' :: r := by
  rcases h with h | h | ⟨r, h⟩
  · exact Or.inl h
  · exact absurd (List.append_eq_nil_iff.1 h).1 hne
  · cases lex with
    | nil => exact absurd rfl hne
    | cons c l => right; rw [List.cons_append] at h; injection h with h1 h2; exact ⟨l, by rw [h1]⟩

theorem hashLine_tok {pre lex : List Char} (hh : '#' ∉ lex)
    (hB : hashLine pre = false ∨ ∃ r, lex = '\n' :: r) : hashLine (pre ++ lex) = false := by
  rw [hashLine_append, fold_nohash _ _ hh]
  rcases hB with hB | ⟨r, rfl⟩
  · simp [hB]
  · simp

/-- classifier side conditions: `#` is neither a word character nor whitespace -/
structure HashPlain (cc : CharClass) : Prop where
  start : identStart cc '#' = false
  ws : cc.isWs '#' = false
  cont : identCont cc '#' = false

theorem tokShape_nohash {cc : CharClass} (hp : HashPlain cc) {k : TokKind} {lex rest : List Char}
    (h : TokShape cc k lex rest) : '#' ∉ lex := by
  intro hm
  rcases h with ⟨h, _⟩ | ⟨c, w, rfl, hc, hw, _⟩ | ⟨h, _⟩
  · exact absurd (h _ hm) (by decide)
  · rcases List.mem_cons.1 hm with e | hm
    · rw [← e, hp.start] at hc; cases hc
    · have := hw _ hm; rw [hp.cont] at this; cases this
  · exact absurd (h _ hm) (by decide)

theorem lineOK_step {cc : CharClass} (hp : HashPlain cc) {pre lex cs' : List Char} {p p' : Nat}
    {s s' : LexState} (hB : LineOK pre (lex ++ cs')) (hne : lex ≠ [])
    (hc : StepCase cc p p' lex cs' s s') : LineOK (pre ++ lex) cs' := by
  have hB' := hB.start hne
  rcases hc with ⟨k, _, _, _, _, hs⟩ | ⟨_, _, c, rfl, hc⟩ | ⟨_, _, body, rfl, _, hr⟩ | ⟨_, _, c, rfl, hu⟩
  · exact Or.inl (hashLine_tok (tokShape_nohash hp hs) hB')
  · refine Or.inl (hashLine_tok ?_ hB')
    intro hm
    rw [List.mem_singleton] at hm
    rcases hc with hc | hc
    · rw [← hm, hp.ws] at hc; cases hc
    · rw [hc] at hm; exact absurd hm (by decide)
  · exact Or.inr hr
  · refine Or.inl (hashLine_tok ?_ hB')
    intro hm
    rw [List.mem_singleton] at hm
    exact hu.2.2.2.2 hm.symm

/-! ## Offsets -/

theorem offs_prefix {pre : List Char} (cs : List Char) {i : Nat} (h : i ≤ pre.length) :
    offs (pre ++ cs) i = offs pre i := by
  unfold offs; rw [List.take_append_of_le_length h]

theorem offs_length (pre cs : List Char) : offs (pre ++ cs) pre.length = bytesOf pre := by
  unfold offs; rw [List.take_left']; rfl

theorem offs_lt {a : List Char} (b : List Char) {i : Nat} (h : i < a.length) :
    offs (a ++ b) i < bytesOf a := by
  rw [offs_prefix b (by omega)]
  unfold offs
  have h1 : bytesOf a = bytesOf (a.take i) + bytesOf (a.drop i) := by
    rw [← bytesOf_append, List.take_append_drop]
  have h2 : 0 < bytesOf (a.drop i) := bytesOf_pos (by
    intro e
    have := congrArg List.length e
    simp at this; omega)
  omega

theorem offs_ge (a b : List Char) {i : Nat} (h : a.length ≤ i) : bytesOf a ≤ offs (a ++ b) i := by
  unfold offs
  rw [List.take_append, List.take_of_length_le h, bytesOf_append]
  omega

theorem bytes_prefix_unique : ∀ (a a' b b' : List Char), a ++ b = a' ++ b' → bytesOf a = bytesOf a' →
    a = a' ∧ b = b'
  | [], [], b, b', h, _ => ⟨rfl, h⟩
  | [], x :: a', b, b', _, hb => by
    have := bytesOf_pos (l := x :: a') (by simp); rw [bytesOf_nil] at hb; omega
  | x :: a, [], b, b', _, hb => by
    have := bytesOf_pos (l := x :: a) (by simp); rw [bytesOf_nil] at hb; omega
  | x :: a, y :: a', b, b', h, hb => by
    rw [List.cons_append, List.cons_append] at h
    injection h with h1 h2
    subst h1
    rw [bytesOf_cons, bytesOf_cons] at hb
    obtain ⟨e1, e2⟩ := bytes_prefix_unique a a' b b' h2 (by omega)
    exact ⟨by rw [e1], e2⟩

theorem split_index {pre lex : List Char} {i : Nat} (h : i < (pre ++ lex).length) :
    i < pre.length ∨ ∃ j, j < lex.length ∧ i = pre.length + j := by
  rw [List.length_append] at h
  by_cases h1 : i < pre.length
  · exact Or.inl h1
  · exact Or.inr ⟨i - pre.length, by omega, by omega⟩

abbrev scan0 (cc : CharClass) (text : List Char) : LexState :=
  scan cc text.length 0 text { toks := [], errs := [] }

/-! ## (a) every token has a lexeme shape, with its maximality fact -/

theorem scan_shape (cc : CharClass) (text : List Char) :
    ∀ t ∈ (scan0 cc text).toks, ∃ p lex rest, text = p ++ lex ++ rest ∧
      bytesOf (p ++ lex) = t.stop ∧ TokShape cc t.kind lex rest := by
  refine scan_inv' cc text (fun _ _ s => ∀ t ∈ s.toks, ∃ p lex rest, text = p ++ lex ++ rest ∧
      bytesOf (p ++ lex) = t.stop ∧ TokShape cc t.kind lex rest) ?_ text.length [] text
      { toks := [], errs := [] } rfl (Nat.le_refl _) (by intro t ht; cases ht)
  intro pre lex cs' s s' ht hi hne hp hc
  rcases hc with ⟨k, hk, _, _, _, hs⟩ | ⟨hk, _⟩ | ⟨hk, _⟩ | ⟨hk, _⟩
  · rw [hk]; intro t htm
    rcases List.mem_cons.1 htm with rfl | htm
    · exact ⟨pre, lex, cs', by rw [ht, List.append_assoc], rfl, hs⟩
    · exact hi t htm
  all_goals (rw [hk]; exact hi)

/-! ## (c) no token inside a comment -/

theorem scan_no_token_in_comment (cc : CharClass) (hp : HashPlain cc) (text : List Char) :
    ∀ t ∈ (scan0 cc text).toks, ∀ i, inCom text i = true →
      ¬ (t.start ≤ offs text i ∧ offs text i < t.stop) := by
  have key := scan_inv' cc text (fun pre cs s => LineOK pre cs ∧ ∀ t ∈ s.toks,
      t.stop ≤ bytesOf pre ∧ ∀ i, i < pre.length → inCom pre i = true →
        ¬ (t.start ≤ offs pre i ∧ offs pre i < t.stop)) ?_ text.length [] text
      { toks := [], errs := [] } rfl (Nat.le_refl _) ⟨Or.inl rfl, by intro t ht; cases ht⟩
  · intro t ht i hi
    obtain ⟨h1, h2⟩ := key.2 t ht
    by_cases hlt : i < text.length
    · exact h2 i hlt hi
    · have : offs text i = bytesOf text := by
        unfold offs; rw [List.take_of_length_le (by omega)]
      rw [this]; omega
  · intro pre lex cs' s s' ht ⟨hB, hi⟩ hne hpanic hc
    refine ⟨lineOK_step hp hB hne hc, ?_⟩
    have hold : ∀ t ∈ s.toks, t.stop ≤ bytesOf (pre ++ lex) ∧ ∀ i, i < (pre ++ lex).length →
        inCom (pre ++ lex) i = true →
        ¬ (t.start ≤ offs (pre ++ lex) i ∧ offs (pre ++ lex) i < t.stop) := by
      intro t htm
      obtain ⟨h1, h2⟩ := hi t htm
      refine ⟨by rw [bytesOf_append]; omega, ?_⟩
      intro i hil hic
      rcases split_index hil with hlt | ⟨j, _, rfl⟩
      · rw [inCom_prefix _ hlt] at hic
        rw [offs_prefix _ (Nat.le_of_lt hlt)]
        exact h2 i hlt hic
      · have := offs_ge pre lex (i := pre.length + j) (by omega)
        omega
    rcases hc with ⟨k, hk, _, _, _, hs⟩ | ⟨hk, _⟩ | ⟨hk, _⟩ | ⟨hk, _⟩
    · rw [hk]; intro t htm
      rcases List.mem_cons.1 htm with rfl | htm
      · refine ⟨Nat.le_refl _, ?_⟩
        intro i hil hic
        rcases split_index hil with hlt | ⟨j, _, rfl⟩
        · have := offs_lt lex hlt
          dsimp only; omega
        · rw [inCom_tok_false (tokShape_nohash hp hs) (hB.start hne)] at hic
          cases hic
      · exact hold t htm
    all_goals (rw [hk]; exact hold)

/-! ## (b) gaps are blank -/

/-- the `i`-th character `c` is accounted for: inside a token (a line-break token only covers a line
feed), whitespace, a line feed, or inside a comment -/
def Cov (cc : CharClass) (pre : List Char) (toks : List Tok) (i : Nat) (c : Char) : Prop :=
  (∃ t ∈ toks, t.start ≤ offs pre i ∧ offs pre i < t.stop ∧
      (t.kind = .terminatorLineBreak → c = '\n')) ∨
    cc.isWs c = true ∨ c = '\n' ∨ inCom pre i = true

theorem Cov.mono {cc : CharClass} {pre : List Char} {toks toks' : List Tok} {i : Nat} {c : Char}
    (lex : List Char) (hi : i < pre.length) (hs : ∀ t ∈ toks, t ∈ toks')
    (h : Cov cc pre toks i c) : Cov cc (pre ++ lex) toks' i c := by
  unfold Cov at h ⊢
  rw [offs_prefix _ (Nat.le_of_lt hi), inCom_prefix _ hi]
  rcases h with ⟨t, ht, h⟩ | h
  · exact Or.inl ⟨t, hs t ht, h⟩
  · exact Or.inr h

theorem scan_cov (cc : CharClass) (text : List Char) (he : (scan0 cc text).errs = []) :
    ∀ i c, text[i]? = some c → Cov cc text (scan0 cc text).toks i c := by
  have key := scan_inv' cc text (fun pre _ s => s.errs ≠ [] ∨
      ∀ i c, pre[i]? = some c → Cov cc pre s.toks i c) ?_ text.length [] text
      { toks := [], errs := [] } rfl (Nat.le_refl _) (Or.inr (by intro i c h; simp at h))
  · rcases key with h | h
    · exact absurd he h
    · exact h
  · intro pre lex cs' s s' ht hi hne hpanic hc
    -- the three error-free cases share the treatment of old indices
    have hcommon : s'.errs = s.errs → (∀ t ∈ s.toks, t ∈ s'.toks) →
        (∀ j c, j < lex.length → lex[j]? = some c → Cov cc (pre ++ lex) s'.toks (pre.length + j) c) →
        (s'.errs ≠ [] ∨ ∀ i c, (pre ++ lex)[i]? = some c → Cov cc (pre ++ lex) s'.toks i c) := by
      intro h1 h2 h3
      rcases hi with hi | hi
      · left; rw [h1]; exact hi
      · right
        intro i c hic
        have hil : i < (pre ++ lex).length := by
          rcases Nat.lt_or_ge i (pre ++ lex).length with h | h
          · exact h
          · rw [List.getElem?_eq_none h] at hic; cases hic
        rcases split_index hil with hlt | ⟨j, hj, rfl⟩
        · rw [List.getElem?_append_left hlt] at hic
          exact (hi i c hic).mono lex hlt h2
        · rw [getElem?_at] at hic
          exact h3 j c hj hic
    rcases hc with ⟨k, hk, hes, _, hl, _⟩ | ⟨hk, hes, x, rfl, hx⟩ | ⟨hk, hes, body, rfl, hb, _⟩ |
      ⟨_, hes, _⟩
    · apply hcommon hes (by rw [hk]; intro t ht; exact List.mem_cons_of_mem _ ht)
      intro j c hj hjc
      refine Or.inl ⟨_, by rw [hk]; exact List.mem_cons_self,
        offs_ge pre lex (i := pre.length + j) (by omega), ?_, ?_⟩
      · have := offs_lt (a := pre ++ lex) [] (i := pre.length + j) (by rw [List.length_append]; omega)
        rwa [List.append_nil] at this
      · intro hlb
        dsimp only at hlb
        subst hlb
        have : lex = ['\n'] := hl
        subst this
        cases j with
        | zero => simpa using hjc.symm
        | succ j => simp at hj
    · apply hcommon hes (by rw [hk]; exact fun t ht => ht)
      intro j c hj hjc
      have : c = x := by
        cases j with
        | zero => simpa using hjc.symm
        | succ j => simp at hj
      subst this
      rcases hx with hx | hx
      · exact Or.inr (Or.inl hx)
      · exact Or.inr (Or.inr (Or.inl hx))
    · apply hcommon hes (by rw [hk]; exact fun t ht => ht)
      intro j c hj hjc
      exact Or.inr (Or.inr (Or.inr (inCom_comment_true hb hj)))
    · left; rw [hes]; simp

theorem filterToks_dropped : ∀ (l ts : List Tok), filterToks l = some ts →
    ∀ t ∈ l, t ∈ ts ∨ t.kind = .terminatorLineBreak
  | [], ts, h => by intro t ht; cases ht
  | x :: rest, ts, h => by
    rw [filterToks] at h
    split at h
    · cases h
    · rename_i rest' hr
      have ih := filterToks_dropped rest rest' hr
      have htail : ∀ t ∈ rest, t ∈ x :: rest' ∨ t.kind = .terminatorLineBreak := by
        intro t ht
        rcases ih t ht with h | h
        · exact Or.inl (List.mem_cons_of_mem _ h)
        · exact Or.inr h
      split at h
      · rename_i hx
        have hdrop : ∀ t ∈ x :: rest, t ∈ rest' ∨ t.kind = .terminatorLineBreak := by
          intro t ht
          rcases List.mem_cons.1 ht with rfl | ht
          · exact Or.inr hx
          · exact ih t ht
        have hkeep : ∀ t ∈ x :: rest, t ∈ x :: rest' ∨ t.kind = .terminatorLineBreak := by
          intro t ht
          rcases List.mem_cons.1 ht with rfl | ht
          · exact Or.inl List.mem_cons_self
          · exact htail t ht
        split at h
        · cases h; exact hdrop
        · split at h
          · cases h
          · cases h; exact hkeep
          · cases h; exact hdrop
      · cases h
        intro t ht
        rcases List.mem_cons.1 ht with rfl | ht
        · exact Or.inl List.mem_cons_self
        · exact htail t ht

theorem tokenize_ok' {cc : CharClass} {text : List Char} {ts : List Tok}
    (h : tokenize cc text = .ok ts) :
    (scan0 cc text).errs = [] ∧ filterToks (scan0 cc text).toks.reverse = some ts := by
  unfold tokenize at h
  dsimp only at h
  split at h
  · cases h
  · split at h
    · cases h
    · rename_i he
      split at h
      · rename_i hf; cases h
        refine ⟨?_, hf⟩
        simpa using he
      · cases h

theorem tokenize_err {cc : CharClass} {text : List Char} {es : List (Nat × Nat)}
    (h : tokenize cc text = .err es) : es = (scan0 cc text).errs.reverse := by
  unfold tokenize at h
  dsimp only at h
  split at h
  · cases h
  · split at h
    · cases h; rfl
    · split at h <;> cases h

/-! ## (d) the reported errors are exactly the unexpected symbols -/

/-- mirror of `unexpectedAt` (Props/C09) -/
def unexp (cc : CharClass) (text : List Char) (i : Nat) : Bool :=
  match text[i]? with
  | none => false
  | some c =>
      !inCom text i && !(symbolChars.contains c) && !(identStart cc c) && !(isDigit c)
        && !(cc.isWs c) && c != '#'

theorem unexp_prefix {cc : CharClass} {pre : List Char} (cs : List Char) {i : Nat}
    (h : i < pre.length) : unexp cc (pre ++ cs) i = unexp cc pre i := by
  unfold unexp; rw [List.getElem?_append_left h, inCom_prefix _ h]

theorem unexp_at {cc : CharClass} (pre : List Char) {lex : List Char} {j : Nat} {c : Char}
    (h : lex[j]? = some c) : unexp cc (pre ++ lex) (pre.length + j) =
      (!inCom (pre ++ lex) (pre.length + j) && !(symbolChars.contains c) && !(identStart cc c) &&
        !(isDigit c) && !(cc.isWs c) && c != '#') := by
  unfold unexp; rw [getElem?_at, h]

/-- byte offsets of the unexpected symbols of a text, in order -/
def errPos (cc : CharClass) (pre : List Char) : List Nat :=
  ((List.range pre.length).filter (unexp cc pre)).map (offs pre)

theorem errPos_append (cc : CharClass) (pre lex : List Char) :
    errPos cc (pre ++ lex) = errPos cc pre ++
      ((List.range lex.length).filter (fun j => unexp cc (pre ++ lex) (pre.length + j))).map
        (fun j => offs (pre ++ lex) (pre.length + j)) := by
  unfold errPos
  rw [List.length_append, List.range_add, List.filter_append, List.map_append]
  congr 1
  · have : (List.range pre.length).filter (unexp cc (pre ++ lex)) =
        (List.range pre.length).filter (unexp cc pre) :=
      List.filter_congr (fun i hi => unexp_prefix lex (List.mem_range.1 hi))
    rw [this]
    apply List.map_congr_left
    intro i hi
    exact offs_prefix lex (Nat.le_of_lt (List.mem_range.1 (List.mem_filter.1 hi).1))
  · rw [List.filter_map, List.map_map]; rfl

theorem scan_errors (cc : CharClass) (hp : HashPlain cc)
    (hcont : ∀ c, identCont cc c = true → identStart cc c = true ∨ isDigit c = true)
    (text : List Char) : (scan0 cc text).errs.reverse.map (·.1) = errPos cc text := by
  have key := scan_inv' cc text (fun pre cs s => LineOK pre cs ∧
      s.errs.reverse.map (·.1) = errPos cc pre) ?_ text.length [] text
      { toks := [], errs := [] } rfl (Nat.le_refl _) ⟨Or.inl rfl, rfl⟩
  · exact key.2
  · intro pre lex cs' s s' ht ⟨hB, hi⟩ hne hpanic hc
    refine ⟨lineOK_step hp hB hne hc, ?_⟩
    rw [errPos_append]
    have hclean : s'.errs = s.errs →
        (∀ j (hj : j < lex.length), inCom (pre ++ lex) (pre.length + j) = true ∨
          symbolChars.contains lex[j] = true ∨ identStart cc lex[j] = true ∨
          isDigit lex[j] = true ∨ cc.isWs lex[j] = true) →
        s'.errs.reverse.map (·.1) = errPos cc pre ++
          ((List.range lex.length).filter (fun j => unexp cc (pre ++ lex) (pre.length + j))).map
            (fun j => offs (pre ++ lex) (pre.length + j)) := by
      intro h1 h2
      have : (List.range lex.length).filter (fun j => unexp cc (pre ++ lex) (pre.length + j)) = [] := by
        rw [List.filter_eq_nil_iff]
        intro j hj
        have hj := List.mem_range.1 hj
        rw [unexp_at pre (List.getElem?_eq_getElem hj)]
        intro hcon
        simp only [Bool.and_eq_true, Bool.not_eq_true'] at hcon
        obtain ⟨⟨⟨⟨⟨a1, a2⟩, a3⟩, a4⟩, a5⟩, _⟩ := hcon
        rcases h2 j hj with h | h | h | h | h
        · rw [h] at a1; cases a1
        · rw [h] at a2; cases a2
        · rw [h] at a3; cases a3
        · rw [h] at a4; cases a4
        · rw [h] at a5; cases a5
      rw [this, h1, hi]; simp
    rcases hc with ⟨k, _, hes, _, _, hs⟩ | ⟨_, hes, x, rfl, hx⟩ | ⟨_, hes, body, rfl, hb, _⟩ |
      ⟨_, hes, c, rfl, hu⟩
    · apply hclean hes
      intro j hj
      have hm : lex[j] ∈ lex := List.getElem_mem hj
      rcases hs with ⟨h, _⟩ | ⟨c, w, rfl, hc, hw, _⟩ | ⟨h, _⟩
      · right; left; simpa using h _ hm
      · rcases List.mem_cons.1 hm with e | hm
        · right; right; left; rw [e]; exact hc
        · rcases hcont _ (hw _ hm) with h | h
          · right; right; left; exact h
          · right; right; right; left; exact h
      · right; right; right; left; exact h _ hm
    · apply hclean hes
      intro j hj
      have : [x][j] = x := by
        cases j with
        | zero => rfl
        | succ j => simp at hj
      rw [this]
      rcases hx with hx | hx
      · right; right; right; right; exact hx
      · right; left; rw [hx]; decide
    · apply hclean hes
      intro j hj
      exact Or.inl (inCom_comment_true hb hj)
    · obtain ⟨u1, u2, u3, u4, u5⟩ := hu
      have hnh : '#' ∉ [c] := by
        intro hm; rw [List.mem_singleton] at hm; exact u5 hm.symm
      have hun : unexp cc (pre ++ [c]) (pre.length + 0) = true := by
        rw [unexp_at pre (j := 0) (c := c) rfl, inCom_tok_false hnh (hB.start hne), u1, u2, u3, u4]
        simpa using u5
      have hr : List.range [c].length = [0] := rfl
      have hf : List.filter (fun j => unexp cc (pre ++ [c]) (pre.length + j)) [0] = [0] := by
        rw [List.filter_cons]; simp only [hun]; rfl
      rw [hes, List.reverse_cons, List.map_append, hi, hr, hf]
      simp only [List.map_cons, List.map_nil, Nat.add_zero, offs_length]
