import GramModel.Listing

/-! Helper lemmas about the listing model, and the specification-level notions the C15 statements
are phrased with (`lineTable`, `IsBoundary`). -/

namespace Listing

/-! ## bytes -/

theorem utf8Len_append (a b : List Char) : utf8Len (a ++ b) = utf8Len a + utf8Len b := by
  induction a with
  | nil => simp [utf8Len]
  | cons c a ih => simp [utf8Len, ih]; omega

theorem utf8Len_eq_zero {a : List Char} (h : utf8Len a = 0) : a = [] := by
  cases a with
  | nil => rfl
  | cons c a => have := Char.utf8Size_pos c; simp [utf8Len] at h; omega

theorem utf8Len_nl : utf8Len ['\n'] = 1 := by decide

/-- `n` is a character boundary of `s`: some prefix of `s` is exactly `n` bytes long. -/
def IsBoundary (s : List Char) (n : Nat) : Prop := ∃ a b, s = a ++ b ∧ utf8Len a = n

theorem isBoundary_len (s : List Char) : IsBoundary s (utf8Len s) := ⟨s, [], by simp, rfl⟩
theorem isBoundary_zero (s : List Char) : IsBoundary s 0 := ⟨[], s, by simp, rfl⟩

/-- two prefixes of one string: the one with fewer bytes is a prefix of the other -/
theorem prefix_of_le {a b c d : List Char} (h : a ++ b = c ++ d) (hle : utf8Len a ≤ utf8Len c) :
    ∃ x, c = a ++ x ∧ b = x ++ d := by
  rcases List.append_eq_append_iff.mp h with ⟨x, h1, h2⟩ | ⟨x, h1, h2⟩
  · exact ⟨x, h1, h2⟩
  · have : utf8Len x = 0 := by
      have := congrArg utf8Len h1
      rw [utf8Len_append] at this; omega
    have hx := utf8Len_eq_zero this
    subst hx
    exact ⟨[], by simpa using h1.symm, by simpa using h2.symm⟩

/-! ## slicing -/

theorem sliceAt_append (a b : List Char) : sliceAt (a ++ b) (utf8Len a) = some (a, b) := by
  induction a with
  | nil => cases b <;> simp [sliceAt, utf8Len]
  | cons c a ih =>
    have hc := Char.utf8Size_pos c
    have h0 : ¬ (c.utf8Size + utf8Len a = 0) := by omega
    simp only [List.cons_append, sliceAt, utf8Len, h0, if_false, Nat.le_add_right, if_true,
      Nat.add_sub_cancel_left, ih]

theorem sliceAt_some {s : List Char} {n : Nat} {a b : List Char} (h : sliceAt s n = some (a, b)) :
    s = a ++ b ∧ utf8Len a = n := by
  induction s generalizing n a b with
  | nil =>
    simp only [sliceAt] at h
    split at h
    · simp at h; obtain ⟨rfl, rfl⟩ := h; simp [utf8Len, *]
    · cases h
  | cons c s ih =>
    simp only [sliceAt] at h
    split at h
    · simp at h; obtain ⟨rfl, rfl⟩ := h; simp [utf8Len, *]
    · split at h
      · cases hr : sliceAt s (n - c.utf8Size) with
        | none => simp [hr] at h
        | some p =>
          obtain ⟨a', b'⟩ := p
          simp [hr] at h
          obtain ⟨rfl, rfl⟩ := h
          obtain ⟨h1, h2⟩ := ih hr
          subst h1
          simp [utf8Len, h2]; omega
      · cases h

theorem sliceAt_isSome_iff (s : List Char) (n : Nat) : (sliceAt s n).isSome ↔ IsBoundary s n := by
  constructor
  · intro h
    cases hr : sliceAt s n with
    | none => simp [hr] at h
    | some p => obtain ⟨a, b⟩ := p; obtain ⟨h1, h2⟩ := sliceAt_some hr; exact ⟨a, b, h1, h2⟩
  · rintro ⟨a, b, rfl, rfl⟩
    simp [sliceAt_append]

theorem slices_some {line : List Char} {s e : Nat} {pre mid post : List Char}
    (h : slices line s e = some (pre, mid, post)) :
    line = pre ++ mid ++ post ∧ utf8Len pre = s ∧ utf8Len pre + utf8Len mid = e := by
  unfold slices at h
  cases h1 : sliceAt line s with
  | none => simp [h1] at h
  | some p =>
    obtain ⟨a, rest⟩ := p
    simp only [h1] at h
    split at h
    · cases h
    · cases h2 : sliceAt rest (e - s) with
      | none => simp [h2] at h
      | some q =>
        obtain ⟨m, po⟩ := q
        simp [h2] at h
        obtain ⟨rfl, rfl, rfl⟩ := h
        obtain ⟨e1, e2⟩ := sliceAt_some h1
        obtain ⟨e3, e4⟩ := sliceAt_some h2
        subst e1 e3
        refine ⟨by simp, e2, by omega⟩

/-- The slices exist exactly when Rust's three slice expressions do not panic. -/
theorem slices_isSome_iff (line : List Char) (s e : Nat) :
    (slices line s e).isSome ↔ (IsBoundary line s ∧ IsBoundary line e ∧ s ≤ e) := by
  constructor
  · intro h
    cases hr : slices line s e with
    | none => simp [hr] at h
    | some p =>
      obtain ⟨pre, mid, post⟩ := p
      obtain ⟨h1, h2, h3⟩ := slices_some hr
      refine ⟨⟨pre, mid ++ post, by simp [h1], h2⟩, ⟨pre ++ mid, post, h1, by rw [utf8Len_append]; exact h3⟩, by omega⟩
  · rintro ⟨⟨a, b, hab, ha⟩, ⟨c, d, hcd, hc⟩, hle⟩
    have hx : ∃ x, c = a ++ x ∧ b = x ++ d := prefix_of_le (hab.symm.trans hcd) (by omega)
    obtain ⟨x, rfl, rfl⟩ := hx
    subst hab
    have hs : sliceAt (a ++ (x ++ d)) s = some (a, x ++ d) := ha ▸ sliceAt_append a (x ++ d)
    have he : e - s = utf8Len x := by rw [← hc, ← ha, utf8Len_append]; omega
    have hs2 : sliceAt (x ++ d) (e - s) = some (x, d) := he ▸ sliceAt_append x d
    have : ¬ e < s := by omega
    simp [slices, hs, hs2, this]

/-! ## lines -/

theorem splitLines_ne_nil (text : List Char) : splitLines text ≠ [] := by
  cases text with
  | nil => simp [splitLines]
  | cons c cs =>
    simp only [splitLines]
    split
    · simp
    · split <;> simp

theorem joinNl_cons (a : List Char) {r : List (List Char)} (h : r ≠ []) :
    joinNl (a :: r) = a ++ '\n' :: joinNl r := by
  cases r with
  | nil => exact absurd rfl h
  | cons b r => rfl

/-- `split('\n')` followed by `join("\n")` is the identity -/
theorem joinNl_splitLines (text : List Char) : joinNl (splitLines text) = text := by
  induction text with
  | nil => rfl
  | cons c cs ih =>
    simp only [splitLines]
    split
    · next h => rw [joinNl_cons _ (splitLines_ne_nil cs), ih, h]; rfl
    · split
      · next l ls h2 =>
        rw [h2] at ih
        cases ls with
        | nil => simp [joinNl] at ih ⊢; exact ih
        | cons b r => simp [joinNl] at ih ⊢; exact ih
      · next h2 => exact absurd h2 (splitLines_ne_nil cs)

theorem splitLines_no_nl (text : List Char) : ∀ l ∈ splitLines text, '\n' ∉ l := by
  induction text with
  | nil => simp [splitLines]
  | cons c cs ih =>
    simp only [splitLines]
    split
    · intro l hl
      rcases List.mem_cons.mp hl with rfl | hl
      · simp
      · exact ih l hl
    · next hc =>
      split
      · next l ls h2 =>
        rw [h2] at ih
        intro x hx
        rcases List.mem_cons.mp hx with rfl | hx
        · intro hm
          rcases List.mem_cons.mp hm with h | h
          · exact hc h.symm
          · exact ih l (List.mem_cons_self) h
        · exact ih x (List.mem_cons_of_mem _ hx)
      · next h2 => exact absurd h2 (splitLines_ne_nil cs)

/-- `(index, first byte, line)` for every line, `i` and `pos` being those of the head line -/
def lineTable : List (List Char) → Nat → Nat → List (Nat × Nat × List Char)
  | [], _, _ => []
  | l :: ls, i, pos => (i, pos, l) :: lineTable ls (i + 1) (pos + utf8Len l + 1)

/-- the lines of a text with their 0-based index and the byte offset of their first character -/
def linesOf (text : List Char) : List (Nat × Nat × List Char) := lineTable (splitLines text) 0 0

theorem lineTable_ge (lines : List (List Char)) (i pos : Nat) :
    ∀ e ∈ lineTable lines i pos, pos ≤ e.2.1 := by
  induction lines generalizing i pos with
  | nil => simp [lineTable]
  | cons l ls ih =>
    intro e he
    simp only [lineTable] at he
    rcases List.mem_cons.mp he with rfl | he
    · exact Nat.le_refl _
    · have := ih _ _ e he; omega

theorem lineTable_index (lines : List (List Char)) (i pos : Nat) :
    (lineTable lines i pos).map (·.1) = (List.range lines.length).map (· + i) := by
  induction lines generalizing i pos with
  | nil => simp [lineTable]
  | cons l ls ih =>
    simp only [lineTable, List.map_cons, List.length_cons, List.range_succ_eq_map, ih,
      List.map_map]
    simp
    intro a _
    omega

/-- What a table entry means in terms of the text: the line sits at that byte offset, between line
feeds (or the ends of the text), and its index is the number of line feeds before it. -/
theorem lineTable_spec (lines : List (List Char)) (hne : lines ≠ [])
    (hnl : ∀ l ∈ lines, '\n' ∉ l) (i pos : Nat) :
    ∀ e ∈ lineTable lines i pos, ∃ pre post,
      joinNl lines = pre ++ e.2.2 ++ post ∧ pos + utf8Len pre = e.2.1 ∧ i + pre.count '\n' = e.1 ∧
      (pre = [] ∨ ∃ p, pre = p ++ ['\n']) ∧ (post = [] ∨ ∃ q, post = '\n' :: q) := by
  induction lines generalizing i pos with
  | nil => exact absurd rfl hne
  | cons l ls ih =>
    intro e he
    simp only [lineTable] at he
    rcases List.mem_cons.mp he with rfl | he
    · refine ⟨[], (match ls with | [] => [] | _ :: _ => '\n' :: joinNl ls), ?_, by simp [utf8Len], by simp, Or.inl rfl, ?_⟩
      · cases ls with
        | nil => simp [joinNl]
        | cons b r => simp [joinNl]
      · cases ls with
        | nil => exact Or.inl rfl
        | cons b r => exact Or.inr ⟨_, rfl⟩
    · have hls : ls ≠ [] := by
        intro h; subst h; simp [lineTable] at he
      obtain ⟨pre, post, h1, h2, h3, h4, h5⟩ :=
        ih hls (fun x hx => hnl x (List.mem_cons_of_mem _ hx)) _ _ e he
      refine ⟨l ++ '\n' :: pre, post, ?_, ?_, ?_, ?_, h5⟩
      · rw [joinNl_cons _ hls, h1]; simp
      · rw [utf8Len_append]; simp only [utf8Len]
        have : ('\n' : Char).utf8Size = 1 := by decide
        omega
      · have hl : l.count '\n' = 0 := List.count_eq_zero.mpr (hnl l List.mem_cons_self)
        rw [List.count_append, hl, List.count_cons_self]; omega
      · right
        rcases h4 with rfl | ⟨p, rfl⟩
        · exact ⟨l, rfl⟩
        · exact ⟨l ++ '\n' :: p, by simp⟩

/-! ## the row records -/

/-- does the range touch the line of this table entry? -/
def touches (start stop : Nat) (e : Nat × Nat × List Char) : Bool :=
  e.2.1 < stop && start < e.2.1 + utf8Len e.2.2 + 1

/-- the record the model makes for a table entry -/
def mkRow (ws : Char → Bool) (start stop : Nat) (e : Nat × Nat × List Char) : Row :=
  let t := trimEnd ws e.2.2
  ⟨e.1 + 1, t, (section_ ws start stop e.2.1 t).1, (section_ ws start stop e.2.1 t).2⟩

/-- The loop with its `break` and `continue` selects exactly the touched lines. -/
theorem collectRows_eq (ws : Char → Bool) (start stop : Nat) (lines : List (List Char)) (i pos : Nat) :
    collectRows ws start stop lines i pos =
      ((lineTable lines i pos).filter (touches start stop)).map (mkRow ws start stop) := by
  induction lines generalizing i pos with
  | nil => simp [collectRows, lineTable]
  | cons l ls ih =>
    simp only [collectRows, lineTable]
    by_cases h1 : pos ≥ stop
    · simp only [h1, if_true]
      have : ∀ e ∈ (i, pos, l) :: lineTable ls (i + 1) (pos + utf8Len l + 1), touches start stop e = false := by
        intro e he
        have hge : pos ≤ e.2.1 := by
          rcases List.mem_cons.mp he with rfl | he
          · exact Nat.le_refl _
          · have := lineTable_ge _ _ _ e he; omega
        simp [touches]; omega
      rw [List.filter_eq_nil_iff.mpr (by intro e he; simp [this e he])]
      rfl
    · simp only [h1, if_false]
      by_cases h2 : pos + utf8Len l + 1 ≤ start
      · simp only [h2, if_true, ih]
        have : touches start stop (i, pos, l) = false := by simp [touches]; omega
        simp [this]
      · simp only [h2, if_false, ih]
        have : touches start stop (i, pos, l) = true := by simp [touches]; omega
        simp [this, mkRow]

theorem rowsOf_eq (ws : Char → Bool) (text : List Char) (start stop : Nat) :
    rowsOf ws text start stop = ((linesOf text).filter (touches start stop)).map (mkRow ws start stop) :=
  collectRows_eq ws start stop _ 0 0

/-! ## trimming and the first non-blank -/

/-- `trim_end` removes a suffix of whitespace, and what remains does not end in whitespace -/
theorem trimEnd_spec (ws : Char → Bool) (l : List Char) :
    ∃ suf, l = trimEnd ws l ++ suf ∧ (∀ c ∈ suf, ws c = true) ∧
      (∀ c, (trimEnd ws l).getLast? = some c → ws c = false) := by
  induction l with
  | nil => exact ⟨[], by simp [trimEnd]⟩
  | cons c cs ih =>
    obtain ⟨suf, h1, h2, h3⟩ := ih
    simp only [trimEnd]
    cases ht : trimEnd ws cs with
    | nil =>
      rw [ht] at h1 h3
      by_cases hc : ws c = true
      · refine ⟨c :: suf, by simp [hc] at h1 ⊢; exact h1, ?_, by simp [hc]⟩
        intro x hx
        rcases List.mem_cons.mp hx with rfl | hx
        · exact hc
        · exact h2 x hx
      · refine ⟨suf, by simp [hc] at h1 ⊢; exact h1, h2, ?_⟩
        intro x hx
        simp [hc] at hx
        subst hx
        simpa using hc
    | cons d r =>
      rw [ht] at h1 h3
      refine ⟨suf, by simp at h1 ⊢; exact h1, h2, ?_⟩
      intro x hx
      apply h3 x
      simpa [List.getLast?_cons_cons] using hx

/-- `find(|c| !c.is_whitespace())`: the offset of a non-blank all of whose predecessors are blank -/
theorem findNonWs_some {ws : Char → Bool} {t : List Char} {pos f : Nat}
    (h : findNonWs ws t pos = some f) :
    ∃ a c b, t = a ++ c :: b ∧ pos + utf8Len a = f ∧ ws c = false ∧ ∀ x ∈ a, ws x = true := by
  induction t generalizing pos with
  | nil => simp [findNonWs] at h
  | cons c cs ih =>
    simp only [findNonWs] at h
    by_cases hc : ws c = true
    · simp only [hc, if_true] at h
      obtain ⟨a, d, b, h1, h2, h3, h4⟩ := ih h
      refine ⟨c :: a, d, b, by simp [h1], by simp only [utf8Len]; omega, h3, ?_⟩
      intro x hx
      rcases List.mem_cons.mp hx with rfl | hx
      · exact hc
      · exact h4 x hx
    · simp only [hc] at h
      simp at h
      exact ⟨[], c, cs, rfl, by simp [utf8Len, h], by simpa using hc, by simp⟩

theorem findNonWs_none {ws : Char → Bool} {t : List Char} {pos : Nat}
    (h : findNonWs ws t pos = none) : ∀ x ∈ t, ws x = true := by
  induction t generalizing pos with
  | nil => simp
  | cons c cs ih =>
    simp only [findNonWs] at h
    by_cases hc : ws c = true
    · simp only [hc, if_true] at h
      intro x hx
      rcases List.mem_cons.mp hx with rfl | hx
      · exact hc
      · exact ih h x hx
    · simp [hc] at h

/-! ## rendering -/

theorem renderRows_spec (gw : Nat) (rows : List Row) (xs : List (List Char))
    (h : renderRows gw rows = some xs) :
    xs.length = rows.length ∧
    ∀ j r, rows[j]? = some r → ∃ pre mid post,
      r.line = pre ++ mid ++ post ∧ utf8Len pre = r.secStart ∧ utf8Len pre + utf8Len mid = r.secEnd ∧
      xs[j]? = some (gutter gw r.num ++ r.line ++ '\n' ::
        markerRow gw (decide (j + 1 = rows.length)) r pre mid) := by
  induction rows generalizing xs with
  | nil => simp [renderRows] at h; subst h; simp
  | cons r rs ih =>
    simp only [renderRows] at h
    cases h1 : renderRow gw rs.isEmpty r with
    | none => simp [h1] at h
    | some x =>
      cases h2 : renderRows gw rs with
      | none => simp [h1, h2] at h
      | some xs' =>
        simp [h1, h2] at h
        subst h
        obtain ⟨ihl, ihr⟩ := ih xs' h2
        refine ⟨by simp [ihl], ?_⟩
        intro j r' hj
        cases j with
        | zero =>
          simp at hj
          subst hj
          unfold renderRow at h1
          cases h3 : slices r.line r.secStart r.secEnd with
          | none => simp [h3] at h1
          | some p =>
            obtain ⟨pre, mid, post⟩ := p
            simp [h3] at h1
            obtain ⟨e1, e2, e3⟩ := slices_some h3
            refine ⟨pre, mid, post, e1, e2, e3, ?_⟩
            have hl : rs.isEmpty = decide (0 + 1 = (r :: rs).length) := by
              cases rs <;> simp
            rw [← hl, ← h1]
            simp [e1]
        | succ j =>
          simp at hj
          obtain ⟨pre, mid, post, e1, e2, e3, e4⟩ := ihr j r' hj
          refine ⟨pre, mid, post, e1, e2, e3, ?_⟩
          have hl : decide (j + 1 + 1 = (r :: rs).length) = decide (j + 1 = rs.length) := by
            simp
          rw [hl]
          simpa using e4

theorem renderRows_isSome_iff (gw : Nat) (rows : List Row) :
    (renderRows gw rows).isSome ↔ ∀ r ∈ rows, (slices r.line r.secStart r.secEnd).isSome := by
  induction rows with
  | nil => simp [renderRows]
  | cons r rs ih =>
    simp only [renderRows, List.mem_cons, forall_eq_or_imp]
    rw [← ih]
    unfold renderRow
    cases h3 : slices r.line r.secStart r.secEnd with
    | none => simp
    | some p =>
      obtain ⟨pre, mid, post⟩ := p
      cases h2 : renderRows gw rs <;> simp

theorem le_foldl_max (f : Row → Nat) (rows : List Row) (acc : Nat) :
    acc ≤ rows.foldl (fun a r => max a (f r)) acc ∧
    ∀ r ∈ rows, f r ≤ rows.foldl (fun a r => max a (f r)) acc := by
  induction rows generalizing acc with
  | nil => simp
  | cons r rs ih =>
    simp only [List.foldl_cons]
    obtain ⟨h1, h2⟩ := ih (max acc (f r))
    refine ⟨by omega, ?_⟩
    intro x hx
    rcases List.mem_cons.mp hx with rfl | hx
    · omega
    · exact h2 x hx

theorem le_gutterWidth (rows : List Row) : ∀ r ∈ rows, (decimal r.num).length ≤ gutterWidth rows :=
  (le_foldl_max (fun r => (decimal r.num).length) rows 0).2

theorem gutter_length (gw num : Nat) (h : (decimal num).length ≤ gw) :
    (gutter gw num).length = gw + 3 := by
  simp [gutter, spaces]; omega

/-! ## no panic -/

/-- a character boundary of the text, seen from inside a line: clipped to the line it is a character
boundary of the line -/
theorem isBoundary_clip {pre t rest : List Char} {b : Nat}
    (hb : IsBoundary (pre ++ t ++ rest) b) (hle : utf8Len pre ≤ b) :
    IsBoundary t (min (b - utf8Len pre) (utf8Len t)) := by
  by_cases h : utf8Len t ≤ b - utf8Len pre
  · rw [Nat.min_eq_right h]; exact isBoundary_len t
  · rw [Nat.min_eq_left (by omega)]
    obtain ⟨a, c, hac, ha⟩ := hb
    have h1 : pre ++ (t ++ rest) = a ++ c := by simpa using hac
    obtain ⟨x, rfl, hx⟩ := prefix_of_le h1 (by omega)
    have hxl : utf8Len x = b - utf8Len pre := by rw [utf8Len_append] at ha; omega
    obtain ⟨y, hy, _⟩ := prefix_of_le hx.symm (by omega)
    exact ⟨x, y, hy, hxl⟩

theorem linesOf_spec (text : List Char) : ∀ e ∈ linesOf text, ∃ pre post,
    text = pre ++ e.2.2 ++ post ∧ utf8Len pre = e.2.1 ∧ pre.count '\n' = e.1 ∧
    (pre = [] ∨ ∃ p, pre = p ++ ['\n']) ∧ (post = [] ∨ ∃ q, post = '\n' :: q) := by
  intro e he
  obtain ⟨pre, post, h1, h2, h3, h4, h5⟩ :=
    lineTable_spec (splitLines text) (splitLines_ne_nil text) (splitLines_no_nl text) 0 0 e he
  rw [joinNl_splitLines] at h1
  exact ⟨pre, post, h1, by omega, by omega, h4, h5⟩

/-- The slices of a record do not panic when the range is well-formed and reaches the first
non-blank of the line whenever the line is a continuation line. -/
theorem mkRow_sliceable (ws : Char → Bool) (text : List Char) (start stop : Nat)
    (hss : start ≤ stop) (hbs : IsBoundary text start) (hbe : IsBoundary text stop)
    (e : Nat × Nat × List Char) (he : e ∈ linesOf text) (ht : touches start stop e = true)
    (hreach : start ≤ e.2.1 → ∀ f, findNonWs ws (trimEnd ws e.2.2) 0 = some f → e.2.1 + f ≤ stop) :
    IsBoundary (mkRow ws start stop e).line (mkRow ws start stop e).secStart ∧
    IsBoundary (mkRow ws start stop e).line (mkRow ws start stop e).secEnd ∧
    (mkRow ws start stop e).secStart ≤ (mkRow ws start stop e).secEnd := by
  obtain ⟨pre, post, h1, h2, _, _, _⟩ := linesOf_spec text e he
  obtain ⟨suf, h3, _, _⟩ := trimEnd_spec ws e.2.2
  have htext : text = pre ++ trimEnd ws e.2.2 ++ (suf ++ post) := by
    rw [h1]; conv => lhs; rw [h3]
    simp
  simp only [touches, Bool.and_eq_true, decide_eq_true_eq] at ht
  obtain ⟨ht1, ht2⟩ := ht
  have hE : IsBoundary (trimEnd ws e.2.2) (min (stop - e.2.1) (utf8Len (trimEnd ws e.2.2))) := by
    rw [← h2]; exact isBoundary_clip (htext ▸ hbe) (by omega)
  simp only [mkRow, section_]
  by_cases hgt : start > e.2.1
  · simp only [hgt, if_true]
    refine ⟨?_, hE, by omega⟩
    rw [← h2]; exact isBoundary_clip (htext ▸ hbs) (by omega)
  · simp only [hgt, if_false]
    cases hf : findNonWs ws (trimEnd ws e.2.2) 0 with
    | none => exact ⟨hE, hE, Nat.le_refl _⟩
    | some f =>
      obtain ⟨a, c, b, e1, e2, _, _⟩ := findNonWs_some hf
      have hr := hreach (by omega) f hf
      have hlen : f ≤ utf8Len (trimEnd ws e.2.2) := by
        rw [e1, utf8Len_append]; omega
      refine ⟨⟨a, c :: b, e1, by show utf8Len a = f; omega⟩, hE, ?_⟩
      show f ≤ min (stop - e.2.1) (utf8Len (trimEnd ws e.2.2))
      omega

/-! ## columns -/

theorem utf8Len_pos_of_ne_nil {l : List Char} (h : l ≠ []) : 0 < utf8Len l := by
  cases l with
  | nil => exact absurd rfl h
  | cons c cs => have := Char.utf8Size_pos c; simp only [utf8Len]; omega

theorem utf8Len_take_le (l : List Char) (k : Nat) : utf8Len (l.take k) ≤ utf8Len l := by
  have := congrArg utf8Len (List.take_append_drop k l)
  rw [utf8Len_append] at this; omega

theorem utf8Len_take_lt (l : List Char) (k : Nat) (h : k < l.length) :
    utf8Len (l.take k) < utf8Len l := by
  have h1 := congrArg utf8Len (List.take_append_drop k l)
  rw [utf8Len_append] at h1
  have : l.drop k ≠ [] := by
    intro hd
    have := congrArg List.length hd
    simp at this; omega
  have := utf8Len_pos_of_ne_nil this
  omega

/-- byte offset of the character in column `j` -/
def byteOfCol (line : List Char) (j : Nat) : Nat := utf8Len (line.take j)

/-- The columns between the two cuts are those of the characters whose first byte lies in
`[s, e)`. -/
theorem cols_iff (pre mid post : List Char) (j : Nat) :
    (pre.length ≤ j ∧ j < pre.length + mid.length) ↔
      (utf8Len pre ≤ byteOfCol (pre ++ mid ++ post) j ∧
        byteOfCol (pre ++ mid ++ post) j < utf8Len pre + utf8Len mid) := by
  unfold byteOfCol
  by_cases h1 : j < pre.length
  · have : (pre ++ mid ++ post).take j = pre.take j := by
      rw [List.append_assoc, List.take_append_of_le_length (by omega)]
    rw [this]
    have := utf8Len_take_lt pre j h1
    constructor
    · intro h; omega
    · intro h; omega
  · by_cases h2 : j < pre.length + mid.length
    · have : (pre ++ mid ++ post).take j = pre ++ mid.take (j - pre.length) := by
        rw [List.take_append_of_le_length (by simp; omega), List.take_append]
        rw [List.take_of_length_le (by omega)]
      rw [this, utf8Len_append]
      have := utf8Len_take_lt mid (j - pre.length) (by omega)
      constructor
      · intro _; omega
      · intro _; omega
    · have : (pre ++ mid ++ post).take j = pre ++ mid ++ post.take (j - (pre ++ mid).length) := by
        rw [List.take_append, List.take_of_length_le (by simp; omega)]
      rw [this, utf8Len_append, utf8Len_append]
      constructor
      · intro h; omega
      · intro h; omega

/-! ## the whole function -/

/-- the table entries of the lines an excerpt for `[start, stop)` shows -/
def shownLines (text : List Char) (start stop : Nat) : List (Nat × Nat × List Char) :=
  (linesOf text).filter (touches start stop)

theorem listing_panic_iff (ws : Char → Bool) (text : List Char) (start stop : Nat) :
    listing ws text start stop = .panic ↔
      ∃ r ∈ rowsOf ws text start stop,
        ¬ (IsBoundary r.line r.secStart ∧ IsBoundary r.line r.secEnd ∧ r.secStart ≤ r.secEnd) := by
  unfold listing render
  have h := renderRows_isSome_iff (gutterWidth (rowsOf ws text start stop)) (rowsOf ws text start stop)
  cases hr : renderRows (gutterWidth (rowsOf ws text start stop)) (rowsOf ws text start stop) with
  | some xs =>
    rw [hr] at h
    simp only [Option.isSome_some, true_iff] at h
    simp only [reduceCtorEq, false_iff]
    rintro ⟨r, hr', hn⟩
    exact hn ((slices_isSome_iff _ _ _).mp (h r hr'))
  | none =>
    rw [hr] at h
    simp only [Option.isSome_none, Bool.false_eq_true, false_iff, Classical.not_forall] at h
    obtain ⟨r, hr1, hr2⟩ := h
    simp only [true_iff]
    exact ⟨r, hr1, fun hc => hr2 ((slices_isSome_iff _ _ _).mpr hc)⟩

theorem listing_ok_spec (ws : Char → Bool) (text : List Char) (start stop : Nat) (out : List Char)
    (h : listing ws text start stop = .ok out) :
    ∃ xs, out = joinNl xs ∧ xs.length = (shownLines text start stop).length ∧
      ∀ j e, (shownLines text start stop)[j]? = some e → ∃ pre mid post,
        (mkRow ws start stop e).line = pre ++ mid ++ post ∧
        utf8Len pre = (mkRow ws start stop e).secStart ∧
        utf8Len pre + utf8Len mid = (mkRow ws start stop e).secEnd ∧
        xs[j]? = some (gutter (gutterWidth (rowsOf ws text start stop)) (mkRow ws start stop e).num ++
          (mkRow ws start stop e).line ++ '\n' ::
          markerRow (gutterWidth (rowsOf ws text start stop))
            (decide (j + 1 = (shownLines text start stop).length)) (mkRow ws start stop e) pre mid) ∧
        (gutter (gutterWidth (rowsOf ws text start stop)) (mkRow ws start stop e).num).length =
          gutterWidth (rowsOf ws text start stop) + 3 := by
  unfold listing render at h
  cases hr : renderRows (gutterWidth (rowsOf ws text start stop)) (rowsOf ws text start stop) with
  | none => simp [hr] at h
  | some xs =>
    simp only [hr, Result.ok.injEq] at h
    obtain ⟨h1, h2⟩ := renderRows_spec _ _ _ hr
    have hrows : rowsOf ws text start stop = (shownLines text start stop).map (mkRow ws start stop) :=
      rowsOf_eq ws text start stop
    have hlen : (rowsOf ws text start stop).length = (shownLines text start stop).length := by
      rw [hrows, List.length_map]
    refine ⟨xs, h.symm, by omega, ?_⟩
    intro j e hj
    have hj' : (rowsOf ws text start stop)[j]? = some (mkRow ws start stop e) := by
      rw [hrows, List.getElem?_map, hj]; rfl
    obtain ⟨pre, mid, post, e1, e2, e3, e4⟩ := h2 j _ hj'
    refine ⟨pre, mid, post, e1, e2, e3, by rw [← hlen]; exact e4, ?_⟩
    apply gutter_length
    exact le_gutterWidth _ _ (List.mem_of_getElem? hj')

theorem markerRow_mark (gw : Nat) (last : Bool) (r : Row) (pre mid : List Char)
    (hs : utf8Len pre = r.secStart) (he : utf8Len pre + utf8Len mid = r.secEnd) (col : Nat) :
    (markerRow gw last r pre mid)[gw + 3 + col]? = some '‾' ↔
      (pre.length ≤ col ∧ col < pre.length + mid.length) := by
  unfold markerRow
  by_cases h : r.secStart = r.secEnd
  · have hm : mid = [] := utf8Len_eq_zero (by omega)
    subst hm
    simp only [h, if_true]
    rw [List.getElem?_eq_none (by simp [spaces]; omega)]
    simp
  · simp only [h, if_false]
    have e1 : gw + 3 + col = (spaces gw ++ [' ', if last = true then ' ' else '┊', ' ']).length + col := by
      simp [spaces]
    rw [List.append_assoc, e1, List.getElem?_append_right (by omega), Nat.add_sub_cancel_left]
    by_cases hc : col < pre.length
    · rw [List.getElem?_append_left (by simp [spaces]; exact hc)]
      simp [spaces, hc]
      omega
    · rw [List.getElem?_append_right (by simp [spaces]; omega)]
      simp [spaces, List.getElem?_replicate]
      omega


/-- If the range ends right after a non-blank character (the end of a token), then on every line
that starts before the end of the range the first non-blank lies inside the range's reach. -/
theorem reach_of_token_end (ws : Char → Bool) (text : List Char) (stop : Nat)
    (a b : List Char) (c : Char) (htext : text = a ++ c :: b) (hstop : utf8Len a + c.utf8Size = stop)
    (hc : ws c = false)
    (e : Nat × Nat × List Char) (he : e ∈ linesOf text) (hlt : e.2.1 < stop)
    (f : Nat) (hf : findNonWs ws (trimEnd ws e.2.2) 0 = some f) : e.2.1 + f ≤ stop := by
  obtain ⟨pre, post, h1, h2, _, _, _⟩ := linesOf_spec text e he
  obtain ⟨suf, h3, _, _⟩ := trimEnd_spec ws e.2.2
  obtain ⟨x, d, y, e1, e2, _, hx⟩ := findNonWs_some hf
  apply Classical.byContradiction
  intro hn
  -- pre is a proper prefix of a ++ [c]
  have hA : pre ++ (e.2.2 ++ post) = (a ++ [c]) ++ b := by
    rw [← List.append_assoc, ← h1, htext]; simp
  have hac : utf8Len (a ++ [c]) = stop := by
    rw [utf8Len_append]; simp only [utf8Len]; omega
  obtain ⟨z, hz1, hz2⟩ := prefix_of_le hA (by omega)
  have hzl : utf8Len z = stop - e.2.1 := by
    have := congrArg utf8Len hz1
    rw [hac, utf8Len_append] at this; omega
  -- z is a prefix of x
  have hB : z ++ b = x ++ (d :: y ++ suf ++ post) := by
    rw [← hz2]; conv => lhs; rw [h3, e1]
    simp
  obtain ⟨w, hw1, _⟩ := prefix_of_le hB (by omega)
  -- the last character of z is c
  have hzne : z ≠ [] := by
    intro h; subst h; simp [utf8Len] at hzl; omega
  have hlast : z.getLast? = some c := by
    have := congrArg List.getLast? hz1
    rw [List.getLast?_append, List.getLast?_append] at this
    cases hz : z.getLast? with
    | none => exact absurd (List.getLast?_eq_none_iff.mp hz) hzne
    | some q => rw [hz] at this; simpa using this.symm
  have hcz : c ∈ z := List.mem_of_getLast? hlast
  have := hx c (by rw [hw1]; exact List.mem_append_left _ hcz)
  rw [hc] at this
  cases this


/-! ## more about the line table -/

theorem splitLines_length (text : List Char) : (splitLines text).length = text.count '\n' + 1 := by
  induction text with
  | nil => rfl
  | cons c cs ih =>
    simp only [splitLines]
    split
    · next h => subst h; simp [ih]
    · next h =>
      have hc : (c :: cs).count '\n' = cs.count '\n' := by
        rw [List.count_cons]; simp [h]
      split
      · next l ls h2 => rw [h2] at ih; rw [hc, ← ih]; rfl
      · next h2 => exact absurd h2 (splitLines_ne_nil cs)

theorem lineTable_mem (lines : List (List Char)) (i pos : Nat) :
    ∀ e ∈ lineTable lines i pos, e.2.2 ∈ lines := by
  induction lines generalizing i pos with
  | nil => simp [lineTable]
  | cons l ls ih =>
    intro e he
    simp only [lineTable] at he
    rcases List.mem_cons.mp he with rfl | he
    · exact List.mem_cons_self
    · exact List.mem_cons_of_mem _ (ih _ _ e he)

theorem linesOf_index (text : List Char) :
    (linesOf text).map (·.1) = List.range (text.count '\n' + 1) := by
  unfold linesOf
  rw [lineTable_index, splitLines_length]
  simp

theorem linesOf_pairwise (text : List Char) :
    List.Pairwise (fun a b => a.1 < b.1) (linesOf text) := by
  have h : List.Pairwise (· < ·) ((linesOf text).map (·.1)) := by
    rw [linesOf_index]; exact List.pairwise_lt_range
  exact List.pairwise_map.mp h

end Listing
