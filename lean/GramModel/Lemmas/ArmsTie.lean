import GramModel.DeBruijn
import GramModel.Eval
import GramModel.Print
import GramModel.Generated.Arms

/-!
# The model functions are the interpretation of the arm tables regenerated from the Rust sources

`Generated/Arms.lean` is rewritten on every run by `extract/arms.py` from `de_bruijn.rs`, `term.rs`,
`evaluator.rs`, `normalizer.rs`, `type_checker.rs`, `unifier.rs`, `equality.rs`: for every match arm of
`signed_shift`, `open` and `free_variables` it records which children are traversed, in which order
they are put back and how the varying parameters change on the way down.

Here the tables are *interpreted* (`gshift`, `gopen`, `gfv` take every cutoff / index / shift amount
from the table, per Rust variant — nine rows for the nine binary operators that the model collapses
into one constructor) and the interpretation is **proved equal** to the hand-written model functions
`sshift`, `openT`, `freeVars` for every term, cutoff and amount.  A Rust arm that is changed (a
`cutoff + 1` dropped, the `Let` arm using the outer cutoff for annotations, the operands of `Quotient`
put back in the other order, a child no longer traversed) changes its row, and the theorem — hence
every theorem of C11 that is stated about `sshift`/`openT`/`freeVars` — no longer speaks about the
code: the build of this file fails.
-/

open Generated

def BinOp.toV : BinOp → V
  | .sum => .Sum | .diff => .Difference | .prod => .Product | .quot => .Quotient
  | .lt => .LessThan | .le => .LessThanOrEqualTo | .eq => .EqualTo | .gt => .GreaterThan
  | .ge => .GreaterThanOrEqualTo

def Generated.D.app : D → Nat → Nat → Nat
  | .same, c, _ => c
  | .plus1, c, _ => c + 1
  | .plusLen, c, n => c + n

/-- the row of a variant -/
def armOf (arms : List Arm) (v : V) : Option Arm := arms.find? (fun a => a.variant == v)

/-- the children a congruence arm must traverse, in the order of the constructor's fields
(10/11/12 = variable / annotation / definition of a `Let` definition) -/
def expectedChildren : V → List Nat
  | .Lambda | .Pi => [2, 3]
  | .Application => [0, 1]
  | .Let => [11, 12, 1]
  | .Negation => [0]
  | .If => [0, 1, 2]
  | .Sum | .Difference | .Product | .Quotient | .LessThan | .LessThanOrEqualTo | .EqualTo
  | .GreaterThan | .GreaterThanOrEqualTo => [0, 1]
  | _ => []

/-- a row is well formed: it rebuilds the variant it matched and traverses exactly the children of
that variant, putting them back in their own places -/
def Generated.Arm.wf (a : Arm) : Bool :=
  a.rebuilt == a.variant && a.calls.map (·.1) == expectedChildren a.variant && !(expectedChildren a.variant).isEmpty

/-- the delta of the `p`-th varying parameter at the `k`-th traversed child of variant `v` -/
def dl (arms : List Arm) (v : V) (k p : Nat) : Option D :=
  match armOf arms v with
  | none => none
  | some a => if a.wf then (a.calls[k]?).bind (fun c => c.2[p]?) else none

/-! ## `signed_shift` -/

mutual
def gshift (arms : List Arm) (leaves : List V) (c : Nat) (amt : Int) : Tm → Option Tm
  | .var x i =>
      if i ≥ c then
        if (i : Int) + amt ≥ (c : Int) then some (.var x ((i : Int) + amt).toNat) else none
      else some (.var x i)
  | .hole id s =>
      if s ≥ c then
        if (s : Int) + amt ≥ (c : Int) then some (.hole id ((s : Int) + amt).toNat) else none
      else some (.hole id s)
  | .lam x im d b =>
      match dl arms .Lambda 0 0, dl arms .Lambda 1 0 with
      | some e0, some e1 =>
        (match gshift arms leaves (e0.app c 0) amt d with
        | none => none
        | some d' => match gshift arms leaves (e1.app c 0) amt b with
          | none => none
          | some b' => some (.lam x im d' b'))
      | _, _ => none
  | .pi x im d b =>
      match dl arms .Pi 0 0, dl arms .Pi 1 0 with
      | some e0, some e1 =>
        (match gshift arms leaves (e0.app c 0) amt d with
        | none => none
        | some d' => match gshift arms leaves (e1.app c 0) amt b with
          | none => none
          | some b' => some (.pi x im d' b'))
      | _, _ => none
  | .app f a =>
      match dl arms .Application 0 0, dl arms .Application 1 0 with
      | some e0, some e1 =>
        (match gshift arms leaves (e0.app c 0) amt f with
        | none => none
        | some f' => match gshift arms leaves (e1.app c 0) amt a with
          | none => none
          | some a' => some (.app f' a'))
      | _, _ => none
  | .letg ds b =>
      match dl arms .Let 0 0, dl arms .Let 1 0, dl arms .Let 2 0 with
      | some e0, some e1, some e2 =>
        (match gshiftDefs arms leaves (e0.app c ds.len) (e1.app c ds.len) amt ds with
        | none => none
        | some ds' => match gshift arms leaves (e2.app c ds.len) amt b with
          | none => none
          | some b' => some (.letg ds' b'))
      | _, _, _ => none
  | .neg a =>
      match dl arms .Negation 0 0 with
      | some e0 =>
        (match gshift arms leaves (e0.app c 0) amt a with
        | none => none
        | some a' => some (.neg a'))
      | none => none
  | .bin op a b =>
      match dl arms op.toV 0 0, dl arms op.toV 1 0 with
      | some e0, some e1 =>
        (match gshift arms leaves (e0.app c 0) amt a with
        | none => none
        | some a' => match gshift arms leaves (e1.app c 0) amt b with
          | none => none
          | some b' => some (.bin op a' b'))
      | _, _ => none
  | .ite a b d =>
      match dl arms .If 0 0, dl arms .If 1 0, dl arms .If 2 0 with
      | some e0, some e1, some e2 =>
        (match gshift arms leaves (e0.app c 0) amt a with
        | none => none
        | some a' => match gshift arms leaves (e1.app c 0) amt b with
          | none => none
          | some b' => match gshift arms leaves (e2.app c 0) amt d with
            | none => none
            | some d' => some (.ite a' b' d'))
      | _, _, _ => none
  | .type => if leaves.contains .Type then some .type else none
  | .int => if leaves.contains .Integer then some .int else none
  | .bool => if leaves.contains .Boolean then some .bool else none
  | .tt => if leaves.contains .True then some .tt else none
  | .ff => if leaves.contains .False then some .ff else none
  | .lit n => if leaves.contains .IntegerLiteral then some (.lit n) else none
def gshiftDefs (arms : List Arm) (leaves : List V) (ca cd : Nat) (amt : Int) : Defs → Option Defs
  | .nil => some .nil
  | .cons x a d r =>
      match gshift arms leaves ca amt a with
      | none => none
      | some a' => match gshift arms leaves cd amt d with
        | none => none
        | some d' => match gshiftDefs arms leaves ca cd amt r with
          | none => none
          | some r' => some (.cons x a' d' r')
end

/-! the rows of the current tables, as rewriting rules (each is decided by evaluation of the
regenerated table, so each fails when its row changes) -/

section ShiftRows
theorem shift_lam0 : dl shiftArms .Lambda 0 0 = some .same := by decide
theorem shift_lam1 : dl shiftArms .Lambda 1 0 = some .plus1 := by decide
theorem shift_pi0 : dl shiftArms .Pi 0 0 = some .same := by decide
theorem shift_pi1 : dl shiftArms .Pi 1 0 = some .plus1 := by decide
theorem shift_app0 : dl shiftArms .Application 0 0 = some .same := by decide
theorem shift_app1 : dl shiftArms .Application 1 0 = some .same := by decide
theorem shift_let0 : dl shiftArms .Let 0 0 = some .plusLen := by decide
theorem shift_let1 : dl shiftArms .Let 1 0 = some .plusLen := by decide
theorem shift_let2 : dl shiftArms .Let 2 0 = some .plusLen := by decide
theorem shift_neg0 : dl shiftArms .Negation 0 0 = some .same := by decide
theorem shift_if0 : dl shiftArms .If 0 0 = some .same := by decide
theorem shift_if1 : dl shiftArms .If 1 0 = some .same := by decide
theorem shift_if2 : dl shiftArms .If 2 0 = some .same := by decide
theorem shift_bin0 (op : BinOp) : dl shiftArms op.toV 0 0 = some .same := by cases op <;> decide
theorem shift_bin1 (op : BinOp) : dl shiftArms op.toV 1 0 = some .same := by cases op <;> decide
theorem shift_leaves : V.Type ∈ shiftLeaves ∧ V.Integer ∈ shiftLeaves ∧ V.Boolean ∈ shiftLeaves ∧ V.True ∈ shiftLeaves ∧
    V.False ∈ shiftLeaves ∧ V.IntegerLiteral ∈ shiftLeaves := by decide
end ShiftRows

mutual
theorem gshift_eq : ∀ (t : Tm) (c : Nat) (amt : Int), gshift shiftArms shiftLeaves c amt t = sshift c amt t
  | .var .., _, _ => by simp [gshift, sshift]
  | .hole .., _, _ => by simp [gshift, sshift]
  | .lam x im d b, c, amt => by
      simp [gshift, sshift, shift_lam0, shift_lam1, D.app, gshift_eq d, gshift_eq b] <;> (repeat (split <;> simp_all))
  | .pi x im d b, c, amt => by
      simp [gshift, sshift, shift_pi0, shift_pi1, D.app, gshift_eq d, gshift_eq b] <;> (repeat (split <;> simp_all))
  | .app f a, c, amt => by
      simp [gshift, sshift, shift_app0, shift_app1, D.app, gshift_eq f, gshift_eq a] <;> (repeat (split <;> simp_all))
  | .letg ds b, c, amt => by
      simp [gshift, sshift, shift_let0, shift_let1, shift_let2, D.app, gshiftDefs_eq ds, gshift_eq b] <;> (repeat (split <;> simp_all))
  | .neg a, c, amt => by simp [gshift, sshift, shift_neg0, D.app, gshift_eq a] <;> (repeat (split <;> simp_all))
  | .bin op a b, c, amt => by
      simp [gshift, sshift, shift_bin0, shift_bin1, D.app, gshift_eq a, gshift_eq b] <;> (repeat (split <;> simp_all))
  | .ite a b d, c, amt => by
      simp [gshift, sshift, shift_if0, shift_if1, shift_if2, D.app, gshift_eq a, gshift_eq b, gshift_eq d] <;> (repeat (split <;> simp_all))
  | .type, _, _ => by simp [gshift, sshift, shift_leaves.1] <;> (repeat (split <;> simp_all))
  | .int, _, _ => by simp [gshift, sshift, shift_leaves.2.1] <;> (repeat (split <;> simp_all))
  | .bool, _, _ => by simp [gshift, sshift, shift_leaves.2.2.1] <;> (repeat (split <;> simp_all))
  | .tt, _, _ => by simp [gshift, sshift, shift_leaves.2.2.2.1] <;> (repeat (split <;> simp_all))
  | .ff, _, _ => by simp [gshift, sshift, shift_leaves.2.2.2.2.1] <;> (repeat (split <;> simp_all))
  | .lit n, _, _ => by simp [gshift, sshift, shift_leaves.2.2.2.2.2] <;> (repeat (split <;> simp_all))
theorem gshiftDefs_eq : ∀ (ds : Defs) (c : Nat) (amt : Int),
    gshiftDefs shiftArms shiftLeaves c c amt ds = sshiftDefs c amt ds
  | .nil, _, _ => by simp [gshiftDefs, sshiftDefs]
  | .cons x a d r, c, amt => by
      simp [gshiftDefs, sshiftDefs, gshift_eq a, gshift_eq d, gshiftDefs_eq r] <;> (repeat (split <;> simp_all))
end

/-! ## `open` -/

mutual
def gopen (arms : List Arm) (leaves : List V) (t : Tm) (i : Nat) (u : Tm) (s : Nat) : Option Tm :=
  match t with
  | .var x j => some (if j = i then ushift 0 s u else if j > i then .var x (j - 1) else .var x j)
  | .hole id k => some (if k > i then .hole id (k - 1) else .hole id k)
  | .lam x im d b =>
      match dl arms .Lambda 0 0, dl arms .Lambda 0 1, dl arms .Lambda 1 0, dl arms .Lambda 1 1 with
      | some i0, some s0, some i1, some s1 =>
        (match gopen arms leaves d (i0.app i 0) u (s0.app s 0), gopen arms leaves b (i1.app i 0) u (s1.app s 0) with
        | some d', some b' => some (.lam x im d' b')
        | _, _ => none)
      | _, _, _, _ => none
  | .pi x im d b =>
      match dl arms .Pi 0 0, dl arms .Pi 0 1, dl arms .Pi 1 0, dl arms .Pi 1 1 with
      | some i0, some s0, some i1, some s1 =>
        (match gopen arms leaves d (i0.app i 0) u (s0.app s 0), gopen arms leaves b (i1.app i 0) u (s1.app s 0) with
        | some d', some b' => some (.pi x im d' b')
        | _, _ => none)
      | _, _, _, _ => none
  | .app f a =>
      match dl arms .Application 0 0, dl arms .Application 0 1, dl arms .Application 1 0, dl arms .Application 1 1 with
      | some i0, some s0, some i1, some s1 =>
        (match gopen arms leaves f (i0.app i 0) u (s0.app s 0), gopen arms leaves a (i1.app i 0) u (s1.app s 0) with
        | some f', some a' => some (.app f' a')
        | _, _ => none)
      | _, _, _, _ => none
  | .letg ds b =>
      match dl arms .Let 0 0, dl arms .Let 0 1, dl arms .Let 1 0, dl arms .Let 1 1, dl arms .Let 2 0, dl arms .Let 2 1 with
      | some i0, some s0, some i1, some s1, some i2, some s2 =>
        (match gopenDefs arms leaves ds (i0.app i ds.len) (s0.app s ds.len) (i1.app i ds.len) (s1.app s ds.len) u,
               gopen arms leaves b (i2.app i ds.len) u (s2.app s ds.len) with
        | some ds', some b' => some (.letg ds' b')
        | _, _ => none)
      | _, _, _, _, _, _ => none
  | .neg a =>
      match dl arms .Negation 0 0, dl arms .Negation 0 1 with
      | some i0, some s0 =>
        (match gopen arms leaves a (i0.app i 0) u (s0.app s 0) with
        | some a' => some (.neg a')
        | none => none)
      | _, _ => none
  | .bin op a b =>
      match dl arms op.toV 0 0, dl arms op.toV 0 1, dl arms op.toV 1 0, dl arms op.toV 1 1 with
      | some i0, some s0, some i1, some s1 =>
        (match gopen arms leaves a (i0.app i 0) u (s0.app s 0), gopen arms leaves b (i1.app i 0) u (s1.app s 0) with
        | some a', some b' => some (.bin op a' b')
        | _, _ => none)
      | _, _, _, _ => none
  | .ite a b d =>
      match dl arms .If 0 0, dl arms .If 0 1, dl arms .If 1 0, dl arms .If 1 1, dl arms .If 2 0, dl arms .If 2 1 with
      | some i0, some s0, some i1, some s1, some i2, some s2 =>
        (match gopen arms leaves a (i0.app i 0) u (s0.app s 0), gopen arms leaves b (i1.app i 0) u (s1.app s 0),
               gopen arms leaves d (i2.app i 0) u (s2.app s 0) with
        | some a', some b', some d' => some (.ite a' b' d')
        | _, _, _ => none)
      | _, _, _, _, _, _ => none
  | .type => if leaves.contains .Type then some .type else none
  | .int => if leaves.contains .Integer then some .int else none
  | .bool => if leaves.contains .Boolean then some .bool else none
  | .tt => if leaves.contains .True then some .tt else none
  | .ff => if leaves.contains .False then some .ff else none
  | .lit n => if leaves.contains .IntegerLiteral then some (.lit n) else none
def gopenDefs (arms : List Arm) (leaves : List V) (ds : Defs) (ia sa id sd : Nat) (u : Tm) : Option Defs :=
  match ds with
  | .nil => some .nil
  | .cons x a d r =>
      match gopen arms leaves a ia u sa, gopen arms leaves d id u sd, gopenDefs arms leaves r ia sa id sd u with
      | some a', some d', some r' => some (.cons x a' d' r')
      | _, _, _ => none
end

section OpenRows
theorem open_lam : dl openArms .Lambda 0 0 = some .same ∧ dl openArms .Lambda 0 1 = some .same ∧
    dl openArms .Lambda 1 0 = some .plus1 ∧ dl openArms .Lambda 1 1 = some .plus1 := by decide
theorem open_pi : dl openArms .Pi 0 0 = some .same ∧ dl openArms .Pi 0 1 = some .same ∧
    dl openArms .Pi 1 0 = some .plus1 ∧ dl openArms .Pi 1 1 = some .plus1 := by decide
theorem open_app : dl openArms .Application 0 0 = some .same ∧ dl openArms .Application 0 1 = some .same ∧
    dl openArms .Application 1 0 = some .same ∧ dl openArms .Application 1 1 = some .same := by decide
theorem open_let : dl openArms .Let 0 0 = some .plusLen ∧ dl openArms .Let 0 1 = some .plusLen ∧
    dl openArms .Let 1 0 = some .plusLen ∧ dl openArms .Let 1 1 = some .plusLen ∧
    dl openArms .Let 2 0 = some .plusLen ∧ dl openArms .Let 2 1 = some .plusLen := by decide
theorem open_neg : dl openArms .Negation 0 0 = some .same ∧ dl openArms .Negation 0 1 = some .same := by decide
theorem open_if : dl openArms .If 0 0 = some .same ∧ dl openArms .If 0 1 = some .same ∧
    dl openArms .If 1 0 = some .same ∧ dl openArms .If 1 1 = some .same ∧
    dl openArms .If 2 0 = some .same ∧ dl openArms .If 2 1 = some .same := by decide
theorem open_bin (op : BinOp) : dl openArms op.toV 0 0 = some .same ∧ dl openArms op.toV 0 1 = some .same ∧
    dl openArms op.toV 1 0 = some .same ∧ dl openArms op.toV 1 1 = some .same := by cases op <;> decide
theorem open_leaves : V.Type ∈ openLeaves ∧ V.Integer ∈ openLeaves ∧ V.Boolean ∈ openLeaves ∧ V.True ∈ openLeaves ∧
    V.False ∈ openLeaves ∧ V.IntegerLiteral ∈ openLeaves := by decide
end OpenRows

mutual
theorem gopen_eq : ∀ (t : Tm) (i : Nat) (u : Tm) (s : Nat),
    gopen openArms openLeaves t i u s = some (openT t i u s)
  | .var .., _, _, _ => by simp [gopen, openT]
  | .hole .., _, _, _ => by simp [gopen, openT]
  | .lam x im d b, i, u, s => by
      simp [gopen, openT, open_lam, D.app, gopen_eq d, gopen_eq b] <;> (repeat (split <;> simp_all))
  | .pi x im d b, i, u, s => by
      simp [gopen, openT, open_pi, D.app, gopen_eq d, gopen_eq b] <;> (repeat (split <;> simp_all))
  | .app f a, i, u, s => by
      simp [gopen, openT, open_app, D.app, gopen_eq f, gopen_eq a] <;> (repeat (split <;> simp_all))
  | .letg ds b, i, u, s => by
      simp [gopen, openT, open_let, D.app, gopenDefs_eq ds, gopen_eq b] <;> (repeat (split <;> simp_all))
  | .neg a, i, u, s => by simp [gopen, openT, open_neg, D.app, gopen_eq a] <;> (repeat (split <;> simp_all))
  | .bin op a b, i, u, s => by
      simp [gopen, openT, open_bin op, D.app, gopen_eq a, gopen_eq b] <;> (repeat (split <;> simp_all))
  | .ite a b d, i, u, s => by
      simp [gopen, openT, open_if, D.app, gopen_eq a, gopen_eq b, gopen_eq d] <;> (repeat (split <;> simp_all))
  | .type, _, _, _ => by simp [gopen, openT, open_leaves.1] <;> (repeat (split <;> simp_all))
  | .int, _, _, _ => by simp [gopen, openT, open_leaves.2.1] <;> (repeat (split <;> simp_all))
  | .bool, _, _, _ => by simp [gopen, openT, open_leaves.2.2.1] <;> (repeat (split <;> simp_all))
  | .tt, _, _, _ => by simp [gopen, openT, open_leaves.2.2.2.1] <;> (repeat (split <;> simp_all))
  | .ff, _, _, _ => by simp [gopen, openT, open_leaves.2.2.2.2.1] <;> (repeat (split <;> simp_all))
  | .lit n, _, _, _ => by simp [gopen, openT, open_leaves.2.2.2.2.2] <;> (repeat (split <;> simp_all))
theorem gopenDefs_eq : ∀ (ds : Defs) (i : Nat) (u : Tm) (s : Nat),
    gopenDefs openArms openLeaves ds i s i s u = some (openDefs ds i u s)
  | .nil, _, _, _ => by simp [gopenDefs, openDefs]
  | .cons x a d r, i, u, s => by
      simp [gopenDefs, openDefs, gopen_eq a, gopen_eq d, gopenDefs_eq r] <;> (repeat (split <;> simp_all))
end

/-! ## `free_variables` -/

mutual
def gfv (arms : List Arm) (leaves : List V) (t : Tm) (c : Nat) : Option (List Nat) :=
  match t with
  | .var _ i => some (if i ≥ c then [i - c] else [])
  | .hole _ _ => some []
  | .lam _ _ d b =>
      match dl arms .Lambda 0 0, dl arms .Lambda 1 0 with
      | some e0, some e1 =>
        (match gfv arms leaves d (e0.app c 0), gfv arms leaves b (e1.app c 0) with
        | some x, some y => some (x ++ y)
        | _, _ => none)
      | _, _ => none
  | .pi _ _ d b =>
      match dl arms .Pi 0 0, dl arms .Pi 1 0 with
      | some e0, some e1 =>
        (match gfv arms leaves d (e0.app c 0), gfv arms leaves b (e1.app c 0) with
        | some x, some y => some (x ++ y)
        | _, _ => none)
      | _, _ => none
  | .app f a =>
      match dl arms .Application 0 0, dl arms .Application 1 0 with
      | some e0, some e1 =>
        (match gfv arms leaves f (e0.app c 0), gfv arms leaves a (e1.app c 0) with
        | some x, some y => some (x ++ y)
        | _, _ => none)
      | _, _ => none
  | .letg ds b =>
      match dl arms .Let 0 0, dl arms .Let 1 0, dl arms .Let 2 0 with
      | some e0, some e1, some e2 =>
        (match gfvDefs arms leaves ds (e0.app c ds.len) (e1.app c ds.len), gfv arms leaves b (e2.app c ds.len) with
        | some x, some y => some (x ++ y)
        | _, _ => none)
      | _, _, _ => none
  | .neg a =>
      match dl arms .Negation 0 0 with
      | some e0 => gfv arms leaves a (e0.app c 0)
      | none => none
  | .bin op a b =>
      match dl arms op.toV 0 0, dl arms op.toV 1 0 with
      | some e0, some e1 =>
        (match gfv arms leaves a (e0.app c 0), gfv arms leaves b (e1.app c 0) with
        | some x, some y => some (x ++ y)
        | _, _ => none)
      | _, _ => none
  | .ite a b d =>
      match dl arms .If 0 0, dl arms .If 1 0, dl arms .If 2 0 with
      | some e0, some e1, some e2 =>
        (match gfv arms leaves a (e0.app c 0), gfv arms leaves b (e1.app c 0), gfv arms leaves d (e2.app c 0) with
        | some x, some y, some z => some (x ++ y ++ z)
        | _, _, _ => none)
      | _, _, _ => none
  | .type => if leaves.contains .Type then some [] else none
  | .int => if leaves.contains .Integer then some [] else none
  | .bool => if leaves.contains .Boolean then some [] else none
  | .tt => if leaves.contains .True then some [] else none
  | .ff => if leaves.contains .False then some [] else none
  | .lit _ => if leaves.contains .IntegerLiteral then some [] else none
def gfvDefs (arms : List Arm) (leaves : List V) (ds : Defs) (ca cd : Nat) : Option (List Nat) :=
  match ds with
  | .nil => some []
  | .cons _ a d r =>
      match gfv arms leaves a ca, gfv arms leaves d cd, gfvDefs arms leaves r ca cd with
      | some x, some y, some z => some (x ++ y ++ z)
      | _, _, _ => none
end

section FvRows
theorem fv_lam : dl fvArms .Lambda 0 0 = some .same ∧ dl fvArms .Lambda 1 0 = some .plus1 := by decide
theorem fv_pi : dl fvArms .Pi 0 0 = some .same ∧ dl fvArms .Pi 1 0 = some .plus1 := by decide
theorem fv_app : dl fvArms .Application 0 0 = some .same ∧ dl fvArms .Application 1 0 = some .same := by decide
theorem fv_let : dl fvArms .Let 0 0 = some .plusLen ∧ dl fvArms .Let 1 0 = some .plusLen ∧
    dl fvArms .Let 2 0 = some .plusLen := by decide
theorem fv_neg : dl fvArms .Negation 0 0 = some .same := by decide
theorem fv_if : dl fvArms .If 0 0 = some .same ∧ dl fvArms .If 1 0 = some .same ∧
    dl fvArms .If 2 0 = some .same := by decide
theorem fv_bin (op : BinOp) : dl fvArms op.toV 0 0 = some .same ∧ dl fvArms op.toV 1 0 = some .same := by
  cases op <;> decide
theorem fv_leaves : V.Type ∈ fvLeaves ∧ V.Integer ∈ fvLeaves ∧ V.Boolean ∈ fvLeaves ∧ V.True ∈ fvLeaves ∧
    V.False ∈ fvLeaves ∧ V.IntegerLiteral ∈ fvLeaves := by decide
end FvRows

mutual
theorem gfv_eq : ∀ (t : Tm) (c : Nat), gfv fvArms fvLeaves t c = some (freeVars t c)
  | .var .., _ => by simp [gfv, freeVars]
  | .hole .., _ => by simp [gfv, freeVars]
  | .lam _ _ d b, c => by simp [gfv, freeVars, fv_lam, D.app, gfv_eq d, gfv_eq b] <;> (repeat (split <;> simp_all))
  | .pi _ _ d b, c => by simp [gfv, freeVars, fv_pi, D.app, gfv_eq d, gfv_eq b] <;> (repeat (split <;> simp_all))
  | .app f a, c => by simp [gfv, freeVars, fv_app, D.app, gfv_eq f, gfv_eq a] <;> (repeat (split <;> simp_all))
  | .letg ds b, c => by simp [gfv, freeVars, fv_let, D.app, gfvDefs_eq ds, gfv_eq b] <;> (repeat (split <;> simp_all))
  | .neg a, c => by simp [gfv, freeVars, fv_neg, D.app, gfv_eq a] <;> (repeat (split <;> simp_all))
  | .bin op a b, c => by simp [gfv, freeVars, fv_bin op, D.app, gfv_eq a, gfv_eq b] <;> (repeat (split <;> simp_all))
  | .ite a b d, c => by simp [gfv, freeVars, fv_if, D.app, gfv_eq a, gfv_eq b, gfv_eq d] <;> (repeat (split <;> simp_all))
  | .type, _ => by simp [gfv, freeVars, fv_leaves.1] <;> (repeat (split <;> simp_all))
  | .int, _ => by simp [gfv, freeVars, fv_leaves.2.1] <;> (repeat (split <;> simp_all))
  | .bool, _ => by simp [gfv, freeVars, fv_leaves.2.2.1] <;> (repeat (split <;> simp_all))
  | .tt, _ => by simp [gfv, freeVars, fv_leaves.2.2.2.1] <;> (repeat (split <;> simp_all))
  | .ff, _ => by simp [gfv, freeVars, fv_leaves.2.2.2.2.1] <;> (repeat (split <;> simp_all))
  | .lit _, _ => by simp [gfv, freeVars, fv_leaves.2.2.2.2.2] <;> (repeat (split <;> simp_all))
theorem gfvDefs_eq : ∀ (ds : Defs) (c : Nat), gfvDefs fvArms fvLeaves ds c c = some (freeVarsDefs ds c)
  | .nil, _ => by simp [gfvDefs, freeVarsDefs]
  | .cons _ a d r, c => by simp [gfvDefs, freeVarsDefs, gfv_eq a, gfv_eq d, gfvDefs_eq r] <;> (repeat (split <;> simp_all))
end

/-! ## The primitive rules of the evaluator and of the normalizer -/

/-- what a primitive does to two integer literals (`none` = no step / `checked_div` by zero;
the panicking `/` is rendered as `none` as well, so it can never be proved equal to `delta`) -/
def Generated.Prim.sem : Prim → Int → Int → Option Tm
  | .add, a, b => some (.lit (a + b))
  | .addSwap, a, b => some (.lit (b + a))
  | .sub, a, b => some (.lit (a - b))
  | .subSwap, a, b => some (.lit (b - a))
  | .mul, a, b => some (.lit (a * b))
  | .mulSwap, a, b => some (.lit (b * a))
  | .tdiv, a, b => if b = 0 then none else some (.lit (Int.tdiv a b))
  | .tdivSwap, a, b => if a = 0 then none else some (.lit (Int.tdiv b a))
  | .divPanicking, _, _ => none
  | .lt, a, b => some (if a < b then .tt else .ff)
  | .ltNeg, a, b => some (if a < b then .ff else .tt)
  | .ltSwap, a, b => some (if b < a then .tt else .ff)
  | .ltSwapNeg, a, b => some (if b < a then .ff else .tt)
  | .le, a, b => some (if a ≤ b then .tt else .ff)
  | .leNeg, a, b => some (if a ≤ b then .ff else .tt)
  | .leSwap, a, b => some (if b ≤ a then .tt else .ff)
  | .leSwapNeg, a, b => some (if b ≤ a then .ff else .tt)
  | .eq, a, b => some (if a = b then .tt else .ff)
  | .eqNeg, a, b => some (if a = b then .ff else .tt)
  | .eqSwap, a, b => some (if b = a then .tt else .ff)
  | .eqSwapNeg, a, b => some (if b = a then .ff else .tt)
  | .gt, a, b => some (if a > b then .tt else .ff)
  | .gtNeg, a, b => some (if a > b then .ff else .tt)
  | .gtSwap, a, b => some (if b > a then .tt else .ff)
  | .gtSwapNeg, a, b => some (if b > a then .ff else .tt)
  | .ge, a, b => some (if a ≥ b then .tt else .ff)
  | .geNeg, a, b => some (if a ≥ b then .ff else .tt)
  | .geSwap, a, b => some (if b ≥ a then .tt else .ff)
  | .geSwapNeg, a, b => some (if b ≥ a then .ff else .tt)
  | .ne, a, b => some (if a ≠ b then .tt else .ff)
  | .neNeg, a, b => some (if a ≠ b then .ff else .tt)
  | .neSwap, a, b => some (if b ≠ a then .tt else .ff)
  | .neSwapNeg, a, b => some (if b ≠ a then .ff else .tt)

def primOf (tbl : List (V × Prim)) (v : V) : Option Prim := (tbl.find? (fun p => p.1 == v)).map (·.2)

/-- the primitive of each binary arm of `evaluator.rs::step`, read as a function on literals, is the
model's `delta` — for every operator and all operands -/
theorem stepPrims_delta (op : BinOp) (a b : Int) :
    (primOf stepPrims op.toV).bind (fun p => p.sem a b) = delta op a b := by
  cases op <;> simp [primOf, stepPrims, BinOp.toV, Prim.sem, delta]

/-- the same for `normalizer.rs::normalize_weak_head` (the checker computes what the evaluator computes) -/
theorem whnfPrims_delta (op : BinOp) (a b : Int) :
    (primOf whnfPrims op.toV).bind (fun p => p.sem a b) = delta op a b := by
  cases op <;> simp [primOf, whnfPrims, BinOp.toV, Prim.sem, delta]

/-! ## Shapes that are compared with the one shape the model implements for all nine operators -/

def allBinary : List V := [.Sum, .Difference, .Product, .Quotient, .LessThan, .LessThanOrEqualTo, .EqualTo,
  .GreaterThan, .GreaterThanOrEqualTo]

/-- every binary arm of `step`: left operand steps first, must then be a value, then the right one
steps, must then be a value; the congruence nodes keep the operator and the operand places -/
def stepShapeOK : Bool :=
  stepShape.map (·.1) == allBinary &&
  stepShape.all (fun r => r.2.1 == [.st1, .nv1, .st2, .nv2] && r.2.2 == [(r.1, [.s1, .t2]), (r.1, [.t1, .s2])])

def resultTy : V → Ty
  | .Sum | .Difference | .Product | .Quotient => .int
  | _ => .bool

/-- every binary arm of `type_check_rec`: infer the left operand, require `int` (error at the left
operand), infer the right operand, require `int` (error at the right operand), rebuild the same
operator with the operands in place, return `int` for arithmetic and `bool` for comparisons -/
def checkShapeOK : Bool :=
  checkShape.map (·.1) == allBinary &&
  checkShape.all (fun r =>
    r.2.1 == [.inf 1, .uni 1 .int 1, .inf 2, .uni 2 .int 2] && r.2.2.1 == r.1 && r.2.2.2.1 == 1 && r.2.2.2.2.1 == 2 &&
    r.2.2.2.2.2 == resultTy r.1)

def pairChildren : V → List (Nat × Nat)
  | .Lambda => [(3, 3)]
  | .Pi => [(2, 2), (3, 3)]
  | .Application => [(0, 0), (1, 1)]
  | .Negation => [(0, 0)]
  | .If => [(0, 0), (1, 1), (2, 2)]
  | _ => [(0, 0), (1, 1)]

/-- every structural arm of a comparison relates like with like: the same variant on both sides, the
i-th child with the i-th child, all of them, joined by `&&` -/
def pairsOK (tbl : List (V × V × List (Nat × Nat) × Bool)) : Bool :=
  tbl.map (·.1) == [.Lambda, .Pi, .Application, .Negation] ++ allBinary ++ [.If] &&
  tbl.all (fun r => r.2.1 == r.1 && r.2.2.1 == pairChildren r.1 && r.2.2.2)

/-! ## Which subterm a type diagnostic points at -/

/-- Every type diagnostic of `type_check_rec` is reported when a `unify` fails, and carries the source range of
the subterm **whose inferred type** was one of the two sides (`unify(&x_type, …)` ⇒ the range of `x`); the one
exception is the comparison of the two branches of a conditional, reported at the whole conditional.  And the
arms report what they are known to report: one site for `Lambda` (domain) and `Negation`, two for `Pi`
(domain, codomain), `Application` (applicand, argument), `Let` (annotation, definition), each binary
operator (left, right) and `If` (condition, branches). -/
def errSitesOK (sites : List (V × List String × List Bool × String)) : Bool :=
  sites.map (·.1) == [.Lambda, .Pi, .Pi, .Application, .Application, .Let, .Let, .Negation] ++
      allBinary.flatMap (fun v => [v, v]) ++ [.If, .If] &&
  sites.all (fun s =>
    match s.2.1, s.2.2.1 with
    | [a, b], [ta, tb] =>
        (ta && a == s.2.2.2) || (tb && b == s.2.2.2) ||
        (s.1 == .If && ta && tb && a == "then_branch" && b == "else_branch" && s.2.2.2 == "term")
    | _, _ => false)

/-! ## The printer's operator arms -/

def vToBinOp : V → Option BinOp
  | .Sum => some .sum | .Difference => some .diff | .Product => some .prod | .Quotient => some .quot
  | .LessThan => some .lt | .LessThanOrEqualTo => some .le | .EqualTo => some .eq | .GreaterThan => some .gt
  | .GreaterThanOrEqualTo => some .ge | _ => none

/-- every binary arm of `Display` prints `group(left) OP group(right)` with single spaces and the operator text the
model prints (`opChars`), operands in place; negation prints `-group(operand)` -/
def printOpsOK : Bool :=
  printOps.map (·.1) == allBinary ++ [.Negation] &&
  printOps.all (fun r =>
    match vToBinOp r.1 with
    | some op => r.2.1.toList == "{} ".toList ++ opChars op ++ " {}".toList && r.2.2 == [("group", 0), ("group", 1)]
    | none => r.2.1 == "-{}" && r.2.2 == [("group", 0)])
