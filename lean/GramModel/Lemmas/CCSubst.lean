import GramModel.Check
import GramModel.Oracle
import GramModel.Typing
import GramModel.Lemmas.DeBruijn
import GramModel.Lemmas.Whnf
import GramModel.Lemmas.Oracle

/-!
# De Bruijn lemmas for the confluence proof (C05): the erasure `er`, normal form of `openT`'s
shift argument, commutation of `openT` with `openT` / `unfoldDef`.
-/

namespace CCSubst

open WhnfLemmas

/-! ## erasure: names, parameter annotations, annotations of definitions, and holes are forgotten -/

mutual
def er : Tm → Tm
  | .lam _ im _ b => .lam 0 im .type (er b)
  | .pi _ im d b => .pi 0 im (er d) (er b)
  | .app f a => .app (er f) (er a)
  | .letg ds b => .letg (erDefs ds) (er b)
  | .neg a => .neg (er a)
  | .bin op a b => .bin op (er a) (er b)
  | .ite c t e => .ite (er c) (er t) (er e)
  | .var _ i => .var 0 i
  | .hole _ _ => .type
  | .type => .type
  | .int => .int
  | .bool => .bool
  | .tt => .tt
  | .ff => .ff
  | .lit n => .lit n
def erDefs : Defs → Defs
  | .nil => .nil
  | .cons _ _ d r => .cons 0 .type (er d) (erDefs r)
end

def erD (Δ : DCtxX) : DCtxX := Δ.map (Option.map (fun p => (er p.1, p.2)))

theorem erDefs_len : ∀ (ds : Defs), (erDefs ds).len = ds.len
  | .nil => rfl
  | .cons _ _ _ r => by simp only [erDefs, Defs.len, erDefs_len r]

mutual
theorem er_holeFree : ∀ (t : Tm), (er t).holeFree = true
  | .lam _ _ _ b => by simp [er, Tm.holeFree, er_holeFree b]
  | .pi _ _ d b => by simp [er, Tm.holeFree, er_holeFree d, er_holeFree b]
  | .app f a => by simp [er, Tm.holeFree, er_holeFree f, er_holeFree a]
  | .letg ds b => by simp [er, Tm.holeFree, erDefs_holeFree ds, er_holeFree b]
  | .neg a => by simp [er, Tm.holeFree, er_holeFree a]
  | .bin _ a b => by simp [er, Tm.holeFree, er_holeFree a, er_holeFree b]
  | .ite c t e => by simp [er, Tm.holeFree, er_holeFree c, er_holeFree t, er_holeFree e]
  | .var _ _ | .hole _ _ | .type | .int | .bool | .tt | .ff | .lit _ => by simp [er, Tm.holeFree]
theorem erDefs_holeFree : ∀ (ds : Defs), (erDefs ds).holeFree = true
  | .nil => by simp [erDefs, Defs.holeFree]
  | .cons _ _ d r => by simp [erDefs, Defs.holeFree, Tm.holeFree, er_holeFree d, erDefs_holeFree r]
end

mutual
theorem er_ushift : ∀ (t : Tm) (c a : Nat), er (ushift c a t) = ushift c a (er t)
  | .var x i, c, a => by
      simp only [ushift]; split <;> simp [er, ushift, *]
  | .hole id s, c, a => by
      simp only [ushift]; split <;> simp [er, ushift]
  | .lam x im d b, c, a => by simp [er, ushift, er_ushift b]
  | .pi x im d b, c, a => by simp [er, ushift, er_ushift d, er_ushift b]
  | .app f g, c, a => by simp [er, ushift, er_ushift f, er_ushift g]
  | .letg ds b, c, a => by
      simp [er, ushift, erDefs_ushiftDefs ds, er_ushift b, erDefs_len]
  | .neg t, c, a => by simp [er, ushift, er_ushift t]
  | .bin op t u, c, a => by simp [er, ushift, er_ushift t, er_ushift u]
  | .ite t u v, c, a => by simp [er, ushift, er_ushift t, er_ushift u, er_ushift v]
  | .type, _, _ | .int, _, _ | .bool, _, _ | .tt, _, _ | .ff, _, _ | .lit _, _, _ => by
      simp [er, ushift]
theorem erDefs_ushiftDefs : ∀ (ds : Defs) (c a : Nat), erDefs (ushiftDefs c a ds) = ushiftDefs c a (erDefs ds)
  | .nil, _, _ => by simp [erDefs, ushiftDefs]
  | .cons x t u r, c, a => by
      simp [erDefs, ushiftDefs, ushift, er_ushift u, erDefs_ushiftDefs r]
end

mutual
theorem er_openT : ∀ (t : Tm) (i : Nat) (u : Tm) (s : Nat),
    er (openT t i u s) = openT (er t) i (er u) s
  | .var x j, i, u, s => by
      simp only [openT, er]
      split
      · exact er_ushift u 0 s
      · split <;> simp [er]
  | .hole id k, i, u, s => by
      simp only [openT, er]; split <;> simp [er]
  | .lam x im d b, i, u, s => by simp [er, openT, er_openT b]
  | .pi x im d b, i, u, s => by simp [er, openT, er_openT d, er_openT b]
  | .app f g, i, u, s => by simp [er, openT, er_openT f, er_openT g]
  | .letg ds b, i, u, s => by
      simp [er, openT, erDefs_openDefs ds, er_openT b, erDefs_len]
  | .neg t, i, u, s => by simp [er, openT, er_openT t]
  | .bin op t v, i, u, s => by simp [er, openT, er_openT t, er_openT v]
  | .ite t v w, i, u, s => by simp [er, openT, er_openT t, er_openT v, er_openT w]
  | .type, _, _, _ | .int, _, _, _ | .bool, _, _, _ | .tt, _, _, _ | .ff, _, _, _
  | .lit _, _, _, _ => by simp [er, openT]
theorem erDefs_openDefs : ∀ (ds : Defs) (i : Nat) (u : Tm) (s : Nat),
    erDefs (openDefs ds i u s) = openDefs (erDefs ds) i (er u) s
  | .nil, _, _, _ => by simp [erDefs, openDefs]
  | .cons x t v r, i, u, s => by
      simp [erDefs, openDefs, openT, er_openT v, erDefs_openDefs r]
end

theorem er_unfoldDef (x : Name) (a d : Tm) (idx : Nat) :
    er (unfoldDef x a d idx) = unfoldDef 0 .type (er d) idx := by
  unfold unfoldDef
  simp [er_openT, er_ushift, er, erDefs, openT, ushift]

mutual
theorem er_same : ∀ (a b : Tm), sameX a b = true → er a = er b
  | .hole i s, t, h => by cases t <;> simp_all [sameX, er]
  | .type, t, h => by cases t <;> simp_all [sameX, er]
  | .int, t, h => by cases t <;> simp_all [sameX, er]
  | .bool, t, h => by cases t <;> simp_all [sameX, er]
  | .tt, t, h => by cases t <;> simp_all [sameX, er]
  | .ff, t, h => by cases t <;> simp_all [sameX, er]
  | .lit n, t, h => by cases t <;> simp_all [sameX, er]
  | .var x i, t, h => by cases t <;> simp_all [sameX, er]
  | .lam x im d b, t, h => by
      cases t <;> simp only [sameX, Bool.and_eq_true, beq_iff_eq] at h <;> try cases h
      next h1 h2 => simp [er, h1, er_same b _ h2]
  | .pi x im d b, t, h => by
      cases t <;> simp only [sameX, Bool.and_eq_true, beq_iff_eq] at h <;> try cases h
      next h1 h2 => simp [er, h1.1, er_same d _ h1.2, er_same b _ h2]
  | .app f a, t, h => by
      cases t <;> simp only [sameX, Bool.and_eq_true] at h <;> try cases h
      next h1 h2 => simp [er, er_same f _ h1, er_same a _ h2]
  | .letg ds b, t, h => by
      cases t <;> simp only [sameX, Bool.and_eq_true] at h <;> try cases h
      next h1 h2 => simp [er, erDefs_same ds _ h1, er_same b _ h2]
  | .neg a, t, h => by
      cases t <;> simp only [sameX] at h <;> try cases h
      simp [er, er_same a _ h]
  | .bin op a b, t, h => by
      cases t <;> simp only [sameX, Bool.and_eq_true, beq_iff_eq] at h <;> try cases h
      next h1 h2 => simp [er, h1.1, er_same a _ h1.2, er_same b _ h2]
  | .ite c a b, t, h => by
      cases t <;> simp only [sameX, Bool.and_eq_true] at h <;> try cases h
      next h1 h2 => simp [er, er_same c _ h1.1, er_same a _ h1.2, er_same b _ h2]
theorem erDefs_same : ∀ (a b : Defs), sameDefsX a b = true → erDefs a = erDefs b
  | .nil, t, h => by cases t <;> simp_all [sameDefsX, erDefs]
  | .cons x a d r, t, h => by
      cases t <;> simp only [sameDefsX, Bool.and_eq_true] at h <;> try cases h
      next h1 h2 => simp [erDefs, er_same d _ h1, erDefs_same r _ h2]
end


/-! ## the shift argument of `openT` -/

mutual
theorem open_arg_shift : ∀ (t : Tm) (i : Nat) (u : Tm) (s k : Nat),
    openT t i u (s + k) = openT t i (ushift 0 s u) k
  | .var x j, i, u, s, k => by
      simp only [openT]
      split
      · rw [ushift_ushift_mid u 0 0 k s (Nat.le_refl _) (Nat.zero_le _), Nat.add_comm]
      · rfl
  | .hole id j, i, u, s, k => by simp only [openT]
  | .lam x im d b, i, u, s, k => by
      simp only [openT, open_arg_shift d i u s k]
      rw [Nat.add_assoc, open_arg_shift b (i+1) u s (k+1)]
  | .pi x im d b, i, u, s, k => by
      simp only [openT, open_arg_shift d i u s k]
      rw [Nat.add_assoc, open_arg_shift b (i+1) u s (k+1)]
  | .app f g, i, u, s, k => by simp only [openT, open_arg_shift f i u s k, open_arg_shift g i u s k]
  | .letg ds b, i, u, s, k => by
      simp only [openT]
      rw [Nat.add_assoc, openDefs_arg_shift ds (i + ds.len) u s (k + ds.len),
        open_arg_shift b (i + ds.len) u s (k + ds.len)]
  | .neg t, i, u, s, k => by simp only [openT, open_arg_shift t i u s k]
  | .bin op t v, i, u, s, k => by
      simp only [openT, open_arg_shift t i u s k, open_arg_shift v i u s k]
  | .ite t v w, i, u, s, k => by
      simp only [openT, open_arg_shift t i u s k, open_arg_shift v i u s k, open_arg_shift w i u s k]
  | .type, _, _, _, _ | .int, _, _, _, _ | .bool, _, _, _, _ | .tt, _, _, _, _ | .ff, _, _, _, _
  | .lit _, _, _, _, _ => by simp only [openT]
theorem openDefs_arg_shift : ∀ (ds : Defs) (i : Nat) (u : Tm) (s k : Nat),
    openDefs ds i u (s + k) = openDefs ds i (ushift 0 s u) k
  | .nil, _, _, _, _ => by simp only [openDefs]
  | .cons x t v r, i, u, s, k => by
      simp only [openDefs, open_arg_shift t i u s k, open_arg_shift v i u s k,
        openDefs_arg_shift r i u s k]
end

theorem open_arg0 (t : Tm) (i : Nat) (u : Tm) (s : Nat) : openT t i u s = openT t i (ushift 0 s u) 0 := by
  have := open_arg_shift t i u s 0
  rwa [Nat.add_zero] at this
theorem openDefs_arg0 (ds : Defs) (i : Nat) (u : Tm) (s : Nat) :
    openDefs ds i u s = openDefs ds i (ushift 0 s u) 0 := by
  have := openDefs_arg_shift ds i u s 0
  rwa [Nat.add_zero] at this

/-- the substitution lemma in the shape the reduction rules need: an inner `open` at `i` (shift 0)
followed by an outer one at `j ≥ i` whose argument is shifted by `s ≥ i` -/
theorem open_open_sh (t u v : Tm) (i j s : Nat) (hij : i ≤ j) (his : i ≤ s) :
    openT (openT t i u 0) j v s = openT (openT t (j + 1) v (s + 1)) i (openT u j v s) 0 := by
  rw [open_arg0 (openT t i u 0) j v s, open_arg0 t (j+1) v (s+1), open_arg0 u j v s]
  rw [open_open t u (ushift 0 s v) i j hij]
  rw [ushift_ushift_mid v i 0 1 s (Nat.zero_le _) (by omega), Nat.add_comm 1 s]

theorem openDefs_open_sh (ds : Defs) (u v : Tm) (i j s : Nat) (hij : i ≤ j) (his : i ≤ s) :
    openDefs (openDefs ds i u 0) j v s = openDefs (openDefs ds (j + 1) v (s + 1)) i (openT u j v s) 0 := by
  rw [openDefs_arg0 (openDefs ds i u 0) j v s, openDefs_arg0 ds (j+1) v (s+1), open_arg0 u j v s]
  have := openDefs_openDefs_gen ds u (ushift 0 s v) i j 0 hij
  simp only [Nat.add_zero] at this
  rw [this]
  rw [ushift_ushift_mid v i 0 1 s (Nat.zero_le _) (by omega), Nat.add_comm 1 s]

/-- opening a term that was lifted past the opened index just lowers it -/
theorem open_ushift_past (d : Tm) (a i : Nat) (u : Tm) (s : Nat) (h : i ≤ a) :
    openT (ushift 0 (a + 1) d) i u s = ushift 0 a d := by
  have e : ushift 0 (a + 1) d = ushift i 1 (ushift 0 a d) := by
    rw [ushift_ushift_mid d i 0 1 a (Nat.zero_le _) (by omega), Nat.add_comm]
  rw [e, open_ushift_cancel]

theorem openDefs_ushiftDefs_past (ds : Defs) (a i : Nat) (u : Tm) (s : Nat) (h : i ≤ a) :
    openDefs (ushiftDefs 0 (a + 1) ds) i u s = ushiftDefs 0 a ds := by
  have e : ushiftDefs 0 (a + 1) ds = ushiftDefs i 1 (ushiftDefs 0 a ds) := by
    rw [ushiftDefs_ushiftDefs_mid ds i 0 1 a (Nat.zero_le _) (by omega), Nat.add_comm]
  rw [e, openDefs_ushiftDefs_cancel]

/-- `openT` commutes with `unfoldDef` -/
theorem unfoldDef_open (x : Name) (a d : Tm) (idx j s : Nat) (v : Tm) (hj : idx ≤ j) (hs : idx ≤ s) :
    openT (unfoldDef x a d idx) j v s =
      unfoldDef x (openT a (j + 1) v (s + 1)) (openT d (j + 1) v (s + 1)) idx := by
  have inner : ∀ (t : Tm),
      openT (openT (ushift 0 1 t) (idx + 1) (Tm.var x 0) 0) (j + 1) v (s + 1) =
        openT (ushift 0 1 (openT t (j + 1) v (s + 1))) (idx + 1) (Tm.var x 0) 0 := by
    intro t
    rw [open_open_sh _ _ _ (idx+1) (j+1) (s+1) (by omega) (by omega)]
    have e1 : openT (Tm.var x 0) (j + 1) v (s + 1) = Tm.var x 0 := by
      simp only [openT]
      rw [if_neg (by omega), if_neg (by omega)]
    rw [e1]
    congr 1
    have := open_ushift_low t v (j + 1) 0 1 (s + 1) (Nat.zero_le _) (Nat.zero_le _)
    rw [this]
  unfold unfoldDef
  dsimp only
  rw [open_open_sh d _ v idx j s hj hs]
  congr 1
  simp only [openT, openDefs, Defs.len_cons, Defs.len_nil, Nat.zero_add]
  rw [inner a, inner d]
  rw [if_neg (by omega), if_neg (by omega)]

end CCSubst
