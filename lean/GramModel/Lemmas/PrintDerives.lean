import GramModel.Print
import GramModel.Token
import GramModel.Lemmas.Print
import GramModel.Props.C07

/-!
# What the printer prints is a sentence of `grammar.y` (printer side of C16)

* `printItems nm t` — the printed text of `t` as a list of *lexemes*, each with its token kind
  (`TokKind`, the kinds of `token.rs` as produced by the tokenizer model) and a flag "followed by a
  single space"; defined by structural recursion mirroring `printTm` case by case (same wrap
  functions `wrapGroup` / `wrapHead` / `wrapAnnot`).
* `printTm_eq_flatten` — the structural equation `printTm nm t = flatten (printItems nm t)`.
* `printToks nm t` — the kinds of the lexemes as terminals of `grammar.y`.
* `print_derives` — for every term without an implicit non-dependent function type and without a
  negative literal, `printToks nm t` is a sentence of the start symbol `term` of the grammar
  regenerated from `/repo/grammar.y`.
* `implicit_arrow_not_derivable` — `{int} -> int` is not a sentence (finding KF-print-implicit).
* `negative_literal_ambiguous` — `f -1` (an application to the literal `-1`) and `f - 1` are the same
  token sequence (new finding: a negative literal is printed without parentheses).
* `negative_literal_domain_not_derivable` — `-1 -> B` is not a sentence.
-/

namespace PrintDerives

/-! ## Lexeme lists -/

/-- a lexeme: its characters, its token kind, and whether a single space follows it -/
abbrev Item := List Char × TokKind × Bool

/-- a lexeme directly followed by the next one -/
def tk (s : List Char) (k : TokKind) : Item := (s, k, false)
/-- a lexeme followed by one space -/
def tkS (s : List Char) (k : TokKind) : Item := (s, k, true)

/-- the text of a lexeme list: the characters of the lexemes, with one space after every lexeme
whose flag is set -/
def flatten : List Item → List Char
  | [] => []
  | (s, _, sp) :: r => s ++ (if sp then ' ' :: flatten r else flatten r)

/-- set the "followed by a space" flag of the last lexeme -/
def spaced : List Item → List Item
  | [] => []
  | [(s, k, _)] => [(s, k, true)]
  | x :: y :: r => x :: spaced (y :: r)

/-- the list is not empty and its last lexeme is not followed by a space -/
def tight : List Item → Bool
  | [] => false
  | [(_, _, b)] => !b
  | _ :: y :: r => tight (y :: r)

@[simp] theorem flatten_nil : flatten [] = [] := rfl
@[simp] theorem flatten_tk (s k r) : flatten (tk s k :: r) = s ++ flatten r := by simp [flatten, tk]
@[simp] theorem flatten_tkS (s k r) : flatten (tkS s k :: r) = s ++ ' ' :: flatten r := by
  simp [flatten, tkS]

@[simp] theorem flatten_append (l r : List Item) : flatten (l ++ r) = flatten l ++ flatten r := by
  induction l with
  | nil => rfl
  | cons x l ih =>
    obtain ⟨s, k, sp⟩ := x
    cases sp <;> simp [flatten, ih]

theorem flatten_spaced : ∀ (l : List Item), tight l = true → flatten (spaced l) = flatten l ++ [' ']
  | [], h => by simp [tight] at h
  | [(s, k, b)], h => by
      simp [tight] at h
      simp [spaced, flatten, h]
  | x :: y :: r, h => by
      have ih := flatten_spaced (y :: r) (by simpa [tight] using h)
      obtain ⟨s, k, sp⟩ := x
      cases sp <;> simp [spaced, flatten, ih]

theorem tight_append : ∀ (l r : List Item), tight r = true → tight (l ++ r) = true
  | [], r, h => by simpa using h
  | [x], r, h => by
      cases r with
      | nil => simp [tight] at h
      | cons y r => simpa [tight] using h
  | x :: y :: l, r, h => by
      have ih := tight_append (y :: l) r h
      simpa [tight] using ih

theorem tight_cons (x : Item) (r : List Item) (h : tight r = true) : tight (x :: r) = true :=
  tight_append [x] r h

@[simp] theorem tight_tk (s k) : tight [tk s k] = true := rfl

/-! ## The printer, lexeme by lexeme -/

def opKind : BinOp → TokKind
  | .sum => .plus | .diff => .minus | .prod => .asterisk | .quot => .slash
  | .lt => .lessThan | .le => .lessThanOrEqualTo | .eq => .doubleEquals | .gt => .greaterThan
  | .ge => .greaterThanOrEqualTo

/-- an integer literal: a negative one is a `-` directly followed by the digits (two tokens) -/
def intItems : Int → List Item
  | .ofNat n => [tk (Nat.toDigits 10 n) (.integerLiteral n)]
  | .negSucc n => [tk ['-'] .minus, tk (Nat.toDigits 10 (n + 1)) (.integerLiteral (n + 1))]

def parenI (l : List Item) : List Item := tk ['('] .leftParen :: l ++ [tk [')'] .rightParen]

def wrapGroupI (t : Tm) (l : List Item) : List Item := if atomic t then l else parenI l

def wrapHeadI (t : Tm) (l : List Item) : List Item :=
  match t with
  | .app _ _ => l
  | _ => wrapGroupI t l

def wrapAnnotI (t : Tm) (l : List Item) : List Item :=
  match t with
  | .letg _ _ => parenI l
  | _ => l

def lamItems (imp : Bool) (x : List Char) (ann body : List Item) : List Item :=
  if imp then
    tk ['{'] .leftCurly :: tkS x (.identifier x) :: tkS [':'] .colon :: ann ++
      tkS ['}'] .rightCurly :: tkS ['=', '>'] .thickArrow :: body
  else
    tk ['('] .leftParen :: tkS x (.identifier x) :: tkS [':'] .colon :: ann ++
      tkS [')'] .rightParen :: tkS ['=', '>'] .thickArrow :: body

def piDepItems (imp : Bool) (x : List Char) (ann cod : List Item) : List Item :=
  if imp then
    tk ['{'] .leftCurly :: tkS x (.identifier x) :: tkS [':'] .colon :: ann ++
      tkS ['}'] .rightCurly :: tkS ['-', '>'] .thinArrow :: cod
  else
    tk ['('] .leftParen :: tkS x (.identifier x) :: tkS [':'] .colon :: ann ++
      tkS [')'] .rightParen :: tkS ['-', '>'] .thinArrow :: cod

def piImpItems (dom cod : List Item) : List Item :=
  tk ['{'] .leftCurly :: dom ++ tkS ['}'] .rightCurly :: tkS ['-', '>'] .thinArrow :: cod

def arrowItems (dom cod : List Item) : List Item :=
  spaced dom ++ tkS ['-', '>'] .thinArrow :: cod

def appItems (f a : List Item) : List Item := spaced f ++ a
def negItems (a : List Item) : List Item := tk ['-'] .minus :: a
def binItems (op : BinOp) (a b : List Item) : List Item :=
  spaced a ++ tkS (opChars op) (opKind op) :: b
def iteItems (c a b : List Item) : List Item :=
  tkS ['i', 'f'] .if_ :: spaced c ++ tkS ['t', 'h', 'e', 'n'] .then_ :: spaced a ++
    tkS ['e', 'l', 's', 'e'] .else_ :: b
def defItems (x : List Char) (ann d : List Item) : List Item :=
  tkS x (.identifier x) :: tkS [':'] .colon :: spaced ann ++ tkS ['='] .equals :: d ++
    [tkS [';'] .terminatorSemicolon]

mutual
/-- `printTm`, lexeme by lexeme (same case analysis, same wrap functions) -/
def printItems (nm : Name → List Char) : Tm → List Item
  | .hole _ _ => [tk holeText (.identifier holeText)]
  | .type => [tk kwType .type_]
  | .int => [tk kwInt .integer]
  | .bool => [tk kwBool .boolean]
  | .tt => [tk kwTrue .true_]
  | .ff => [tk kwFalse .false_]
  | .lit n => intItems n
  | .var x _ => [tk (nm x) (.identifier (nm x))]
  | .lam x imp d b => lamItems imp (nm x) (wrapAnnotI d (printItems nm d)) (printItems nm b)
  | .pi x imp d c =>
      if freeAt c 0 then piDepItems imp (nm x) (wrapAnnotI d (printItems nm d)) (printItems nm c)
      else if imp then piImpItems (printItems nm d) (printItems nm c)
      else arrowItems (wrapHeadI d (printItems nm d)) (printItems nm c)
  | .app f a => appItems (wrapHeadI f (printItems nm f)) (wrapGroupI a (printItems nm a))
  | .letg ds b => printDefsItems nm ds ++ printItems nm b
  | .neg a => negItems (wrapGroupI a (printItems nm a))
  | .bin op a b => binItems op (wrapGroupI a (printItems nm a)) (wrapGroupI b (printItems nm b))
  | .ite c a b => iteItems (printItems nm c) (printItems nm a) (printItems nm b)
def printDefsItems (nm : Name → List Char) : Defs → List Item
  | .nil => []
  | .cons x a d r =>
      defItems (nm x) (wrapGroupI a (printItems nm a)) (wrapGroupI d (printItems nm d))
        ++ printDefsItems nm r
end

/-! ## The structural equation -/

theorem tight_parenI (l : List Item) : tight (parenI l) = true := by
  unfold parenI
  exact tight_cons _ _ (tight_append _ _ rfl)

theorem flatten_parenI (l : List Item) : flatten (parenI l) = parenC (flatten l) := by
  simp [parenI, parenC]

theorem wrapGroupI_spec (t : Tm) (l : List Item) (h : tight l = true) :
    flatten (wrapGroupI t l) = wrapGroup t (flatten l) ∧ tight (wrapGroupI t l) = true := by
  unfold wrapGroupI wrapGroup
  split
  · exact ⟨rfl, h⟩
  · exact ⟨flatten_parenI l, tight_parenI l⟩

theorem wrapHeadI_spec (t : Tm) (l : List Item) (h : tight l = true) :
    flatten (wrapHeadI t l) = wrapHead t (flatten l) ∧ tight (wrapHeadI t l) = true := by
  cases t <;> first
    | exact ⟨rfl, h⟩
    | exact wrapGroupI_spec _ l h

theorem wrapAnnotI_spec (t : Tm) (l : List Item) (h : tight l = true) :
    flatten (wrapAnnotI t l) = wrapAnnot t (flatten l) ∧ tight (wrapAnnotI t l) = true := by
  cases t <;> first
    | exact ⟨flatten_parenI l, tight_parenI l⟩
    | exact ⟨rfl, h⟩

theorem intItems_spec (n : Int) : flatten (intItems n) = intChars n ∧ tight (intItems n) = true := by
  cases n
  · exact ⟨by simp [intItems, intChars], rfl⟩
  · exact ⟨by simp [intItems, intChars], rfl⟩

theorem lamItems_spec (imp : Bool) (x : List Char) (ann body : List Item) (hb : tight body = true) :
    flatten (lamItems imp x ann body) = lamText imp x (flatten ann) (flatten body)
      ∧ tight (lamItems imp x ann body) = true := by
  have e1 : " : ".toList = [' ', ':', ' '] := by decide
  have e2 : "} => ".toList = ['}', ' ', '=', '>', ' '] := by decide
  have e3 : ") => ".toList = [')', ' ', '=', '>', ' '] := by decide
  cases imp
  · refine ⟨by simp [lamItems, lamText, e1, e3], ?_⟩
    simp only [lamItems, Bool.false_eq_true, if_false]
    exact tight_cons _ _ (tight_cons _ _ (tight_cons _ _ (tight_append _ _
      (tight_cons _ _ (tight_cons _ _ hb)))))
  · refine ⟨by simp [lamItems, lamText, e1, e2], ?_⟩
    simp only [lamItems, if_true]
    exact tight_cons _ _ (tight_cons _ _ (tight_cons _ _ (tight_append _ _
      (tight_cons _ _ (tight_cons _ _ hb)))))

theorem piDepItems_spec (imp : Bool) (x : List Char) (ann cod : List Item) (hb : tight cod = true) :
    flatten (piDepItems imp x ann cod) = piDepText imp x (flatten ann) (flatten cod)
      ∧ tight (piDepItems imp x ann cod) = true := by
  have e1 : " : ".toList = [' ', ':', ' '] := by decide
  have e2 : "} -> ".toList = ['}', ' ', '-', '>', ' '] := by decide
  have e3 : ") -> ".toList = [')', ' ', '-', '>', ' '] := by decide
  cases imp
  · refine ⟨by simp [piDepItems, piDepText, e1, e3], ?_⟩
    simp only [piDepItems, Bool.false_eq_true, if_false]
    exact tight_cons _ _ (tight_cons _ _ (tight_cons _ _ (tight_append _ _
      (tight_cons _ _ (tight_cons _ _ hb)))))
  · refine ⟨by simp [piDepItems, piDepText, e1, e2], ?_⟩
    simp only [piDepItems, if_true]
    exact tight_cons _ _ (tight_cons _ _ (tight_cons _ _ (tight_append _ _
      (tight_cons _ _ (tight_cons _ _ hb)))))

theorem piImpItems_spec (dom cod : List Item) (hb : tight cod = true) :
    flatten (piImpItems dom cod) = piImpText (flatten dom) (flatten cod)
      ∧ tight (piImpItems dom cod) = true := by
  have e2 : "} -> ".toList = ['}', ' ', '-', '>', ' '] := by decide
  refine ⟨by simp [piImpItems, piImpText, e2], ?_⟩
  exact tight_cons _ _ (tight_append _ _ (tight_cons _ _ (tight_cons _ _ hb)))

theorem arrowItems_spec (dom cod : List Item) (hd : tight dom = true) (hb : tight cod = true) :
    flatten (arrowItems dom cod) = arrowText (flatten dom) (flatten cod)
      ∧ tight (arrowItems dom cod) = true := by
  have e2 : " -> ".toList = [' ', '-', '>', ' '] := by decide
  refine ⟨by simp [arrowItems, arrowText, e2, flatten_spaced dom hd], ?_⟩
  exact tight_append _ _ (tight_cons _ _ hb)

theorem appItems_spec (f a : List Item) (hf : tight f = true) (ha : tight a = true) :
    flatten (appItems f a) = appText (flatten f) (flatten a) ∧ tight (appItems f a) = true := by
  refine ⟨by simp [appItems, appText, flatten_spaced f hf], ?_⟩
  exact tight_append _ _ ha

theorem negItems_spec (a : List Item) (ha : tight a = true) :
    flatten (negItems a) = negText (flatten a) ∧ tight (negItems a) = true :=
  ⟨by simp [negItems, negText], tight_cons _ _ ha⟩

theorem binItems_spec (op : BinOp) (a b : List Item) (ha : tight a = true) (hb : tight b = true) :
    flatten (binItems op a b) = binText op (flatten a) (flatten b)
      ∧ tight (binItems op a b) = true := by
  refine ⟨by simp [binItems, binText, flatten_spaced a ha], ?_⟩
  exact tight_append _ _ (tight_cons _ _ hb)

theorem iteItems_spec (c a b : List Item) (hc : tight c = true) (ha : tight a = true)
    (hb : tight b = true) :
    flatten (iteItems c a b) = iteText (flatten c) (flatten a) (flatten b)
      ∧ tight (iteItems c a b) = true := by
  have e1 : "if ".toList = ['i', 'f', ' '] := by decide
  have e2 : " then ".toList = [' ', 't', 'h', 'e', 'n', ' '] := by decide
  have e3 : " else ".toList = [' ', 'e', 'l', 's', 'e', ' '] := by decide
  refine ⟨by simp [iteItems, iteText, e1, e2, e3, flatten_spaced c hc, flatten_spaced a ha], ?_⟩
  simp only [iteItems]
  exact tight_append _ _ (tight_cons _ _ hb)

theorem defItems_spec (x : List Char) (ann d : List Item) (ha : tight ann = true) :
    flatten (defItems x ann d) = defText x (flatten ann) (flatten d) := by
  have e1 : " : ".toList = [' ', ':', ' '] := by decide
  have e2 : " = ".toList = [' ', '=', ' '] := by decide
  have e3 : "; ".toList = [';', ' '] := by decide
  simp [defItems, defText, e1, e2, e3, flatten_spaced ann ha]

mutual
theorem printItems_spec (nm : Name → List Char) :
    ∀ t : Tm, flatten (printItems nm t) = printTm nm t ∧ tight (printItems nm t) = true
  | .hole _ _ => by simp [printItems, printTm]
  | .type => by simp [printItems, printTm]
  | .int => by simp [printItems, printTm]
  | .bool => by simp [printItems, printTm]
  | .tt => by simp [printItems, printTm]
  | .ff => by simp [printItems, printTm]
  | .var _ _ => by simp [printItems, printTm]
  | .lit n => by simpa [printItems, printTm] using intItems_spec n
  | .lam x imp d b => by
      have hd := printItems_spec nm d
      have hb := printItems_spec nm b
      have ha := wrapAnnotI_spec d _ hd.2
      have := lamItems_spec imp (nm x) (wrapAnnotI d (printItems nm d)) _ hb.2
      simpa [printItems, printTm, ha.1, hd.1, hb.1] using this
  | .pi x imp d c => by
      have hd := printItems_spec nm d
      have hc := printItems_spec nm c
      have ha := wrapAnnotI_spec d _ hd.2
      have hh := wrapHeadI_spec d _ hd.2
      have h1 := piDepItems_spec imp (nm x) (wrapAnnotI d (printItems nm d)) _ hc.2
      have h2 := piImpItems_spec (printItems nm d) _ hc.2
      have h3 := arrowItems_spec (wrapHeadI d (printItems nm d)) _ hh.2 hc.2
      rw [printItems, printTm]
      split
      · simpa [ha.1, hd.1, hc.1] using h1
      · split
        · simpa [hd.1, hc.1] using h2
        · simpa [hh.1, hd.1, hc.1] using h3
  | .app f a => by
      have hf := printItems_spec nm f
      have ha := printItems_spec nm a
      have hh := wrapHeadI_spec f _ hf.2
      have hg := wrapGroupI_spec a _ ha.2
      have := appItems_spec _ _ hh.2 hg.2
      simpa [printItems, printTm, hh.1, hg.1, hf.1, ha.1] using this
  | .letg ds b => by
      have hb := printItems_spec nm b
      have hds := printDefsItems_spec nm ds
      rw [printItems, printTm]
      exact ⟨by simp [hds, hb.1], tight_append _ _ hb.2⟩
  | .neg a => by
      have ha := printItems_spec nm a
      have hg := wrapGroupI_spec a _ ha.2
      have := negItems_spec _ hg.2
      simpa [printItems, printTm, hg.1, ha.1] using this
  | .bin op a b => by
      have ha := printItems_spec nm a
      have hb := printItems_spec nm b
      have hga := wrapGroupI_spec a _ ha.2
      have hgb := wrapGroupI_spec b _ hb.2
      have := binItems_spec op _ _ hga.2 hgb.2
      simpa [printItems, printTm, hga.1, hgb.1, ha.1, hb.1] using this
  | .ite c a b => by
      have hc := printItems_spec nm c
      have ha := printItems_spec nm a
      have hb := printItems_spec nm b
      have := iteItems_spec _ _ _ hc.2 ha.2 hb.2
      simpa [printItems, printTm, hc.1, ha.1, hb.1] using this
theorem printDefsItems_spec (nm : Name → List Char) :
    ∀ ds : Defs, flatten (printDefsItems nm ds) = printDefs nm ds
  | .nil => by simp [printDefsItems, printDefs]
  | .cons x a d r => by
      have ha := printItems_spec nm a
      have hd := printItems_spec nm d
      have hga := wrapGroupI_spec a _ ha.2
      have hgd := wrapGroupI_spec d _ hd.2
      have hr := printDefsItems_spec nm r
      have := defItems_spec (nm x) _ (wrapGroupI d (printItems nm d)) hga.2
      simp [printDefsItems, printDefs, this, hga.1, hgd.1, ha.1, hd.1, hr]
end

/-- **The structural equation**: the printed text is the concatenation of the lexemes of
`printItems`, with a space exactly where the flag says. -/
theorem printTm_eq_flatten (nm : Name → List Char) (t : Tm) :
    printTm nm t = flatten (printItems nm t) := (printItems_spec nm t).1.symm

theorem printDefs_eq_flatten (nm : Name → List Char) (ds : Defs) :
    printDefs nm ds = flatten (printDefsItems nm ds) := (printDefsItems_spec nm ds).symm

/-! ## Token kinds as grammar terminals -/

/-- the terminal of `grammar.y` a token kind stands for (`token.rs` ↔ `%token`) -/
def kindTerminal : TokKind → String
  | .asterisk => "ASTERISK" | .boolean => "BOOLEAN" | .colon => "COLON" | .doubleEquals => "DOUBLE_EQUALS"
  | .else_ => "ELSE" | .equals => "EQUALS" | .false_ => "FALSE" | .greaterThan => "GREATER_THAN"
  | .greaterThanOrEqualTo => "GREATER_THAN_OR_EQUAL" | .identifier _ => "IDENTIFIER" | .if_ => "IF"
  | .integer => "INTEGER" | .integerLiteral _ => "INTEGER_LITERAL" | .leftCurly => "LEFT_CURLY"
  | .leftParen => "LEFT_PAREN" | .lessThan => "LESS_THAN" | .lessThanOrEqualTo => "LESS_THAN_OR_EQUAL"
  | .minus => "MINUS" | .plus => "PLUS" | .rightCurly => "RIGHT_CURLY" | .rightParen => "RIGHT_PAREN"
  | .slash => "SLASH" | .terminatorLineBreak => "TERMINATOR" | .terminatorSemicolon => "TERMINATOR"
  | .then_ => "THEN" | .thickArrow => "THICK_ARROW" | .thinArrow => "THIN_ARROW" | .true_ => "TRUE"
  | .type_ => "TYPE"

theorem kindTerminal_mem (k : TokKind) : kindTerminal k ∈ Generated.grammarTerminals := by
  cases k <;> simp [kindTerminal, Generated.grammarTerminals]

/-- the token kinds of a lexeme list -/
def kindsOf (l : List Item) : List TokKind := l.map (fun i => i.2.1)

/-- the terminals of a lexeme list -/
def toksOf (l : List Item) : List String := l.map (fun i => kindTerminal i.2.1)

/-- the token kinds of the printed term -/
def printKinds (nm : Name → List Char) (t : Tm) : List TokKind := kindsOf (printItems nm t)

/-- the printed term as a string of terminals of `grammar.y` -/
def printToks (nm : Name → List Char) (t : Tm) : List String := toksOf (printItems nm t)

theorem printToks_eq_map (nm : Name → List Char) (t : Tm) :
    printToks nm t = (printKinds nm t).map kindTerminal := by
  simp [printToks, printKinds, toksOf, kindsOf]

@[simp] theorem toksOf_nil : toksOf [] = [] := rfl
@[simp] theorem toksOf_tk (s k r) : toksOf (tk s k :: r) = kindTerminal k :: toksOf r := rfl
@[simp] theorem toksOf_tkS (s k r) : toksOf (tkS s k :: r) = kindTerminal k :: toksOf r := rfl
@[simp] theorem toksOf_append (l r : List Item) : toksOf (l ++ r) = toksOf l ++ toksOf r := by
  simp [toksOf]

@[simp] theorem toksOf_spaced : ∀ l : List Item, toksOf (spaced l) = toksOf l
  | [] => rfl
  | [(_, _, _)] => rfl
  | x :: y :: r => by
      have ih := toksOf_spaced (y :: r)
      simp only [spaced, toksOf, List.map_cons] at ih ⊢
      rw [ih]

def groupToks (nm : Name → List Char) (t : Tm) : List String := toksOf (wrapGroupI t (printItems nm t))
def headToks (nm : Name → List Char) (t : Tm) : List String := toksOf (wrapHeadI t (printItems nm t))
def annotToks (nm : Name → List Char) (t : Tm) : List String := toksOf (wrapAnnotI t (printItems nm t))
def defsToks (nm : Name → List Char) (ds : Defs) : List String := toksOf (printDefsItems nm ds)

theorem toksOf_parenI (l : List Item) :
    toksOf (parenI l) = "LEFT_PAREN" :: (toksOf l ++ ["RIGHT_PAREN"]) := by
  simp [parenI, kindTerminal]

theorem groupToks_eq (nm : Name → List Char) (t : Tm) :
    groupToks nm t = if atomic t then printToks nm t
      else "LEFT_PAREN" :: (printToks nm t ++ ["RIGHT_PAREN"]) := by
  unfold groupToks wrapGroupI printToks
  split <;> simp [toksOf_parenI]

def isApp : Tm → Bool
  | .app _ _ => true
  | _ => false

def isLet : Tm → Bool
  | .letg _ _ => true
  | _ => false

theorem headToks_eq (nm : Name → List Char) (t : Tm) :
    headToks nm t = if isApp t then printToks nm t else groupToks nm t := by
  cases t <;> simp [headToks, wrapHeadI, isApp, printToks, groupToks]

theorem annotToks_eq (nm : Name → List Char) (t : Tm) :
    annotToks nm t = if isLet t then "LEFT_PAREN" :: (printToks nm t ++ ["RIGHT_PAREN"])
      else printToks nm t := by
  cases t <;> simp [annotToks, wrapAnnotI, isLet, printToks, toksOf_parenI]

/-- the terminal of a binary operator -/
def opTerminal (op : BinOp) : String := kindTerminal (opKind op)

section equations
variable (nm : Name → List Char)

theorem printToks_hole (i s) : printToks nm (.hole i s) = ["IDENTIFIER"] := rfl
theorem printToks_type : printToks nm .type = ["TYPE"] := rfl
theorem printToks_int : printToks nm .int = ["INTEGER"] := rfl
theorem printToks_bool : printToks nm .bool = ["BOOLEAN"] := rfl
theorem printToks_tt : printToks nm .tt = ["TRUE"] := rfl
theorem printToks_ff : printToks nm .ff = ["FALSE"] := rfl
theorem printToks_var (x i) : printToks nm (.var x i) = ["IDENTIFIER"] := rfl
theorem printToks_lit_nonneg (n : Nat) : printToks nm (.lit (.ofNat n)) = ["INTEGER_LITERAL"] := rfl
theorem printToks_lit_neg (n : Nat) :
    printToks nm (.lit (.negSucc n)) = ["MINUS", "INTEGER_LITERAL"] := rfl

theorem printToks_lam (x d b) (imp : Bool) :
    printToks nm (.lam x imp d b) =
      (if imp then "LEFT_CURLY" else "LEFT_PAREN") :: "IDENTIFIER" :: "COLON" :: (annotToks nm d ++
        (if imp then "RIGHT_CURLY" else "RIGHT_PAREN") :: "THICK_ARROW" :: printToks nm b) := by
  cases imp <;> simp [printToks, printItems, lamItems, annotToks, kindTerminal]

theorem printToks_pi_dep (x d c) (imp : Bool) (h : freeAt c 0 = true) :
    printToks nm (.pi x imp d c) =
      (if imp then "LEFT_CURLY" else "LEFT_PAREN") :: "IDENTIFIER" :: "COLON" :: (annotToks nm d ++
        (if imp then "RIGHT_CURLY" else "RIGHT_PAREN") :: "THIN_ARROW" :: printToks nm c) := by
  cases imp <;> simp [printToks, printItems, h, piDepItems, annotToks, kindTerminal]

theorem printToks_pi_imp (x d c) (h : freeAt c 0 = false) :
    printToks nm (.pi x true d c) =
      "LEFT_CURLY" :: (printToks nm d ++ "RIGHT_CURLY" :: "THIN_ARROW" :: printToks nm c) := by
  simp [printToks, printItems, h, piImpItems, kindTerminal]

theorem printToks_arrow (x d c) (h : freeAt c 0 = false) :
    printToks nm (.pi x false d c) = headToks nm d ++ "THIN_ARROW" :: printToks nm c := by
  simp [printToks, printItems, h, arrowItems, headToks, kindTerminal]

theorem printToks_app (f a) : printToks nm (.app f a) = headToks nm f ++ groupToks nm a := by
  simp [printToks, printItems, appItems, headToks, groupToks]

theorem printToks_neg (a) : printToks nm (.neg a) = "MINUS" :: groupToks nm a := by
  simp [printToks, printItems, negItems, groupToks, kindTerminal]

theorem printToks_bin (op a b) :
    printToks nm (.bin op a b) = groupToks nm a ++ opTerminal op :: groupToks nm b := by
  simp [printToks, printItems, binItems, groupToks, opTerminal]

theorem printToks_ite (c a b) :
    printToks nm (.ite c a b) = "IF" :: (printToks nm c ++ "THEN" :: (printToks nm a ++
      "ELSE" :: printToks nm b)) := by
  simp [printToks, printItems, iteItems, kindTerminal]

theorem printToks_letg (ds b) : printToks nm (.letg ds b) = defsToks nm ds ++ printToks nm b := by
  simp [printToks, printItems, defsToks]

theorem defsToks_nil : defsToks nm .nil = [] := rfl

theorem defsToks_cons (x a d r) :
    defsToks nm (.cons x a d r) = "IDENTIFIER" :: "COLON" :: (groupToks nm a ++ "EQUALS" ::
      (groupToks nm d ++ "TERMINATOR" :: defsToks nm r)) := by
  simp [defsToks, printDefsItems, defItems, groupToks, kindTerminal]

end equations

/-! ## Derivations in `grammar.y` -/

/-- the productions regenerated from `/repo/grammar.y` -/
abbrev G : List (String × List String) := Generated.grammarProductions

theorem d_unit {A B : String} {w : List String} (hm : (A, [B]) ∈ G) (h : Derives G B w) :
    Derives G A w := by
  have := Derives.prod hm (DerivesSeq.nonterm h .nil)
  simpa using this

theorem d_leaf {A a : String} (hm : (A, [a]) ∈ G) (ha : a ∈ Generated.grammarTerminals) :
    Derives G A [a] :=
  Derives.prod hm (DerivesSeq.term ha .nil)

theorem atom_type : Derives G "atom" ["TYPE"] :=
  d_unit (A := "atom") (B := "type") (by decide) (d_leaf (by decide) (by decide))
theorem atom_identifier : Derives G "atom" ["IDENTIFIER"] :=
  d_unit (A := "atom") (B := "variable") (by decide) (d_leaf (by decide) (by decide))
theorem atom_integer : Derives G "atom" ["INTEGER"] :=
  d_unit (A := "atom") (B := "integer") (by decide) (d_leaf (by decide) (by decide))
theorem atom_literal : Derives G "atom" ["INTEGER_LITERAL"] :=
  d_unit (A := "atom") (B := "integer_literal") (by decide) (d_leaf (by decide) (by decide))
theorem atom_boolean : Derives G "atom" ["BOOLEAN"] :=
  d_unit (A := "atom") (B := "boolean") (by decide) (d_leaf (by decide) (by decide))
theorem atom_true : Derives G "atom" ["TRUE"] :=
  d_unit (A := "atom") (B := "true") (by decide) (d_leaf (by decide) (by decide))
theorem atom_false : Derives G "atom" ["FALSE"] :=
  d_unit (A := "atom") (B := "false") (by decide) (d_leaf (by decide) (by decide))

section levels
variable {w : List String}
theorem up_small (h : Derives G "atom" w) : Derives G "small_term" w :=
  d_unit (A := "small_term") (B := "atom") (by decide) h
theorem up_medium (h : Derives G "small_term" w) : Derives G "medium_term" w :=
  d_unit (A := "medium_term") (B := "small_term") (by decide) h
theorem up_large (h : Derives G "medium_term" w) : Derives G "large_term" w :=
  d_unit (A := "large_term") (B := "medium_term") (by decide) h
theorem up_huge (h : Derives G "large_term" w) : Derives G "huge_term" w :=
  d_unit (A := "huge_term") (B := "large_term") (by decide) h
theorem up_giant (h : Derives G "huge_term" w) : Derives G "giant_term" w :=
  d_unit (A := "giant_term") (B := "huge_term") (by decide) h
theorem up_jumbo (h : Derives G "giant_term" w) : Derives G "jumbo_term" w :=
  d_unit (A := "jumbo_term") (B := "giant_term") (by decide) h
theorem up_term (h : Derives G "jumbo_term" w) : Derives G "term" w :=
  d_unit (A := "term") (B := "jumbo_term") (by decide) h

theorem small_large (h : Derives G "small_term" w) : Derives G "large_term" w := up_large (up_medium h)
theorem small_huge (h : Derives G "small_term" w) : Derives G "huge_term" w := up_huge (small_large h)
theorem small_jumbo (h : Derives G "small_term" w) : Derives G "jumbo_term" w :=
  up_jumbo (up_giant (small_huge h))
theorem atom_large (h : Derives G "atom" w) : Derives G "large_term" w := small_large (up_small h)
theorem atom_huge (h : Derives G "atom" w) : Derives G "huge_term" w := small_huge (up_small h)
theorem atom_jumbo (h : Derives G "atom" w) : Derives G "jumbo_term" w := small_jumbo (up_small h)
end levels

/-- `( term )` is an atom -/
theorem d_group {w : List String} (h : Derives G "term" w) :
    Derives G "atom" ("LEFT_PAREN" :: (w ++ ["RIGHT_PAREN"])) := by
  have := Derives.prod (G := G) (A := "group") (rhs := ["LEFT_PAREN", "term", "RIGHT_PAREN"])
    (by decide) (.term (by decide) (.nonterm h (.term (by decide) .nil)))
  exact d_unit (A := "atom") (B := "group") (by decide) this

/-- a non-empty sequence of atoms: `application: atom small_term`, `small_term: application | atom` -/
inductive AtomSeq : List String → Prop
  | one {w} : Derives G "atom" w → AtomSeq w
  | cons {w v} : Derives G "atom" w → AtomSeq v → AtomSeq (w ++ v)

theorem AtomSeq.small {w : List String} (h : AtomSeq w) : Derives G "small_term" w := by
  induction h with
  | one h => exact up_small h
  | cons h _ ih =>
    have := Derives.prod (G := G) (A := "application") (rhs := ["atom", "small_term"])
      (by decide) (.nonterm h (.nonterm ih .nil))
    exact d_unit (A := "small_term") (B := "application") (by decide) (by simpa using this)

theorem AtomSeq.snoc {w v : List String} (h : AtomSeq w) (hv : Derives G "atom" v) :
    AtomSeq (w ++ v) := by
  induction h with
  | one h => exact .cons h (.one hv)
  | cons h _ ih => rw [List.append_assoc]; exact .cons h ih

theorem d_lam {A B : List String} (imp : Bool) (hA : Derives G "jumbo_term" A)
    (hB : Derives G "term" B) :
    Derives G "jumbo_term" ((if imp then "LEFT_CURLY" else "LEFT_PAREN") :: "IDENTIFIER" :: "COLON" ::
      (A ++ (if imp then "RIGHT_CURLY" else "RIGHT_PAREN") :: "THICK_ARROW" :: B)) := by
  cases imp
  · have := Derives.prod (G := G) (A := "annotated_lambda")
      (rhs := ["LEFT_PAREN", "IDENTIFIER", "COLON", "jumbo_term", "RIGHT_PAREN", "THICK_ARROW", "term"])
      (by decide) (.term (by decide) (.term (by decide) (.term (by decide) (.nonterm hA
        (.term (by decide) (.term (by decide) (.nonterm hB .nil)))))))
    exact d_unit (A := "jumbo_term") (B := "annotated_lambda") (by decide) (by simpa using this)
  · have := Derives.prod (G := G) (A := "annotated_lambda_implicit")
      (rhs := ["LEFT_CURLY", "IDENTIFIER", "COLON", "jumbo_term", "RIGHT_CURLY", "THICK_ARROW", "term"])
      (by decide) (.term (by decide) (.term (by decide) (.term (by decide) (.nonterm hA
        (.term (by decide) (.term (by decide) (.nonterm hB .nil)))))))
    exact d_unit (A := "jumbo_term") (B := "annotated_lambda_implicit") (by decide)
      (by simpa using this)

theorem d_pi {A B : List String} (imp : Bool) (hA : Derives G "jumbo_term" A)
    (hB : Derives G "term" B) :
    Derives G "jumbo_term" ((if imp then "LEFT_CURLY" else "LEFT_PAREN") :: "IDENTIFIER" :: "COLON" ::
      (A ++ (if imp then "RIGHT_CURLY" else "RIGHT_PAREN") :: "THIN_ARROW" :: B)) := by
  cases imp
  · have := Derives.prod (G := G) (A := "pi")
      (rhs := ["LEFT_PAREN", "IDENTIFIER", "COLON", "jumbo_term", "RIGHT_PAREN", "THIN_ARROW", "term"])
      (by decide) (.term (by decide) (.term (by decide) (.term (by decide) (.nonterm hA
        (.term (by decide) (.term (by decide) (.nonterm hB .nil)))))))
    exact d_unit (A := "jumbo_term") (B := "pi") (by decide) (by simpa using this)
  · have := Derives.prod (G := G) (A := "pi_implicit")
      (rhs := ["LEFT_CURLY", "IDENTIFIER", "COLON", "jumbo_term", "RIGHT_CURLY", "THIN_ARROW", "term"])
      (by decide) (.term (by decide) (.term (by decide) (.term (by decide) (.nonterm hA
        (.term (by decide) (.term (by decide) (.nonterm hB .nil)))))))
    exact d_unit (A := "jumbo_term") (B := "pi_implicit") (by decide) (by simpa using this)

theorem d_arrow {A B : List String} (hA : Derives G "small_term" A) (hB : Derives G "term" B) :
    Derives G "jumbo_term" (A ++ "THIN_ARROW" :: B) := by
  have := Derives.prod (G := G) (A := "non_dependent_pi") (rhs := ["small_term", "THIN_ARROW", "term"])
    (by decide) (.nonterm hA (.term (by decide) (.nonterm hB .nil)))
  exact d_unit (A := "jumbo_term") (B := "non_dependent_pi") (by decide) (by simpa using this)

theorem d_neg {A : List String} (hA : Derives G "atom" A) : Derives G "jumbo_term" ("MINUS" :: A) := by
  have := Derives.prod (G := G) (A := "negation") (rhs := ["MINUS", "large_term"])
    (by decide) (.term (by decide) (.nonterm (atom_large hA) .nil))
  exact up_jumbo (up_giant (up_huge
    (d_unit (A := "large_term") (B := "negation") (by decide) (by simpa using this))))

theorem d_binary {A B : List String} {X L op R : String} (hm : (X, [L, op, R]) ∈ G)
    (hop : op ∈ Generated.grammarTerminals) (hA : Derives G L A) (hB : Derives G R B) :
    Derives G X (A ++ op :: B) := by
  have := Derives.prod hm (.nonterm hA (.term hop (.nonterm hB .nil)))
  simpa using this

theorem d_bin {A B : List String} (op : BinOp) (hA : Derives G "atom" A) (hB : Derives G "atom" B) :
    Derives G "jumbo_term" (A ++ opTerminal op :: B) := by
  cases op
  · exact up_jumbo (up_giant (d_unit (A := "huge_term") (B := "sum") (by decide)
      (d_binary (X := "sum") (by decide) (by decide) (atom_large hA) (atom_huge hB))))
  · exact up_jumbo (up_giant (d_unit (A := "huge_term") (B := "difference") (by decide)
      (d_binary (X := "difference") (by decide) (by decide) (atom_large hA) (atom_huge hB))))
  · exact up_jumbo (up_giant (up_huge (up_large (d_unit (A := "medium_term") (B := "product") (by decide)
      (d_binary (X := "product") (by decide) (by decide) (up_small hA) (atom_large hB))))))
  · exact up_jumbo (up_giant (up_huge (up_large (d_unit (A := "medium_term") (B := "quotient") (by decide)
      (d_binary (X := "quotient") (by decide) (by decide) (up_small hA) (atom_large hB))))))
  · exact up_jumbo (d_unit (A := "giant_term") (B := "less_than") (by decide)
      (d_binary (X := "less_than") (by decide) (by decide) (atom_huge hA) (atom_huge hB)))
  · exact up_jumbo (d_unit (A := "giant_term") (B := "less_than_or_equal_to") (by decide)
      (d_binary (X := "less_than_or_equal_to") (by decide) (by decide) (atom_huge hA) (atom_huge hB)))
  · exact up_jumbo (d_unit (A := "giant_term") (B := "equal_to") (by decide)
      (d_binary (X := "equal_to") (by decide) (by decide) (atom_huge hA) (atom_huge hB)))
  · exact up_jumbo (d_unit (A := "giant_term") (B := "greater_than") (by decide)
      (d_binary (X := "greater_than") (by decide) (by decide) (atom_huge hA) (atom_huge hB)))
  · exact up_jumbo (d_unit (A := "giant_term") (B := "greater_than_or_equal_to") (by decide)
      (d_binary (X := "greater_than_or_equal_to") (by decide) (by decide) (atom_huge hA) (atom_huge hB)))

theorem d_ite {C A B : List String} (hC : Derives G "term" C) (hA : Derives G "term" A)
    (hB : Derives G "term" B) :
    Derives G "jumbo_term" ("IF" :: (C ++ "THEN" :: (A ++ "ELSE" :: B))) := by
  have := Derives.prod (G := G) (A := "if") (rhs := ["IF", "term", "THEN", "term", "ELSE", "term"])
    (by decide) (.term (by decide) (.nonterm hC (.term (by decide) (.nonterm hA
      (.term (by decide) (.nonterm hB .nil))))))
  exact d_unit (A := "jumbo_term") (B := "if") (by decide) (by simpa using this)

theorem d_let {A D B : List String} (hA : Derives G "small_term" A) (hD : Derives G "term" D)
    (hB : Derives G "term" B) :
    Derives G "term" ("IDENTIFIER" :: "COLON" :: (A ++ "EQUALS" :: (D ++ "TERMINATOR" :: B))) := by
  have hann : Derives G "let_annotation" ("COLON" :: A) := by
    have := Derives.prod (G := G) (A := "let_annotation") (rhs := ["COLON", "small_term"])
      (by decide) (.term (by decide) (.nonterm hA .nil))
    simpa using this
  have := Derives.prod (G := G) (A := "let")
    (rhs := ["IDENTIFIER", "let_annotation", "EQUALS", "term", "TERMINATOR", "term"])
    (by decide) (.term (by decide) (.nonterm hann (.term (by decide) (.nonterm hD
      (.term (by decide) (.nonterm hB .nil))))))
  exact d_unit (A := "term") (B := "let") (by decide) (by simpa using this)

/-! ## The printable class -/

mutual
/-- no implicit non-dependent function type (`{A} -> B`, which `grammar.y` does not have) occurs in
the term -/
def noImplicitArrow : Tm → Bool
  | .pi _ imp d c => (!imp || freeAt c 0) && noImplicitArrow d && noImplicitArrow c
  | .lam _ _ d b => noImplicitArrow d && noImplicitArrow b
  | .app f a => noImplicitArrow f && noImplicitArrow a
  | .letg ds b => noImplicitArrowDefs ds && noImplicitArrow b
  | .neg a => noImplicitArrow a
  | .bin _ a b => noImplicitArrow a && noImplicitArrow b
  | .ite c a b => noImplicitArrow c && noImplicitArrow a && noImplicitArrow b
  | _ => true
def noImplicitArrowDefs : Defs → Bool
  | .nil => true
  | .cons _ a d r => noImplicitArrow a && noImplicitArrow d && noImplicitArrowDefs r
end

mutual
/-- no negative integer literal occurs in the term (source programs have none: `-1` is the negation
of the literal `1`; the normalizer and the evaluator create them) -/
def noNegLit : Tm → Bool
  | .lit n => decide (0 ≤ n)
  | .pi _ _ d c => noNegLit d && noNegLit c
  | .lam _ _ d b => noNegLit d && noNegLit b
  | .app f a => noNegLit f && noNegLit a
  | .letg ds b => noNegLitDefs ds && noNegLit b
  | .neg a => noNegLit a
  | .bin _ a b => noNegLit a && noNegLit b
  | .ite c a b => noNegLit c && noNegLit a && noNegLit b
  | _ => true
def noNegLitDefs : Defs → Bool
  | .nil => true
  | .cons _ a d r => noNegLit a && noNegLit d && noNegLitDefs r
end

/-! ## The main theorem -/

/-- what the induction carries for a term -/
structure Good (nm : Name → List Char) (t : Tm) : Prop where
  term : Derives G "term" (printToks nm t)
  jumbo : isLet t = false → Derives G "jumbo_term" (printToks nm t)
  atom : atomic t = true → Derives G "atom" (printToks nm t)
  app : isApp t = true → AtomSeq (printToks nm t)

theorem Good.ofAtom {nm : Name → List Char} {t : Tm} (h : Derives G "atom" (printToks nm t))
    (happ : isApp t = false) : Good nm t :=
  ⟨up_term (atom_jumbo h), fun _ => atom_jumbo h, fun _ => h, fun e => by simp [happ] at e⟩

theorem Good.ofJumbo {nm : Name → List Char} {t : Tm} (h : Derives G "jumbo_term" (printToks nm t))
    (hat : atomic t = false) (happ : isApp t = false) : Good nm t :=
  ⟨up_term h, fun _ => h, fun e => by simp [hat] at e, fun e => by simp [happ] at e⟩

theorem Good.group {nm : Name → List Char} {t : Tm} (h : Good nm t) :
    Derives G "atom" (groupToks nm t) := by
  rw [groupToks_eq]
  split
  · rename_i ha; exact h.atom ha
  · exact d_group h.term

theorem Good.head {nm : Name → List Char} {t : Tm} (h : Good nm t) : AtomSeq (headToks nm t) := by
  rw [headToks_eq]
  split
  · rename_i ha; exact h.app ha
  · exact .one h.group

theorem Good.annot {nm : Name → List Char} {t : Tm} (h : Good nm t) :
    Derives G "jumbo_term" (annotToks nm t) := by
  rw [annotToks_eq]
  split
  · exact atom_jumbo (d_group h.term)
  · rename_i hl; exact h.jumbo (by simpa using hl)

mutual
theorem good_of_printable (nm : Name → List Char) :
    ∀ t : Tm, noImplicitArrow t = true → noNegLit t = true → Good nm t
  | .hole _ _, _, _ => .ofAtom atom_identifier rfl
  | .type, _, _ => .ofAtom atom_type rfl
  | .int, _, _ => .ofAtom atom_integer rfl
  | .bool, _, _ => .ofAtom atom_boolean rfl
  | .tt, _, _ => .ofAtom atom_true rfl
  | .ff, _, _ => .ofAtom atom_false rfl
  | .var _ _, _, _ => .ofAtom atom_identifier rfl
  | .lit (.ofNat _), _, _ => .ofAtom atom_literal rfl
  | .lit (.negSucc _), _, h2 => by simp [noNegLit] at h2
  | .lam x imp d b, h1, h2 => by
      simp only [noImplicitArrow, noNegLit, Bool.and_eq_true] at h1 h2
      have hd := good_of_printable nm d h1.1 h2.1
      have hb := good_of_printable nm b h1.2 h2.2
      refine .ofJumbo ?_ rfl rfl
      rw [printToks_lam]
      exact d_lam imp hd.annot hb.term
  | .pi x imp d c, h1, h2 => by
      simp only [noImplicitArrow, noNegLit, Bool.and_eq_true, Bool.or_eq_true,
        Bool.not_eq_true'] at h1 h2
      have hd := good_of_printable nm d h1.1.2 h2.1
      have hc := good_of_printable nm c h1.2 h2.2
      refine .ofJumbo ?_ rfl rfl
      cases hf : freeAt c 0 with
      | true =>
        rw [printToks_pi_dep nm x d c imp hf]
        exact d_pi imp hd.annot hc.term
      | false =>
        have hi : imp = false := by
          rcases h1.1.1 with h | h
          · exact h
          · rw [hf] at h; exact absurd h (by decide)
        subst hi
        rw [printToks_arrow nm x d c hf]
        exact d_arrow hd.head.small hc.term
  | .app f a, h1, h2 => by
      simp only [noImplicitArrow, noNegLit, Bool.and_eq_true] at h1 h2
      have hf := good_of_printable nm f h1.1 h2.1
      have ha := good_of_printable nm a h1.2 h2.2
      have hs : AtomSeq (printToks nm (.app f a)) := by
        rw [printToks_app]
        exact hf.head.snoc ha.group
      exact ⟨up_term (small_jumbo hs.small), fun _ => small_jumbo hs.small,
        fun e => by simp [atomic, Tm.former, Former.bare] at e, fun _ => hs⟩
  | .letg ds b, h1, h2 => by
      simp only [noImplicitArrow, noNegLit, Bool.and_eq_true] at h1 h2
      have hb := good_of_printable nm b h1.2 h2.2
      have hds := defs_derive nm ds h1.1 h2.1 _ hb.term
      rw [← printToks_letg] at hds
      exact ⟨hds, fun e => by simp [isLet] at e,
        fun e => by simp [atomic, Tm.former, Former.bare] at e, fun e => by simp [isApp] at e⟩
  | .neg a, h1, h2 => by
      simp only [noImplicitArrow, noNegLit] at h1 h2
      have ha := good_of_printable nm a h1 h2
      refine .ofJumbo ?_ rfl rfl
      rw [printToks_neg]
      exact d_neg ha.group
  | .bin op a b, h1, h2 => by
      simp only [noImplicitArrow, noNegLit, Bool.and_eq_true] at h1 h2
      have ha := good_of_printable nm a h1.1 h2.1
      have hb := good_of_printable nm b h1.2 h2.2
      refine .ofJumbo ?_ (by cases op <;> rfl) rfl
      rw [printToks_bin]
      exact d_bin op ha.group hb.group
  | .ite c a b, h1, h2 => by
      simp only [noImplicitArrow, noNegLit, Bool.and_eq_true] at h1 h2
      have hc := good_of_printable nm c h1.1.1 h2.1.1
      have ha := good_of_printable nm a h1.1.2 h2.1.2
      have hb := good_of_printable nm b h1.2 h2.2
      refine .ofJumbo ?_ rfl rfl
      rw [printToks_ite]
      exact d_ite hc.term ha.term hb.term
theorem defs_derive (nm : Name → List Char) :
    ∀ ds : Defs, noImplicitArrowDefs ds = true → noNegLitDefs ds = true →
      ∀ w, Derives G "term" w → Derives G "term" (defsToks nm ds ++ w)
  | .nil, _, _, w, hw => by simpa [defsToks_nil] using hw
  | .cons x a d r, h1, h2, w, hw => by
      simp only [noImplicitArrowDefs, noNegLitDefs, Bool.and_eq_true] at h1 h2
      have ha := good_of_printable nm a h1.1.1 h2.1.1
      have hd := good_of_printable nm d h1.1.2 h2.1.2
      have hr := defs_derive nm r h1.2 h2.2 w hw
      have := d_let (up_small ha.group) (up_term (atom_jumbo hd.group)) hr
      rw [defsToks_cons]
      simpa using this
end

/-- **What the printer prints is a sentence of the published grammar**: for every term without an
implicit non-dependent function type and without a negative literal, the token kinds of the printed
text form a sentence of the start symbol `term` of `grammar.y`. -/
theorem print_derives (nm : Name → List Char) (t : Tm) (h1 : noImplicitArrow t = true)
    (h2 : noNegLit t = true) : Derives Generated.grammarProductions "term" (printToks nm t) :=
  (good_of_printable nm t h1 h2).term

/-- the operand positions: what `group` prints is an `atom` of the grammar (a leaf or a
parenthesised term), what `annotation` prints a `jumbo_term`, an application head / arrow domain
a `small_term` -/
theorem group_derives (nm : Name → List Char) (t : Tm) (h1 : noImplicitArrow t = true)
    (h2 : noNegLit t = true) : Derives Generated.grammarProductions "atom" (groupToks nm t) :=
  (good_of_printable nm t h1 h2).group

theorem annot_derives (nm : Name → List Char) (t : Tm) (h1 : noImplicitArrow t = true)
    (h2 : noNegLit t = true) : Derives Generated.grammarProductions "jumbo_term" (annotToks nm t) :=
  (good_of_printable nm t h1 h2).annot

theorem head_derives (nm : Name → List Char) (t : Tm) (h1 : noImplicitArrow t = true)
    (h2 : noNegLit t = true) : Derives Generated.grammarProductions "small_term" (headToks nm t) :=
  (good_of_printable nm t h1 h2).head.small

/-! ## The exclusions are real

### `{A} -> B` is not a sentence

In every sentence of every nonterminal of `grammar.y`, a `{` is followed by an identifier. -/

/-- every `LEFT_CURLY` is followed by `IDENTIFIER` (in particular it is not last) -/
def lcOk : List String → Bool
  | [] => true
  | [a] => a != "LEFT_CURLY"
  | a :: b :: r => (a != "LEFT_CURLY" || b == "IDENTIFIER") && lcOk (b :: r)

/-- the symbol is the left-hand side of a production (a nonterminal) -/
def isLhs (A : String) : Bool := G.any (fun p => p.1 == A)

theorem lcOk_tail {a : String} {r : List String} (h : lcOk (a :: r) = true) : lcOk r = true := by
  cases r with
  | nil => rfl
  | cons b r => simp [lcOk] at h; exact h.2

theorem lcOk_cons {a : String} {w : List String} (ha : a ≠ "LEFT_CURLY") (h : lcOk w = true) :
    lcOk (a :: w) = true := by
  cases w with
  | nil => simpa [lcOk] using ha
  | cons b r => simp [lcOk, ha, h]

theorem lcOk_append : ∀ (w1 w2 : List String), lcOk w1 = true → lcOk w2 = true →
    lcOk (w1 ++ w2) = true
  | [], _, _, h2 => h2
  | [a], w2, h1, h2 => by
      have ha : a ≠ "LEFT_CURLY" := by simpa [lcOk] using h1
      exact lcOk_cons ha h2
  | a :: b :: r, w2, h1, h2 => by
      have ih := lcOk_append (b :: r) w2 (lcOk_tail h1) h2
      simp only [lcOk, Bool.and_eq_true] at h1
      simp only [List.cons_append] at ih ⊢
      simp only [lcOk, Bool.and_eq_true]
      exact ⟨h1.1, ih⟩

theorem rhs_lcOk : ∀ p ∈ G, lcOk p.2 = true := by decide

theorem isLhs_of_mem {A : String} {rhs : List String} (h : (A, rhs) ∈ G) : isLhs A = true :=
  List.any_eq_true.mpr ⟨_, h, by simp⟩

mutual
theorem lc_derives : ∀ {A : String} {w : List String}, Derives G A w →
    isLhs A = true ∧ lcOk w = true
  | _, _, .prod hm hs => ⟨isLhs_of_mem hm, (lc_seq hs (rhs_lcOk _ hm)).1⟩
theorem lc_seq : ∀ {rhs w : List String}, DerivesSeq G rhs w → lcOk rhs = true →
    lcOk w = true ∧ (∀ a rest, rhs = a :: rest → isLhs a = false → ∃ w', w = a :: w')
  | _, _, .nil, _ => ⟨rfl, fun _ _ e => by simp at e⟩
  | _, _, @DerivesSeq.term _ a rest w _ hs, hok => by
      have ih := lc_seq hs (lcOk_tail hok)
      refine ⟨?_, fun a' rest' e _ => ?_⟩
      · by_cases ha : a = "LEFT_CURLY"
        · subst ha
          cases rest with
          | nil => simp [lcOk] at hok
          | cons b rest' =>
            simp only [lcOk, bne_self_eq_false, Bool.false_or, Bool.and_eq_true, beq_iff_eq] at hok
            obtain ⟨w', hw'⟩ := ih.2 b rest' rfl (by rw [hok.1]; decide)
            subst hw'
            simp only [lcOk, bne_self_eq_false, Bool.false_or, Bool.and_eq_true, beq_iff_eq]
            exact ⟨hok.1, ih.1⟩
        · exact lcOk_cons ha ih.1
      · simp only [List.cons.injEq] at e
        exact ⟨w, by rw [e.1]⟩
  | _, _, @DerivesSeq.nonterm _ A rest w1 w2 hd hs, hok => by
      have ih1 := lc_derives hd
      have ih2 := lc_seq hs (lcOk_tail hok)
      refine ⟨lcOk_append _ _ ih1.2 ih2.1, fun a' rest' e hn => ?_⟩
      simp only [List.cons.injEq] at e
      rw [← e.1, ih1.1] at hn
      exact absurd hn (by decide)
end

/-- in a sentence of any nonterminal, every `{` is followed by an identifier -/
theorem derives_lcOk {A : String} {w : List String} (h : Derives Generated.grammarProductions A w) :
    lcOk w = true := (lc_derives h).2

/-- **KF-print-implicit**: the implicit non-dependent function type `{int} -> int` is printed as
`LEFT_CURLY INTEGER RIGHT_CURLY THIN_ARROW INTEGER`, which no nonterminal of `grammar.y` derives. -/
theorem implicit_arrow_not_derivable (nm : Name → List Char) (x : Name) (A : String) :
    ¬ Derives Generated.grammarProductions A (printToks nm (.pi x true .int .int)) := by
  intro h
  have := derives_lcOk h
  rw [printToks_pi_imp nm x .int .int (by decide), printToks_int] at this
  exact absurd this (by decide)

/-- more generally: an implicit non-dependent function type whose domain does not start with an
identifier is not derivable, in whatever context it is printed -/
theorem implicit_arrow_lcOk_false (nm : Name → List Char) (x : Name) (d c : Tm)
    (hf : freeAt c 0 = false) (hd : ∀ r, printToks nm d ≠ "IDENTIFIER" :: r) :
    lcOk (printToks nm (.pi x true d c)) = false := by
  rw [printToks_pi_imp nm x d c hf]
  cases h : printToks nm d with
  | nil => simp [lcOk]
  | cons b r =>
    have hb : b ≠ "IDENTIFIER" := fun e => hd r (by rw [h, e])
    simp [lcOk, hb]

/-! ### A negative literal is printed bare

`group` treats every integer literal as atomic, but a negative one is printed with a leading `-`:
two tokens, `MINUS INTEGER_LITERAL`.  As an argument it is read back as a subtraction. -/

/-- **New finding**: the application of an atomic `f` to the literal `-(n+1)` and the difference
`f - (n+1)` print to the *same token sequence* (kinds and payloads): `f -1` / `f - 1`. -/
theorem negative_literal_ambiguous (nm : Name → List Char) (f : Tm) (n : Nat) (hf : atomic f = true) :
    printKinds nm (.app f (.lit (.negSucc n))) = printKinds nm (.bin .diff f (.lit (.ofNat (n + 1)))) := by
  have hh : wrapHeadI f (printItems nm f) = wrapGroupI f (printItems nm f) := by
    cases f <;> first
      | rfl
      | simp [atomic, Tm.former, Former.bare] at hf
  simp [printKinds, printItems, appItems, binItems, hh, wrapGroupI, atomic, Tm.former, Former.bare,
    intItems, kindsOf, tk, tkS, opKind]

/-! ### A negative literal as the domain of `->` is not a sentence

`-1 -> int` (`MINUS INTEGER_LITERAL THIN_ARROW …`): abstract every word to its first three tokens,
classified as `MINUS` / `INTEGER_LITERAL` / `THIN_ARROW` / other.  This abstraction is a monoid
homomorphism (truncated concatenation), so the sets of abstract values of the sentences of each
nonterminal are bounded by any table closed under the productions; the table below (the least one)
is checked closed by evaluation and does not contain `MINUS INTEGER_LITERAL THIN_ARROW` for `term`. -/

inductive Cls | m | l | a | o
deriving DecidableEq, Repr

def cls (s : String) : Cls :=
  if s = "MINUS" then .m else if s = "INTEGER_LITERAL" then .l else if s = "THIN_ARROW" then .a else .o

/-- the first three tokens, classified -/
def absW (w : List String) : List Cls := (w.map cls).take 3

def absTable : List (String × List (List Cls)) := [
  ("annotated_lambda", [[.o, .o, .o]]),
  ("annotated_lambda_implicit", [[.o, .o, .o]]),
  ("application", [[.l, .l], [.l, .l, .l], [.l, .l, .o], [.l, .o], [.l, .o, .l], [.l, .o, .m], [.l, .o, .o], [.o, .l], [.o, .l, .a], [.o, .l, .l], [.o, .l, .m], [.o, .l, .o], [.o, .m, .l], [.o, .m, .m], [.o, .m, .o], [.o, .o], [.o, .o, .a], [.o, .o, .l], [.o, .o, .m], [.o, .o, .o]]),
  ("atom", [[.l], [.o], [.o, .l, .a], [.o, .l, .l], [.o, .l, .m], [.o, .l, .o], [.o, .m, .l], [.o, .m, .m], [.o, .m, .o], [.o, .o, .a], [.o, .o, .l], [.o, .o, .m], [.o, .o, .o]]),
  ("boolean", [[.o]]),
  ("difference", [[.l, .l, .l], [.l, .l, .m], [.l, .l, .o], [.l, .m, .l], [.l, .m, .m], [.l, .m, .o], [.l, .o, .l], [.l, .o, .m], [.l, .o, .o], [.m, .l, .l], [.m, .l, .m], [.m, .l, .o], [.m, .m, .l], [.m, .m, .m], [.m, .m, .o], [.m, .o, .l], [.m, .o, .m], [.m, .o, .o], [.o, .l, .a], [.o, .l, .l], [.o, .l, .m], [.o, .l, .o], [.o, .m, .l], [.o, .m, .m], [.o, .m, .o], [.o, .o, .a], [.o, .o, .l], [.o, .o, .m], [.o, .o, .o]]),
  ("equal_to", [[.l, .l, .l], [.l, .l, .m], [.l, .l, .o], [.l, .m, .l], [.l, .m, .m], [.l, .m, .o], [.l, .o, .l], [.l, .o, .m], [.l, .o, .o], [.m, .l, .l], [.m, .l, .m], [.m, .l, .o], [.m, .m, .l], [.m, .m, .m], [.m, .m, .o], [.m, .o, .l], [.m, .o, .m], [.m, .o, .o], [.o, .l, .a], [.o, .l, .l], [.o, .l, .m], [.o, .l, .o], [.o, .m, .l], [.o, .m, .m], [.o, .m, .o], [.o, .o, .a], [.o, .o, .l], [.o, .o, .m], [.o, .o, .o]]),
  ("false", [[.o]]),
  ("giant_term", [[.l], [.l, .l], [.l, .l, .l], [.l, .l, .m], [.l, .l, .o], [.l, .m, .l], [.l, .m, .m], [.l, .m, .o], [.l, .o], [.l, .o, .l], [.l, .o, .m], [.l, .o, .o], [.m, .l], [.m, .l, .l], [.m, .l, .m], [.m, .l, .o], [.m, .m, .l], [.m, .m, .m], [.m, .m, .o], [.m, .o], [.m, .o, .l], [.m, .o, .m], [.m, .o, .o], [.o], [.o, .l], [.o, .l, .a], [.o, .l, .l], [.o, .l, .m], [.o, .l, .o], [.o, .m, .l], [.o, .m, .m], [.o, .m, .o], [.o, .o], [.o, .o, .a], [.o, .o, .l], [.o, .o, .m], [.o, .o, .o]]),
  ("greater_than", [[.l, .l, .l], [.l, .l, .m], [.l, .l, .o], [.l, .m, .l], [.l, .m, .m], [.l, .m, .o], [.l, .o, .l], [.l, .o, .m], [.l, .o, .o], [.m, .l, .l], [.m, .l, .m], [.m, .l, .o], [.m, .m, .l], [.m, .m, .m], [.m, .m, .o], [.m, .o, .l], [.m, .o, .m], [.m, .o, .o], [.o, .l, .a], [.o, .l, .l], [.o, .l, .m], [.o, .l, .o], [.o, .m, .l], [.o, .m, .m], [.o, .m, .o], [.o, .o, .a], [.o, .o, .l], [.o, .o, .m], [.o, .o, .o]]),
  ("greater_than_or_equal_to", [[.l, .l, .l], [.l, .l, .m], [.l, .l, .o], [.l, .m, .l], [.l, .m, .m], [.l, .m, .o], [.l, .o, .l], [.l, .o, .m], [.l, .o, .o], [.m, .l, .l], [.m, .l, .m], [.m, .l, .o], [.m, .m, .l], [.m, .m, .m], [.m, .m, .o], [.m, .o, .l], [.m, .o, .m], [.m, .o, .o], [.o, .l, .a], [.o, .l, .l], [.o, .l, .m], [.o, .l, .o], [.o, .m, .l], [.o, .m, .m], [.o, .m, .o], [.o, .o, .a], [.o, .o, .l], [.o, .o, .m], [.o, .o, .o]]),
  ("group", [[.o, .l, .a], [.o, .l, .l], [.o, .l, .m], [.o, .l, .o], [.o, .m, .l], [.o, .m, .m], [.o, .m, .o], [.o, .o, .a], [.o, .o, .l], [.o, .o, .m], [.o, .o, .o]]),
  ("huge_term", [[.l], [.l, .l], [.l, .l, .l], [.l, .l, .m], [.l, .l, .o], [.l, .m, .l], [.l, .m, .m], [.l, .m, .o], [.l, .o], [.l, .o, .l], [.l, .o, .m], [.l, .o, .o], [.m, .l], [.m, .l, .l], [.m, .l, .m], [.m, .l, .o], [.m, .m, .l], [.m, .m, .m], [.m, .m, .o], [.m, .o], [.m, .o, .l], [.m, .o, .m], [.m, .o, .o], [.o], [.o, .l], [.o, .l, .a], [.o, .l, .l], [.o, .l, .m], [.o, .l, .o], [.o, .m, .l], [.o, .m, .m], [.o, .m, .o], [.o, .o], [.o, .o, .a], [.o, .o, .l], [.o, .o, .m], [.o, .o, .o]]),
  ("if", [[.o, .l, .a], [.o, .l, .l], [.o, .l, .m], [.o, .l, .o], [.o, .m, .l], [.o, .m, .m], [.o, .m, .o], [.o, .o, .a], [.o, .o, .l], [.o, .o, .m], [.o, .o, .o]]),
  ("integer", [[.o]]),
  ("integer_literal", [[.l]]),
  ("jumbo_term", [[.l], [.l, .a, .l], [.l, .a, .m], [.l, .a, .o], [.l, .l], [.l, .l, .a], [.l, .l, .l], [.l, .l, .m], [.l, .l, .o], [.l, .m, .l], [.l, .m, .m], [.l, .m, .o], [.l, .o], [.l, .o, .a], [.l, .o, .l], [.l, .o, .m], [.l, .o, .o], [.m, .l], [.m, .l, .l], [.m, .l, .m], [.m, .l, .o], [.m, .m, .l], [.m, .m, .m], [.m, .m, .o], [.m, .o], [.m, .o, .l], [.m, .o, .m], [.m, .o, .o], [.o], [.o, .a, .l], [.o, .a, .m], [.o, .a, .o], [.o, .l], [.o, .l, .a], [.o, .l, .l], [.o, .l, .m], [.o, .l, .o], [.o, .m, .l], [.o, .m, .m], [.o, .m, .o], [.o, .o], [.o, .o, .a], [.o, .o, .l], [.o, .o, .m], [.o, .o, .o]]),
  ("lambda", [[.o, .o, .l], [.o, .o, .m], [.o, .o, .o]]),
  ("lambda_implicit", [[.o, .o, .o]]),
  ("large_term", [[.l], [.l, .l], [.l, .l, .l], [.l, .l, .o], [.l, .o], [.l, .o, .l], [.l, .o, .m], [.l, .o, .o], [.m, .l], [.m, .l, .l], [.m, .l, .o], [.m, .m, .l], [.m, .m, .m], [.m, .m, .o], [.m, .o], [.m, .o, .l], [.m, .o, .m], [.m, .o, .o], [.o], [.o, .l], [.o, .l, .a], [.o, .l, .l], [.o, .l, .m], [.o, .l, .o], [.o, .m, .l], [.o, .m, .m], [.o, .m, .o], [.o, .o], [.o, .o, .a], [.o, .o, .l], [.o, .o, .m], [.o, .o, .o]]),
  ("less_than", [[.l, .l, .l], [.l, .l, .m], [.l, .l, .o], [.l, .m, .l], [.l, .m, .m], [.l, .m, .o], [.l, .o, .l], [.l, .o, .m], [.l, .o, .o], [.m, .l, .l], [.m, .l, .m], [.m, .l, .o], [.m, .m, .l], [.m, .m, .m], [.m, .m, .o], [.m, .o, .l], [.m, .o, .m], [.m, .o, .o], [.o, .l, .a], [.o, .l, .l], [.o, .l, .m], [.o, .l, .o], [.o, .m, .l], [.o, .m, .m], [.o, .m, .o], [.o, .o, .a], [.o, .o, .l], [.o, .o, .m], [.o, .o, .o]]),
  ("less_than_or_equal_to", [[.l, .l, .l], [.l, .l, .m], [.l, .l, .o], [.l, .m, .l], [.l, .m, .m], [.l, .m, .o], [.l, .o, .l], [.l, .o, .m], [.l, .o, .o], [.m, .l, .l], [.m, .l, .m], [.m, .l, .o], [.m, .m, .l], [.m, .m, .m], [.m, .m, .o], [.m, .o, .l], [.m, .o, .m], [.m, .o, .o], [.o, .l, .a], [.o, .l, .l], [.o, .l, .m], [.o, .l, .o], [.o, .m, .l], [.o, .m, .m], [.o, .m, .o], [.o, .o, .a], [.o, .o, .l], [.o, .o, .m], [.o, .o, .o]]),
  ("let", [[.o, .o, .l], [.o, .o, .m], [.o, .o, .o]]),
  ("let_annotation", [[], [.o, .l], [.o, .l, .l], [.o, .l, .o], [.o, .o], [.o, .o, .l], [.o, .o, .m], [.o, .o, .o]]),
  ("medium_term", [[.l], [.l, .l], [.l, .l, .l], [.l, .l, .o], [.l, .o], [.l, .o, .l], [.l, .o, .m], [.l, .o, .o], [.o], [.o, .l], [.o, .l, .a], [.o, .l, .l], [.o, .l, .m], [.o, .l, .o], [.o, .m, .l], [.o, .m, .m], [.o, .m, .o], [.o, .o], [.o, .o, .a], [.o, .o, .l], [.o, .o, .m], [.o, .o, .o]]),
  ("negation", [[.m, .l], [.m, .l, .l], [.m, .l, .o], [.m, .m, .l], [.m, .m, .m], [.m, .m, .o], [.m, .o], [.m, .o, .l], [.m, .o, .m], [.m, .o, .o]]),
  ("non_dependent_pi", [[.l, .a, .l], [.l, .a, .m], [.l, .a, .o], [.l, .l, .a], [.l, .l, .l], [.l, .l, .o], [.l, .o, .a], [.l, .o, .l], [.l, .o, .m], [.l, .o, .o], [.o, .a, .l], [.o, .a, .m], [.o, .a, .o], [.o, .l, .a], [.o, .l, .l], [.o, .l, .m], [.o, .l, .o], [.o, .m, .l], [.o, .m, .m], [.o, .m, .o], [.o, .o, .a], [.o, .o, .l], [.o, .o, .m], [.o, .o, .o]]),
  ("pi", [[.o, .o, .o]]),
  ("pi_implicit", [[.o, .o, .o]]),
  ("product", [[.l, .l, .l], [.l, .l, .o], [.l, .o, .l], [.l, .o, .m], [.l, .o, .o], [.o, .l, .a], [.o, .l, .l], [.o, .l, .m], [.o, .l, .o], [.o, .m, .l], [.o, .m, .m], [.o, .m, .o], [.o, .o, .a], [.o, .o, .l], [.o, .o, .m], [.o, .o, .o]]),
  ("quotient", [[.l, .l, .l], [.l, .l, .o], [.l, .o, .l], [.l, .o, .m], [.l, .o, .o], [.o, .l, .a], [.o, .l, .l], [.o, .l, .m], [.o, .l, .o], [.o, .m, .l], [.o, .m, .m], [.o, .m, .o], [.o, .o, .a], [.o, .o, .l], [.o, .o, .m], [.o, .o, .o]]),
  ("small_term", [[.l], [.l, .l], [.l, .l, .l], [.l, .l, .o], [.l, .o], [.l, .o, .l], [.l, .o, .m], [.l, .o, .o], [.o], [.o, .l], [.o, .l, .a], [.o, .l, .l], [.o, .l, .m], [.o, .l, .o], [.o, .m, .l], [.o, .m, .m], [.o, .m, .o], [.o, .o], [.o, .o, .a], [.o, .o, .l], [.o, .o, .m], [.o, .o, .o]]),
  ("sum", [[.l, .l, .l], [.l, .l, .o], [.l, .o, .l], [.l, .o, .m], [.l, .o, .o], [.m, .l, .l], [.m, .l, .o], [.m, .m, .l], [.m, .m, .m], [.m, .m, .o], [.m, .o, .l], [.m, .o, .m], [.m, .o, .o], [.o, .l, .a], [.o, .l, .l], [.o, .l, .m], [.o, .l, .o], [.o, .m, .l], [.o, .m, .m], [.o, .m, .o], [.o, .o, .a], [.o, .o, .l], [.o, .o, .m], [.o, .o, .o]]),
  ("term", [[.l], [.l, .a, .l], [.l, .a, .m], [.l, .a, .o], [.l, .l], [.l, .l, .a], [.l, .l, .l], [.l, .l, .m], [.l, .l, .o], [.l, .m, .l], [.l, .m, .m], [.l, .m, .o], [.l, .o], [.l, .o, .a], [.l, .o, .l], [.l, .o, .m], [.l, .o, .o], [.m, .l], [.m, .l, .l], [.m, .l, .m], [.m, .l, .o], [.m, .m, .l], [.m, .m, .m], [.m, .m, .o], [.m, .o], [.m, .o, .l], [.m, .o, .m], [.m, .o, .o], [.o], [.o, .a, .l], [.o, .a, .m], [.o, .a, .o], [.o, .l], [.o, .l, .a], [.o, .l, .l], [.o, .l, .m], [.o, .l, .o], [.o, .m, .l], [.o, .m, .m], [.o, .m, .o], [.o, .o], [.o, .o, .a], [.o, .o, .l], [.o, .o, .m], [.o, .o, .o]]),
  ("true", [[.o]]),
  ("type", [[.o]]),
  ("variable", [[.o]])
]

def absOf (A : String) : List (List Cls) :=
  match absTable.find? (fun p => p.1 == A) with
  | some p => p.2
  | none => []

def symAbs (X : String) : List (List Cls) :=
  (if X ∈ Generated.grammarTerminals then [[cls X]] else []) ++ absOf X

def insertNew (x : List Cls) (acc : List (List Cls)) : List (List Cls) :=
  if x ∈ acc then acc else x :: acc

/-- remove duplicates (keeps the tables small during evaluation) -/
def dedup (l : List (List Cls)) : List (List Cls) := l.foldr insertNew []

theorem mem_dedup {x : List Cls} : ∀ {l : List (List Cls)}, x ∈ l → x ∈ dedup l
  | y :: l, h => by
      simp only [dedup, List.foldr_cons, insertNew]
      rcases List.mem_cons.mp h with e | h'
      · subst e
        split
        · assumption
        · exact List.mem_cons_self
      · have ih : x ∈ dedup l := mem_dedup h'
        simp only [dedup] at ih
        split
        · exact ih
        · exact List.mem_cons_of_mem _ ih

def catAbs (A B : List (List Cls)) : List (List Cls) :=
  dedup (A.flatMap (fun x => B.map (fun y => (x ++ y).take 3)))

def seqAbs : List String → List (List Cls)
  | [] => [[]]
  | X :: r => catAbs (symAbs X) (seqAbs r)

theorem abs_closed : ∀ p ∈ G, ∀ x ∈ seqAbs p.2, x ∈ absOf p.1 := by decide +kernel

theorem take_append_take {α : Type} (n : Nat) (l1 l2 : List α) :
    (l1 ++ l2).take n = (l1.take n ++ l2.take n).take n := by
  simp only [List.take_append, List.take_take, List.length_take]
  congr 1
  · simp
  · congr 1; omega

theorem absW_append (w1 w2 : List String) : absW (w1 ++ w2) = (absW w1 ++ absW w2).take 3 := by
  simp only [absW, List.map_append]
  exact take_append_take 3 _ _

theorem mem_catAbs {A B : List (List Cls)} {x y : List Cls} (hx : x ∈ A) (hy : y ∈ B) :
    (x ++ y).take 3 ∈ catAbs A B := by
  apply mem_dedup
  simp only [List.mem_flatMap, List.mem_map]
  exact ⟨x, hx, y, hy, rfl⟩

mutual
theorem abs_derives : ∀ {A : String} {w : List String}, Derives G A w → absW w ∈ absOf A
  | _, _, .prod hm hs => abs_closed _ hm _ (abs_seq hs)
theorem abs_seq : ∀ {rhs w : List String}, DerivesSeq G rhs w → absW w ∈ seqAbs rhs
  | _, _, .nil => by simp [seqAbs, absW]
  | _, _, @DerivesSeq.term _ a rest w ha hs => by
      have ih := abs_seq hs
      have e : absW (a :: w) = ([cls a] ++ absW w).take 3 := absW_append [a] w
      rw [e, seqAbs]
      exact mem_catAbs (by simp [symAbs, ha]) ih
  | _, _, @DerivesSeq.nonterm _ A rest w1 w2 hd hs => by
      have ih1 := abs_derives hd
      have ih2 := abs_seq hs
      rw [absW_append, seqAbs]
      exact mem_catAbs (by simp [symAbs, ih1]) ih2
end

/-- no sentence of `term` starts with `MINUS INTEGER_LITERAL THIN_ARROW` -/
theorem minus_literal_arrow_not_derivable (r : List String) :
    ¬ Derives Generated.grammarProductions "term" ("MINUS" :: "INTEGER_LITERAL" :: "THIN_ARROW" :: r) := by
  intro h
  have := abs_derives h
  revert this
  simp only [absW, List.map_cons, List.take_succ_cons, List.take_zero]
  decide

/-- **The second exclusion is necessary for derivability too**: a non-dependent function type whose
domain is a negative literal (`-1 -> B`) is not a sentence. -/
theorem negative_literal_domain_not_derivable (nm : Name → List Char) (x : Name) (n : Nat) (c : Tm)
    (hf : freeAt c 0 = false) :
    ¬ Derives Generated.grammarProductions "term" (printToks nm (.pi x false (.lit (.negSucc n)) c)) := by
  rw [printToks_arrow nm x _ c hf]
  exact minus_literal_arrow_not_derivable _

end PrintDerives
