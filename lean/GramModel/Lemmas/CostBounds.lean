import GramModel.Lexer
import GramModel.Lemmas.Lexer
import GramModel.Parser
import GramModel.Lemmas.Parser
import GramModel.Lemmas.ParserTermination
import GramModel.Lemmas.ParserCalls

/-!
# Step counts for the tokenizer's loops and the parser's error-recovery scans

`C17` bounds the number of *calls* of the 36 packrat functions.  This file bounds the work done by
the loops that are not packrat calls:

* the tokenizer's main loop `scan` together with its inner loops `spanChars` (identifier / number
  tails) and `skipComment`, and the second pass `filterToks`;
* the parser's recovery scan `scanLoop` (inside `expectToken`), which runs inside the bodies of
  `parse_let`, `parse_if` and `parse_group`.

Every count is the second component of a *counting twin* whose first component is proved equal to
the model's own function, so the bounds are about the model's loops.
-/

/-! ## Tokenizer -/

/-- Characters inspected by `spanChars p cs`: the accepted prefix, plus the first rejected
character (if there is one). -/
def spanSteps (p : Char → Bool) : List Char → Nat
  | [] => 0
  | c :: cs => if p c then spanSteps p cs + 1 else 1

/-- Characters inspected by `skipComment cs pos`: the comment's characters, plus the line feed that
ends it (if there is one). -/
def commentSteps : List Char → Nat
  | [] => 0
  | c :: cs => if c == '\n' then 1 else commentSteps cs + 1

/-- The cost of looking at the next character (if there is one). -/
def peekCost : List Char → Nat
  | [] => 0
  | _ :: _ => 1

/-- The outcome of one iteration of the scanning loop: stop with a state (the panic arm), or go
on with a new position, remaining text and state; `cost` = number of character inspections made
by the iteration (1 for the current character + look-ahead + inner loop). -/
inductive LexStep
  | halt (s : LexState)
  | next (pos : Nat) (rest : List Char) (s : LexState) (cost : Nat)

/-- One iteration of `scan` (the same case split, arm by arm), with its cost. -/
def lexStep (cc : CharClass) (pos : Nat) (c : Char) (cs : List Char) (s : LexState) : LexStep :=
  let one (k : TokKind) := LexStep.next (pos + 1) cs (s.push k pos (pos + 1)) 1
  let oneP (k : TokKind) := LexStep.next (pos + 1) cs (s.push k pos (pos + 1)) (1 + peekCost cs)
  let two (k : TokKind) (rest : List Char) :=
    LexStep.next (pos + 2) rest (s.push k pos (pos + 2)) 2
  if c == '*' then one .asterisk
  else if c == ':' then one .colon
  else if c == '{' then one .leftCurly
  else if c == '(' then one .leftParen
  else if c == '+' then one .plus
  else if c == '}' then one .rightCurly
  else if c == ')' then one .rightParen
  else if c == '/' then one .slash
  else if c == ';' then one .terminatorSemicolon
  else if c == '\n' then
    match lastCanEnd s with
    | none => .halt { s with panic := true }
    | some true => one .terminatorLineBreak
    | some false => .next (pos + 1) cs s 1
  else if c == '-' then
    match cs with
    | '>' :: r => two .thinArrow r
    | _ => oneP .minus
  else if c == '<' then
    match cs with
    | '=' :: r => two .lessThanOrEqualTo r
    | _ => oneP .lessThan
  else if c == '=' then
    match cs with
    | '=' :: r => two .doubleEquals r
    | '>' :: r => two .thickArrow r
    | _ => oneP .equals
  else if c == '>' then
    match cs with
    | '=' :: r => two .greaterThanOrEqualTo r
    | _ => oneP .greaterThan
  else if identStart cc c then
    let (w, rest) := spanChars (identCont cc) cs
    let stop := pos + c.utf8Size + bytesOf w
    .next stop rest (s.push (wordKind (c :: w)) pos stop) (1 + spanSteps (identCont cc) cs)
  else if isDigit c then
    let (w, rest) := spanChars isDigit cs
    let stop := pos + 1 + bytesOf w
    .next stop rest (s.push (.integerLiteral (digitsValue (c :: w))) pos stop)
      (1 + spanSteps isDigit cs)
  else if cc.isWs c then .next (pos + c.utf8Size) cs s 1
  else if c == '#' then
    let (rest, p) := skipComment cs (pos + 1)
    .next p rest s (1 + commentSteps cs)
  else
    .next (pos + c.utf8Size) cs { s with errs := (pos, cc.graphemeEnd pos) :: s.errs } 1

/-- one arm of the `if` chain shared by `scan` and `lexStep` -/
local macro "lex_arm " t:term : tactic =>
  `(tactic| (by_cases h1 : $t
             · rw [if_pos h1, if_pos h1]
               all_goals first
                 | rfl
                 | (split <;> first
                     | rfl
                     | (rename_i h; simp only [h])
                     | (split <;> first | rfl | (exfalso; simp_all)))
             rw [if_neg h1, if_neg h1]; try clear h1))

/-- **`lexStep` is the body of `scan`'s loop.** -/
theorem scan_succ (cc : CharClass) (fuel pos : Nat) (c : Char) (cs : List Char) (s : LexState) :
    scan cc (fuel + 1) pos (c :: cs) s =
      match lexStep cc pos c cs s with
      | .halt s' => s'
      | .next p r s' _ => scan cc fuel p r s' := by
  rw [scan.eq_def]
  unfold lexStep
  dsimp only
  lex_arm (c == '*') = true
  lex_arm (c == ':') = true
  lex_arm (c == '{') = true
  lex_arm (c == '(') = true
  lex_arm (c == '+') = true
  lex_arm (c == '}') = true
  lex_arm (c == ')') = true
  lex_arm (c == '/') = true
  lex_arm (c == ';') = true
  lex_arm (c == '\n') = true
  lex_arm (c == '-') = true
  lex_arm (c == '<') = true
  lex_arm (c == '=') = true
  lex_arm (c == '>') = true
  lex_arm identStart cc c = true
  lex_arm isDigit c = true
  lex_arm cc.isWs c = true
  lex_arm (c == '#') = true

theorem peekCost_le (cs : List Char) : peekCost cs ≤ 1 := by
  cases cs <;> simp [peekCost]

theorem spanSteps_le (p : Char → Bool) : ∀ (cs : List Char),
    spanSteps p cs + (spanChars p cs).2.length ≤ cs.length + 1 ∧
    (spanChars p cs).2.length ≤ cs.length
  | [] => by simp [spanSteps, spanChars]
  | c :: cs => by
      have ih := spanSteps_le p cs
      simp only [spanSteps, spanChars]
      split
      · simp only [List.length_cons]; omega
      · simp; omega

theorem commentSteps_le : ∀ (cs : List Char) (pos : Nat),
    commentSteps cs + (skipComment cs pos).1.length ≤ cs.length + 1 ∧
    (skipComment cs pos).1.length ≤ cs.length
  | [], pos => by simp [commentSteps, skipComment]
  | c :: cs, pos => by
      have ih := commentSteps_le cs (pos + c.utf8Size)
      simp only [commentSteps, skipComment]
      split
      · simp; omega
      · simp only [List.length_cons]; omega

/-- What one iteration does, as far as costs are concerned (`n` = characters left before the
iteration, `t` = tokens and error ranges produced so far): it consumes at least one character, makes between one
and twice-the-consumed-characters inspections, and produces at most one token or error range. -/
def LexStep.Bounded (n t : Nat) : LexStep → Prop
  | .halt s' => s'.toks.length + s'.errs.length ≤ t
  | .next _ r s' k => r.length < n ∧ 1 ≤ k ∧ k + 2 * r.length ≤ 2 * n ∧
      s'.toks.length + s'.errs.length ≤ t + 1

local macro "bnd_arm " t:term : tactic =>
  `(tactic| (by_cases h1 : $t
             · rw [if_pos h1]
               all_goals first
                 | (simp only [LexStep.Bounded, LexState.push, List.length_cons]; omega)
                 | (split <;> simp only [LexStep.Bounded, LexState.push, List.length_cons] <;> omega)
             rw [if_neg h1]; try clear h1))

theorem lexStep_bounded (cc : CharClass) (pos : Nat) (c : Char) (cs : List Char) (s : LexState) :
    (lexStep cc pos c cs s).Bounded (cs.length + 1) (s.toks.length + s.errs.length) := by
  have hp := peekCost_le cs
  have a1 := spanSteps_le (identCont cc) cs
  have a2 := spanSteps_le isDigit cs
  have a3 := commentSteps_le cs (pos + 1)
  unfold lexStep
  dsimp only
  bnd_arm (c == '*') = true
  bnd_arm (c == ':') = true
  bnd_arm (c == '{') = true
  bnd_arm (c == '(') = true
  bnd_arm (c == '+') = true
  bnd_arm (c == '}') = true
  bnd_arm (c == ')') = true
  bnd_arm (c == '/') = true
  bnd_arm (c == ';') = true
  bnd_arm (c == '\n') = true
  bnd_arm (c == '-') = true
  bnd_arm (c == '<') = true
  bnd_arm (c == '=') = true
  bnd_arm (c == '>') = true
  bnd_arm identStart cc c = true
  bnd_arm isDigit c = true
  bnd_arm cc.isWs c = true
  bnd_arm (c == '#') = true
  simp only [LexStep.Bounded, List.length_cons]; omega

/-- **The counting twin of `scan`**: the same loop, driven by the same `lexStep`; the second
component adds up the costs of the iterations (the panic arm counts as one inspection). -/
def scanC (cc : CharClass) : Nat → Nat → List Char → LexState → LexState × Nat
  | 0, _, _, s => (s, 0)
  | _, _, [], s => (s, 0)
  | fuel + 1, pos, c :: cs, s =>
    match lexStep cc pos c cs s with
    | .halt s' => (s', 1)
    | .next p r s' k => ((scanC cc fuel p r s').1, (scanC cc fuel p r s').2 + k)

/-- The number of character inspections made by `scan cc fuel pos cs s`. -/
def scanSteps (cc : CharClass) (fuel pos : Nat) (cs : List Char) (s : LexState) : Nat :=
  (scanC cc fuel pos cs s).2

theorem scan_nil' (cc : CharClass) (fuel pos : Nat) (s : LexState) : scan cc fuel pos [] s = s := by
  cases fuel <;> simp [scan]

/-- The first component of the twin is the model's `scan`. -/
theorem scanC_fst (cc : CharClass) : ∀ (fuel pos : Nat) (cs : List Char) (s : LexState),
    (scanC cc fuel pos cs s).1 = scan cc fuel pos cs s
  | 0, _, _, _ => by simp [scanC, scan]
  | fuel + 1, pos, [], s => by rw [scan_nil']; simp [scanC]
  | fuel + 1, pos, c :: cs, s => by
      rw [scan_succ, scanC]
      cases lexStep cc pos c cs s with
      | halt s' => rfl
      | next p r s' k => exact scanC_fst cc fuel p r s'

/-- **Every character is inspected at most twice** (once when it is consumed, by the main loop or
by an inner loop, and at most once as the look-ahead that ends the previous lexeme). -/
theorem scanC_steps_le (cc : CharClass) : ∀ (fuel pos : Nat) (cs : List Char) (s : LexState),
    (scanC cc fuel pos cs s).2 ≤ 2 * cs.length
  | 0, _, _, _ => by simp [scanC]
  | fuel + 1, pos, [], s => by simp [scanC]
  | fuel + 1, pos, c :: cs, s => by
      have hb := lexStep_bounded cc pos c cs s
      rw [scanC]
      cases h : lexStep cc pos c cs s with
      | halt s' => simp only [List.length_cons]; omega
      | next p r s' k =>
        rw [h] at hb
        have ih := scanC_steps_le cc fuel p r s'
        simp only [LexStep.Bounded] at hb
        simp only [List.length_cons]
        omega

/-- The loop produces at most one token or error range per character. -/
theorem scan_out_le (cc : CharClass) : ∀ (fuel pos : Nat) (cs : List Char) (s : LexState),
    (scan cc fuel pos cs s).toks.length + (scan cc fuel pos cs s).errs.length
      ≤ s.toks.length + s.errs.length + cs.length
  | 0, _, _, _ => by simp [scan]
  | fuel + 1, pos, [], s => by rw [scan_nil']; omega
  | fuel + 1, pos, c :: cs, s => by
      have hb := lexStep_bounded cc pos c cs s
      rw [scan_succ]
      cases h : lexStep cc pos c cs s with
      | halt s' =>
        rw [h] at hb
        simp only [LexStep.Bounded] at hb
        simp only [List.length_cons]
        omega
      | next p r s' k =>
        rw [h] at hb
        have ih := scan_out_le cc fuel p r s'
        simp only [LexStep.Bounded] at hb
        simp only [List.length_cons]
        omega

/-- Any two amounts of fuel that are at least the number of remaining characters give the same
result: the loop runs at most once per character. -/
theorem scan_fuel_irrel (cc : CharClass) : ∀ (f1 f2 pos : Nat) (cs : List Char) (s : LexState),
    cs.length ≤ f1 → cs.length ≤ f2 → scan cc f1 pos cs s = scan cc f2 pos cs s
  | f1, f2, pos, [], s, _, _ => by rw [scan_nil', scan_nil']
  | 0, _, _, _ :: _, _, h, _ => by simp at h
  | _, 0, _, _ :: _, _, _, h => by simp at h
  | f1 + 1, f2 + 1, pos, c :: cs, s, h1, h2 => by
      have hb := lexStep_bounded cc pos c cs s
      rw [scan_succ, scan_succ]
      cases h : lexStep cc pos c cs s with
      | halt s' => rfl
      | next p r s' k =>
        rw [h] at hb
        simp only [LexStep.Bounded] at hb
        simp only [List.length_cons] at h1 h2
        exact scan_fuel_irrel cc f1 f2 p r s' (by omega) (by omega)

/-- The same for the counting twin: with enough fuel the step count does not depend on the fuel. -/
theorem scanC_fuel_irrel (cc : CharClass) : ∀ (f1 f2 pos : Nat) (cs : List Char) (s : LexState),
    cs.length ≤ f1 → cs.length ≤ f2 → scanC cc f1 pos cs s = scanC cc f2 pos cs s
  | f1, f2, pos, [], s, _, _ => by cases f1 <;> cases f2 <;> simp [scanC]
  | 0, _, _, _ :: _, _, h, _ => by simp at h
  | _, 0, _, _ :: _, _, _, h => by simp at h
  | f1 + 1, f2 + 1, pos, c :: cs, s, h1, h2 => by
      have hb := lexStep_bounded cc pos c cs s
      rw [scanC, scanC]
      cases h : lexStep cc pos c cs s with
      | halt s' => rfl
      | next p r s' k =>
        rw [h] at hb
        simp only [LexStep.Bounded] at hb
        simp only [List.length_cons] at h1 h2
        simp only [scanC_fuel_irrel cc f1 f2 p r s' (by omega) (by omega)]

/-- **The counting twin of `filterToks`**: the same recursion; the second component is the number
of calls (one per token, plus the call on the empty list). -/
def filterToksC : List Tok → Option (List Tok) × Nat
  | [] => (some [], 1)
  | t :: rest =>
    ((match (filterToksC rest).1 with
      | none => none
      | some rest' =>
        if t.kind = .terminatorLineBreak then
          match rest with
          | [] => some rest'
          | n :: _ =>
            match Generated.canStart n.kind with
            | none => none
            | some true => some (t :: rest')
            | some false => some rest'
        else some (t :: rest')),
     (filterToksC rest).2 + 1)

theorem filterToksC_fst : ∀ (ts : List Tok), (filterToksC ts).1 = filterToks ts
  | [] => rfl
  | t :: rest => by
      rw [filterToksC, filterToks, filterToksC_fst rest]
      rfl

/-- The second pass is one pass: exactly `length + 1` calls. -/
theorem filterToksC_snd : ∀ (ts : List Tok), (filterToksC ts).2 = ts.length + 1
  | [] => rfl
  | t :: rest => by rw [filterToksC]; simp [filterToksC_snd rest]

theorem filterToks_length_le (l ts : List Tok) (h : filterToks l = some ts) : ts.length ≤ l.length :=
  (filterToks_sublist l ts h).length_le

/-- **The counting twin of `tokenize`**: the inspections of the scanning loop, plus the reversal of
the token (or error) list (one step per element), plus the calls of the second pass. -/
def tokenizeC (cc : CharClass) (text : List Char) : LexResult × Nat :=
  let r := scanC cc text.length 0 text { toks := [], errs := [] }
  if r.1.panic then (.panic, r.2)
  else if !r.1.errs.isEmpty then (.err r.1.errs.reverse, r.2 + r.1.errs.length)
  else
    (match (filterToksC r.1.toks.reverse).1 with
      | some ts => .ok ts
      | none => .panic,
     r.2 + r.1.toks.length + (filterToksC r.1.toks.reverse).2)

theorem tokenizeC_fst (cc : CharClass) (text : List Char) :
    (tokenizeC cc text).1 = tokenize cc text := by
  unfold tokenizeC tokenize
  simp only [scanC_fst, filterToksC_fst]
  split
  · rfl
  · split
    · rfl
    · rfl

/-- **The tokenizer is linear**: at most `4 · n + 1` steps for a text of `n` characters. -/
theorem tokenizeC_steps_le (cc : CharClass) (text : List Char) :
    (tokenizeC cc text).2 ≤ 4 * text.length + 1 := by
  have h1 := scanC_steps_le cc text.length 0 text { toks := [], errs := [] }
  have h2 := scan_out_le cc text.length 0 text { toks := [], errs := [] }
  rw [← scanC_fst] at h2
  unfold tokenizeC
  simp only [filterToksC_snd, List.length_reverse]
  simp only [List.length_nil] at h2
  split
  · dsimp only; omega
  · split
    · dsimp only; omega
    · dsimp only; omega

/-- There are at most as many tokens as characters. -/
theorem tokenize_length_le (cc : CharClass) (text : List Char) (ts : List Tok)
    (h : tokenize cc text = .ok ts) : ts.length ≤ text.length := by
  have h2 := scan_out_le cc text.length 0 text { toks := [], errs := [] }
  simp only [List.length_nil] at h2
  unfold tokenize at h
  dsimp only at h
  split at h
  · cases h
  · split at h
    · cases h
    · split at h
      · rename_i ts' hf
        cases h
        have := filterToks_length_le _ _ hf
        simp only [List.length_reverse] at this
        omega
      · cases h

/-! ## Parser: the error-recovery scans -/

namespace PModel

/-- **The counting twin of `scanLoop`**: the same loop; the second component is the number of
tokens inspected (= the number of iterations that find a token at `next`). -/
def scanLoopC (toks : Array PTok) (target : PKind → Bool) : Nat → Nat → Nat → (Bool × Nat) × Nat
  | 0, next, _ => ((false, next), 0)
  | n + 1, next, depth =>
    if h : next < toks.size then
      let k := toks[next].kind
      if target k && depth == 0 then ((true, next + 1), 1)
      else match k with
        | .leftParen =>
          ((scanLoopC toks target n (next + 1) (depth + 1)).1,
           (scanLoopC toks target n (next + 1) (depth + 1)).2 + 1)
        | .rightParen =>
          if depth > 0 then
            ((scanLoopC toks target n (next + 1) (depth - 1)).1,
             (scanLoopC toks target n (next + 1) (depth - 1)).2 + 1)
          else ((false, next), 1)
        | .terminator _ =>
          if depth == 0 then ((false, next), 1)
          else
            ((scanLoopC toks target n (next + 1) depth).1,
             (scanLoopC toks target n (next + 1) depth).2 + 1)
        | _ =>
          ((scanLoopC toks target n (next + 1) depth).1,
           (scanLoopC toks target n (next + 1) depth).2 + 1)
    else ((false, next), 0)

/-- The number of tokens inspected by `scanLoop toks target n next depth`. -/
def scanLoopSteps (toks : Array PTok) (target : PKind → Bool) (n next depth : Nat) : Nat :=
  (scanLoopC toks target n next depth).2

theorem scanLoopC_fst (toks : Array PTok) (target : PKind → Bool) : ∀ (n next depth : Nat),
    (scanLoopC toks target n next depth).1 = scanLoop toks target n next depth
  | 0, _, _ => rfl
  | n + 1, next, depth => by
      have ih := fun d => scanLoopC_fst toks target n (next + 1) d
      unfold scanLoopC scanLoop
      split
      · dsimp only
        generalize toks[next].kind = k
        split
        · rfl
        · cases k <;> dsimp only <;> (try split) <;> first | rfl | exact ih _
      · rfl

/-- **One recovery scan inspects at most as many tokens as its fuel**, and no more than the
distance it advances plus one (the token it stops at). -/
theorem scanLoopC_steps_le (toks : Array PTok) (target : PKind → Bool) : ∀ (n next depth : Nat),
    (scanLoopC toks target n next depth).2 ≤ n ∧
    (scanLoopC toks target n next depth).2 + next ≤ (scanLoopC toks target n next depth).1.2 + 1
  | 0, _, _ => by simp [scanLoopC]
  | n + 1, next, depth => by
      have ih := fun d => scanLoopC_steps_le toks target n (next + 1) d
      unfold scanLoopC
      split
      · dsimp only
        generalize toks[next].kind = k
        split
        · dsimp only; omega
        · cases k <;> dsimp only <;> (try split) <;> (try dsimp only) <;>
            first | omega | (have := ih depth; have := ih (depth + 1); have := ih (depth - 1); omega)
      · dsimp only; omega

/-- **The counting twin of `expectToken`**: the tokens inspected by `expect_token_*!` — the peek at
the current token that decides whether an error is reported, and the scan. -/
def expectTokenC (toks : Array PTok) (next : Nat) (target : PKind → Bool) (reportError : Bool) :
    (List PErr × Bool × Nat) × Nat :=
  (expectToken toks next target reportError,
   (if reportError && decide (next < toks.size) then 1 else 0) +
     scanLoopSteps toks target (toks.size - next) next 0)

def expectTokenSteps (toks : Array PTok) (next : Nat) (target : PKind → Bool) (reportError : Bool) :
    Nat := (expectTokenC toks next target reportError).2

/-- **One `expect_token` costs at most the number of remaining tokens plus one.** -/
theorem expectTokenSteps_le (toks : Array PTok) (next : Nat) (target : PKind → Bool) (rep : Bool) :
    expectTokenSteps toks next target rep ≤ toks.size - next + 1 := by
  unfold expectTokenSteps expectTokenC scanLoopSteps
  have := (scanLoopC_steps_le toks target (toks.size - next) next 0).1
  dsimp only
  split <;> omega

theorem expectTokenSteps_le' (toks : Array PTok) (next : Nat) (target : PKind → Bool) (rep : Bool) :
    expectTokenSteps toks next target rep ≤ toks.size + 1 := by
  have := expectTokenSteps_le toks next target rep
  omega

/-! ### Writer-style twins of the three bodies that scan

`parseLetC`, `parseIfC`, `parseGroupC` are `parseLet`, `parseIf`, `parseGroup` with one extra
output: the number of tokens inspected by the `expectToken` calls made *by this execution of the
body* (not by the recursive calls `rec …`, which are other body executions).  They are written with
the same combinators (`consume0C`, `consumeIdentC`, `tryEvalC` = the macros, passing a count of 0
on the early exits), and forgetting the count gives back the model's body (`…_fst`). -/

/-- `consume_token_0!` for a body that also returns a count. -/
def consume0C (toks : Array PTok) (next : Nat) (kind : PKind) (k : Nat → ParseM (PResult × Nat)) :
    ParseM (PResult × Nat) :=
  if h : next < toks.size then
    if toks[next].kind = kind then k (next + 1) else pure (failAt toks next, 0)
  else pure (failAt toks next, 0)

/-- `consume_token_1!(…, Identifier, …)` for a body that also returns a count. -/
def consumeIdentC (toks : Array PTok) (next : Nat) (k : Name → Nat → ParseM (PResult × Nat)) :
    ParseM (PResult × Nat) :=
  if h : next < toks.size then
    match toks[next].kind with
    | .identifier x => k x (next + 1)
    | _ => pure (failAt toks next, 0)
  else pure (failAt toks next, 0)

/-- `try_eval!` for a body that also returns a count. -/
def tryEvalC (p : ParseM PResult) (k : Src → Nat → Bool → ParseM (PResult × Nat)) :
    ParseM (PResult × Nat) := do
  let r ← p
  if r.term.isParseError then pure (r, 0) else k r.term r.next r.confident

theorem consume0C_fst (toks : Array PTok) (next : Nat) (kind : PKind)
    (k : Nat → ParseM (PResult × Nat)) :
    Prod.fst <$> consume0C toks next kind k = consume0 toks next kind (fun n => Prod.fst <$> k n) := by
  unfold consume0C consume0
  split
  · split
    · rfl
    · rfl
  · rfl

theorem consumeIdentC_fst (toks : Array PTok) (next : Nat) (k : Name → Nat → ParseM (PResult × Nat)) :
    Prod.fst <$> consumeIdentC toks next k = consumeIdent toks next (fun x n => Prod.fst <$> k x n) := by
  unfold consumeIdentC consumeIdent
  split
  · generalize toks[next].kind = kd
    cases kd <;> rfl
  · rfl

theorem tryEvalC_fst (p : ParseM PResult) (k : Src → Nat → Bool → ParseM (PResult × Nat)) :
    Prod.fst <$> tryEvalC p k = tryEval p (fun a b c => Prod.fst <$> k a b c) := by
  unfold tryEvalC tryEval
  rw [map_bind]
  congr 1
  funext r
  split
  · rfl
  · rfl

theorem map_ite' {α β : Type} (f : α → β) (c : Prop) [Decidable c] (a b : ParseM α) :
    f <$> (if c then a else b) = if c then f <$> a else f <$> b := by
  split <;> rfl

section Twins
variable (toks : Array PTok) (rec : NT → Nat → ParseM PResult)

/-- `parse_group` with the cost of its (one) recovery scan. -/
def parseGroupC (start : Nat) : ParseM (PResult × Nat) :=
  consume0C toks start .leftParen fun next =>
  tryEvalC (rec .term next) fun term next confident =>
  let steps := expectTokenSteps toks next (· = .rightParen) confident
  let (phonyErrors, found, next) := expectToken toks next (· = .rightParen) confident
  let errors := term.errors
  let errors := if found then errors ++ phonyErrors else errors
  let errors := if !found then errors ++ [neverClosed toks start next] else errors
  pure (⟨.mk (span (tokenRange toks start) (tokenRange toks (next - 1))) true term.variant errors,
        next, found⟩, steps)

theorem parseGroupC_fst (start : Nat) :
    Prod.fst <$> parseGroupC toks rec start = parseGroup toks rec start := by
  unfold parseGroupC parseGroup
  rw [consume0C_fst]
  congr 1
  funext next
  rw [tryEvalC_fst]
  rfl

/-- `parse_if` with the cost of its two recovery scans. -/
def parseIfC (start : Nat) : ParseM (PResult × Nat) :=
  consume0C toks start .if_ fun next => do
  let ⟨condition, next, conditionConfident⟩ ← rec .term next
  let steps1 := expectTokenSteps toks next (· = .then_) conditionConfident
  let (errs1, foundThen, next) := expectToken toks next (· = .then_) conditionConfident
  let ⟨thenBranch, next, thenConfident⟩ ←
    if foundThen then rec .term next else pure ⟨skippedTerm toks next, next, false⟩
  let steps2 := expectTokenSteps toks next (· = .else_) thenConfident
  let (errs2, foundElse, next) := expectToken toks next (· = .else_) thenConfident
  let ⟨elseBranch, next, elseConfident⟩ ←
    if foundElse then rec .term next else pure ⟨skippedTerm toks next, next, false⟩
  pure (⟨.mk (span (tokenRange toks start) elseBranch.range) false
          (.ite condition thenBranch elseBranch) (errs1 ++ errs2), next, elseConfident⟩,
        steps1 + steps2)

theorem parseIfC_fst (start : Nat) :
    Prod.fst <$> parseIfC toks rec start = parseIf toks rec start := by
  unfold parseIfC parseIf
  rw [consume0C_fst]
  congr 1
  funext next
  simp only [map_bind, map_pure, map_ite', pure_bind]

/-- `parse_let` with the cost of its (at most two) recovery scans: the scan for `=` after an
annotation (`steps0`; 0 on the paths without annotation) and the scan for the terminator. -/
def parseLetC (start : Nat) : ParseM (PResult × Nat) :=
  let variableRange := tokenRange toks start
  consumeIdentC toks start fun x next =>
  let rest (annotation : OptSrc) (next : Nat) (errors : List PErr)
      (equalsFound : Bool) (steps0 : Nat) : ParseM (PResult × Nat) := do
    let ⟨definition, next, definitionConfident⟩ ←
      if equalsFound then rec .term next
      else pure ⟨skippedTerm toks next, next, false⟩
    let steps2 := expectTokenSteps toks next PKind.isTerminator definitionConfident
    let (errs2, terminatorFound, next) :=
      expectToken toks next PKind.isTerminator definitionConfident
    let errors := errors ++ errs2
    let ⟨body, next, bodyConfident⟩ ←
      if terminatorFound then rec .term next
      else pure ⟨skippedTerm toks next, next, false⟩
    pure (⟨.mk (span variableRange body.range) false
            (.let_ ⟨variableRange, x⟩ annotation definition body) errors, next, bodyConfident⟩,
          steps0 + steps2)
  if h : next < toks.size then
    if toks[next].kind = .colon then
      consume0C toks next .colon fun next =>
      tryEvalC (rec .smallTerm next) fun annotation next annotationConfident =>
      let steps1 := expectTokenSteps toks next (· = .equals) annotationConfident
      let (errs1, equalsFound, next) :=
        expectToken toks next (· = .equals) annotationConfident
      rest (.some annotation) next errs1 equalsFound steps1
    else
      consume0C toks next .equals fun next => rest .none next [] true 0
  else
    consume0C toks next .equals fun next => rest .none next [] true 0

theorem parseLetC_fst (start : Nat) :
    Prod.fst <$> parseLetC toks rec start = parseLet toks rec start := by
  unfold parseLetC parseLet
  dsimp only
  rw [consumeIdentC_fst]
  congr 1
  funext x next
  split
  · split
    · rw [consume0C_fst]
      congr 1
      funext next
      rw [tryEvalC_fst]
      congr 1
      funext a b c
      simp only [map_bind, map_pure, map_ite', pure_bind]
    · rw [consume0C_fst]
      congr 1
      funext next
      simp only [map_bind, map_pure, map_ite', pure_bind]
  · rw [consume0C_fst]
    congr 1
    funext next
    simp only [map_bind, map_pure, map_ite', pure_bind]

end Twins

/-- `CostLe m b`: whenever `m` succeeds, the count it returns is at most `b`. -/
def CostLe (m : ParseM (PResult × Nat)) (b : Nat) : Prop :=
  ∀ st r k st', m st = some ((r, k), st') → k ≤ b

theorem CostLe.pure {r : PResult} {k b : Nat} (h : k ≤ b) :
    CostLe (Pure.pure (r, k) : ParseM (PResult × Nat)) b := by
  intro st r' k' st' e
  have : (Pure.pure (r, k) : StateT PState Option (PResult × Nat)) st = some ((r, k), st) := rfl
  rw [this] at e
  simp only [Option.some.injEq, Prod.mk.injEq] at e
  omega

theorem CostLe.bind {α : Type} {m : ParseM α} {f : α → ParseM (PResult × Nat)} {b : Nat}
    (hf : ∀ a, CostLe (f a) b) : CostLe (m >>= f) b := by
  intro st r k st' e
  rw [ParseM_bind_eq] at e
  cases hm : m st with
  | none => simp [hm] at e
  | some p =>
    obtain ⟨a, s1⟩ := p
    simp only [hm] at e
    exact hf a s1 r k st' e

theorem CostLe.consume0C {toks : Array PTok} {next : Nat} {kind : PKind}
    {k : Nat → ParseM (PResult × Nat)} {b : Nat} (hk : ∀ n, CostLe (k n) b) :
    CostLe (consume0C toks next kind k) b := by
  unfold PModel.consume0C
  split
  · split
    · exact hk _
    · exact CostLe.pure (Nat.zero_le _)
  · exact CostLe.pure (Nat.zero_le _)

theorem CostLe.consumeIdentC {toks : Array PTok} {next : Nat}
    {k : Name → Nat → ParseM (PResult × Nat)} {b : Nat} (hk : ∀ x n, CostLe (k x n) b) :
    CostLe (consumeIdentC toks next k) b := by
  unfold PModel.consumeIdentC
  split
  · split
    · exact hk _ _
    · exact CostLe.pure (Nat.zero_le _)
  · exact CostLe.pure (Nat.zero_le _)

theorem CostLe.tryEvalC {p : ParseM PResult} {k : Src → Nat → Bool → ParseM (PResult × Nat)}
    {b : Nat} (hk : ∀ a n c, CostLe (k a n c) b) : CostLe (tryEvalC p k) b := by
  unfold PModel.tryEvalC
  refine CostLe.bind (fun r => ?_)
  split
  · exact CostLe.pure (Nat.zero_le _)
  · exact hk _ _ _

theorem steps_le1 (toks : Array PTok) (n : Nat) (t : PKind → Bool) (r : Bool) :
    expectTokenSteps toks n t r ≤ toks.size + 1 := expectTokenSteps_le' toks n t r

theorem steps_le0 (toks : Array PTok) (n : Nat) (t : PKind → Bool) (r : Bool) :
    0 + expectTokenSteps toks n t r ≤ 2 * (toks.size + 1) := by
  have := expectTokenSteps_le' toks n t r; omega

theorem steps_le2 (toks : Array PTok) (n n' : Nat) (t t' : PKind → Bool) (r r' : Bool) :
    expectTokenSteps toks n t r + expectTokenSteps toks n' t' r' ≤ 2 * (toks.size + 1) := by
  have := expectTokenSteps_le' toks n t r
  have := expectTokenSteps_le' toks n' t' r'
  omega

theorem CostLe.map0 {m : ParseM PResult} {b : Nat} :
    CostLe ((fun r => (r, 0)) <$> m) b := by
  rw [map_eq_pure_bind]
  exact CostLe.bind (fun r => CostLe.pure (Nat.zero_le _))

theorem CostLe.elim {m : ParseM (PResult × Nat)} {b : Nat} (h : CostLe m b) {st : PState}
    {r : PResult} {k : Nat} {st' : PState} (e : m st = some ((r, k), st')) : k ≤ b := h st r k st' e

theorem CostLe.mono {m : ParseM (PResult × Nat)} {b b' : Nat} (h : CostLe m b) (hb : b ≤ b') :
    CostLe m b' := fun st r k st' e => Nat.le_trans (h st r k st' e) hb

attribute [irreducible] CostLe

macro "cost_tac" : tactic => `(tactic|
  repeat (first
    | apply CostLe.consume0C
    | apply CostLe.consumeIdentC
    | apply CostLe.tryEvalC
    | apply CostLe.bind
    | (apply CostLe.pure; first | exact steps_le1 _ _ _ _ | exact steps_le0 _ _ _ _
                                | exact steps_le2 _ _ _ _ _ _ _)
    | intro _
    | dsimp only
    | split))

section
variable (toks : Array PTok) (rec : NT → Nat → ParseM PResult)

/-- **One execution of the body of `parse_group` makes one recovery scan**: at most `n + 1` token
inspections, whatever the recursive calls do. -/
theorem parseGroupC_cost (start : Nat) : CostLe (parseGroupC toks rec start) (toks.size + 1) := by
  unfold parseGroupC
  cost_tac

/-- **One execution of the body of `parse_if` makes at most two recovery scans.** -/
theorem parseIfC_cost (start : Nat) : CostLe (parseIfC toks rec start) (2 * (toks.size + 1)) := by
  unfold parseIfC
  cost_tac

/-- **One execution of the body of `parse_let` makes at most two recovery scans.** -/
theorem parseLetC_cost (start : Nat) : CostLe (parseLetC toks rec start) (2 * (toks.size + 1)) := by
  unfold parseLetC
  dsimp only
  cost_tac

/-- **The writer-style twin of `parseBody`**: the body of the packrat function for `nt`, together
with the number of tokens inspected by the recovery scans made by this execution of the body.  Only
three bodies mention `expectToken` (`parseLet`, `parseIf`, `parseGroup`); the 33 others are
straight-line code without any loop and get the count 0. -/
def parseBodyC (nt : NT) (start : Nat) : ParseM (PResult × Nat) :=
  match nt with
  | .let_ => parseLetC toks rec start
  | .if_ => parseIfC toks rec start
  | .group => parseGroupC toks rec start
  | nt => (fun r => (r, 0)) <$> parseBody toks rec nt start

/-- Forgetting the count gives the model's `parseBody`, for each of the 36 nonterminals. -/
theorem parseBodyC_fst (nt : NT) (start : Nat) :
    Prod.fst <$> parseBodyC toks rec nt start = parseBody toks rec nt start := by
  cases nt <;>
    first
    | exact parseLetC_fst toks rec start
    | exact parseIfC_fst toks rec start
    | exact parseGroupC_fst toks rec start
    | (simp only [parseBodyC, Functor.map_map]; exact id_map _)

/-- **One body execution costs at most `2 · (n + 1)` scan steps**, for every nonterminal, every
start position, whatever the recursive calls return and from every state. -/
theorem parseBodyC_cost (nt : NT) (start : Nat) :
    CostLe (parseBodyC toks rec nt start) (2 * (toks.size + 1)) := by
  cases nt <;>
    first
    | exact parseLetC_cost toks rec start
    | exact parseIfC_cost toks rec start
    | exact (parseGroupC_cost toks rec start).mono (by omega)
    | exact CostLe.map0

end

/-! ### The whole run

The cost model of a run of the packrat phase: one unit for every call of a memoised function (hit
or miss), plus, for every *body execution*, the tokens inspected by its recovery scans.  Bodies are
executed exactly on the misses (`C17_miss_inserts_key`: a hit runs nothing, a miss runs the body
once), and one body execution inspects at most `2 · (n + 1)` tokens (`parseBodyC_cost`).  So the
scan work of a run is at most `misses · 2 · (n + 1)`. -/

/-- The bound on the scan steps of a run with final state `st'`: `misses × 2 · (n + 1)`. -/
def scanBudget (toks : Array PTok) (st' : PState) : Nat :=
  sumN st'.misses * (2 * (toks.size + 1))

/-- The step count of a run: calls (hits + misses) plus the scan budget. -/
def runSteps (toks : Array PTok) (st' : PState) : Nat :=
  (sumN st'.hits + sumN st'.misses) + scanBudget toks st'

/-- **Quadratic bound**: the recovery scans of a whole run inspect at most `72 · (n + 1)²` tokens,
and calls and scans together cost at most `361 · (n + 1) + 72 · (n + 1)²`. -/
theorem runParser_steps_le (toks : Array PTok) (r : PResult) (st' : PState)
    (h : runParser toks = some (r, st')) :
    scanBudget toks st' ≤ 72 * ((toks.size + 1) * (toks.size + 1)) ∧
    runSteps toks st' ≤ 361 * (toks.size + 1) + 72 * ((toks.size + 1) * (toks.size + 1)) := by
  have h1 := runParser_misses_le toks r st' h
  have h2 := runParser_calls_le toks r st' h
  have h3 : scanBudget toks st' ≤ 72 * ((toks.size + 1) * (toks.size + 1)) := by
    unfold scanBudget
    calc sumN st'.misses * (2 * (toks.size + 1))
        ≤ (36 * (toks.size + 1)) * (2 * (toks.size + 1)) := Nat.mul_le_mul_right _ h1
      _ = 72 * ((toks.size + 1) * (toks.size + 1)) := by rw [Nat.mul_mul_mul_comm]
  refine ⟨h3, ?_⟩
  unfold runSteps
  omega

end PModel
