import GramModel.Lemmas.CheckComplete
import GramModel.Lemmas.RewriteTyping
import GramModel.StepRel

/-!
# Subject reduction, part 1: hole removal, function-style contexts, the hole-free judgements

`Conv`/`HasType` allow arbitrary (also hole-containing) intermediate types, but the De Bruijn algebra
(`open_ushift_high`) — hence weakening of conversion — is only valid on hole-free terms.  We therefore
work with copies `Cv`/`HT` of the two judgements in which every term is hole-free, over contexts that
are *lookup functions returning the entry already lifted into the current scope*.  `dh` (replace every
hole by `type`) maps `Conv`/`HasType` derivations to `Cv`/`HT` derivations, and `Cv`/`HT` embed back.
-/

namespace Pres

open WhnfLemmas CCSubst OracleLemmas

/-! ## removing holes -/

mutual
def dh : Tm → Tm
  | .hole _ _ => .type
  | .lam x im d b => .lam x im (dh d) (dh b)
  | .pi x im d b => .pi x im (dh d) (dh b)
  | .app f a => .app (dh f) (dh a)
  | .letg ds b => .letg (dhDefs ds) (dh b)
  | .neg a => .neg (dh a)
  | .bin op a b => .bin op (dh a) (dh b)
  | .ite c t e => .ite (dh c) (dh t) (dh e)
  | .var x i => .var x i
  | .type => .type
  | .int => .int
  | .bool => .bool
  | .tt => .tt
  | .ff => .ff
  | .lit n => .lit n
def dhDefs : Defs → Defs
  | .nil => .nil
  | .cons x a d r => .cons x (dh a) (dh d) (dhDefs r)
end

theorem dhDefs_len : ∀ (ds : Defs), (dhDefs ds).len = ds.len
  | .nil => rfl
  | .cons _ _ _ r => by simp only [dhDefs, Defs.len, dhDefs_len r]

mutual
theorem dh_holeFree : ∀ (t : Tm), (dh t).holeFree = true
  | .lam _ _ d b => by simp [dh, Tm.holeFree, dh_holeFree d, dh_holeFree b]
  | .pi _ _ d b => by simp [dh, Tm.holeFree, dh_holeFree d, dh_holeFree b]
  | .app f a => by simp [dh, Tm.holeFree, dh_holeFree f, dh_holeFree a]
  | .letg ds b => by simp [dh, Tm.holeFree, dhDefs_holeFree ds, dh_holeFree b]
  | .neg a => by simp [dh, Tm.holeFree, dh_holeFree a]
  | .bin _ a b => by simp [dh, Tm.holeFree, dh_holeFree a, dh_holeFree b]
  | .ite c t e => by simp [dh, Tm.holeFree, dh_holeFree c, dh_holeFree t, dh_holeFree e]
  | .var _ _ | .hole _ _ | .type | .int | .bool | .tt | .ff | .lit _ => by simp [dh, Tm.holeFree]
theorem dhDefs_holeFree : ∀ (ds : Defs), (dhDefs ds).holeFree = true
  | .nil => by simp [dhDefs, Defs.holeFree]
  | .cons _ a d r => by simp [dhDefs, Defs.holeFree, dh_holeFree a, dh_holeFree d, dhDefs_holeFree r]
end

mutual
theorem dh_id : ∀ (t : Tm), t.holeFree = true → dh t = t
  | .hole _ _, h => by cases h
  | .lam _ _ d b, h => by
      simp only [Tm.holeFree, Bool.and_eq_true] at h; simp [dh, dh_id d h.1, dh_id b h.2]
  | .pi _ _ d b, h => by
      simp only [Tm.holeFree, Bool.and_eq_true] at h; simp [dh, dh_id d h.1, dh_id b h.2]
  | .app f a, h => by
      simp only [Tm.holeFree, Bool.and_eq_true] at h; simp [dh, dh_id f h.1, dh_id a h.2]
  | .letg ds b, h => by
      simp only [Tm.holeFree, Bool.and_eq_true] at h; simp [dh, dhDefs_id ds h.1, dh_id b h.2]
  | .neg a, h => by simp only [Tm.holeFree] at h; simp [dh, dh_id a h]
  | .bin _ a b, h => by
      simp only [Tm.holeFree, Bool.and_eq_true] at h; simp [dh, dh_id a h.1, dh_id b h.2]
  | .ite c t e, h => by
      simp only [Tm.holeFree, Bool.and_eq_true] at h
      simp [dh, dh_id c h.1.1, dh_id t h.1.2, dh_id e h.2]
  | .var _ _, _ | .type, _ | .int, _ | .bool, _ | .tt, _ | .ff, _ | .lit _, _ => by simp [dh]
theorem dhDefs_id : ∀ (ds : Defs), ds.holeFree = true → dhDefs ds = ds
  | .nil, _ => rfl
  | .cons _ a d r, h => by
      simp only [Defs.holeFree, Bool.and_eq_true] at h
      simp [dhDefs, dh_id a h.1.1, dh_id d h.1.2, dhDefs_id r h.2]
end

mutual
theorem dh_ushift : ∀ (t : Tm) (c a : Nat), dh (ushift c a t) = ushift c a (dh t)
  | .var x i, c, a => by
      simp only [ushift]; split <;> simp [dh, ushift, *]
  | .hole id s, c, a => by
      simp only [ushift]; split <;> simp [dh, ushift]
  | .lam x im d b, c, a => by simp [dh, ushift, dh_ushift d, dh_ushift b]
  | .pi x im d b, c, a => by simp [dh, ushift, dh_ushift d, dh_ushift b]
  | .app f g, c, a => by simp [dh, ushift, dh_ushift f, dh_ushift g]
  | .letg ds b, c, a => by
      simp [dh, ushift, dhDefs_ushiftDefs ds, dh_ushift b, dhDefs_len]
  | .neg t, c, a => by simp [dh, ushift, dh_ushift t]
  | .bin op t u, c, a => by simp [dh, ushift, dh_ushift t, dh_ushift u]
  | .ite t u v, c, a => by simp [dh, ushift, dh_ushift t, dh_ushift u, dh_ushift v]
  | .type, _, _ | .int, _, _ | .bool, _, _ | .tt, _, _ | .ff, _, _ | .lit _, _, _ => by
      simp [dh, ushift]
theorem dhDefs_ushiftDefs : ∀ (ds : Defs) (c a : Nat), dhDefs (ushiftDefs c a ds) = ushiftDefs c a (dhDefs ds)
  | .nil, _, _ => by simp [dhDefs, ushiftDefs]
  | .cons x t u r, c, a => by
      simp [dhDefs, ushiftDefs, dh_ushift t, dh_ushift u, dhDefs_ushiftDefs r]
end

mutual
theorem dh_openT : ∀ (t : Tm) (i : Nat) (u : Tm) (s : Nat),
    dh (openT t i u s) = openT (dh t) i (dh u) s
  | .var x j, i, u, s => by
      simp only [openT, dh]
      split
      · exact dh_ushift u 0 s
      · split <;> simp [dh]
  | .hole id k, i, u, s => by
      simp only [openT, dh]; split <;> simp [dh]
  | .lam x im d b, i, u, s => by simp [dh, openT, dh_openT d, dh_openT b]
  | .pi x im d b, i, u, s => by simp [dh, openT, dh_openT d, dh_openT b]
  | .app f g, i, u, s => by simp [dh, openT, dh_openT f, dh_openT g]
  | .letg ds b, i, u, s => by
      simp [dh, openT, dhDefs_openDefs ds, dh_openT b, dhDefs_len]
  | .neg t, i, u, s => by simp [dh, openT, dh_openT t]
  | .bin op t v, i, u, s => by simp [dh, openT, dh_openT t, dh_openT v]
  | .ite t v w, i, u, s => by simp [dh, openT, dh_openT t, dh_openT v, dh_openT w]
  | .type, _, _, _ | .int, _, _, _ | .bool, _, _, _ | .tt, _, _, _ | .ff, _, _, _
  | .lit _, _, _, _ => by simp [dh, openT]
theorem dhDefs_openDefs : ∀ (ds : Defs) (i : Nat) (u : Tm) (s : Nat),
    dhDefs (openDefs ds i u s) = openDefs (dhDefs ds) i (dh u) s
  | .nil, _, _, _ => by simp [dhDefs, openDefs]
  | .cons x t v r, i, u, s => by
      simp [dhDefs, openDefs, dh_openT t, dh_openT v, dhDefs_openDefs r]
end

theorem dh_unfoldDef (x : Name) (a d : Tm) (idx : Nat) :
    dh (unfoldDef x a d idx) = unfoldDef x (dh a) (dh d) idx := by
  unfold unfoldDef
  simp [dh_openT, dh_ushift, dh, dhDefs]

mutual
theorem sameX_dh : ∀ (a b : Tm), sameX a b = true → sameX (dh a) (dh b) = true
  | .hole i s, t, h => by cases t <;> simp_all [sameX, dh]
  | .type, t, h => by cases t <;> simp_all [sameX, dh]
  | .int, t, h => by cases t <;> simp_all [sameX, dh]
  | .bool, t, h => by cases t <;> simp_all [sameX, dh]
  | .tt, t, h => by cases t <;> simp_all [sameX, dh]
  | .ff, t, h => by cases t <;> simp_all [sameX, dh]
  | .lit n, t, h => by cases t <;> simp_all [sameX, dh]
  | .var x i, t, h => by cases t <;> simp_all [sameX, dh]
  | .lam x im d b, t, h => by
      cases t <;> simp [sameX] at h
      simp [sameX, dh, h.1, sameX_dh b _ h.2]
  | .pi x im d b, t, h => by
      cases t <;> simp [sameX] at h
      simp [sameX, dh, h.1.1, sameX_dh d _ h.1.2, sameX_dh b _ h.2]
  | .app f a, t, h => by
      cases t <;> simp [sameX] at h
      simp [sameX, dh, sameX_dh f _ h.1, sameX_dh a _ h.2]
  | .letg ds b, t, h => by
      cases t <;> simp [sameX] at h
      simp [sameX, dh, sameDefsX_dh ds _ h.1, sameX_dh b _ h.2]
  | .neg a, t, h => by
      cases t <;> simp [sameX] at h
      simp [sameX, dh, sameX_dh a _ h]
  | .bin op a b, t, h => by
      cases t <;> simp [sameX] at h
      simp [sameX, dh, h.1.1, sameX_dh a _ h.1.2, sameX_dh b _ h.2]
  | .ite c a b, t, h => by
      cases t <;> simp [sameX] at h
      simp [sameX, dh, sameX_dh c _ h.1.1, sameX_dh a _ h.1.2, sameX_dh b _ h.2]
theorem sameDefsX_dh : ∀ (a b : Defs), sameDefsX a b = true → sameDefsX (dhDefs a) (dhDefs b) = true
  | .nil, t, h => by cases t <;> simp_all [sameDefsX, dhDefs]
  | .cons x a d r, t, h => by
      cases t <;> simp [sameDefsX] at h
      simp [sameDefsX, dhDefs, sameX_dh d _ h.1, sameDefsX_dh r _ h.2]
end

/-! ## `sameX` is stable under `openT` -/

mutual
theorem eraseX_openT : ∀ (t : Tm) (i : Nat) (u : Tm) (s : Nat),
    eraseX (openT t i u s) = openT (eraseX t) i (eraseX u) s
  | .var x j, i, u, s => by
      simp only [openT, eraseX]
      split
      · exact RewriteTyping.eraseX_ushift u 0 s
      · split <;> simp [eraseX]
  | .hole id k, i, u, s => by
      simp only [openT, eraseX]; split <;> simp [eraseX]
  | .lam x im d b, i, u, s => by simp [eraseX, openT, eraseX_openT b]
  | .pi x im d b, i, u, s => by simp [eraseX, openT, eraseX_openT d, eraseX_openT b]
  | .app f g, i, u, s => by simp [eraseX, openT, eraseX_openT f, eraseX_openT g]
  | .letg ds b, i, u, s => by
      simp [eraseX, openT, eraseDefsX_openDefs ds, eraseX_openT b, RewriteTyping.eraseDefsX_len]
  | .neg t, i, u, s => by simp [eraseX, openT, eraseX_openT t]
  | .bin op t v, i, u, s => by simp [eraseX, openT, eraseX_openT t, eraseX_openT v]
  | .ite t v w, i, u, s => by simp [eraseX, openT, eraseX_openT t, eraseX_openT v, eraseX_openT w]
  | .type, _, _, _ | .int, _, _, _ | .bool, _, _, _ | .tt, _, _, _ | .ff, _, _, _
  | .lit _, _, _, _ => by simp [eraseX, openT]
theorem eraseDefsX_openDefs : ∀ (ds : Defs) (i : Nat) (u : Tm) (s : Nat),
    eraseDefsX (openDefs ds i u s) = openDefs (eraseDefsX ds) i (eraseX u) s
  | .nil, _, _, _ => by simp [eraseDefsX, openDefs]
  | .cons x t v r, i, u, s => by
      simp [eraseDefsX, openDefs, openT, eraseX_openT v, eraseDefsX_openDefs r]
end

theorem sameX_openT {a b u v : Tm} (i s : Nat) (h : sameX a b = true) (h' : sameX u v = true) :
    sameX (openT a i u s) (openT b i v s) = true := by
  rw [sameX_iff] at h h' ⊢
  rw [eraseX_openT, eraseX_openT, h, h']

theorem sameDefsX_openDefs {a b : Defs} {u v : Tm} (i s : Nat) (h : sameDefsX a b = true)
    (h' : sameX u v = true) : sameDefsX (openDefs a i u s) (openDefs b i v s) = true := by
  rw [sameDefsX_iff] at h ⊢
  rw [sameX_iff] at h'
  rw [eraseDefsX_openDefs, eraseDefsX_openDefs, h, h']

theorem sameDefsX_ushiftDefs {a b : Defs} (c n : Nat) (h : sameDefsX a b = true) :
    sameDefsX (ushiftDefs c n a) (ushiftDefs c n b) = true := by
  rw [sameDefsX_iff] at h ⊢
  rw [RewriteTyping.eraseDefsX_ushift, RewriteTyping.eraseDefsX_ushift, h]

/-! ## components of a group -/

/-- annotations and definitions of a group, in order -/
def comps : Defs → List Tm
  | .nil => []
  | .cons _ a d r => a :: d :: comps r

theorem comps_length : ∀ (ds : Defs), (comps ds).length = 2 * ds.len
  | .nil => rfl
  | .cons _ _ _ r => by simp only [comps, List.length_cons, comps_length r, Defs.len_cons]; omega

theorem comps_ushiftDefs : ∀ (ds : Defs) (c a : Nat), comps (ushiftDefs c a ds) = (comps ds).map (ushift c a)
  | .nil, _, _ => rfl
  | .cons _ _ _ r, c, a => by simp only [ushiftDefs, comps, List.map_cons, comps_ushiftDefs r]

theorem comps_openDefs : ∀ (ds : Defs) (i : Nat) (u : Tm) (s : Nat),
    comps (openDefs ds i u s) = (comps ds).map (fun t => openT t i u s)
  | .nil, _, _, _ => rfl
  | .cons _ _ _ r, i, u, s => by simp only [openDefs, comps, List.map_cons, comps_openDefs r]

theorem comps_dhDefs : ∀ (ds : Defs), comps (dhDefs ds) = (comps ds).map dh
  | .nil => rfl
  | .cons _ _ _ r => by simp only [dhDefs, comps, List.map_cons, comps_dhDefs r]

theorem comps_holeFree : ∀ (ds : Defs), ds.holeFree = true → ∀ t ∈ comps ds, t.holeFree = true
  | .nil, _, t, h => by simp [comps] at h
  | .cons _ a d r, hf, t, h => by
      simp only [Defs.holeFree, Bool.and_eq_true] at hf
      simp only [comps, List.mem_cons] at h
      rcases h with rfl | rfl | h
      · exact hf.1.1
      · exact hf.1.2
      · exact comps_holeFree r hf.2 t h

theorem holeFree_of_comps : ∀ (ds : Defs), (∀ t ∈ comps ds, t.holeFree = true) → ds.holeFree = true
  | .nil, _ => rfl
  | .cons _ a d r, h => by
      simp only [Defs.holeFree, Bool.and_eq_true]
      refine ⟨⟨h a (by simp [comps]), h d (by simp [comps])⟩, holeFree_of_comps r ?_⟩
      intro t ht
      exact h t (by simp [comps, ht])

/-- the annotation of the group variable with index `v` -/
def annAt : Defs → Nat → Option Tm
  | .nil, _ => none
  | .cons _ a _ r, v => if v = r.len then some a else annAt r v

/-- the definition of the group variable with index `v` -/
def defAt : Defs → Nat → Option Tm
  | .nil, _ => none
  | .cons _ _ d r, v => if v = r.len then some d else defAt r v

theorem annAt_lt : ∀ (ds : Defs) (v : Nat) (a : Tm), annAt ds v = some a → v < ds.len
  | .nil, _, _, h => by simp [annAt] at h
  | .cons _ _ _ r, v, a, h => by
      simp only [annAt] at h
      simp only [Defs.len_cons]
      split at h
      · omega
      · have := annAt_lt r v a h; omega

theorem defAt_lt : ∀ (ds : Defs) (v : Nat) (a : Tm), defAt ds v = some a → v < ds.len
  | .nil, _, _, h => by simp [defAt] at h
  | .cons _ _ _ r, v, a, h => by
      simp only [defAt] at h
      simp only [Defs.len_cons]
      split at h
      · omega
      · have := defAt_lt r v a h; omega

theorem annAt_none : ∀ (ds : Defs) (v : Nat), ds.len ≤ v → annAt ds v = none
  | .nil, _, _ => rfl
  | .cons _ _ _ r, v, h => by
      simp only [Defs.len_cons] at h
      simp only [annAt]
      rw [if_neg (by omega)]
      exact annAt_none r v (by omega)

theorem defAt_none : ∀ (ds : Defs) (v : Nat), ds.len ≤ v → defAt ds v = none
  | .nil, _, _ => rfl
  | .cons _ _ _ r, v, h => by
      simp only [Defs.len_cons] at h
      simp only [defAt]
      rw [if_neg (by omega)]
      exact defAt_none r v (by omega)

theorem annAt_mem : ∀ (ds : Defs) (v : Nat) (a : Tm), annAt ds v = some a →
    ∃ x d, (x, a, d) ∈ ds.toList ∧ defAt ds v = some d
  | .nil, _, _, h => by simp [annAt] at h
  | .cons x a' d r, v, a, h => by
      simp only [annAt] at h
      simp only [Defs.toList, defAt]
      split at h
      · next hv => cases h; exact ⟨x, d, List.mem_cons_self, by rw [if_pos hv]⟩
      · next hv =>
        obtain ⟨y, e, hm, hd⟩ := annAt_mem r v a h
        exact ⟨y, e, List.mem_cons_of_mem _ hm, by rw [if_neg hv]; exact hd⟩

theorem annAt_map (f : Tm → Tm) (g : Defs → Defs) (hl : ∀ ds, (g ds).len = ds.len)
    (hn : g .nil = .nil) (hc : ∀ x a d r, g (.cons x a d r) = .cons x (f a) (f d) (g r)) :
    ∀ (ds : Defs) (v : Nat), annAt (g ds) v = (annAt ds v).map f
  | .nil, v => by rw [hn]; rfl
  | .cons x a d r, v => by
      rw [hc]
      simp only [annAt, hl]
      split
      · rfl
      · exact annAt_map f g hl hn hc r v

theorem defAt_map (f : Tm → Tm) (g : Defs → Defs) (hl : ∀ ds, (g ds).len = ds.len)
    (hn : g .nil = .nil) (hc : ∀ x a d r, g (.cons x a d r) = .cons x (f a) (f d) (g r)) :
    ∀ (ds : Defs) (v : Nat), defAt (g ds) v = (defAt ds v).map f
  | .nil, v => by rw [hn]; rfl
  | .cons x a d r, v => by
      rw [hc]
      simp only [defAt, hl]
      split
      · rfl
      · exact defAt_map f g hl hn hc r v

theorem annAt_ushiftDefs (ds : Defs) (c a v : Nat) :
    annAt (ushiftDefs c a ds) v = (annAt ds v).map (ushift c a) :=
  annAt_map (ushift c a) (ushiftDefs c a) (fun ds => ushiftDefs_len ds c a) rfl (fun _ _ _ _ => rfl) ds v
theorem defAt_ushiftDefs (ds : Defs) (c a v : Nat) :
    defAt (ushiftDefs c a ds) v = (defAt ds v).map (ushift c a) :=
  defAt_map (ushift c a) (ushiftDefs c a) (fun ds => ushiftDefs_len ds c a) rfl (fun _ _ _ _ => rfl) ds v
theorem annAt_openDefs (ds : Defs) (i : Nat) (u : Tm) (s v : Nat) :
    annAt (openDefs ds i u s) v = (annAt ds v).map (fun t => openT t i u s) :=
  annAt_map (fun t => openT t i u s) (fun ds => openDefs ds i u s) (fun ds => openDefs_len ds i u s) rfl
    (fun _ _ _ _ => rfl) ds v
theorem defAt_openDefs (ds : Defs) (i : Nat) (u : Tm) (s v : Nat) :
    defAt (openDefs ds i u s) v = (defAt ds v).map (fun t => openT t i u s) :=
  defAt_map (fun t => openT t i u s) (fun ds => openDefs ds i u s) (fun ds => openDefs_len ds i u s) rfl
    (fun _ _ _ _ => rfl) ds v
theorem annAt_dhDefs (ds : Defs) (v : Nat) : annAt (dhDefs ds) v = (annAt ds v).map dh :=
  annAt_map dh dhDefs dhDefs_len rfl (fun _ _ _ _ => rfl) ds v
theorem defAt_dhDefs (ds : Defs) (v : Nat) : defAt (dhDefs ds) v = (defAt ds v).map dh :=
  defAt_map dh dhDefs dhDefs_len rfl (fun _ _ _ _ => rfl) ds v

theorem annAt_holeFree : ∀ (ds : Defs) (v : Nat) (a : Tm), ds.holeFree = true → annAt ds v = some a →
    a.holeFree = true
  | .nil, _, _, _, h => by simp [annAt] at h
  | .cons _ a' _ r, v, a, hf, h => by
      simp only [Defs.holeFree, Bool.and_eq_true] at hf
      simp only [annAt] at h
      split at h
      · cases h; exact hf.1.1
      · exact annAt_holeFree r v a hf.2 h

theorem defAt_holeFree : ∀ (ds : Defs) (v : Nat) (a : Tm), ds.holeFree = true → defAt ds v = some a →
    a.holeFree = true
  | .nil, _, _, _, h => by simp [defAt] at h
  | .cons _ _ d' r, v, a, hf, h => by
      simp only [Defs.holeFree, Bool.and_eq_true] at hf
      simp only [defAt] at h
      split at h
      · cases h; exact hf.1.2
      · exact defAt_holeFree r v a hf.2 h

theorem toList_holeFree : ∀ (ds : Defs), ds.holeFree = true → ∀ x a d, (x, a, d) ∈ ds.toList →
    a.holeFree = true ∧ d.holeFree = true
  | .nil, _, _, _, _, h => by simp [Defs.toList] at h
  | .cons _ a' d' r, hf, x, a, d, h => by
      simp only [Defs.holeFree, Bool.and_eq_true] at hf
      simp only [Defs.toList, List.mem_cons, Prod.mk.injEq] at h
      rcases h with ⟨_, rfl, rfl⟩ | h
      · exact hf.1
      · exact toList_holeFree r hf.2 x a d h

theorem toList_ushiftDefs : ∀ (ds : Defs) (c k : Nat),
    (ushiftDefs c k ds).toList = ds.toList.map (fun p => (p.1, ushift c k p.2.1, ushift c k p.2.2))
  | .nil, _, _ => rfl
  | .cons _ _ _ r, c, k => by simp only [ushiftDefs, Defs.toList, List.map_cons, toList_ushiftDefs r]

theorem toList_openDefs : ∀ (ds : Defs) (i : Nat) (u : Tm) (s : Nat),
    (openDefs ds i u s).toList = ds.toList.map (fun p => (p.1, openT p.2.1 i u s, openT p.2.2 i u s))
  | .nil, _, _, _ => rfl
  | .cons _ _ _ r, i, u, s => by simp only [openDefs, Defs.toList, List.map_cons, toList_openDefs r]

theorem toList_dhDefs : ∀ (ds : Defs),
    (dhDefs ds).toList = ds.toList.map (fun p => (p.1, dh p.2.1, dh p.2.2))
  | .nil => rfl
  | .cons _ _ _ r => by simp only [dhDefs, Defs.toList, List.map_cons, toList_dhDefs r]

/-! ## function-style contexts -/

/-- a context: the entry of variable `i`, already lifted into the current scope -/
abbrev Ctx := Nat → Option Tm

/-- `n` new innermost variables with entries `F` (given in the extended scope) -/
def ext (n : Nat) (F : Nat → Option Tm) (G : Ctx) : Ctx :=
  fun i => if i < n then F i else (G (i - n)).map (ushift 0 n)

def noneF : Nat → Option Tm := fun _ => none

theorem ext_lt {n : Nat} {F : Nat → Option Tm} {G : Ctx} {i : Nat} (h : i < n) : ext n F G i = F i := by
  simp only [ext, if_pos h]

theorem ext_ge {n : Nat} {F : Nat → Option Tm} {G : Ctx} {i : Nat} (h : n ≤ i) :
    ext n F G i = (G (i - n)).map (ushift 0 n) := by
  simp only [ext, if_neg (Nat.not_lt.2 h)]

/-- every entry is hole-free -/
def CHF (G : Ctx) : Prop := ∀ i t, G i = some t → t.holeFree = true

theorem CHF_ext {n : Nat} {F : Nat → Option Tm} {G : Ctx} (hF : ∀ i t, i < n → F i = some t → t.holeFree = true)
    (hG : CHF G) : CHF (ext n F G) := by
  intro i t h
  by_cases hi : i < n
  · rw [ext_lt hi] at h; exact hF i t hi h
  · rw [ext_ge (Nat.not_lt.1 hi)] at h
    cases e : G (i - n) with
    | none => rw [e] at h; cases h
    | some t0 =>
      rw [e] at h
      simp only [Option.map_some, Option.some.injEq] at h
      subst h
      rw [ushift_holeFree]
      exact hG _ _ e

theorem CHF_noneF {n : Nat} {G : Ctx} (hG : CHF G) : CHF (ext n noneF G) :=
  CHF_ext (fun _ _ _ h => by cases h) hG

/-! ## conversion on hole-free terms -/

/-- Convertibility of hole-free terms under a function-style definitions context (a copy of `Conv`
in which every term is hole-free). -/
inductive Cv : Ctx → Tm → Tm → Prop
  | refl {D : Ctx} {a : Tm} : a.holeFree = true → Cv D a a
  | symm {D : Ctx} {a b : Tm} : Cv D a b → Cv D b a
  | trans {D : Ctx} {a b c : Tm} : Cv D a b → Cv D b c → Cv D a c
  | beta {D : Ctx} (x : Name) (im : Bool) (d body a : Tm) : d.holeFree = true → body.holeFree = true →
      a.holeFree = true → Cv D (.app (.lam x im d body) a) (openT body 0 a 0)
  | delta {D : Ctx} (x : Name) (i : Nat) (d : Tm) : D i = some d → d.holeFree = true → Cv D (.var x i) d
  | letStep {D : Ctx} (x : Name) (a d : Tm) (rest : Defs) (body : Tm) : a.holeFree = true →
      d.holeFree = true → rest.holeFree = true → body.holeFree = true →
      Cv D (.letg (.cons x a d rest) body)
        (.letg (openDefs rest rest.len (unfoldDef x a d rest.len) 0)
          (openT body rest.len (unfoldDef x a d rest.len) 0))
  | letNil {D : Ctx} (body : Tm) : body.holeFree = true → Cv D (.letg .nil body) body
  | negLit {D : Ctx} (n : Int) : Cv D (.neg (.lit n)) (.lit (-n))
  | arith {D : Ctx} (op : BinOp) (x y : Int) (r : Tm) : delta op x y = some r →
      Cv D (.bin op (.lit x) (.lit y)) r
  | iteT {D : Ctx} (a b : Tm) : a.holeFree = true → b.holeFree = true → Cv D (.ite .tt a b) a
  | iteF {D : Ctx} (a b : Tm) : a.holeFree = true → b.holeFree = true → Cv D (.ite .ff a b) b
  | same {D : Ctx} {a b : Tm} : sameX a b = true → a.holeFree = true → b.holeFree = true → Cv D a b
  | lam {D : Ctx} (x y : Name) (im : Bool) (d1 d2 : Tm) {b1 b2 : Tm} : d1.holeFree = true →
      d2.holeFree = true → Cv (ext 1 noneF D) b1 b2 → Cv D (.lam x im d1 b1) (.lam y im d2 b2)
  | pi {D : Ctx} (x y : Name) (im : Bool) {d1 d2 c1 c2 : Tm} :
      Cv D d1 d2 → Cv (ext 1 noneF D) c1 c2 → Cv D (.pi x im d1 c1) (.pi y im d2 c2)
  | app {D : Ctx} {f1 f2 a1 a2 : Tm} : Cv D f1 f2 → Cv D a1 a2 → Cv D (.app f1 a1) (.app f2 a2)
  | neg {D : Ctx} {a1 a2 : Tm} : Cv D a1 a2 → Cv D (.neg a1) (.neg a2)
  | bin {D : Ctx} (op : BinOp) {a1 a2 b1 b2 : Tm} :
      Cv D a1 a2 → Cv D b1 b2 → Cv D (.bin op a1 b1) (.bin op a2 b2)
  | ite {D : Ctx} {c1 c2 a1 a2 b1 b2 : Tm} :
      Cv D c1 c2 → Cv D a1 a2 → Cv D b1 b2 → Cv D (.ite c1 a1 b1) (.ite c2 a2 b2)
  | letg {D : Ctx} {ds1 ds2 : Defs} {b1 b2 : Tm} : ds1.len = ds2.len → ds1.holeFree = true →
      ds2.holeFree = true →
      (∀ (i : Nat) (t1 t2 : Tm), (comps ds1)[i]? = some t1 → (comps ds2)[i]? = some t2 →
        Cv (ext ds1.len noneF D) t1 t2) →
      Cv (ext ds1.len noneF D) b1 b2 → Cv D (.letg ds1 b1) (.letg ds2 b2)

theorem Cv.hf {D : Ctx} {a b : Tm} (h : Cv D a b) : a.holeFree = true ∧ b.holeFree = true := by
  induction h with
  | refl h => exact ⟨h, h⟩
  | symm _ ih => exact ⟨ih.2, ih.1⟩
  | trans _ _ ih1 ih2 => exact ⟨ih1.1, ih2.2⟩
  | beta x im d body a hd hb ha =>
    exact ⟨by simp [Tm.holeFree, hd, hb, ha], openT_holeFree _ _ _ _ hb ha⟩
  | delta x i d _ hd => exact ⟨rfl, hd⟩
  | letStep x a d rest body ha hd hr hb =>
    have hu := unfoldDef_holeFree x a d rest.len ha hd
    exact ⟨by simp [Tm.holeFree, Defs.holeFree, ha, hd, hr, hb],
      by simp [Tm.holeFree, openDefs_holeFree _ _ _ _ hr hu, openT_holeFree _ _ _ _ hb hu]⟩
  | letNil body hb => exact ⟨by simp [Tm.holeFree, Defs.holeFree, hb], hb⟩
  | negLit n => exact ⟨rfl, rfl⟩
  | arith op x y r hr => exact ⟨rfl, delta_holeFree hr⟩
  | iteT a b ha hb => exact ⟨by simp [Tm.holeFree, ha, hb], ha⟩
  | iteF a b ha hb => exact ⟨by simp [Tm.holeFree, ha, hb], hb⟩
  | same _ ha hb => exact ⟨ha, hb⟩
  | lam x y im d1 d2 h1 h2 _ ih => exact ⟨by simp [Tm.holeFree, h1, ih.1], by simp [Tm.holeFree, h2, ih.2]⟩
  | pi x y im _ _ ih1 ih2 =>
    exact ⟨by simp [Tm.holeFree, ih1.1, ih2.1], by simp [Tm.holeFree, ih1.2, ih2.2]⟩
  | app _ _ ih1 ih2 => exact ⟨by simp [Tm.holeFree, ih1.1, ih2.1], by simp [Tm.holeFree, ih1.2, ih2.2]⟩
  | neg _ ih => exact ⟨by simp [Tm.holeFree, ih.1], by simp [Tm.holeFree, ih.2]⟩
  | bin op _ _ ih1 ih2 => exact ⟨by simp [Tm.holeFree, ih1.1, ih2.1], by simp [Tm.holeFree, ih1.2, ih2.2]⟩
  | ite _ _ _ ih0 ih1 ih2 =>
    exact ⟨by simp [Tm.holeFree, ih0.1, ih1.1, ih2.1], by simp [Tm.holeFree, ih0.2, ih1.2, ih2.2]⟩
  | letg _ h1 h2 _ _ _ ih => exact ⟨by simp [Tm.holeFree, h1, ih.1], by simp [Tm.holeFree, h2, ih.2]⟩

/-! ## typing with hole-free types -/

/-- entries of the typing context of a group -/
def annF (ds : Defs) : Nat → Option Tm := fun i => annAt ds i
/-- entries of the definitions context of a group -/
def defF (ds : Defs) : Nat → Option Tm := fun i => defAt ds i

/-- The typing judgement on hole-free terms under function-style contexts (a copy of `HasType` in
which every term and type is hole-free). -/
inductive HT : Ctx → Ctx → Tm → Tm → Prop
  | type (G D : Ctx) : HT G D .type .type
  | int (G D : Ctx) : HT G D .int .type
  | bool (G D : Ctx) : HT G D .bool .type
  | lit (G D : Ctx) (n : Int) : HT G D (.lit n) .int
  | tt (G D : Ctx) : HT G D .tt .bool
  | ff (G D : Ctx) : HT G D .ff .bool
  | var {G : Ctx} (D : Ctx) (x : Name) (i : Nat) (ty : Tm) : G i = some ty → ty.holeFree = true →
      HT G D (.var x i) ty
  | lam {G D : Ctx} (x : Name) (im : Bool) {d b cod : Tm} :
      HT G D d .type → HT (ext 1 (fun _ => some (ushift 0 1 d)) G) (ext 1 noneF D) b cod →
      HT G D (.lam x im d b) (.pi x im d cod)
  | pi {G D : Ctx} (x : Name) (im : Bool) {d c : Tm} :
      HT G D d .type → HT (ext 1 (fun _ => some (ushift 0 1 d)) G) (ext 1 noneF D) c .type →
      HT G D (.pi x im d c) .type
  | app {G D : Ctx} (x : Name) (im : Bool) {g a dom cod : Tm} :
      HT G D g (.pi x im dom cod) → HT G D a dom → HT G D (.app g a) (openT cod 0 a 0)
  | letg {G D : Ctx} {ds : Defs} {body bty : Tm} : ds.holeFree = true →
      (∀ x a d, (x, a, d) ∈ ds.toList → HT (ext ds.len (annF ds) G) (ext ds.len (defF ds) D) a .type) →
      (∀ x a d, (x, a, d) ∈ ds.toList → HT (ext ds.len (annF ds) G) (ext ds.len (defF ds) D) d a) →
      HT (ext ds.len (annF ds) G) (ext ds.len (defF ds) D) body bty →
      HT G D (.letg ds body) (.letg ds bty)
  | neg {G D : Ctx} {a : Tm} : HT G D a .int → HT G D (.neg a) .int
  | bin {G D : Ctx} (op : BinOp) {a b : Tm} :
      HT G D a .int → HT G D b .int → HT G D (.bin op a b) (binResult op)
  | ite {G D : Ctx} {c a b T : Tm} : HT G D c .bool → HT G D a T → HT G D b T → HT G D (.ite c a b) T
  | conv {G D : Ctx} {t T T' : Tm} : HT G D t T → Cv D T T' → HT G D t T'

theorem binResult_hf (op : BinOp) : (binResult op).holeFree = true := by cases op <;> rfl

theorem HT.hf {G D : Ctx} {t T : Tm} (h : HT G D t T) : t.holeFree = true ∧ T.holeFree = true := by
  induction h with
  | type | int | bool | lit | tt | ff => exact ⟨rfl, rfl⟩
  | var D x i ty _ hty => exact ⟨rfl, hty⟩
  | lam x im _ _ ih1 ih2 => exact ⟨by simp [Tm.holeFree, ih1.1, ih2.1], by simp [Tm.holeFree, ih1.1, ih2.2]⟩
  | pi x im _ _ ih1 ih2 => exact ⟨by simp [Tm.holeFree, ih1.1, ih2.1], rfl⟩
  | app x im _ _ ih1 ih2 =>
    have := ih1.2
    simp only [Tm.holeFree, Bool.and_eq_true] at this
    exact ⟨by simp [Tm.holeFree, ih1.1, ih2.1], openT_holeFree _ _ _ _ this.2 ih2.1⟩
  | letg hds _ _ _ _ _ ih => exact ⟨by simp [Tm.holeFree, hds, ih.1], by simp [Tm.holeFree, hds, ih.2]⟩
  | neg _ ih => exact ⟨by simp [Tm.holeFree, ih.1], rfl⟩
  | bin op _ _ ih1 ih2 => exact ⟨by simp [Tm.holeFree, ih1.1, ih2.1], binResult_hf op⟩
  | ite _ _ _ ih0 ih1 ih2 => exact ⟨by simp [Tm.holeFree, ih0.1, ih1.1, ih2.1], ih1.2⟩
  | conv _ hc ih => exact ⟨ih.1, hc.hf.2⟩

end Pres
