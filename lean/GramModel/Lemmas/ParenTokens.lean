import GramModel.Lemmas.ParseComplete5
import GramModel.Lemmas.RewriteMore

/-!
# Redundant parentheses at TOKEN level (C19)

* `SegT` (segment with parse tree) is invariant under embedding the token array into a longer one
  (`SegT.shift`): the same tree, because every range of a parse tree is read off the tokens of its
  own segment.
* `wrapParens toks lp rp` = `( toks )`; a sentence in parentheses is a sentence, its parse tree is
  the sentence's tree with `group = true` and the range of the parentheses (`segT_wrap`).
* `check_definitions` only appends to the error vector (`checkDefinitions_app`) and never looks at
  the range of the root.
* `parseModel (wrapParens toks lp rp) ctx` and `parseModel toks ctx` agree up to the range of the
  root of the resolved term and the ranges inside the error list (`paren_program_tokens`).
-/

namespace ParenTokens
open PModel Unamb

/-! ## Embedding a token array into a longer one -/

section Shift
variable {toks : Array PTok} (pre post : Array PTok)

theorem size_emb : (pre ++ toks ++ post).size = pre.size + toks.size + post.size := by
  simp only [Array.size_append]

theorem getElem_emb {a : Nat} (h : a < toks.size) (h' : a + pre.size < (pre ++ toks ++ post).size) :
    (pre ++ toks ++ post)[a + pre.size] = toks[a] := by
  rw [Array.getElem_append_left (by simp [Array.size_append]; omega),
    Array.getElem_append_right (by omega)]
  simp

theorem KAt_shift {a : Nat} {k : PKind} (h : KAt toks a k) {a' : Nat} (e : a' = a + pre.size) :
    KAt (pre ++ toks ++ post) a' k := by
  subst e
  obtain ⟨hlt, hk⟩ := h
  have h' : a + pre.size < (pre ++ toks ++ post).size := by rw [size_emb]; omega
  exact ⟨h', by rw [getElem_emb pre post hlt h']; exact hk⟩

theorem tokenRange_shift {a : Nat} (h : a < toks.size) {a' : Nat} (e : a' = a + pre.size) :
    tokenRange (pre ++ toks ++ post) a' = tokenRange toks a := by
  subst e
  have h' : a + pre.size < (pre ++ toks ++ post).size := by rw [size_emb]; omega
  rw [tokenRange_lt h', tokenRange_lt h, getElem_emb pre post h h']

theorem emptyRange_shift {a : Nat} (h : a < toks.size) {a' : Nat} (e : a' = a + pre.size) :
    emptyRange (pre ++ toks ++ post) a' = emptyRange toks a := by
  simp only [emptyRange, tokenRange_shift pre post h e]

theorem rng_shift {a b : Nat} (h1 : a < b) (h2 : b ≤ toks.size) {a' b' : Nat}
    (ea : a' = a + pre.size) (eb : b' = b + pre.size) :
    rng (pre ++ toks ++ post) a' b' = rng toks a b := by
  simp only [rng]
  rw [tokenRange_shift pre post (show a < toks.size by omega) ea,
    tokenRange_shift pre post (show b - 1 < toks.size by omega) (show b' - 1 = b - 1 + pre.size by omega)]

theorem segT_cast {A : NT} {a b a' b' : Nat} {t t' : Src} (h : SegT toks A a b t)
    (ea : a = a') (eb : b = b') (et : t = t') : SegT toks A a' b' t' := by
  subst ea; subst eb; subst et; exact h

/-- **`SegT` is invariant under embedding the token array**: a segment with parse tree `t` of `toks`
is a segment with THE SAME parse tree of `pre ++ toks ++ post`, `pre.size` tokens further. -/
theorem segT_shift {A : NT} {a b : Nat} {t : Src} (h : SegT toks A a b t) :
    SegT (pre ++ toks ++ post) A (a + pre.size) (b + pre.size) t := by
  induction h with
  | unit hm _ ih => exact .unit hm ih
  | @leaf A k a hm hk =>
    have H := SegT.leaf (toks := toks) hm hk
    refine segT_cast (SegT.leaf (toks := pre ++ toks ++ post) (a := a + pre.size) hm
      (KAt_shift pre post hk rfl)) rfl (by omega) ?_
    rw [rng_shift pre post (SegT.lt H) (SegT.le_size H) rfl (by omega)]
  | @var x a hk =>
    have H := SegT.var (toks := toks) hk
    refine segT_cast (SegT.var (toks := pre ++ toks ++ post) (a := a + pre.size)
      (KAt_shift pre post hk rfl)) rfl (by omega) ?_
    rw [rng_shift pre post (SegT.lt H) (SegT.le_size H) rfl (by omega)]
  | @lit n a hk =>
    have H := SegT.lit (toks := toks) hk
    refine segT_cast (SegT.lit (toks := pre ++ toks ++ post) (a := a + pre.size)
      (KAt_shift pre post hk rfl)) rfl (by omega) ?_
    rw [rng_shift pre post (SegT.lt H) (SegT.le_size H) rfl (by omega)]
  | @lambda x a b body h1 h2 hb ih =>
    have H := SegT.lambda h1 h2 hb
    have l := (SegT.lt H); have u := (SegT.le_size H)
    refine segT_cast (SegT.lambda (toks := pre ++ toks ++ post) (a := a + pre.size) (b := b + pre.size)
      (KAt_shift pre post h1 rfl) (KAt_shift pre post h2 (by omega))
      (segT_cast ih (by omega) rfl rfl)) rfl rfl ?_
    rw [rng_shift pre post l u rfl rfl, tokenRange_shift pre post (show a < toks.size by omega) rfl]
  | @lambdaImplicit x a b body h1 h2 h3 h4 hb ih =>
    have H := SegT.lambdaImplicit h1 h2 h3 h4 hb
    have l := (SegT.lt H); have u := (SegT.le_size H); have lb := (SegT.lt hb)
    refine segT_cast (SegT.lambdaImplicit (toks := pre ++ toks ++ post) (a := a + pre.size) (b := b + pre.size)
      (KAt_shift pre post h1 rfl) (KAt_shift pre post h2 (by omega))
      (KAt_shift pre post h3 (by omega)) (KAt_shift pre post h4 (by omega))
      (segT_cast ih (by omega) rfl rfl)) rfl rfl ?_
    rw [rng_shift pre post l u rfl rfl,
      tokenRange_shift pre post (show a + 1 < toks.size by omega) (by omega)]
  | @binder A o c ar x a b d dom body hm h1 h2 h3 hd h4 h5 hb ihd ihb =>
    have H := SegT.binder hm h1 h2 h3 hd h4 h5 hb
    have l := (SegT.lt H); have u := (SegT.le_size H); have ld := (SegT.lt hd); have lb := (SegT.lt hb)
    refine segT_cast (SegT.binder (toks := pre ++ toks ++ post) (a := a + pre.size) (b := b + pre.size)
      (d := d + pre.size) hm
      (KAt_shift pre post h1 rfl) (KAt_shift pre post h2 (by omega))
      (KAt_shift pre post h3 (by omega)) (segT_cast ihd (by omega) rfl rfl)
      (KAt_shift pre post h4 rfl) (KAt_shift pre post h5 (by omega))
      (segT_cast ihb (by omega) rfl rfl)) rfl rfl ?_
    rw [rng_shift pre post l u rfl rfl,
      tokenRange_shift pre post (show a + 1 < toks.size by omega) (by omega)]
  | @nonDependentPi a b c dom cod hd hk hc ihd ihc =>
    have H := SegT.nonDependentPi hd hk hc
    have l := (SegT.lt H); have u := (SegT.le_size H)
    refine segT_cast (SegT.nonDependentPi (toks := pre ++ toks ++ post) (a := a + pre.size)
      (b := b + pre.size) (c := c + pre.size) ihd (KAt_shift pre post hk rfl)
      (segT_cast ihc (by omega) rfl rfl)) rfl rfl ?_
    rw [rng_shift pre post l u rfl rfl, emptyRange_shift pre post (show a < toks.size by omega) rfl]
  | @application a b c f x hf hx ihf ihx =>
    have H := SegT.application hf hx
    refine segT_cast (SegT.application ihf ihx) rfl rfl ?_
    rw [rng_shift pre post (SegT.lt H) (SegT.le_size H) rfl rfl]
  | @letPlain x t a b c defn body h1 h2 hd h3 hb ihd ihb =>
    have H := SegT.letPlain h1 h2 hd h3 hb
    have l := (SegT.lt H); have u := (SegT.le_size H)
    refine segT_cast (SegT.letPlain (toks := pre ++ toks ++ post) (a := a + pre.size) (b := b + pre.size)
      (c := c + pre.size) (KAt_shift pre post h1 rfl) (KAt_shift pre post h2 (by omega))
      (segT_cast ihd (by omega) rfl rfl) (KAt_shift pre post h3 rfl)
      (segT_cast ihb (by omega) rfl rfl)) rfl rfl ?_
    rw [rng_shift pre post l u rfl rfl, tokenRange_shift pre post (show a < toks.size by omega) rfl]
  | @letAnn x t a b c d ann defn body h1 h2 ha h3 hd h4 hb iha ihd ihb =>
    have H := SegT.letAnn h1 h2 ha h3 hd h4 hb
    have l := (SegT.lt H); have u := (SegT.le_size H)
    refine segT_cast (SegT.letAnn (toks := pre ++ toks ++ post) (a := a + pre.size) (b := b + pre.size)
      (c := c + pre.size) (d := d + pre.size)
      (KAt_shift pre post h1 rfl) (KAt_shift pre post h2 (by omega))
      (segT_cast iha (by omega) rfl rfl) (KAt_shift pre post h3 rfl)
      (segT_cast ihd (by omega) rfl rfl) (KAt_shift pre post h4 rfl)
      (segT_cast ihb (by omega) rfl rfl)) rfl rfl ?_
    rw [rng_shift pre post l u rfl rfl, tokenRange_shift pre post (show a < toks.size by omega) rfl]
  | @negation a b x h1 hx ih =>
    have H := SegT.negation h1 hx
    refine segT_cast (SegT.negation (toks := pre ++ toks ++ post) (a := a + pre.size) (b := b + pre.size)
      (KAt_shift pre post h1 rfl) (segT_cast ih (by omega) rfl rfl)) rfl rfl ?_
    rw [rng_shift pre post (SegT.lt H) (SegT.le_size H) rfl rfl]
  | @bin A L op R a b c x y hm hx hk hy ihx ihy =>
    have H := SegT.bin hm hx hk hy
    refine segT_cast (SegT.bin (toks := pre ++ toks ++ post) (a := a + pre.size) (b := b + pre.size)
      (c := c + pre.size) hm ihx (KAt_shift pre post hk rfl)
      (segT_cast ihy (by omega) rfl rfl)) rfl rfl ?_
    rw [rng_shift pre post (SegT.lt H) (SegT.le_size H) rfl rfl]
  | @ite a b c d x y z h1 hx h2 hy h3 hz ihx ihy ihz =>
    have H := SegT.ite h1 hx h2 hy h3 hz
    refine segT_cast (SegT.ite (toks := pre ++ toks ++ post) (a := a + pre.size) (b := b + pre.size)
      (c := c + pre.size) (d := d + pre.size) (KAt_shift pre post h1 rfl)
      (segT_cast ihx (by omega) rfl rfl) (KAt_shift pre post h2 rfl) (segT_cast ihy (by omega) rfl rfl)
      (KAt_shift pre post h3 rfl) (segT_cast ihz (by omega) rfl rfl)) rfl rfl ?_
    rw [rng_shift pre post (SegT.lt H) (SegT.le_size H) rfl rfl]
  | @group a b inner h1 hi h2 ih =>
    have H := SegT.group h1 hi h2
    refine segT_cast (SegT.group (toks := pre ++ toks ++ post) (a := a + pre.size) (b := b + pre.size)
      (KAt_shift pre post h1 rfl) (segT_cast ih (by omega) rfl rfl)
      (KAt_shift pre post h2 rfl)) rfl (by omega) ?_
    rw [rng_shift pre post (SegT.lt H) (SegT.le_size H) rfl (by omega)]

end Shift

/-! ## A sentence in parentheses -/

/-- `( toks )` : the token array between a `(` token and a `)` token -/
def wrapParens (toks : Array PTok) (lp rp : PTok) : Array PTok := #[lp] ++ toks ++ #[rp]

theorem wrapParens_size (toks : Array PTok) (lp rp : PTok) :
    (wrapParens toks lp rp).size = toks.size + 2 := by
  simp [wrapParens, Array.size_append]; omega

/-- the parse tree of `( toks )`: the tree of `toks` with `group = true` and the range from the `(`
to the `)` -/
def wrapTree (toks : Array PTok) (lp rp : PTok) (t : Src) : Src :=
  .mk (rng (wrapParens toks lp rp) 0 (toks.size + 2)) true t.variant []

theorem wrapTree_variant (toks : Array PTok) (lp rp : PTok) (t : Src) :
    (wrapTree toks lp rp t).variant = t.variant := rfl

/-- a `group` segment is a `term` segment -/
theorem segT_group_term {toks : Array PTok} {a b : Nat} {t : Src} (h : SegT toks .group a b t) :
    SegT toks .term a b t :=
  .unit (B := .jumboTerm) (by decide) (.unit (B := .giantTerm) (by decide)
    (.unit (B := .hugeTerm) (by decide) (.unit (B := .largeTerm) (by decide)
      (.unit (B := .mediumTerm) (by decide) (.unit (B := .smallTerm) (by decide)
        (.unit (B := .atom) (by decide) (.unit (B := .group) (by decide) h)))))))

/-- **A sentence in parentheses is a sentence**, and its parse tree is `wrapTree`. -/
theorem segT_wrap {toks : Array PTok} {t : Src} (lp rp : PTok) (hl : lp.kind = .leftParen)
    (hr : rp.kind = .rightParen) (h : SegT toks .term 0 toks.size t) :
    SegT (wrapParens toks lp rp) .term 0 (wrapParens toks lp rp).size (wrapTree toks lp rp t) := by
  have hs := segT_shift #[lp] #[rp] h
  have hsz := wrapParens_size toks lp rp
  have k1 : KAt (wrapParens toks lp rp) 0 .leftParen :=
    ⟨by omega, by simpa [wrapParens] using hl⟩
  have k2 : KAt (wrapParens toks lp rp) (toks.size + 1) .rightParen := by
    refine ⟨by omega, ?_⟩
    simp only [wrapParens]
    rw [Array.getElem_append_right (by simp [Array.size_append]; omega)]
    simpa [Array.size_append, Nat.add_comm] using hr
  have hg := SegT.group k1 (segT_cast hs (by simp) (by simp) rfl) k2
  exact segT_cast (segT_group_term hg) rfl (by omega) rfl

/-! ## `check_definitions` only appends to the error vector, and never reads the root's range -/

section CheckApp

def appSt (es : List PErr) (p : CheckSt) : CheckSt := (p.1, es ++ p.2)

theorem checkVariables_app (defs : Array (Name × RTm × RTm)) (start : Nat)
    (rec : Nat → CheckSt → Option CheckSt)
    (hrec : ∀ i v es, rec i (v, es) = (rec i (v, [])).map (appSt es)) :
    ∀ (vars : List Nat) (v : List Nat) (es : List PErr),
      checkVariables defs start rec vars (v, es) =
        (checkVariables defs start rec vars (v, [])).map (appSt es)
  | [], v, es => by simp [checkVariables, appSt]
  | var :: rest, v, es => by
      have ih := checkVariables_app defs start rec hrec rest
      simp only [checkVariables]
      split
      · split
        · exact ih v es
        · split
          · rw [hrec]
            cases rec (defs.size - 1 - var) ((defs.size - 1 - var) :: v, []) with
            | none => rfl
            | some st =>
              obtain ⟨v', e'⟩ := st
              simp only [Option.map_some, appSt]
              rw [ih v' (es ++ e'), ih v' e', Option.map_map]
              congr 1; funext p; simp [appSt, List.append_assoc]
          · split
            · rw [ih _ (es ++ _), ih _ ([] ++ _), Option.map_map]
              congr 1; funext p; simp [appSt, List.append_assoc]
            · exact ih _ es
      · exact ih v es

theorem checkDefinition_app (defs : Array (Name × RTm × RTm)) (start : Nat) :
    ∀ (fuel cur : Nat) (v : List Nat) (es : List PErr),
      checkDefinition defs start fuel cur (v, es) =
        (checkDefinition defs start fuel cur (v, [])).map (appSt es)
  | 0, _, _, _ => by simp [checkDefinition]
  | fuel + 1, cur, v, es => by
      simp only [checkDefinition]
      exact checkVariables_app defs start _ (fun i v es => checkDefinition_app defs start fuel i v es)
        _ v es

theorem checkEachDefinition_app (defs : Array (Name × RTm × RTm)) :
    ∀ (is : List Nat) (es : List PErr),
      checkEachDefinition defs is es = (checkEachDefinition defs is []).map (es ++ ·)
  | [], es => by simp [checkEachDefinition, Except.map]
  | i :: rest, es => by
      have ih := checkEachDefinition_app defs rest
      simp only [checkEachDefinition]
      split
      · rw [checkDefinition_app]
        cases checkDefinition defs i (defs.size + 1) i ([], []) with
        | none => rfl
        | some st =>
          obtain ⟨v', e'⟩ := st
          simp only [Option.map_some, appSt]
          rw [ih (es ++ e'), ih e']
          cases checkEachDefinition defs rest [] <;> simp [Except.map, List.append_assoc]
      · exact ih es

theorem except_map_map {ε α β γ : Type} (f : α → β) (g : β → γ) (x : Except ε α) :
    (x.map f).map g = x.map (g ∘ f) := by cases x <;> rfl

mutual
theorem checkDefinitions_app : ∀ (t : RTm) (depth : Nat) (es : List PErr),
    checkDefinitions t depth es = (checkDefinitions t depth []).map (es ++ ·)
  | .mk _ (.hole _ _), _, _ => by
      simp only [checkDefinitions]; split <;> simp [Except.map]
  | .mk _ .type, _, _ | .mk _ .int, _, _ | .mk _ .bool, _, _
  | .mk _ .tt, _, _ | .mk _ .ff, _, _ | .mk _ (.lit _), _, _ | .mk _ (.var _ _), _, _ => by
      simp [checkDefinitions, Except.map]
  | .mk _ (.lam x imp d b), depth, es | .mk _ (.pi x imp d b), depth, es => by
      simp only [checkDefinitions]
      rw [checkDefinitions_app d depth es]
      cases checkDefinitions d depth [] with
      | error f => rfl
      | ok e1 =>
        simp only [Except.map]
        rw [checkDefinitions_app b (depth + 1) (es ++ e1), checkDefinitions_app b (depth + 1) e1]
        cases checkDefinitions b (depth + 1) [] <;> simp [Except.map, List.append_assoc]
  | .mk _ (.app f a), depth, es => by
      simp only [checkDefinitions]
      rw [checkDefinitions_app f depth es]
      cases checkDefinitions f depth [] with
      | error f => rfl
      | ok e1 =>
        simp only [Except.map]
        rw [checkDefinitions_app a depth (es ++ e1), checkDefinitions_app a depth e1]
        cases checkDefinitions a depth [] <;> simp [Except.map, List.append_assoc]
  | .mk _ (.letg ds b), depth, es => by
      simp only [checkDefinitions]
      rw [checkEachDefinition_app _ _ es]
      cases checkEachDefinition ds.toList.toArray (List.range ds.toList.toArray.size) [] with
      | error f => rfl
      | ok e1 =>
        simp only [Except.map]
        rw [checkDefinitionsDefs_app ds (depth + ds.len) (es ++ e1),
          checkDefinitionsDefs_app ds (depth + ds.len) e1]
        cases checkDefinitionsDefs ds (depth + ds.len) [] with
        | error f => rfl
        | ok e2 =>
          simp only [Except.map]
          rw [checkDefinitions_app b (depth + ds.len) (es ++ e1 ++ e2),
            checkDefinitions_app b (depth + ds.len) (e1 ++ e2)]
          cases checkDefinitions b (depth + ds.len) [] <;> simp [Except.map, List.append_assoc]
  | .mk _ (.neg a), depth, es => by
      simp only [checkDefinitions]
      exact checkDefinitions_app a depth es
  | .mk _ (.bin o a b), depth, es => by
      simp only [checkDefinitions]
      rw [checkDefinitions_app a depth es]
      cases checkDefinitions a depth [] with
      | error f => rfl
      | ok e1 =>
        simp only [Except.map]
        rw [checkDefinitions_app b depth (es ++ e1), checkDefinitions_app b depth e1]
        cases checkDefinitions b depth [] <;> simp [Except.map, List.append_assoc]
  | .mk _ (.ite c a b), depth, es => by
      simp only [checkDefinitions]
      rw [checkDefinitions_app c depth es]
      cases checkDefinitions c depth [] with
      | error f => rfl
      | ok e1 =>
        simp only [Except.map]
        rw [checkDefinitions_app a depth (es ++ e1), checkDefinitions_app a depth e1]
        cases checkDefinitions a depth [] with
        | error f => rfl
        | ok e2 =>
          simp only [Except.map]
          rw [checkDefinitions_app b depth (es ++ e1 ++ e2), checkDefinitions_app b depth (e1 ++ e2)]
          cases checkDefinitions b depth [] <;> simp [Except.map, List.append_assoc]
theorem checkDefinitionsDefs_app : ∀ (ds : RDefs) (depth : Nat) (es : List PErr),
    checkDefinitionsDefs ds depth es = (checkDefinitionsDefs ds depth []).map (es ++ ·)
  | .nil, _, _ => by simp [checkDefinitionsDefs, Except.map]
  | .cons x a d r, depth, es => by
      simp only [checkDefinitionsDefs]
      rw [checkDefinitions_app d depth es]
      cases checkDefinitions d depth [] with
      | error f => rfl
      | ok e1 =>
        simp only [Except.map]
        rw [checkDefinitionsDefs_app r depth (es ++ e1), checkDefinitionsDefs_app r depth e1]
        cases checkDefinitionsDefs r depth [] <;> simp [Except.map, List.append_assoc]
end

/-- `check_definitions` never reads the range of the root node -/
theorem checkDefinitions_top {t t' : RTm} (h : t'.variant = t.variant) (depth : Nat)
    (es : List PErr) : checkDefinitions t' depth es = checkDefinitions t depth es := by
  obtain ⟨r, v⟩ := t
  obtain ⟨r', v'⟩ := t'
  simp only [RTm.variant] at h
  subst h
  cases v' <;> simp only [checkDefinitions]

end CheckApp

/-! ## Name resolution of a whole program: only the root's range depends on the root's range -/

section ResolveTop

/-- what is compared after name resolution: the resolved term's `variant` (everything but the range
of the root: all inner ranges included), the context, the hole counter, the NUMBER of errors -/
def resViewV (p : RTm × RState) : RTmV × Ctx × Nat × Nat :=
  (p.1.variant, p.2.ctx, p.2.nextHole, p.2.errors.length)

def resViewAuxV (p : (RDefs × RTm) × RState) : RTmV × Ctx × Nat × Nat :=
  (p.1.2.variant, p.2.ctx, p.2.nextHole, p.2.errors.length)

theorem resolveAux_topV (r r' : SourceRange) (g g' : Bool) (v : SrcV) (es es' : List PErr)
    (depth : Nat) (st : RState) :
    (resolveAux (.mk r' g' v es') none depth st).map resViewAuxV =
      (resolveAux (.mk r g v es) none depth st).map resViewAuxV := by
  cases v
  case var x =>
    rw [resolveAux, resolveAux]
    dsimp only
    cases st.ctx.get x <;> simp [resViewAuxV, RTm.variant]
    split <;> simp
  case parseError => rw [resolveAux, resolveAux]
  case lam x imp dom body =>
    rw [resolveAux, resolveAux]
    simp only [bind, StateT.bind, Option.map_bind, Function.comp_def]
    congr 1; funext p; congr 1; funext q
    cases p.fst <;>
      simp only [bind, StateT.bind, pure, StateT.pure, Option.map_bind, Function.comp_def, Option.map_some,
        resViewAuxV, RTm.variant, Option.bind_some]
  all_goals
    rw [resolveAux, resolveAux]
    simp only [bind, StateT.bind, pure, StateT.pure, Option.map_bind, Function.comp_def, Option.map_some,
      resViewAuxV, RTm.variant]

theorem resolve_topV {t t' : Src} (h : t'.variant = t.variant) (depth : Nat) (st : RState) :
    (resolve t' depth st).map resViewV = (resolve t depth st).map resViewV := by
  obtain ⟨r, g, v, es⟩ := t
  obtain ⟨r', g', v', es'⟩ := t'
  simp only [Src.variant] at h
  subst h
  have h := resolveAux_topV r r' g g' v' es es' depth st
  unfold resolve
  simp only [bind, StateT.bind, pure, StateT.pure, Option.map_bind, Function.comp_def, Option.map_some,
    resViewV]
  simpa only [Option.map_eq_bind, Function.comp_def, resViewAuxV] using h

theorem erase_of_variant {t t' : RTm} (h : t'.variant = t.variant) : t'.erase = t.erase := by
  obtain ⟨r, v⟩ := t
  obtain ⟨r', v'⟩ := t'
  simp only [RTm.variant] at h
  subst h
  cases v' <;> simp only [RTm.erase]

end ResolveTop

/-! ## `parse` on a program in parentheses -/

section Program

/-- What is compared of two outcomes of `parse`: an accepted program's resolved term up to the range
of its root node (`RTm.variant`: the whole term, inner source ranges included, without the root's
range), the NUMBER of diagnostics, a panic, the model's out-of-fuel. -/
inductive OutView
  | ok (v : RTmV)
  | errors (n : Nat)
  | panic
  | outOfFuel

def outView : ParseOutcome → OutView
  | .ok t => .ok t.variant
  | .errors es => .errors es.length
  | .panic => .panic
  | .outOfFuel => .outOfFuel

/-- the part of `parse` after the re-association passes: name resolution, `check_definitions` -/
def finishResolved (context : List Name) (t3 : Src) : ParseOutcome :=
  let ctx := initialContext context
  match resolve t3 ctx.length { ctx := ctx, errors := [], nextHole := 0 } with
  | none => .panic
  | some (resolved, st) =>
  match checkDefinitions resolved st.ctx.length st.errors with
  | .error .panic => .panic
  | .error .outOfFuel => .outOfFuel
  | .ok errors => if errors.isEmpty then .ok resolved else .errors errors

/-- on a tree without syntax error that consumed every token, `finishParse` is the three passes
followed by `finishResolved` -/
theorem finishParse_clean (toks : Array PTok) (context : List Name) (term : Src)
    (hce : collectErrors term = []) :
    finishParse toks context term toks.size =
      match RewriteMore.reassocAll term with
      | none => .panic
      | some t3 => finishResolved context t3 := by
  unfold finishParse RewriteMore.reassocAll finishResolved
  simp only [hce, List.isEmpty_nil, bne_self_eq_false, Bool.and_false, Bool.false_eq_true, if_false,
    Bool.not_true]
  cases reassociateApplications term with
  | none => rfl
  | some t1 =>
    simp only
    cases reassociateProductsAndQuotients t1 with
    | none => rfl
    | some t2 =>
      simp only
      cases reassociateSumsAndDifferences t2 <;> rfl

/-- name resolution and `check_definitions` on two trees with the same root `variant` -/
theorem finishResolved_top (context : List Name) {t t' : Src} (h : t'.variant = t.variant) :
    outView (finishResolved context t') = outView (finishResolved context t) := by
  have h1 := resolve_topV h (initialContext context).length
    { ctx := initialContext context, errors := [], nextHole := 0 }
  unfold finishResolved
  simp only
  cases e' : resolve t' (initialContext context).length
      { ctx := initialContext context, errors := [], nextHole := 0 } with
  | none =>
    rw [e'] at h1
    cases e : resolve t (initialContext context).length
        { ctx := initialContext context, errors := [], nextHole := 0 } with
    | none => rfl
    | some _ => rw [e] at h1; cases h1
  | some p' =>
    rw [e'] at h1
    cases e : resolve t (initialContext context).length
        { ctx := initialContext context, errors := [], nextHole := 0 } with
    | none => rw [e] at h1; cases h1
    | some p =>
      rw [e] at h1
      obtain ⟨r', s'⟩ := p'
      obtain ⟨r, s⟩ := p
      simp only [Option.map_some, Option.some.injEq, resViewV, Prod.mk.injEq] at h1
      obtain ⟨hv, hc, _, hl⟩ := h1
      simp only
      rw [checkDefinitions_top hv, hc, checkDefinitions_app r _ s'.errors,
        checkDefinitions_app r _ s.errors]
      cases checkDefinitions r s.ctx.length [] with
      | error f => cases f <;> rfl
      | ok new =>
        simp only [Except.map]
        have hl2 : (s'.errors ++ new).length = (s.errors ++ new).length := by
          simp only [List.length_append, hl]
        have he : (s'.errors ++ new).isEmpty = (s.errors ++ new).isEmpty := by
          rw [Bool.eq_iff_iff, List.isEmpty_iff_length_eq_zero, List.isEmpty_iff_length_eq_zero, hl2]
        rw [he]
        split
        · simp only [outView, hv]
        · simp only [outView, hl2]

/-- the whole of `finishParse` on two error-free trees with the same root `variant`, each having
consumed every token of its own array -/
theorem finishParse_top (toks toks' : Array PTok) (context : List Name) {t t' : Src}
    (h : t'.variant = t.variant) (hce : collectErrors t = []) (hce' : collectErrors t' = []) :
    outView (finishParse toks' context t' toks'.size) =
      outView (finishParse toks context t toks.size) := by
  rw [finishParse_clean toks' context t' hce', finishParse_clean toks context t hce]
  have h1 := RewriteMore.reassocAll_top h
  cases e' : RewriteMore.reassocAll t' with
  | none =>
    rw [e'] at h1
    cases e : RewriteMore.reassocAll t with
    | none => rfl
    | some _ => rw [e] at h1; cases h1
  | some u' =>
    rw [e'] at h1
    cases e : RewriteMore.reassocAll t with
    | none => rw [e] at h1; cases h1
    | some u =>
      rw [e] at h1
      simp only [Option.map_some, Option.some.injEq] at h1
      exact finishResolved_top context h1

/-- `parseModel` on a sentence: the parse phase returns the sentence's tree -/
theorem parseModel_sentence {toks : Array PTok} {t : Src} (h : SegT toks .term 0 toks.size t)
    (context : List Name) : parseModel toks context = finishParse toks context t toks.size := by
  obtain ⟨r, st, hr, ht, hn, _, _⟩ := parse_complete h
  unfold parseModel
  rw [hr]
  simp only [ht, hn]

/-- **Wrapping the whole program in parentheses changes nothing but source ranges.**  If `toks` is a
sentence of the grammar, so is `( toks )`, and `parse` gives the same outcome on both up to the range
of the root node of the accepted term and the ranges inside the diagnostics. -/
theorem paren_program_tokens {toks : Array PTok} {t : Src} (lp rp : PTok)
    (hl : lp.kind = .leftParen) (hr : rp.kind = .rightParen)
    (h : SegT toks .term 0 toks.size t) (context : List Name) :
    outView (parseModel (wrapParens toks lp rp) context) = outView (parseModel toks context) := by
  have h' := segT_wrap lp rp hl hr h
  rw [parseModel_sentence h' context, parseModel_sentence h context]
  exact finishParse_top toks (wrapParens toks lp rp) context (wrapTree_variant toks lp rp t)
    (ce_segT h) (ce_segT h')

end Program

/-! ## Consequences in plain terms, and a kernel-evaluation helper for examples -/

section Corollaries

theorem outView_ok {o : ParseOutcome} {v : RTmV} (h : outView o = .ok v) :
    ∃ r, o = .ok r ∧ r.variant = v := by
  cases o <;> simp only [outView, OutView.ok.injEq, reduceCtorEq] at h
  exact ⟨_, rfl, h⟩

theorem outView_errors {o : ParseOutcome} {n : Nat} (h : outView o = .errors n) :
    ∃ es, o = .errors es ∧ es.length = n := by
  cases o <;> simp only [outView, OutView.errors.injEq, reduceCtorEq] at h
  exact ⟨_, rfl, h⟩

/-- the same for a program the parse phase accepts (every token consumed, no syntax error) -/
theorem paren_program_tokens_accepted {toks : Array PTok} (lp rp : PTok)
    (hl : lp.kind = .leftParen) (hr : rp.kind = .rightParen)
    (hacc : ∃ r st, runParser toks = some (r, st) ∧ r.next = toks.size ∧ collectErrors r.term = [])
    (context : List Name) :
    (∃ r st, runParser (wrapParens toks lp rp) = some (r, st) ∧
      r.next = (wrapParens toks lp rp).size ∧ collectErrors r.term = []) ∧
    outView (parseModel (wrapParens toks lp rp) context) = outView (parseModel toks context) := by
  obtain ⟨r, st, h1, hn, hce⟩ := hacc
  have h := runParser_spans h1 hce
  rw [hn] at h
  obtain ⟨r', st', h1', _, hn', hce', _⟩ := parse_complete (segT_wrap lp rp hl hr h)
  exact ⟨⟨r', st', h1', hn', hce'⟩, paren_program_tokens lp rp hl hr h context⟩

/-- in plain terms: accepted together, with the same de Bruijn term; rejected together, with the same
number of diagnostics; panic / out of fuel together -/
theorem paren_program_tokens_plain {toks : Array PTok} {t : Src} (lp rp : PTok)
    (hl : lp.kind = .leftParen) (hr : rp.kind = .rightParen)
    (h : SegT toks .term 0 toks.size t) (context : List Name) :
    (∀ r, parseModel toks context = .ok r →
      ∃ r', parseModel (wrapParens toks lp rp) context = .ok r' ∧ r'.variant = r.variant ∧
        r'.erase = r.erase) ∧
    (∀ r', parseModel (wrapParens toks lp rp) context = .ok r' →
      ∃ r, parseModel toks context = .ok r ∧ r'.variant = r.variant ∧ r'.erase = r.erase) ∧
    (∀ es, parseModel toks context = .errors es →
      ∃ es', parseModel (wrapParens toks lp rp) context = .errors es' ∧ es'.length = es.length) ∧
    (∀ es', parseModel (wrapParens toks lp rp) context = .errors es' →
      ∃ es, parseModel toks context = .errors es ∧ es'.length = es.length) ∧
    (parseModel (wrapParens toks lp rp) context = .panic ↔ parseModel toks context = .panic) ∧
    (parseModel (wrapParens toks lp rp) context = .outOfFuel ↔
      parseModel toks context = .outOfFuel) := by
  have e := paren_program_tokens lp rp hl hr h context
  refine ⟨?_, ?_, ?_, ?_, ?_, ?_⟩
  · intro r hr0
    rw [hr0] at e
    obtain ⟨r', h1, h2⟩ := outView_ok e
    exact ⟨r', h1, h2, erase_of_variant h2⟩
  · intro r' hr0
    rw [hr0] at e
    obtain ⟨r, h1, h2⟩ := outView_ok e.symm
    exact ⟨r, h1, h2.symm, erase_of_variant h2.symm⟩
  · intro es hr0
    rw [hr0] at e
    exact outView_errors e
  · intro es' hr0
    rw [hr0] at e
    obtain ⟨es, h1, h2⟩ := outView_errors e.symm
    exact ⟨es, h1, h2.symm⟩
  · constructor <;> intro hp <;> rw [hp] at e
    · cases ho : parseModel toks context <;> rw [ho] at e <;> simp [outView] at e
    · cases ho : parseModel (wrapParens toks lp rp) context <;> rw [ho] at e <;> simp [outView] at e
  · constructor <;> intro hp <;> rw [hp] at e
    · cases ho : parseModel toks context <;> rw [ho] at e <;> simp [outView] at e
    · cases ho : parseModel (wrapParens toks lp rp) context <;> rw [ho] at e <;> simp [outView] at e

/-- the resolved de Bruijn term of an accepted program -/
def okErase : ParseOutcome → Option Tm
  | .ok t => some t.erase
  | _ => none

/-- read `parse`'s verdict off a kernel evaluation of the cache-free parser -/
theorem parseModel_eval (toks : Array PTok) (fuel : Nat) (context : List Name) (v : Tm)
    (h : (parsePure toks fuel .term 0 PState.init).map
      (fun p => (okErase (finishParse toks context p.1.term p.1.next), p.1.next,
        collectErrors p.1.term)) = some (some v, toks.size, [])) :
    (∃ r, parseModel toks context = .ok r ∧ r.erase = v) ∧
      ∃ t, SegT toks .term 0 toks.size t := by
  obtain ⟨r, st, hr, ho⟩ := runParser_eval toks fuel
    (fun r => (okErase (finishParse toks context r.term r.next), r.next, collectErrors r.term)) _ h
  simp only [Prod.mk.injEq] at ho
  obtain ⟨h1, h2, h3⟩ := ho
  have hs := runParser_spans hr h3
  rw [h2] at hs
  refine ⟨?_, _, hs⟩
  unfold parseModel
  rw [hr]
  simp only
  cases hf : finishParse toks context r.term r.next <;> rw [hf] at h1 <;>
    simp only [okErase, Option.some.injEq, reduceCtorEq] at h1
  exact ⟨_, rfl, h1⟩

end Corollaries

/-! ## The NUMBER of definition-order diagnostics only depends on the de Bruijn term

`check_definitions` reads of the resolved term: its shape, `isValue` / `freeVars` of the erased
definitions, and source ranges only to put them into diagnostics. -/

section CheckCount

/-- two definition vectors `check_definition` cannot tell apart as far as counting goes -/
structure ArrC (A B : Array (Name × RTm × RTm)) : Prop where
  size : A.size = B.size
  val : ∀ i : Nat, isValue (A[i]!).2.2.erase = isValue (B[i]!).2.2.erase
  fv : ∀ i : Nat, freeVars (A[i]!).2.2.erase 0 = freeVars (B[i]!).2.2.erase 0

def cnt (p : CheckSt) : List Nat × Nat := (p.1, p.2.length)

theorem map_cnt_cases {x y : Option CheckSt} (h : x.map cnt = y.map cnt) :
    (x = none ∧ y = none) ∨ ∃ v e1 e2, x = some (v, e1) ∧ y = some (v, e2) ∧ e1.length = e2.length := by
  cases x with
  | none => cases y with
    | none => exact .inl ⟨rfl, rfl⟩
    | some _ => cases h
  | some p => cases y with
    | none => cases h
    | some q =>
      obtain ⟨v, e1⟩ := p
      obtain ⟨w, e2⟩ := q
      simp only [Option.map_some, cnt, Option.some.injEq, Prod.mk.injEq] at h
      obtain ⟨rfl, hl⟩ := h
      exact .inr ⟨v, e1, e2, rfl, rfl, hl⟩

theorem checkVariables_cnt {A B : Array (Name × RTm × RTm)} (h : ArrC A B) (start : Nat)
    (recA recB : Nat → CheckSt → Option CheckSt)
    (hrec : ∀ i v e1 e2, e1.length = e2.length →
      (recA i (v, e1)).map cnt = (recB i (v, e2)).map cnt) :
    ∀ (vars : List Nat) (v : List Nat) (e1 e2 : List PErr), e1.length = e2.length →
      (checkVariables A start recA vars (v, e1)).map cnt =
        (checkVariables B start recB vars (v, e2)).map cnt
  | [], v, e1, e2, hl => by simp [checkVariables, cnt, hl]
  | var :: rest, v, e1, e2, hl => by
      have ih := checkVariables_cnt h start recA recB hrec rest
      simp only [checkVariables, h.size, h.val]
      split
      · split
        · exact ih v e1 e2 hl
        · split
          · rcases map_cnt_cases (hrec (B.size - 1 - var) ((B.size - 1 - var) :: v) e1 e2 hl) with
              ⟨ha, hb⟩ | ⟨v', f1, f2, ha, hb, hl'⟩
            · rw [ha, hb]
            · rw [ha, hb]; exact ih v' f1 f2 hl'
          · split
            · exact ih _ _ _ (by simp [hl])
            · exact ih _ e1 e2 hl
      · exact ih v e1 e2 hl

theorem checkDefinition_cnt {A B : Array (Name × RTm × RTm)} (h : ArrC A B) (start : Nat) :
    ∀ (fuel cur : Nat) (v : List Nat) (e1 e2 : List PErr), e1.length = e2.length →
      (checkDefinition A start fuel cur (v, e1)).map cnt =
        (checkDefinition B start fuel cur (v, e2)).map cnt
  | 0, _, _, _, _, _ => by simp [checkDefinition]
  | fuel + 1, cur, v, e1, e2, hl => by
      simp only [checkDefinition, h.fv]
      exact checkVariables_cnt h start _ _
        (fun i v e1 e2 hl => checkDefinition_cnt h start fuel i v e1 e2 hl) _ v e1 e2 hl

theorem checkEachDefinition_cnt {A B : Array (Name × RTm × RTm)} (h : ArrC A B) :
    ∀ (is : List Nat) (e1 e2 : List PErr), e1.length = e2.length →
      (checkEachDefinition A is e1).map List.length = (checkEachDefinition B is e2).map List.length
  | [], e1, e2, hl => by simp [checkEachDefinition, Except.map, hl]
  | i :: rest, e1, e2, hl => by
      have ih := checkEachDefinition_cnt h rest
      simp only [checkEachDefinition, h.val, h.size]
      split
      · rcases map_cnt_cases (checkDefinition_cnt h i (B.size + 1) i [] e1 e2 hl) with
          ⟨ha, hb⟩ | ⟨v', f1, f2, ha, hb, hl'⟩
        · rw [ha, hb]
        · rw [ha, hb]; exact ih f1 f2 hl'
      · exact ih e1 e2 hl

theorem getElem!_cons_toArray {α : Type} [Inhabited α] (x : α) (l : List α) :
    ((x :: l).toArray[0]! = x) ∧ ∀ i, (x :: l).toArray[i + 1]! = l.toArray[i]! := by
  constructor
  · simp
  · intro i; simp [List.getElem!_eq_getElem?_getD]

theorem arrC_of_erase : ∀ (ds ds' : RDefs), ds.erase = ds'.erase →
    ds.len = ds'.len ∧ ds.toList.length = ds'.toList.length ∧
      ∀ i : Nat, (ds.toList.toArray[i]!).2.2.erase = (ds'.toList.toArray[i]!).2.2.erase
  | .nil, .nil, _ => ⟨rfl, rfl, fun _ => rfl⟩
  | .nil, .cons _ _ _ _, h => by simp [RDefs.erase] at h
  | .cons _ _ _ _, .nil, h => by simp [RDefs.erase] at h
  | .cons x a d r, .cons x' a' d' r', h => by
      simp only [RDefs.erase, Defs.cons.injEq] at h
      obtain ⟨_, _, hd, hr⟩ := h
      obtain ⟨h1, h2, h3⟩ := arrC_of_erase r r' hr
      refine ⟨by simp [RDefs.len, h1], by simp [RDefs.toList, h2], ?_⟩
      intro i
      simp only [RDefs.toList]
      cases i with
      | zero => rw [(getElem!_cons_toArray _ _).1, (getElem!_cons_toArray _ _).1]; exact hd
      | succ i => rw [(getElem!_cons_toArray _ _).2, (getElem!_cons_toArray _ _).2]; exact h3 i

theorem arrC_of_erase' {ds ds' : RDefs} (h : ds.erase = ds'.erase) :
    ArrC ds.toList.toArray ds'.toList.toArray := by
  obtain ⟨_, h2, h3⟩ := arrC_of_erase ds ds' h
  exact ⟨by simpa using h2, fun i => by rw [h3 i], fun i => by rw [h3 i]⟩

theorem except_len_cases {x y : Except Fail (List PErr)}
    (h : x.map List.length = y.map List.length) :
    (∃ f, x = .error f ∧ y = .error f) ∨ ∃ e1 e2, x = .ok e1 ∧ y = .ok e2 ∧ e1.length = e2.length := by
  cases x with
  | error f => cases y with
    | error g => simp only [Except.map, Except.error.injEq] at h; subst h; exact .inl ⟨f, rfl, rfl⟩
    | ok _ => simp [Except.map] at h
  | ok e1 => cases y with
    | error g => simp [Except.map] at h
    | ok e2 => simp only [Except.map, Except.ok.injEq] at h; exact .inr ⟨e1, e2, rfl, rfl, h⟩

mutual
theorem checkDefinitions_cnt : ∀ (t u : RTm) (depth : Nat) (e1 e2 : List PErr),
    t.erase = u.erase → e1.length = e2.length →
    (checkDefinitions t depth e1).map List.length = (checkDefinitions u depth e2).map List.length
  | .mk _ (.hole _ _), .mk _ v', _, _, _, he, hl => by
      cases v' <;> simp only [RTm.erase, reduceCtorEq, Tm.hole.injEq] at he
      obtain ⟨_, rfl⟩ := he
      simp only [checkDefinitions]; split <;> simp [Except.map, hl]
  | .mk _ .type, .mk _ v', _, _, _, he, hl | .mk _ .int, .mk _ v', _, _, _, he, hl
  | .mk _ .bool, .mk _ v', _, _, _, he, hl | .mk _ .tt, .mk _ v', _, _, _, he, hl
  | .mk _ .ff, .mk _ v', _, _, _, he, hl | .mk _ (.lit _), .mk _ v', _, _, _, he, hl
  | .mk _ (.var _ _), .mk _ v', _, _, _, he, hl => by
      cases v' <;> simp only [RTm.erase, reduceCtorEq] at he <;>
        simp [checkDefinitions, Except.map, hl]
  | .mk _ (.lam x imp d b), .mk _ v', depth, e1, e2, he, hl => by
      cases v' <;> simp only [RTm.erase, reduceCtorEq, Tm.lam.injEq] at he
      obtain ⟨_, _, hd, hb⟩ := he
      simp only [checkDefinitions]
      rcases except_len_cases (checkDefinitions_cnt d _ depth e1 e2 hd hl) with
        ⟨f, ha, hb'⟩ | ⟨f1, f2, ha, hb', hl'⟩
      · rw [ha, hb']
      · rw [ha, hb']; exact checkDefinitions_cnt b _ (depth + 1) f1 f2 hb hl'
  | .mk _ (.pi x imp d b), .mk _ v', depth, e1, e2, he, hl => by
      cases v' <;> simp only [RTm.erase, reduceCtorEq, Tm.pi.injEq] at he
      obtain ⟨_, _, hd, hb⟩ := he
      simp only [checkDefinitions]
      rcases except_len_cases (checkDefinitions_cnt d _ depth e1 e2 hd hl) with
        ⟨f, ha, hb'⟩ | ⟨f1, f2, ha, hb', hl'⟩
      · rw [ha, hb']
      · rw [ha, hb']; exact checkDefinitions_cnt b _ (depth + 1) f1 f2 hb hl'
  | .mk _ (.app f a), .mk _ v', depth, e1, e2, he, hl => by
      cases v' <;> simp only [RTm.erase, reduceCtorEq, Tm.app.injEq] at he
      obtain ⟨hf, ha'⟩ := he
      simp only [checkDefinitions]
      rcases except_len_cases (checkDefinitions_cnt f _ depth e1 e2 hf hl) with
        ⟨f, ha, hb'⟩ | ⟨f1, f2, ha, hb', hl'⟩
      · rw [ha, hb']
      · rw [ha, hb']; exact checkDefinitions_cnt a _ depth f1 f2 ha' hl'
  | .mk _ (.letg ds b), .mk _ v', depth, e1, e2, he, hl => by
      cases v' <;> simp only [RTm.erase, reduceCtorEq, Tm.letg.injEq] at he
      obtain ⟨hds, hb⟩ := he
      have hA := arrC_of_erase' hds
      have hlen := (arrC_of_erase _ _ hds).1
      simp only [checkDefinitions, hA.size, hlen]
      rcases except_len_cases (checkEachDefinition_cnt hA (List.range _) e1 e2 hl) with
        ⟨f, ha, hb'⟩ | ⟨f1, f2, ha, hb', hl'⟩
      · rw [ha, hb']
      · rw [ha, hb']
        simp only
        rcases except_len_cases (checkDefinitionsDefs_cnt ds _ _ f1 f2 hds hl') with
          ⟨f, ha, hb'⟩ | ⟨g1, g2, ha, hb', hl''⟩
        · rw [ha, hb']
        · rw [ha, hb']; exact checkDefinitions_cnt b _ _ g1 g2 hb hl''
  | .mk _ (.neg a), .mk _ v', depth, e1, e2, he, hl => by
      cases v' <;> simp only [RTm.erase, reduceCtorEq, Tm.neg.injEq] at he
      simp only [checkDefinitions]
      exact checkDefinitions_cnt a _ depth e1 e2 he hl
  | .mk _ (.bin o a b), .mk _ v', depth, e1, e2, he, hl => by
      cases v' <;> simp only [RTm.erase, reduceCtorEq, Tm.bin.injEq] at he
      obtain ⟨_, ha', hb⟩ := he
      simp only [checkDefinitions]
      rcases except_len_cases (checkDefinitions_cnt a _ depth e1 e2 ha' hl) with
        ⟨f, ha, hb'⟩ | ⟨f1, f2, ha, hb', hl'⟩
      · rw [ha, hb']
      · rw [ha, hb']; exact checkDefinitions_cnt b _ depth f1 f2 hb hl'
  | .mk _ (.ite c a b), .mk _ v', depth, e1, e2, he, hl => by
      cases v' <;> simp only [RTm.erase, reduceCtorEq, Tm.ite.injEq] at he
      obtain ⟨hc, ha', hb⟩ := he
      simp only [checkDefinitions]
      rcases except_len_cases (checkDefinitions_cnt c _ depth e1 e2 hc hl) with
        ⟨f, ha, hb'⟩ | ⟨f1, f2, ha, hb', hl'⟩
      · rw [ha, hb']
      · rw [ha, hb']
        simp only
        rcases except_len_cases (checkDefinitions_cnt a _ depth f1 f2 ha' hl') with
          ⟨f, ha, hb'⟩ | ⟨g1, g2, ha, hb', hl''⟩
        · rw [ha, hb']
        · rw [ha, hb']; exact checkDefinitions_cnt b _ depth g1 g2 hb hl''
theorem checkDefinitionsDefs_cnt : ∀ (ds ds' : RDefs) (depth : Nat) (e1 e2 : List PErr),
    ds.erase = ds'.erase → e1.length = e2.length →
    (checkDefinitionsDefs ds depth e1).map List.length =
      (checkDefinitionsDefs ds' depth e2).map List.length
  | .nil, .nil, _, _, _, _, hl => by simp [checkDefinitionsDefs, Except.map, hl]
  | .nil, .cons _ _ _ _, _, _, _, h, _ => by simp [RDefs.erase] at h
  | .cons _ _ _ _, .nil, _, _, _, h, _ => by simp [RDefs.erase] at h
  | .cons x a d r, .cons x' a' d' r', depth, e1, e2, h, hl => by
      simp only [RDefs.erase, Defs.cons.injEq] at h
      obtain ⟨_, _, hd, hr⟩ := h
      simp only [checkDefinitionsDefs]
      rcases except_len_cases (checkDefinitions_cnt d _ depth e1 e2 hd hl) with
        ⟨f, ha, hb'⟩ | ⟨f1, f2, ha, hb', hl'⟩
      · rw [ha, hb']
      · rw [ha, hb']; exact checkDefinitionsDefs_cnt r r' depth f1 f2 hr hl'
end

end CheckCount

/-! ## The front-end outcome of a sentence only depends on `resView` of re-association + resolution

This reduces every token-level rewrite statement ("the two token arrays are sentences with trees `t`,
`t'`") to the statement about the three passes and `resolve` on the two trees. -/

section Reduction

/-- the outcome of `parse` up to source ranges: the de Bruijn term, the NUMBER of diagnostics -/
inductive OutE
  | ok (t : Tm)
  | errors (n : Nat)
  | panic
  | outOfFuel
deriving DecidableEq

def outE : ParseOutcome → OutE
  | .ok t => .ok t.erase
  | .errors es => .errors es.length
  | .panic => .panic
  | .outOfFuel => .outOfFuel

def st0 (context : List Name) : RState := { ctx := initialContext context, errors := [], nextHole := 0 }

theorem finishResolved_none {context : List Name} {t3 : Src}
    (h : resolve t3 (initialContext context).length (st0 context) = none) :
    finishResolved context t3 = .panic := by
  unfold finishResolved; simp only; rw [show ({ ctx := initialContext context, errors := [], nextHole := 0 } : RState) = st0 context from rfl, h]

theorem finishResolved_some {context : List Name} {t3 : Src} {r : RTm} {s : RState}
    (h : resolve t3 (initialContext context).length (st0 context) = some (r, s)) :
    finishResolved context t3 =
      match checkDefinitions r s.ctx.length s.errors with
      | .error .panic => .panic
      | .error .outOfFuel => .outOfFuel
      | .ok errors => if errors.isEmpty then .ok r else .errors errors := by
  unfold finishResolved; simp only; rw [show ({ ctx := initialContext context, errors := [], nextHole := 0 } : RState) = st0 context from rfl, h]

theorem finishResolved_resView (context : List Name) {u u' : Src}
    (h : (resolve u' (initialContext context).length (st0 context)).map RewriteMore.resView =
      (resolve u (initialContext context).length (st0 context)).map RewriteMore.resView) :
    outE (finishResolved context u') = outE (finishResolved context u) := by
  cases e' : resolve u' (initialContext context).length (st0 context) with
  | none =>
    rw [e'] at h
    cases e : resolve u (initialContext context).length (st0 context) with
    | none => rw [finishResolved_none e', finishResolved_none e]
    | some _ => rw [e] at h; cases h
  | some p' =>
    rw [e'] at h
    cases e : resolve u (initialContext context).length (st0 context) with
    | none => rw [e] at h; cases h
    | some p =>
      rw [e] at h
      obtain ⟨r', s'⟩ := p'
      obtain ⟨r, s⟩ := p
      simp only [Option.map_some, Option.some.injEq, RewriteMore.resView, Prod.mk.injEq] at h
      obtain ⟨hv, hc, _, hl⟩ := h
      rw [finishResolved_some e', finishResolved_some e, hc]
      rcases except_len_cases (checkDefinitions_cnt r' r s.ctx.length s'.errors s.errors hv hl) with
        ⟨f, ha, hb⟩ | ⟨f1, f2, ha, hb, hl'⟩
      · rw [ha, hb]; cases f <;> rfl
      · rw [ha, hb]
        simp only
        have he : f1.isEmpty = f2.isEmpty := by
          rw [Bool.eq_iff_iff, List.isEmpty_iff_length_eq_zero, List.isEmpty_iff_length_eq_zero, hl']
        rw [he]
        split
        · simp only [outE, hv]
        · simp only [outE, hl']

/-- **Reduction.**  Two sentences (any two token arrays) whose parse trees are taken by the three
passes and `resolve` (from the initial state of the parameter context) to the same `resView` have the
same front-end outcome up to ranges: the same de Bruijn term, or the same number of diagnostics. -/
theorem parseModel_of_resView {toks toks' : Array PTok} {t t' : Src} (context : List Name)
    (h : SegT toks .term 0 toks.size t) (h' : SegT toks' .term 0 toks'.size t')
    (hr : (RewriteMore.reassocResolve t' (initialContext context).length (st0 context)).map
        RewriteMore.resView =
      (RewriteMore.reassocResolve t (initialContext context).length (st0 context)).map
        RewriteMore.resView) :
    outE (parseModel toks' context) = outE (parseModel toks context) := by
  rw [parseModel_sentence h' context, parseModel_sentence h context,
    finishParse_clean toks' context t' (ce_segT h'), finishParse_clean toks context t (ce_segT h)]
  unfold RewriteMore.reassocResolve at hr
  cases e' : RewriteMore.reassocAll t' with
  | none =>
    rw [e'] at hr
    cases e : RewriteMore.reassocAll t with
    | none => rfl
    | some u =>
      rw [e] at hr
      simp only at hr ⊢
      cases e2 : resolve u (initialContext context).length (st0 context) with
      | none => rw [finishResolved_none e2]
      | some _ => rw [e2] at hr; cases hr
  | some u' =>
    rw [e'] at hr
    cases e : RewriteMore.reassocAll t with
    | none =>
      rw [e] at hr
      simp only at hr ⊢
      cases e2 : resolve u' (initialContext context).length (st0 context) with
      | none => rw [finishResolved_none e2]
      | some _ => rw [e2] at hr; cases hr
    | some u =>
      rw [e] at hr
      exact finishResolved_resView context hr

end Reduction

/-- the token array with the segment `[a, b)` put in parentheses (two more tokens) -/
def spliceParens (toks : Array PTok) (a b : Nat) (lp rp : PTok) : Array PTok :=
  toks.extract 0 a ++ #[lp] ++ toks.extract a b ++ #[rp] ++ toks.extract b toks.size

/-! ## Parentheses around an ARGUMENT that is an atom (the applications pass)

`RewriteMore.paren_operand` (`C19_paren_operand`) covers the two binary-operator families; this is the
same statement for the `Application` arm of `reassociate_applications`: `f x` against `f (x)`. -/

section Argument
open RewriteMore

def appNF (acc : Option (Src × Link)) (g : Bool) (f' a : Src) : Src :=
  match acc, g with
  | none, _ => .mk ⟨0, 0⟩ false (.app (strip f') (strip a)) []
  | some (ac, l), true =>
      .mk ⟨0, 0⟩ false (l.build (strip ac) (.mk ⟨0, 0⟩ false (.app (strip f') (strip a)) [])) []
  | some (ac, l), false =>
      .mk ⟨0, 0⟩ false (.app (.mk ⟨0, 0⟩ false (l.build (strip ac) (strip f')) []) (strip a)) []

theorem build_app (a b : Src) : Link.app.build a b = .app a b := rfl

theorem reassoc_app_norm (acc : Option (Src × Link)) (r : SourceRange) (g : Bool)
    (f a : Src) (es : List PErr) (ha : Kept .applications a) (hf : Opaque .applications f) :
    (reassoc .applications acc (.mk r g (.app f a) es)).map strip =
      (reassoc .applications none f).map (fun f' => appNF acc g f' a) := by
  rw [reassoc]
  simp only [if_true]
  have ha' : ∀ acc, reassoc .applications acc a = some (reassocTail acc a) := ha
  simp only [ha']
  cases acc with
  | none =>
    simp only [Option.isSome, Bool.false_and, Bool.false_eq_true, if_false]
    cases reassoc .applications none f with
    | none => simp
    | some f' =>
      by_cases hg : a.group = true <;> simp [hg, reassocTail, strip, stripV, appNF, build_app]
  | some p =>
    obtain ⟨ac, l⟩ := p
    have hf' := hf (some (ac, l))
    dsimp only
    cases g with
    | true =>
      simp only [Option.isSome, Bool.and_self, if_true]
      cases reassoc .applications none f with
      | none => simp
      | some f' =>
        by_cases hg : a.group = true <;>
          simp [hg, reassocTail, strip, stripV, appNF, stripV_build, build_app]
    | false =>
      simp only [Bool.and_false, Bool.false_eq_true, if_false, hf']
      cases reassoc .applications none f with
      | none => simp
      | some f' =>
        by_cases hg : a.group = true <;>
          simp [hg, reassocTail, strip, stripV, appNF, stripV_build, build_app]

/-- **Parentheses around an argument**: in an application node met by the applications pass with any
accumulator and any `group` flag, an argument the pass keeps as it is (an atom, whatever its `group`
flag) may be replaced by one that differs only in ranges and `group` flag (the atom in parentheses):
the result is the same up to ranges, `group` flags and error lists, provided the applicand is opaque
to the pass (an atom or a parenthesised application — what the grammar allows there). -/
theorem paren_argument (acc : Option (Src × Link)) (r : SourceRange) (g : Bool)
    (f a a' : Src) (es : List PErr) (ha : Kept .applications a) (ha' : Kept .applications a')
    (hs : strip a' = strip a) (hf : Opaque .applications f) :
    (reassoc .applications acc (.mk r g (.app f a') es)).map strip =
      (reassoc .applications acc (.mk r g (.app f a) es)).map strip := by
  rw [reassoc_app_norm acc r g f a' es ha' hf, reassoc_app_norm acc r g f a es ha hf]
  congr 1
  funext f'
  cases acc with
  | none => simp only [appNF, hs]
  | some p => obtain ⟨ac, l⟩ := p; cases g <;> simp only [appNF, hs]

/-- a parenthesised application is opaque to the applications pass -/
theorem opaque_grouped_app (r : SourceRange) (f a : Src) (es : List PErr) :
    Opaque .applications (.mk r true (.app f a) es) := by
  intro acc
  cases acc with
  | none => cases reassoc .applications none (.mk r true (.app f a) es) <;> rfl
  | some p =>
    obtain ⟨ac, l⟩ := p
    rw [reassoc, reassoc]
    simp only [if_true, Option.isSome, Bool.and_self]
    simp only [Bool.false_and, Bool.false_eq_true, if_false]
    generalize (if a.group = true then _ else _ : Option Src) = X
    cases X <;> rfl

end Argument

/-! ## Parentheses around an operand / argument that is ANY term opaque to the pass

Generalises `RewriteMore.paren_operand` / `paren_argument` from atoms to every operand the pass does
not enter with its accumulator: atoms, nodes outside the family (`opaque_nonfam`), parenthesised
chains.  E.g. `a + f x` against `a + (f x)` in the sums pass, `f (g x)` against `f ((g x))`. -/

section OpaqueOperand
open RewriteMore

/-- is the node a link of the family's chains? -/
def famNode (fam : Family) : SrcV → Bool
  | .app _ _ => decide (fam = .applications)
  | .bin o _ _ => decide ((fam = .productsAndQuotients ∧ (o = .prod ∨ o = .quot))
      ∨ (fam = .sumsAndDifferences ∧ (o = .sum ∨ o = .diff)))
  | _ => false

/-- every node outside the family is opaque to the pass, whatever its `group` flag -/
theorem opaque_nonfam (fam : Family) (r : SourceRange) (g : Bool) (v : SrcV) (es : List PErr)
    (h : famNode fam v = false) : Opaque fam (.mk r g v es) := by
  intro acc
  cases v
  case app f a =>
    simp only [famNode, decide_eq_false_iff_not] at h
    rw [reassoc, reassoc]
    simp only [h, if_false]
    cases reassoc fam none f <;> cases reassoc fam none a <;> rfl
  case bin o a b =>
    simp only [famNode, decide_eq_false_iff_not] at h
    rw [reassoc, reassoc]
    simp only [h, if_false]
    cases reassoc fam none a <;> cases reassoc fam none b <;> rfl
  case lam x imp dom body =>
    rw [reassoc, reassoc]
    cases reassocOpt fam dom <;> cases reassoc fam none body <;> rfl
  case pi x imp dom cod =>
    rw [reassoc, reassoc]
    cases reassoc fam none dom <;> cases reassoc fam none cod <;> rfl
  case let_ x ann d b =>
    rw [reassoc, reassoc]
    cases reassocOpt fam ann <;> cases reassoc fam none d <;> cases reassoc fam none b <;> rfl
  case neg a =>
    rw [reassoc, reassoc]
    cases reassoc fam none a <;> rfl
  case ite c a b =>
    rw [reassoc, reassoc]
    cases reassoc fam none c <;> cases reassoc fam none a <;> cases reassoc fam none b <;> rfl
  all_goals (rw [reassoc, reassoc]; rfl)

theorem reassoc_bin_norm' (fam : Family) (acc : Option (Src × Link)) (r : SourceRange) (g : Bool)
    (o : BinOp) (a b : Src) (es : List PErr)
    (ho : (fam = .productsAndQuotients ∧ (o = .prod ∨ o = .quot))
        ∨ (fam = .sumsAndDifferences ∧ (o = .sum ∨ o = .diff)))
    (hb : Opaque fam b) (ha : Opaque fam a) :
    (reassoc fam acc (.mk r g (.bin o a b) es)).map strip =
      (reassoc fam none a).bind (fun a' => (reassoc fam none b).map (fun b' => binNF o acc g a' b')) := by
  rw [reassoc]
  simp only [ho, if_true]
  have hb' : ∀ p, reassoc fam (some p) b = (reassoc fam none b).map (reassocTail (some p)) :=
    fun p => hb (some p)
  simp only [hb']
  cases acc with
  | none =>
    simp only [Option.isSome, Bool.false_and, Bool.false_eq_true, if_false]
    cases reassoc fam none a with
    | none => simp
    | some a' =>
      cases reassoc fam none b with
      | none => by_cases hg : b.group = true <;> simp [hg]
      | some b' =>
        by_cases hg : b.group = true <;> simp [hg, reassocTail, strip, stripV, binNF, build_op]
  | some p =>
    obtain ⟨ac, l⟩ := p
    have ha' := ha (some (ac, l))
    dsimp only
    cases g with
    | true =>
      simp only [Option.isSome, Bool.and_self, if_true]
      cases reassoc fam none a with
      | none => simp
      | some a' =>
        cases reassoc fam none b with
        | none => by_cases hg : b.group = true <;> simp [hg]
        | some b' =>
          by_cases hg : b.group = true <;>
            simp [hg, reassocTail, strip, stripV, binNF, stripV_build, build_op]
    | false =>
      simp only [Bool.and_false, Bool.false_eq_true, if_false, ha']
      cases reassoc fam none a with
      | none => simp
      | some a' =>
        cases reassoc fam none b with
        | none => by_cases hg : b.group = true <;> simp [hg]
        | some b' =>
          by_cases hg : b.group = true <;>
            simp [hg, reassocTail, strip, stripV, binNF, stripV_build, build_op]

/-- **Parentheses around any opaque operand**: the right operand `b` of a chain node of the family
may be replaced by any `b'` that is opaque too and that the pass takes to the same result up to
ranges / flags / error lists — whatever the accumulator and the `group` flags. -/
theorem paren_operand_opaque (fam : Family) (acc : Option (Src × Link)) (r : SourceRange) (g : Bool)
    (o : BinOp) (a b b' : Src) (es : List PErr)
    (ho : (fam = .productsAndQuotients ∧ (o = .prod ∨ o = .quot))
        ∨ (fam = .sumsAndDifferences ∧ (o = .sum ∨ o = .diff)))
    (hb : Opaque fam b) (hb' : Opaque fam b')
    (hs : (reassoc fam none b').map strip = (reassoc fam none b).map strip) (ha : Opaque fam a) :
    (reassoc fam acc (.mk r g (.bin o a b') es)).map strip =
      (reassoc fam acc (.mk r g (.bin o a b) es)).map strip := by
  rw [reassoc_bin_norm' fam acc r g o a b' es ho hb' ha, reassoc_bin_norm' fam acc r g o a b es ho hb ha]
  congr 1
  funext a'
  cases e' : reassoc fam none b' with
  | none =>
    rw [e'] at hs
    cases e : reassoc fam none b with
    | none => rfl
    | some _ => rw [e] at hs; cases hs
  | some x' =>
    rw [e'] at hs
    cases e : reassoc fam none b with
    | none => rw [e] at hs; cases hs
    | some x =>
      rw [e] at hs
      simp only [Option.map_some, Option.some.injEq] at hs ⊢
      cases acc with
      | none => simp only [binNF, hs]
      | some p => obtain ⟨ac, l⟩ := p; cases g <;> simp only [binNF, hs]

end OpaqueOperand

end ParenTokens
