import GramModel.Typing
import GramModel.Lemmas.Whnf
import GramModel.Lemmas.Oracle
import GramModel.Lemmas.Fuel

/-!
# Soundness of the independent checker (`Oracle.lean`) for the declarative rules (`Typing.lean`)

* `whnfX_conv` — the normalizer rewrites a term into a convertible one (and keeps it hole-free);
* `convX_sound` — a positive answer of `convX` on hole-free terms is a `Conv` derivation;
* `inferX_sound` / `inferDefsX_sound` — an accepted hole-free term has the computed type;
* `oracleAccepts_sound`.
-/

namespace TypingSound
open WhnfLemmas

/-- every type in the typing context is hole-free (the unfolded form of `TCtxX.holeFree`) -/
def THF (Γ : TCtxX) : Prop := ∀ e ∈ Γ, e.1.holeFree = true

theorem DHF_nil : DHF [] := fun e he => by cases he
theorem THF_nil : THF [] := fun e he => by cases he

theorem DHF_none {Δ : DCtxX} (h : DHF Δ) : DHF (none :: Δ) := by
  intro e he d o heq
  rcases List.mem_cons.1 he with rfl | he
  · cases heq
  · exact h e he d o heq

theorem DHF_some {Δ : DCtxX} {d : Tm} {k : Nat} (hd : d.holeFree = true) (h : DHF Δ) :
    DHF (some (d, k) :: Δ) := by
  intro e he d' o heq
  rcases List.mem_cons.1 he with rfl | he
  · cases heq; exact hd
  · exact h e he d' o heq

theorem THF_cons {Γ : TCtxX} {d : Tm} {k : Nat} (hd : d.holeFree = true) (h : THF Γ) :
    THF ((d, k) :: Γ) := by
  intro e he
  rcases List.mem_cons.1 he with rfl | he
  · exact hd
  · exact h e he

/-! ## the normalizer -/

theorem letAllX_conv (Δ : DCtxX) : ∀ (n : Nat) (ds : Defs) (body b : Tm),
    letAllX n ds body = some b → Conv Δ (.letg ds body) b
  | 0, _, _, _, h => by simp [letAllX] at h
  | _+1, .nil, body, b, h => by
      simp only [letAllX] at h
      cases h
      exact .red (.letNil _)
  | n+1, .cons x a d rest, body, b, h => by
      simp only [letAllX] at h
      exact .trans (.red (.letStep x a d rest body)) (letAllX_conv Δ n _ _ b h)

theorem letAllX_holeFree : ∀ (n : Nat) (ds : Defs) (body b : Tm),
    letAllX n ds body = some b → ds.holeFree = true → body.holeFree = true → b.holeFree = true
  | 0, _, _, _, h, _, _ => by simp [letAllX] at h
  | _+1, .nil, body, b, h, _, hb => by
      simp only [letAllX] at h
      cases h
      exact hb
  | n+1, .cons x a d rest, body, b, h, hds, hb => by
      simp only [letAllX] at h
      simp only [Defs.holeFree, Bool.and_eq_true] at hds
      have hu := unfoldDef_holeFree x a d rest.len hds.1.1 hds.1.2
      exact letAllX_holeFree n _ _ b h (openDefs_holeFree _ _ _ _ hds.2 hu)
        (openT_holeFree _ _ _ _ hb hu)

/-- the normalizer only rewrites a term into a convertible one, and preserves hole-freeness under a
hole-free definitions context -/
theorem whnfX_sound_aux : ∀ (f : Nat) (Δ : DCtxX) (t r : Tm), whnfX f Δ t = some r →
    Conv Δ t r ∧ (DHF Δ → t.holeFree = true → r.holeFree = true) := by
  intro f
  induction f with
  | zero => intro Δ t r h; simp [whnfX] at h
  | succ f ih =>
    intro Δ t r h
    unfold whnfX at h
    cases t <;> simp only at h <;> try (cases h; exact ⟨.refl _ _, fun _ h => h⟩)
    case var x i =>
      split at h
      · cases h
      · cases h; exact ⟨.refl _ _, fun _ h => h⟩
      · rename_i d off heq
        split at h
        · cases h
        · rename_i hlt
          obtain ⟨c, hh⟩ := ih _ _ _ h
          refine ⟨.trans (.red (.delta x i d off heq (by omega))) c, fun hD _ => hh hD ?_⟩
          rw [ushift_holeFree]; exact hD _ (List.mem_of_getElem? heq) d off rfl
    case app g a =>
      revert h
      cases hg : whnfX f Δ g with
      | none => intro h; cases h
      | some g' =>
        obtain ⟨cg, hfg⟩ := ih _ _ _ hg
        cases g' with
        | lam x im d body =>
          simp only
          intro h
          obtain ⟨c, hh⟩ := ih _ _ _ h
          refine ⟨.trans (.app cg (.refl _ _)) (.trans (.red (.beta x im d body a)) c),
            fun hD ht => hh hD ?_⟩
          simp only [Tm.holeFree, Bool.and_eq_true] at ht
          have := hfg hD ht.1
          simp only [Tm.holeFree, Bool.and_eq_true] at this
          exact openT_holeFree _ _ _ _ this.2 ht.2
        | _ =>
          simp only
          intro h
          cases h
          refine ⟨.app cg (.refl _ _), fun hD ht => ?_⟩
          simp only [Tm.holeFree, Bool.and_eq_true] at ht
          have h1 := hfg hD ht.1
          simp only [Tm.holeFree, Bool.and_eq_true] at h1 ⊢
          exact ⟨h1, ht.2⟩
    case letg ds b =>
      revert h
      cases hg : letAllX (f+1) ds b with
      | none => intro h; cases h
      | some b' =>
        simp only
        intro h
        obtain ⟨c, hh⟩ := ih _ _ _ h
        refine ⟨.trans (letAllX_conv Δ _ _ _ _ hg) c, fun hD ht => hh hD ?_⟩
        simp only [Tm.holeFree, Bool.and_eq_true] at ht
        exact letAllX_holeFree _ _ _ _ hg ht.1 ht.2
    case neg a =>
      revert h
      cases hg : whnfX f Δ a with
      | none => intro h; cases h
      | some a' =>
        obtain ⟨ca, hfa⟩ := ih _ _ _ hg
        cases a' with
        | lit n =>
          simp only
          intro h
          cases h
          exact ⟨.trans (.neg ca) (.red (.neg n)), fun _ _ => rfl⟩
        | _ =>
          simp only
          intro h
          cases h
          refine ⟨.neg ca, fun hD ht => ?_⟩
          simp only [Tm.holeFree] at ht
          have h1 := hfa hD ht
          simp only [Tm.holeFree, Bool.and_eq_true] at h1 ⊢
          all_goals exact h1
    case bin op a b =>
      revert h
      cases ha : whnfX f Δ a with
      | none => simp
      | some a' =>
        cases hb : whnfX f Δ b with
        | none => simp
        | some b' =>
          obtain ⟨ca, hfa⟩ := ih _ _ _ ha
          obtain ⟨cb, hfb⟩ := ih _ _ _ hb
          have hbin : DHF Δ → (Tm.bin op a b).holeFree = true → (Tm.bin op a' b').holeFree = true := by
            intro hD ht
            simp only [Tm.holeFree, Bool.and_eq_true] at ht ⊢
            exact ⟨hfa hD ht.1, hfb hD ht.2⟩
          intro h
          split at h
          · rename_i x y e1 e2
            cases e1; cases e2
            split at h
            · rename_i rr hdl
              cases h
              exact ⟨.trans (.bin op ca cb) (.red (.arith op x y _ hdl)),
                fun _ _ => delta_holeFree hdl⟩
            · cases h
              exact ⟨.bin op ca cb, hbin⟩
          · rename_i e1 e2
            cases e1; cases e2; cases h
            exact ⟨.bin op ca cb, hbin⟩
          · rename_i hn
            exact (hn _ _ rfl rfl).elim
    case ite c a b =>
      revert h
      cases hg : whnfX f Δ c with
      | none => intro h; cases h
      | some c' =>
        obtain ⟨cc, hfc⟩ := ih _ _ _ hg
        cases c' with
        | tt =>
          simp only
          intro h
          obtain ⟨c1, hh⟩ := ih _ _ _ h
          refine ⟨.trans (.ite cc (.refl _ _) (.refl _ _)) (.trans (.red (.iteTrue a b)) c1),
            fun hD ht => hh hD ?_⟩
          simp only [Tm.holeFree, Bool.and_eq_true] at ht
          exact ht.1.2
        | ff =>
          simp only
          intro h
          obtain ⟨c1, hh⟩ := ih _ _ _ h
          refine ⟨.trans (.ite cc (.refl _ _) (.refl _ _)) (.trans (.red (.iteFalse a b)) c1),
            fun hD ht => hh hD ?_⟩
          simp only [Tm.holeFree, Bool.and_eq_true] at ht
          exact ht.2
        | _ =>
          simp only
          intro h
          cases h
          refine ⟨.ite cc (.refl _ _) (.refl _ _), fun hD ht => ?_⟩
          simp only [Tm.holeFree, Bool.and_eq_true] at ht
          have h1 := hfc hD ht.1.1
          simp only [Tm.holeFree, Bool.and_eq_true] at h1 ⊢
          exact ⟨⟨h1, ht.1.2⟩, ht.2⟩

theorem whnfX_conv {f : Nat} {Δ : DCtxX} {t r : Tm} (h : whnfX f Δ t = some r) : Conv Δ t r :=
  (whnfX_sound_aux f Δ t r h).1

theorem whnfX_holeFree {f : Nat} {Δ : DCtxX} {t r : Tm} (h : whnfX f Δ t = some r) (hD : DHF Δ)
    (ht : t.holeFree = true) : r.holeFree = true :=
  (whnfX_sound_aux f Δ t r h).2 hD ht

/-! ## the conversion check -/

theorem convX_sound : ∀ (f : Nat) (Δ : DCtxX) (a b : Tm), a.holeFree = true → b.holeFree = true →
    DHF Δ → convX f Δ a b = some true → Conv Δ a b := by
  intro f
  induction f with
  | zero => intro Δ a b _ _ _ h; simp [convX] at h
  | succ f ih =>
    intro Δ a b ha hb hD h
    unfold convX at h
    split at h
    · rename_i hs; exact .same hs
    · revert h
      cases hwa : whnfX f Δ a with
      | none => simp
      | some wa =>
        cases hwb : whnfX f Δ b with
        | none => simp
        | some wb =>
          have ca := whnfX_conv hwa
          have cb := whnfX_conv hwb
          have hfa := whnfX_holeFree hwa hD ha
          have hfb := whnfX_holeFree hwb hD hb
          intro h
          refine .trans ca (.trans ?_ (.symm cb))
          clear ca cb hwa hwb ha hb
          simp only at h
          split at h
          · cases hfa
          · cases hfb
          · exact .refl _ _
          · exact .refl _ _
          · exact .refl _ _
          · exact .refl _ _
          · exact .refl _ _
          · simp only [Option.some.injEq, beq_iff_eq] at h
            subst h; exact .refl _ _
          · simp only [Option.some.injEq, beq_iff_eq] at h
            subst h; exact .same (by simp [sameX])
          · -- lam
            split at h
            · rename_i him
              have := eq_of_beq him; subst this
              simp only [Tm.holeFree, Bool.and_eq_true] at hfa hfb
              exact .lam _ _ _ _ _ (ih _ _ _ hfa.2 hfb.2 (DHF_none hD) h)
            · cases h
          · -- pi
            split at h
            · rename_i him
              have := eq_of_beq him; subst this
              simp only [Tm.holeFree, Bool.and_eq_true] at hfa hfb
              revert h
              cases h1 : convX f Δ _ _ with
              | none => intro h; cases h
              | some v =>
                cases v <;> simp only <;> intro h
                · cases h
                · exact .pi _ _ _ (ih _ _ _ hfa.1 hfb.1 hD h1) (ih _ _ _ hfa.2 hfb.2 (DHF_none hD) h)
            · cases h
          · -- app
            simp only [Tm.holeFree, Bool.and_eq_true] at hfa hfb
            revert h
            cases h1 : convX f Δ _ _ with
            | none => intro h; cases h
            | some v =>
              cases v <;> simp only <;> intro h
              · cases h
              · exact .app (ih _ _ _ hfa.1 hfb.1 hD h1) (ih _ _ _ hfa.2 hfb.2 hD h)
          · -- neg
            simp only [Tm.holeFree] at hfa hfb
            exact .neg (ih _ _ _ hfa hfb hD h)
          · -- bin
            split at h
            · rename_i hop
              have := eq_of_beq hop; subst this
              simp only [Tm.holeFree, Bool.and_eq_true] at hfa hfb
              revert h
              cases h1 : convX f Δ _ _ with
              | none => intro h; cases h
              | some v =>
                cases v <;> simp only <;> intro h
                · cases h
                · exact .bin _ (ih _ _ _ hfa.1 hfb.1 hD h1) (ih _ _ _ hfa.2 hfb.2 hD h)
            · cases h
          · -- ite
            simp only [Tm.holeFree, Bool.and_eq_true] at hfa hfb
            revert h
            cases h1 : convX f Δ _ _ with
            | none => intro h; cases h
            | some v =>
              cases v <;> simp only <;> intro h
              · cases h
              · revert h
                cases h2 : convX f Δ _ _ with
                | none => intro h; cases h
                | some v =>
                  cases v <;> simp only <;> intro h
                  · cases h
                  · exact .ite (ih _ _ _ hfa.1.1 hfb.1.1 hD h1) (ih _ _ _ hfa.1.2 hfb.1.2 hD h2)
                      (ih _ _ _ hfa.2 hfb.2 hD h)
          · cases h

/-! ## the type checker -/

theorem pushGroupX_go_HF : ∀ (ds : Defs) (k : Nat) (Γ : TCtxX) (Δ : DCtxX), ds.holeFree = true →
    THF Γ → DHF Δ → THF (pushGroupX.go ds k (Γ, Δ)).1 ∧ DHF (pushGroupX.go ds k (Γ, Δ)).2
  | .nil, _, _, _, _, hΓ, hD => by simp only [pushGroupX.go]; exact ⟨hΓ, hD⟩
  | .cons x a d r, k, Γ, Δ, h, hΓ, hD => by
      simp only [pushGroupX.go]
      simp only [Defs.holeFree, Bool.and_eq_true] at h
      exact pushGroupX_go_HF r (k - 1) _ _ h.2 (THF_cons h.1.1 hΓ) (DHF_some h.1.2 hD)

theorem pushGroupX_HF (ds : Defs) (n : Nat) (Γ : TCtxX) (Δ : DCtxX) (h : ds.holeFree = true)
    (hΓ : THF Γ) (hD : DHF Δ) :
    THF (pushGroupX ds n (Γ, Δ)).1 ∧ DHF (pushGroupX ds n (Γ, Δ)).2 := by
  unfold pushGroupX
  exact pushGroupX_go_HF ds _ Γ Δ h hΓ hD

theorem isTypeX_ok {f : Nat} {Δ : DCtxX} {ty : Tm} {u : Unit} (h : isTypeX f Δ ty = .ok u) :
    convX f Δ ty .type = some true := by
  unfold isTypeX at h
  split at h <;> first | assumption | cases h

theorem expectX_ok {f : Nat} {Δ : DCtxX} {a b : Tm} {e : XErr} {u : Unit}
    (h : expectX f Δ a b e = .ok u) : convX f Δ a b = some true := by
  unfold expectX at h
  split at h <;> first | assumption | cases h

theorem inferX_sound_aux : ∀ (f : Nat),
    (∀ (Γ : TCtxX) (Δ : DCtxX) (t T : Tm), t.holeFree = true → THF Γ → DHF Δ →
      inferX f Γ Δ t = .ok T → HasType Γ Δ t T ∧ T.holeFree = true) ∧
    (∀ (Γ : TCtxX) (Δ : DCtxX) (ds : Defs), ds.holeFree = true → THF Γ → DHF Δ →
      inferDefsX f Γ Δ ds = .ok () → DefsOK Γ Δ ds) := by
  intro f
  induction f with
  | zero =>
    exact ⟨fun _ _ _ _ _ _ _ h => by simp [inferX] at h, fun _ _ _ _ _ _ h => by simp [inferDefsX] at h⟩
  | succ f ih =>
    obtain ⟨ih1, ih2⟩ := ih
    constructor
    · intro Γ Δ t T ht hΓ hD h
      unfold inferX at h
      cases t <;> simp only at h
      case hole => cases ht
      case type => cases h; exact ⟨.type _ _, rfl⟩
      case int => cases h; exact ⟨.int _ _, rfl⟩
      case bool => cases h; exact ⟨.bool _ _, rfl⟩
      case tt => cases h; exact ⟨.tt _ _, rfl⟩
      case ff => cases h; exact ⟨.ff _ _, rfl⟩
      case lit n => cases h; exact ⟨.lit _ _ n, rfl⟩
      case var x i =>
        split at h
        · cases h
        · rename_i ty off heq
          split at h
          · cases h
          · cases h
            refine ⟨.var Δ x i ty off heq (by omega), ?_⟩
            rw [ushift_holeFree]
            exact hΓ _ (List.mem_of_getElem? heq)
      case lam x im d b =>
        simp only [Tm.holeFree, Bool.and_eq_true] at ht
        split at h
        · cases h
        · rename_i dty h1
          split at h
          · cases h
          · rename_i h2
            split at h
            · cases h
            · rename_i cod h3
              cases h
              obtain ⟨td, hdty⟩ := ih1 _ _ _ _ ht.1 hΓ hD h1
              have cd := convX_sound _ _ _ _ hdty rfl hD (isTypeX_ok h2)
              obtain ⟨tb, hcod⟩ := ih1 _ _ _ _ ht.2 (THF_cons ht.1 hΓ) (DHF_none hD) h3
              refine ⟨.lam x im (.conv td cd) tb, ?_⟩
              simp only [Tm.holeFree, Bool.and_eq_true]
              exact ⟨ht.1, hcod⟩
      case pi x im d c =>
        simp only [Tm.holeFree, Bool.and_eq_true] at ht
        split at h
        · cases h
        · rename_i dty h1
          split at h
          · cases h
          · rename_i h2
            split at h
            · cases h
            · rename_i cty h3
              split at h
              · cases h
              · rename_i h4
                cases h
                obtain ⟨td, hdty⟩ := ih1 _ _ _ _ ht.1 hΓ hD h1
                have cd := convX_sound _ _ _ _ hdty rfl hD (isTypeX_ok h2)
                obtain ⟨tc, hcty⟩ := ih1 _ _ _ _ ht.2 (THF_cons ht.1 hΓ) (DHF_none hD) h3
                have cc := convX_sound _ _ _ _ hcty rfl (DHF_none hD) (isTypeX_ok h4)
                exact ⟨.pi x im (.conv td cd) (.conv tc cc), rfl⟩
      case app g a =>
        simp only [Tm.holeFree, Bool.and_eq_true] at ht
        split at h
        · cases h
        · rename_i gty h1
          obtain ⟨tg, hgty⟩ := ih1 _ _ _ _ ht.1 hΓ hD h1
          split at h
          · cases h
          · rename_i x im dom cod hw
            have cw := whnfX_conv hw
            have hpi := whnfX_holeFree hw hD hgty
            simp only [Tm.holeFree, Bool.and_eq_true] at hpi
            split at h
            · cases h
            · rename_i aty h2
              split at h
              · cases h
              · rename_i h3
                cases h
                obtain ⟨ta, haty⟩ := ih1 _ _ _ _ ht.2 hΓ hD h2
                have ca := convX_sound _ _ _ _ haty hpi.1 hD (expectX_ok h3)
                exact ⟨.app x im (.conv tg cw) (.conv ta ca), openT_holeFree _ _ _ _ hpi.2 ht.2⟩
          · rename_i id sh hw
            have hpi := whnfX_holeFree hw hD hgty
            cases hpi
          · cases h
      case letg ds body =>
        simp only [Tm.holeFree, Bool.and_eq_true] at ht
        obtain ⟨hΓ', hD'⟩ := pushGroupX_HF ds 0 Γ Δ ht.1 hΓ hD
        split at h
        · cases h
        · rename_i h1
          split at h
          · cases h
          · rename_i bty h2
            cases h
            obtain ⟨tb, hbty⟩ := ih1 _ _ _ _ ht.2 hΓ' hD' h2
            refine ⟨.letg (ih2 _ _ _ ht.1 hΓ' hD' h1) tb, ?_⟩
            simp only [Tm.holeFree, Bool.and_eq_true]
            exact ⟨ht.1, hbty⟩
      case neg a =>
        simp only [Tm.holeFree] at ht
        split at h
        · cases h
        · rename_i aty h1
          split at h
          · cases h
          · rename_i h2
            cases h
            obtain ⟨ta, haty⟩ := ih1 _ _ _ _ ht hΓ hD h1
            have ca := convX_sound _ _ _ _ haty rfl hD (expectX_ok h2)
            exact ⟨.neg (.conv ta ca), rfl⟩
      case bin op a b =>
        simp only [Tm.holeFree, Bool.and_eq_true] at ht
        split at h
        · cases h
        · rename_i aty h1
          split at h
          · cases h
          · rename_i h2
            split at h
            · cases h
            · rename_i bty h3
              split at h
              · cases h
              · rename_i h4
                cases h
                obtain ⟨ta, haty⟩ := ih1 _ _ _ _ ht.1 hΓ hD h1
                have ca := convX_sound _ _ _ _ haty rfl hD (expectX_ok h2)
                obtain ⟨tb, hbty⟩ := ih1 _ _ _ _ ht.2 hΓ hD h3
                have cb := convX_sound _ _ _ _ hbty rfl hD (expectX_ok h4)
                cases op <;> exact ⟨.bin _ (.conv ta ca) (.conv tb cb), rfl⟩
      case ite c a b =>
        simp only [Tm.holeFree, Bool.and_eq_true] at ht
        split at h
        · cases h
        · rename_i cty h1
          split at h
          · cases h
          · rename_i h2
            split at h
            · cases h
            · rename_i aty h3
              split at h
              · cases h
              · rename_i bty h4
                split at h
                · cases h
                · rename_i h5
                  cases h
                  obtain ⟨tc, hcty⟩ := ih1 _ _ _ _ ht.1.1 hΓ hD h1
                  have cc := convX_sound _ _ _ _ hcty rfl hD (expectX_ok h2)
                  obtain ⟨ta, haty⟩ := ih1 _ _ _ _ ht.1.2 hΓ hD h3
                  obtain ⟨tb, hbty⟩ := ih1 _ _ _ _ ht.2 hΓ hD h4
                  have cab := convX_sound _ _ _ _ haty hbty hD (expectX_ok h5)
                  exact ⟨.ite (.conv tc cc) ta (.conv tb (.symm cab)), haty⟩
    · intro Γ Δ ds hds hΓ hD h
      unfold inferDefsX at h
      cases ds <;> simp only at h
      case nil => exact .nil _ _
      case cons x ann d r =>
        simp only [Defs.holeFree, Bool.and_eq_true] at hds
        split at h
        · cases h
        · rename_i annTy h1
          split at h
          · cases h
          · rename_i h2
            split at h
            · cases h
            · rename_i dty h3
              split at h
              · cases h
              · rename_i h4
                obtain ⟨tann, hannTy⟩ := ih1 _ _ _ _ hds.1.1 hΓ hD h1
                have cann := convX_sound _ _ _ _ hannTy rfl hD (isTypeX_ok h2)
                obtain ⟨td, hdty⟩ := ih1 _ _ _ _ hds.1.2 hΓ hD h3
                have cd := convX_sound _ _ _ _ hdty hds.1.1 hD (expectX_ok h4)
                exact .cons x (.conv tann cann) (.conv td cd) (ih2 _ _ _ hds.2 hΓ hD h)

theorem inferX_sound {f : Nat} {Γ : TCtxX} {Δ : DCtxX} {t T : Tm} (ht : t.holeFree = true)
    (hΓ : THF Γ) (hD : DHF Δ) (h : inferX f Γ Δ t = .ok T) : HasType Γ Δ t T :=
  ((inferX_sound_aux f).1 Γ Δ t T ht hΓ hD h).1

theorem inferX_type_holeFree {f : Nat} {Γ : TCtxX} {Δ : DCtxX} {t T : Tm} (ht : t.holeFree = true)
    (hΓ : THF Γ) (hD : DHF Δ) (h : inferX f Γ Δ t = .ok T) : T.holeFree = true :=
  ((inferX_sound_aux f).1 Γ Δ t T ht hΓ hD h).2

theorem inferDefsX_sound {f : Nat} {Γ : TCtxX} {Δ : DCtxX} {ds : Defs} (hds : ds.holeFree = true)
    (hΓ : THF Γ) (hD : DHF Δ) (h : inferDefsX f Γ Δ ds = .ok ()) : DefsOK Γ Δ ds :=
  (inferX_sound_aux f).2 Γ Δ ds hds hΓ hD h

theorem oracleAccepts_sound {fuel : Nat} {e ty : Tm} (he : e.holeFree = true)
    (hty : ty.holeFree = true) (h : oracleAccepts fuel e ty = .ok true) : HasType [] [] e ty := by
  unfold oracleAccepts at h
  split at h
  · cases h
  · rename_i T h1
    split at h
    · rename_i b h2
      cases h
      exact .conv (inferX_sound he THF_nil DHF_nil h1)
        (convX_sound _ _ _ _ (inferX_type_holeFree he THF_nil DHF_nil h1) hty DHF_nil h2)
    · cases h

end TypingSound
