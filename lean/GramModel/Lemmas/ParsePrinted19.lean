import GramModel.Lemmas.ParsePrinted18
import GramModel.Props.C08

/-! # Stage B (without definition groups): name resolution of the tree of a printed term -/

namespace PModel
open RewriteMore PrintDerives

/-- the term has no definition group -/
def noLet : Tm → Bool
  | .lam _ _ d b => noLet d && noLet b
  | .pi _ _ d c => noLet d && noLet c
  | .app f a => noLet f && noLet a
  | .letg _ _ => false
  | .neg a => noLet a
  | .bin _ a b => noLet a && noLet b
  | .ite c a b => noLet c && noLet a && noLet b
  | _ => true

/-- no name (other than the placeholder slots) occurs twice in the scope -/
def ScopeOK : List Name → Prop
  | [] => True
  | y :: ys => (y = placeholder ∨ y ∉ ys) ∧ ScopeOK ys

theorem slot_eq_some {y x : Name} : slot y = some x ↔ (y = x ∧ y ≠ placeholder) := by
  unfold slot; split <;> simp_all

theorem index_scope : ∀ (scope : List Name), ScopeOK scope → ∀ (i : Nat) (x : Name),
    x ≠ placeholder → scope[i]? = some x → Stack.index (scope.map slot) x = some i
  | [], _, i, x, _, h => by simp at h
  | y :: ys, hok, 0, x, hx, h => by
    simp at h; subst h
    rw [List.map_cons, Stack.index_cons, if_pos (slot_eq_some.mpr ⟨rfl, hx⟩)]
  | y :: ys, hok, i + 1, x, hx, h => by
    simp at h
    have hmem : x ∈ ys := List.mem_of_getElem? h
    have hne : ¬ slot y = some x := by
      intro e
      obtain ⟨rfl, hy⟩ := slot_eq_some.mp e
      rcases hok.1 with h1 | h1
      · exact hy h1
      · exact h1 hmem
    rw [List.map_cons, Stack.index_cons, if_neg hne, index_scope ys hok.2 i x hx h]
    rfl

theorem index_none : ∀ (scope : List Name) (x : Name), x ∉ scope →
    Stack.index (scope.map slot) x = none
  | [], x, _ => by simp [Stack.index]
  | y :: ys, x, h => by
    have hne : ¬ slot y = some x := by
      intro e
      obtain ⟨rfl, _⟩ := slot_eq_some.mp e
      exact h (by simp)
    rw [List.map_cons, Stack.index_cons, if_neg hne, index_none ys x (fun hm => h (by simp [hm]))]
    rfl

theorem scopeOK_of_nodup : ∀ l : List Name, l.Nodup → ScopeOK l
  | [], _ => trivial
  | y :: ys, h => by
    rw [List.nodup_cons] at h
    exact ⟨Or.inr h.1, scopeOK_of_nodup ys h.2⟩

mutual
theorem ehi : ∀ u : Tm, (eraseHoleIds u).holeFree = true → eraseHoleIds u = u
  | .hole _ _, h => by simp [eraseHoleIds, Tm.holeFree] at h
  | .type, _ | .int, _ | .bool, _ | .tt, _ | .ff, _ | .lit _, _ | .var _ _, _ => by
    simp [eraseHoleIds]
  | .lam x im d b, h => by
    simp only [eraseHoleIds, Tm.holeFree, Bool.and_eq_true] at h ⊢
    rw [ehi d h.1, ehi b h.2]
  | .pi x im d b, h => by
    simp only [eraseHoleIds, Tm.holeFree, Bool.and_eq_true] at h ⊢
    rw [ehi d h.1, ehi b h.2]
  | .app f a, h => by
    simp only [eraseHoleIds, Tm.holeFree, Bool.and_eq_true] at h ⊢
    rw [ehi f h.1, ehi a h.2]
  | .letg ds b, h => by
    simp only [eraseHoleIds, Tm.holeFree, Bool.and_eq_true] at h ⊢
    rw [ehiDefs ds h.1, ehi b h.2]
  | .neg a, h => by
    simp only [eraseHoleIds, Tm.holeFree] at h ⊢
    rw [ehi a h]
  | .bin op a b, h => by
    simp only [eraseHoleIds, Tm.holeFree, Bool.and_eq_true] at h ⊢
    rw [ehi a h.1, ehi b h.2]
  | .ite c a b, h => by
    simp only [eraseHoleIds, Tm.holeFree, Bool.and_eq_true] at h ⊢
    rw [ehi c h.1.1, ehi a h.1.2, ehi b h.2]
theorem ehiDefs : ∀ ds : Defs, (eraseHoleIdsDefs ds).holeFree = true → eraseHoleIdsDefs ds = ds
  | .nil, _ => by simp [eraseHoleIdsDefs]
  | .cons x a d r, h => by
    simp only [eraseHoleIdsDefs, Defs.holeFree, Bool.and_eq_true] at h ⊢
    rw [ehi a h.1.1, ehi d h.1.2, ehiDefs r h.2]
end

section
variable (I : List Char → Name) (nm : Name → List Char) (hI : ∀ x, I (nm x) = x)
include hI

/-- **The specification `toDB` on the tree of a printed term** (no definition group): any tree that is
`lsrc I nm t` up to ranges, flags and errors resolves, on the stack of the scope, to `canon t`. -/
theorem toDB_lsrc : ∀ (t : Tm) (scope : List Name) (s : Src), noLet t = true →
    scopedOK scope t = true → ScopeOK scope → strip s = lsrc I nm t →
    toDB (scope.map slot) s = some (canon t) ∧ (canon t).holeFree = true
  | .hole _ _, _, _, _, h, _, _ => by simp [scopedOK] at h
  | .type, _, ⟨r, g, v, es⟩, _, _, _, h => by
    rw [lsrc] at h; cases v <;> simp [strip, stripV, mk00] at h
    simp [toDB, toDBV, canon, Tm.holeFree]
  | .int, _, ⟨r, g, v, es⟩, _, _, _, h => by
    rw [lsrc] at h; cases v <;> simp [strip, stripV, mk00] at h
    simp [toDB, toDBV, canon, Tm.holeFree]
  | .bool, _, ⟨r, g, v, es⟩, _, _, _, h => by
    rw [lsrc] at h; cases v <;> simp [strip, stripV, mk00] at h
    simp [toDB, toDBV, canon, Tm.holeFree]
  | .tt, _, ⟨r, g, v, es⟩, _, _, _, h => by
    rw [lsrc] at h; cases v <;> simp [strip, stripV, mk00] at h
    simp [toDB, toDBV, canon, Tm.holeFree]
  | .ff, _, ⟨r, g, v, es⟩, _, _, _, h => by
    rw [lsrc] at h; cases v <;> simp [strip, stripV, mk00] at h
    simp [toDB, toDBV, canon, Tm.holeFree]
  | .lit n, _, ⟨r, g, v, es⟩, _, _, _, h => by
    rw [lsrc] at h; cases v <;> simp [strip, stripV, mk00] at h
    subst h
    simp [toDB, toDBV, canon, Tm.holeFree]
  | .var x i, scope, ⟨r, g, v, es⟩, _, hsc, hok, h => by
    rw [lsrc, hI] at h; cases v <;> simp [strip, stripV, mk00] at h
    subst h
    simp only [scopedOK, Bool.and_eq_true, bne_iff_ne, ne_eq, beq_iff_eq] at hsc
    have := index_scope scope hok i _ hsc.1 hsc.2
    simp [toDB, toDBV, hsc.1, this, canon, Tm.holeFree]
  | .lam x imp d b, scope, ⟨r, g, v, es⟩, hn, hsc, hok, h => by
    rw [lsrc, hI] at h; cases v <;> simp [strip, stripV, mk00] at h
    rename_i v' imp' dom body
    obtain ⟨hv, rfl, hd, hb⟩ := h
    cases dom with
    | none => simp [stripO] at hd
    | some sd =>
      simp only [stripO, OptSrc.some.injEq] at hd
      simp only [noLet, Bool.and_eq_true] at hn
      simp only [scopedOK, Bool.and_eq_true, bne_iff_ne, ne_eq, Bool.not_eq_true',
        List.contains_eq_mem, decide_eq_false_iff_not] at hsc
      obtain ⟨⟨⟨hx, hnotin⟩, hsd⟩, hsb⟩ := hsc
      have ihd := toDB_lsrc d scope sd hn.1 hsd hok hd
      have ihb := toDB_lsrc b (x :: scope) body hn.2 hsb ⟨Or.inr hnotin, hok⟩ hb
      have hbind : Stack.bind (scope.map slot) v'.name = some (some x :: scope.map slot) := by
        rw [hv, Stack.bind_eq, index_none scope x hnotin]
        simp [slot, hx]
      have hsl : (x :: scope).map slot = some x :: scope.map slot := by
        simp [slot, hx]
      rw [hsl] at ihb
      rw [hv] at hbind
      simp [toDB, toDBV, toDBOpt, hbind, hv, canon, Tm.holeFree] at ihd ihb ⊢
      simp [ihd, ihb]
  | .pi x imp d c, scope, ⟨r, g, v, es⟩, hn, hsc, hok, h => by
    simp only [noLet, Bool.and_eq_true] at hn
    cases hf : freeAt c 0 with
    | true =>
      rw [lsrc, hI] at h
      simp only [hf, if_true] at h
      cases v <;> simp [strip, stripV, mk00] at h
      rename_i v' imp' sd body
      obtain ⟨hv, rfl, hd, hb⟩ := h
      simp only [scopedOK, hf, if_true, Bool.and_eq_true, bne_iff_ne, ne_eq, Bool.not_eq_true',
        List.contains_eq_mem, decide_eq_false_iff_not] at hsc
      obtain ⟨⟨⟨hx, hnotin⟩, hsd⟩, hsb⟩ := hsc
      have ihd := toDB_lsrc d scope sd hn.1 hsd hok hd
      have ihb := toDB_lsrc c (x :: scope) body hn.2 hsb ⟨Or.inr hnotin, hok⟩ hb
      have hbind : Stack.bind (scope.map slot) v'.name = some (some x :: scope.map slot) := by
        rw [hv, Stack.bind_eq, index_none scope x hnotin]
        simp [slot, hx]
      have hsl : (x :: scope).map slot = some x :: scope.map slot := by
        simp [slot, hx]
      rw [hsl] at ihb
      rw [hv] at hbind
      simp [toDB, toDBV, hbind, hv, canon, hf, Tm.holeFree] at ihd ihb ⊢
      simp [ihd, ihb]
    | false =>
      rw [lsrc] at h
      simp only [hf, if_false, Bool.false_eq_true] at h
      cases v <;> simp [strip, stripV, mk00] at h
      rename_i v' imp' sd body
      obtain ⟨hv, rfl, hd, hb⟩ := h
      simp only [scopedOK, hf, if_false, Bool.false_eq_true, Bool.and_eq_true] at hsc
      obtain ⟨hsd, hsb⟩ := hsc
      have ihd := toDB_lsrc d scope sd hn.1 hsd hok hd
      have ihb := toDB_lsrc c (placeholder :: scope) body hn.2 hsb ⟨Or.inl rfl, hok⟩ hb
      have hbind : Stack.bind (scope.map slot) v'.name = some (none :: scope.map slot) := by
        rw [hv]; simp [Stack.bind]
      have hsl : (placeholder :: scope).map slot = none :: scope.map slot := by
        simp [slot]
      rw [hsl] at ihb
      rw [hv] at hbind
      simp [toDB, toDBV, hbind, hv, canon, hf, Tm.holeFree] at ihd ihb ⊢
      simp [ihd, ihb]
  | .app f a, scope, ⟨r, g, v, es⟩, hn, hsc, hok, h => by
    rw [lsrc] at h; cases v <;> simp [strip, stripV, mk00] at h
    simp only [noLet, Bool.and_eq_true] at hn
    simp only [scopedOK, Bool.and_eq_true] at hsc
    have ih1 := toDB_lsrc f scope _ hn.1 hsc.1 hok h.1
    have ih2 := toDB_lsrc a scope _ hn.2 hsc.2 hok h.2
    simp [toDB, toDBV, canon, Tm.holeFree] at ih1 ih2 ⊢
    simp [ih1, ih2]
  | .letg _ _, _, _, hn, _, _, _ => by simp [noLet] at hn
  | .neg a, scope, ⟨r, g, v, es⟩, hn, hsc, hok, h => by
    rw [lsrc] at h; cases v <;> simp [strip, stripV, mk00] at h
    simp only [noLet] at hn
    simp only [scopedOK] at hsc
    have ih1 := toDB_lsrc a scope _ hn hsc hok h
    simp [toDB, toDBV, canon, Tm.holeFree] at ih1 ⊢
    simp [ih1]
  | .bin op a b, scope, ⟨r, g, v, es⟩, hn, hsc, hok, h => by
    rw [lsrc] at h; cases v <;> simp [strip, stripV, mk00] at h
    obtain ⟨rfl, h1, h2⟩ := h
    simp only [noLet, Bool.and_eq_true] at hn
    simp only [scopedOK, Bool.and_eq_true] at hsc
    have ih1 := toDB_lsrc a scope _ hn.1 hsc.1 hok h1
    have ih2 := toDB_lsrc b scope _ hn.2 hsc.2 hok h2
    simp [toDB, toDBV, canon, Tm.holeFree] at ih1 ih2 ⊢
    simp [ih1, ih2]
  | .ite c a b, scope, ⟨r, g, v, es⟩, hn, hsc, hok, h => by
    rw [lsrc] at h; cases v <;> simp [strip, stripV, mk00] at h
    obtain ⟨h0, h1, h2⟩ := h
    simp only [noLet, Bool.and_eq_true] at hn
    simp only [scopedOK, Bool.and_eq_true] at hsc
    have ih0 := toDB_lsrc c scope _ hn.1.1 hsc.1.1 hok h0
    have ih1 := toDB_lsrc a scope _ hn.1.2 hsc.1.2 hok h1
    have ih2 := toDB_lsrc b scope _ hn.2 hsc.2 hok h2
    simp [toDB, toDBV, canon, Tm.holeFree] at ih0 ih1 ih2 ⊢
    simp [ih0, ih1, ih2]

end

end PModel
