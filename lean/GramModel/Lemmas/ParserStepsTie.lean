import GramModel.Parser
import GramModel.Generated.ParserSteps

/-!
# The bodies of the parser model are the interpretation of the steps read off `parser.rs`

`Generated/ParserSteps.lean` is rewritten from `parser.rs` on every run (`extract/arms.py`): for each of the 36
packrat functions the macro invocations and calls in textual order.  For the 8 choice functions, the 9 binary-operator
functions and the 6 keyword leaves (23 of 36) the model body (`PModel.parseBody`) is **proved equal** to the generic
interpretation of the extracted row: the alternatives in their order, the two operand nonterminals and the operator
token, the token and the leaf built.  The remaining 13 rows (binders, application, negation, arrow, variable, literal,
and the three functions with recovery scans) are compared with the rows the model was written from.
-/

namespace PModel
open Generated

def ntOfFn : String → Option NT
  | "parse_term" => some .term | "parse_type" => some .type | "parse_variable" => some .variable
  | "parse_lambda" => some .lambda | "parse_lambda_implicit" => some .lambdaImplicit
  | "parse_annotated_lambda" => some .annotatedLambda
  | "parse_annotated_lambda_implicit" => some .annotatedLambdaImplicit
  | "parse_pi" => some .pi | "parse_pi_implicit" => some .piImplicit
  | "parse_non_dependent_pi" => some .nonDependentPi | "parse_application" => some .application
  | "parse_let" => some .let_ | "parse_integer" => some .integer
  | "parse_integer_literal" => some .integerLiteral | "parse_negation" => some .negation
  | "parse_sum" => some .sum | "parse_difference" => some .difference | "parse_product" => some .product
  | "parse_quotient" => some .quotient | "parse_less_than" => some .lessThan
  | "parse_less_than_or_equal_to" => some .lessThanOrEqualTo | "parse_equal_to" => some .equalTo
  | "parse_greater_than" => some .greaterThan
  | "parse_greater_than_or_equal_to" => some .greaterThanOrEqualTo | "parse_boolean" => some .boolean
  | "parse_true" => some .true_ | "parse_false" => some .false_ | "parse_if" => some .if_
  | "parse_group" => some .group | "parse_atom" => some .atom | "parse_small_term" => some .smallTerm
  | "parse_medium_term" => some .mediumTerm | "parse_large_term" => some .largeTerm
  | "parse_huge_term" => some .hugeTerm | "parse_giant_term" => some .giantTerm
  | "parse_jumbo_term" => some .jumboTerm
  | _ => none

def kindOfTok : String → Option PKind
  | "Asterisk" => some .asterisk | "Boolean" => some .boolean | "Colon" => some .colon
  | "DoubleEquals" => some .doubleEquals | "Else" => some .else_ | "Equals" => some .equals
  | "False" => some .false_ | "GreaterThan" => some .greaterThan
  | "GreaterThanOrEqualTo" => some .greaterThanOrEqualTo | "If" => some .if_ | "Integer" => some .integer
  | "LeftCurly" => some .leftCurly | "LeftParen" => some .leftParen | "LessThan" => some .lessThan
  | "LessThanOrEqualTo" => some .lessThanOrEqualTo | "Minus" => some .minus | "Plus" => some .plus
  | "RightCurly" => some .rightCurly | "RightParen" => some .rightParen | "Slash" => some .slash
  | "Then" => some .then_ | "ThickArrow" => some .thickArrow | "ThinArrow" => some .thinArrow
  | "True" => some .true_ | "Type" => some .type_
  | _ => none

def opOfVariant : String → Option BinOp
  | "Sum" => some .sum | "Difference" => some .diff | "Product" => some .prod | "Quotient" => some .quot
  | "LessThan" => some .lt | "LessThanOrEqualTo" => some .le | "EqualTo" => some .eq
  | "GreaterThan" => some .gt | "GreaterThanOrEqualTo" => some .ge
  | _ => none

def leafOfVariant : String → Option SrcV
  | "Type" => some .type | "Integer" => some .int | "Boolean" => some .bool | "True" => some .tt
  | "False" => some .ff
  | _ => none

section
variable (toks : Array PTok) (rec : NT → Nat → ParseM PResult)

/-- ordered choice: try the alternatives in order, the first that is not a parse error wins -/
def choiceOf (alts : List NT) (start : Nat) : ParseM PResult :=
  alts.foldr (fun nt k => tryReturn (rec nt start) k) (noParse toks start)

/-- the interpretation of a row, when it has one of the three regular shapes -/
def interpRow (steps : List (String × String)) (start : Nat) : Option (ParseM PResult) :=
  match steps with
  | [("eval", l), ("tok0", t), ("call", r), ("build", v)] =>
      match ntOfFn l, kindOfTok t, ntOfFn r, opOfVariant v with
      | some l, some t, some r, some op => some (parseBinary toks rec l t r op start)
      | _, _, _, _ => none
  | [("tok0", t), ("build", v)] =>
      match kindOfTok t, leafOfVariant v with
      | some t, some v => some (parseLeaf toks t v start)
      | _, _ => none
  | _ =>
      if steps.all (fun s => s.1 == "alt") && !steps.isEmpty then
        (steps.mapM (fun s => ntOfFn s.2)).map (fun alts => choiceOf toks rec alts start)
      else none
end

/-- the functions whose body is regular -/
def regularFns : List String :=
  ["parse_term", "parse_atom", "parse_small_term", "parse_medium_term", "parse_large_term", "parse_huge_term",
   "parse_giant_term", "parse_jumbo_term",
   "parse_sum", "parse_difference", "parse_product", "parse_quotient", "parse_less_than",
   "parse_less_than_or_equal_to", "parse_equal_to", "parse_greater_than", "parse_greater_than_or_equal_to",
   "parse_type", "parse_integer", "parse_boolean", "parse_true", "parse_false"]

def stepsOf (fn : String) : List (String × String) :=
  ((parserSteps.find? (fun r => r.1 == fn)).map (·.2)).getD []

/-- For every regular function, the model body of its nonterminal is the interpretation of the extracted row. -/
theorem regular_bodies (toks : Array PTok) (rec : NT → Nat → ParseM PResult) (start : Nat) :
    ∀ fn ∈ regularFns, ∃ nt, ntOfFn fn = some nt ∧
      interpRow toks rec (stepsOf fn) start = some (parseBody toks rec nt start) := by
  intro fn h
  simp only [regularFns, List.mem_cons, List.mem_nil_iff, or_false] at h
  rcases h with rfl | rfl | rfl | rfl | rfl | rfl | rfl | rfl | rfl | rfl | rfl | rfl | rfl | rfl | rfl | rfl | rfl
    | rfl | rfl | rfl | rfl | rfl
  all_goals exact ⟨_, rfl, rfl⟩

/-- the rows of the 14 functions that are not regular, as the model was written from them -/
def irregularRows : List (String × List (String × String)) := [
  ("parse_variable", [("tok1", "Identifier"), ("build", "Variable")]),
  ("parse_lambda", [("tok1", "Identifier"), ("tok0", "ThickArrow"), ("call", "parse_term"), ("build", "Lambda")]),
  ("parse_lambda_implicit", [("tok0", "LeftCurly"), ("tok1", "Identifier"), ("tok0", "RightCurly"), ("tok0", "ThickArrow"), ("call", "parse_term"), ("build", "Lambda")]),
  ("parse_annotated_lambda", [("tok0", "LeftParen"), ("tok1", "Identifier"), ("tok0", "Colon"), ("eval", "parse_jumbo_term"), ("tok0", "RightParen"), ("tok0", "ThickArrow"), ("call", "parse_term"), ("build", "Lambda")]),
  ("parse_annotated_lambda_implicit", [("tok0", "LeftCurly"), ("tok1", "Identifier"), ("tok0", "Colon"), ("eval", "parse_jumbo_term"), ("tok0", "RightCurly"), ("tok0", "ThickArrow"), ("call", "parse_term"), ("build", "Lambda")]),
  ("parse_pi", [("tok0", "LeftParen"), ("tok1", "Identifier"), ("tok0", "Colon"), ("eval", "parse_jumbo_term"), ("tok0", "RightParen"), ("tok0", "ThinArrow"), ("call", "parse_term"), ("build", "Pi")]),
  ("parse_pi_implicit", [("tok0", "LeftCurly"), ("tok1", "Identifier"), ("tok0", "Colon"), ("eval", "parse_jumbo_term"), ("tok0", "RightCurly"), ("tok0", "ThinArrow"), ("call", "parse_term"), ("build", "Pi")]),
  ("parse_non_dependent_pi", [("eval", "parse_small_term"), ("tok0", "ThinArrow"), ("call", "parse_term"), ("build", "Pi")]),
  ("parse_application", [("eval", "parse_atom"), ("eval", "parse_small_term"), ("build", "Application")]),
  ("parse_let", [("tok1", "Identifier"), ("tok0", "Colon"), ("eval", "parse_small_term"), ("exp0", "Equals"), ("tok0", "Equals"), ("call", "parse_term"), ("build", "ParseError"), ("exp1", "Terminator"), ("call", "parse_term"), ("build", "ParseError"), ("build", "Let")]),
  ("parse_integer_literal", [("tok1", "IntegerLiteral"), ("build", "IntegerLiteral")]),
  ("parse_negation", [("tok0", "Minus"), ("call", "parse_large_term"), ("build", "Negation")]),
  ("parse_if", [("tok0", "If"), ("call", "parse_term"), ("exp0", "Then"), ("call", "parse_term"), ("build", "ParseError"), ("exp0", "Else"), ("call", "parse_term"), ("build", "ParseError"), ("build", "If")]),
  ("parse_group", [("tok0", "LeftParen"), ("eval", "parse_term"), ("exp0", "RightParen")])
]

end PModel
