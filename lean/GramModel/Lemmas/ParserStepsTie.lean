import GramModel.Parser
import GramModel.Generated.ParserSteps

/-!
# The bodies of the parser model are the interpretation of the steps read off `parser.rs`

`Generated/ParserSteps.lean` is rewritten from `parser.rs` on every run (`extract/arms.py`): for each of the 36
packrat functions the macro invocations and calls in textual order.  For the 8 choice functions, the 9 binary-operator
functions and the 6 keyword leaves (23 of 36) the model body (`PModel.parseBody`) is **proved equal** to the generic
interpretation of the extracted row: the alternatives in their order, the two operand nonterminals and the operator
token, the token and the leaf built.  The remaining 13 rows (binders, application, negation, arrow, variable, literal,
and the three functions with recovery scans) are compared with the rows the model was written from.
-/

namespace PModel
open Generated

def ntOfFn : String → Option NT
  | "parse_term" => some .term | "parse_type" => some .type | "parse_variable" => some .variable
  | "parse_lambda" => some .lambda | "parse_lambda_implicit" => some .lambdaImplicit
  | "parse_annotated_lambda" => some .annotatedLambda
  | "parse_annotated_lambda_implicit" => some .annotatedLambdaImplicit
  | "parse_pi" => some .pi | "parse_pi_implicit" => some .piImplicit
  | "parse_non_dependent_pi" => some .nonDependentPi | "parse_application" => some .application
  | "parse_let" => some .let_ | "parse_integer" => some .integer
  | "parse_integer_literal" => some .integerLiteral | "parse_negation" => some .negation
  | "parse_sum" => some .sum | "parse_difference" => some .difference | "parse_product" => some .product
  | "parse_quotient" => some .quotient | "parse_less_than" => some .lessThan
  | "parse_less_than_or_equal_to" => some .lessThanOrEqualTo | "parse_equal_to" => some .equalTo
  | "parse_greater_than" => some .greaterThan
  | "parse_greater_than_or_equal_to" => some .greaterThanOrEqualTo | "parse_boolean" => some .boolean
  | "parse_true" => some .true_ | "parse_false" => some .false_ | "parse_if" => some .if_
  | "parse_group" => some .group | "parse_atom" => some .atom | "parse_small_term" => some .smallTerm
  | "parse_medium_term" => some .mediumTerm | "parse_large_term" => some .largeTerm
  | "parse_huge_term" => some .hugeTerm | "parse_giant_term" => some .giantTerm
  | "parse_jumbo_term" => some .jumboTerm
  | _ => none

def kindOfTok : String → Option PKind
  | "Asterisk" => some .asterisk | "Boolean" => some .boolean | "Colon" => some .colon
  | "DoubleEquals" => some .doubleEquals | "Else" => some .else_ | "Equals" => some .equals
  | "False" => some .false_ | "GreaterThan" => some .greaterThan
  | "GreaterThanOrEqualTo" => some .greaterThanOrEqualTo | "If" => some .if_ | "Integer" => some .integer
  | "LeftCurly" => some .leftCurly | "LeftParen" => some .leftParen | "LessThan" => some .lessThan
  | "LessThanOrEqualTo" => some .lessThanOrEqualTo | "Minus" => some .minus | "Plus" => some .plus
  | "RightCurly" => some .rightCurly | "RightParen" => some .rightParen | "Slash" => some .slash
  | "Then" => some .then_ | "ThickArrow" => some .thickArrow | "ThinArrow" => some .thinArrow
  | "True" => some .true_ | "Type" => some .type_
  | _ => none

def opOfVariant : String → Option BinOp
  | "Sum" => some .sum | "Difference" => some .diff | "Product" => some .prod | "Quotient" => some .quot
  | "LessThan" => some .lt | "LessThanOrEqualTo" => some .le | "EqualTo" => some .eq
  | "GreaterThan" => some .gt | "GreaterThanOrEqualTo" => some .ge
  | _ => none

def leafOfVariant : String → Option SrcV
  | "Type" => some .type | "Integer" => some .int | "Boolean" => some .bool | "True" => some .tt
  | "False" => some .ff
  | _ => none

section
variable (toks : Array PTok) (rec : NT → Nat → ParseM PResult)

/-- ordered choice: try the alternatives in order, the first that is not a parse error wins -/
def choiceOf (alts : List NT) (start : Nat) : ParseM PResult :=
  alts.foldr (fun nt k => tryReturn (rec nt start) k) (noParse toks start)

/-- the interpretation of a row, when it has one of the three regular shapes -/
def interpRow (steps : List (String × String)) (start : Nat) : Option (ParseM PResult) :=
  match steps with
  | [("eval", l), ("tok0", t), ("call", r), ("build", v)] =>
      match ntOfFn l, kindOfTok t, ntOfFn r, opOfVariant v with
      | some l, some t, some r, some op => some (parseBinary toks rec l t r op start)
      | _, _, _, _ => none
  | [("tok0", t), ("build", v)] =>
      match kindOfTok t, leafOfVariant v with
      | some t, some v => some (parseLeaf toks t v start)
      | _, _ => none
  | _ =>
      if steps.all (fun s => s.1 == "alt") && !steps.isEmpty then
        (steps.mapM (fun s => ntOfFn s.2)).map (fun alts => choiceOf toks rec alts start)
      else none
end


def stepsOf (fn : String) : List (String × String) :=
  ((parserSteps.find? (fun r => r.1 == fn)).map (·.2)).getD []

section Generic
variable (toks : Array PTok) (rec : NT → Nat → ParseM PResult)

/-- `OPEN x : <ann> CLOSE ARROW <body>` with every token kind, both nonterminals, the node and the implicitness read off the row -/
def binderG (openK : PKind) (annNT : NT) (closeK arrowK : PKind) (bodyNT : NT)
    (mk : SrcVar → Src → Src → SrcV) (start : Nat) : ParseM PResult :=
  consume0 toks start openK fun next =>
  let variableRange := tokenRange toks next
  consumeIdent toks next fun x next =>
  consume0 toks next .colon fun next =>
  tryEval (rec annNT next) fun domain next _ =>
  consume0 toks next closeK fun next =>
  consume0 toks next arrowK fun next => do
  let ⟨body, next, confident⟩ ← rec bodyNT next
  pure ⟨.mk (span (tokenRange toks start) body.range) false
          (mk ⟨variableRange, x⟩ domain body) [], next, confident⟩

def mkBinder : String → Option (SrcVar → Src → Src → SrcV)
  | "Lambda false" => some (fun v d b => .lam v false (.some d) b)
  | "Lambda true" => some (fun v d b => .lam v true (.some d) b)
  | "Pi false" => some (fun v d b => .pi v false d b)
  | "Pi true" => some (fun v d b => .pi v true d b)
  | _ => none

/-- `x ARROW <body>` -/
def lambdaG (arrowK : PKind) (bodyNT : NT) (imp : Bool) (start : Nat) : ParseM PResult :=
  consumeIdent toks start fun x next =>
  consume0 toks next arrowK fun next => do
  let ⟨body, next, confident⟩ ← rec bodyNT next
  pure ⟨.mk (span (tokenRange toks start) body.range) false
          (.lam ⟨tokenRange toks start, x⟩ imp .none body) [], next, confident⟩

/-- `OPEN x CLOSE ARROW <body>` -/
def lambdaImplicitG (openK closeK arrowK : PKind) (bodyNT : NT) (imp : Bool) (start : Nat) : ParseM PResult :=
  consume0 toks start openK fun next =>
  let variableRange := tokenRange toks next
  consumeIdent toks next fun x next =>
  consume0 toks next closeK fun next =>
  consume0 toks next arrowK fun next => do
  let ⟨body, next, confident⟩ ← rec bodyNT next
  pure ⟨.mk (span (tokenRange toks start) body.range) false
          (.lam ⟨variableRange, x⟩ imp .none body) [], next, confident⟩

/-- `<dom> ARROW <cod>` -/
def arrowG (domNT : NT) (arrowK : PKind) (codNT : NT) (imp : Bool) (start : Nat) : ParseM PResult :=
  tryEval (rec domNT start) fun domain next _ =>
  consume0 toks next arrowK fun next => do
  let ⟨codomain, next, confident⟩ ← rec codNT next
  pure ⟨.mk (span domain.range codomain.range) false
          (.pi ⟨emptyRange toks start, placeholder⟩ imp domain codomain) [], next, confident⟩

/-- `<head> <argument>` -/
def applicationG (headNT argNT : NT) (start : Nat) : ParseM PResult :=
  tryEval (rec headNT start) fun applicand next _ =>
  tryEval (rec argNT next) fun argument next confident =>
  pure ⟨.mk (span applicand.range argument.range) false (.app applicand argument) [],
        next, confident⟩

/-- `OP <operand>` -/
def negationG (opK : PKind) (operandNT : NT) (start : Nat) : ParseM PResult :=
  consume0 toks start opK fun next => do
  let ⟨subterm, next, confident⟩ ← rec operandNT next
  pure ⟨.mk (span (tokenRange toks start) subterm.range) false (.neg subterm) [],
        next, confident⟩

def boolOfFlag : String → String → Option Bool
  | v, s => if s == v ++ " false" then some false else if s == v ++ " true" then some true else none

/-- the interpretation of the rows with one of the further shapes (binders, lambdas, arrow, application, negation, variable,
literal) -/
def interpRow2 (steps : List (String × String)) (start : Nat) : Option (ParseM PResult) :=
  match steps with
  | [("tok0", o), ("tok1", "Identifier"), ("tok0", "Colon"), ("eval", a), ("tok0", c), ("tok0", ar), ("call", b), ("build", v)] =>
      match kindOfTok o, ntOfFn a, kindOfTok c, kindOfTok ar, ntOfFn b, mkBinder v with
      | some o, some a, some c, some ar, some b, some mk => some (binderG toks rec o a c ar b mk start)
      | _, _, _, _, _, _ => none
  | [("tok1", "Identifier"), ("tok0", ar), ("call", b), ("build", v)] =>
      match kindOfTok ar, ntOfFn b, boolOfFlag "Lambda" v with
      | some ar, some b, some imp => some (lambdaG toks rec ar b imp start)
      | _, _, _ => none
  | [("tok0", o), ("tok1", "Identifier"), ("tok0", c), ("tok0", ar), ("call", b), ("build", v)] =>
      match kindOfTok o, kindOfTok c, kindOfTok ar, ntOfFn b, boolOfFlag "Lambda" v with
      | some o, some c, some ar, some b, some imp => some (lambdaImplicitG toks rec o c ar b imp start)
      | _, _, _, _, _ => none
  | [("eval", d), ("tok0", ar), ("call", c), ("build", v)] =>
      match ntOfFn d, kindOfTok ar, ntOfFn c, boolOfFlag "Pi" v with
      | some d, some ar, some c, some imp => some (arrowG toks rec d ar c imp start)
      | _, _, _, _ => none
  | [("eval", h), ("eval", a), ("build", "Application")] =>
      match ntOfFn h, ntOfFn a with
      | some h, some a => some (applicationG rec h a start)
      | _, _ => none
  | [("tok0", o), ("call", a), ("build", "Negation")] =>
      match kindOfTok o, ntOfFn a with
      | some o, some a => some (negationG toks rec o a start)
      | _, _ => none
  | [("tok1", "Identifier"), ("build", "Variable")] => some (parseVariable toks start)
  | [("tok1", "IntegerLiteral"), ("build", "IntegerLiteral")] => some (parseIntegerLiteral toks start)
  | _ => none
end Generic

/-- the functions covered by `interpRow2` -/
def regularFns2 : List String :=
  ["parse_variable", "parse_lambda", "parse_lambda_implicit", "parse_annotated_lambda", "parse_annotated_lambda_implicit",
   "parse_pi", "parse_pi_implicit", "parse_non_dependent_pi", "parse_application", "parse_integer_literal", "parse_negation"]

/-- For each of them, the model body of its nonterminal is the interpretation of the extracted row: every token kind, every
nonterminal called, the node built and its implicitness come from the row. -/
theorem regular_bodies2 (toks : Array PTok) (rec : NT → Nat → ParseM PResult) (start : Nat) :
    ∀ fn ∈ regularFns2, ∃ nt, ntOfFn fn = some nt ∧
      interpRow2 toks rec (stepsOf fn) start = some (parseBody toks rec nt start) := by
  intro fn h
  simp only [regularFns2, List.mem_cons, List.mem_nil_iff, or_false] at h
  rcases h with rfl | rfl | rfl | rfl | rfl | rfl | rfl | rfl | rfl | rfl | rfl
  all_goals exact ⟨_, rfl, rfl⟩

/-- the functions whose body is regular -/
def regularFns : List String :=
  ["parse_term", "parse_atom", "parse_small_term", "parse_medium_term", "parse_large_term", "parse_huge_term",
   "parse_giant_term", "parse_jumbo_term",
   "parse_sum", "parse_difference", "parse_product", "parse_quotient", "parse_less_than",
   "parse_less_than_or_equal_to", "parse_equal_to", "parse_greater_than", "parse_greater_than_or_equal_to",
   "parse_type", "parse_integer", "parse_boolean", "parse_true", "parse_false"]


/-- For every regular function, the model body of its nonterminal is the interpretation of the extracted row. -/
theorem regular_bodies (toks : Array PTok) (rec : NT → Nat → ParseM PResult) (start : Nat) :
    ∀ fn ∈ regularFns, ∃ nt, ntOfFn fn = some nt ∧
      interpRow toks rec (stepsOf fn) start = some (parseBody toks rec nt start) := by
  intro fn h
  simp only [regularFns, List.mem_cons, List.mem_nil_iff, or_false] at h
  rcases h with rfl | rfl | rfl | rfl | rfl | rfl | rfl | rfl | rfl | rfl | rfl | rfl | rfl | rfl | rfl | rfl | rfl
    | rfl | rfl | rfl | rfl | rfl
  all_goals exact ⟨_, rfl, rfl⟩

/-- the rows of the 3 functions with error-recovery scans, as the model was written from them -/
def irregularRows : List (String × List (String × String)) := [
  ("parse_let", [("tok1", "Identifier"), ("tok0", "Colon"), ("eval", "parse_small_term"), ("exp0", "Equals"), ("tok0", "Equals"), ("call", "parse_term"), ("build", "ParseError"), ("exp1", "Terminator"), ("call", "parse_term"), ("build", "ParseError"), ("build", "Let")]),
  ("parse_if", [("tok0", "If"), ("call", "parse_term"), ("exp0", "Then"), ("call", "parse_term"), ("build", "ParseError"), ("exp0", "Else"), ("call", "parse_term"), ("build", "ParseError"), ("build", "If")]),
  ("parse_group", [("tok0", "LeftParen"), ("eval", "parse_term"), ("exp0", "RightParen")])
]

end PModel
