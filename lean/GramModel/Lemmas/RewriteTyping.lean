import GramModel.Typing
import GramModel.Lemmas.DeBruijn
import GramModel.Lemmas.Whnf
import GramModel.Lemmas.Oracle
import GramModel.Lemmas.Fuel
import GramModel.Lemmas.TypingSound

/-!
# Typing facts behind the C19 rewrites

* the syntactic shortcut of `convX` (`convX_same`, `expectX_same`, `isTypeX_type`);
* **weakening** of the independent checker: inserting one entry into both contexts at depth `k`
  (entries in front of it lifted accordingly) and lifting the term at cutoff `k` lifts the answer of
  `whnfX`, keeps a positive answer of `convX`, and lifts the type computed by `inferX`
  (`whnfX_wk`, `convX_wk`, `inferX_wk`).  This needs the offsets of the entries behind the insertion
  point to be in range (`off ≤ i + 1`), which is what the relations `WkD` / `WkT` record.
-/

namespace RewriteTyping
open WhnfLemmas OracleLemmas FuelLemmas TypingSound

/-! ## the syntactic shortcut -/

theorem convX_same {f : Nat} {Δ : DCtxX} {a b : Tm} (h : sameX a b = true) :
    convX (f+1) Δ a b = some true := by
  unfold convX; simp [h]

theorem expectX_same {f : Nat} {Δ : DCtxX} {a b : Tm} {e : XErr} (h : sameX a b = true) :
    expectX (f+1) Δ a b e = .ok () := by
  unfold expectX; rw [convX_same h]

theorem isTypeX_type (f : Nat) (Δ : DCtxX) : isTypeX (f+1) Δ .type = .ok () := by
  unfold isTypeX; rw [convX_same (sameX_refl _)]

/-! ## lifting and `sameX`, `unfoldDef`, `delta` -/

mutual
theorem eraseX_ushift : ∀ (t : Tm) (c a : Nat), eraseX (ushift c a t) = ushift c a (eraseX t)
  | .var x i, c, a => by simp only [ushift]; split <;> simp [eraseX, ushift, *]
  | .hole id s, c, a => by simp only [ushift]; split <;> simp [eraseX, ushift, *]
  | .lam x im d b, c, a => by simp [eraseX, ushift, eraseX_ushift b (c+1) a]
  | .pi x im d b, c, a => by simp [eraseX, ushift, eraseX_ushift d c a, eraseX_ushift b (c+1) a]
  | .app f g, c, a => by simp [eraseX, ushift, eraseX_ushift f c a, eraseX_ushift g c a]
  | .letg ds b, c, a => by
      simp [eraseX, ushift, eraseDefsX_len, eraseDefsX_ushift ds (c + ds.len) a,
        eraseX_ushift b (c + ds.len) a]
  | .neg t, c, a => by simp [eraseX, ushift, eraseX_ushift t c a]
  | .bin op t u, c, a => by simp [eraseX, ushift, eraseX_ushift t c a, eraseX_ushift u c a]
  | .ite t u v, c, a => by
      simp [eraseX, ushift, eraseX_ushift t c a, eraseX_ushift u c a, eraseX_ushift v c a]
  | .type, c, a | .int, c, a | .bool, c, a | .tt, c, a | .ff, c, a | .lit _, c, a => by
      simp [ushift, eraseX]
theorem eraseDefsX_ushift : ∀ (ds : Defs) (c a : Nat),
    eraseDefsX (ushiftDefs c a ds) = ushiftDefs c a (eraseDefsX ds)
  | .nil, c, a => by simp [ushiftDefs, eraseDefsX]
  | .cons x t u r, c, a => by
      simp [ushiftDefs, eraseDefsX, ushift, eraseX_ushift u c a, eraseDefsX_ushift r c a]
theorem eraseDefsX_len : ∀ (ds : Defs), (eraseDefsX ds).len = ds.len
  | .nil => by simp [eraseDefsX]
  | .cons _ _ _ r => by simp [eraseDefsX, eraseDefsX_len r]
end

theorem sameX_ushift {a b : Tm} (c n : Nat) (h : sameX a b = true) :
    sameX (ushift c n a) (ushift c n b) = true := by
  rw [sameX_iff] at h ⊢
  rw [eraseX_ushift, eraseX_ushift, h]

theorem delta_ushift {op : BinOp} {x y : Int} {r : Tm} (h : delta op x y = some r) (c a : Nat) :
    ushift c a r = r := by
  cases op <;> simp only [delta] at h <;> (try split at h) <;>
    first | (cases h; done) | (injection h with h; subst h; simp [ushift]) 

/-- copy of `CheckSound.unfoldDef_ushift` (kept here to avoid importing that large file) -/
theorem unfoldDef_ushift (x : Name) (a d : Tm) (idx c k : Nat) (ha : a.holeFree = true)
    (hd : d.holeFree = true) (h : idx ≤ c) :
    ushift c k (unfoldDef x a d idx) =
      unfoldDef x (ushift (c+1) k a) (ushift (c+1) k d) idx := by
  have hself : ushift (c+1) k (Tm.var x 0) = Tm.var x 0 := by
    simp only [ushift]; rw [if_neg (by omega)]
  have inner : ∀ (t : Tm), t.holeFree = true →
      ushift (c+1) k (openT (ushift 0 1 t) (idx + 1) (Tm.var x 0) 0) =
        openT (ushift 0 1 (ushift (c+1) k t)) (idx + 1) (Tm.var x 0) 0 := by
    intro t ht
    rw [open_ushift_high _ _ (idx+1) (c+1) k 0 (by rw [ushift_holeFree]; exact ht) (by omega)]
    rw [Nat.sub_zero, hself, ushift_comm t 0 (c+1) 1 k (Nat.zero_le _)]
  unfold unfoldDef
  dsimp only
  rw [open_ushift_high d _ idx c k 0 hd h, Nat.sub_zero]
  congr 1
  simp only [ushift, ushiftDefs, Defs.len_cons, Defs.len_nil, Nat.zero_add]
  rw [inner a ha, inner d hd]
  rw [if_neg (by omega)]

theorem letAllX_wk : ∀ (f : Nat) (ds : Defs) (body b : Tm) (k : Nat), ds.holeFree = true →
    body.holeFree = true → letAllX f ds body = some b →
    letAllX f (ushiftDefs (k + ds.len) 1 ds) (ushift (k + ds.len) 1 body) = some (ushift k 1 b)
  | 0, _, _, _, _, _, _, h => by simp [letAllX] at h
  | f+1, .nil, body, b, k, _, _, h => by
      simp only [letAllX] at h
      cases h
      simp [letAllX, ushiftDefs]
  | f+1, .cons x a d rest, body, b, k, hds, hb, h => by
      simp only [Defs.holeFree, Bool.and_eq_true] at hds
      simp only [letAllX, letStepX] at h
      have hu := unfoldDef_holeFree x a d rest.len hds.1.1 hds.1.2
      have ih := letAllX_wk f _ _ b k (openDefs_holeFree _ _ _ _ hds.2 hu)
        (openT_holeFree _ _ _ _ hb hu) h
      rw [openDefs_len] at ih
      have e0 : k + (Defs.cons x a d rest).len = (k + rest.len) + 1 := by
        simp only [Defs.len_cons]; omega
      rw [e0]
      simp only [ushiftDefs, letAllX, letStepX, ushiftDefs_len]
      rw [← unfoldDef_ushift x a d rest.len (k + rest.len) 1 hds.1.1 hds.1.2 (by omega)]
      have e1 := open_ushift_high body (unfoldDef x a d rest.len) rest.len (k + rest.len) 1 0 hb
        (by omega)
      have e2 := openDefs_ushiftDefs_high rest (unfoldDef x a d rest.len) rest.len (k + rest.len) 1 0
        hds.2 (by omega)
      rw [Nat.sub_zero] at e1 e2
      rw [← e1, ← e2]
      exact ih


/-! ## contexts with one entry inserted at depth `k` -/

/-- the entry at position `i < k`, after an insertion at depth `k`: its term lives `i + 1 - off`
entries further out, so the insertion point is at depth `k - (i + 1 - off)` there -/
def wkE (k i : Nat) (p : Tm × Nat) : Tm × Nat := (ushift (k + p.2 - (i + 1)) 1 p.1, p.2)

/-- `Δ'` is `Δ` with one entry inserted at depth `k` -/
structure WkD (k : Nat) (Δ Δ' : DCtxX) : Prop where
  lo : ∀ i e, i < k → Δ[i]? = some e → Δ'[i]? = some (e.map (wkE k i))
  hi : ∀ i e, k ≤ i → Δ[i]? = some e →
    Δ'[i+1]? = some e ∧ ∀ d off, e = some (d, off) → k + off ≤ i + 1

/-- `Γ'` is `Γ` with one entry inserted at depth `k` -/
structure WkT (k : Nat) (Γ Γ' : TCtxX) : Prop where
  lo : ∀ i p, i < k → Γ[i]? = some p → Γ'[i]? = some (wkE k i p)
  hi : ∀ i p, k ≤ i → Γ[i]? = some p → Γ'[i+1]? = some p ∧ k + p.2 ≤ i + 1

theorem WkD.zero {Δ : DCtxX} (x : Option (Tm × Nat))
    (wf : ∀ i d off, Δ[i]? = some (some (d, off)) → off ≤ i + 1) : WkD 0 Δ (x :: Δ) := by
  refine ⟨fun i e h => by omega, fun i e _ h => ⟨by simpa using h, ?_⟩⟩
  intro d off he; subst he
  have := wf i d off h; omega

theorem WkT.zero {Γ : TCtxX} (x : Tm × Nat)
    (wf : ∀ i ty off, Γ[i]? = some (ty, off) → off ≤ i + 1) : WkT 0 Γ (x :: Γ) := by
  refine ⟨fun i e h => by omega, fun i p _ h => ⟨by simpa using h, ?_⟩⟩
  have := wf i p.1 p.2 h; omega

theorem WkD.cons {k : Nat} {Δ Δ' : DCtxX} (h : WkD k Δ Δ') (e : Option (Tm × Nat)) :
    WkD (k+1) (e :: Δ) (e.map (wkE (k+1) 0) :: Δ') := by
  constructor
  · intro i e' hi hg
    cases i with
    | zero => simp at hg ⊢; subst hg; rfl
    | succ i =>
      simp only [List.getElem?_cons_succ] at hg ⊢
      rw [h.lo i e' (by omega) hg]
      congr 2
      funext p
      simp only [wkE]
      congr 2
      omega
  · intro i e' hi hg
    cases i with
    | zero => omega
    | succ i =>
      simp only [List.getElem?_cons_succ] at hg ⊢
      obtain ⟨h1, h2⟩ := h.hi i e' (by omega) hg
      refine ⟨h1, fun d off he => ?_⟩
      have := h2 d off he; omega

theorem WkD.none {k : Nat} {Δ Δ' : DCtxX} (h : WkD k Δ Δ') :
    WkD (k+1) (Option.none :: Δ) (Option.none :: Δ') := h.cons Option.none

theorem WkD.some {k : Nat} {Δ Δ' : DCtxX} (h : WkD k Δ Δ') (d : Tm) (m : Nat) :
    WkD (k+1) (Option.some (d, m) :: Δ) (Option.some (ushift (k + m) 1 d, m) :: Δ') := by
  have := h.cons (Option.some (d, m))
  simp only [Option.map_some, wkE] at this
  rw [show k + 1 + m - (0 + 1) = k + m by omega] at this
  exact this

theorem WkT.cons {k : Nat} {Γ Γ' : TCtxX} (h : WkT k Γ Γ') (d : Tm) (m : Nat) :
    WkT (k+1) ((d, m) :: Γ) ((ushift (k + m) 1 d, m) :: Γ') := by
  constructor
  · intro i p hi hg
    cases i with
    | zero =>
      simp at hg ⊢; subst hg
      simp only [wkE]
      rw [show k + 1 + m - 1 = k + m by omega]
    | succ i =>
      simp only [List.getElem?_cons_succ] at hg ⊢
      rw [h.lo i p (by omega) hg]
      simp only [wkE]
      congr 3
      omega
  · intro i p hi hg
    cases i with
    | zero => omega
    | succ i =>
      simp only [List.getElem?_cons_succ] at hg ⊢
      obtain ⟨h1, h2⟩ := h.hi i p (by omega) hg
      exact ⟨h1, by omega⟩

theorem pushGroupX_go_wk : ∀ (ds : Defs) (m k : Nat) (Γ Γ' : TCtxX) (Δ Δ' : DCtxX), ds.len ≤ m →
    WkT k Γ Γ' → WkD k Δ Δ' →
    WkT (k + ds.len) (pushGroupX.go ds m (Γ, Δ)).1
      (pushGroupX.go (ushiftDefs (k + m) 1 ds) m (Γ', Δ')).1 ∧
    WkD (k + ds.len) (pushGroupX.go ds m (Γ, Δ)).2
      (pushGroupX.go (ushiftDefs (k + m) 1 ds) m (Γ', Δ')).2
  | .nil, m, k, Γ, Γ', Δ, Δ', _, hT, hD => by
      simp only [pushGroupX.go, ushiftDefs, Defs.len_nil, Nat.add_zero]; exact ⟨hT, hD⟩
  | .cons x a d r, m, k, Γ, Γ', Δ, Δ', hm, hT, hD => by
      simp only [Defs.len_cons] at hm
      simp only [pushGroupX.go, ushiftDefs, Defs.len_cons]
      have ih := pushGroupX_go_wk r (m - 1) (k + 1) _ _ _ _ (by omega) (hT.cons a m) (hD.some d m)
      rw [show k + 1 + (m - 1) = k + m by omega, show k + 1 + r.len = k + (r.len + 1) by omega] at ih
      exact ih

theorem pushGroupX_wk (ds : Defs) (n k : Nat) (Γ Γ' : TCtxX) (Δ Δ' : DCtxX)
    (hT : WkT k Γ Γ') (hD : WkD k Δ Δ') :
    WkT (k + ds.len) (pushGroupX ds n (Γ, Δ)).1
      (pushGroupX (ushiftDefs (k + ds.len) 1 ds) n (Γ', Δ')).1 ∧
    WkD (k + ds.len) (pushGroupX ds n (Γ, Δ)).2
      (pushGroupX (ushiftDefs (k + ds.len) 1 ds) n (Γ', Δ')).2 := by
  unfold pushGroupX
  rw [ushiftDefs_len]
  exact pushGroupX_go_wk ds ds.len k Γ Γ' Δ Δ' (Nat.le_refl _) hT hD


/-! ## weakening of the normalizer -/

theorem ushift_eq_lit {c a : Nat} {t : Tm} {n : Int} (h : ushift c a t = .lit n) : t = .lit n := by
  cases t <;> simp only [ushift] at h <;> first | exact h | (cases h; done) | (split at h <;> cases h)

theorem whnfX_wk : ∀ (f k : Nat) (Δ Δ' : DCtxX) (t r : Tm), WkD k Δ Δ' → DHF Δ →
    t.holeFree = true → whnfX f Δ t = some r → whnfX f Δ' (ushift k 1 t) = some (ushift k 1 r) := by
  intro f
  induction f with
  | zero => intro k Δ Δ' t r _ _ _ h; simp [whnfX] at h
  | succ f ih =>
    intro k Δ Δ' t r hW hD ht h
    cases t
    case var x i =>
      unfold whnfX at h
      simp only at h
      split at h
      · cases h
      · rename_i hg
        cases h
        by_cases hik : i < k
        · have h1 := hW.lo i _ hik hg
          simp only [ushift, if_neg (show ¬ (i ≥ k) by omega)]
          unfold whnfX
          simp only [h1, Option.map_none]
        · have h1 := (hW.hi i _ (by omega) hg).1
          simp only [ushift, if_pos (show i ≥ k by omega)]
          unfold whnfX
          simp only [h1]
      · rename_i d off hg
        split at h
        · cases h
        · rename_i hlt
          have hd : d.holeFree = true := hD _ (List.mem_of_getElem? hg) d off rfl
          have ih' := ih k Δ Δ' _ r hW hD (by rw [ushift_holeFree]; exact hd) h
          by_cases hik : i < k
          · have h1 := hW.lo i _ hik hg
            simp only [ushift, if_neg (show ¬ (i ≥ k) by omega)]
            unfold whnfX
            simp only [h1, Option.map_some, wkE, if_neg hlt]
            rw [ushift_comm d 0 (k + off - (i + 1)) (i + 1 - off) 1 (Nat.zero_le _),
              show k + off - (i + 1) + (i + 1 - off) = k by omega]
            exact ih'
          · obtain ⟨h1, h2⟩ := hW.hi i _ (by omega) hg
            have h3 := h2 d off rfl
            simp only [ushift, if_pos (show i ≥ k by omega)]
            unfold whnfX
            simp only [h1, if_neg (show ¬ (i + 1 + 1 < off) by omega)]
            rw [ushift_ushift_mid d k 0 1 (i + 1 - off) (Nat.zero_le _) (by omega)] at ih'
            rw [show i + 1 + 1 - off = 1 + (i + 1 - off) by omega]
            exact ih'
    case app g a =>
      simp only [Tm.holeFree, Bool.and_eq_true] at ht
      unfold whnfX at h
      simp only at h
      simp only [ushift]
      unfold whnfX
      simp only
      revert h
      cases hg : whnfX f Δ g with
      | none => intro h; cases h
      | some g' =>
        rw [ih k Δ Δ' g g' hW hD ht.1 hg]
        have hg'f := whnfX_holeFree hg hD ht.1
        cases g' <;> simp only [ushift] <;> intro h <;>
          first
          | (cases h; rfl)
          | skip
        case hole => simp [Tm.holeFree] at hg'f
        case var y j =>
          cases h; simp only [ushift]
          by_cases hj : j ≥ k <;> simp only [hj, if_true, if_false]
        case lam x im d body =>
          simp only [Tm.holeFree, Bool.and_eq_true] at hg'f
          have := ih k Δ Δ' _ r hW hD (openT_holeFree _ _ _ _ hg'f.2 ht.2) h
          rw [open_ushift_high body a 0 k 1 0 hg'f.2 (Nat.zero_le _), Nat.sub_zero] at this
          exact this
    case letg ds b =>
      simp only [Tm.holeFree, Bool.and_eq_true] at ht
      unfold whnfX at h
      simp only at h
      simp only [ushift]
      unfold whnfX
      simp only
      revert h
      cases hg : letAllX (f+1) ds b with
      | none => intro h; cases h
      | some b' =>
        rw [letAllX_wk (f+1) ds b b' k ht.1 ht.2 hg]
        simp only
        intro h
        exact ih k Δ Δ' b' r hW hD (letAllX_holeFree _ _ _ _ hg ht.1 ht.2) h
    case neg a =>
      simp only [Tm.holeFree] at ht
      unfold whnfX at h
      simp only at h
      simp only [ushift]
      unfold whnfX
      simp only
      revert h
      cases hg : whnfX f Δ a with
      | none => intro h; cases h
      | some a' =>
        rw [ih k Δ Δ' a a' hW hD ht hg]
        have hf' := whnfX_holeFree hg hD ht
        cases a' <;> simp only [ushift] <;> intro h <;> first | (cases h; rfl) | skip
        case hole => simp [Tm.holeFree] at hf'
        case var y j =>
          cases h; simp only [ushift]
          by_cases hj : j ≥ k <;> simp only [hj, if_true, if_false]
    case bin op a b =>
      simp only [Tm.holeFree, Bool.and_eq_true] at ht
      unfold whnfX at h
      simp only at h
      simp only [ushift]
      unfold whnfX
      simp only
      revert h
      cases ha : whnfX f Δ a with
      | none => simp
      | some a' =>
        cases hb : whnfX f Δ b with
        | none => simp
        | some b' =>
          rw [ih k Δ Δ' a a' hW hD ht.1 ha, ih k Δ Δ' b b' hW hD ht.2 hb]
          have hfa := whnfX_holeFree ha hD ht.1
          have hfb := whnfX_holeFree hb hD ht.2
          intro h
          split at h
          · rename_i x y e1 e2
            cases e1; cases e2
            simp only [ushift]
            split at h
            · rename_i rr hdl
              cases h
              simp only [delta_ushift hdl]
            · rename_i hdl
              cases h
              simp only [ushift]
          · rename_i a'' b'' hn e1 e2
            cases e1; cases e2; cases h
            simp only [ushift]
            split
            · rename_i x y e1 e2
              simp only [Option.some.injEq] at e1 e2
              exact (hn x y (ushift_eq_lit e1) (ushift_eq_lit e2)).elim
            · rename_i e1 e2
              cases e1; cases e2; rfl
            · rename_i hn'
              exact (hn' _ _ rfl rfl).elim
          · rename_i hn
            exact (hn _ _ rfl rfl).elim
    case ite c a b =>
      simp only [Tm.holeFree, Bool.and_eq_true] at ht
      unfold whnfX at h
      simp only at h
      simp only [ushift]
      unfold whnfX
      simp only
      revert h
      cases hg : whnfX f Δ c with
      | none => intro h; cases h
      | some c' =>
        rw [ih k Δ Δ' c c' hW hD ht.1.1 hg]
        have hf' := whnfX_holeFree hg hD ht.1.1
        cases c' <;> simp only [ushift] <;> intro h <;> first | (cases h; rfl) | skip
        case hole => simp [Tm.holeFree] at hf'
        case var y j =>
          cases h; simp only [ushift]
          by_cases hj : j ≥ k <;> simp only [hj, if_true, if_false]
        case tt => exact ih k Δ Δ' a r hW hD ht.1.2 h
        case ff => exact ih k Δ Δ' b r hW hD ht.2 h
    case hole => simp [Tm.holeFree] at ht
    all_goals (unfold whnfX at h; cases h; simp only [ushift]; unfold whnfX; rfl)

/-! ## weakening of the conversion check (positive answers) -/

theorem convX_wk : ∀ (f k : Nat) (Δ Δ' : DCtxX) (a b : Tm), WkD k Δ Δ' → DHF Δ →
    a.holeFree = true → b.holeFree = true → convX f Δ a b = some true →
    convX f Δ' (ushift k 1 a) (ushift k 1 b) = some true := by
  intro f
  induction f with
  | zero => intro k Δ Δ' a b _ _ _ _ h; simp [convX] at h
  | succ f ih =>
    intro k Δ Δ' a b hW hD ha hb h
    unfold convX at h ⊢
    split at h
    · rename_i hs; simp [sameX_ushift k 1 hs]
    · split
      · rfl
      · revert h
        cases hwa : whnfX f Δ a with
        | none => simp
        | some wa =>
          cases hwb : whnfX f Δ b with
          | none => simp
          | some wb =>
            rw [whnfX_wk f k Δ Δ' a wa hW hD ha hwa, whnfX_wk f k Δ Δ' b wb hW hD hb hwb]
            have hfa := whnfX_holeFree hwa hD ha
            have hfb := whnfX_holeFree hwb hD hb
            clear hwa hwb
            intro h
            simp only at h ⊢
            cases wa <;> try (simp [Tm.holeFree] at hfa; done)
            all_goals cases wb <;> try (simp [Tm.holeFree] at hfb; done)
            all_goals try (simp only at h; cases h; done)
            case type.type | int.int | bool.bool | tt.tt | ff.ff => rfl
            case lit.lit n m => exact h
            case var.var x i y j =>
              simp only [Option.some.injEq, beq_iff_eq] at h
              subst h
              simp only [ushift]
              by_cases hj : i ≥ k <;> simp only [hj, if_true, if_false, beq_self_eq_true]
            case lam.lam x1 i1 d1 b1 x2 i2 d2 b2 =>
              simp only at h
              simp only [Tm.holeFree, Bool.and_eq_true] at hfa hfb
              simp only [ushift]
              split at h
              · rename_i him
                rw [if_pos him]
                exact ih (k+1) _ _ _ _ hW.none (DHF_none hD) hfa.2 hfb.2 h
              · cases h
            case pi.pi x1 i1 d1 b1 x2 i2 d2 b2 =>
              simp only at h
              simp only [Tm.holeFree, Bool.and_eq_true] at hfa hfb
              simp only [ushift]
              split at h
              · rename_i him
                rw [if_pos him]
                revert h
                cases h1 : convX f Δ d1 d2 with
                | none => intro h; cases h
                | some v =>
                  cases v <;> simp only <;> intro h
                  · cases h
                  · rw [ih k _ _ _ _ hW hD hfa.1 hfb.1 h1]
                    exact ih (k+1) _ _ _ _ hW.none (DHF_none hD) hfa.2 hfb.2 h
              · cases h
            case app.app f1 a1 f2 a2 =>
              simp only at h
              simp only [Tm.holeFree, Bool.and_eq_true] at hfa hfb
              simp only [ushift]
              revert h
              cases h1 : convX f Δ f1 f2 with
              | none => intro h; cases h
              | some v =>
                cases v <;> simp only <;> intro h
                · cases h
                · rw [ih k _ _ _ _ hW hD hfa.1 hfb.1 h1]
                  exact ih k _ _ _ _ hW hD hfa.2 hfb.2 h
            case neg.neg a1 a2 =>
              simp only at h
              simp only [Tm.holeFree] at hfa hfb
              simp only [ushift]
              exact ih k _ _ _ _ hW hD hfa hfb h
            case bin.bin o1 a1 b1 o2 a2 b2 =>
              simp only at h
              simp only [Tm.holeFree, Bool.and_eq_true] at hfa hfb
              simp only [ushift]
              split at h
              · rename_i him
                rw [if_pos him]
                revert h
                cases h1 : convX f Δ a1 a2 with
                | none => intro h; cases h
                | some v =>
                  cases v <;> simp only <;> intro h
                  · cases h
                  · rw [ih k _ _ _ _ hW hD hfa.1 hfb.1 h1]
                    exact ih k _ _ _ _ hW hD hfa.2 hfb.2 h
              · cases h
            case ite.ite c1 a1 b1 c2 a2 b2 =>
              simp only at h
              simp only [Tm.holeFree, Bool.and_eq_true] at hfa hfb
              simp only [ushift]
              revert h
              cases h1 : convX f Δ c1 c2 with
              | none => intro h; cases h
              | some v =>
                cases v <;> simp only <;> intro h
                · cases h
                · rw [ih k _ _ _ _ hW hD hfa.1.1 hfb.1.1 h1]
                  revert h
                  cases h2 : convX f Δ a1 a2 with
                  | none => intro h; cases h
                  | some v =>
                    cases v <;> simp only <;> intro h
                    · cases h
                    · rw [ih k _ _ _ _ hW hD hfa.1.2 hfb.1.2 h2]
                      exact ih k _ _ _ _ hW hD hfa.2 hfb.2 h

/-! ## weakening of the type checker -/

theorem isTypeX_wk {f k : Nat} {Δ Δ' : DCtxX} {ty : Tm} (hW : WkD k Δ Δ') (hD : DHF Δ)
    (hty : ty.holeFree = true) (h : isTypeX f Δ ty = .ok ()) :
    isTypeX f Δ' (ushift k 1 ty) = .ok () := by
  have := convX_wk f k Δ Δ' ty .type hW hD hty rfl (isTypeX_ok h)
  simp only [ushift] at this
  unfold isTypeX; rw [this]

theorem expectX_wk {f k : Nat} {Δ Δ' : DCtxX} {a b : Tm} {e : XErr} (hW : WkD k Δ Δ') (hD : DHF Δ)
    (ha : a.holeFree = true) (hb : b.holeFree = true) (h : expectX f Δ a b e = .ok ()) :
    expectX f Δ' (ushift k 1 a) (ushift k 1 b) e = .ok () := by
  have := convX_wk f k Δ Δ' a b hW hD ha hb (expectX_ok h)
  unfold expectX; rw [this]

theorem inferX_wk_aux : ∀ (f : Nat),
    (∀ (k : Nat) (Γ Γ' : TCtxX) (Δ Δ' : DCtxX) (t T : Tm), WkT k Γ Γ' → WkD k Δ Δ' → THF Γ →
      DHF Δ → t.holeFree = true → inferX f Γ Δ t = .ok T →
      inferX f Γ' Δ' (ushift k 1 t) = .ok (ushift k 1 T)) ∧
    (∀ (k : Nat) (Γ Γ' : TCtxX) (Δ Δ' : DCtxX) (ds : Defs), WkT k Γ Γ' → WkD k Δ Δ' → THF Γ →
      DHF Δ → ds.holeFree = true → inferDefsX f Γ Δ ds = .ok () →
      inferDefsX f Γ' Δ' (ushiftDefs k 1 ds) = .ok ()) := by
  intro f
  induction f with
  | zero =>
    exact ⟨fun _ _ _ _ _ _ _ _ _ _ _ _ h => by simp [inferX] at h,
      fun _ _ _ _ _ _ _ _ _ _ _ h => by simp [inferDefsX] at h⟩
  | succ f ih =>
    obtain ⟨ih1, ih2⟩ := ih
    constructor
    · intro k Γ Γ' Δ Δ' t T hT hW hΓ hD ht h
      cases t
      case hole => simp [Tm.holeFree] at ht
      case var x i =>
        unfold inferX at h
        simp only at h
        split at h
        · cases h
        · rename_i ty off hg
          split at h
          · cases h
          · rename_i hlt
            cases h
            by_cases hik : i < k
            · have h1 := hT.lo i _ hik hg
              simp only [ushift, if_neg (show ¬ (i ≥ k) by omega)]
              unfold inferX
              simp only [h1, wkE, if_neg hlt]
              rw [ushift_comm ty 0 (k + off - (i + 1)) (i + 1 - off) 1 (Nat.zero_le _),
                show k + off - (i + 1) + (i + 1 - off) = k by omega]
            · obtain ⟨h1, h2⟩ := hT.hi i _ (by omega) hg
              simp only at h2
              simp only [ushift, if_pos (show i ≥ k by omega)]
              unfold inferX
              simp only [h1, if_neg (show ¬ (i + 1 + 1 < off) by omega)]
              rw [ushift_ushift_mid ty k 0 1 (i + 1 - off) (Nat.zero_le _) (by omega),
                show i + 1 + 1 - off = 1 + (i + 1 - off) by omega]
      case lam x im d b =>
        simp only [Tm.holeFree, Bool.and_eq_true] at ht
        unfold inferX at h
        simp only at h
        split at h
        · cases h
        · rename_i dty h1
          split at h
          · cases h
          · rename_i h2
            split at h
            · cases h
            · rename_i cod h3
              cases h
              have hdty := inferX_type_holeFree ht.1 hΓ hD h1
              have e3 := ih1 (k+1) _ _ _ _ _ _ (hT.cons d 0) hW.none (THF_cons ht.1 hΓ) (DHF_none hD)
                ht.2 h3
              simp only [ushift]
              unfold inferX
              simp only [ih1 k _ _ _ _ _ _ hT hW hΓ hD ht.1 h1, isTypeX_wk hW hD hdty h2]
              rw [Nat.add_zero] at e3
              simp only [e3]
      case pi x im d c =>
        simp only [Tm.holeFree, Bool.and_eq_true] at ht
        unfold inferX at h
        simp only at h
        split at h
        · cases h
        · rename_i dty h1
          split at h
          · cases h
          · rename_i h2
            split at h
            · cases h
            · rename_i cty h3
              split at h
              · cases h
              · rename_i h4
                cases h
                have hdty := inferX_type_holeFree ht.1 hΓ hD h1
                have hcty := inferX_type_holeFree ht.2 (THF_cons ht.1 hΓ) (DHF_none hD) h3
                have e3 := ih1 (k+1) _ _ _ _ _ _ (hT.cons d 0) hW.none (THF_cons ht.1 hΓ)
                  (DHF_none hD) ht.2 h3
                simp only [ushift]
                unfold inferX
                simp only [ih1 k _ _ _ _ _ _ hT hW hΓ hD ht.1 h1, isTypeX_wk hW hD hdty h2]
                rw [Nat.add_zero] at e3
                simp only [e3, isTypeX_wk hW.none (DHF_none hD) hcty h4]
      case app g a =>
        simp only [Tm.holeFree, Bool.and_eq_true] at ht
        unfold inferX at h
        simp only at h
        split at h
        · cases h
        · rename_i gty h1
          have hgty := inferX_type_holeFree ht.1 hΓ hD h1
          split at h
          · cases h
          · rename_i x im dom cod hw
            have hpi := whnfX_holeFree hw hD hgty
            simp only [Tm.holeFree, Bool.and_eq_true] at hpi
            split at h
            · cases h
            · rename_i aty h2
              split at h
              · cases h
              · rename_i h3
                cases h
                have haty := inferX_type_holeFree ht.2 hΓ hD h2
                have hw' := whnfX_wk f k Δ Δ' _ _ hW hD hgty hw
                simp only [ushift] at hw' ⊢
                unfold inferX
                simp only [ih1 k _ _ _ _ _ _ hT hW hΓ hD ht.1 h1, hw',
                  ih1 k _ _ _ _ _ _ hT hW hΓ hD ht.2 h2, expectX_wk hW hD haty hpi.1 h3]
                rw [open_ushift_high cod a 0 k 1 0 hpi.2 (Nat.zero_le _), Nat.sub_zero]
          · rename_i id sh hw
            have hpi := whnfX_holeFree hw hD hgty
            simp [Tm.holeFree] at hpi
          · cases h
      case letg ds body =>
        simp only [Tm.holeFree, Bool.and_eq_true] at ht
        obtain ⟨hΓ', hD'⟩ := pushGroupX_HF ds 0 Γ Δ ht.1 hΓ hD
        obtain ⟨hT', hW'⟩ := pushGroupX_wk ds 0 k Γ Γ' Δ Δ' hT hW
        unfold inferX at h
        simp only at h
        split at h
        · cases h
        · rename_i h1
          split at h
          · cases h
          · rename_i bty h2
            cases h
            simp only [ushift]
            unfold inferX
            simp only [ih2 _ _ _ _ _ _ hT' hW' hΓ' hD' ht.1 h1,
              ih1 _ _ _ _ _ _ _ hT' hW' hΓ' hD' ht.2 h2]
      case neg a =>
        simp only [Tm.holeFree] at ht
        unfold inferX at h
        simp only at h
        split at h
        · cases h
        · rename_i aty h1
          split at h
          · cases h
          · rename_i h2
            cases h
            have haty := inferX_type_holeFree ht hΓ hD h1
            have e2 := expectX_wk hW hD haty rfl h2
            simp only [ushift] at e2 ⊢
            unfold inferX
            simp only [ih1 k _ _ _ _ _ _ hT hW hΓ hD ht h1, e2]
      case bin op a b =>
        simp only [Tm.holeFree, Bool.and_eq_true] at ht
        unfold inferX at h
        simp only at h
        split at h
        · cases h
        · rename_i aty h1
          split at h
          · cases h
          · rename_i h2
            split at h
            · cases h
            · rename_i bty h3
              split at h
              · cases h
              · rename_i h4
                cases h
                have haty := inferX_type_holeFree ht.1 hΓ hD h1
                have hbty := inferX_type_holeFree ht.2 hΓ hD h3
                have e2 := expectX_wk hW hD haty rfl h2
                have e4 := expectX_wk hW hD hbty rfl h4
                simp only [ushift] at e2 e4 ⊢
                unfold inferX
                simp only [ih1 k _ _ _ _ _ _ hT hW hΓ hD ht.1 h1, e2,
                  ih1 k _ _ _ _ _ _ hT hW hΓ hD ht.2 h3, e4]
                cases op <;> rfl
      case ite c a b =>
        simp only [Tm.holeFree, Bool.and_eq_true] at ht
        unfold inferX at h
        simp only at h
        split at h
        · cases h
        · rename_i cty h1
          split at h
          · cases h
          · rename_i h2
            split at h
            · cases h
            · rename_i aty h3
              split at h
              · cases h
              · rename_i bty h4
                split at h
                · cases h
                · rename_i h5
                  cases h
                  have hcty := inferX_type_holeFree ht.1.1 hΓ hD h1
                  have haty := inferX_type_holeFree ht.1.2 hΓ hD h3
                  have hbty := inferX_type_holeFree ht.2 hΓ hD h4
                  have e2 := expectX_wk hW hD hcty rfl h2
                  simp only [ushift] at e2 ⊢
                  unfold inferX
                  simp only [ih1 k _ _ _ _ _ _ hT hW hΓ hD ht.1.1 h1, e2,
                    ih1 k _ _ _ _ _ _ hT hW hΓ hD ht.1.2 h3, ih1 k _ _ _ _ _ _ hT hW hΓ hD ht.2 h4,
                    expectX_wk hW hD haty hbty h5]
      all_goals (unfold inferX at h; cases h; simp only [ushift]; unfold inferX; rfl)
    · intro k Γ Γ' Δ Δ' ds hT hW hΓ hD hds h
      cases ds
      case nil => simp only [ushiftDefs]; unfold inferDefsX; rfl
      case cons x ann d r =>
        simp only [Defs.holeFree, Bool.and_eq_true] at hds
        unfold inferDefsX at h
        simp only at h
        split at h
        · cases h
        · rename_i annTy h1
          split at h
          · cases h
          · rename_i h2
            split at h
            · cases h
            · rename_i dty h3
              split at h
              · cases h
              · rename_i h4
                have hannTy := inferX_type_holeFree hds.1.1 hΓ hD h1
                have hdty := inferX_type_holeFree hds.1.2 hΓ hD h3
                simp only [ushiftDefs]
                unfold inferDefsX
                simp only [ih1 k _ _ _ _ _ _ hT hW hΓ hD hds.1.1 h1, isTypeX_wk hW hD hannTy h2,
                  ih1 k _ _ _ _ _ _ hT hW hΓ hD hds.1.2 h3, expectX_wk hW hD hdty hds.1.1 h4]
                exact ih2 k _ _ _ _ _ hT hW hΓ hD hds.2 h

theorem inferX_wk {f k : Nat} {Γ Γ' : TCtxX} {Δ Δ' : DCtxX} {t T : Tm} (hT : WkT k Γ Γ')
    (hW : WkD k Δ Δ') (hΓ : THF Γ) (hD : DHF Δ) (ht : t.holeFree = true)
    (h : inferX f Γ Δ t = .ok T) : inferX f Γ' Δ' (ushift k 1 t) = .ok (ushift k 1 T) :=
  (inferX_wk_aux f).1 k Γ Γ' Δ Δ' t T hT hW hΓ hD ht h


/-! ## an unused definition in front of a term -/

/-- the offsets of a typing context are in range: entry `i` is stored at most `i + 1` entries deep -/
def OffsT (Γ : TCtxX) : Prop := ∀ i ty off, Γ[i]? = some (ty, off) → off ≤ i + 1
/-- the offsets of a definitions context are in range -/
def OffsD (Δ : DCtxX) : Prop := ∀ i d off, Δ[i]? = some (some (d, off)) → off ≤ i + 1

theorem unused_def_infer {f : Nat} {Γ : TCtxX} {Δ : DCtxX} (u : Name) (n : Int) {e T : Tm}
    (he : e.holeFree = true) (hΓ : THF Γ) (hD : DHF Δ) (wΓ : OffsT Γ) (wΔ : OffsD Δ)
    (h : inferX f Γ Δ e = .ok T) :
    inferX (f+2) Γ Δ (.letg (.cons u .int (.lit n) .nil) (ushift 0 1 e)) =
      .ok (.letg (.cons u .int (.lit n) .nil) (ushift 0 1 T)) := by
  cases f with
  | zero => simp [inferX] at h
  | succ f =>
    have hb := inferX_wk (WkT.zero (Γ := Γ) (.int, 1) wΓ) (WkD.zero (Δ := Δ) (some (.lit n, 1)) wΔ)
      hΓ hD he h
    have hb' := inferX_mono _ _ _ _ _ hb (ne_fuel_of_ok rfl)
    have hp : pushGroupX (.cons u .int (.lit n) .nil) 0 (Γ, Δ) =
        ((.int, 1) :: Γ, some (.lit n, 1) :: Δ) := rfl
    have hi : ∀ (Γ' : TCtxX) (Δ' : DCtxX), inferX (f+1) Γ' Δ' .int = .ok .type := by
      intro Γ' Δ'; unfold inferX; rfl
    have hl : ∀ (Γ' : TCtxX) (Δ' : DCtxX), inferX (f+1) Γ' Δ' (.lit n) = .ok .int := by
      intro Γ' Δ'; unfold inferX; rfl
    have hn : ∀ (Γ' : TCtxX) (Δ' : DCtxX), inferDefsX (f+1) Γ' Δ' .nil = .ok () := by
      intro Γ' Δ'; unfold inferDefsX; rfl
    have hds : ∀ (Γ' : TCtxX) (Δ' : DCtxX),
        inferDefsX (f+2) Γ' Δ' (.cons u .int (.lit n) .nil) = .ok () := by
      intro Γ' Δ'
      conv => lhs; unfold inferDefsX
      simp only [hi, hl, hn, isTypeX_type, expectX_same (sameX_refl _)]
    conv => lhs; unfold inferX
    simp only [hp, hds, hb']

theorem unused_def_conv (Δ : DCtxX) (u : Name) (a d T : Tm) :
    Conv Δ (.letg (.cons u a d .nil) (ushift 0 1 T)) T := by
  have h1 := Red1.letStep (Δ := Δ) u a d .nil (ushift 0 1 T)
  simp only [letStepX, Defs.len_nil, openDefs, open_ushift_cancel] at h1
  exact .trans (.red h1) (.red (.letNil _))

end RewriteTyping
