import GramModel.Lemmas.CCUnify
import GramModel.Lemmas.CCGroup

/-!
# No wrong rejection: the model of gram's checker never reports an error on an explicit hole-free
program the independent checker accepts (C05)
-/

namespace CheckComplete

open CCSubst CCPar WhnfLemmas UnifyAgree CheckNoPanic CheckSound TypingSound
open StoreMono (bind_ok pure_ok StoreLe)

/-- the one fact about groups the main induction needs: joinability of two types under the
(transparent) definitions of a group transfers to the closed group types -/
def GroupTransfer : Prop :=
  ∀ (Δ : DCtxX) (ds : Defs) (b b' : Tm), ds.holeFree = true → b.holeFree = true →
    b'.holeFree = true → DWF Δ → DHF Δ →
    Join (erD (pushedD ds ds.len Δ)) 0 (er b) (er b') →
    Join (erD Δ) 0 (er (.letg ds b)) (er (.letg ds b'))

/-! ## bookkeeping -/

theorem THF_of {Γ : TCtxX} (h : THF Γ) {i : Nat} {ty : Tm} {off : Nat} (e : Γ[i]? = some (ty, off)) :
    ty.holeFree = true := h _ (List.mem_of_getElem? e)
theorem TEX_of {Γ : TCtxX} (h : TEX Γ) {i : Nat} {ty : Tm} {off : Nat} (e : Γ[i]? = some (ty, off)) :
    explicitT ty = true := h _ (List.mem_of_getElem? e)

theorem TEX_cons {Γ : TCtxX} {d : Tm} {k : Nat} (hd : explicitT d = true) (h : TEX Γ) :
    TEX ((d, k) :: Γ) := by
  intro e he
  rcases List.mem_cons.1 he with e' | e'
  · subst e'; exact hd
  · exact h e e'

theorem DEX_some {Δ : DCtxX} {d : Tm} {k : Nat} (hd : explicitT d = true) (h : DEX Δ) :
    DEX (some (d, k) :: Δ) := by
  intro e he d' o hd'
  rcases List.mem_cons.1 he with e' | e'
  · subst e'; cases hd'; exact hd
  · exact h e e' d' o hd'

theorem pushed_EX : ∀ (ds : Defs) (k : Nat) (Γ : TCtxX) (Δ : DCtxX), explicitDefs ds = true →
    TEX Γ → DEX Δ → TEX (pushedT ds k Γ) ∧ DEX (pushedD ds k Δ)
  | .nil, _, _, _, _, hΓ, hΔ => ⟨hΓ, hΔ⟩
  | .cons x a d r, k, Γ, Δ, h, hΓ, hΔ => by
      simp only [explicitDefs, Bool.and_eq_true] at h
      simp only [pushedT, pushedD]
      exact pushed_EX r (k-1) _ _ h.2 (TEX_cons h.1.1 hΓ) (DEX_some h.1.2 hΔ)

theorem letTypeX_explicit (ds : Defs) (hds : explicitDefs ds = true) : ∀ (k i : Nat) (acc : Tm),
    explicitT acc = true → explicitT (letTypeX ds k i acc) = true := by
  intro k
  induction k with
  | zero => intro i acc h; exact h
  | succ k ih =>
    intro i acc h
    unfold letTypeX
    refine ih _ _ (explicit_openT _ _ _ _ h ?_)
    simp only [explicitT, Bool.and_eq_true, and_true]
    rw [explicitDefs_ushiftDefs]; exact hds

theorem popN_nerrs : ∀ (k : Nat) (s s' : St) (u : Unit), popN k s = .ok u s' →
    s'.nerrs = s.nerrs ∧ s'.store = s.store := by
  intro k
  induction k with
  | zero => intro s s' u h; unfold popN at h; obtain ⟨_, rfl⟩ := pure_ok h; exact ⟨rfl, rfl⟩
  | succ k ih =>
    intro s s' u h
    unfold popN at h
    obtain ⟨u1, s1, h1, h2⟩ := bind_ok h
    cases h1
    obtain ⟨e1, e2⟩ := ih _ _ _ h2
    exact ⟨e1, e2⟩

/-- the context invariants of one state -/
structure CtxOK (s : St) : Prop where
  thf : THF s.tctx
  dhf : DHF s.dctx
  tex : TEX s.tctx
  dex : DEX s.dctx
  off : COff s.tctx s.dctx

theorem CtxOK.dwf {s : St} (h : CtxOK s) : DWF s.dctx := h.off.d

theorem CtxOK.of_eq {s s1 : St} (h : CtxOK s) (c1 : s1.tctx = s.tctx) (c2 : s1.dctx = s.dctx) :
    CtxOK s1 := by
  obtain ⟨a, b, c, d, e⟩ := h
  exact ⟨by rw [c1]; exact a, by rw [c2]; exact b, by rw [c1]; exact c, by rw [c2]; exact d,
    by rw [c1, c2]; exact e⟩

theorem CtxOK.push {s : St} (h : CtxOK s) {d : Tm} (hd : d.holeFree = true)
    (xd : explicitT d = true) :
    CtxOK { s with tctx := (d, 0) :: s.tctx, dctx := none :: s.dctx } :=
  ⟨THF_cons hd h.thf, DHF_none h.dhf, TEX_cons xd h.tex, h.dex.push, h.off.push d⟩

/-- a check `if !(← unifyS a b) then reportError` of two hole-free types with joinable erasures:
nothing is reported and the state is untouched -/
theorem check_true {β} {f : Nat} {a b : Tm} {K : M β} {s s' : St} {x : β}
    (ha : a.holeFree = true) (hb : b.holeFree = true) (hD : DHF s.dctx) (hW : DWF s.dctx)
    (hj : Join (erD s.dctx) 0 (er a) (er b))
    (h : (unifyS f a b >>= fun r => if (!r) = true then (do reportError; K) else K) s = .ok x s') :
    K s = .ok x s' := by
  obtain ⟨r, s1, h1, h2⟩ := bind_ok h
  obtain ⟨rfl, rfl⟩ := unifyS_ok_true ha hb hD hW hj h1
  simpa using h2

/-- a conversion the oracle checked, as joinability -/
theorem convX_join {g : Nat} {Δ : DCtxX} {a b : Tm} (ha : a.holeFree = true) (hb : b.holeFree = true)
    (hD : DHF Δ) (hW : DWF Δ) (h : convX g Δ a b = some true) : Join (erD Δ) 0 (er a) (er b) :=
  Conv.join (convX_sound g Δ a b ha hb hD h) hW

theorem jtrans {Δ : DCtxX} (hW : DWF Δ) {n : Nat} {a b c : Tm} (h1 : Join (erD Δ) n a b)
    (h2 : Join (erD Δ) n b c) : Join (erD Δ) n a c :=
  Join.trans (DWF_erD hW) (DHF_erD _) h1 h2

/-! ## the main induction -/

/-- what the induction proves about a run of `inferS` that answers, on a term the oracle accepts -/
def InferC (f : Nat) : Prop :=
  ∀ (t : Tm) (s : St) (e ty : Tm) (s' : St) (g : Nat) (T : Tm), t.holeFree = true →
    explicitT t = true → CtxOK s → inferX g s.tctx s.dctx t = .ok T →
    inferS f t s = .ok (e, ty) s' →
    s'.nerrs = s.nerrs ∧ ty.holeFree = true ∧ explicitT ty = true ∧
      Join (erD s.dctx) 0 (er ty) (er T)
def InferDefsC (f : Nat) : Prop :=
  ∀ (ds : Defs) (s : St) (l : List Tm) (s' : St) (g : Nat), ds.holeFree = true →
    explicitDefs ds = true → CtxOK s → inferDefsX g s.tctx s.dctx ds = .ok () →
    inferDefsS f ds s = .ok l s' → s'.nerrs = s.nerrs

/-- a sub-call of `inferS` -/
theorem infer_sub {f : Nat} (ih : InferC f) {β} {t : Tm} {K : Tm × Tm → M β} {s s' : St} {x : β}
    {g : Nat} {T : Tm} (ht : t.holeFree = true) (hx : explicitT t = true) (hs : CtxOK s)
    (hX : inferX g s.tctx s.dctx t = .ok T) (h : (inferS f t >>= K) s = .ok x s') :
    ∃ ty s1, K (t, ty) s1 = .ok x s' ∧ s1.tctx = s.tctx ∧ s1.dctx = s.dctx ∧
      s1.nerrs = s.nerrs ∧ StoreLe s.store s1.store ∧ ty.holeFree = true ∧ explicitT ty = true ∧
      T.holeFree = true ∧ Join (erD s.dctx) 0 (er ty) (er T) := by
  obtain ⟨⟨t', ty⟩, s1, h1, h2⟩ := bind_ok h
  obtain ⟨n1, hty, xty, j⟩ := ih _ _ _ _ _ _ _ ht hx hs hX h1
  have et : t' = t := inferS_elab_id h1
  subst et
  obtain ⟨c1, c2⟩ := ctx_of_infer h1
  exact ⟨ty, s1, h2, c1, c2, n1, ((StoreMono.inferS_le f t').out _ _ _ h1).1, hty, xty,
    inferX_type_holeFree ht hs.thf hs.dhf hX, j⟩


theorem infer_stepC_simple (f : Nat) (ih1 : InferC f) (t : Tm) (s : St) (e ty : Tm) (s' : St)
    (g : Nat) (T : Tm) (ht : t.holeFree = true) (hx : explicitT t = true) (hs : CtxOK s)
    (hX : inferX (g+1) s.tctx s.dctx t = .ok T) (h : inferS (f+1) t s = .ok (e, ty) s')
    (hna : ∀ g0 a, t ≠ .app g0 a) (hnl : ∀ ds b, t ≠ .letg ds b) :
    s'.nerrs = s.nerrs ∧ ty.holeFree = true ∧ explicitT ty = true ∧
      Join (erD s.dctx) 0 (er ty) (er T) := by
  have hW := hs.dwf
  have hD := hs.dhf
  unfold inferX at hX
  cases t <;> simp only at hX
  case hole => cases ht
  case app => exact (hna _ _ rfl).elim
  case letg => exact (hnl _ _ rfl).elim
  case type =>
    unfold inferS at h; obtain ⟨e', rfl⟩ := pure_ok h; cases e'; cases hX
    exact ⟨rfl, rfl, rfl, Join.refl _ _⟩
  case int =>
    unfold inferS at h; obtain ⟨e', rfl⟩ := pure_ok h; cases e'; cases hX
    exact ⟨rfl, rfl, rfl, Join.refl _ _⟩
  case bool =>
    unfold inferS at h; obtain ⟨e', rfl⟩ := pure_ok h; cases e'; cases hX
    exact ⟨rfl, rfl, rfl, Join.refl _ _⟩
  case tt =>
    unfold inferS at h; obtain ⟨e', rfl⟩ := pure_ok h; cases e'; cases hX
    exact ⟨rfl, rfl, rfl, Join.refl _ _⟩
  case ff =>
    unfold inferS at h; obtain ⟨e', rfl⟩ := pure_ok h; cases e'; cases hX
    exact ⟨rfl, rfl, rfl, Join.refl _ _⟩
  case lit n =>
    unfold inferS at h; obtain ⟨e', rfl⟩ := pure_ok h; cases e'; cases hX
    exact ⟨rfl, rfl, rfl, Join.refl _ _⟩
  case var x i =>
    unfold inferS at h
    dsimp only at h
    obtain ⟨st, s1, h1, h2⟩ := bind_ok h
    cases h1
    rcases heq : s.tctx[i]? with _ | ⟨ty0, off⟩ <;> rw [heq] at h2 hX <;> dsimp only at h2 hX
    · cases h2
    · split at h2
      · cases h2
      · next hlt =>
        rw [if_neg hlt] at hX
        cases hX
        have hty0 : ty0.holeFree = true := THF_of hs.thf heq
        have h2 := (ushiftS_P f 0 (i + 1 - off) ty0 hty0).bind_inv h2
        obtain ⟨e', rfl⟩ := pure_ok h2
        cases e'
        refine ⟨rfl, by rw [ushift_holeFree]; exact hty0, ?_, Join.refl _ _⟩
        rw [explicit_ushift]; exact TEX_of hs.tex heq
  case lam x im d b =>
    simp only [Tm.holeFree, Bool.and_eq_true] at ht
    simp only [explicitT, Bool.and_eq_true] at hx
    unfold inferS at h
    dsimp only at h
    split at hX
    · cases hX
    · rename_i dty h1
      split at hX
      · cases hX
      · rename_i h2
        split at hX
        · cases hX
        · rename_i cod h3
          cases hX
          obtain ⟨dtyS, s1, h4, c1, c2, n1, _, hdty, _, hdtyX, jd⟩ :=
            infer_sub ih1 ht.1 hx.1.2 hs h1 h
          dsimp only at h4
          have hs1 := hs.of_eq c1 c2
          have jt : Join (erD s1.dctx) 0 (er dtyS) (er .type) := by
            rw [c2]
            exact jtrans hW jd (convX_join hdtyX rfl hD hW (isTypeX_ok h2))
          have h5 := check_true hdty rfl hs1.dhf hs1.dwf jt h4
          obtain ⟨u, s2, h6, h7⟩ := bind_ok h5
          cases h6
          have hs2 := hs1.push ht.1 hx.1.2
          obtain ⟨codS, s3, h8, c3, c4, n3, _, hcod, xcod, _, jb⟩ :=
            infer_sub ih1 ht.2 hx.2 hs2 (by show inferX g ((d, 0) :: s1.tctx) (none :: s1.dctx) b = _
                                            rw [c1, c2]; exact h3) h7
          dsimp only at h8
          obtain ⟨u2, s4, h9, h10⟩ := bind_ok h8
          cases h9
          obtain ⟨e', rfl⟩ := pure_ok h10
          cases e'
          refine ⟨by show s3.nerrs = s.nerrs; rw [n3]; exact n1, by simp [Tm.holeFree, ht.1, hcod],
            by simp [explicitT, hx.1.1, hx.1.2, xcod], ?_⟩
          simp only [er]
          have jb' : Join (erD (none :: s.dctx)) 0 (er codS) (er cod) := by rw [← c2]; exact jb
          exact Join.pi (DHF_erD _) 0 im (er_holeFree _) (er_holeFree _) (er_holeFree _)
            (er_holeFree _) (Join.refl _ _) (Join.push1 jb')
  case pi x im d c =>
    simp only [Tm.holeFree, Bool.and_eq_true] at ht
    simp only [explicitT, Bool.and_eq_true] at hx
    unfold inferS at h
    dsimp only at h
    split at hX
    · cases hX
    · rename_i dty h1
      split at hX
      · cases hX
      · rename_i h2
        split at hX
        · cases hX
        · rename_i cty h3
          split at hX
          · cases hX
          · rename_i h3'
            cases hX
            obtain ⟨dtyS, s1, h4, c1, c2, n1, _, hdty, _, hdtyX, jd⟩ :=
              infer_sub ih1 ht.1 hx.1.2 hs h1 h
            dsimp only at h4
            have hs1 := hs.of_eq c1 c2
            have jt : Join (erD s1.dctx) 0 (er dtyS) (er .type) := by
              rw [c2]
              exact jtrans hW jd (convX_join hdtyX rfl hD hW (isTypeX_ok h2))
            have h5 := check_true hdty rfl hs1.dhf hs1.dwf jt h4
            obtain ⟨u, s2, h6, h7⟩ := bind_ok h5
            cases h6
            have hs2 := hs1.push ht.1 hx.1.2
            obtain ⟨ctyS, s3, h8, c3, c4, n3, _, hcty, _, hctyX, jc⟩ :=
              infer_sub ih1 ht.2 hx.2 hs2 (by show inferX g ((d, 0) :: s1.tctx) (none :: s1.dctx) c = _
                                              rw [c1, c2]; exact h3) h7
            dsimp only at h8
            have hs3 := hs2.of_eq c3 c4
            have jt2 : Join (erD s3.dctx) 0 (er ctyS) (er .type) := by
              rw [c4]
              refine jtrans hs2.dwf jc (convX_join (g := g) hctyX rfl hs2.dhf hs2.dwf ?_)
              show convX g (none :: s1.dctx) cty .type = some true
              rw [c2]; exact isTypeX_ok h3'
            have h9 := check_true hcty rfl hs3.dhf hs3.dwf jt2 h8
            obtain ⟨u2, s4, h10, h11⟩ := bind_ok h9
            cases h10
            obtain ⟨e', rfl⟩ := pure_ok h11
            cases e'
            exact ⟨by show s3.nerrs = s.nerrs; rw [n3]; exact n1, rfl, rfl, Join.refl _ _⟩
  case neg a =>
    simp only [Tm.holeFree] at ht
    simp only [explicitT] at hx
    unfold inferS at h
    dsimp only at h
    split at hX
    · cases hX
    · rename_i aty h1
      split at hX
      · cases hX
      · rename_i h2
        cases hX
        obtain ⟨atyS, s1, h4, c1, c2, n1, _, haty, _, hatyX, ja⟩ := infer_sub ih1 ht hx hs h1 h
        dsimp only at h4
        have hs1 := hs.of_eq c1 c2
        have jt : Join (erD s1.dctx) 0 (er atyS) (er .int) := by
          rw [c2]
          exact jtrans hW ja (convX_join hatyX rfl hD hW (expectX_ok h2))
        have h5 := check_true haty rfl hs1.dhf hs1.dwf jt h4
        obtain ⟨e', rfl⟩ := pure_ok h5
        cases e'
        exact ⟨n1, rfl, rfl, Join.refl _ _⟩
  case bin op a b =>
    simp only [Tm.holeFree, Bool.and_eq_true] at ht
    simp only [explicitT, Bool.and_eq_true] at hx
    unfold inferS at h
    dsimp only at h
    split at hX
    · cases hX
    · rename_i aty h1
      split at hX
      · cases hX
      · rename_i h2
        split at hX
        · cases hX
        · rename_i bty h3
          split at hX
          · cases hX
          · rename_i h3'
            cases hX
            obtain ⟨atyS, s1, h4, c1, c2, n1, _, haty, _, hatyX, ja⟩ := infer_sub ih1 ht.1 hx.1 hs h1 h
            dsimp only at h4
            have hs1 := hs.of_eq c1 c2
            have jt : Join (erD s1.dctx) 0 (er atyS) (er .int) := by
              rw [c2]
              exact jtrans hW ja (convX_join hatyX rfl hD hW (expectX_ok h2))
            have h5 := check_true haty rfl hs1.dhf hs1.dwf jt h4
            obtain ⟨btyS, s2, h6, c3, c4, n2, _, hbty, _, hbtyX, jb⟩ :=
              infer_sub ih1 ht.2 hx.2 hs1 (by rw [c1, c2]; exact h3) h5
            dsimp only at h6
            have hs2 := hs1.of_eq c3 c4
            have jt2 : Join (erD s2.dctx) 0 (er btyS) (er .int) := by
              rw [c4]
              refine jtrans hs1.dwf jb (convX_join (g := g) hbtyX rfl hs1.dhf hs1.dwf ?_)
              rw [c2]; exact expectX_ok h3'
            have h7 := check_true hbty rfl hs2.dhf hs2.dwf jt2 h6
            obtain ⟨e', rfl⟩ := pure_ok h7
            cases e'
            refine ⟨by rw [n2]; exact n1, ?_, ?_, Join.refl _ _⟩
            · cases op <;> rfl
            · cases op <;> rfl
  case ite c a b =>
    simp only [Tm.holeFree, Bool.and_eq_true] at ht
    simp only [explicitT, Bool.and_eq_true] at hx
    unfold inferS at h
    dsimp only at h
    split at hX
    · cases hX
    · rename_i cty h1
      split at hX
      · cases hX
      · rename_i h2
        split at hX
        · cases hX
        · rename_i aty h3
          split at hX
          · cases hX
          · rename_i bty h3'
            split at hX
            · cases hX
            · rename_i h3''
              cases hX
              obtain ⟨ctyS, s1, h4, c1, c2, n1, _, hcty, _, hctyX, jc⟩ :=
                infer_sub ih1 ht.1.1 hx.1.1 hs h1 h
              dsimp only at h4
              have hs1 := hs.of_eq c1 c2
              have jt : Join (erD s1.dctx) 0 (er ctyS) (er .bool) := by
                rw [c2]
                exact jtrans hW jc (convX_join hctyX rfl hD hW (expectX_ok h2))
              have h5 := check_true hcty rfl hs1.dhf hs1.dwf jt h4
              obtain ⟨atyS, s2, h6, c3, c4, n2, _, haty, xaty, hatyX, ja⟩ :=
                infer_sub ih1 ht.1.2 hx.1.2 hs1 (by rw [c1, c2]; exact h3) h5
              dsimp only at h6
              have hs2 := hs1.of_eq c3 c4
              obtain ⟨btyS, s3, h7, c5, c6, n3, _, hbty, _, hbtyX, jb⟩ :=
                infer_sub ih1 ht.2 hx.2 hs2 (by rw [c3, c4, c1, c2]; exact h3') h6
              dsimp only at h7
              have hs3 := hs2.of_eq c5 c6
              have ja' : Join (erD s.dctx) 0 (er atyS) (er T) := by rw [← c2]; exact ja
              have jb' : Join (erD s.dctx) 0 (er btyS) (er bty) := by rw [← c2, ← c4]; exact jb
              have jt2 : Join (erD s3.dctx) 0 (er atyS) (er btyS) := by
                rw [c6, c4, c2]
                exact jtrans hW ja' (jtrans hW (convX_join hatyX hbtyX hD hW (expectX_ok h3''))
                  jb'.symm)
              have h8 := check_true haty hbty hs3.dhf hs3.dwf jt2 h7
              obtain ⟨e', rfl⟩ := pure_ok h8
              cases e'
              exact ⟨by rw [n3, n2]; exact n1, haty, xaty, ja'⟩


theorem infer_appC (f : Nat) (ih1 : InferC f) (g0 a : Tm) (s : St) (e ty : Tm) (s' : St)
    (g : Nat) (T : Tm) (ht : (Tm.app g0 a).holeFree = true) (hx : explicitT (Tm.app g0 a) = true)
    (hs : CtxOK s) (hX : inferX (g+1) s.tctx s.dctx (.app g0 a) = .ok T)
    (h : inferS (f+1) (.app g0 a) s = .ok (e, ty) s') :
    s'.nerrs = s.nerrs ∧ ty.holeFree = true ∧ explicitT ty = true ∧
      Join (erD s.dctx) 0 (er ty) (er T) := by
  have hW := hs.dwf
  have hD := hs.dhf
  simp only [Tm.holeFree, Bool.and_eq_true] at ht
  simp only [explicitT, Bool.and_eq_true] at hx
  unfold inferX at hX
  simp only at hX
  unfold inferS at h
  dsimp only at h
  split at hX
  · cases hX
  · rename_i gty h1
    have hgtyX := inferX_type_holeFree ht.1 hs.thf hD h1
    split at hX
    · cases hX
    · rename_i x im dom cod hw
      have cw := whnfX_conv hw
      have hpi := whnfX_holeFree hw hD hgtyX
      simp only [Tm.holeFree, Bool.and_eq_true] at hpi
      split at hX
      · cases hX
      · rename_i aty h2
        split at hX
        · cases hX
        · rename_i h3
          cases hX
          -- the function
          obtain ⟨gtyS, s1, h4, c1, c2, n1, _, hgty, xgty, _, jg⟩ := infer_sub ih1 ht.1 hx.1 hs h1 h
          dsimp only at h4
          have hs1 := hs.of_eq c1 c2
          obtain ⟨i, s2, hi, h5⟩ := bind_ok h4
          cases hi
          obtain ⟨j, s3, hj, h6⟩ := bind_ok h5
          cases hj
          obtain ⟨r, s4, hu, h7⟩ := bind_ok h6
          have jpi : Join (erD s.dctx) 0 (er gtyS) (er (.pi x im dom cod)) :=
            jtrans hW jg (Conv.join cw hW)
          obtain ⟨rfl, y, A, B, es4, hA, hB, xA, xB, cg⟩ := unify_pi_fresh_x
            (s := { s1 with store := (s1.store ++ [none]) ++ [none] }) (i := s1.store.length)
            (j := (s1.store ++ [none]).length) (cellVal_fresh1 _) (cellVal_fresh2 _)
            (show (s1.store ++ [none]).length ≠ s1.store.length by simp) hgty hs1.dhf hs1.dwf xgty
            hs1.dex ⟨0, im, er dom, er cod, by show Join (erD s1.dctx) 0 _ _; rw [c2]; exact jpi⟩ hu
          simp only [Bool.not_true, Bool.false_eq_true, if_false] at h7
          have t4 : s4.tctx = s1.tctx := by rw [es4]
          have d4 : s4.dctx = s1.dctx := by rw [es4]
          have n4 : s4.nerrs = s1.nerrs := by rw [es4]
          have ci4 : cellVal s4.store s1.store.length = some A := by
            rw [es4]
            exact cellVal_set_set_1 _ _ _ A B
              (show s1.store.length < ((s1.store ++ [none]) ++ [none]).length by simp)
              (show (s1.store ++ [none]).length ≠ s1.store.length by simp)
          have cj4 : cellVal s4.store (s1.store ++ [none]).length = some B := by
            rw [es4]
            exact cellVal_set_set_2 _ _ _ A B
              (show (s1.store ++ [none]).length < ((s1.store ++ [none]) ++ [none]).length by simp)
          clear es4
          have hs4 := hs1.of_eq t4 d4
          -- the components of the two Π types
          have cg' : Conv s.dctx gtyS (.pi y false A B) := by
            have : Conv s1.dctx gtyS (.pi y false A B) := cg
            rw [c2] at this; exact this
          have jpp : Join (erD s.dctx) 0 (er (.pi y false A B)) (er (.pi x im dom cod)) :=
            jtrans hW (Conv.join cg' hW).symm jpi
          simp only [er] at jpp
          obtain ⟨_, jA, jB⟩ := Join.pi_inv jpp
          -- the argument
          obtain ⟨atyS, s5, h8, c5, c6, n5, le5, haty, _, hatyX, ja⟩ :=
            infer_sub ih1 ht.2 hx.2 hs4 (by rw [t4, d4, c1, c2]; exact h2) h7
          dsimp only at h8
          have hs5 := hs4.of_eq c5 c6
          obtain ⟨r2, s6, hu2, h9⟩ := bind_ok h8
          have hci := cellVal_of_le le5 ci4
          have hcj := cellVal_of_le le5 cj4
          have ja' : Join (erD s.dctx) 0 (er atyS) (er aty) := by rw [← c2, ← d4]; exact ja
          have jAa : Join (erD s5.dctx) 0 (er A) (er atyS) := by
            rw [c6, d4, c2]
            exact jtrans hW jA (jtrans hW (convX_join hatyX hpi.1 hD hW (expectX_ok h3)).symm ja'.symm)
          obtain ⟨rfl, rfl⟩ := unify_solved_true hci hA haty hs5.dhf hs5.dwf jAa hu2
          simp only [Bool.not_true, Bool.false_eq_true, if_false] at h9
          obtain ⟨tyv, s7, h10, h11⟩ := bind_ok h9
          obtain ⟨rfl, rfl⟩ := openS_solved hcj hB ht.2 h10
          obtain ⟨e', rfl⟩ := pure_ok h11
          cases e'
          refine ⟨by rw [n5, n4]; exact n1, openT_holeFree _ _ _ _ hB ht.2,
            explicit_openT _ _ _ _ xB hx.2, ?_⟩
          rw [er_openT, er_openT]
          have := Join.subst (DWF_erD hW) (DHF_erD _) (Join.refl 0 (er a)) (er_holeFree _)
            (er_holeFree _) 0 (Nat.le_refl _) (m := 0) (t := er B) (t' := er cod) jB (er_holeFree _)
            (er_holeFree _)
          exact this
    · rename_i id sh hw
      have hpi := whnfX_holeFree hw hD hgtyX
      cases hpi
    · cases hX


theorem infer_letgC (GT : GroupTransfer) (f : Nat) (ih1 : InferC f) (ih2 : InferDefsC f) (ds : Defs)
    (body : Tm) (s : St) (e ty : Tm) (s' : St) (g : Nat) (T : Tm)
    (ht : (Tm.letg ds body).holeFree = true) (hx : explicitT (Tm.letg ds body) = true)
    (hs : CtxOK s) (hX : inferX (g+1) s.tctx s.dctx (.letg ds body) = .ok T)
    (h : inferS (f+1) (.letg ds body) s = .ok (e, ty) s') :
    s'.nerrs = s.nerrs ∧ ty.holeFree = true ∧ explicitT ty = true ∧
      Join (erD s.dctx) 0 (er ty) (er T) := by
  have hW := hs.dwf
  have hD := hs.dhf
  simp only [Tm.holeFree, Bool.and_eq_true] at ht
  simp only [explicitT, Bool.and_eq_true] at hx
  unfold inferX at hX
  simp only at hX
  unfold inferS at h
  dsimp only at h
  split at hX
  · cases hX
  · rename_i h1
    split at hX
    · cases hX
    · rename_i bty h2
      cases hX
      obtain ⟨u, s1, hp, h3⟩ := bind_ok h
      have es1 := pushDefsS_state _ _ _ _ _ hp
      have t1 : s1.tctx = (pushGroupX ds 0 (s.tctx, s.dctx)).1 := by rw [es1, pushGroupX_eq]
      have d1 : s1.dctx = (pushGroupX ds 0 (s.tctx, s.dctx)).2 := by rw [es1, pushGroupX_eq]
      have d1' : s1.dctx = pushedD ds ds.len s.dctx := by rw [es1]
      have n1 : s1.nerrs = s.nerrs := by rw [es1]
      have hs1 : CtxOK s1 := by
        obtain ⟨hΓ', hD'⟩ := pushGroupX_HF ds 0 s.tctx s.dctx ht.1 hs.thf hD
        obtain ⟨xΓ', xD'⟩ := pushed_EX ds ds.len s.tctx s.dctx hx.1 hs.tex hs.dex
        refine ⟨by rw [t1]; exact hΓ', by rw [d1]; exact hD', ?_, ?_, ?_⟩
        · rw [es1]; exact xΓ'
        · rw [es1]; exact xD'
        · rw [es1]; exact (hs.off.pushed ds).1
      clear es1
      obtain ⟨ds', s2, h4, h5⟩ := bind_ok h3
      have n2 := ih2 _ _ _ _ g ht.1 hx.1 hs1 (by rw [t1, d1]; exact h1) h4
      rw [inferDefsS_elab_id h4] at h5
      obtain ⟨t2, d2⟩ := CtxH.restores (fun T D => inferDefsS_ctx f ds T D) h4
      have hs2 := hs1.of_eq t2 d2
      obtain ⟨btyS, s3, h6, t3, d3, n3, _, hbty, xbty, hbtyX, jb⟩ :=
        infer_sub ih1 ht.2 hx.2 hs2 (by rw [t2, d2, t1, d1]; exact h2) h5
      dsimp only at h6
      have h7 := (letTypeS_P f ds ht.1 ds.len 0 btyS hbty).bind_inv h6
      obtain ⟨u2, s4, h8, h9⟩ := bind_ok h7
      obtain ⟨e', rfl⟩ := pure_ok h9
      cases e'
      obtain ⟨n4, _⟩ := popN_nerrs _ _ _ _ h8
      refine ⟨by rw [n4, n3, n2]; exact n1, letTypeX_holeFree ds ht.1 _ _ _ hbty,
        letTypeX_explicit ds hx.1 _ _ _ xbty, ?_⟩
      have j1 : Join (erD s.dctx) 0 (er (groupTypeX ds btyS)) (er (.letg ds btyS)) :=
        (Conv.join (group_type_conv s.dctx ds btyS ht.1 hbty) hW).symm
      have jb' : Join (erD (pushedD ds ds.len s.dctx)) 0 (er btyS) (er bty) := by
        rw [← d1', ← d2]; exact jb
      exact jtrans hW j1 (GT s.dctx ds btyS bty ht.1 hbty hbtyX hW hD jb')

theorem inferDefs_stepC (f : Nat) (ih1 : InferC f) (ih2 : InferDefsC f) : InferDefsC (f+1) := by
  intro ds s l s' g hds hxs hs hX h
  have hW := hs.dwf
  have hD := hs.dhf
  cases g with
  | zero => simp [inferDefsX] at hX
  | succ g =>
    unfold inferDefsX at hX
    cases ds with
    | nil =>
      unfold inferDefsS at h
      obtain ⟨_, rfl⟩ := pure_ok h
      rfl
    | cons x ann d r =>
      simp only [Defs.holeFree, Bool.and_eq_true] at hds
      simp only [explicitDefs, Bool.and_eq_true] at hxs
      simp only at hX
      unfold inferDefsS at h
      dsimp only at h
      split at hX
      · cases hX
      · rename_i annTy h1
        split at hX
        · cases hX
        · rename_i h2
          split at hX
          · cases hX
          · rename_i dty h3
            split at hX
            · cases hX
            · rename_i h4
              obtain ⟨annTyS, s1, h5, c1, c2, n1, _, hannTy, _, hannTyX, jann⟩ :=
                infer_sub ih1 hds.1.1 hxs.1.1 hs h1 h
              dsimp only at h5
              have hs1 := hs.of_eq c1 c2
              have jt : Join (erD s1.dctx) 0 (er annTyS) (er .type) := by
                rw [c2]
                exact jtrans hW jann (convX_join hannTyX rfl hD hW (isTypeX_ok h2))
              have h6 := check_true hannTy rfl hs1.dhf hs1.dwf jt h5
              obtain ⟨dtyS, s2, h7, c3, c4, n2, _, hdty, _, hdtyX, jd⟩ :=
                infer_sub ih1 hds.1.2 hxs.1.2 hs1 (by rw [c1, c2]; exact h3) h6
              dsimp only at h7
              have hs2 := hs1.of_eq c3 c4
              have jt2 : Join (erD s2.dctx) 0 (er dtyS) (er ann) := by
                rw [c4]
                refine jtrans hs1.dwf jd (convX_join (g := g) hdtyX hds.1.1 hs1.dhf hs1.dwf ?_)
                rw [c2]; exact expectX_ok h4
              have h8 := check_true hdty hds.1.1 hs2.dhf hs2.dwf jt2 h7
              obtain ⟨rest, s3, h9, h10⟩ := bind_ok h8
              have n3 := ih2 _ _ _ _ g hds.2 hxs.2 hs2 (by rw [c3, c4, c1, c2]; exact hX) h9
              obtain ⟨_, rfl⟩ := pure_ok h10
              rw [n3, n2]; exact n1

theorem infer_stepC (GT : GroupTransfer) (f : Nat) (ih1 : InferC f) (ih2 : InferDefsC f) :
    InferC (f+1) := by
  intro t s e ty s' g T ht hx hs hX h
  cases g with
  | zero => simp [inferX] at hX
  | succ g =>
    by_cases hna : ∃ g0 a, t = .app g0 a
    · obtain ⟨g0, a, rfl⟩ := hna
      exact infer_appC f ih1 g0 a s e ty s' g T ht hx hs hX h
    · by_cases hnl : ∃ ds b, t = .letg ds b
      · obtain ⟨ds, b, rfl⟩ := hnl
        exact infer_letgC GT f ih1 ih2 ds b s e ty s' g T ht hx hs hX h
      · exact infer_stepC_simple f ih1 t s e ty s' g T ht hx hs hX h
          (fun g0 a e => hna ⟨g0, a, e⟩) (fun ds b e => hnl ⟨ds, b, e⟩)

theorem infer_complete (GT : GroupTransfer) : ∀ f, InferC f ∧ InferDefsC f := by
  intro f
  induction f with
  | zero =>
    constructor
    · intro t s e ty s' g T _ _ _ _ h; rw [inferS] at h; cases h
    · intro ds s l s' g _ _ _ _ h; rw [inferDefsS] at h; cases h
  | succ f ih => exact ⟨infer_stepC GT f ih.1 ih.2, inferDefs_stepC f ih.1 ih.2⟩

theorem CtxOK_nil : CtxOK {} := by
  refine ⟨THF_nil, DHF_nil, ?_, ?_, ⟨rfl, ?_, ?_⟩⟩
  · intro e he; cases he
  · intro e he; cases he
  · intro i ty off e; simp at e
  · intro i d off e; simp at e

/-- **No wrong rejection** (relative to the group transfer property): on an explicit hole-free
program the oracle accepts, a run of the checker model that answers reports no error, and its type is
hole-free with erasure joinable with the oracle's type. -/
theorem checker_no_wrong_rejection_join (GT : GroupTransfer) {f g : Nat} {t T e ty : Tm} {s : St}
    (ht : t.holeFree = true) (hx : explicitT t = true) (hX : inferX g [] [] t = .ok T)
    (h : inferS f t {} = .ok (e, ty) s) :
    e = t ∧ s.nerrs = 0 ∧ ty.holeFree = true ∧ Join [] 0 (er ty) (er T) := by
  obtain ⟨n, hty, _, j⟩ := (infer_complete GT f).1 t {} e ty s g T ht hx CtxOK_nil hX h
  exact ⟨inferS_elab_id h, n, hty, j⟩


theorem groupTransfer : GroupTransfer :=
  fun Δ ds b b' _ _ _ hW _ hj => group_transfer Δ ds b b' hW hj


/-! ## back from joinability to conversion -/

theorem nones_get {n i : Nat} {Δ : DCtxX} (h : n ≤ i) :
    (List.replicate n (none : Option (Tm × Nat)) ++ Δ)[i]? = Δ[i - n]? := by
  rw [List.getElem?_append_right (by simpa using h)]
  simp

theorem nones_succ (n : Nat) (Δ : DCtxX) :
    (none : Option (Tm × Nat)) :: (List.replicate n none ++ Δ) = List.replicate (n + 1) none ++ Δ := by
  rw [List.replicate_succ]; rfl

theorem nones_add (n k : Nat) (Δ : DCtxX) :
    List.replicate k (none : Option (Tm × Nat)) ++ (List.replicate n none ++ Δ) =
      List.replicate (n + k) none ++ Δ := by
  rw [← List.append_assoc, List.replicate_append_replicate, Nat.add_comm]

mutual
theorem par_conv {Δ : DCtxX} (hW : DWF Δ) : ∀ {n : Nat} {t t' : Tm}, Par Δ n t t' →
    Conv (List.replicate n none ++ Δ) t t'
  | _, _, _, .type _ | _, _, _, .int _ | _, _, _, .bool _ | _, _, _, .tt _ | _, _, _, .ff _
  | _, _, _, .lit _ _ | _, _, _, .var _ _ _ => .refl _ _
  | _, _, _, .delta n x i d off hni hΔ => by
      have := hW _ _ _ hΔ
      exact .red (.delta x i d off (by rw [nones_get hni]; exact hΔ) (by omega))
  | _, _, _, .lam x im h1 h2 => by
      have c2 := par_conv hW h2
      rw [← nones_succ] at c2
      exact .lam x x im _ _ c2
  | _, _, _, .pi x im h1 h2 => by
      have c2 := par_conv hW h2
      rw [← nones_succ] at c2
      exact .pi x x im (par_conv hW h1) c2
  | _, _, _, .app h1 h2 => .app (par_conv hW h1) (par_conv hW h2)
  | _, _, _, @Par.beta _ n x im d d' b b' a a' h1 h2 h3 => by
      have c2 := par_conv hW h2
      rw [← nones_succ] at c2
      exact .trans (.app (.lam x x im d d c2) (par_conv hW h3)) (.red (.beta x im d b' a'))
  | _, _, _, @Par.letg _ n ds ds' b b' h1 h2 => by
      have c1 := parDefs_conv hW h1
      have c2 := par_conv hW h2
      rw [← nones_add] at c1 c2
      exact .letg c1 c2
  | _, _, _, @Par.letStep _ n x a a' d d' r r' b b' h1 h2 h3 h4 => by
      have c1 := par_conv hW h1
      have c2 := par_conv hW h2
      have c3 := parDefs_conv hW h3
      have c4 := par_conv hW h4
      have e : List.replicate (n + r.len + 1) (none : Option (Tm × Nat)) ++ Δ =
          List.replicate (Defs.cons x a d r).len none ++ (List.replicate n none ++ Δ) := by
        rw [nones_add]; rfl
      rw [e] at c1 c2 c3 c4
      have cg : Conv (List.replicate n none ++ Δ) (.letg (.cons x a d r) b) (.letg (.cons x a' d' r') b') :=
        .letg (.cons x x c1 c2 c3) c4
      refine .trans cg ?_
      have := Red1.letStep (Δ := List.replicate n none ++ Δ) x a' d' r' b'
      simp only [letStepX] at this
      rw [ParDefs.len h3] at this
      exact .red this
  | _, _, _, .letNil h => .trans (.red (.letNil _)) (par_conv hW h)
  | _, _, _, .neg h => .neg (par_conv hW h)
  | _, _, _, .negLit _ k => .red (.neg k)
  | _, _, _, .bin op h1 h2 => .bin op (par_conv hW h1) (par_conv hW h2)
  | _, _, _, .arith _ op x y r h => .red (.arith op x y r h)
  | _, _, _, .ite h1 h2 h3 => .ite (par_conv hW h1) (par_conv hW h2) (par_conv hW h3)
  | _, _, _, .iteT h1 _ => .trans (.red (.iteTrue _ _)) (par_conv hW h1)
  | _, _, _, .iteF _ h2 => .trans (.red (.iteFalse _ _)) (par_conv hW h2)
theorem parDefs_conv {Δ : DCtxX} (hW : DWF Δ) : ∀ {n : Nat} {t t' : Defs}, ParDefs Δ n t t' →
    ConvDefs (List.replicate n none ++ Δ) t t'
  | _, _, _, .nil _ => .nil _
  | _, _, _, .cons x h1 h2 h3 => .cons x x (par_conv hW h1) (par_conv hW h2) (parDefs_conv hW h3)
end

theorem pars_conv {Δ : DCtxX} (hW : DWF Δ) {n : Nat} {t t' : Tm} (h : Pars Δ n t t') :
    Conv (List.replicate n none ++ Δ) t t' := by
  induction h with
  | refl => exact .refl _ _
  | tail _ hp ih => exact .trans ih (par_conv hW hp)

theorem join_conv {Δ : DCtxX} (hW : DWF Δ) {t t' : Tm} (h : Join Δ 0 t t') : Conv Δ t t' := by
  obtain ⟨c, h1, h2⟩ := h
  have c1 := pars_conv hW h1
  have c2 := pars_conv hW h2
  simp only [List.replicate_zero, List.nil_append] at c1 c2
  exact .trans c1 (.symm c2)

mutual
theorem sameX_er : ∀ (t : Tm), t.holeFree = true → sameX t (er t) = true
  | .hole _ _, h => by cases h
  | .type, _ | .int, _ | .bool, _ | .tt, _ | .ff, _ => by simp [sameX, er]
  | .lit n, _ => by simp [sameX, er]
  | .var x i, _ => by simp [sameX, er]
  | .lam x im d b, h => by
      simp only [Tm.holeFree, Bool.and_eq_true] at h
      simp [sameX, er, sameX_er b h.2]
  | .pi x im d b, h => by
      simp only [Tm.holeFree, Bool.and_eq_true] at h
      simp [sameX, er, sameX_er d h.1, sameX_er b h.2]
  | .app f a, h => by
      simp only [Tm.holeFree, Bool.and_eq_true] at h
      simp [sameX, er, sameX_er f h.1, sameX_er a h.2]
  | .letg ds b, h => by
      simp only [Tm.holeFree, Bool.and_eq_true] at h
      simp [sameX, er, sameDefsX_er ds h.1, sameX_er b h.2]
  | .neg a, h => by
      simp only [Tm.holeFree] at h
      simp [sameX, er, sameX_er a h]
  | .bin op a b, h => by
      simp only [Tm.holeFree, Bool.and_eq_true] at h
      simp [sameX, er, sameX_er a h.1, sameX_er b h.2]
  | .ite c a b, h => by
      simp only [Tm.holeFree, Bool.and_eq_true] at h
      simp [sameX, er, sameX_er c h.1.1, sameX_er a h.1.2, sameX_er b h.2]
theorem sameDefsX_er : ∀ (ds : Defs), ds.holeFree = true → sameDefsX ds (erDefs ds) = true
  | .nil, _ => by simp [sameDefsX, erDefs]
  | .cons x a d r, h => by
      simp only [Defs.holeFree, Bool.and_eq_true] at h
      simp [sameDefsX, erDefs, sameX_er d h.1.2, sameDefsX_er r h.2]
end

/-- joinability of the erasures of two closed hole-free terms is convertibility -/
theorem join_er_conv {a b : Tm} (ha : a.holeFree = true) (hb : b.holeFree = true)
    (h : Join [] 0 (er a) (er b)) : Conv [] a b := by
  have c := join_conv (Δ := []) (fun p d off e => by simp at e) h
  exact .trans (.same (sameX_er a ha)) (.trans c (.symm (.same (sameX_er b hb))))

/-- **No wrong rejection.**  On an explicit hole-free closed program the oracle accepts, a run of the
checker model that answers (at whatever fuel) reports no error, returns the program itself, and its
type is hole-free and convertible with the oracle's. -/
theorem checker_no_wrong_rejection {f g : Nat} {t T e ty : Tm} {s : St}
    (ht : t.holeFree = true) (hx : explicitT t = true) (hX : inferX g [] [] t = .ok T)
    (h : inferS f t {} = .ok (e, ty) s) :
    e = t ∧ s.nerrs = 0 ∧ ty.holeFree = true ∧ Conv [] ty T := by
  obtain ⟨he, hn, hty, j⟩ := checker_no_wrong_rejection_join groupTransfer ht hx hX h
  exact ⟨he, hn, hty, join_er_conv hty (inferX_type_holeFree ht THF_nil DHF_nil hX) j⟩


/-! ## `zonk` of a hole-free term, the all-fuel form -/

mutual
theorem zonk_hf_some (σ : List (Option Tm)) : ∀ (t : Tm) (n : Nat), t.holeFree = true → t.size < n →
    zonk n σ t = some t
  | _, 0, _, h => by omega
  | .hole _ _, _+1, h, _ => by cases h
  | .type, n+1, _, _ | .int, n+1, _, _ | .bool, n+1, _, _ | .tt, n+1, _, _ | .ff, n+1, _, _
  | .lit _, n+1, _, _ | .var _ _, n+1, _, _ => by unfold zonk; rfl
  | .lam x im d b, n+1, h, hs => by
      simp only [Tm.holeFree, Bool.and_eq_true] at h
      simp only [Tm.size] at hs
      unfold zonk
      simp only [zonk_hf_some σ d n h.1 (by omega), zonk_hf_some σ b n h.2 (by omega)]
  | .pi x im d b, n+1, h, hs => by
      simp only [Tm.holeFree, Bool.and_eq_true] at h
      simp only [Tm.size] at hs
      unfold zonk
      simp only [zonk_hf_some σ d n h.1 (by omega), zonk_hf_some σ b n h.2 (by omega)]
  | .app f a, n+1, h, hs => by
      simp only [Tm.holeFree, Bool.and_eq_true] at h
      simp only [Tm.size] at hs
      unfold zonk
      simp only [zonk_hf_some σ f n h.1 (by omega), zonk_hf_some σ a n h.2 (by omega)]
  | .letg ds b, n+1, h, hs => by
      simp only [Tm.holeFree, Bool.and_eq_true] at h
      simp only [Tm.size] at hs
      unfold zonk
      simp only [zonkDefs_hf_some σ ds n h.1 (by omega), zonk_hf_some σ b n h.2 (by omega)]
  | .neg a, n+1, h, hs => by
      simp only [Tm.holeFree] at h
      simp only [Tm.size] at hs
      unfold zonk
      simp only [zonk_hf_some σ a n h (by omega)]
  | .bin op a b, n+1, h, hs => by
      simp only [Tm.holeFree, Bool.and_eq_true] at h
      simp only [Tm.size] at hs
      unfold zonk
      simp only [zonk_hf_some σ a n h.1 (by omega), zonk_hf_some σ b n h.2 (by omega)]
  | .ite c a b, n+1, h, hs => by
      simp only [Tm.holeFree, Bool.and_eq_true] at h
      simp only [Tm.size] at hs
      unfold zonk
      simp only [zonk_hf_some σ c n h.1.1 (by omega), zonk_hf_some σ a n h.1.2 (by omega),
        zonk_hf_some σ b n h.2 (by omega)]
theorem zonkDefs_hf_some (σ : List (Option Tm)) : ∀ (ds : Defs) (n : Nat), ds.holeFree = true →
    ds.size < n → zonkDefs n σ ds = some ds
  | _, 0, _, h => by omega
  | .nil, n+1, _, _ => by unfold zonkDefs; rfl
  | .cons x a d r, n+1, h, hs => by
      simp only [Defs.holeFree, Bool.and_eq_true] at h
      simp only [Defs.size] at hs
      unfold zonkDefs
      simp only [zonk_hf_some σ a n h.1.1 (by omega), zonk_hf_some σ d n h.1.2 (by omega),
        zonkDefs_hf_some σ r n h.2 (by omega)]
end

/-- **No wrong rejection, all-fuel form.**  At every fuel the run either runs out of fuel or accepts. -/
theorem checker_fuel_or_accept {g : Nat} {t T : Tm} (ht : t.holeFree = true)
    (hw : wellScoped 0 t = true) (hx : explicitT t = true) (hX : inferX g [] [] t = .ok T) (f : Nat) :
    inferS f t {} = .fuel ∨ ∃ (ty : Tm) (s : St), inferS f t {} = .ok (t, ty) s ∧ s.nerrs = 0 ∧
      ty.holeFree = true ∧ zonk (ty.size + 1) s.store ty = some ty ∧ Conv [] ty T := by
  cases h : inferS f t {} with
  | fuel => exact Or.inl rfl
  | panic site => exact (CheckNoPanic.inferS_holeFree_no_panic f 0 t site hw ht h).elim
  | ok p s =>
    obtain ⟨e, ty⟩ := p
    obtain ⟨rfl, hn, hty, c⟩ := checker_no_wrong_rejection ht hx hX h
    exact Or.inr ⟨ty, s, rfl, hn, hty, zonk_hf_some _ _ _ hty (Nat.lt_succ_self _), c⟩

/-- a function with an implicit parameter cannot be applied: `({a : type} => a) int` -/
def wImplicit : Tm := .app (.lam 1 true .type (.var 1 0)) .int

theorem wImplicit_props : wImplicit.holeFree = true ∧ wellScoped 0 wImplicit = true ∧
    inferX 3 [] [] wImplicit = .ok .type := ⟨by decide, by decide, by rfl⟩

theorem wImplicit_rejected :
    (match inferS 5 wImplicit {} with
     | .ok _ s => s.nerrs == 1
     | _ => false) = true := by decide

end CheckComplete

/-! # Divergence: a well-typed, hole-free, explicit program on which the checker model never answers

`T : (int -> type) = (n : int) => T n` / `(f : T 0 -> int) => (y : T 0) => f y`
-/

namespace CheckDiverge

open UnifyAgree CheckNoPanic CheckSound
open StoreMono (bind_ok pure_ok)

def wLoop : Tm :=
  .letg (.cons 1 (.pi 0 false .int .type) (.lam 2 false .int (.app (.var 1 1) (.var 2 0))) .nil)
    (.lam 3 false (.pi 0 false (.app (.var 1 0) (.lit 0)) .int)
      (.lam 4 false (.app (.var 1 1) (.lit 0)) (.app (.var 3 1) (.var 4 0))))

theorem wLoop_holeFree : wLoop.holeFree = true := by decide
theorem wLoop_scoped : wellScoped 0 wLoop = true := by decide
theorem wLoop_oracle : ∃ T, inferX 11 [] [] wLoop = .ok T := ⟨_, by rfl⟩

/-- the definition of `T` as stored in the definitions context -/
def lamT : Tm := .lam 2 false .int (.app (.var 1 1) (.var 2 0))

/-- `T 0` seen from `k` binders below the group -/
def T0 (k : Nat) : Tm := .app (.var 1 k) (.lit 0)

theorem lamT_hf : lamT.holeFree = true := by decide
theorem T0_hf (k : Nat) : (T0 k).holeFree = true := rfl

theorem ushift_lamT (k : Nat) :
    ushift 0 k lamT = .lam 2 false .int (.app (.var 1 (1 + k)) (.var 2 0)) := by
  simp [lamT, ushift]

theorem open_body (k : Nat) :
    openT (.app (.var 1 (1 + k)) (.var 2 0)) 0 (.lit 0) 0 = T0 k := by
  simp [openT, T0, ushift]

theorem whnfS_lam_inv {f : Nat} {x : Name} {im : Bool} {d b : Tm} {s s' : St} {a : Tm}
    (h : whnfS f (.lam x im d b) s = .ok a s') : a = .lam x im d b ∧ s' = s := by
  cases f with
  | zero => rw [whnfS] at h; cases h
  | succ f =>
    unfold whnfS at h
    obtain ⟨rfl, rfl⟩ := pure_ok h
    exact ⟨rfl, rfl⟩

/-- weak head normalisation of `T 0` never answers -/
theorem whnf_loop (k : Nat) : ∀ (f : Nat) (s : St), s.dctx[k]? = some (some (lamT, 1)) →
    ∀ r s', whnfS f (T0 k) s ≠ .ok r s' := by
  intro f
  induction f using Nat.strongRecOn with
  | _ f ih =>
    intro s hd r s' h
    cases f with
    | zero => rw [whnfS] at h; cases h
    | succ f =>
      unfold T0 at h
      unfold whnfS at h
      dsimp only at h
      obtain ⟨g', s1, h1, h2⟩ := bind_ok h
      cases f with
      | zero => rw [whnfS] at h1; cases h1
      | succ f =>
        unfold whnfS at h1
        dsimp only at h1
        rw [getSt_bind, hd] at h1
        dsimp only at h1
        have hlt : ¬ (k + 1 < 1) := by omega
        rw [if_neg hlt] at h1
        have h1 := (ushiftS_P f 0 (k + 1 - 1) lamT lamT_hf).bind_inv h1
        rw [Nat.add_sub_cancel, ushift_lamT] at h1
        obtain ⟨rfl, rfl⟩ := whnfS_lam_inv h1
        dsimp only at h2
        have h2 := (openS_P' (f+1) _ 0 (.lit 0) 0 (by rfl) (by rfl)).bind_inv h2
        rw [open_body] at h2
        exact ih (f+1) (by omega) s1 hd r s' h2

/-- `unifyS ?i (T 0)` with `?i` unsolved never answers -/
theorem unify_loop {k f i : Nat} {s s' : St} {r : Bool} (hc : cellVal s.store i = none)
    (hd : s.dctx[k]? = some (some (lamT, 1))) : unifyS f (.hole i 0) (T0 k) s ≠ .ok r s' := by
  intro h
  cases f with
  | zero => rw [unifyS] at h; cases h
  | succ f =>
    rw [unifyS_succ] at h
    obtain ⟨x, s1, h1, h2⟩ := bind_ok h
    obtain ⟨rfl, rfl⟩ := synEqS_unsolved hc (T0_hf k) h1
    simp only [Bool.false_eq_true, if_false] at h2
    obtain ⟨w1, s2, h3, h4⟩ := bind_ok h2
    obtain ⟨rfl, rfl⟩ := whnfS_unsolved hc h3
    obtain ⟨w2, s3, h5, h6⟩ := bind_ok h4
    exact whnf_loop k f s2 hd _ _ h5

/-- the application rule's first unification against `T 0 -> int` never answers -/
theorem unify_pi_loop {k f i j : Nat} {x0 : Name} {s s' : St} {r : Bool}
    (hi : cellVal s.store i = none) (hd : s.dctx[k]? = some (some (lamT, 1))) :
    unifyS f (.pi x0 false (.hole i 0) (.hole j 0)) (.pi 0 false (T0 k) .int) s ≠ .ok r s' := by
  intro h
  have hg : (Tm.pi 0 false (T0 k) .int).holeFree = true := rfl
  cases f with
  | zero => rw [unifyS] at h; cases h
  | succ f =>
    rw [unifyS_succ] at h
    obtain ⟨x, s1, h1, h2⟩ := bind_ok h
    obtain ⟨rfl, rfl⟩ := synEqS_pi_unsolved hi hg h1
    simp only [Bool.false_eq_true, if_false] at h2
    obtain ⟨w1, s2, h3, h4⟩ := bind_ok h2
    obtain ⟨rfl, rfl⟩ := whnfS_pi h3
    obtain ⟨w2, s3, h5, h6⟩ := bind_ok h4
    obtain ⟨rfl, rfl⟩ := whnfS_pi h5
    rw [unifyHead_pi_left f _ _ _ _ _ hg] at h6
    simp only [structM] at h6
    split at h6
    · obtain ⟨r1, s4, h7, h8⟩ := bind_ok h6
      exact unify_loop hi hd h7
    · next hne => exact hne rfl

/-- the application `f y` in a context where `f : T 0 -> int` never gets a type -/
theorem infer_app_loop {f : Nat} {x : Name} {a : Tm} {s s' : St} {p : Tm × Tm}
    (ht : s.tctx[1]? = some (.pi 0 false (T0 0) .int, 0))
    (hd : s.dctx[2]? = some (some (lamT, 1))) : inferS f (.app (.var x 1) a) s ≠ .ok p s' := by
  intro h
  cases f with
  | zero => rw [inferS] at h; cases h
  | succ f =>
    unfold inferS at h
    dsimp only at h
    obtain ⟨⟨g', gty⟩, s1, h1, h2⟩ := bind_ok h
    dsimp only at h2
    cases f with
    | zero => rw [inferS] at h1; cases h1
    | succ f =>
      unfold inferS at h1
      dsimp only at h1
      rw [getSt_bind, ht] at h1
      dsimp only at h1
      rw [if_neg (by omega)] at h1
      have h1 := (ushiftS_P f 0 (1 + 1 - 0) _ (by rfl)).bind_inv h1
      obtain ⟨e, rfl⟩ := pure_ok h1
      cases e
      obtain ⟨i, s2, hi, h3⟩ := bind_ok h2
      cases hi
      obtain ⟨j, s3, hj, h4⟩ := bind_ok h3
      cases hj
      obtain ⟨r, s4, hu, h5⟩ := bind_ok h4
      have e : ushift 0 (1 + 1 - 0) (.pi 0 false (T0 0) .int) = .pi 0 false (T0 2) .int := by rfl
      rw [e] at hu
      exact unify_pi_loop (k := 2) (s := { s with store := (s.store ++ [none]) ++ [none] })
        (i := s.store.length) (cellVal_fresh1 _) hd hu

/-- a successful run on a lambda contains a successful run on its body, in the extended context -/
theorem infer_lam_inv {f : Nat} {x : Name} {im : Bool} {d b : Tm} {s s' : St} {p : Tm × Tm}
    (h : inferS f (.lam x im d b) s = .ok p s') :
    ∃ f' s2 p2 s3, inferS f' b s2 = .ok p2 s3 ∧ s2.tctx = (d, 0) :: s.tctx ∧
      s2.dctx = none :: s.dctx := by
  cases f with
  | zero => rw [inferS] at h; cases h
  | succ f =>
    unfold inferS at h
    dsimp only at h
    obtain ⟨⟨d', dty⟩, s1, h1, h2⟩ := bind_ok h
    dsimp only at h2
    have ed : d' = d := inferS_elab_id h1
    subst ed
    obtain ⟨t1, d1⟩ := ctx_of_infer h1
    obtain ⟨r, s2, hu, h3⟩ := bind_ok h2
    obtain ⟨t2, d2⟩ := ctx_of_unify hu
    have key : ∀ s2' : St, s2'.tctx = s.tctx → s2'.dctx = s.dctx →
        (do pushCtx (d', 0) none
            let (b', cod) ← inferS f b
            popCtx
            pure (Tm.lam x im d' b', Tm.pi x im d' cod) : M (Tm × Tm)) s2' = .ok p s' →
        ∃ f' s2 p2 s3, inferS f' b s2 = .ok p2 s3 ∧ s2.tctx = (d', 0) :: s.tctx ∧
          s2.dctx = none :: s.dctx := by
      intro s2' e1 e2 hk
      obtain ⟨u, s3, h4, h5⟩ := bind_ok hk
      cases h4
      obtain ⟨p2, s4, h6, _⟩ := bind_ok h5
      exact ⟨f, _, p2, s4, h6, by simp [e1], by simp [e2]⟩
    cases r
    · simp only [Bool.not_false, if_true] at h3
      obtain ⟨u, s3, h4, h5⟩ := bind_ok h3
      cases h4
      exact key _ (by simp [t2, t1]) (by simp [d2, d1]) h5
    · simp only [Bool.not_true, Bool.false_eq_true, if_false] at h3
      exact key _ (by simp [t2, t1]) (by simp [d2, d1]) h3

/-- the checker model never answers on `wLoop`, whatever the fuel -/
theorem wLoop_never_ok : ∀ (f : Nat) (p : Tm × Tm) (s : St), inferS f wLoop {} ≠ .ok p s := by
  intro f p s h
  cases f with
  | zero => rw [inferS] at h; cases h
  | succ f =>
    unfold wLoop at h
    unfold inferS at h
    dsimp only at h
    obtain ⟨u, s1, h1, h2⟩ := bind_ok h
    have es1 := pushDefsS_state _ _ _ _ _ h1
    have t1 : s1.tctx = [(.pi 0 false .int .type, 1)] := by rw [es1]; rfl
    have d1 : s1.dctx = [some (lamT, 1)] := by rw [es1]; rfl
    clear es1 h1
    obtain ⟨ds', s2, h3, h4⟩ := bind_ok h2
    obtain ⟨t2, d2⟩ := CtxH.restores (fun T D => inferDefsS_ctx f _ T D) h3
    obtain ⟨⟨body', bty⟩, s3, h5, _⟩ := bind_ok h4
    obtain ⟨f1, s4, p4, s4', h6, t4, d4⟩ := infer_lam_inv h5
    obtain ⟨f2, s5, p5, s5', h7, t5, d5⟩ := infer_lam_inv h6
    refine infer_app_loop ?_ ?_ h7
    · rw [t5, t4]; rfl
    · rw [d5, d4, d2, d1]; rfl

/-- stronger: the outcome is "out of fuel" at every fuel (no answer by `wLoop_never_ok`, no panic
because the program is hole-free and well-scoped) -/
theorem wLoop_fuel : ∀ f : Nat, inferS f wLoop {} = .fuel := by
  intro f
  have hp := fun site => CheckNoPanic.inferS_holeFree_no_panic f 0 wLoop site wLoop_scoped wLoop_holeFree
  have hk := wLoop_never_ok f
  have e : ({ store := List.replicate 0 none } : St) = {} := rfl
  rw [e] at hp
  generalize inferS f wLoop {} = x at hp hk
  cases x with
  | ok p s => exact absurd rfl (hk p s)
  | fuel => rfl
  | panic site => exact absurd rfl (hp site)

end CheckDiverge

