import GramModel.Lemmas.CCJoin

/-!
# Groups: joinability under the (transparent) definitions of a group transfers to the closed groups
(C05)
-/

namespace CCPar

open CCSubst WhnfLemmas CheckSound

/-! ## sequences of `open`s commute with `open` and `unfoldDef` -/

theorem applyOps_open : ∀ (ops : List (Nat × Tm)) (k : Nat) (t u : Tm) (i : Nat), i ≤ k →
    applyOps k ops (openT t i u 0) = openT (applyOps (k+1) ops t) i (applyOps k ops u) 0
  | [], _, _, _, _, _ => rfl
  | (j, w) :: ops, k, t, u, i, h => by
      simp only [applyOps]
      rw [open_open_sh t u w i (j + k) k (by omega) h]
      rw [applyOps_open ops k _ _ i h]
      rfl

theorem applyOpsDefs_open : ∀ (ops : List (Nat × Tm)) (k : Nat) (ds : Defs) (u : Tm) (i : Nat), i ≤ k →
    applyOpsDefs k ops (openDefs ds i u 0) = openDefs (applyOpsDefs (k+1) ops ds) i (applyOps k ops u) 0
  | [], _, _, _, _, _ => rfl
  | (j, w) :: ops, k, ds, u, i, h => by
      simp only [applyOps, applyOpsDefs]
      rw [openDefs_open_sh ds u w i (j + k) k (by omega) h]
      rw [applyOpsDefs_open ops k _ _ i h]
      rfl

theorem applyOps_unfoldDef (x : Name) : ∀ (ops : List (Nat × Tm)) (k : Nat) (a d : Tm) (idx : Nat),
    idx ≤ k →
    applyOps k ops (unfoldDef x a d idx) =
      unfoldDef x (applyOps (k+1) ops a) (applyOps (k+1) ops d) idx
  | [], _, _, _, _, _ => rfl
  | (j, w) :: ops, k, a, d, idx, h => by
      simp only [applyOps]
      rw [unfoldDef_open x a d idx (j + k) k w (by omega) h]
      rw [applyOps_unfoldDef x ops k _ _ idx h]
      rfl

/-- every substituted term is hole-free -/
def OpsHF (ops : List (Nat × Tm)) : Prop := ∀ p ∈ ops, p.2.holeFree = true

theorem applyOps_holeFree : ∀ (ops : List (Nat × Tm)) (k : Nat) (t : Tm), OpsHF ops →
    t.holeFree = true → (applyOps k ops t).holeFree = true
  | [], _, _, _, h => h
  | (j, w) :: ops, k, t, ho, h => by
      simp only [applyOps]
      exact applyOps_holeFree ops k _ (fun p hp => ho p (List.mem_cons_of_mem _ hp))
        (openT_holeFree _ _ _ _ h (ho (j, w) List.mem_cons_self))

theorem applyOpsDefs_holeFree : ∀ (ops : List (Nat × Tm)) (k : Nat) (ds : Defs), OpsHF ops →
    ds.holeFree = true → (applyOpsDefs k ops ds).holeFree = true
  | [], _, _, _, h => h
  | (j, w) :: ops, k, t, ho, h => by
      simp only [applyOpsDefs]
      exact applyOpsDefs_holeFree ops k _ (fun p hp => ho p (List.mem_cons_of_mem _ hp))
        (openDefs_holeFree _ _ _ _ h (ho (j, w) List.mem_cons_self))

theorem opsU_HF : ∀ (m : Nat) (ds : Defs), ds.holeFree = true → OpsHF (opsU m ds)
  | 0, _, _ => by intro p hp; simp [opsU] at hp
  | _+1, .nil, _ => by intro p hp; simp [opsU] at hp
  | m+1, .cons x a d r, h => by
      simp only [Defs.holeFree, Bool.and_eq_true] at h
      have hu := unfoldDef_holeFree x a d r.len h.1.1 h.1.2
      intro p hp
      simp only [opsU, List.mem_cons] at hp
      rcases hp with rfl | hp
      · exact hu
      · exact opsU_HF m _ (openDefs_holeFree _ _ _ _ h.2 hu) p hp

/-- a term lifted past the whole group is just lowered by the group's sequence -/
theorem opsU_ushift_past (d : Tm) : ∀ (m : Nat) (ds : Defs) (k c : Nat), ds.len ≤ m →
    applyOps k (opsU m ds) (ushift 0 (k + ds.len + c) d) = ushift 0 (k + c) d
  | 0, .nil, k, c, _ => by simp [opsU, applyOps, Defs.len]
  | 0, .cons .., _, _, h => by simp at h
  | m+1, .nil, k, c, _ => by simp [opsU, applyOps, Defs.len]
  | m+1, .cons x a dd r, k, c, h => by
      simp only [Defs.len_cons] at h
      simp only [opsU, applyOps, Defs.len_cons]
      rw [show k + (r.len + 1) + c = (k + r.len + c) + 1 by omega]
      rw [open_ushift_past d (k + r.len + c) (r.len + k) _ k (by omega)]
      have := opsU_ushift_past d m (openDefs r r.len (unfoldDef x a dd r.len) 0) k c
        (by rw [openDefs_len]; omega)
      rw [openDefs_len] at this
      exact this


/-! ## the self-referential unfolding `let x = d; x` reduces to the unfolded definition -/

mutual
theorem swap_id : ∀ (t : Tm) (k : Nat), openT (ushift k 1 (er t)) (k + 1) (Tm.var 0 0) k = er t
  | .var x j, k => by
      simp only [er, ushift]
      by_cases h : j ≥ k
      · rw [if_pos h]
        simp only [openT]
        by_cases h2 : j = k
        · subst h2
          rw [if_pos rfl]
          simp only [ushift]
          rw [if_pos (Nat.zero_le _), Nat.zero_add]
        · rw [if_neg (by omega), if_pos (by omega)]
          rfl
      · rw [if_neg h]
        simp only [openT]
        rw [if_neg (by omega), if_neg (by omega)]
  | .hole _ _, k => by simp only [er, ushift, openT]
  | .lam x im d b, k => by simp only [er, ushift, openT, swap_id b (k+1)]
  | .pi x im d b, k => by simp only [er, ushift, openT, swap_id d k, swap_id b (k+1)]
  | .app f g, k => by simp only [er, ushift, openT, swap_id f k, swap_id g k]
  | .letg ds b, k => by
      simp only [er, ushift, openT, ushiftDefs_len, erDefs_len]
      rw [Nat.add_right_comm k 1 ds.len, swapDefs_id ds (k + ds.len), swap_id b (k + ds.len)]
  | .neg a, k => by simp only [er, ushift, openT, swap_id a k]
  | .bin op a b, k => by simp only [er, ushift, openT, swap_id a k, swap_id b k]
  | .ite c a b, k => by simp only [er, ushift, openT, swap_id c k, swap_id a k, swap_id b k]
  | .type, _ | .int, _ | .bool, _ | .tt, _ | .ff, _ | .lit _, _ => by simp only [er, ushift, openT]
theorem swapDefs_id : ∀ (ds : Defs) (k : Nat),
    openDefs (ushiftDefs k 1 (erDefs ds)) (k + 1) (Tm.var 0 0) k = erDefs ds
  | .nil, _ => by simp only [erDefs, ushiftDefs, openDefs]
  | .cons x a d r, k => by
      simp only [erDefs, ushiftDefs, openDefs, ushift, openT, swap_id d k, swapDefs_id r k]
end

mutual
theorem open_self_ref (L : Tm) (v : Nat) : ∀ (t : Tm) (k : Nat),
    openT (openT (ushift k 1 t) (v + 1 + k) (Tm.var 0 0) k) k L k = openT t (v + k) L k
  | .var x j, k => by
      simp only [ushift]
      by_cases h : j ≥ k
      · rw [if_pos h]
        by_cases h2 : j = v + k
        · subst h2
          simp only [openT]
          rw [if_pos (by omega)]
          simp only [ushift]
          rw [if_pos (Nat.zero_le _), Nat.zero_add]
          simp only [openT, if_true]
        · by_cases h3 : j > v + k
          · simp only [openT]
            rw [if_neg (by omega), if_pos (by omega)]
            simp only [openT]
            rw [if_neg (by omega), if_pos (by omega), if_neg h2, if_pos h3]
            rfl
          · simp only [openT]
            rw [if_neg (by omega), if_neg (by omega)]
            simp only [openT]
            rw [if_neg (by omega), if_pos (by omega), if_neg h2, if_neg h3]
            rfl
      · rw [if_neg h]
        simp only [openT]
        rw [if_neg (by omega), if_neg (by omega)]
        simp only [openT]
        rw [if_neg (by omega), if_neg (by omega), if_neg (by omega), if_neg (by omega)]
  | .hole id s, k => by
      simp only [ushift]
      by_cases h : s ≥ k
      · rw [if_pos h]
        by_cases h3 : s > v + k
        · simp only [openT]
          rw [if_pos (by omega)]
          simp only [openT]
          rw [if_pos (by omega), if_pos h3]
          rfl
        · simp only [openT]
          rw [if_neg (by omega)]
          simp only [openT]
          rw [if_pos (by omega), if_neg h3]
          rfl
      · rw [if_neg h]
        simp only [openT]
        rw [if_neg (by omega)]
        simp only [openT]
        rw [if_neg (by omega), if_neg (by omega)]
  | .lam x im d b, k => by
      simp only [ushift, openT, open_self_ref L v d k]
      have := open_self_ref L v b (k+1)
      rw [show v + 1 + (k + 1) = v + 1 + k + 1 by omega, show v + (k + 1) = v + k + 1 by omega] at this
      rw [this]
  | .pi x im d b, k => by
      simp only [ushift, openT, open_self_ref L v d k]
      have := open_self_ref L v b (k+1)
      rw [show v + 1 + (k + 1) = v + 1 + k + 1 by omega, show v + (k + 1) = v + k + 1 by omega] at this
      rw [this]
  | .app f g, k => by simp only [ushift, openT, open_self_ref L v f k, open_self_ref L v g k]
  | .letg ds b, k => by
      simp only [ushift, openT, ushiftDefs_len, openDefs_len]
      have h1 := open_self_ref L v b (k + ds.len)
      have h2 := openDefs_self_ref L v ds (k + ds.len)
      rw [show v + 1 + (k + ds.len) = v + 1 + k + ds.len by omega,
        show v + (k + ds.len) = v + k + ds.len by omega] at h1 h2
      rw [h1, h2]
  | .neg a, k => by simp only [ushift, openT, open_self_ref L v a k]
  | .bin op a b, k => by simp only [ushift, openT, open_self_ref L v a k, open_self_ref L v b k]
  | .ite c a b, k => by
      simp only [ushift, openT, open_self_ref L v c k, open_self_ref L v a k, open_self_ref L v b k]
  | .type, _ | .int, _ | .bool, _ | .tt, _ | .ff, _ | .lit _, _ => by simp only [ushift, openT]
theorem openDefs_self_ref (L : Tm) (v : Nat) : ∀ (ds : Defs) (k : Nat),
    openDefs (openDefs (ushiftDefs k 1 ds) (v + 1 + k) (Tm.var 0 0) k) k L k = openDefs ds (v + k) L k
  | .nil, _ => by simp only [ushiftDefs, openDefs]
  | .cons x a d r, k => by
      simp only [ushiftDefs, openDefs, open_self_ref L v a k, open_self_ref L v d k,
        openDefs_self_ref L v r k]
end


theorem unfoldDef_er (dd : Tm) (v : Nat) :
    unfoldDef 0 .type dd v =
      openT dd v (.letg (.cons 0 .type (openT (ushift 0 1 dd) (v + 1) (Tm.var 0 0) 0) .nil) (Tm.var 0 0)) 0 := by
  unfold unfoldDef
  simp only [ushift, openT]

/-- `let x = d; x` (as built by `unfoldDef`) reduces to `d` with `x` unfolded -/
theorem letSelf_pars {Δ : DCtxX} (v N : Nat) (dd : Tm) (hdd : dd.holeFree = true) (hed : er dd = dd) :
    Pars Δ N (.letg (.cons 0 .type (openT (ushift 0 1 dd) (v + 1) (Tm.var 0 0) 0) .nil) (Tm.var 0 0))
      (unfoldDef 0 .type dd v) := by
  have hDf : (openT (ushift 0 1 dd) (v + 1) (Tm.var 0 0) 0).holeFree = true :=
    openT_holeFree _ _ _ _ (by rw [ushift_holeFree]; exact hdd) rfl
  have eD : er (openT (ushift 0 1 dd) (v + 1) (Tm.var 0 0) 0) =
      openT (ushift 0 1 dd) (v + 1) (Tm.var 0 0) 0 := by
    rw [er_openT, er_ushift, hed]; rfl
  generalize hDdef : openT (ushift 0 1 dd) (v + 1) (Tm.var 0 0) 0 = D at hDf eD
  have e0 : unfoldDef 0 .type D 0 = unfoldDef 0 .type dd v := by
    rw [unfoldDef_er D 0, unfoldDef_er dd v, hDdef]
    have s1 := swap_id D 0
    rw [eD, Nat.zero_add] at s1
    rw [s1]
    have s2 := open_self_ref (.letg (.cons 0 .type D .nil) (Tm.var 0 0)) v dd 0
    simp only [Nat.add_zero] at s2
    rw [hDdef] at s2
    exact s2
  have st1 : Par Δ N (.letg (.cons 0 .type D .nil) (Tm.var 0 0))
      (.letg (openDefs .nil 0 (unfoldDef 0 .type D 0) 0) (openT (Tm.var 0 0) 0 (unfoldDef 0 .type D 0) 0)) :=
    Par.letStep (Δ := Δ) (n := N) 0 (r := .nil) (.type _) (Par.refl _ _ hDf) (.nil _) (.var _ _ _)
  simp only [openDefs, openT, if_true, ushift_zero] at st1
  rw [e0] at st1
  have hU : (unfoldDef 0 .type dd v).holeFree = true := unfoldDef_holeFree _ _ _ _ rfl hdd
  exact .tail (.single st1) (.letNil (Par.refl _ _ hU))

/-- the definition of the group variable with index `v` -/
def defAt : Defs → Nat → Option Tm
  | .nil, _ => none
  | .cons _ _ d r, v => if v = r.len then some d else defAt r v

theorem defAt_lt : ∀ (ds : Defs) (v : Nat) (d : Tm), defAt ds v = some d → v < ds.len
  | .nil, _, _, h => by simp [defAt] at h
  | .cons _ _ _ r, v, d, h => by
      simp only [defAt] at h
      simp only [Defs.len_cons]
      split at h
      · omega
      · have := defAt_lt r v d h; omega

theorem defAt_holeFree : ∀ (ds : Defs) (v : Nat) (d : Tm), ds.holeFree = true → defAt ds v = some d →
    d.holeFree = true
  | .nil, _, _, _, h => by simp [defAt] at h
  | .cons _ _ dd r, v, d, hf, h => by
      simp only [Defs.holeFree, Bool.and_eq_true] at hf
      simp only [defAt] at h
      split at h
      · cases h; exact hf.1.2
      · exact defAt_holeFree r v d hf.2 h

theorem defAt_openDefs : ∀ (ds : Defs) (v : Nat) (d : Tm) (i : Nat) (u : Tm) (s : Nat),
    defAt ds v = some d → defAt (openDefs ds i u s) v = some (openT d i u s)
  | .nil, _, _, _, _, _, h => by simp [defAt] at h
  | .cons _ _ dd r, v, d, i, u, s, h => by
      simp only [defAt] at h
      simp only [openDefs, defAt, openDefs_len]
      split at h
      · next hv => cases h; rw [if_pos hv]
      · next hv => rw [if_neg hv]; exact defAt_openDefs r v d i u s h

section Closure
variable {Δ : DCtxX} (hW : DWF Δ) (hD : DHF Δ)
include hW hD

/-- joinability under the (opaque) variables of a group is preserved by the group's substitutions -/
theorem closure_opsU : ∀ (m : Nat) (ds : Defs) (X Y : Tm), ds.len ≤ m → ds.holeFree = true →
    X.holeFree = true → Y.holeFree = true → Join Δ ds.len X Y →
    Join Δ 0 (applyOps 0 (opsU m ds) X) (applyOps 0 (opsU m ds) Y)
  | 0, .nil, X, Y, _, _, _, _, h => by simpa [opsU, applyOps, Defs.len] using h
  | 0, .cons .., _, _, h, _, _, _, _ => by simp at h
  | m+1, .nil, X, Y, _, _, _, _, h => by simpa [opsU, applyOps, Defs.len] using h
  | m+1, .cons x a d r, X, Y, hm, hds, hX, hY, h => by
      simp only [Defs.len_cons] at hm h
      simp only [Defs.holeFree, Bool.and_eq_true] at hds
      have hu := unfoldDef_holeFree x a d r.len hds.1.1 hds.1.2
      simp only [opsU, applyOps, Nat.add_zero]
      have hs := Join.subst hW hD (Join.refl r.len (unfoldDef x a d r.len)) hu hu r.len
        (Nat.le_refl _) (m := 0) (t := X) (t' := Y) (by simpa using h) hX hY
      simp only [Nat.zero_add, Nat.add_zero] at hs
      have := closure_opsU m (openDefs r r.len (unfoldDef x a d r.len) 0) _ _
        (by rw [openDefs_len]; omega) (openDefs_holeFree _ _ _ _ hds.2 hu)
        (openT_holeFree _ _ _ _ hX hu) (openT_holeFree _ _ _ _ hY hu)
        (by rw [openDefs_len]; exact hs)
      exact this

/-- **unfolding property of a closed group**: after the group's substitutions, a group variable and
its definition are joinable -/
theorem group_unfold : ∀ (m : Nat) (ds : Defs) (x : Name) (v : Nat) (d : Tm), ds.len ≤ m →
    ds.holeFree = true → erDefs ds = ds → defAt ds v = some d →
    Join Δ 0 (applyOps 0 (opsU m ds) (.var x v)) (applyOps 0 (opsU m ds) d)
  | 0, .nil, _, _, _, _, _, _, h => by simp [defAt] at h
  | 0, .cons .., _, _, _, h, _, _, _ => by simp at h
  | m+1, .nil, _, _, _, _, _, _, h => by simp [defAt] at h
  | m+1, .cons y a dd r, x, v, d, hm, hds, he, h => by
      simp only [Defs.len_cons] at hm
      simp only [Defs.holeFree, Bool.and_eq_true] at hds
      simp only [erDefs, Defs.cons.injEq] at he
      obtain ⟨rfl, rfl, hed, her⟩ := he
      have hu := unfoldDef_holeFree 0 .type dd r.len rfl hds.1.2
      have hr' : (openDefs r r.len (unfoldDef 0 .type dd r.len) 0).holeFree = true :=
        openDefs_holeFree _ _ _ _ hds.2 hu
      have her' : erDefs (openDefs r r.len (unfoldDef 0 .type dd r.len) 0) =
          openDefs r r.len (unfoldDef 0 .type dd r.len) 0 := by
        rw [erDefs_openDefs, her, er_unfoldDef, hed]
      simp only [defAt] at h
      simp only [opsU, applyOps, Nat.add_zero]
      split at h
      · next hv =>
        cases h
        subst hv
        simp only [openT, if_true, ushift_zero]
        -- `U ⇒* d[x := U]`
        have hLf : (Tm.letg (.cons 0 .type (openT (ushift 0 1 dd) (r.len + 1) (Tm.var 0 0) 0) .nil)
            (Tm.var 0 0)).holeFree = true := by
          have := openT_holeFree (ushift 0 1 dd) (r.len + 1) (Tm.var 0 0) 0
            (by rw [ushift_holeFree]; exact hds.1.2) rfl
          simp [Tm.holeFree, Defs.holeFree, this]
        have hp : Pars Δ r.len (unfoldDef 0 .type dd r.len)
            (openT dd r.len (unfoldDef 0 .type dd r.len) 0) := by
          have hL := letSelf_pars (Δ := Δ) r.len r.len dd hds.1.2 hed
          have := Pars.subst hW hD hL hLf r.len (Nat.le_refl _) (m := 0) (t := dd) (t' := dd)
            (.refl _) hds.1.2
          simp only [Nat.zero_add, Nat.add_zero] at this
          rw [← unfoldDef_er dd r.len] at this
          exact this
        have := closure_opsU hW hD m (openDefs r r.len (unfoldDef 0 .type dd r.len) 0) _ _
          (by rw [openDefs_len]; omega) hr' hu (openT_holeFree _ _ _ _ hds.1.2 hu)
          (by rw [openDefs_len]; exact Join.of_pars hp)
        exact this
      · next hv =>
        have hlt := defAt_lt r v d h
        have e1 : openT (Tm.var x v) r.len (unfoldDef 0 .type dd r.len) 0 = Tm.var x v := by
          simp only [openT]
          rw [if_neg (by omega), if_neg (by omega)]
        rw [e1]
        exact group_unfold m _ x v _ (by rw [openDefs_len]; omega) hr' her'
          (defAt_openDefs r v d r.len _ 0 h)

end Closure


/-! ## lookups in the context of a group -/

theorem pushedD_get : ∀ (ds : Defs) (D : DCtxX) (p : Nat) (d : Tm) (off : Nat),
    (pushedD ds ds.len D)[p]? = some (some (d, off)) →
    (p < ds.len ∧ defAt ds p = some d ∧ off = p + 1) ∨
      (ds.len ≤ p ∧ D[p - ds.len]? = some (some (d, off)))
  | .nil, D, p, d, off, h => by
      simp only [pushedD] at h
      exact Or.inr ⟨Nat.zero_le _, by simpa using h⟩
  | .cons x a dd r, D, p, d, off, h => by
      simp only [pushedD, Defs.len_cons, Nat.add_sub_cancel] at h
      rcases pushedD_get r _ p d off h with ⟨h1, h2, h3⟩ | ⟨h1, h2⟩
      · refine Or.inl ⟨by simp only [Defs.len_cons]; omega, ?_, h3⟩
        simp only [defAt]
        rw [if_neg (by omega)]
        exact h2
      · by_cases hp : p = r.len
        · subst hp
          simp only [Nat.sub_self, List.getElem?_cons_zero, Option.some.injEq, Prod.mk.injEq] at h2
          obtain ⟨rfl, rfl⟩ := h2
          refine Or.inl ⟨by simp only [Defs.len_cons]; omega, ?_, rfl⟩
          simp only [defAt, if_true]
        · refine Or.inr ⟨by simp only [Defs.len_cons]; omega, ?_⟩
          have e : p - r.len = (p - (r.len + 1)) + 1 := by omega
          rw [e, List.getElem?_cons_succ] at h2
          simp only [Defs.len_cons]
          exact h2

theorem applyOps_delta {op : BinOp} {x y : Int} {r : Tm} (h : delta op x y = some r)
    (ops : List (Nat × Tm)) (k : Nat) : applyOps k ops r = r := by
  have : (∃ z, r = .lit z) ∨ r = .tt ∨ r = .ff := by
    cases op <;> simp only [delta] at h
    case quot => split at h <;> cases h; exact Or.inl ⟨_, rfl⟩
    all_goals first
      | (cases h; exact Or.inl ⟨_, rfl⟩)
      | (split at h <;> cases h <;> simp)
  refine applyOps_const ops k r ?_
  rcases this with ⟨z, rfl⟩ | rfl | rfl
  · exact Or.inr (Or.inr (Or.inr (Or.inr (Or.inr ⟨z, rfl⟩))))
  · exact Or.inr (Or.inr (Or.inr (Or.inl rfl)))
  · exact Or.inr (Or.inr (Or.inr (Or.inr (Or.inl rfl))))

section Lift
variable {Δ : DCtxX} (hW : DWF Δ) (hD : DHF Δ)
include hW hD

theorem Pars.unfoldC (x : Name) {N idx : Nat} {a a' d d' : Tm} (ha : a.holeFree = true)
    (hd : d.holeFree = true) (h1 : Pars Δ (N + idx + 1) a a') (h2 : Pars Δ (N + idx + 1) d d') :
    Pars Δ (N + idx) (unfoldDef x a d idx) (unfoldDef x a' d' idx) :=
  (Pars.map (fun t => unfoldDef x t d idx)
    (fun _ _ h => Par.unfoldC hW hD x h (Par.refl d _ hd)) h1).trans
  (Pars.map (fun t => unfoldDef x a' t idx)
    (fun _ _ h => Par.unfoldC hW hD x (Par.refl a' _ (h1.hf hD ha)) h) h2)

theorem Join.unfoldC (x : Name) {N idx : Nat} {a a' d d' : Tm} (ha : a.holeFree = true)
    (ha' : a'.holeFree = true) (hd : d.holeFree = true) (hd' : d'.holeFree = true)
    (h1 : Join Δ (N + idx + 1) a a') (h2 : Join Δ (N + idx + 1) d d') :
    Join Δ (N + idx) (unfoldDef x a d idx) (unfoldDef x a' d' idx) := by
  obtain ⟨ca, a1, a2⟩ := h1
  obtain ⟨cd, d1, d2⟩ := h2
  exact ⟨unfoldDef x ca cd idx, Pars.unfoldC hW hD x ha hd a1 d1, Pars.unfoldC hW hD x ha' hd' a2 d2⟩

theorem JoinDefs.subst {N : Nat} {u u' : Tm} (hu : Join Δ N u u') (huf : u.holeFree = true)
    (huf' : u'.holeFree = true) (i : Nat) (hi : i ≤ N) {m : Nat} {t t' : Defs}
    (ht : JoinDefs Δ (m + N + 1) t t') (htf : t.holeFree = true) (htf' : t'.holeFree = true) :
    JoinDefs Δ (m + N) (openDefs t (i + m) u m) (openDefs t' (i + m) u' m) := by
  obtain ⟨cu, hu1, hu2⟩ := hu
  obtain ⟨ct, ht1, ht2⟩ := ht
  exact ⟨openDefs ct (i + m) cu m, ParsDefs.subst hW hD hu1 huf i hi ht1 htf,
    ParsDefs.subst hW hD hu2 huf' i hi ht2 htf'⟩

end Lift


/-! ## the transfer -/

section Transfer
set_option linter.unusedSectionVars false
variable {Δ : DCtxX} (hW : DWF Δ) (hD : DHF Δ) (ds : Defs) (hds : ds.holeFree = true)
  (he : erDefs ds = ds) (hD' : DHF (pushedD ds ds.len Δ))
include hW hD hds he hD'

mutual
theorem group_par : ∀ {m : Nat} {B C : Tm}, Par (pushedD ds ds.len Δ) m B C →
    Join Δ m (applyOps m (opsU ds.len ds) B) (applyOps m (opsU ds.len ds) C)
  | _, _, _, .type _ => Join.refl _ _
  | _, _, _, .int _ => Join.refl _ _
  | _, _, _, .bool _ => Join.refl _ _
  | _, _, _, .tt _ => Join.refl _ _
  | _, _, _, .ff _ => Join.refl _ _
  | _, _, _, .lit _ _ => Join.refl _ _
  | _, _, _, .var _ _ _ => Join.refl _ _
  | _, _, _, .delta m x j d off hmj hΔ => by
      rw [applyOps_var_ge x _ m j hmj]
      rcases pushedD_get ds Δ (j - m) d off hΔ with ⟨h1, h2, h3⟩ | ⟨h1, h2⟩
      · subst h3
        rw [show j + 1 - (j - m + 1) = m by omega, applyOps_ushift]
        have k := group_unfold hW hD ds.len ds x (j - m) d (Nat.le_refl _) hds he h2
        have := Join.shift hW hD m k 0 (Nat.le_refl _)
        rw [Nat.zero_add] at this
        exact this
      · have hoff := hW _ _ _ h2
        rw [opsU_var_miss x ds.len ds (j - m) (Nat.le_refl _) h1]
        have e1 : j + 1 - off = m + ds.len + (j + 1 - off - m - ds.len) := by omega
        rw [e1, opsU_ushift_past d ds.len ds m _ (Nat.le_refl _)]
        simp only [ushift]
        rw [if_pos (Nat.zero_le _)]
        have := Par.delta (Δ := Δ) m x (j - m - ds.len + m) d off (by omega)
          (by rw [show j - m - ds.len + m - m = j - m - ds.len by omega]; exact h2)
        rw [show j - m - ds.len + m + 1 - off = m + (j + 1 - off - m - ds.len) by omega] at this
        exact Join.of_par this
  | _, _, _, @Par.lam _ m x im d d' b b' h1 h2 => by
      have hτ := opsU_HF ds.len ds hds
      rw [applyOps_lam, applyOps_lam]
      exact Join.lam hD x im (applyOps_holeFree _ _ _ hτ (Par.hfL h1))
        (applyOps_holeFree _ _ _ hτ (Par.hfR hD' h1)) (applyOps_holeFree _ _ _ hτ (Par.hfL h2))
        (applyOps_holeFree _ _ _ hτ (Par.hfR hD' h2)) (group_par h1) (group_par h2)
  | _, _, _, @Par.pi _ m x im d d' b b' h1 h2 => by
      have hτ := opsU_HF ds.len ds hds
      rw [applyOps_pi, applyOps_pi]
      exact Join.pi hD x im (applyOps_holeFree _ _ _ hτ (Par.hfL h1))
        (applyOps_holeFree _ _ _ hτ (Par.hfR hD' h1)) (applyOps_holeFree _ _ _ hτ (Par.hfL h2))
        (applyOps_holeFree _ _ _ hτ (Par.hfR hD' h2)) (group_par h1) (group_par h2)
  | _, _, _, @Par.app _ m f f' a a' h1 h2 => by
      have hτ := opsU_HF ds.len ds hds
      rw [applyOps_app, applyOps_app]
      exact Join.app hD (applyOps_holeFree _ _ _ hτ (Par.hfL h1))
        (applyOps_holeFree _ _ _ hτ (Par.hfR hD' h1)) (applyOps_holeFree _ _ _ hτ (Par.hfL h2))
        (applyOps_holeFree _ _ _ hτ (Par.hfR hD' h2)) (group_par h1) (group_par h2)
  | _, _, _, @Par.beta _ m x im d d' b b' a a' h1 h2 h3 => by
      have hτ := opsU_HF ds.len ds hds
      rw [applyOps_app, applyOps_lam, applyOps_open _ m b' a' 0 (Nat.zero_le _)]
      have fb := applyOps_holeFree _ (m+1) _ hτ (Par.hfL h2)
      have fb' := applyOps_holeFree _ (m+1) _ hτ (Par.hfR hD' h2)
      have fa := applyOps_holeFree _ m _ hτ (Par.hfL h3)
      have fa' := applyOps_holeFree _ m _ hτ (Par.hfR hD' h3)
      have fd := applyOps_holeFree _ m _ hτ (Par.hfL h1)
      have st := Par.beta (Δ := Δ) x im (Par.refl _ m fd) (Par.refl _ (m+1) fb) (Par.refl _ m fa)
      have js := Join.subst hW hD (group_par h3) fa fa' 0 (Nat.zero_le _) (m := 0) (by
        rw [Nat.zero_add]; exact group_par h2) fb fb'
      rw [Nat.zero_add] at js
      exact Join.trans hW hD (Join.of_par st) js
  | _, _, _, @Par.letg _ m es es' b b' h1 h2 => by
      have hτ := opsU_HF ds.len ds hds
      rw [applyOps_letg, applyOps_letg]
      have hl := ParDefs.len h1
      refine Join.letg hD (applyOpsDefs_holeFree _ _ _ hτ (ParDefs.hfL h1))
        (applyOpsDefs_holeFree _ _ _ hτ (ParDefs.hfR hD' h1))
        (applyOps_holeFree _ _ _ hτ (Par.hfL h2)) (applyOps_holeFree _ _ _ hτ (Par.hfR hD' h2))
        (by rw [applyOpsDefs_len, applyOpsDefs_len, hl]) ?_ ?_
      · rw [applyOpsDefs_len, hl]
        exact group_parDefs h1
      · rw [applyOpsDefs_len, hl]
        exact group_par h2
  | _, _, _, @Par.letStep _ m x a a' d d' r r' b b' h1 h2 h3 h4 => by
      have hτ := opsU_HF ds.len ds hds
      have hl := ParDefs.len h3
      have fa := applyOps_holeFree _ (m + r.len + 1) _ hτ (Par.hfL h1)
      have fa' := applyOps_holeFree _ (m + r.len + 1) _ hτ (Par.hfR hD' h1)
      have fd := applyOps_holeFree _ (m + r.len + 1) _ hτ (Par.hfL h2)
      have fd' := applyOps_holeFree _ (m + r.len + 1) _ hτ (Par.hfR hD' h2)
      have fr := applyOpsDefs_holeFree _ (m + r.len + 1) _ hτ (ParDefs.hfL h3)
      have fr' := applyOpsDefs_holeFree _ (m + r.len + 1) _ hτ (ParDefs.hfR hD' h3)
      have fb := applyOps_holeFree _ (m + r.len + 1) _ hτ (Par.hfL h4)
      have fb' := applyOps_holeFree _ (m + r.len + 1) _ hτ (Par.hfR hD' h4)
      have j1 := group_par h1
      have j2 := group_par h2
      have j3 := group_parDefs h3
      have j4 := group_par h4
      rw [applyOps_letg, applyOps_letg, applyOpsDefs_cons, openDefs_len, hl]
      simp only [Defs.len_cons, ← Nat.add_assoc]
      rw [applyOps_open _ (m + r.len) b' _ r.len (by omega),
        applyOpsDefs_open _ (m + r.len) r' _ r.len (by omega),
        applyOps_unfoldDef x _ (m + r.len) a' d' r.len (by omega)]
      -- one step on the left
      have st := Par.letStep (Δ := Δ) (n := m) x
        (r := applyOpsDefs (m + r.len + 1) (opsU ds.len ds) r)
        (a := applyOps (m + r.len + 1) (opsU ds.len ds) a)
        (d := applyOps (m + r.len + 1) (opsU ds.len ds) d)
        (b := applyOps (m + r.len + 1) (opsU ds.len ds) b)
        (by rw [applyOpsDefs_len]; exact Par.refl _ _ fa)
        (by rw [applyOpsDefs_len]; exact Par.refl _ _ fd)
        (by rw [applyOpsDefs_len]; exact ParDefs.refl _ _ fr)
        (by rw [applyOpsDefs_len]; exact Par.refl _ _ fb)
      rw [applyOpsDefs_len] at st
      refine Join.trans hW hD (Join.of_par st) ?_
      have jU := Join.unfoldC hW hD x (N := m) (idx := r.len) fa fa' fd fd' j1 j2
      have hU := unfoldDef_holeFree x _ _ r.len fa fd
      have hU' := unfoldDef_holeFree x _ _ r.len fa' fd'
      have jr := JoinDefs.subst hW hD jU hU hU' r.len (by omega) (m := 0) (by
        rw [Nat.zero_add]; exact j3) fr fr'
      have jb := Join.subst hW hD jU hU hU' r.len (by omega) (m := 0) (by
        rw [Nat.zero_add]; exact j4) fb fb'
      simp only [Nat.zero_add, Nat.add_zero] at jr jb
      refine Join.letg hD (openDefs_holeFree _ _ _ _ fr hU) (openDefs_holeFree _ _ _ _ fr' hU')
        (openT_holeFree _ _ _ _ fb hU) (openT_holeFree _ _ _ _ fb' hU')
        (by rw [openDefs_len, openDefs_len, applyOpsDefs_len, applyOpsDefs_len, hl]) ?_ ?_
      · rw [openDefs_len, applyOpsDefs_len]; exact jr
      · rw [openDefs_len, applyOpsDefs_len]; exact jb
  | _, _, _, @Par.letNil _ m b b' h => by
      have hτ := opsU_HF ds.len ds hds
      rw [applyOps_letg, applyOpsDefs_nil]
      simp only [Defs.len, Nat.add_zero]
      have fb := applyOps_holeFree _ m _ hτ (Par.hfL h)
      exact Join.trans hW hD (Join.of_par (.letNil (Par.refl _ m fb))) (group_par h)
  | _, _, _, .neg h => by
      rw [applyOps_neg, applyOps_neg]
      exact Join.neg (group_par h)
  | _, _, _, .negLit m k => by
      rw [applyOps_neg, applyOps_const _ _ (.lit k) (Or.inr (Or.inr (Or.inr (Or.inr (Or.inr ⟨k, rfl⟩))))),
        applyOps_const _ _ (.lit (-k)) (Or.inr (Or.inr (Or.inr (Or.inr (Or.inr ⟨-k, rfl⟩)))))]
      exact Join.of_par (.negLit _ _)
  | _, _, _, @Par.bin _ m op a a' b b' h1 h2 => by
      have hτ := opsU_HF ds.len ds hds
      rw [applyOps_bin, applyOps_bin]
      exact Join.bin hD op (applyOps_holeFree _ _ _ hτ (Par.hfL h1))
        (applyOps_holeFree _ _ _ hτ (Par.hfR hD' h1)) (applyOps_holeFree _ _ _ hτ (Par.hfL h2))
        (applyOps_holeFree _ _ _ hτ (Par.hfR hD' h2)) (group_par h1) (group_par h2)
  | _, _, _, .arith m op x y r h => by
      rw [applyOps_bin, applyOps_delta h,
        applyOps_const _ _ (.lit x) (Or.inr (Or.inr (Or.inr (Or.inr (Or.inr ⟨x, rfl⟩))))),
        applyOps_const _ _ (.lit y) (Or.inr (Or.inr (Or.inr (Or.inr (Or.inr ⟨y, rfl⟩)))))]
      exact Join.of_par (.arith _ op x y r h)
  | _, _, _, @Par.ite _ m c c' a a' b b' h0 h1 h2 => by
      have hτ := opsU_HF ds.len ds hds
      rw [applyOps_ite, applyOps_ite]
      exact Join.ite hD (applyOps_holeFree _ _ _ hτ (Par.hfL h0))
        (applyOps_holeFree _ _ _ hτ (Par.hfR hD' h0)) (applyOps_holeFree _ _ _ hτ (Par.hfL h1))
        (applyOps_holeFree _ _ _ hτ (Par.hfR hD' h1)) (applyOps_holeFree _ _ _ hτ (Par.hfL h2))
        (applyOps_holeFree _ _ _ hτ (Par.hfR hD' h2)) (group_par h0) (group_par h1) (group_par h2)
  | _, _, _, @Par.iteT _ m a a' b b' h1 h2 => by
      have hτ := opsU_HF ds.len ds hds
      rw [applyOps_ite, applyOps_const _ _ .tt (Or.inr (Or.inr (Or.inr (Or.inl rfl))))]
      exact Join.trans hW hD
        (Join.of_par (.iteT (Par.refl _ m (applyOps_holeFree _ _ _ hτ (Par.hfL h1)))
          (Par.refl _ m (applyOps_holeFree _ _ _ hτ (Par.hfL h2))))) (group_par h1)
  | _, _, _, @Par.iteF _ m a a' b b' h1 h2 => by
      have hτ := opsU_HF ds.len ds hds
      rw [applyOps_ite, applyOps_const _ _ .ff (Or.inr (Or.inr (Or.inr (Or.inr (Or.inl rfl)))))]
      exact Join.trans hW hD
        (Join.of_par (.iteF (Par.refl _ m (applyOps_holeFree _ _ _ hτ (Par.hfL h1)))
          (Par.refl _ m (applyOps_holeFree _ _ _ hτ (Par.hfL h2))))) (group_par h2)
theorem group_parDefs : ∀ {m : Nat} {B C : Defs}, ParDefs (pushedD ds ds.len Δ) m B C →
    JoinDefs Δ m (applyOpsDefs m (opsU ds.len ds) B) (applyOpsDefs m (opsU ds.len ds) C)
  | _, _, _, .nil _ => by rw [applyOpsDefs_nil]; exact JoinDefs.refl _ _
  | _, _, _, @ParDefs.cons _ m x a a' d d' r r' h1 h2 h3 => by
      have hτ := opsU_HF ds.len ds hds
      rw [applyOpsDefs_cons, applyOpsDefs_cons]
      exact JoinDefs.cons hD x (applyOps_holeFree _ _ _ hτ (Par.hfL h1))
        (applyOps_holeFree _ _ _ hτ (Par.hfR hD' h1)) (applyOps_holeFree _ _ _ hτ (Par.hfL h2))
        (applyOps_holeFree _ _ _ hτ (Par.hfR hD' h2))
        (applyOpsDefs_holeFree _ _ _ hτ (ParDefs.hfL h3))
        (applyOpsDefs_holeFree _ _ _ hτ (ParDefs.hfR hD' h3))
        (group_par h1) (group_par h2) (group_parDefs h3)
end

end Transfer


/-! ## the group transfer property -/

mutual
theorem er_er : ∀ (t : Tm), er (er t) = er t
  | .lam _ _ _ b => by simp only [er, er_er b]
  | .pi _ _ d b => by simp only [er, er_er d, er_er b]
  | .app f a => by simp only [er, er_er f, er_er a]
  | .letg ds b => by simp only [er, erDefs_erDefs ds, er_er b]
  | .neg a => by simp only [er, er_er a]
  | .bin _ a b => by simp only [er, er_er a, er_er b]
  | .ite c t e => by simp only [er, er_er c, er_er t, er_er e]
  | .var _ _ | .hole _ _ | .type | .int | .bool | .tt | .ff | .lit _ => by simp only [er]
theorem erDefs_erDefs : ∀ (ds : Defs), erDefs (erDefs ds) = erDefs ds
  | .nil => by simp only [erDefs]
  | .cons _ _ d r => by simp only [erDefs, er_er d, erDefs_erDefs r]
end

theorem erD_pushedD : ∀ (ds : Defs) (k : Nat) (Δ : DCtxX),
    erD (pushedD ds k Δ) = pushedD (erDefs ds) k (erD Δ)
  | .nil, _, _ => rfl
  | .cons x a d r, k, Δ => by
      simp only [pushedD, erDefs]
      rw [erD_pushedD r (k - 1) _]
      rfl

theorem letg_pars_opsU {Δ : DCtxX} : ∀ (m : Nat) (ds : Defs) (t : Tm), ds.len ≤ m →
    ds.holeFree = true → t.holeFree = true → Pars Δ 0 (.letg ds t) (applyOps 0 (opsU m ds) t)
  | 0, .nil, t, _, _, ht => .single (.letNil (Par.refl _ _ ht))
  | 0, .cons .., t, h, _, _ => by simp at h
  | m+1, .nil, t, _, _, ht => .single (.letNil (Par.refl _ _ ht))
  | m+1, .cons x a d r, t, h, hds, ht => by
      simp only [Defs.len_cons] at h
      simp only [Defs.holeFree, Bool.and_eq_true] at hds
      have hu := unfoldDef_holeFree x a d r.len hds.1.1 hds.1.2
      simp only [opsU, applyOps, Nat.add_zero]
      have st := Par.letStep (Δ := Δ) (n := 0) x (Par.refl a _ hds.1.1) (Par.refl d _ hds.1.2)
        (ParDefs.refl r _ hds.2) (Par.refl t _ ht)
      refine Pars.trans (.single st) ?_
      exact letg_pars_opsU m _ _ (by rw [openDefs_len]; omega) (openDefs_holeFree _ _ _ _ hds.2 hu)
        (openT_holeFree _ _ _ _ ht hu)

theorem pars_transfer {Δ : DCtxX} (hW : DWF Δ) (hD : DHF Δ) (ds : Defs) (hds : ds.holeFree = true)
    (he : erDefs ds = ds) (hD' : DHF (pushedD ds ds.len Δ)) {B C : Tm}
    (h : Pars (pushedD ds ds.len Δ) 0 B C) :
    Join Δ 0 (applyOps 0 (opsU ds.len ds) B) (applyOps 0 (opsU ds.len ds) C) := by
  induction h with
  | refl => exact Join.refl _ _
  | tail _ hp ih => exact Join.trans hW hD ih (group_par hW hD ds hds he hD' hp)

/-- **Group transfer**: two types joinable under the (transparent) definitions of a group give
joinable closed groups. -/
theorem group_transfer (Δ : DCtxX) (ds : Defs) (b b' : Tm) (hW : DWF Δ) (hj : Join (erD (pushedD ds ds.len Δ)) 0 (er b) (er b')) :
    Join (erD Δ) 0 (er (.letg ds b)) (er (.letg ds b')) := by
  have hWe := DWF_erD hW
  have hDe := DHF_erD Δ
  have hD' : DHF (pushedD (erDefs ds) (erDefs ds).len (erD Δ)) := by
    rw [erDefs_len, ← erD_pushedD]; exact DHF_erD _
  rw [erD_pushedD, ← erDefs_len ds] at hj
  obtain ⟨c, p1, p2⟩ := hj
  have j1 := pars_transfer hWe hDe (erDefs ds) (erDefs_holeFree ds) (erDefs_erDefs ds) hD' p1
  have j2 := pars_transfer hWe hDe (erDefs ds) (erDefs_holeFree ds) (erDefs_erDefs ds) hD' p2
  have l1 := letg_pars_opsU (Δ := erD Δ) (erDefs ds).len (erDefs ds) (er b) (Nat.le_refl _)
    (erDefs_holeFree ds) (er_holeFree b)
  have l2 := letg_pars_opsU (Δ := erD Δ) (erDefs ds).len (erDefs ds) (er b') (Nat.le_refl _)
    (erDefs_holeFree ds) (er_holeFree b')
  simp only [er]
  exact Join.trans hWe hDe (Join.of_pars l1)
    (Join.trans hWe hDe (Join.trans hWe hDe j1 j2.symm) (Join.of_pars l2).symm)

end CCPar
