import GramModel.Lemmas.ParserGood
import GramModel.Lemmas.ParserReassoc
import GramModel.Lemmas.ParserResolve
import GramModel.Lemmas.ParserCheckDefs

/-! Panic-freedom of everything in `parse` after the parse phase (`finishParse`), assembled from
`ParserReassoc`, `ParserResolve`, `ParserCheckDefs`. -/

namespace PModel

/-- After a parse without recorded errors, everything in `finishParse` past the error test runs
to completion: the outcome is a term or a list of errors. -/
theorem finishParse_no_panic (toks : Array PTok) (ctx : List Name) (term : Src) (next : Nat)
    (h : collectErrors term = [] → NoPE term) :
    (∃ t, finishParse toks ctx term next = .ok t) ∨ (∃ es, finishParse toks ctx term next = .errors es) := by
  unfold finishParse
  by_cases hce : collectErrors term = []
  · by_cases hn : next = toks.size
    · obtain ⟨t1, t2, t3, h1, h2, h3, hn3⟩ := reassoc_passes_noPE term (h hce)
      obtain ⟨r, st', hr, hclean⟩ := resolve_clean t3 (initialContext ctx).length
        { ctx := initialContext ctx, errors := [], nextHole := 0 } hn3
      obtain ⟨es, hes⟩ := checkDefinitions_ok r st'.ctx.length st'.errors hclean
      simp only [hce, hn, h1, h2, h3, hr, hes, List.isEmpty_nil, bne_self_eq_false, Bool.and_false,
        Bool.false_eq_true, if_false, Bool.not_true]
      by_cases hes' : es.isEmpty = true
      · simp only [hes', if_true]; exact Or.inl ⟨_, rfl⟩
      · simp only [hes']; exact Or.inr ⟨_, rfl⟩
    · have : (next != toks.size) = true := by simpa using hn
      simp only [hce, this, List.isEmpty_nil, Bool.and_self, if_true, List.nil_append,
        List.isEmpty_cons, Bool.not_false]
      exact Or.inr ⟨_, rfl⟩
  · have h3 : (collectErrors term).isEmpty = false := by
      cases hc : collectErrors term <;> simp_all
    simp only [h3, Bool.false_and, Bool.false_eq_true, if_false, Bool.not_false, if_true]
    exact Or.inr ⟨_, rfl⟩

end PModel
