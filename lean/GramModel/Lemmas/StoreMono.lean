import Lean.Elab.Tactic
import GramModel.Check

/-!
# Store monotonicity (C05, C12): cells only go from empty to filled, diagnostics are only added

`Grow s s'`: the store only got fresh empty cells appended (everything below `solveS`).
`Le s s'`: no cell disappeared and filled cells kept their contents (everything from `solveS` up).
Both also carry `s.nerrs ≤ s'.nerrs`.
-/

namespace StoreMono

/-! ## Generic machinery -/

theorem bind_ok {α β} {m : M α} {f : α → M β} {s s2 : St} {b : β}
    (h : (m >>= f) s = .ok b s2) : ∃ a s1, m s = .ok a s1 ∧ f a s1 = .ok b s2 := by
  simp only [bind, M.bind] at h
  split at h
  · exact ⟨_, _, by assumption, h⟩
  · cases h
  · cases h

theorem pure_ok {α} {a b : α} {s s' : St} (h : (pure a : M α) s = .ok b s') : a = b ∧ s = s' := by
  simp only [pure, M.pure] at h
  cases h; exact ⟨rfl, rfl⟩

/-- reflexive and transitive relations on states -/
class RT (P : St → St → Prop) : Prop where
  refl : ∀ s, P s s
  trans : ∀ {a b c}, P a b → P b c → P a c

structure Preserves {α} (P : St → St → Prop) (m : M α) : Prop where
  out : ∀ s a s', m s = .ok a s' → P s s'

section
variable {P : St → St → Prop} [RT P]

theorem Preserves.pure {α} (a : α) : Preserves P (pure a : M α) := by
  refine ⟨fun s b s' h => ?_⟩
  obtain ⟨_, rfl⟩ := pure_ok h
  exact RT.refl _

theorem Preserves.bind {α β} {m : M α} {f : α → M β} (hm : Preserves P m)
    (hf : ∀ a, Preserves P (f a)) : Preserves P (m >>= f) := by
  refine ⟨fun s b s' h => ?_⟩
  obtain ⟨a, s1, h1, h2⟩ := bind_ok h
  exact RT.trans (hm.out _ _ _ h1) ((hf a).out _ _ _ h2)

omit [RT P] in
theorem Preserves.outOfFuel {α} : Preserves P (outOfFuel : M α) := by
  refine ⟨fun s b s' h => ?_⟩; cases h

omit [RT P] in
theorem Preserves.panicAt {α} (site : String) : Preserves P (panicAt site : M α) := by
  refine ⟨fun s b s' h => ?_⟩; cases h

theorem Preserves.getSt : Preserves P getSt := by
  refine ⟨fun s b s' h => ?_⟩; cases h; exact RT.refl _

theorem Preserves.cellGet (id : Nat) : Preserves P (cellGet id) := by
  refine ⟨fun s b s' h => ?_⟩; cases h; exact RT.refl _
end

open Lean Elab Tactic Meta in
/-- close the goal with a local hypothesis (possibly universally quantified), up to reducible
unfolding only; unlike `apply_assumption` never goes through `exfalso` -/
elab "apply_hyp" : tactic => withMainContext do
  let g ← getMainGoal
  for d in ← getLCtx do
    if d.isImplementationDetail then continue
    let st ← saveState
    try
      let gs ← withReducible (g.apply d.toExpr)
      if gs.isEmpty then
        replaceMainGoal []
        return
      else st.restore
    catch _ => st.restore
  throwError "apply_hyp: no hypothesis closes the goal"

/-- one step of the syntax-directed proof search for `Preserves` goals -/
macro "pres_step" : tactic => `(tactic| first
  | with_reducible exact Preserves.pure _
  | with_reducible exact Preserves.outOfFuel
  | with_reducible exact Preserves.panicAt _
  | with_reducible exact Preserves.getSt
  | with_reducible exact Preserves.cellGet _
  | with_reducible assumption
  | apply_hyp
  | with_reducible (apply Preserves.bind)
  | intro _
  | split)

macro "pres" : tactic => `(tactic| repeat pres_step)

/-! ## The two relations -/

def Empty (l : List (Option Tm)) (id : Nat) : Prop := ∀ t, l[id]? ≠ some (some t)

/-- the predicate `storeExtends` of `Props/C05.lean` -/
def StoreLe (a b : List (Option Tm)) : Prop :=
  a.length ≤ b.length ∧ ∀ (id : Nat) (t : Tm), a[id]? = some (some t) → b[id]? = some (some t)

def Grow (s s' : St) : Prop :=
  (∃ k, s'.store = s.store ++ List.replicate k none) ∧ s.nerrs ≤ s'.nerrs

def Le (s s' : St) : Prop := StoreLe s.store s'.store ∧ s.nerrs ≤ s'.nerrs

instance : RT Grow where
  refl s := ⟨⟨0, by simp⟩, Nat.le_refl _⟩
  trans := by
    rintro a b c ⟨⟨k1, h1⟩, n1⟩ ⟨⟨k2, h2⟩, n2⟩
    refine ⟨⟨k1 + k2, ?_⟩, Nat.le_trans n1 n2⟩
    rw [h2, h1, List.append_assoc, List.replicate_append_replicate]

instance : RT Le where
  refl s := ⟨⟨Nat.le_refl _, fun _ _ h => h⟩, Nat.le_refl _⟩
  trans := by
    rintro a b c ⟨⟨l1, h1⟩, n1⟩ ⟨⟨l2, h2⟩, n2⟩
    exact ⟨⟨Nat.le_trans l1 l2, fun id t h => h2 id t (h1 id t h)⟩, Nat.le_trans n1 n2⟩

theorem Grow.le {s s' : St} (h : Grow s s') : Le s s' := by
  obtain ⟨⟨k, hk⟩, hn⟩ := h
  refine ⟨⟨?_, ?_⟩, hn⟩
  · rw [hk]; simp
  · intro id t h
    rw [hk]
    have hlt : id < s.store.length := by
      rcases Nat.lt_or_ge id s.store.length with h' | h'
      · exact h'
      · rw [List.getElem?_eq_none h'] at h; cases h
    rw [List.getElem?_append_left hlt]; exact h

theorem Grow.empty {s s' : St} (h : Grow s s') {id : Nat} (he : Empty s.store id) :
    Empty s'.store id := by
  obtain ⟨⟨k, hk⟩, _⟩ := h
  intro t ht
  rw [hk] at ht
  rcases Nat.lt_or_ge id s.store.length with h' | h'
  · rw [List.getElem?_append_left h'] at ht; exact he t ht
  · rw [List.getElem?_append_right h'] at ht
    rcases Nat.lt_or_ge (id - s.store.length) k with h'' | h''
    · rw [List.getElem?_replicate_of_lt h''] at ht; cases ht
    · rw [List.getElem?_eq_none (by simpa using h'')] at ht; cases ht

theorem Preserves.cellFresh_grow : Preserves Grow cellFresh := by
  refine ⟨fun s a s' h => ?_⟩; cases h
  exact ⟨⟨1, rfl⟩, Nat.le_refl _⟩

/-! ## Below `solveS`: only fresh cells -/

theorem sshiftS_grow : ∀ f,
    (∀ c amt t, Preserves Grow (sshiftS f c amt t)) ∧
    (∀ c amt ds, Preserves Grow (sshiftDefsS f c amt ds)) := by
  intro f
  induction f with
  | zero =>
    constructor
    · intros; rw [sshiftS]; exact Preserves.outOfFuel
    · intros; rw [sshiftDefsS]; exact Preserves.outOfFuel
  | succ f ih =>
    obtain ⟨ih1, ih2⟩ := ih
    constructor
    · intro c amt t
      unfold sshiftS
      pres
    · intro c amt ds
      unfold sshiftDefsS
      pres

theorem sshiftS_pres (f c amt t) : Preserves Grow (sshiftS f c amt t) := (sshiftS_grow f).1 c amt t
theorem sshiftDefsS_pres (f c amt ds) : Preserves Grow (sshiftDefsS f c amt ds) :=
  (sshiftS_grow f).2 c amt ds

theorem ushiftS_pres (f c a t) : Preserves Grow (ushiftS f c a t) := by
  have := sshiftS_pres f c (a : Int) t
  unfold ushiftS
  pres

theorem openS_grow : ∀ f,
    (∀ t i u s, Preserves Grow (openS f t i u s)) ∧
    (∀ ds i u s, Preserves Grow (openDefsS f ds i u s)) := by
  intro f
  induction f with
  | zero =>
    constructor
    · intros; rw [openS]; exact Preserves.outOfFuel
    · intros; rw [openDefsS]; exact Preserves.outOfFuel
  | succ f ih =>
    obtain ⟨ih1, ih2⟩ := ih
    have hu := ushiftS_pres f
    have hf := Preserves.cellFresh_grow
    constructor
    · intro t i u s
      unfold openS
      pres
    · intro ds i u s
      unfold openDefsS
      pres

theorem openS_pres (f t i u s) : Preserves Grow (openS f t i u s) := (openS_grow f).1 t i u s

theorem unfoldDefS_pres (f x ann d index) : Preserves Grow (unfoldDefS f x ann d index) := by
  have hu := ushiftS_pres f
  have ho := openS_pres f
  unfold unfoldDefS
  pres

theorem substDefsS_pres (f ds idx u) : Preserves Grow (substDefsS f ds idx u) := by
  have ho := openS_pres f
  fun_induction substDefsS f ds idx u <;> pres

theorem letLoopS_pres : ∀ f todo body, Preserves Grow (letLoopS f todo body) := by
  intro f
  induction f with
  | zero => intros; rw [letLoopS]; exact Preserves.outOfFuel
  | succ f ih =>
    intro todo body
    have hu := unfoldDefS_pres f
    have ho := openS_pres f
    have hs := substDefsS_pres f
    unfold letLoopS
    pres

end StoreMono
