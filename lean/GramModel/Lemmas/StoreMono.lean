import Lean.Elab.Tactic
import GramModel.Check

/-!
# Store monotonicity (C05, C12): cells only go from empty to filled, diagnostics are only added

`Grow s s'`: the store only got fresh empty cells appended (everything below `solveS`).
`Le s s'`: no cell disappeared and filled cells kept their contents (everything from `solveS` up).
Both also carry `s.nerrs ≤ s'.nerrs`.
-/

namespace StoreMono

/-! ## Generic machinery -/

theorem bind_ok {α β} {m : M α} {f : α → M β} {s s2 : St} {b : β}
    (h : (m >>= f) s = .ok b s2) : ∃ a s1, m s = .ok a s1 ∧ f a s1 = .ok b s2 := by
  simp only [bind, M.bind] at h
  split at h
  · exact ⟨_, _, by assumption, h⟩
  · cases h
  · cases h

theorem pure_ok {α} {a b : α} {s s' : St} (h : (pure a : M α) s = .ok b s') : a = b ∧ s = s' := by
  simp only [pure, M.pure] at h
  cases h; exact ⟨rfl, rfl⟩

/-- reflexive and transitive relations on states -/
class RT (P : St → St → Prop) : Prop where
  refl : ∀ s, P s s
  trans : ∀ {a b c}, P a b → P b c → P a c

structure Preserves {α} (P : St → St → Prop) (m : M α) : Prop where
  out : ∀ s a s', m s = .ok a s' → P s s'

section
variable {P : St → St → Prop} [RT P]

theorem Preserves.pure {α} (a : α) : Preserves P (pure a : M α) := by
  refine ⟨fun s b s' h => ?_⟩
  obtain ⟨_, rfl⟩ := pure_ok h
  exact RT.refl _

theorem Preserves.bind {α β} {m : M α} {f : α → M β} (hm : Preserves P m)
    (hf : ∀ a, Preserves P (f a)) : Preserves P (m >>= f) := by
  refine ⟨fun s b s' h => ?_⟩
  obtain ⟨a, s1, h1, h2⟩ := bind_ok h
  exact RT.trans (hm.out _ _ _ h1) ((hf a).out _ _ _ h2)

omit [RT P] in
theorem Preserves.outOfFuel {α} : Preserves P (outOfFuel : M α) := by
  refine ⟨fun s b s' h => ?_⟩; cases h

omit [RT P] in
theorem Preserves.panicAt {α} (site : String) : Preserves P (panicAt site : M α) := by
  refine ⟨fun s b s' h => ?_⟩; cases h

theorem Preserves.getSt : Preserves P getSt := by
  refine ⟨fun s b s' h => ?_⟩; cases h; exact RT.refl _

theorem Preserves.cellGet (id : Nat) : Preserves P (cellGet id) := by
  refine ⟨fun s b s' h => ?_⟩; cases h; exact RT.refl _
end

open Lean Elab Tactic Meta in
/-- close the goal with a local hypothesis (possibly universally quantified), up to reducible
unfolding only; unlike `apply_assumption` never goes through `exfalso` -/
elab "apply_hyp" : tactic => withMainContext do
  let g ← getMainGoal
  for d in ← getLCtx do
    if d.isImplementationDetail then continue
    let st ← saveState
    try
      let gs ← withReducible (g.apply d.toExpr)
      if gs.isEmpty then
        replaceMainGoal []
        return
      else st.restore
    catch _ => st.restore
  throwError "apply_hyp: no hypothesis closes the goal"

/-- one step of the syntax-directed proof search for `Preserves` goals -/
macro "pres_step" : tactic => `(tactic| first
  | with_reducible exact Preserves.pure _
  | with_reducible exact Preserves.outOfFuel
  | with_reducible exact Preserves.panicAt _
  | with_reducible exact Preserves.getSt
  | with_reducible exact Preserves.cellGet _
  | with_reducible assumption
  | apply_hyp
  | with_reducible (apply Preserves.bind)
  | intro _
  | split)

macro "pres" : tactic => `(tactic| repeat pres_step)

/-! ## The two relations -/

def Empty (l : List (Option Tm)) (id : Nat) : Prop := ∀ t, l[id]? ≠ some (some t)

/-- the predicate `storeExtends` of `Props/C05.lean` -/
def StoreLe (a b : List (Option Tm)) : Prop :=
  a.length ≤ b.length ∧ ∀ (id : Nat) (t : Tm), a[id]? = some (some t) → b[id]? = some (some t)

def Grow (s s' : St) : Prop :=
  (∃ k, s'.store = s.store ++ List.replicate k none) ∧ s.nerrs ≤ s'.nerrs

def Le (s s' : St) : Prop := StoreLe s.store s'.store ∧ s.nerrs ≤ s'.nerrs

instance : RT Grow where
  refl s := ⟨⟨0, by simp⟩, Nat.le_refl _⟩
  trans := by
    rintro a b c ⟨⟨k1, h1⟩, n1⟩ ⟨⟨k2, h2⟩, n2⟩
    refine ⟨⟨k1 + k2, ?_⟩, Nat.le_trans n1 n2⟩
    rw [h2, h1, List.append_assoc, List.replicate_append_replicate]

instance : RT Le where
  refl s := ⟨⟨Nat.le_refl _, fun _ _ h => h⟩, Nat.le_refl _⟩
  trans := by
    rintro a b c ⟨⟨l1, h1⟩, n1⟩ ⟨⟨l2, h2⟩, n2⟩
    exact ⟨⟨Nat.le_trans l1 l2, fun id t h => h2 id t (h1 id t h)⟩, Nat.le_trans n1 n2⟩

theorem Grow.le {s s' : St} (h : Grow s s') : Le s s' := by
  obtain ⟨⟨k, hk⟩, hn⟩ := h
  refine ⟨⟨?_, ?_⟩, hn⟩
  · rw [hk]; simp
  · intro id t h
    rw [hk]
    have hlt : id < s.store.length := by
      rcases Nat.lt_or_ge id s.store.length with h' | h'
      · exact h'
      · rw [List.getElem?_eq_none h'] at h; cases h
    rw [List.getElem?_append_left hlt]; exact h

theorem Grow.empty {s s' : St} (h : Grow s s') {id : Nat} (he : Empty s.store id) :
    Empty s'.store id := by
  obtain ⟨⟨k, hk⟩, _⟩ := h
  intro t ht
  rw [hk] at ht
  rcases Nat.lt_or_ge id s.store.length with h' | h'
  · rw [List.getElem?_append_left h'] at ht; exact he t ht
  · rw [List.getElem?_append_right h'] at ht
    rcases Nat.lt_or_ge (id - s.store.length) k with h'' | h''
    · rw [List.getElem?_replicate_of_lt h''] at ht; cases ht
    · rw [List.getElem?_eq_none (by simpa using h'')] at ht; cases ht

theorem Preserves.cellFresh_grow : Preserves Grow cellFresh := by
  refine ⟨fun s a s' h => ?_⟩; cases h
  exact ⟨⟨1, rfl⟩, Nat.le_refl _⟩

/-! ## Below `solveS`: only fresh cells -/

theorem sshiftS_grow : ∀ f,
    (∀ c amt t, Preserves Grow (sshiftS f c amt t)) ∧
    (∀ c amt ds, Preserves Grow (sshiftDefsS f c amt ds)) := by
  intro f
  induction f with
  | zero =>
    constructor
    · intros; rw [sshiftS]; exact Preserves.outOfFuel
    · intros; rw [sshiftDefsS]; exact Preserves.outOfFuel
  | succ f ih =>
    obtain ⟨ih1, ih2⟩ := ih
    constructor
    · intro c amt t
      unfold sshiftS
      pres
    · intro c amt ds
      unfold sshiftDefsS
      pres

theorem sshiftS_pres (f c amt t) : Preserves Grow (sshiftS f c amt t) := (sshiftS_grow f).1 c amt t
theorem sshiftDefsS_pres (f c amt ds) : Preserves Grow (sshiftDefsS f c amt ds) :=
  (sshiftS_grow f).2 c amt ds

theorem ushiftS_pres (f c a t) : Preserves Grow (ushiftS f c a t) := by
  have := sshiftS_pres f c (a : Int) t
  unfold ushiftS
  pres

theorem openS_grow : ∀ f,
    (∀ t i u s, Preserves Grow (openS f t i u s)) ∧
    (∀ ds i u s, Preserves Grow (openDefsS f ds i u s)) := by
  intro f
  induction f with
  | zero =>
    constructor
    · intros; rw [openS]; exact Preserves.outOfFuel
    · intros; rw [openDefsS]; exact Preserves.outOfFuel
  | succ f ih =>
    obtain ⟨ih1, ih2⟩ := ih
    have hu := ushiftS_pres f
    have hf := Preserves.cellFresh_grow
    constructor
    · intro t i u s
      unfold openS
      pres
    · intro ds i u s
      unfold openDefsS
      pres

theorem openS_pres (f t i u s) : Preserves Grow (openS f t i u s) := (openS_grow f).1 t i u s

theorem unfoldDefS_pres (f x ann d index) : Preserves Grow (unfoldDefS f x ann d index) := by
  have hu := ushiftS_pres f
  have ho := openS_pres f
  unfold unfoldDefS
  pres

theorem substDefsS_pres (f ds idx u) : Preserves Grow (substDefsS f ds idx u) := by
  have ho := openS_pres f
  fun_induction substDefsS f ds idx u <;> pres

theorem letLoopS_pres : ∀ f todo body, Preserves Grow (letLoopS f todo body) := by
  intro f
  induction f with
  | zero => intros; rw [letLoopS]; exact Preserves.outOfFuel
  | succ f ih =>
    intro todo body
    have hu := unfoldDefS_pres f
    have ho := openS_pres f
    have hs := substDefsS_pres f
    unfold letLoopS
    pres

theorem whnfS_pres : ∀ f t, Preserves Grow (whnfS f t) := by
  intro f
  induction f with
  | zero => intros; rw [whnfS]; exact Preserves.outOfFuel
  | succ f ih =>
    intro t
    have hu := ushiftS_pres f
    have ho := openS_pres f
    have hl := letLoopS_pres f
    unfold whnfS
    pres

theorem derefS_pres : ∀ f t, Preserves Grow (derefS f t) := by
  intro f
  induction f with
  | zero => intros; rw [derefS]; exact Preserves.outOfFuel
  | succ f ih =>
    intro t
    have hu := ushiftS_pres f
    unfold derefS
    pres

theorem synEqS_grow : ∀ f,
    (∀ a b, Preserves Grow (synEqS f a b)) ∧
    (∀ a b, Preserves Grow (synEqDefsS f a b)) := by
  intro f
  induction f with
  | zero =>
    constructor
    · intros; rw [synEqS]; exact Preserves.outOfFuel
    · intros; rw [synEqDefsS]; exact Preserves.outOfFuel
  | succ f ih =>
    obtain ⟨ih1, ih2⟩ := ih
    have hd := derefS_pres f
    constructor
    · intro a b
      unfold synEqS
      pres
    · intro a b
      unfold synEqDefsS
      pres

theorem synEqS_pres (f a b) : Preserves Grow (synEqS f a b) := (synEqS_grow f).1 a b

theorem occursS_grow : ∀ f,
    (∀ id t, Preserves Grow (occursS f id t)) ∧
    (∀ id ds, Preserves Grow (occursDefsS f id ds)) := by
  intro f
  induction f with
  | zero =>
    constructor
    · intros; rw [occursS]; exact Preserves.outOfFuel
    · intros; rw [occursDefsS]; exact Preserves.outOfFuel
  | succ f ih =>
    obtain ⟨ih1, ih2⟩ := ih
    constructor
    · intro id t
      unfold occursS
      pres
    · intro id ds
      unfold occursDefsS
      pres

theorem occursS_pres (f id t) : Preserves Grow (occursS f id t) := (occursS_grow f).1 id t

theorem letTypeS_pres (f ds) : ∀ k i acc, Preserves Grow (letTypeS f ds k i acc) := by
  have hs := sshiftDefsS_pres f
  have ho := openS_pres f
  intro k
  induction k with
  | zero => intros; unfold letTypeS; pres
  | succ k ih => intros; unfold letTypeS; pres


/-! ## `whnfS` only returns a hole whose cell is empty -/

structure Post {α} (Q : α → St → Prop) (m : M α) : Prop where
  out : ∀ s a s', m s = .ok a s' → Q a s'

theorem Post.pure {α} {Q : α → St → Prop} {a : α} (h : ∀ s, Q a s) : Post Q (pure a : M α) := by
  refine ⟨fun s b s' h' => ?_⟩
  obtain ⟨rfl, rfl⟩ := pure_ok h'
  exact h _

theorem Post.bind {α β} {Q : β → St → Prop} {m : M α} {f : α → M β}
    (hf : ∀ a, Post Q (f a)) : Post Q (m >>= f) := by
  refine ⟨fun s b s' h => ?_⟩
  obtain ⟨a, s1, _, h2⟩ := bind_ok h
  exact (hf a).out _ _ _ h2

theorem Post.outOfFuel {α} {Q : α → St → Prop} : Post Q (outOfFuel : M α) := by
  refine ⟨fun s b s' h => ?_⟩; cases h

theorem Post.panicAt {α} {Q : α → St → Prop} (site : String) : Post Q (panicAt site : M α) := by
  refine ⟨fun s b s' h => ?_⟩; cases h

macro "post_step" : tactic => `(tactic| first
  | with_reducible exact Post.outOfFuel
  | with_reducible exact Post.panicAt _
  | with_reducible assumption
  | apply_hyp
  | with_reducible (apply Post.bind)
  | intro _
  | split)

theorem cellGet_ok {id : Nat} {s s1 : St} {o : Option Tm} (h : cellGet id s = .ok o s1) :
    s1 = s ∧ (o = none → Empty s.store id) := by
  unfold cellGet at h
  cases h
  refine ⟨rfl, fun h t ht => ?_⟩
  rw [ht] at h
  cases h

/-- the result of `whnfS`, if a hole, is an unresolved one -/
def HoleEmpty (r : Tm) (s : St) : Prop := ∀ id sh, r = .hole id sh → Empty s.store id

theorem delta_not_hole {op x y r} (h : delta op x y = some r) : ∀ s, HoleEmpty r s := by
  intro s id sh e
  subst e
  unfold delta at h
  split at h <;> (try split at h) <;> cases h

theorem whnfS_hole : ∀ f t, Post HoleEmpty (whnfS f t) := by
  intro f
  induction f with
  | zero => intros; rw [whnfS]; exact Post.outOfFuel
  | succ f ih =>
    intro t
    unfold whnfS
    split
    · -- hole
      refine ⟨fun s r s' h => ?_⟩
      obtain ⟨o, s1, h1, h2⟩ := bind_ok h
      obtain ⟨rfl, he⟩ := cellGet_ok h1
      cases o with
      | some sub =>
        obtain ⟨_, _, _, h3⟩ := bind_ok h2
        exact (ih _).out _ _ _ h3
      | none =>
        obtain ⟨rfl, rfl⟩ := pure_ok h2
        intro id sh e
        cases e
        exact he rfl
    all_goals repeat' post_step
    all_goals first
      | exact Post.pure (Q := HoleEmpty) (delta_not_hole (by assumption))
      | (refine Post.pure (Q := HoleEmpty) (fun s id sh e => ?_); first | (exfalso; solve_by_elim) | cases e)

/-! ## `solveS`: the only write to an existing cell -/

theorem Preserves.mono {α} {P Q : St → St → Prop} {m : M α} (h : ∀ s s', P s s' → Q s s')
    (hm : Preserves P m) : Preserves Q m := ⟨fun s a s' e => h _ _ (hm.out s a s' e)⟩

theorem Preserves.le {α} {m : M α} (hm : Preserves Grow m) : Preserves Le m :=
  hm.mono fun _ _ => Grow.le

theorem StoreLe_set {l : List (Option Tm)} {id : Nat} (t : Tm) (he : Empty l id) :
    StoreLe l (l.set id (some t)) := by
  refine ⟨by simp, fun j u h => ?_⟩
  rw [List.getElem?_set]
  split
  · next e => subst e; exact absurd h (he u)
  · exact h

theorem cellSet_le {id : Nat} {t : Tm} {s s' : St} {a : Unit} (he : Empty s.store id)
    (h : cellSet id t s = .ok a s') : Le s s' := by
  unfold cellSet modifySt at h
  cases h
  exact ⟨StoreLe_set t he, Nat.le_refl _⟩

theorem solveS_spec {f id sh : Nat} {other : Tm} {s s' : St} {r : Option Bool}
    (h : solveS f id sh other s = .ok r s') :
    (r = none → Grow s s') ∧ (Empty s.store id → Le s s') := by
  unfold solveS at h
  obtain ⟨o, s1, h1, h2⟩ := bind_ok h
  have g1 := (sshiftS_pres _ _ _ _).out _ _ _ h1
  split at h2
  · obtain ⟨rfl, rfl⟩ := pure_ok h2
    exact ⟨fun _ => g1, fun _ => g1.le⟩
  · obtain ⟨b, s2, h3, h4⟩ := bind_ok h2
    have g2 := RT.trans g1 ((occursS_pres _ _ _).out _ _ _ h3)
    split at h4
    · obtain ⟨rfl, rfl⟩ := pure_ok h4
      exact ⟨fun e => (by cases e), fun _ => g2.le⟩
    · obtain ⟨o2, s3, h5, h6⟩ := bind_ok h4
      have g3 := RT.trans g2 ((sshiftS_pres _ _ _ _).out _ _ _ h5)
      split at h6
      · obtain ⟨u, s4, h7, h8⟩ := bind_ok h6
        obtain ⟨rfl, rfl⟩ := pure_ok h8
        exact ⟨fun e => (by cases e), fun he => RT.trans g3.le (cellSet_le (g3.empty he) h7)⟩
      · obtain ⟨rfl, rfl⟩ := pure_ok h6
        exact ⟨fun e => (by cases e), fun _ => g3.le⟩

/-! ## State-only primitives -/

theorem modifySt_le {f : St → St} (hs : ∀ s, (f s).store = s.store) (hn : ∀ s, s.nerrs ≤ (f s).nerrs) :
    Preserves Le (modifySt f) := by
  refine ⟨fun s a s' h => ?_⟩
  unfold modifySt at h
  cases h
  exact ⟨by rw [hs]; exact (RT.refl (P := Le) s).1, hn s⟩

theorem pushD_le (d) : Preserves Le (pushD d) := modifySt_le (fun _ => rfl) (fun _ => Nat.le_refl _)
theorem popD_le : Preserves Le popD := modifySt_le (fun _ => rfl) (fun _ => Nat.le_refl _)
theorem pushCtx_le (ty d) : Preserves Le (pushCtx ty d) :=
  modifySt_le (fun _ => rfl) (fun _ => Nat.le_refl _)
theorem popCtx_le : Preserves Le popCtx := modifySt_le (fun _ => rfl) (fun _ => Nat.le_refl _)
theorem reportError_le : Preserves Le reportError :=
  modifySt_le (fun _ => rfl) (fun _ => Nat.le_succ _)
theorem cellFresh_le : Preserves Le cellFresh := Preserves.cellFresh_grow.le

/-! ## `unifyS` -/

theorem unifyS_le : ∀ f a b, Preserves Le (unifyS f a b) := by
  intro f
  induction f with
  | zero => intros; rw [unifyS]; exact Preserves.outOfFuel
  | succ f ih =>
    intro a b
    unfold unifyS
    refine ⟨fun s r s' h => ?_⟩
    obtain ⟨c, s0, h0, h1⟩ := bind_ok h
    have g0 := (synEqS_pres _ _ _).out _ _ _ h0
    split at h1
    · obtain ⟨_, rfl⟩ := pure_ok h1
      exact g0.le
    · obtain ⟨w1, s1, hw1, h2⟩ := bind_ok h1
      obtain ⟨w2, s2, hw2, h3⟩ := bind_ok h2
      have g1 := (whnfS_pres _ _).out _ _ _ hw1
      have g2 := (whnfS_pres _ _).out _ _ _ hw2
      have E1 : HoleEmpty w1 s2 := fun i sh e => g2.empty ((whnfS_hole _ _).out _ _ _ hw1 i sh e)
      have E2 : HoleEmpty w2 s2 := (whnfS_hole _ _).out _ _ _ hw2
      refine RT.trans g0.le (RT.trans g1.le (RT.trans g2.le ?_))
      clear h h0 h1 h2 hw1 hw2 g0 g1 g2
      extract_lets structural rightHole at h3
      have hstruct : Preserves Le structural := by
        have hpush := pushD_le
        have hpop := popD_le
        unfold structural
        pres
      have hright : ∀ st r s', HoleEmpty w2 st → rightHole st = .ok r s' → Le st s' := by
        intro st r s' he h
        unfold rightHole at h
        split at h
        · obtain ⟨o, st1, hs, h'⟩ := bind_ok h
          have sp := solveS_spec hs
          split at h'
          · obtain ⟨_, rfl⟩ := pure_ok h'
            exact sp.2 (he _ _ rfl)
          · exact RT.trans (sp.1 rfl).le (hstruct.out _ _ _ h')
        · exact hstruct.out _ _ _ h
      have hleft : ∀ i sh, w1 = .hole i sh →
          (do match ← solveS f i sh w2 with
              | some b => pure b
              | none => rightHole : M Bool) s2 = .ok r s' → Le s2 s' := by
        intro i sh e h
        obtain ⟨o, st1, hs, h'⟩ := bind_ok h
        have sp := solveS_spec hs
        split at h'
        · obtain ⟨_, rfl⟩ := pure_ok h'
          exact sp.2 (E1 _ _ e)
        · have g := sp.1 rfl
          exact RT.trans g.le (hright _ _ _ (fun j sh e => g.empty (E2 j sh e)) h')
      split at h3
      · split at h3
        · obtain ⟨_, rfl⟩ := pure_ok h3
          exact RT.refl _
        · exact hleft _ _ rfl h3
      · exact hleft _ _ rfl h3
      · exact hright _ _ _ E2 h3

/-! ## `inferS` -/

theorem pushDefsS_le (ds k) : Preserves Le (pushDefsS ds k) := by
  have hp := pushCtx_le
  fun_induction pushDefsS ds k <;> pres

theorem popN_le : ∀ k, Preserves Le (popN k) := by
  have hp := popCtx_le
  intro k
  induction k with
  | zero => unfold popN; pres
  | succ k ih => unfold popN; pres

theorem inferS_le_aux : ∀ f,
    (∀ t, Preserves Le (inferS f t)) ∧ (∀ ds, Preserves Le (inferDefsS f ds)) := by
  intro f
  induction f with
  | zero =>
    constructor
    · intros; rw [inferS]; exact Preserves.outOfFuel
    · intros; rw [inferDefsS]; exact Preserves.outOfFuel
  | succ f ih =>
    obtain ⟨ih1, ih2⟩ := ih
    have hun := unifyS_le f
    have hus := fun c a t => (ushiftS_pres f c a t).le
    have hop := fun t i u s => (openS_pres f t i u s).le
    have hlt := fun ds k i acc => (letTypeS_pres f ds k i acc).le
    have hfr := cellFresh_le
    have hpc := pushCtx_le
    have hpo := popCtx_le
    have hre := reportError_le
    have hpd := pushDefsS_le
    have hpn := popN_le
    constructor
    · intro t
      unfold inferS
      pres
    · intro ds
      unfold inferDefsS
      pres

theorem inferS_le (f t) : Preserves Le (inferS f t) := (inferS_le_aux f).1 t

end StoreMono
