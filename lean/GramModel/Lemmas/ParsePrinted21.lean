import GramModel.Lemmas.ParsePrinted20

/-! # Stage B, full: name resolution of the tree of a printed term, definition groups included -/

namespace PModel
open RewriteMore PrintDerives

def notLetV (v : SrcV) : Prop := ∀ x a d b, v ≠ .let_ x a d b

theorem bindAll_fresh : ∀ (xs scope : List Name), (∀ x ∈ xs, x ≠ placeholder ∧ x ∉ scope) → xs.Nodup →
    Stack.bindAll (scope.map slot) xs = some ((xs.reverse ++ scope).map slot)
  | [], scope, _, _ => rfl
  | x :: xs, scope, hf, hnd => by
    rw [List.nodup_cons] at hnd
    obtain ⟨hx, hnotin⟩ := hf x (by simp)
    have hbind : Stack.bind (scope.map slot) x = some ((x :: scope).map slot) := by
      rw [Stack.bind_eq, index_none scope x hnotin]
      simp [slot, hx]
    rw [Stack.bindAll, hbind]
    have := bindAll_fresh xs (x :: scope)
      (fun y hy => ⟨(hf y (by simp [hy])).1, by
        intro hm
        rcases List.mem_cons.mp hm with rfl | hm
        · exact hnd.1 hy
        · exact (hf y (by simp [hy])).2 hm⟩) hnd.2
    simpa [List.reverse_cons, List.append_assoc] using this

theorem scopeOK_append : ∀ (xs scope : List Name), (∀ x ∈ xs, x ≠ placeholder ∧ x ∉ scope) →
    xs.Nodup → ScopeOK scope → ScopeOK (xs.reverse ++ scope)
  | [], scope, _, _, h => by simpa using h
  | x :: xs, scope, hf, hnd, h => by
    rw [List.nodup_cons] at hnd
    have := scopeOK_append xs (x :: scope)
      (fun y hy => ⟨(hf y (by simp [hy])).1, by
        intro hm
        rcases List.mem_cons.mp hm with rfl | hm
        · exact hnd.1 hy
        · exact (hf y (by simp [hy])).2 hm⟩) hnd.2 ⟨Or.inr (hf x (by simp)).2, h⟩
    simpa [List.reverse_cons, List.append_assoc] using this

section
variable (I : List Char → Name) (nm : Name → List Char) (hI : ∀ x, I (nm x) = x)

theorem lsrc_notlet {b : Tm} (hb : isLet b = false) {s : Src} (h : strip s = lsrc I nm b) :
    notLetV s.variant := by
  obtain ⟨r, g, v, es⟩ := s
  intro x a d b' hv
  simp only [Src.variant] at hv
  subst hv
  cases b <;> simp [isLet] at hb <;>
    first
    | (simp [lsrc, strip, stripV, mk00] at h; done)
    | (rw [lsrc] at h; split at h <;> simp [strip, stripV, mk00] at h)

include hI

theorem letNames_lsrcDefs {E : Src} (hE : ∀ s, strip s = E → notLetV s.variant) :
    ∀ (r : Defs) (s : Src), strip s = lsrcDefs I nm r E → letNames s = Defs.names r
  | .nil, ⟨rr, g, v, es⟩, h => by
    rw [lsrcDefs] at h
    have := hE _ h
    cases v <;> first | rfl | exact absurd rfl (this _ _ _ _)
  | .cons y a d r, ⟨rr, g, v, es⟩, h => by
    rw [lsrcDefs, hI] at h
    cases v <;> simp [strip, stripV, mk00] at h
    rename_i v' ann sd sb
    obtain ⟨hv, _, _, hb⟩ := h
    simp only [letNames, Defs.names, hv, letNames_lsrcDefs hE r sb hb]

mutual
theorem toDB_lsrcF : ∀ (t : Tm) (scope : List Name) (s : Src),
    scopedOK scope t = true → ScopeOK scope → strip s = lsrc I nm t →
    toDB (scope.map slot) s = some (canon t) ∧ (canon t).holeFree = true
  | .hole _ _, _, _, h, _, _ => by simp [scopedOK] at h
  | .type, _, ⟨r, g, v, es⟩, _, _, h => by
    rw [lsrc] at h; cases v <;> simp [strip, stripV, mk00] at h
    simp [toDB, toDBV, canon, Tm.holeFree]
  | .int, _, ⟨r, g, v, es⟩, _, _, h => by
    rw [lsrc] at h; cases v <;> simp [strip, stripV, mk00] at h
    simp [toDB, toDBV, canon, Tm.holeFree]
  | .bool, _, ⟨r, g, v, es⟩, _, _, h => by
    rw [lsrc] at h; cases v <;> simp [strip, stripV, mk00] at h
    simp [toDB, toDBV, canon, Tm.holeFree]
  | .tt, _, ⟨r, g, v, es⟩, _, _, h => by
    rw [lsrc] at h; cases v <;> simp [strip, stripV, mk00] at h
    simp [toDB, toDBV, canon, Tm.holeFree]
  | .ff, _, ⟨r, g, v, es⟩, _, _, h => by
    rw [lsrc] at h; cases v <;> simp [strip, stripV, mk00] at h
    simp [toDB, toDBV, canon, Tm.holeFree]
  | .lit n, _, ⟨r, g, v, es⟩, _, _, h => by
    rw [lsrc] at h; cases v <;> simp [strip, stripV, mk00] at h
    subst h
    simp [toDB, toDBV, canon, Tm.holeFree]
  | .var x i, scope, ⟨r, g, v, es⟩, hsc, hok, h => by
    rw [lsrc, hI] at h; cases v <;> simp [strip, stripV, mk00] at h
    subst h
    simp only [scopedOK, Bool.and_eq_true, bne_iff_ne, ne_eq, beq_iff_eq] at hsc
    have := index_scope scope hok i _ hsc.1 hsc.2
    simp [toDB, toDBV, hsc.1, this, canon, Tm.holeFree]
  | .lam x imp d b, scope, ⟨r, g, v, es⟩, hsc, hok, h => by
    rw [lsrc, hI] at h; cases v <;> simp [strip, stripV, mk00] at h
    rename_i v' imp' dom body
    obtain ⟨hv, rfl, hd, hb⟩ := h
    cases dom with
    | none => simp [stripO] at hd
    | some sd =>
      simp only [stripO, OptSrc.some.injEq] at hd
      simp only [scopedOK, Bool.and_eq_true, bne_iff_ne, ne_eq, Bool.not_eq_true',
        List.contains_eq_mem, decide_eq_false_iff_not] at hsc
      obtain ⟨⟨⟨hx, hnotin⟩, hsd⟩, hsb⟩ := hsc
      have ihd := toDB_lsrcF d scope sd hsd hok hd
      have ihb := toDB_lsrcF b (x :: scope) body hsb ⟨Or.inr hnotin, hok⟩ hb
      have hbind : Stack.bind (scope.map slot) v'.name = some (some x :: scope.map slot) := by
        rw [hv, Stack.bind_eq, index_none scope x hnotin]
        simp [slot, hx]
      have hsl : (x :: scope).map slot = some x :: scope.map slot := by
        simp [slot, hx]
      rw [hsl] at ihb
      rw [hv] at hbind
      simp [toDB, toDBV, toDBOpt, hbind, hv, canon, Tm.holeFree] at ihd ihb ⊢
      simp [ihd, ihb]
  | .pi x imp d c, scope, ⟨r, g, v, es⟩, hsc, hok, h => by
    cases hf : freeAt c 0 with
    | true =>
      rw [lsrc, hI] at h
      simp only [hf, if_true] at h
      cases v <;> simp [strip, stripV, mk00] at h
      rename_i v' imp' sd body
      obtain ⟨hv, rfl, hd, hb⟩ := h
      simp only [scopedOK, hf, if_true, Bool.and_eq_true, bne_iff_ne, ne_eq, Bool.not_eq_true',
        List.contains_eq_mem, decide_eq_false_iff_not] at hsc
      obtain ⟨⟨⟨hx, hnotin⟩, hsd⟩, hsb⟩ := hsc
      have ihd := toDB_lsrcF d scope sd hsd hok hd
      have ihb := toDB_lsrcF c (x :: scope) body hsb ⟨Or.inr hnotin, hok⟩ hb
      have hbind : Stack.bind (scope.map slot) v'.name = some (some x :: scope.map slot) := by
        rw [hv, Stack.bind_eq, index_none scope x hnotin]
        simp [slot, hx]
      have hsl : (x :: scope).map slot = some x :: scope.map slot := by
        simp [slot, hx]
      rw [hsl] at ihb
      rw [hv] at hbind
      simp [toDB, toDBV, hbind, hv, canon, hf, Tm.holeFree] at ihd ihb ⊢
      simp [ihd, ihb]
    | false =>
      rw [lsrc] at h
      simp only [hf, if_false, Bool.false_eq_true] at h
      cases v <;> simp [strip, stripV, mk00] at h
      rename_i v' imp' sd body
      obtain ⟨hv, rfl, hd, hb⟩ := h
      simp only [scopedOK, hf, if_false, Bool.false_eq_true, Bool.and_eq_true] at hsc
      obtain ⟨hsd, hsb⟩ := hsc
      have ihd := toDB_lsrcF d scope sd hsd hok hd
      have ihb := toDB_lsrcF c (placeholder :: scope) body hsb ⟨Or.inl rfl, hok⟩ hb
      have hbind : Stack.bind (scope.map slot) v'.name = some (none :: scope.map slot) := by
        rw [hv]; simp [Stack.bind]
      have hsl : (placeholder :: scope).map slot = none :: scope.map slot := by
        simp [slot]
      rw [hsl] at ihb
      rw [hv] at hbind
      simp [toDB, toDBV, hbind, hv, canon, hf, Tm.holeFree] at ihd ihb ⊢
      simp [ihd, ihb]
  | .app f a, scope, ⟨r, g, v, es⟩, hsc, hok, h => by
    rw [lsrc] at h; cases v <;> simp [strip, stripV, mk00] at h
    simp only [scopedOK, Bool.and_eq_true] at hsc
    have ih1 := toDB_lsrcF f scope _ hsc.1 hok h.1
    have ih2 := toDB_lsrcF a scope _ hsc.2 hok h.2
    simp [toDB, toDBV, canon, Tm.holeFree] at ih1 ih2 ⊢
    simp [ih1, ih2]
  | .letg .nil b, scope, _, hsc, _, _ => by simp [scopedOK, Defs.names] at hsc
  | .letg (.cons x a d r) b, scope, ⟨rr, g, v, es⟩, hsc, hok, h => by
    rw [lsrc, lsrcDefs, hI] at h
    cases v <;> simp [strip, stripV, mk00] at h
    rename_i v' ann sd sb
    obtain ⟨hv, ha, hd, hb⟩ := h
    cases ann with
    | none => simp [stripO] at ha
    | some sa =>
      simp only [stripO, OptSrc.some.injEq] at ha
      simp only [scopedOK, Defs.names, scopedDefsOK, Bool.and_eq_true, Bool.not_eq_true',
        List.all_eq_true, bne_iff_ne, ne_eq, List.contains_eq_mem, decide_eq_false_iff_not] at hsc
      obtain ⟨⟨⟨⟨⟨_, hfresh⟩, hnd⟩, hbl⟩, ⟨⟨hsa, hsd⟩, hsr⟩⟩, hsb⟩ := hsc
      have hfresh' : ∀ y ∈ x :: Defs.names r, y ≠ placeholder ∧ y ∉ scope := hfresh
      have hnd' : (x :: Defs.names r).Nodup := of_decide_eq_true hnd
      have hok' := scopeOK_append _ scope hfresh' hnd' hok
      have iha := toDB_lsrcF a _ sa hsa hok' ha
      have ihd := toDB_lsrcF d _ sd hsd hok' hd
      have hE : ∀ s, strip s = lsrc I nm b → notLetV s.variant ∧
          toDB (((x :: Defs.names r).reverse ++ scope).map slot) s = some (canon b) ∧
          (canon b).holeFree = true :=
        fun s hs => ⟨lsrc_notlet I nm hbl hs, toDB_lsrcF b _ s hsb hok' hs⟩
      have hnames := letNames_lsrcDefs I nm hI (E := lsrc I nm b) (fun s hs => (hE s hs).1) r sb hb
      have hba := bindAll_fresh (x :: Defs.names r) scope hfresh' hnd'
      have ihr := fun n => toDBChain_lsrc r _ n 1 (lsrc I nm b) (canon b) sb hsr hok' hE hb
      clear hE hok'
      generalize List.map slot ((x :: Defs.names r).reverse ++ scope) = Γ' at iha ihd ihr hba
      simp [toDB, toDBV, hv, hnames, hba, toDBAnn, iha.1, ihd.1, (ihr _).1, canon, canonDefs,
        Tm.holeFree, Defs.holeFree, iha.2, ihd.2]
      exact (ihr 0).2
  | .neg a, scope, ⟨r, g, v, es⟩, hsc, hok, h => by
    rw [lsrc] at h; cases v <;> simp [strip, stripV, mk00] at h
    simp only [scopedOK] at hsc
    have ih1 := toDB_lsrcF a scope _ hsc hok h
    simp [toDB, toDBV, canon, Tm.holeFree] at ih1 ⊢
    simp [ih1]
  | .bin op a b, scope, ⟨r, g, v, es⟩, hsc, hok, h => by
    rw [lsrc] at h; cases v <;> simp [strip, stripV, mk00] at h
    obtain ⟨rfl, h1, h2⟩ := h
    simp only [scopedOK, Bool.and_eq_true] at hsc
    have ih1 := toDB_lsrcF a scope _ hsc.1 hok h1
    have ih2 := toDB_lsrcF b scope _ hsc.2 hok h2
    simp [toDB, toDBV, canon, Tm.holeFree] at ih1 ih2 ⊢
    simp [ih1, ih2]
  | .ite c a b, scope, ⟨r, g, v, es⟩, hsc, hok, h => by
    rw [lsrc] at h; cases v <;> simp [strip, stripV, mk00] at h
    obtain ⟨h0, h1, h2⟩ := h
    simp only [scopedOK, Bool.and_eq_true] at hsc
    have ih0 := toDB_lsrcF c scope _ hsc.1.1 hok h0
    have ih1 := toDB_lsrcF a scope _ hsc.1.2 hok h1
    have ih2 := toDB_lsrcF b scope _ hsc.2 hok h2
    simp [toDB, toDBV, canon, Tm.holeFree] at ih0 ih1 ih2 ⊢
    simp [ih0, ih1, ih2]
theorem toDBChain_lsrc : ∀ (ds : Defs) (scope : List Name) (n i : Nat) (E : Src) (cb : Tm) (s : Src),
    scopedDefsOK scope ds = true → ScopeOK scope →
    (∀ s, strip s = E → notLetV s.variant ∧ toDB (scope.map slot) s = some cb ∧
      cb.holeFree = true) →
    strip s = lsrcDefs I nm ds E →
    toDBChain (scope.map slot) n i s = some (canonDefs ds, cb) ∧ (canonDefs ds).holeFree = true ∧
      cb.holeFree = true
  | .nil, scope, n, i, E, cb, ⟨rr, g, v, es⟩, _, _, hE, h => by
    rw [lsrcDefs] at h
    obtain ⟨h1, h2, h3⟩ := hE _ h
    rw [toDB] at h2
    rw [toDBChain, C08_chain_body_is_toDB _ _ _ v h1, h2]
    simp [canonDefs, Defs.holeFree, h3]
  | .cons y a d r, scope, n, i, E, cb, ⟨rr, g, v, es⟩, hsc, hok, hE, h => by
    rw [lsrcDefs, hI] at h
    cases v <;> simp [strip, stripV, mk00] at h
    rename_i v' ann sd sb
    obtain ⟨hv, ha, hd, hb⟩ := h
    cases ann with
    | none => simp [stripO] at ha
    | some sa =>
      simp only [stripO, OptSrc.some.injEq] at ha
      simp only [scopedDefsOK, Bool.and_eq_true] at hsc
      have iha := toDB_lsrcF a scope sa hsc.1.1 hok ha
      have ihd := toDB_lsrcF d scope sd hsc.1.2 hok hd
      have ihr := toDBChain_lsrc r scope n (i + 1) E cb sb hsc.2 hok hE hb
      simp [toDBChain, toDBChainV, toDBAnn, iha.1, ihd.1, ihr.1, hv, canonDefs, Defs.holeFree,
        iha.2, ihd.2, ihr.2.1, ihr.2.2]
end

end

end PModel
