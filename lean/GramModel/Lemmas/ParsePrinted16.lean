import GramModel.Lemmas.ParsePrinted15

/-! # The product/quotient and sum/difference passes are the identity (up to ranges, flags, errors)
on fully parenthesised trees

`OK23 s`: no `ParseError` node, and both operands of every binary-operator node are parenthesised
(`group = true`) or not binary-operator nodes themselves — what the printer's `group` guarantees. -/

namespace PModel
open RewriteMore

def isBinV : SrcV → Bool
  | .bin _ _ _ => true
  | _ => false

/-- an operand the chain passes do not look into -/
def At23 (x : Src) : Prop := x.group = true ∨ isBinV x.variant = false

mutual
def OK23 : Src → Prop
  | .mk _ _ v _ => OK23V v
def OK23V : SrcV → Prop
  | .parseError => False
  | .type | .var _ | .int | .lit _ | .bool | .tt | .ff => True
  | .lam _ _ dom body => OK23O dom ∧ OK23 body
  | .pi _ _ dom cod => OK23 dom ∧ OK23 cod
  | .app f a => OK23 f ∧ OK23 a
  | .let_ _ ann d b => OK23O ann ∧ OK23 d ∧ OK23 b
  | .neg a => OK23 a
  | .bin _ a b => (At23 a ∧ At23 b) ∧ OK23 a ∧ OK23 b
  | .ite c a b => OK23 c ∧ OK23 a ∧ OK23 b
def OK23O : OptSrc → Prop
  | .none => True
  | .some t => OK23 t
end

theorem isBinV_strip (x : Src) : isBinV (strip x).variant = isBinV x.variant := by
  obtain ⟨r, g, v, es⟩ := x
  cases v <;> rfl

theorem At23.pres {a a' : Src} (h : At23 a) (hs : strip a' = strip a)
    (hg : a.group = true → a'.group = true) : At23 a' := by
  rcases h with h | h
  · exact Or.inl (hg h)
  · right
    rw [← isBinV_strip, hs, isBinV_strip]; exact h

theorem inFam_nonbin {fam : Family} (hf : fam ≠ .applications) {v : SrcV} (h : isBinV v = false) :
    inFam fam v = false := by
  cases v <;> simp_all [inFam, isBinV]


mutual
/-- **A chain pass other than the applications pass is the identity on a fully parenthesised tree**,
up to ranges, `group` flags and error lists; the result is again fully parenthesised. -/
theorem pass23 (fam : Family) (hf : fam ≠ .applications) : ∀ s : Src, OK23 s →
    ∃ s', reassoc fam none s = some s' ∧ strip s' = strip s ∧ OK23 s' ∧
      (s.group = true → s'.group = true)
  | .mk r g v es, hok => by
    cases v with
    | parseError => rw [OK23, OK23V] at hok; exact hok.elim
    | type => exact ⟨_, by rw [reassoc]; rfl, rfl, by rw [OK23, OK23V]; trivial, fun h => h⟩
    | var x => exact ⟨_, by rw [reassoc]; rfl, rfl, by rw [OK23, OK23V]; trivial, fun h => h⟩
    | int => exact ⟨_, by rw [reassoc]; rfl, rfl, by rw [OK23, OK23V]; trivial, fun h => h⟩
    | lit n => exact ⟨_, by rw [reassoc]; rfl, rfl, by rw [OK23, OK23V]; trivial, fun h => h⟩
    | bool => exact ⟨_, by rw [reassoc]; rfl, rfl, by rw [OK23, OK23V]; trivial, fun h => h⟩
    | tt => exact ⟨_, by rw [reassoc]; rfl, rfl, by rw [OK23, OK23V]; trivial, fun h => h⟩
    | ff => exact ⟨_, by rw [reassoc]; rfl, rfl, by rw [OK23, OK23V]; trivial, fun h => h⟩
    | lam x imp dom body =>
      rw [OK23, OK23V] at hok
      obtain ⟨d', hd, sd, okd⟩ := pass23O fam hf dom hok.1
      obtain ⟨b', hb, sb, okb, _⟩ := pass23 fam hf body hok.2
      refine ⟨.mk r g (.lam x imp d' b') [], by rw [reassoc]; simp only [hd, hb]; rfl,
        by simp [strip, stripV, sd, sb], by rw [OK23, OK23V]; exact ⟨okd, okb⟩, fun h => h⟩
    | pi x imp dom cod =>
      rw [OK23, OK23V] at hok
      obtain ⟨d', hd, sd, okd, _⟩ := pass23 fam hf dom hok.1
      obtain ⟨b', hb, sb, okb, _⟩ := pass23 fam hf cod hok.2
      refine ⟨.mk r g (.pi x imp d' b') [], by rw [reassoc]; simp only [hd, hb]; rfl,
        by simp [strip, stripV, sd, sb], by rw [OK23, OK23V]; exact ⟨okd, okb⟩, fun h => h⟩
    | app f a =>
      rw [OK23, OK23V] at hok
      obtain ⟨f', hf', sf, okf, _⟩ := pass23 fam hf f hok.1
      obtain ⟨a', ha, sa, oka, _⟩ := pass23 fam hf a hok.2
      refine ⟨.mk r g (.app f' a') [], by rw [reassoc]; simp only [hf, if_false, hf', ha]; rfl,
        by simp [strip, stripV, sf, sa], by rw [OK23, OK23V]; exact ⟨okf, oka⟩, fun h => h⟩
    | let_ x ann d b =>
      rw [OK23, OK23V] at hok
      obtain ⟨n', hn, sn, okn⟩ := pass23O fam hf ann hok.1
      obtain ⟨d', hd, sd, okd, _⟩ := pass23 fam hf d hok.2.1
      obtain ⟨b', hb, sb, okb, _⟩ := pass23 fam hf b hok.2.2
      refine ⟨.mk r g (.let_ x n' d' b') [], by rw [reassoc]; simp only [hn, hd, hb]; rfl,
        by simp [strip, stripV, sn, sd, sb], by rw [OK23, OK23V]; exact ⟨okn, okd, okb⟩, fun h => h⟩
    | neg a =>
      rw [OK23, OK23V] at hok
      obtain ⟨a', ha, sa, oka, _⟩ := pass23 fam hf a hok
      refine ⟨.mk r g (.neg a') [], by rw [reassoc]; simp only [ha]; rfl,
        by simp [strip, stripV, sa], by rw [OK23, OK23V]; exact oka, fun h => h⟩
    | ite c a b =>
      rw [OK23, OK23V] at hok
      obtain ⟨c', hc, sc, okc, _⟩ := pass23 fam hf c hok.1
      obtain ⟨a', ha, sa, oka, _⟩ := pass23 fam hf a hok.2.1
      obtain ⟨b', hb, sb, okb, _⟩ := pass23 fam hf b hok.2.2
      refine ⟨.mk r g (.ite c' a' b') [], by rw [reassoc]; simp only [hc, ha, hb]; rfl,
        by simp [strip, stripV, sc, sa, sb], by rw [OK23, OK23V]; exact ⟨okc, oka, okb⟩, fun h => h⟩
    | bin o a b =>
      rw [OK23, OK23V] at hok
      obtain ⟨⟨ata, atb⟩, oka0, okb0⟩ := hok
      obtain ⟨a', ha, sa, oka, ga⟩ := pass23 fam hf a oka0
      obtain ⟨b', hb, sb, okb, gb⟩ := pass23 fam hf b okb0
      have ata' := ata.pres sa ga
      have atb' := atb.pres sb gb
      by_cases ho : (fam = .productsAndQuotients ∧ (o = .prod ∨ o = .quot))
          ∨ (fam = .sumsAndDifferences ∧ (o = .sum ∨ o = .diff))
      · by_cases hg : b.group = true
        · refine ⟨.mk r g (.bin o a' b') [], ?_, by simp [strip, stripV, sa, sb],
            by rw [OK23, OK23V]; exact ⟨⟨ata', atb'⟩, oka, okb⟩, fun h => h⟩
          rw [reassoc]
          simp only [ho, if_true, Option.isSome, Bool.false_and, Bool.false_eq_true, if_false, hg,
            ha, hb]
        · have hop : Opaque fam b := by
            obtain ⟨rb, gb', vb, esb⟩ := b
            refine opaque_of fam rb gb' vb esb (Or.inr (inFam_nonbin hf ?_))
            rcases atb with h | h
            · exact absurd h hg
            · exact h
          refine ⟨reassocTail (some (a', Link.op o)) b', ?_,
            by simp [reassocTail, Link.build, strip, stripV, sa, sb],
            by simp only [reassocTail, Link.build]; rw [OK23, OK23V]; exact ⟨⟨ata', atb'⟩, oka, okb⟩,
            fun _ => rfl⟩
          rw [reassoc]
          simp only [ho, if_true, Option.isSome, Bool.false_and, Bool.false_eq_true, if_false, hg,
            ha, hop (some (a', Link.op o)), hb, Option.map_some]
      · refine ⟨.mk r g (.bin o a' b') [], by rw [reassoc]; simp only [ho, if_false, ha, hb]; rfl,
          by simp [strip, stripV, sa, sb],
          by rw [OK23, OK23V]; exact ⟨⟨ata', atb'⟩, oka, okb⟩, fun h => h⟩
theorem pass23O (fam : Family) (hf : fam ≠ .applications) : ∀ o : OptSrc, OK23O o →
    ∃ o', reassocOpt fam o = some o' ∧ stripO o' = stripO o ∧ OK23O o'
  | .none, _ => ⟨.none, by rw [reassocOpt], rfl, by rw [OK23O]; trivial⟩
  | .some t, h => by
    rw [OK23O] at h
    obtain ⟨t', ht, st, okt, _⟩ := pass23 fam hf t h
    exact ⟨.some t', by rw [reassocOpt]; simp only [ht], by simp [stripO, st], by rw [OK23O]; exact okt⟩
end

end PModel
