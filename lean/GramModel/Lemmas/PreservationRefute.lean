import GramModel.Lemmas.PreservationMain

/-!
# Subject reduction fails for groups whose types depend on a recursive member

Witness (closed, hole-free, accepted by the oracle):

    x : type = (w : x) -> if y w then int else bool;
    y : (x -> bool) = z => true;
    0

`x`'s definition is a value, so the group unfolds it: `U = (w : L) -> if y w then int else bool` with
`L = (x = (w : x) -> if y w then int else bool; x)` replaces `x` in `y`'s annotation and definition.  The
result is not typable: typing `L` types its definition under the new binder `x`, where `y w` needs
`w : x` to have the domain `U` of `y`'s type; `x` (a variable that unfolds to `(w : x) -> …`) and `U`
(`(w : L) -> …`) are not convertible — every reduct of the former is a tower of `Π`s over the variable,
every reduct of the latter a tower of `Π`s over a group.
-/

namespace Pres.Refute

open WhnfLemmas CCSubst OracleLemmas CCPar TypingSound RewriteTyping

def dx : Tm := .pi 7 false (.var 1 1) (.ite (.app (.var 2 1) (.var 7 0)) .int .bool)
def ay : Tm := .pi 8 false (.var 1 1) .bool
def dy : Tm := .lam 8 false (.var 1 1) .tt
def rest0 : Defs := .cons 2 ay dy .nil
def ds0 : Defs := .cons 1 .type dx rest0
def t0 : Tm := .letg ds0 (.lit 0)
def T0 : Tm := .letg ds0 .int

/-- the group `let x = …; x` -/
def dL : Tm := .pi 7 false (.var 1 0) (.ite (.app (.var 2 2) (.var 7 0)) .int .bool)
def dsL : Defs := .cons 1 .type dL .nil
def L1 : Tm := .letg dsL (.var 1 0)
def U1 : Tm := .pi 7 false L1 (.ite (.app (.var 2 1) (.var 7 0)) .int .bool)
def ay1 : Tm := .pi 8 false U1 .bool
def dy1 : Tm := .lam 8 false U1 .tt
def rest1 : Defs := .cons 2 ay1 dy1 .nil
def t1 : Tm := .letg rest1 (.lit 0)

theorem t0_hf : t0.holeFree = true := by decide
theorem T0_hf : T0.holeFree = true := by decide
theorem t1_hf : t1.holeFree = true := by decide

theorem t0_typed : HasType [] [] t0 T0 :=
  inferX_sound (f := 50) t0_hf THF_nil DHF_nil (by rfl)

theorem t0_step : Step t0 t1 := by
  have : Step t0 (.letg (openDefs rest0 rest0.len (unfoldDef 1 .type dx rest0.len) 0)
      (openT (.lit 0) rest0.len (unfoldDef 1 .type dx rest0.len) 0)) := Step.letU (by rfl)
  have e : (Tm.letg (openDefs rest0 rest0.len (unfoldDef 1 .type dx rest0.len) 0)
      (openT (.lit 0) rest0.len (unfoldDef 1 .type dx rest0.len) 0)) = t1 := by decide
  rwa [e] at this

/-! ## the two invariants -/

/-- towers of `Π`s over the variable `x` (index `1`) -/
inductive LS : Tm → Prop
  | var (x : Name) : LS (.var x 1)
  | pi (x : Name) (im : Bool) {A : Tm} (B : Tm) : LS A → LS (.pi x im A B)

/-- towers of `Π`s over a group `let x = (w : x) -> …; x` (possibly half unfolded) -/
inductive RS : Tm → Prop
  | grp (x : Name) (a : Tm) (x' : Name) (im : Bool) (z : Name) (C : Tm) (y : Name) :
      RS (.letg (.cons x a (.pi x' im (.var z 0) C) .nil) (.var y 0))
  | nilg {c : Tm} : RS c → RS (.letg .nil c)
  | pi (x : Name) (im : Bool) {A : Tm} (B : Tm) : RS A → RS (.pi x im A B)

theorem LS_RS {t : Tm} (h : LS t) : RS t → False := by
  induction h with
  | var x => intro h; cases h
  | pi x im B _ ih => intro h; cases h with | pi _ _ _ h => exact ih h

/-- the erased definitions context at the point of the clash: `[w, x := (w : x) -> …, y := …]` -/
def Δ3 : DCtxX := [none, some (dL, 1), some (dy1, 1)]

theorem LS.par {t : Tm} (h : LS t) : ∀ t', Par (erD Δ3) 0 t t' → LS t' := by
  induction h with
  | var x =>
    intro t' hp
    cases hp with
    | var => exact .var x
    | delta _ _ _ d off _ hget =>
      have e : (erD Δ3)[1 - 0]? = some (some (er dL, 1)) := by decide
      rw [e] at hget
      simp only [Option.some.injEq, Prod.mk.injEq] at hget
      obtain ⟨rfl, rfl⟩ := hget
      have : ushift 0 (1 + 1 - 1) (er dL) =
          .pi 0 false (.var 0 1) (.ite (.app (.var 0 3) (.var 0 0)) .int .bool) := by decide
      rw [this]
      exact .pi _ _ _ (.var _)
  | pi x im B _ ih =>
    intro t' hp
    cases hp with
    | pi _ _ hA _ => exact .pi _ _ _ (ih _ hA)

theorem LS.pars {t c : Tm} (h : LS t) (hp : Pars (erD Δ3) 0 t c) : LS c := by
  induction hp with
  | refl => exact h
  | tail _ hp ih => exact ih.par _ hp

theorem RS.par {Δ : DCtxX} {t : Tm} (h : RS t) : ∀ (n : Nat) (t' : Tm), Par Δ n t t' → RS t' := by
  induction h with
  | grp x a x' im z C y =>
    intro n t' hp
    cases hp with
    | letg hds hb =>
      cases hds with
      | cons _ ha hd hr =>
        cases hr
        cases hb with
        | var =>
          cases hd with
          | pi _ _ hA hC =>
            cases hA with
            | var => exact .grp ..
            | delta _ _ _ _ _ hle _ => simp [Defs.len] at hle
        | delta _ _ _ _ _ hle _ => simp [Defs.len] at hle
    | letStep _ ha hd hr hb =>
      cases hr
      cases hb with
      | var =>
        cases hd with
        | pi _ _ hA hC =>
          cases hA with
          | var =>
            simp only [openDefs, Defs.len_nil, openT, if_true, ushift_zero, unfoldDef, ushift,
              ushiftDefs]
            simp
            exact .nilg (.pi _ _ _ (.grp ..))
          | delta _ _ _ _ _ hle _ => simp [Defs.len] at hle
      | delta _ _ _ _ _ hle _ => simp [Defs.len] at hle
  | nilg _ ih =>
    intro n t' hp
    cases hp with
    | letg hds hb =>
      cases hds
      exact .nilg (ih _ _ hb)
    | letNil hb => exact ih _ _ hb
  | pi x im B _ ih =>
    intro n t' hp
    cases hp with
    | pi _ _ hA _ => exact .pi _ _ _ (ih _ _ hA)

theorem RS.pars {Δ : DCtxX} {n : Nat} {t c : Tm} (h : RS t) (hp : Pars Δ n t c) : RS c := by
  induction hp with
  | refl => exact h
  | tail _ hp ih => exact ih.par _ _ hp

/-- the variable `x` and the unfolding `U` are not convertible where they would have to be -/
theorem not_conv : ¬ Conv Δ3 (.var 1 1) (ushift 0 2 U1) := by
  intro hc
  have hW : DWF Δ3 := by
    intro p d off h
    match p with
    | 0 => simp [Δ3] at h
    | 1 => simp [Δ3] at h; omega
    | 2 => simp [Δ3] at h; omega
    | p+3 => simp [Δ3] at h
  obtain ⟨c, p1, p2⟩ := Conv.join hc hW
  have l : LS (er (.var 1 1)) := .var 0
  have r : RS (er (ushift 0 2 U1)) := by
    have : er (ushift 0 2 U1) = .pi 0 false
        (.letg (.cons 0 .type (.pi 0 false (.var 0 0) (.ite (.app (.var 0 4) (.var 0 0)) .int .bool)) .nil)
          (.var 0 0)) (.ite (.app (.var 0 3) (.var 0 0)) .int .bool) := by decide
    rw [this]
    exact .pi _ _ _ (.grp ..)
  exact LS_RS (l.pars p1) (r.pars p2)

/-! ## the stepped term is not typable -/

theorem OffsT_nil : OffsT [] := by intro i ty off h; simp at h
theorem DWF_nil : DWF [] := by intro p d off h; simp at h

/-- the stepped term has no type at all -/
theorem t1_untypable (T : Tm) : ¬ HasType [] [] t1 T := by
  intro h
  have h0 := hasType_ht h OffsT_nil DWF_nil
  rw [dhC_id (CHF_lkT THF_nil), dhC_id (CHF_lkD DHF_nil), dh_id t1 t1_hf] at h0
  -- the group
  obtain ⟨_, hr1, ha1, _, _, _⟩ := h0.inv_letg
  have hO1 := OffsT_pushed OffsT_nil rest1
  have hW1 := DWF_pushed DWF_nil rest1
  have hT1 := THF_pushed THF_nil rest1 hr1
  have hD1 := DHF_pushed DHF_nil rest1 hr1
  have a1 := ha1 2 ay1 dy1 (by simp [rest1, Defs.toList])
  rw [← lkT_pushed OffsT_nil, ← lkD_pushed DWF_nil] at a1
  -- `y`'s annotation `U -> bool`, its domain `U = (w : L) -> …`, the domain `L` of that
  have a2 := a1.inv_pi.1
  have a3 := a2.inv_pi.1
  -- the group `L`
  obtain ⟨_, hrL, _, hdL, _, _⟩ := a3.inv_letg
  have hO2 := OffsT_pushed hO1 dsL
  have hW2 := DWF_pushed hW1 dsL
  have a4 := hdL 1 .type dL (by simp [dsL, Defs.toList])
  rw [← lkT_pushed hO1, ← lkD_pushed hW1] at a4
  -- its definition `(w : x) -> if y w then int else bool`
  have a5 := a4.inv_pi.2.1
  rw [← lkT_cons hO2, ← lkD_none hW2] at a5
  obtain ⟨_, a6, _, _, _⟩ := a5.inv_ite
  obtain ⟨x, im, dom, cod, hg, ha, _⟩ := a6.inv_app
  obtain ⟨ty2, e2, _, c2⟩ := hg.inv_var
  obtain ⟨ty0, e0, _, c0⟩ := ha.inv_var
  have eΔ : (none :: pushedD dsL dsL.len (pushedD rest1 rest1.len [])) = Δ3 := by decide
  have eG2 : lkT ((Tm.var 1 0, 0) :: pushedT dsL dsL.len (pushedT rest1 rest1.len [])) 2 =
      some (.pi 8 false (ushift 0 2 U1) .bool) := by decide
  have eG0 : lkT ((Tm.var 1 0, 0) :: pushedT dsL dsL.len (pushedT rest1 rest1.len [])) 0 =
      some (.var 1 1) := by decide
  have hW3 : DWF (none :: pushedD dsL dsL.len (pushedD rest1 rest1.len [])) := DWF.push hW2
  have hD3 : DHF (none :: pushedD dsL dsL.len (pushedD rest1 rest1.len [])) :=
    DHF_none (DHF_pushed hD1 dsL hrL)
  rw [eG2] at e2
  rw [eG0] at e0
  cases e2
  cases e0
  rw [eΔ] at c2 c0 hW3 hD3
  obtain ⟨_, ci, _⟩ := cv_pi_inj hW3 hD3 c2
  exact not_conv (cv_conv (.trans c0 (.symm ci)) Δ3 hW3 rfl)

/-- **Subject reduction fails**: a closed well-typed hole-free term with a step to an untypable term. -/
theorem preservation_fails :
    t0.holeFree = true ∧ HasType [] [] t0 T0 ∧ Step t0 t1 ∧ ∀ T, ¬ HasType [] [] t1 T :=
  ⟨t0_hf, t0_typed, t0_step, t1_untypable⟩

end Pres.Refute
