import GramModel.Parser
import GramModel.Lemmas.Parser

namespace PModel

/-- A frame: a state invariant and a reflexive-transitive relation between states. -/
structure Frame where
  I : PState → Prop
  R : PState → PState → Prop
  refl : ∀ s, R s s
  trans : ∀ {a b c}, R a b → R b c → R a c

/-- Total correctness: from a state satisfying the invariant, `m` succeeds. -/
def Ok (F : Frame) {α : Type} (m : ParseM α) (post : α → Prop) : Prop :=
  ∀ st, F.I st → ∃ a st', m st = some (a, st') ∧ F.I st' ∧ F.R st st' ∧ post a

theorem ParseM_bind_eq {α β : Type} (m : ParseM α) (f : α → ParseM β) (st : PState) :
    (m >>= f) st = (match m st with | none => none | some (a, s1) => f a s1) := by
  show (StateT.bind m f) st = _
  unfold StateT.bind
  cases m st with
  | none => rfl
  | some p => rfl

section Comb
variable {F : Frame} {α β : Type}

theorem Ok.pure {a : α} {post : α → Prop} (h : post a) : Ok F (Pure.pure a : ParseM α) post := by
  intro st hI
  exact ⟨a, st, rfl, hI, F.refl _, h⟩

theorem Ok.bind {m : ParseM α} {f : α → ParseM β} {p : α → Prop} {q : β → Prop}
    (hm : Ok F m p) (hf : ∀ a, p a → Ok F (f a) q) : Ok F (m >>= f) q := by
  intro st hI
  obtain ⟨a, s1, e1, hI1, hR1, hp⟩ := hm st hI
  obtain ⟨b, s2, e2, hI2, hR2, hq⟩ := hf a hp s1 hI1
  refine ⟨b, s2, ?_, hI2, F.trans hR1 hR2, hq⟩
  rw [ParseM_bind_eq, e1]; exact e2

theorem Ok.mono {m : ParseM α} {p q : α → Prop} (h : Ok F m p) (hpq : ∀ a, p a → q a) :
    Ok F m q := by
  intro st hI
  obtain ⟨a, s1, e1, hI1, hR1, hp⟩ := h st hI
  exact ⟨a, s1, e1, hI1, hR1, hpq a hp⟩

theorem Ok.ite {c : Prop} [Decidable c] {m1 m2 : ParseM α} {p : α → Prop}
    (h1 : c → Ok F m1 p) (h2 : ¬c → Ok F m2 p) : Ok F (if c then m1 else m2) p := by
  split
  · exact h1 ‹_›
  · exact h2 ‹_›

variable {toks : Array PTok} {post : PResult → Prop}

theorem Ok.consume0 {next : Nat} {kind : PKind} {k : Nat → ParseM PResult}
    (hfail : post (failAt toks next)) (hk : next < toks.size → Ok F (k (next + 1)) post) :
    Ok F (consume0 toks next kind k) post := by
  unfold PModel.consume0
  split
  · split
    · exact hk ‹_›
    · exact Ok.pure hfail
  · exact Ok.pure hfail

theorem Ok.consumeIdent {next : Nat} {k : Name → Nat → ParseM PResult}
    (hfail : post (failAt toks next)) (hk : ∀ x, next < toks.size → Ok F (k x (next + 1)) post) :
    Ok F (consumeIdent toks next k) post := by
  unfold PModel.consumeIdent
  split
  · split
    · exact hk _ ‹_›
    · exact Ok.pure hfail
  · exact Ok.pure hfail

theorem Ok.consumeLiteral {next : Nat} {k : Nat → Nat → ParseM PResult}
    (hfail : post (failAt toks next)) (hk : ∀ x, next < toks.size → Ok F (k x (next + 1)) post) :
    Ok F (consumeLiteral toks next k) post := by
  unfold PModel.consumeLiteral
  split
  · split
    · exact hk _ ‹_›
    · exact Ok.pure hfail
  · exact Ok.pure hfail

theorem Ok.tryReturn {p k : ParseM PResult} {pp : PResult → Prop} (hp : Ok F p pp)
    (hpp : ∀ r, pp r → r.term.isParseError = false → post r) (hk : Ok F k post) :
    Ok F (tryReturn p k) post := by
  unfold PModel.tryReturn
  refine Ok.bind hp (fun r hr => ?_)
  cases h : r.term.isParseError
  · simp only [Bool.false_eq_true, if_false]; exact Ok.pure (hpp r hr h)
  · simp only [if_true]; exact hk

theorem Ok.tryEval {p : ParseM PResult} {k : Src → Nat → Bool → ParseM PResult}
    {pp : PResult → Prop} (hp : Ok F p pp)
    (herr : ∀ r, pp r → r.term.isParseError = true → post r)
    (hk : ∀ r, pp r → r.term.isParseError = false → Ok F (k r.term r.next r.confident) post) :
    Ok F (tryEval p k) post := by
  unfold PModel.tryEval
  refine Ok.bind hp (fun r hr => ?_)
  cases h : r.term.isParseError
  · simp only [Bool.false_eq_true, if_false]; exact hk r hr h
  · simp only [if_true]; exact Ok.pure (herr r hr h)

end Comb

/-! ### Positions -/

/-- What a parsing function started at `start` returns: a position between `start` and the end of
the input, strictly beyond `start` unless the result is a `ParseError`. -/
def Res (toks : Array PTok) (start : Nat) (r : PResult) : Prop :=
  start ≤ r.next ∧ r.next ≤ toks.size ∧ (r.term.isParseError = false → start < r.next)

theorem scanLoop_pos (toks : Array PTok) (target : PKind → Bool) :
    ∀ (n next depth : Nat), next ≤ toks.size →
      next ≤ (scanLoop toks target n next depth).2 ∧ (scanLoop toks target n next depth).2 ≤ toks.size ∧
      ((scanLoop toks target n next depth).1 = true → next < (scanLoop toks target n next depth).2)
  | 0, next, depth, h => by simp [scanLoop, h]
  | n + 1, next, depth, h => by
    unfold scanLoop
    split
    · rename_i hlt
      have ih := fun d => scanLoop_pos toks target n (next + 1) d hlt
      dsimp only
      split
      · simp; omega
      · split
        · have := ih (depth + 1); omega
        · split
          · have := ih (depth - 1); omega
          · simp [h]
        · split
          · simp [h]
          · have := ih depth; omega
        · have := ih depth; omega
    · simp [h]

theorem expectToken_pos (toks : Array PTok) (next : Nat) (target : PKind → Bool) (rep : Bool)
    (h : next ≤ toks.size) :
    next ≤ (expectToken toks next target rep).2.2 ∧ (expectToken toks next target rep).2.2 ≤ toks.size ∧
    ((expectToken toks next target rep).2.1 = true → next < (expectToken toks next target rep).2.2) := by
  unfold expectToken
  exact scanLoop_pos toks target _ next 0 h


def NT.rank : NT → Nat
  | .term => 12 | .jumboTerm => 11 | .giantTerm => 10
  | .lessThan | .lessThanOrEqualTo | .equalTo | .greaterThan | .greaterThanOrEqualTo => 9
  | .hugeTerm => 8 | .sum | .difference => 7 | .largeTerm => 6 | .mediumTerm => 5
  | .product | .quotient => 4 | .nonDependentPi => 4 | .smallTerm => 3 | .application => 2
  | .atom => 1
  | _ => 0

theorem NT.rank_lt (nt : NT) : nt.rank < 36 := by cases nt <;> decide

/-- The termination measure of the call `parse_nt(…, pos)`. -/
def meas (toks : Array PTok) (nt : NT) (pos : Nat) : Nat := (toks.size - pos) * 36 + nt.rank

theorem meas_gt (toks : Array PTok) (nt nt' : NT) {start p : Nat} (h1 : start < p)
    (h2 : p ≤ toks.size) : meas toks nt' p < meas toks nt start := by
  have := NT.rank_lt nt'
  unfold meas; omega

theorem Res.failAt {toks : Array PTok} {start next : Nat} (h1 : start ≤ next)
    (h2 : next ≤ toks.size) : Res toks start (failAt toks next) := by
  refine ⟨h1, h2, ?_⟩
  intro h; simp [PModel.failAt, errorTerm, Src.isParseError, Src.variant, SrcV.isParseError] at h

theorem Res.weaken {toks : Array PTok} {start p : Nat} {r : PResult} (h : Res toks p r)
    (hp : start ≤ p) (he : r.term.isParseError = true) : Res toks start r :=
  ⟨Nat.le_trans hp h.1, h.2.1, fun h' => by rw [he] at h'; cases h'⟩

section Bodies
variable {F : Frame} {toks : Array PTok} {rec : NT → Nat → ParseM PResult} {M : Nat}
  (hrec : ∀ nt' pos', pos' ≤ toks.size → meas toks nt' pos' < M →
    Ok F (rec nt' pos') (Res toks pos'))

theorem Ok.parseLeaf {kind : PKind} {v : SrcV} {start : Nat} (hs : start ≤ toks.size) :
    Ok F (parseLeaf toks kind v start) (Res toks start) := by
  unfold PModel.parseLeaf
  refine Ok.consume0 (Res.failAt (Nat.le_refl _) hs) (fun h => Ok.pure ?_)
  simp only [Res]; omega

include hrec

theorem Ok.parseBinary {left right : NT} {opTok : PKind} {op : BinOp} {start : Nat}
    (hs : start ≤ toks.size) (hl : meas toks left start < M)
    (hgt : ∀ nt' p, start < p → p ≤ toks.size → meas toks nt' p < M) :
    Ok F (parseBinary toks rec left opTok right op start) (Res toks start) := by
  unfold PModel.parseBinary
  refine Ok.tryEval (hrec _ _ hs hl) (fun r hr he => hr.weaken (Nat.le_refl _) he) ?_
  intro r hr hne
  have h3 := hr.2.2 hne
  refine Ok.consume0 (Res.failAt hr.1 hr.2.1) (fun h => ?_)
  refine Ok.bind (hrec _ _ h (hgt _ _ (by omega) h)) ?_
  intro r2 hr2
  obtain ⟨t2, n2, c2⟩ := r2
  refine Ok.pure ?_
  simp only [Res] at *
  omega

theorem Ok.parseBinder {openK closeK arrowK : PKind} {mk : SrcVar → Src → Src → SrcV}
    {start : Nat} (hs : start ≤ toks.size)
    (hgt : ∀ nt' p, start < p → p ≤ toks.size → meas toks nt' p < M) :
    Ok F (parseBinder toks rec openK closeK arrowK mk start) (Res toks start) := by
  unfold PModel.parseBinder
  refine Ok.consume0 (Res.failAt (Nat.le_refl _) hs) (fun h1 => ?_)
  refine Ok.consumeIdent (Res.failAt (by omega) h1) (fun x h2 => ?_)
  refine Ok.consume0 (Res.failAt (by omega) h2) (fun h3 => ?_)
  refine Ok.tryEval (hrec _ _ h3 (hgt _ _ (by omega) h3))
    (fun r hr he => hr.weaken (by omega) he) ?_
  intro r hr hne
  refine Ok.consume0 (Res.failAt (by have := hr.1; omega) hr.2.1) (fun h4 => ?_)
  refine Ok.consume0 (Res.failAt (by have := hr.1; omega) h4) (fun h5 => ?_)
  refine Ok.bind (hrec _ _ h5 (hgt _ _ (by have := hr.1; omega) h5)) ?_
  intro r2 hr2
  obtain ⟨t2, n2, c2⟩ := r2
  refine Ok.pure ?_
  simp only [Res] at *
  omega


theorem Ok.recGt {nt' : NT} {start p : Nat}
    (hgt : ∀ nt' p, start < p → p ≤ toks.size → meas toks nt' p < M)
    (h1 : start < p) (h2 : p ≤ toks.size) : Ok F (rec nt' p) (Res toks p) :=
  hrec _ _ h2 (hgt _ _ h1 h2)

theorem Ok.parseLambda {start : Nat} (hs : start ≤ toks.size)
    (hgt : ∀ nt' p, start < p → p ≤ toks.size → meas toks nt' p < M) :
    Ok F (parseLambda toks rec start) (Res toks start) := by
  unfold PModel.parseLambda
  refine Ok.consumeIdent (Res.failAt (Nat.le_refl _) hs) (fun x h1 => ?_)
  refine Ok.consume0 (Res.failAt (by omega) h1) (fun h2 => ?_)
  refine Ok.bind (Ok.recGt hrec hgt (by omega) h2) ?_
  intro r2 hr2
  obtain ⟨t2, n2, c2⟩ := r2
  refine Ok.pure ?_
  simp only [Res] at *
  omega

theorem Ok.parseLambdaImplicit {start : Nat} (hs : start ≤ toks.size)
    (hgt : ∀ nt' p, start < p → p ≤ toks.size → meas toks nt' p < M) :
    Ok F (parseLambdaImplicit toks rec start) (Res toks start) := by
  unfold PModel.parseLambdaImplicit
  refine Ok.consume0 (Res.failAt (Nat.le_refl _) hs) (fun h1 => ?_)
  refine Ok.consumeIdent (Res.failAt (by omega) h1) (fun x h2 => ?_)
  refine Ok.consume0 (Res.failAt (by omega) h2) (fun h3 => ?_)
  refine Ok.consume0 (Res.failAt (by omega) h3) (fun h4 => ?_)
  refine Ok.bind (Ok.recGt hrec hgt (by omega) h4) ?_
  intro r2 hr2
  obtain ⟨t2, n2, c2⟩ := r2
  refine Ok.pure ?_
  simp only [Res] at *
  omega

theorem Ok.parseNegation {start : Nat} (hs : start ≤ toks.size)
    (hgt : ∀ nt' p, start < p → p ≤ toks.size → meas toks nt' p < M) :
    Ok F (parseNegation toks rec start) (Res toks start) := by
  unfold PModel.parseNegation
  refine Ok.consume0 (Res.failAt (Nat.le_refl _) hs) (fun h1 => ?_)
  refine Ok.bind (Ok.recGt hrec hgt (by omega) h1) ?_
  intro r2 hr2
  obtain ⟨t2, n2, c2⟩ := r2
  refine Ok.pure ?_
  simp only [Res] at *
  omega

theorem Ok.parseNonDependentPi {start : Nat} (hs : start ≤ toks.size)
    (hl : meas toks .smallTerm start < M)
    (hgt : ∀ nt' p, start < p → p ≤ toks.size → meas toks nt' p < M) :
    Ok F (parseNonDependentPi toks rec start) (Res toks start) := by
  unfold PModel.parseNonDependentPi
  refine Ok.tryEval (hrec _ _ hs hl) (fun r hr he => hr.weaken (Nat.le_refl _) he) ?_
  intro r hr hne
  have h3 := hr.2.2 hne
  refine Ok.consume0 (Res.failAt hr.1 hr.2.1) (fun h => ?_)
  refine Ok.bind (Ok.recGt hrec hgt (by omega) h) ?_
  intro r2 hr2
  obtain ⟨t2, n2, c2⟩ := r2
  refine Ok.pure ?_
  simp only [Res] at *
  omega

theorem Ok.parseApplication {start : Nat} (hs : start ≤ toks.size)
    (hl : meas toks .atom start < M)
    (hgt : ∀ nt' p, start < p → p ≤ toks.size → meas toks nt' p < M) :
    Ok F (parseApplication rec start) (Res toks start) := by
  unfold PModel.parseApplication
  refine Ok.tryEval (hrec _ _ hs hl) (fun r hr he => hr.weaken (Nat.le_refl _) he) ?_
  intro r hr hne
  have h3 := hr.2.2 hne
  refine Ok.tryEval (Ok.recGt hrec hgt h3 hr.2.1) (fun r hr he => hr.weaken (by omega) he) ?_
  intro r2 hr2 hne2
  refine Ok.pure ?_
  simp only [Res] at *
  omega

theorem Ok.parseGroup {start : Nat} (hs : start ≤ toks.size)
    (hgt : ∀ nt' p, start < p → p ≤ toks.size → meas toks nt' p < M) :
    Ok F (parseGroup toks rec start) (Res toks start) := by
  unfold PModel.parseGroup
  refine Ok.consume0 (Res.failAt (Nat.le_refl _) hs) (fun h1 => ?_)
  refine Ok.tryEval (Ok.recGt hrec hgt (by omega) h1) (fun r hr he => hr.weaken (by omega) he) ?_
  intro r hr hne
  have hp := expectToken_pos toks r.next (· = .rightParen) r.confident hr.2.1
  generalize expectToken toks r.next (· = .rightParen) r.confident = e at hp
  obtain ⟨errs, found, nx⟩ := e
  dsimp only at hp ⊢
  refine Ok.pure ?_
  simp only [Res] at *
  omega

/-- An optional sub-parse followed by the join point
(`if found then rec .term next >>= jp else pure skipped >>= jp`). -/
theorem Ok.optTerm {start next : Nat} {found : Bool} {jp : PResult → ParseM PResult}
    {post : PResult → Prop}
    (hgt : ∀ nt' p, start < p → p ≤ toks.size → meas toks nt' p < M)
    (h1 : start < next) (h2 : next ≤ toks.size)
    (hk : ∀ r, Res toks next r → Ok F (jp r) post) :
    Ok F (if found = true then rec .term next >>= jp
          else (Pure.pure ⟨skippedTerm toks next, next, false⟩ : ParseM PResult) >>= jp) post := by
  refine Ok.ite (fun _ => Ok.bind (Ok.recGt hrec hgt h1 h2) hk) (fun _ => Ok.bind (Ok.pure ?_) hk)
  refine ⟨Nat.le_refl _, h2, ?_⟩
  intro h; simp [skippedTerm, Src.isParseError, Src.variant, SrcV.isParseError] at h

theorem Ok.parseIf {start : Nat} (hs : start ≤ toks.size)
    (hgt : ∀ nt' p, start < p → p ≤ toks.size → meas toks nt' p < M) :
    Ok F (parseIf toks rec start) (Res toks start) := by
  unfold PModel.parseIf
  refine Ok.consume0 (Res.failAt (Nat.le_refl _) hs) (fun h1 => ?_)
  refine Ok.bind (Ok.recGt hrec hgt (by omega) h1) ?_
  intro r1 hr1
  obtain ⟨t1, n1, c1⟩ := r1
  dsimp only
  have hp := expectToken_pos toks n1 (· = .then_) c1 hr1.2.1
  generalize expectToken toks n1 (· = .then_) c1 = e at hp
  obtain ⟨errs, found, nx⟩ := e
  dsimp only at hp ⊢
  have := hr1.1
  refine Ok.optTerm hrec hgt (by dsimp only at this; omega) hp.2.1 ?_
  intro r2 hr2
  obtain ⟨t2, n2, c2⟩ := r2
  dsimp only
  have hp2 := expectToken_pos toks n2 (· = .else_) c2 hr2.2.1
  generalize expectToken toks n2 (· = .else_) c2 = e2 at hp2
  obtain ⟨errs2, found2, nx2⟩ := e2
  dsimp only at hp2 ⊢
  have := hr2.1
  refine Ok.optTerm hrec hgt (by dsimp only at *; omega) hp2.2.1 ?_
  intro r3 hr3
  obtain ⟨t3, n3, c3⟩ := r3
  refine Ok.pure ?_
  simp only [Res] at *
  omega


omit hrec in
/-- The local function `rest` of `parseLet`, as a top-level definition. -/
def parseLetRest (toks : Array PTok) (rec : NT → Nat → ParseM PResult) (variableRange : SourceRange)
    (x : Name) (annotation : OptSrc) (next : Nat) (errors : List PErr) (equalsFound : Bool) :
    ParseM PResult := do
  let ⟨definition, next, definitionConfident⟩ ←
    if equalsFound then rec .term next
    else pure ⟨skippedTerm toks next, next, false⟩
  let (errs2, terminatorFound, next) :=
    expectToken toks next PKind.isTerminator definitionConfident
  let errors := errors ++ errs2
  let ⟨body, next, bodyConfident⟩ ←
    if terminatorFound then rec .term next
    else pure ⟨skippedTerm toks next, next, false⟩
  pure ⟨.mk (span variableRange body.range) false
          (.let_ ⟨variableRange, x⟩ annotation definition body) errors, next, bodyConfident⟩

omit hrec in
theorem parseLet_eq (toks : Array PTok) (rec : NT → Nat → ParseM PResult) (start : Nat) :
    parseLet toks rec start =
      consumeIdent toks start fun x next =>
        if h : next < toks.size then
          if toks[next].kind = .colon then
            consume0 toks next .colon fun next =>
            tryEval (rec .smallTerm next) fun annotation next annotationConfident =>
            parseLetRest toks rec (tokenRange toks start) x (.some annotation)
              (expectToken toks next (· = .equals) annotationConfident).2.2
              (expectToken toks next (· = .equals) annotationConfident).1
              (expectToken toks next (· = .equals) annotationConfident).2.1
          else
            consume0 toks next .equals fun next =>
              parseLetRest toks rec (tokenRange toks start) x .none next [] true
        else
          consume0 toks next .equals fun next =>
            parseLetRest toks rec (tokenRange toks start) x .none next [] true := rfl

theorem Ok.parseLetRest {start next : Nat} {vr : SourceRange} {x : Name} {ann : OptSrc}
    {errors : List PErr} {ef : Bool}
    (hgt : ∀ nt' p, start < p → p ≤ toks.size → meas toks nt' p < M)
    (h1 : start < next) (h2 : next ≤ toks.size) :
    Ok F (parseLetRest toks rec vr x ann next errors ef) (Res toks start) := by
  unfold PModel.parseLetRest
  refine Ok.optTerm hrec hgt h1 h2 ?_
  intro r2 hr2
  obtain ⟨t2, n2, c2⟩ := r2
  dsimp only
  have hp2 := expectToken_pos toks n2 PKind.isTerminator c2 hr2.2.1
  generalize expectToken toks n2 PKind.isTerminator c2 = e2 at hp2
  obtain ⟨errs2, found2, nx2⟩ := e2
  dsimp only at hp2 ⊢
  have := hr2.1
  refine Ok.optTerm hrec hgt (by dsimp only at *; omega) hp2.2.1 ?_
  intro r3 hr3
  obtain ⟨t3, n3, c3⟩ := r3
  refine Ok.pure ?_
  simp only [Res] at *
  omega

theorem Ok.parseLet {start : Nat} (hs : start ≤ toks.size)
    (hgt : ∀ nt' p, start < p → p ≤ toks.size → meas toks nt' p < M) :
    Ok F (parseLet toks rec start) (Res toks start) := by
  rw [parseLet_eq]
  refine Ok.consumeIdent (Res.failAt (Nat.le_refl _) hs) (fun x h1 => ?_)
  split
  · split
    · refine Ok.consume0 (Res.failAt (by omega) h1) (fun h2 => ?_)
      refine Ok.tryEval (Ok.recGt hrec hgt (by omega) h2) (fun r hr he => hr.weaken (by omega) he) ?_
      intro r hr hne
      have hp := expectToken_pos toks r.next (· = .equals) r.confident hr.2.1
      exact Ok.parseLetRest hrec hgt (by have := hr.1; omega) hp.2.1
    · refine Ok.consume0 (Res.failAt (by omega) h1) (fun h2 => ?_)
      exact Ok.parseLetRest hrec hgt (by omega) h2
  · refine Ok.consume0 (Res.failAt (by omega) h1) (fun h2 => ?_)
    exact Ok.parseLetRest hrec hgt (by omega) h2

end Bodies

theorem meas_lt_of_rank (toks : Array PTok) {nt nt' : NT} (s : Nat) (h : nt'.rank < nt.rank) :
    meas toks nt' s < meas toks nt s := Nat.add_lt_add_left h _

macro "alt_tac" hrec:ident hs:ident : tactic => `(tactic|
  repeat (first
    | exact Ok.pure (Res.failAt (Nat.le_refl _) $hs)
    | refine Ok.tryReturn ($hrec _ _ $hs (meas_lt_of_rank _ _ (by decide))) (fun r hr _ => hr) ?_))

theorem Ok.parseBody {F : Frame} {toks : Array PTok} {rec : NT → Nat → ParseM PResult}
    (nt : NT) (start : Nat) (hs : start ≤ toks.size)
    (hrec : ∀ nt' pos', pos' ≤ toks.size → meas toks nt' pos' < meas toks nt start →
      Ok F (rec nt' pos') (Res toks pos')) :
    Ok F (parseBody toks rec nt start) (Res toks start) := by
  have hgt : ∀ nt' p, start < p → p ≤ toks.size → meas toks nt' p < meas toks nt start :=
    fun nt' p h1 h2 => meas_gt toks nt nt' h1 h2
  cases nt <;> simp only [PModel.parseBody]
  case term => unfold parseTerm noParse; alt_tac hrec hs
  case type => exact Ok.parseLeaf hs
  case «variable» =>
    unfold parseVariable
    refine Ok.consumeIdent (Res.failAt (Nat.le_refl _) hs) (fun x h => Ok.pure ?_)
    simp only [Res]; omega
  case lambda => exact Ok.parseLambda hrec hs hgt
  case lambdaImplicit => exact Ok.parseLambdaImplicit hrec hs hgt
  case annotatedLambda => exact Ok.parseBinder hrec hs hgt
  case annotatedLambdaImplicit => exact Ok.parseBinder hrec hs hgt
  case pi => exact Ok.parseBinder hrec hs hgt
  case piImplicit => exact Ok.parseBinder hrec hs hgt
  case nonDependentPi => exact Ok.parseNonDependentPi hrec hs (meas_lt_of_rank _ _ (by decide)) hgt
  case application => exact Ok.parseApplication hrec hs (meas_lt_of_rank _ _ (by decide)) hgt
  case let_ => exact Ok.parseLet hrec hs hgt
  case integer => exact Ok.parseLeaf hs
  case integerLiteral =>
    unfold parseIntegerLiteral
    refine Ok.consumeLiteral (Res.failAt (Nat.le_refl _) hs) (fun x h => Ok.pure ?_)
    simp only [Res]; omega
  case negation => exact Ok.parseNegation hrec hs hgt
  case sum => exact Ok.parseBinary hrec hs (meas_lt_of_rank _ _ (by decide)) hgt
  case difference => exact Ok.parseBinary hrec hs (meas_lt_of_rank _ _ (by decide)) hgt
  case product => exact Ok.parseBinary hrec hs (meas_lt_of_rank _ _ (by decide)) hgt
  case quotient => exact Ok.parseBinary hrec hs (meas_lt_of_rank _ _ (by decide)) hgt
  case lessThan => exact Ok.parseBinary hrec hs (meas_lt_of_rank _ _ (by decide)) hgt
  case lessThanOrEqualTo => exact Ok.parseBinary hrec hs (meas_lt_of_rank _ _ (by decide)) hgt
  case equalTo => exact Ok.parseBinary hrec hs (meas_lt_of_rank _ _ (by decide)) hgt
  case greaterThan => exact Ok.parseBinary hrec hs (meas_lt_of_rank _ _ (by decide)) hgt
  case greaterThanOrEqualTo => exact Ok.parseBinary hrec hs (meas_lt_of_rank _ _ (by decide)) hgt
  case boolean => exact Ok.parseLeaf hs
  case true_ => exact Ok.parseLeaf hs
  case false_ => exact Ok.parseLeaf hs
  case if_ => exact Ok.parseIf hrec hs hgt
  case group => exact Ok.parseGroup hrec hs hgt
  case atom => unfold parseAtom noParse; alt_tac hrec hs
  case smallTerm => unfold parseSmallTerm noParse; alt_tac hrec hs
  case mediumTerm => unfold parseMediumTerm noParse; alt_tac hrec hs
  case largeTerm => unfold parseLargeTerm noParse; alt_tac hrec hs
  case hugeTerm => unfold parseHugeTerm noParse; alt_tac hrec hs
  case giantTerm => unfold parseGiantTerm noParse; alt_tac hrec hs
  case jumboTerm => unfold parseJumboTerm noParse; alt_tac hrec hs

/-! ### The knot: the concrete frame, `cacheCheck`, `parseNT` -/

theorem NT.idx_inj {a b : NT} (h : a.idx = b.idx) : a = b := by
  cases a <;> cases b <;> first | rfl | (exact absurd h (by decide))

theorem NT.idx_lt (nt : NT) : nt.idx < 36 := by cases nt <;> decide

/-- The total of a counter array (`misses.foldl (· + ·) 0`). -/
def sumN (a : Array Nat) : Nat := a.foldl (· + ·) 0

theorem List.sum_modify_succ_le : ∀ (l : List Nat) (i : Nat), (l.modify i (· + 1)).sum ≤ l.sum + 1
  | [], i => by simp
  | x :: xs, 0 => by simp; omega
  | x :: xs, i + 1 => by
    have := List.sum_modify_succ_le xs i
    simp; omega

theorem sumN_modify_le (a : Array Nat) (i : Nat) : sumN (a.modify i (· + 1)) ≤ sumN a + 1 := by
  unfold sumN
  rw [← Array.sum_eq_foldl_nat, ← Array.sum_eq_foldl_nat, ← Array.sum_toList, ← Array.sum_toList,
    Array.toList_modify]
  exact List.sum_modify_succ_le _ _

/-- Every memoised result satisfies the position specification of its key. -/
def CacheOK (toks : Array PTok) (st : PState) : Prop :=
  ∀ (i s : Nat) (r : PResult), st.cache[(i, s)]? = some r → Res toks s r

/-- What a run may do to the state: every new key `(nt', s)` has `s ≤ n` and measure below `b`,
and the misses counted are paid for by new keys. -/
def Step (toks : Array PTok) (b : Nat) (st st' : PState) : Prop :=
  (∀ k, k ∈ st'.cache → k ∈ st.cache ∨
    ∃ nt' s, k = (nt'.idx, s) ∧ s ≤ toks.size ∧ meas toks nt' s < b) ∧
  sumN st'.misses + st.cache.size ≤ sumN st.misses + st'.cache.size

theorem Step.mono {toks : Array PTok} {b b' : Nat} {st st' : PState} (h : Step toks b st st')
    (hb : b ≤ b') : Step toks b' st st' :=
  ⟨fun k hk => (h.1 k hk).imp id (fun ⟨nt', s, e, h1, h2⟩ => ⟨nt', s, e, h1, Nat.lt_of_lt_of_le h2 hb⟩),
   h.2⟩

def frame (toks : Array PTok) (b : Nat) : Frame where
  I := CacheOK toks
  R := Step toks b
  refl := fun s => ⟨fun k hk => Or.inl hk, Nat.le_refl _⟩
  trans := fun {a b c} h1 h2 =>
    ⟨fun k hk => (h2.1 k hk).elim (fun h => h1.1 k h) Or.inr, by have := h1.2; have := h2.2; omega⟩

theorem Ok.frame_mono {toks : Array PTok} {b b' : Nat} {α : Type} {m : ParseM α}
    {post : α → Prop} (h : Ok (frame toks b) m post) (hb : b ≤ b') : Ok (frame toks b') m post := by
  intro st hI
  obtain ⟨a, st', e, hI', hR, hp⟩ := h st hI
  exact ⟨a, st', e, hI', Step.mono hR hb, hp⟩

theorem Ok.cacheCheck {toks : Array PTok} {nt : NT} {start : Nat} {body : ParseM PResult}
    (hs : start ≤ toks.size)
    (hb : Ok (frame toks (meas toks nt start)) body (Res toks start)) :
    Ok (frame toks (meas toks nt start + 1)) (cacheCheck nt start body) (Res toks start) := by
  intro st hI
  have hI : CacheOK toks st := hI
  cases hc : st.cache[(nt.idx, start)]? with
  | some r0 =>
    rw [cacheCheck_hit nt start body st r0 hc]
    refine ⟨_, _, rfl, ?_, ?_, hI _ _ _ hc⟩
    · show CacheOK toks _
      exact hI
    · show Step toks _ _ _
      exact ⟨fun k hk => Or.inl hk, Nat.le_refl _⟩
  | none =>
    rw [cacheCheck_miss nt start body st hc]
    obtain ⟨r, st1, e, hI1, hR1, hp⟩ := hb { st with misses := st.misses.modify nt.idx (· + 1) } hI
    rw [e]
    have hI1 : CacheOK toks st1 := hI1
    have hR1 : Step toks _ _ _ := hR1
    refine ⟨_, _, rfl, ?_, ?_, hp⟩
    · show CacheOK toks _
      intro i s r' hr'
      simp only [Std.HashMap.getElem?_insert] at hr'
      split at hr'
      · rename_i heq
        simp only [beq_iff_eq, Prod.mk.injEq] at heq
        cases hr'; rw [← heq.2]; exact hp
      · exact hI1 i s r' hr'
    show Step toks _ _ _
    refine ⟨?_, ?_⟩
    · intro k hk
      rcases Std.HashMap.mem_insert.mp hk with h | h
      · simp only [beq_iff_eq] at h
        exact Or.inr ⟨nt, start, h.symm, hs, Nat.lt_succ_self _⟩
      · exact (hR1.1 k h).imp id
          (fun ⟨nt', s, e, h1, h2⟩ => ⟨nt', s, e, h1, Nat.lt_succ_of_lt h2⟩)
    · have hnot : ¬ (nt.idx, start) ∈ st1.cache := by
        intro hmem
        rcases hR1.1 _ hmem with h | ⟨nt', s, e, h1, h2⟩
        · have : (nt.idx, start) ∈ st.cache := h
          rw [Std.HashMap.mem_iff_isSome_getElem?, hc] at this
          cases this
        · simp only [Prod.mk.injEq] at e
          have := NT.idx_inj e.1
          subst this; rw [← e.2] at h2; exact Nat.lt_irrefl _ h2
      have h2 := hR1.2
      have h3 := sumN_modify_le st.misses nt.idx
      simp only [Std.HashMap.size_insert, hnot, if_false] at h2 ⊢
      omega

/-- The memoised parsing functions succeed whenever the fuel exceeds the measure of the call. -/
theorem Ok.parseNT (toks : Array PTok) : ∀ (fuel : Nat) (nt : NT) (start : Nat),
    start ≤ toks.size → meas toks nt start < fuel →
    Ok (frame toks (meas toks nt start + 1)) (parseNT toks fuel nt start) (Res toks start)
  | 0, _, _, _, h => absurd h (Nat.not_lt_zero _)
  | fuel + 1, nt, start, hs, hf => by
    unfold PModel.parseNT
    refine Ok.cacheCheck hs (Ok.parseBody nt start hs ?_)
    intro nt' pos' hp hm
    exact (Ok.parseNT toks fuel nt' pos' hp (by omega)).frame_mono hm


theorem CacheOK.init (toks : Array PTok) : CacheOK toks PState.init := by
  intro i s r h
  simp [PState.init] at h

/-- The parse phase from the empty cache: it succeeds, and the final state is a `Step` away from
the initial one. -/
theorem runParser_ok (toks : Array PTok) :
    ∃ r st', runParser toks = some (r, st') ∧ CacheOK toks st' ∧
      Step toks (meas toks .term 0 + 1) PState.init st' ∧ Res toks 0 r := by
  have h := Ok.parseNT toks (parseFuel toks) .term 0 (Nat.zero_le _)
    (by unfold meas parseFuel; simp only [NT.rank]; omega)
  exact h PState.init (CacheOK.init toks)

/-- A table whose keys lie in `[0, a) × [0, b)` has at most `a * b` entries. -/
theorem cache_size_le {V : Type} (m : Std.HashMap (Nat × Nat) V) (a b : Nat)
    (h : ∀ k, k ∈ m → k.1 < a ∧ k.2 < b) : m.size ≤ a * b := by
  rw [← Std.HashMap.length_keys]
  have hsub : m.keys ⊆ (List.range a).flatMap (fun i => (List.range b).map (fun j => (i, j))) := by
    intro k hk
    have := h k (Std.HashMap.mem_keys.mp hk)
    simp only [List.mem_flatMap, List.mem_range, List.mem_map]
    exact ⟨k.1, this.1, k.2, this.2, rfl⟩
  have hlen := List.Nodup.length_le_of_subset Std.HashMap.nodup_keys hsub
  have : ((List.range a).flatMap (fun i => (List.range b).map (fun j => (i, j)))).length = a * b := by
    simp [List.length_flatMap, List.map_const', List.sum_replicate_nat]
  omega

theorem sumN_init : sumN PState.init.misses = 0 := by
  unfold sumN PState.init NT.count
  rw [← Array.sum_eq_foldl_nat]; simp

theorem runParser_misses_le (toks : Array PTok) (r : PResult) (st' : PState)
    (h : runParser toks = some (r, st')) : sumN st'.misses ≤ 36 * (toks.size + 1) := by
  obtain ⟨r0, st0, e, _, hstep, _⟩ := runParser_ok toks
  rw [h] at e
  simp only [Option.some.injEq, Prod.mk.injEq] at e
  obtain ⟨_, rfl⟩ := e
  have h1 := hstep.2
  have h2 : st'.cache.size ≤ 36 * (toks.size + 1) := by
    apply cache_size_le
    intro k hk
    rcases hstep.1 k hk with hin | ⟨nt', s, rfl, hs, _⟩
    · simp [PState.init] at hin
    · exact ⟨NT.idx_lt nt', Nat.lt_succ_of_le hs⟩
  rw [sumN_init] at h1
  simp only [PState.init, Std.HashMap.size_empty] at h1
  omega

end PModel
