import GramModel.Check
import GramModel.Oracle
import GramModel.Lemmas.DeBruijn
import GramModel.Lemmas.Oracle
import GramModel.Lemmas.Whnf
import GramModel.Lemmas.Fuel

/-!
# `unifyS` and `convX` agree on hole-free terms (C06)

* `Pure m v` : `m` either runs out of fuel or returns `v` and leaves the state as it was (so it never
  panics).  On hole-free arguments `sshiftS`/`ushiftS`/`openS`/`unfoldDefS`/`substDefsS`/`synEqS` are
  `Pure` with the values of the pure layer.
* `Out3 s P Q x` : the outcome `x` of a run started in `s` is out-of-fuel, or a panic at a site
  satisfying `P`, or a value satisfying `Q` with the state `s` unchanged.
* scope lemmas: `ushift`, `openT`, `unfoldDef` preserve `wellScoped`.
* `whnfS_out` : on a hole-free term under a hole-free definitions context `whnfS` can only panic at
  its two context-lookup sites, and not at all if the term and the context are well scoped.
* `unifyS_out` : the same for `unifyS`, plus agreement with `convX`.
-/

namespace UnifyAgree

open StoreMono (bind_ok pure_ok)
open WhnfLemmas

/-! ## `Pure` -/

structure Pure {α} (m : M α) (v : α) : Prop where
  out : ∀ s, m s = .ok v s ∨ m s = .fuel

theorem Pure.pure {α} (a : α) : Pure (pure a : M α) a := ⟨fun _ => Or.inl rfl⟩
theorem Pure.outOfFuel {α} {v : α} : Pure (outOfFuel : M α) v := ⟨fun _ => Or.inr rfl⟩

theorem Pure.bind {α β} {m : M α} {f : α → M β} {v : α} {w : β} (hm : Pure m v)
    (hf : Pure (f v) w) : Pure (m >>= f) w := by
  refine ⟨fun s => ?_⟩
  show M.bind m f s = _ ∨ M.bind m f s = _
  simp only [M.bind]
  rcases hm.out s with h | h <;> rw [h]
  · exact hf.out s
  · exact Or.inr rfl

theorem Pure.bind' {α β} {m : M α} {f : α → M β} {v : α} {w : β} (hm : Pure m v)
    (hf : ∀ a, v = a → Pure (f a) w) : Pure (m >>= f) w := Pure.bind hm (hf v rfl)

/-! ## `Out3` -/

inductive Out3 {α} (s : St) (P : String → Prop) (Q : α → Prop) : R α → Prop
  | fuel : Out3 s P Q .fuel
  | panic {site : String} : P site → Out3 s P Q (.panic site)
  | ok {r : α} : Q r → Out3 s P Q (.ok r s)

theorem Out3.bind {α β} {s : St} {P : String → Prop} {Q : α → Prop} {R' : β → Prop} {m : M α}
    {f : α → M β} (hm : Out3 s P Q (m s)) (hf : ∀ a, Q a → Out3 s P R' (f a s)) :
    Out3 s P R' ((m >>= f) s) := by
  show Out3 s P R' (M.bind m f s)
  simp only [M.bind]
  generalize m s = x at hm
  cases hm with
  | fuel => exact .fuel
  | panic h => exact .panic h
  | ok h => exact hf _ h

theorem Out3.mono {α} {s : St} {P : String → Prop} {Q Q' : α → Prop} {x : R α}
    (h : Out3 s P Q x) (hq : ∀ r, Q r → Q' r) : Out3 s P Q' x := by
  cases h with
  | fuel => exact .fuel
  | panic h => exact .panic h
  | ok h => exact .ok (hq _ h)

theorem Pure.out3 {α} {m : M α} {v : α} (h : Pure m v) (s : St) (P : String → Prop) :
    Out3 s P (fun r => r = v) (m s) := by
  rcases h.out s with e | e <;> rw [e]
  · exact .ok rfl
  · exact .fuel

theorem Out3.bind_pure {α β} {s : St} {P : String → Prop} {R' : β → Prop} {m : M α}
    {f : α → M β} {v : α} (hm : Pure m v) (hf : Out3 s P R' (f v s)) :
    Out3 s P R' ((m >>= f) s) :=
  Out3.bind (hm.out3 s P) (fun a e => by subst e; exact hf)

theorem Out3.pure {α} {s : St} {P : String → Prop} {Q : α → Prop} {a : α} (h : Q a) :
    Out3 s P Q ((pure a : M α) s) := .ok h

/-! ## Scope lemmas -/

mutual
theorem ws_ushift : ∀ (t : Tm) (n m c a : Nat), wellScoped n t = true → n + a ≤ m →
    wellScoped m (ushift c a t) = true
  | .var x i, n, m, c, a, h, hle => by
      simp only [wellScoped, decide_eq_true_eq] at h
      simp only [ushift]; split <;> simp only [wellScoped, decide_eq_true_eq] <;> omega
  | .hole id s, n, m, c, a, h, hle => by
      simp only [wellScoped, decide_eq_true_eq] at h
      simp only [ushift]; split <;> simp only [wellScoped, decide_eq_true_eq] <;> omega
  | .lam x im d b, n, m, c, a, h, hle => by
      simp only [wellScoped, Bool.and_eq_true] at h
      simp only [ushift, wellScoped, Bool.and_eq_true]
      exact ⟨ws_ushift d n m c a h.1 hle, ws_ushift b (n+1) (m+1) (c+1) a h.2 (by omega)⟩
  | .pi x im d b, n, m, c, a, h, hle => by
      simp only [wellScoped, Bool.and_eq_true] at h
      simp only [ushift, wellScoped, Bool.and_eq_true]
      exact ⟨ws_ushift d n m c a h.1 hle, ws_ushift b (n+1) (m+1) (c+1) a h.2 (by omega)⟩
  | .app f g, n, m, c, a, h, hle => by
      simp only [wellScoped, Bool.and_eq_true] at h
      simp only [ushift, wellScoped, Bool.and_eq_true]
      exact ⟨ws_ushift f n m c a h.1 hle, ws_ushift g n m c a h.2 hle⟩
  | .letg ds b, n, m, c, a, h, hle => by
      simp only [wellScoped, Bool.and_eq_true] at h
      simp only [ushift, wellScoped, Bool.and_eq_true, ushiftDefs_len]
      exact ⟨wsDefs_ushift ds _ _ _ a h.1 (by omega), ws_ushift b _ _ _ a h.2 (by omega)⟩
  | .neg t, n, m, c, a, h, hle => by
      simp only [wellScoped] at h
      simp only [ushift, wellScoped]
      exact ws_ushift t n m c a h hle
  | .bin op t u, n, m, c, a, h, hle => by
      simp only [wellScoped, Bool.and_eq_true] at h
      simp only [ushift, wellScoped, Bool.and_eq_true]
      exact ⟨ws_ushift t n m c a h.1 hle, ws_ushift u n m c a h.2 hle⟩
  | .ite t u v, n, m, c, a, h, hle => by
      simp only [wellScoped, Bool.and_eq_true] at h
      simp only [ushift, wellScoped, Bool.and_eq_true]
      exact ⟨⟨ws_ushift t n m c a h.1.1 hle, ws_ushift u n m c a h.1.2 hle⟩,
        ws_ushift v n m c a h.2 hle⟩
  | .type, _, _, _, _, _, _ | .int, _, _, _, _, _, _ | .bool, _, _, _, _, _, _
  | .tt, _, _, _, _, _, _ | .ff, _, _, _, _, _, _ | .lit _, _, _, _, _, _, _ => by
      simp [ushift, wellScoped]
theorem wsDefs_ushift : ∀ (ds : Defs) (n m c a : Nat), wellScopedDefs n ds = true → n + a ≤ m →
    wellScopedDefs m (ushiftDefs c a ds) = true
  | .nil, _, _, _, _, _, _ => by simp [ushiftDefs, wellScopedDefs]
  | .cons x t u r, n, m, c, a, h, hle => by
      simp only [wellScopedDefs, Bool.and_eq_true] at h
      simp only [ushiftDefs, wellScopedDefs, Bool.and_eq_true]
      exact ⟨⟨ws_ushift t n m c a h.1.1 hle, ws_ushift u n m c a h.1.2 hle⟩,
        wsDefs_ushift r n m c a h.2 hle⟩
end

mutual
theorem ws_openT : ∀ (t : Tm) (N n i : Nat) (u : Tm) (m s : Nat), wellScoped N t = true →
    N ≤ n + 1 → i ≤ n → wellScoped m u = true → m + s ≤ n →
    wellScoped n (openT t i u s) = true
  | .var x j, N, n, i, u, m, s, h, hN, hi, hu, hm => by
      simp only [wellScoped, decide_eq_true_eq] at h
      unfold openT
      split
      · exact ws_ushift u m n 0 s hu hm
      · split <;> simp only [wellScoped, decide_eq_true_eq] <;> omega
  | .hole id k, N, n, i, u, m, s, h, hN, hi, hu, hm => by
      simp only [wellScoped, decide_eq_true_eq] at h
      unfold openT
      split <;> simp only [wellScoped, decide_eq_true_eq] <;> omega
  | .lam x im d b, N, n, i, u, m, s, h, hN, hi, hu, hm => by
      simp only [wellScoped, Bool.and_eq_true] at h
      simp only [openT, wellScoped, Bool.and_eq_true]
      exact ⟨ws_openT d N n i u m s h.1 hN hi hu hm,
        ws_openT b (N+1) (n+1) (i+1) u m (s+1) h.2 (by omega) (by omega) hu (by omega)⟩
  | .pi x im d b, N, n, i, u, m, s, h, hN, hi, hu, hm => by
      simp only [wellScoped, Bool.and_eq_true] at h
      simp only [openT, wellScoped, Bool.and_eq_true]
      exact ⟨ws_openT d N n i u m s h.1 hN hi hu hm,
        ws_openT b (N+1) (n+1) (i+1) u m (s+1) h.2 (by omega) (by omega) hu (by omega)⟩
  | .app f g, N, n, i, u, m, s, h, hN, hi, hu, hm => by
      simp only [wellScoped, Bool.and_eq_true] at h
      simp only [openT, wellScoped, Bool.and_eq_true]
      exact ⟨ws_openT f N n i u m s h.1 hN hi hu hm, ws_openT g N n i u m s h.2 hN hi hu hm⟩
  | .letg ds b, N, n, i, u, m, s, h, hN, hi, hu, hm => by
      simp only [wellScoped, Bool.and_eq_true] at h
      simp only [openT, wellScoped, Bool.and_eq_true, openDefs_len]
      exact ⟨wsDefs_openDefs ds _ _ _ u m _ h.1 (by omega) (by omega) hu (by omega),
        ws_openT b _ _ _ u m _ h.2 (by omega) (by omega) hu (by omega)⟩
  | .neg t, N, n, i, u, m, s, h, hN, hi, hu, hm => by
      simp only [wellScoped] at h
      simp only [openT, wellScoped]
      exact ws_openT t N n i u m s h hN hi hu hm
  | .bin op t v, N, n, i, u, m, s, h, hN, hi, hu, hm => by
      simp only [wellScoped, Bool.and_eq_true] at h
      simp only [openT, wellScoped, Bool.and_eq_true]
      exact ⟨ws_openT t N n i u m s h.1 hN hi hu hm, ws_openT v N n i u m s h.2 hN hi hu hm⟩
  | .ite t v w, N, n, i, u, m, s, h, hN, hi, hu, hm => by
      simp only [wellScoped, Bool.and_eq_true] at h
      simp only [openT, wellScoped, Bool.and_eq_true]
      exact ⟨⟨ws_openT t N n i u m s h.1.1 hN hi hu hm, ws_openT v N n i u m s h.1.2 hN hi hu hm⟩,
        ws_openT w N n i u m s h.2 hN hi hu hm⟩
  | .type, _, _, _, _, _, _, _, _, _, _, _ | .int, _, _, _, _, _, _, _, _, _, _, _
  | .bool, _, _, _, _, _, _, _, _, _, _, _ | .tt, _, _, _, _, _, _, _, _, _, _, _
  | .ff, _, _, _, _, _, _, _, _, _, _, _ | .lit _, _, _, _, _, _, _, _, _, _, _, _ => by
      simp [openT, wellScoped]
theorem wsDefs_openDefs : ∀ (ds : Defs) (N n i : Nat) (u : Tm) (m s : Nat),
    wellScopedDefs N ds = true → N ≤ n + 1 → i ≤ n → wellScoped m u = true → m + s ≤ n →
    wellScopedDefs n (openDefs ds i u s) = true
  | .nil, _, _, _, _, _, _, _, _, _, _, _ => by simp [openDefs, wellScopedDefs]
  | .cons x a d r, N, n, i, u, m, s, h, hN, hi, hu, hm => by
      simp only [wellScopedDefs, Bool.and_eq_true] at h
      simp only [openDefs, wellScopedDefs, Bool.and_eq_true]
      exact ⟨⟨ws_openT a N n i u m s h.1.1 hN hi hu hm, ws_openT d N n i u m s h.1.2 hN hi hu hm⟩,
        wsDefs_openDefs r N n i u m s h.2 hN hi hu hm⟩
end

/-- the unfolding of a definition of a group lives in the scope outside its own binder -/
theorem ws_unfoldDef (x : Name) (ann d : Tm) (index N : Nat) (ha : wellScoped (N+1) ann = true)
    (hd : wellScoped (N+1) d = true) (hi : index ≤ N) :
    wellScoped N (unfoldDef x ann d index) = true := by
  unfold unfoldDef
  have hself : wellScoped 1 (Tm.var x 0) = true := by simp [wellScoped]
  refine ws_openT d (N+1) N index _ N 0 hd (Nat.le_refl _) hi ?_ (by omega)
  simp only [wellScoped, wellScopedDefs, Bool.and_eq_true, Bool.and_true, Defs.len_cons,
    Defs.len_nil]
  refine ⟨⟨?_, ?_⟩, by simp⟩
  · exact ws_openT _ (N+2) (N+(0+1)) (index+1) _ 1 0 (ws_ushift ann (N+1) (N+2) 0 1 ha (by omega))
      (by omega) (by omega) hself (by omega)
  · exact ws_openT _ (N+2) (N+(0+1)) (index+1) _ 1 0 (ws_ushift d (N+1) (N+2) 0 1 hd (by omega))
      (by omega) (by omega) hself (by omega)

theorem delta_scoped {op x y r} (h : delta op x y = some r) (n : Nat) : wellScoped n r = true := by
  unfold delta at h
  split at h <;> (try split at h) <;> cases h <;> (try split) <;> rfl

/-! ## Hole-free terms: the helper functions are `Pure` -/

set_option hygiene false in
local macro "hf_side" : tactic => `(tactic| first
  | exact hf | exact hf.1 | exact hf.2 | exact hf.1.1 | exact hf.1.2 | exact hu)

set_option hygiene false in
local macro "pure_step" : tactic => `(tactic| first
  | with_reducible exact Pure.pure _
  | with_reducible exact Pure.outOfFuel
  | (with_reducible refine Pure.bind' (ih1 _ _ _ (by hf_side)) (fun a ha => ?_)
     try rw [ha]
     cases a <;> dsimp only)
  | (with_reducible refine Pure.bind' (ih2 _ _ _ (by hf_side)) (fun a ha => ?_)
     try rw [ha]
     cases a <;> dsimp only)
  | split)

theorem sshiftS_P : ∀ f,
    (∀ c amt t, t.holeFree = true → Pure (sshiftS f c amt t) (sshift c amt t)) ∧
    (∀ c amt ds, ds.holeFree = true → Pure (sshiftDefsS f c amt ds) (sshiftDefs c amt ds)) := by
  intro f
  induction f with
  | zero =>
    constructor
    · intros; rw [sshiftS]; exact Pure.outOfFuel
    · intros; rw [sshiftDefsS]; exact Pure.outOfFuel
  | succ f ih =>
    obtain ⟨ih1, ih2⟩ := ih
    constructor
    · intro c amt t hf
      cases t <;> simp only [Tm.holeFree, Bool.and_eq_true] at hf <;> unfold sshiftS sshift <;>
        dsimp only
      case hole => cases hf
      all_goals repeat pure_step
    · intro c amt ds hf
      cases ds <;> simp only [Defs.holeFree, Bool.and_eq_true] at hf <;>
        unfold sshiftDefsS sshiftDefs <;> dsimp only
      all_goals repeat pure_step

theorem ushiftS_P (f c a : Nat) (t : Tm) (hf : t.holeFree = true) :
    Pure (ushiftS f c a t) (ushift c a t) := by
  unfold ushiftS
  refine Pure.bind ((sshiftS_P f).1 c a t hf) ?_
  rw [sshift_ushift]
  exact Pure.pure _

set_option hygiene false in
local macro "open_step" : tactic => `(tactic| first
  | with_reducible exact Pure.pure _
  | with_reducible exact Pure.outOfFuel
  | with_reducible refine Pure.bind (ih1 _ _ _ _ (by hf_side) hu) ?_
  | with_reducible refine Pure.bind (ih2 _ _ _ _ (by hf_side) hu) ?_)

theorem openS_P : ∀ f,
    (∀ t i u s, t.holeFree = true → u.holeFree = true → Pure (openS f t i u s) (openT t i u s)) ∧
    (∀ ds i u s, ds.holeFree = true → u.holeFree = true →
      Pure (openDefsS f ds i u s) (openDefs ds i u s)) := by
  intro f
  induction f with
  | zero =>
    constructor
    · intros; rw [openS]; exact Pure.outOfFuel
    · intros; rw [openDefsS]; exact Pure.outOfFuel
  | succ f ih =>
    obtain ⟨ih1, ih2⟩ := ih
    constructor
    · intro t i u s hf hu
      cases t <;> simp only [Tm.holeFree, Bool.and_eq_true] at hf <;> unfold openS openT <;>
        dsimp only
      case hole => cases hf
      case var x j =>
        split
        · exact ushiftS_P f 0 s u hu
        · split <;> exact Pure.pure _
      all_goals repeat open_step
    · intro ds i u s hf hu
      cases ds <;> simp only [Defs.holeFree, Bool.and_eq_true] at hf <;>
        unfold openDefsS openDefs <;> dsimp only
      all_goals repeat open_step

theorem openS_P' (f : Nat) (t : Tm) (i : Nat) (u : Tm) (s : Nat) (hf : t.holeFree = true)
    (hu : u.holeFree = true) : Pure (openS f t i u s) (openT t i u s) := (openS_P f).1 t i u s hf hu

theorem unfoldDefS_P (f : Nat) (x : Name) (ann d : Tm) (index : Nat) (ha : ann.holeFree = true)
    (hd : d.holeFree = true) : Pure (unfoldDefS f x ann d index) (unfoldDef x ann d index) := by
  unfold unfoldDefS unfoldDef
  have hself : (Tm.var x 0).holeFree = true := rfl
  have ha1 : (ushift 0 1 ann).holeFree = true := by rw [ushift_holeFree]; exact ha
  have hd1 : (ushift 0 1 d).holeFree = true := by rw [ushift_holeFree]; exact hd
  refine Pure.bind (ushiftS_P f 0 1 ann ha) ?_
  refine Pure.bind (openS_P' f _ _ _ _ ha1 hself) ?_
  refine Pure.bind (ushiftS_P f 0 1 d hd) ?_
  refine Pure.bind (openS_P' f _ _ _ _ hd1 hself) ?_
  refine openS_P' f _ _ _ _ hd ?_
  simp only [Tm.holeFree, Defs.holeFree, Bool.and_eq_true, Bool.and_true]
  exact ⟨openT_holeFree _ _ _ _ ha1 hself, openT_holeFree _ _ _ _ hd1 hself⟩

theorem substDefsS_P (f : Nat) : ∀ (ds : Defs) (idx : Nat) (u : Tm), ds.holeFree = true →
    u.holeFree = true → Pure (substDefsS f ds idx u) (openDefs ds idx u 0)
  | .nil, idx, u, _, _ => by unfold substDefsS openDefs; exact Pure.pure _
  | .cons x a d r, idx, u, hf, hu => by
      simp only [Defs.holeFree, Bool.and_eq_true] at hf
      unfold substDefsS openDefs
      refine Pure.bind (openS_P' f _ _ _ _ hf.1.1 hu) ?_
      refine Pure.bind (openS_P' f _ _ _ _ hf.1.2 hu) ?_
      refine Pure.bind (substDefsS_P f r idx u hf.2 hu) ?_
      exact Pure.pure _

/-- the `Let` arm: no panic, state unchanged, hole-free result, scoped if the group is -/
theorem letLoopS_out : ∀ (f : Nat) (todo : Defs) (body : Tm) (s : St) (P : String → Prop),
    todo.holeFree = true → body.holeFree = true →
    Out3 s P (fun b => b.holeFree = true ∧ ∀ n, wellScopedDefs (n + todo.len) todo = true →
      wellScoped (n + todo.len) body = true → wellScoped n b = true) (letLoopS f todo body s) := by
  intro f
  induction f with
  | zero => intro todo body s P _ _; rw [letLoopS]; exact .fuel
  | succ f ih =>
    intro todo body s P hd hb
    cases todo with
    | nil =>
      unfold letLoopS
      exact Out3.pure ⟨hb, fun n _ h => by simpa using h⟩
    | cons x a d r =>
      simp only [Defs.holeFree, Bool.and_eq_true] at hd
      have hu := unfoldDef_holeFree x a d r.len hd.1.1 hd.1.2
      unfold letLoopS
      dsimp only
      refine Out3.bind_pure (unfoldDefS_P f x a d r.len hd.1.1 hd.1.2) ?_
      refine Out3.bind_pure (openS_P' f a r.len _ 0 hd.1.1 hu) ?_
      refine Out3.bind_pure (openS_P' f d r.len _ 0 hd.1.2 hu) ?_
      refine Out3.bind_pure (substDefsS_P f r r.len _ hd.2 hu) ?_
      refine Out3.bind_pure (openS_P' f body r.len _ 0 hb hu) ?_
      refine (ih _ _ s P (openDefs_holeFree _ _ _ _ hd.2 hu) (openT_holeFree _ _ _ _ hb hu)).mono ?_
      rintro b ⟨hbf, hsc⟩
      refine ⟨hbf, fun n hds hbody => ?_⟩
      simp only [Defs.len_cons, wellScopedDefs, Bool.and_eq_true] at hds hbody
      have husc : wellScoped (n + r.len) (unfoldDef x a d r.len) = true :=
        ws_unfoldDef x a d r.len (n + r.len) hds.1.1 hds.1.2 (by omega)
      refine hsc n ?_ ?_
      · rw [openDefs_len]
        exact wsDefs_openDefs r _ _ _ _ _ 0 hds.2 (Nat.le_refl _) (by omega) husc (by omega)
      · rw [openDefs_len]
        exact ws_openT body _ _ _ _ _ 0 hbody (Nat.le_refl _) (by omega) husc (by omega)

/-! ## `whnfS` on hole-free terms: where it can panic, and that it cannot under scoping -/

/-- the two context-lookup sites of `normalize_weak_head` -/
def IdxSite (site : String) : Prop :=
  site = "normalize_weak_head.definitions_context[index]" ∨
  site = "normalize_weak_head.index+1-offset"

/-- every definition in the context has its offset in range and lives in the part of the context
below the entries pushed after its group -/
def DSc (Δ : DCtxX) : Prop :=
  ∀ i d off, Δ[i]? = some (some (d, off)) →
    off ≤ i + 1 ∧ wellScoped (Δ.length - (i + 1 - off)) d = true

theorem DSc.push {Δ : DCtxX} (h : DSc Δ) : DSc (none :: Δ) := by
  intro i d off hi
  cases i with
  | zero => simp at hi
  | succ i =>
    simp only [List.getElem?_cons_succ] at hi
    obtain ⟨h1, h2⟩ := h i d off hi
    have hlt : i < Δ.length := by
      rcases Nat.lt_or_ge i Δ.length with h | h
      · exact h
      · rw [List.getElem?_eq_none h] at hi; cases hi
    refine ⟨by omega, ?_⟩
    have e : (none :: Δ).length - (i + 1 + 1 - off) = Δ.length - (i + 1 - off) := by
      simp only [List.length_cons]; omega
    rw [e]; exact h2

/-- panic sites allowed: a lookup site, and only when no scoping is assumed -/
def PS (sc : Bool) (site : String) : Prop := IdxSite site ∧ sc = false

theorem whnfS_out (sc : Bool) : ∀ (f : Nat) (t : Tm) (s : St), t.holeFree = true → DHF s.dctx →
    (sc = true → wellScoped s.dctx.length t = true ∧ DSc s.dctx) →
    Out3 s (PS sc) (fun r => r.holeFree = true ∧ (sc = true → wellScoped s.dctx.length r = true))
      (whnfS f t s) := by
  intro f
  induction f with
  | zero => intro t s _ _ _; rw [whnfS]; exact .fuel
  | succ f ih =>
    intro t s hf hD hsc
    have triv : ∀ (t : Tm), t.holeFree = true →
        (sc = true → wellScoped s.dctx.length t = true ∧ DSc s.dctx) →
        (whnfS (f+1) t = pure t) →
        Out3 s (PS sc) (fun r => r.holeFree = true ∧
          (sc = true → wellScoped s.dctx.length r = true)) (whnfS (f+1) t s) := by
      intro t hf hsc e
      rw [e]
      exact Out3.pure ⟨hf, fun h => (hsc h).1⟩
    cases t with
    | hole id sh => cases hf
    | type => exact triv _ hf hsc (by unfold whnfS; rfl)
    | int => exact triv _ hf hsc (by unfold whnfS; rfl)
    | bool => exact triv _ hf hsc (by unfold whnfS; rfl)
    | tt => exact triv _ hf hsc (by unfold whnfS; rfl)
    | ff => exact triv _ hf hsc (by unfold whnfS; rfl)
    | lit n => exact triv _ hf hsc (by unfold whnfS; rfl)
    | lam x im d b => exact triv _ hf hsc (by unfold whnfS; rfl)
    | pi x im d b => exact triv _ hf hsc (by unfold whnfS; rfl)
    | var x i =>
      unfold whnfS
      dsimp only
      show Out3 s _ _ ((match s.dctx[i]? with
        | none => panicAt "normalize_weak_head.definitions_context[index]"
        | some none => pure (Tm.var x i)
        | some (some (d, off)) =>
            if i + 1 < off then panicAt "normalize_weak_head.index+1-offset"
            else do
              let d' ← ushiftS f 0 (i + 1 - off) d
              whnfS f d') s)
      rcases heq : s.dctx[i]? with _ | _ | ⟨d, off⟩ <;> dsimp only
      · refine .panic ⟨Or.inl rfl, ?_⟩
        cases sc with
        | false => rfl
        | true =>
          have := (hsc rfl).1
          simp only [wellScoped, decide_eq_true_eq] at this
          rw [List.getElem?_eq_none_iff] at heq
          omega
      · exact Out3.pure ⟨rfl, fun h => (hsc h).1⟩
      · have hd : d.holeFree = true := hD _ (List.mem_of_getElem? heq) d off rfl
        split
        · next hlt =>
          refine .panic ⟨Or.inr rfl, ?_⟩
          cases sc with
          | false => rfl
          | true =>
            have := ((hsc rfl).2 i d off heq).1
            omega
        · next hlt =>
          refine Out3.bind_pure (ushiftS_P f 0 (i + 1 - off) d hd) ?_
          refine ih _ s (by rw [ushift_holeFree]; exact hd) hD (fun h => ⟨?_, (hsc h).2⟩)
          obtain ⟨h1, h2⟩ := (hsc h).2 i d off heq
          have hlen : i < s.dctx.length := by
            have := (hsc h).1
            simpa only [wellScoped, decide_eq_true_eq] using this
          exact ws_ushift d _ _ 0 _ h2 (by omega)
    | app g0 a =>
      simp only [Tm.holeFree, Bool.and_eq_true] at hf
      have hsc' : sc = true → (wellScoped s.dctx.length g0 = true ∧ wellScoped s.dctx.length a = true)
          ∧ DSc s.dctx := by
        intro h; simpa only [wellScoped, Bool.and_eq_true] using hsc h
      unfold whnfS
      dsimp only
      refine Out3.bind (ih g0 s hf.1 hD (fun h => ⟨(hsc' h).1.1, (hsc' h).2⟩)) ?_
      rintro g' ⟨hg', hg'sc⟩
      split
      · next x im d body =>
        simp only [Tm.holeFree, Bool.and_eq_true] at hg'
        refine Out3.bind_pure (openS_P' f body 0 a 0 hg'.2 hf.2) ?_
        refine ih _ s (openT_holeFree _ _ _ _ hg'.2 hf.2) hD (fun h => ⟨?_, (hsc' h).2⟩)
        have := hg'sc h
        simp only [wellScoped, Bool.and_eq_true] at this
        exact ws_openT body _ _ 0 a _ 0 this.2 (Nat.le_refl _) (by omega) (hsc' h).1.2 (by omega)
      · exact Out3.pure ⟨by simp [Tm.holeFree, hg', hf.2], fun h => by
          simp only [wellScoped, Bool.and_eq_true]; exact ⟨hg'sc h, (hsc' h).1.2⟩⟩
    | letg ds body =>
      simp only [Tm.holeFree, Bool.and_eq_true] at hf
      have hsc' : sc = true → (wellScopedDefs (s.dctx.length + ds.len) ds = true ∧
          wellScoped (s.dctx.length + ds.len) body = true) ∧ DSc s.dctx := by
        intro h; simpa only [wellScoped, Bool.and_eq_true] using hsc h
      unfold whnfS
      dsimp only
      refine Out3.bind (letLoopS_out f ds body s (PS sc) hf.1 hf.2) ?_
      rintro b ⟨hb, hbsc⟩
      exact ih b s hb hD (fun h => ⟨hbsc _ (hsc' h).1.1 (hsc' h).1.2, (hsc' h).2⟩)
    | neg a =>
      simp only [Tm.holeFree] at hf
      have hsc' : sc = true → wellScoped s.dctx.length a = true ∧ DSc s.dctx := by
        intro h; simpa only [wellScoped] using hsc h
      unfold whnfS
      dsimp only
      refine Out3.bind (ih a s hf hD hsc') ?_
      rintro a' ⟨ha', ha'sc⟩
      split
      · exact Out3.pure ⟨rfl, fun _ => rfl⟩
      · exact Out3.pure ⟨ha', fun h => by simp only [wellScoped]; exact ha'sc h⟩
    | bin op a b =>
      simp only [Tm.holeFree, Bool.and_eq_true] at hf
      have hsc' : sc = true → (wellScoped s.dctx.length a = true ∧ wellScoped s.dctx.length b = true)
          ∧ DSc s.dctx := by
        intro h; simpa only [wellScoped, Bool.and_eq_true] using hsc h
      unfold whnfS
      dsimp only
      refine Out3.bind (ih a s hf.1 hD (fun h => ⟨(hsc' h).1.1, (hsc' h).2⟩)) ?_
      rintro a' ⟨ha', ha'sc⟩
      refine Out3.bind (ih b s hf.2 hD (fun h => ⟨(hsc' h).1.2, (hsc' h).2⟩)) ?_
      rintro b' ⟨hb', hb'sc⟩
      have hbin : (Tm.bin op a' b').holeFree = true ∧
          (sc = true → wellScoped s.dctx.length (Tm.bin op a' b') = true) :=
        ⟨by simp [Tm.holeFree, ha', hb'], fun h => by
          simp only [wellScoped, Bool.and_eq_true]; exact ⟨ha'sc h, hb'sc h⟩⟩
      split
      · next x y =>
        cases hdl : delta op x y with
        | some rr => exact Out3.pure ⟨delta_holeFree hdl, fun _ => delta_scoped hdl _⟩
        | none => exact Out3.pure hbin
      · exact Out3.pure hbin
    | ite c a b =>
      simp only [Tm.holeFree, Bool.and_eq_true] at hf
      have hsc' : sc = true → ((wellScoped s.dctx.length c = true ∧
          wellScoped s.dctx.length a = true) ∧ wellScoped s.dctx.length b = true) ∧ DSc s.dctx := by
        intro h; simpa only [wellScoped, Bool.and_eq_true] using hsc h
      unfold whnfS
      dsimp only
      refine Out3.bind (ih c s hf.1.1 hD (fun h => ⟨(hsc' h).1.1.1, (hsc' h).2⟩)) ?_
      rintro c' ⟨hc', hc'sc⟩
      split
      · exact ih a s hf.1.2 hD (fun h => ⟨(hsc' h).1.1.2, (hsc' h).2⟩)
      · exact ih b s hf.2 hD (fun h => ⟨(hsc' h).1.2, (hsc' h).2⟩)
      · exact Out3.pure ⟨by simp [Tm.holeFree, hc', hf.1.2, hf.2], fun h => by
          simp only [wellScoped, Bool.and_eq_true]
          exact ⟨⟨hc'sc h, (hsc' h).1.1.2⟩, (hsc' h).1.2⟩⟩

/-! ## `synEqS` on hole-free terms -/

theorem derefS_P (f : Nat) (t : Tm) (h : t.holeFree = true) : Pure (derefS f t) t := by
  cases f with
  | zero => rw [derefS]; exact Pure.outOfFuel
  | succ f => rw [OracleLemmas.derefS_holeFree f t h]; exact Pure.pure _

theorem Pure_if_and {m : M Bool} {x : Bool} (c : Bool) (h : Pure m x) :
    Pure (if c = true then m else pure false) (c && x) := by
  cases c
  · exact Pure.pure _
  · simpa using h

theorem Pure_seq_and {m1 m2 : M Bool} {x y : Bool} (h1 : Pure m1 x) (h2 : Pure m2 y) :
    Pure (do if ← m1 then m2 else pure false) (x && y) := by
  refine Pure.bind h1 ?_
  cases x
  · exact Pure.pure _
  · simpa using h2

theorem synEqS_P : ∀ f,
    (∀ a b, a.holeFree = true → b.holeFree = true → Pure (synEqS f a b) (sameX a b)) ∧
    (∀ a b, a.holeFree = true → b.holeFree = true → Pure (synEqDefsS f a b) (sameDefsX a b)) := by
  intro f
  induction f with
  | zero =>
    constructor
    · intros; rw [synEqS]; exact Pure.outOfFuel
    · intros; rw [synEqDefsS]; exact Pure.outOfFuel
  | succ f ih =>
    obtain ⟨ih1, ih2⟩ := ih
    constructor
    · intro a b ha hb
      unfold synEqS
      refine Pure.bind (derefS_P f a ha) (Pure.bind (derefS_P f b hb) ?_)
      cases a <;> cases b <;>
        simp only [Tm.holeFree, Bool.and_eq_true, Bool.false_eq_true] at ha hb <;>
        dsimp only <;> simp only [sameX] <;> try exact Pure.pure _
      case lam.lam => exact Pure_if_and _ (ih1 _ _ ha.2 hb.2)
      case pi.pi =>
        rw [Bool.and_assoc]
        exact Pure_if_and _ (Pure_seq_and (ih1 _ _ ha.1 hb.1) (ih1 _ _ ha.2 hb.2))
      case app.app => exact Pure_seq_and (ih1 _ _ ha.1 hb.1) (ih1 _ _ ha.2 hb.2)
      case letg.letg ds1 b1 ds2 b2 =>
        have := Pure_if_and (ds1.len == ds2.len)
          (Pure_seq_and (ih2 _ _ ha.1 hb.1) (ih1 _ _ ha.2 hb.2))
        have e : (ds1.len == ds2.len && (sameDefsX ds1 ds2 && sameX b1 b2)) =
            (sameDefsX ds1 ds2 && sameX b1 b2) := by
          cases hd : sameDefsX ds1 ds2
          · simp
          · simp [OracleLemmas.sameDefsX_len ds1 ds2 hd]
        rw [e] at this
        exact this
      case neg.neg => exact ih1 _ _ ha hb
      case bin.bin =>
        rw [Bool.and_assoc]
        exact Pure_if_and _ (Pure_seq_and (ih1 _ _ ha.1 hb.1) (ih1 _ _ ha.2 hb.2))
      case ite.ite =>
        rw [Bool.and_assoc]
        exact Pure_seq_and (ih1 _ _ ha.1.1 hb.1.1)
          (Pure_seq_and (ih1 _ _ ha.1.2 hb.1.2) (ih1 _ _ ha.2 hb.2))
    · intro a b ha hb
      unfold synEqDefsS
      cases a <;> cases b <;>
        simp only [Defs.holeFree, Bool.and_eq_true] at ha hb <;>
        dsimp only <;> simp only [sameDefsX] <;> try exact Pure.pure _
      exact Pure_seq_and (ih1 _ _ ha.1.2 hb.1.2) (ih2 _ _ ha.2 hb.2)

/-! ## The two head comparisons, named -/

/-- what `unifyS (f+1)` does after weak-head normalising both sides (verbatim) -/
def unifyHead (f : Nat) (w1 w2 : Tm) : M Bool :=
      let structural : M Bool :=
        match w1, w2 with
        | .type, .type | .int, .int | .bool, .bool | .tt, .tt | .ff, .ff => pure true
        | .var _ i, .var _ j => pure (i == j)
        | .lam _ im _ b1, .lam _ jm _ b2 =>
            if im == jm then do
              pushD none
              let r ← unifyS f b1 b2
              popD
              pure r
            else pure false
        | .pi _ im d1 c1, .pi _ jm d2 c2 =>
            if im == jm then do
              if ← unifyS f d1 d2 then do
                pushD none
                let r ← unifyS f c1 c2
                popD
                pure r
              else pure false
            else pure false
        | .app f1 a1, .app f2 a2 => do
            if ← unifyS f f1 f2 then unifyS f a1 a2 else pure false
        | .lit n, .lit m => pure (n == m)
        | .neg a1, .neg a2 => unifyS f a1 a2
        | .bin o1 a1 b1, .bin o2 a2 b2 =>
            if o1 == o2 then do
              if ← unifyS f a1 a2 then unifyS f b1 b2 else pure false
            else pure false
        | .ite c1 a1 b1, .ite c2 a2 b2 => do
            if ← unifyS f c1 c2 then
              if ← unifyS f a1 a2 then unifyS f b1 b2 else pure false
            else pure false
        | .letg .., _ => panicAt "unify.let_after_whnf"
        | _, .letg .. => panicAt "unify.let_after_whnf"
        | _, _ => pure false
      let rightHole : M Bool :=
        match w2 with
        | .hole j r => do
            match ← solveS f j r w1 with
            | some b => pure b
            | none => structural
        | _ => structural
      match w1, w2 with
      | .hole i s, .hole j r =>
          if i == j && s == r then pure true
          else do
            match ← solveS f i s w2 with
            | some b => pure b
            | none => rightHole
      | .hole i s, _ => do
          match ← solveS f i s w2 with
          | some b => pure b
          | none => rightHole
      | _, _ => rightHole

theorem unifyS_succ (f : Nat) (t1 t2 : Tm) :
    unifyS (f+1) t1 t2 = (do
      if ← synEqS f t1 t2 then pure true
      else do
        let w1 ← whnfS f t1
        let w2 ← whnfS f t2
        unifyHead f w1 w2) := by
  unfold unifyS unifyHead
  rfl

/-- what `convX (f+1)` does with the two weak head normal forms (verbatim) -/
def convHead (f : Nat) (Δ : DCtxX) (wa wb : Tm) : Option Bool :=
      match wa, wb with
      | .hole .., _ => some true
      | _, .hole .. => some true
      | .type, .type | .int, .int | .bool, .bool | .tt, .tt | .ff, .ff => some true
      | .lit n, .lit m => some (n == m)
      | .var _ i, .var _ j => some (i == j)
      | .lam _ im _ b1, .lam _ jm _ b2 => if im == jm then convX f (none :: Δ) b1 b2 else some false
      | .pi _ im d1 c1, .pi _ jm d2 c2 =>
          if im == jm then
            match convX f Δ d1 d2 with
            | some true => convX f (none :: Δ) c1 c2
            | r => r
          else some false
      | .app f1 a1, .app f2 a2 =>
          match convX f Δ f1 f2 with
          | some true => convX f Δ a1 a2
          | r => r
      | .neg a1, .neg a2 => convX f Δ a1 a2
      | .bin o1 a1 b1, .bin o2 a2 b2 =>
          if o1 == o2 then
            match convX f Δ a1 a2 with
            | some true => convX f Δ b1 b2
            | r => r
          else some false
      | .ite c1 a1 b1, .ite c2 a2 b2 =>
          match convX f Δ c1 c2 with
          | some true =>
            match convX f Δ a1 a2 with
            | some true => convX f Δ b1 b2
            | r => r
          | r => r
      | _, _ => some false

theorem convX_succ (f : Nat) (Δ : DCtxX) (a b : Tm) :
    convX (f+1) Δ a b =
      if sameX a b then some true else
      match whnfX f Δ a, whnfX f Δ b with
      | some wa, some wb => convHead f Δ wa wb
      | _, _ => none := by
  unfold convX convHead
  rfl

/-! ## Agreement of the heads -/

/-- `r` is the verdict of the pure check `c` at every fuel at which it answers -/
abbrev AgreeQ (c : Nat → Option Bool) (r : Bool) : Prop := ∀ g r', c g = some r' → r = r'

theorem DHF.push {Δ : DCtxX} (h : DHF Δ) : DHF (none :: Δ) := by
  intro e he d o hd
  rcases List.mem_cons.1 he with e' | e'
  · subst e'; cases hd
  · exact h e e' d o hd

/-- `pushD none; m; popD` runs `m` under the extended context and restores the state exactly -/
theorem out3_under {s : St} {P : String → Prop} {Q : Bool → Prop} {m : M Bool}
    (h : Out3 { s with dctx := none :: s.dctx } P Q (m { s with dctx := none :: s.dctx })) :
    Out3 s P Q ((do pushD none; let r ← m; popD; pure r) s) := by
  show Out3 s P Q (M.bind (pushD none) (fun _ => M.bind m (fun r => M.bind popD (fun _ => M.pure r))) s)
  simp only [M.bind, pushD, modifySt]
  generalize m { s with dctx := none :: s.dctx } = x at h
  cases h with
  | fuel => exact .fuel
  | panic h => exact .panic h
  | ok h => exact .ok h

theorem out3_seq {s : St} {P : String → Prop} {m1 m2 : M Bool} {c c1 c2 : Nat → Option Bool}
    (h1 : Out3 s P (AgreeQ c1) (m1 s)) (h2 : Out3 s P (AgreeQ c2) (m2 s))
    (hc : ∀ g r', c g = some r' →
      (c1 g = some true ∧ c2 g = some r') ∨ (c1 g = some false ∧ r' = false)) :
    Out3 s P (AgreeQ c) ((do if ← m1 then m2 else pure false) s) := by
  refine Out3.bind h1 (fun r1 hr1 => ?_)
  cases r1
  · refine Out3.pure (fun g r' h => ?_)
    rcases hc g r' h with ⟨e1, _⟩ | ⟨_, e2⟩
    · exact absurd (hr1 g true e1) (by decide)
    · exact e2.symm
  · refine h2.mono (fun r2 hr2 g r' h => ?_)
    rcases hc g r' h with ⟨_, e2⟩ | ⟨e1, _⟩
    · exact hr2 g r' e2
    · exact absurd (hr1 g false e1) (by decide)

theorem out3_if {s : St} {P : String → Prop} {m : M Bool} {c1 : Nat → Option Bool} (c : Bool)
    (h : Out3 s P (AgreeQ c1) (m s)) :
    Out3 s P (AgreeQ fun g => if c = true then c1 g else some false)
      ((if c = true then m else pure false) s) := by
  cases c
  · exact Out3.pure (fun g r' h => Option.some.inj h)
  · exact h

theorem head_agree (sc : Bool) (f : Nat)
    (ih : ∀ (a b : Tm) (s : St), a.holeFree = true → b.holeFree = true → DHF s.dctx →
      (sc = true → wellScoped s.dctx.length a = true ∧ wellScoped s.dctx.length b = true ∧
        DSc s.dctx) →
      Out3 s (PS sc) (AgreeQ fun g => convX g s.dctx a b) (unifyS f a b s))
    (w1 w2 : Tm) (s : St) (h1 : w1.holeFree = true) (h2 : w2.holeFree = true)
    (n1 : NotLet w1) (n2 : NotLet w2) (hD : DHF s.dctx)
    (hsc : sc = true → wellScoped s.dctx.length w1 = true ∧ wellScoped s.dctx.length w2 = true ∧
      DSc s.dctx) :
    Out3 s (PS sc) (AgreeQ fun g => convHead g s.dctx w1 w2) (unifyHead f w1 w2 s) := by
  cases w1 <;> cases w2
  all_goals first
    | (exfalso; exact n1 _ _ rfl)
    | (exfalso; exact n2 _ _ rfl)
    | (exfalso; cases h1; done)
    | (exfalso; cases h2; done)
    | skip
  all_goals simp only [unifyHead, convHead]
  all_goals try exact Out3.pure (fun _ _ h => Option.some.inj h)
  case lam.lam x1 i1 d1 b1 x2 i2 d2 b2 =>
    simp only [Tm.holeFree, Bool.and_eq_true] at h1 h2
    refine out3_if _ (out3_under ?_)
    refine ih b1 b2 _ h1.2 h2.2 (DHF.push hD) (fun h => ?_)
    obtain ⟨e1, e2, e3⟩ := hsc h
    simp only [wellScoped, Bool.and_eq_true] at e1 e2
    exact ⟨e1.2, e2.2, e3.push⟩
  case pi.pi x1 i1 d1 c1 x2 i2 d2 c2 =>
    simp only [Tm.holeFree, Bool.and_eq_true] at h1 h2
    have hsc' : sc = true → (wellScoped s.dctx.length d1 = true ∧
        wellScoped (s.dctx.length + 1) c1 = true) ∧ (wellScoped s.dctx.length d2 = true ∧
        wellScoped (s.dctx.length + 1) c2 = true) ∧ DSc s.dctx := by
      intro h; simpa only [wellScoped, Bool.and_eq_true] using hsc h
    refine out3_if _ (out3_seq (c1 := fun g => convX g s.dctx d1 d2)
      (c2 := fun g => convX g (none :: s.dctx) c1 c2)
      (ih d1 d2 s h1.1 h2.1 hD (fun h => ⟨(hsc' h).1.1, (hsc' h).2.1.1, (hsc' h).2.2⟩))
      (out3_under (ih c1 c2 _ h1.2 h2.2 (DHF.push hD)
        (fun h => ⟨(hsc' h).1.2, (hsc' h).2.1.2, (hsc' h).2.2.push⟩))) ?_)
    intro g r' h
    split at h <;> simp_all
  case app.app f1 a1 f2 a2 =>
    simp only [Tm.holeFree, Bool.and_eq_true] at h1 h2
    have hsc' : sc = true → (wellScoped s.dctx.length f1 = true ∧
        wellScoped s.dctx.length a1 = true) ∧ (wellScoped s.dctx.length f2 = true ∧
        wellScoped s.dctx.length a2 = true) ∧ DSc s.dctx := by
      intro h; simpa only [wellScoped, Bool.and_eq_true] using hsc h
    refine out3_seq (c1 := fun g => convX g s.dctx f1 f2) (c2 := fun g => convX g s.dctx a1 a2)
      (ih f1 f2 s h1.1 h2.1 hD (fun h => ⟨(hsc' h).1.1, (hsc' h).2.1.1, (hsc' h).2.2⟩))
      (ih a1 a2 s h1.2 h2.2 hD (fun h => ⟨(hsc' h).1.2, (hsc' h).2.1.2, (hsc' h).2.2⟩)) ?_
    intro g r' h
    split at h <;> simp_all
  case neg.neg a1 a2 =>
    simp only [Tm.holeFree] at h1 h2
    exact ih a1 a2 s h1 h2 hD (fun h => by simpa only [wellScoped] using hsc h)
  case bin.bin o1 a1 b1 o2 a2 b2 =>
    simp only [Tm.holeFree, Bool.and_eq_true] at h1 h2
    have hsc' : sc = true → (wellScoped s.dctx.length a1 = true ∧
        wellScoped s.dctx.length b1 = true) ∧ (wellScoped s.dctx.length a2 = true ∧
        wellScoped s.dctx.length b2 = true) ∧ DSc s.dctx := by
      intro h; simpa only [wellScoped, Bool.and_eq_true] using hsc h
    refine out3_if _ (out3_seq (c1 := fun g => convX g s.dctx a1 a2)
      (c2 := fun g => convX g s.dctx b1 b2)
      (ih a1 a2 s h1.1 h2.1 hD (fun h => ⟨(hsc' h).1.1, (hsc' h).2.1.1, (hsc' h).2.2⟩))
      (ih b1 b2 s h1.2 h2.2 hD (fun h => ⟨(hsc' h).1.2, (hsc' h).2.1.2, (hsc' h).2.2⟩)) ?_)
    intro g r' h
    split at h <;> simp_all
  case ite.ite c1 a1 b1 c2 a2 b2 =>
    simp only [Tm.holeFree, Bool.and_eq_true] at h1 h2
    have hsc' : sc = true → ((wellScoped s.dctx.length c1 = true ∧
        wellScoped s.dctx.length a1 = true) ∧ wellScoped s.dctx.length b1 = true) ∧
        ((wellScoped s.dctx.length c2 = true ∧ wellScoped s.dctx.length a2 = true) ∧
        wellScoped s.dctx.length b2 = true) ∧ DSc s.dctx := by
      intro h; simpa only [wellScoped, Bool.and_eq_true] using hsc h
    refine out3_seq (c1 := fun g => convX g s.dctx c1 c2)
      (c2 := fun g => match convX g s.dctx a1 a2 with
        | some true => convX g s.dctx b1 b2
        | r => r)
      (ih c1 c2 s h1.1.1 h2.1.1 hD (fun h => ⟨(hsc' h).1.1.1, (hsc' h).2.1.1.1, (hsc' h).2.2⟩))
      (out3_seq (c1 := fun g => convX g s.dctx a1 a2) (c2 := fun g => convX g s.dctx b1 b2)
        (ih a1 a2 s h1.1.2 h2.1.2 hD (fun h => ⟨(hsc' h).1.1.2, (hsc' h).2.1.1.2, (hsc' h).2.2⟩))
        (ih b1 b2 s h1.2 h2.2 hD (fun h => ⟨(hsc' h).1.2, (hsc' h).2.1.2, (hsc' h).2.2⟩)) ?_) ?_
    · intro g r' h
      split at h <;> simp_all
    · intro g r' h
      split at h
      · next e => exact Or.inl ⟨e, h⟩
      · simp_all

/-! ## The main induction -/

/-- everything `unifyS` needs to know about a run of `whnfS` on a hole-free term -/
theorem whnfS_full (sc : Bool) (f : Nat) (t : Tm) (s : St) (hf : t.holeFree = true)
    (hD : DHF s.dctx) (hsc : sc = true → wellScoped s.dctx.length t = true ∧ DSc s.dctx) :
    Out3 s (PS sc) (fun r => r.holeFree = true ∧ (sc = true → wellScoped s.dctx.length r = true) ∧
      NotLet r ∧ ∀ g r', whnfX g s.dctx t = some r' → r = r') (whnfS f t s) := by
  have h := whnfS_out sc f t s hf hD hsc
  generalize hx : whnfS f t s = x at h
  cases h with
  | fuel => exact .fuel
  | panic h => exact .panic h
  | ok h => exact .ok ⟨h.1, h.2, whnfS_notLet' hx, (whnf_agree f t s _ s hf hD hx).2.2⟩

theorem unifyS_out (sc : Bool) : ∀ (f : Nat) (a b : Tm) (s : St), a.holeFree = true →
    b.holeFree = true → DHF s.dctx →
    (sc = true → wellScoped s.dctx.length a = true ∧ wellScoped s.dctx.length b = true ∧
      DSc s.dctx) →
    Out3 s (PS sc) (AgreeQ fun g => convX g s.dctx a b) (unifyS f a b s) := by
  intro f
  induction f with
  | zero => intro a b s _ _ _ _; rw [unifyS]; exact .fuel
  | succ f ih =>
    intro a b s ha hb hD hsc
    rw [unifyS_succ]
    refine Out3.bind_pure ((synEqS_P f).1 a b ha hb) ?_
    cases hs : sameX a b
    · simp only [Bool.false_eq_true, if_false]
      refine Out3.bind (whnfS_full sc f a s ha hD (fun h => ⟨(hsc h).1, (hsc h).2.2⟩)) ?_
      rintro w1 ⟨hw1, hw1sc, n1, ag1⟩
      refine Out3.bind (whnfS_full sc f b s hb hD (fun h => ⟨(hsc h).2.1, (hsc h).2.2⟩)) ?_
      rintro w2 ⟨hw2, hw2sc, n2, ag2⟩
      refine (head_agree sc f ih w1 w2 s hw1 hw2 n1 n2 hD
        (fun h => ⟨hw1sc h, hw2sc h, (hsc h).2.2⟩)).mono ?_
      intro r hr g r' hx
      dsimp only at hx
      cases g with
      | zero => simp [convX] at hx
      | succ g =>
        rw [convX_succ, hs] at hx
        simp only [Bool.false_eq_true, if_false] at hx
        cases hwa : whnfX g s.dctx a with
        | none => rw [hwa] at hx; simp at hx
        | some wa =>
          cases hwb : whnfX g s.dctx b with
          | none => rw [hwa, hwb] at hx; simp at hx
          | some wb =>
            rw [hwa, hwb] at hx
            dsimp only at hx
            rw [← ag1 g wa hwa, ← ag2 g wb hwb] at hx
            exact hr g r' hx
    · simp only [if_true]
      refine Out3.pure (fun g r' hx => ?_)
      dsimp only at hx
      cases g with
      | zero => simp [convX] at hx
      | succ g =>
        rw [convX_succ, hs] at hx
        simpa using hx

/-! ## The two corollaries used by `Props/C06.lean` -/

/-- without any scoping assumption: the only possible panics are the two context lookups of
`normalize_weak_head`; a successful run leaves the state as it was and agrees with `convX` -/
theorem unify_agree (f : Nat) (a b : Tm) (s : St) (ha : a.holeFree = true) (hb : b.holeFree = true)
    (hD : DHF s.dctx) :
    (∀ site, unifyS f a b s = .panic site → IdxSite site) ∧
    ∀ (r : Bool) (s' : St), unifyS f a b s = .ok r s' →
      s' = s ∧ ∀ (g : Nat) (r' : Bool), convX g s.dctx a b = some r' → r = r' := by
  have h := unifyS_out false f a b s ha hb hD (fun h => by cases h)
  generalize unifyS f a b s = x at h
  cases h with
  | fuel => exact ⟨fun _ e => (by cases e), fun _ _ e => by cases e⟩
  | panic hp => exact ⟨fun _ e => (by cases e; exact hp.1), fun _ _ e => by cases e⟩
  | ok hq => exact ⟨fun _ e => (by cases e), fun _ _ e => by cases e; exact ⟨rfl, hq⟩⟩

/-- with well-scoped terms under a well-scoped context: no panic at all -/
theorem unify_no_panic (f : Nat) (a b : Tm) (s : St) (ha : a.holeFree = true)
    (hb : b.holeFree = true) (hD : DHF s.dctx) (hsa : wellScoped s.dctx.length a = true)
    (hsb : wellScoped s.dctx.length b = true) (hS : DSc s.dctx) :
    ∀ site, unifyS f a b s ≠ .panic site := by
  have h := unifyS_out true f a b s ha hb hD (fun _ => ⟨hsa, hsb, hS⟩)
  generalize unifyS f a b s = x at h
  cases h with
  | fuel => exact fun _ e => by cases e
  | panic hp => exact absurd hp.2 (by decide)
  | ok hq => exact fun _ e => by cases e

/-- the same for the normalizer alone -/
theorem whnf_no_panic (f : Nat) (t : Tm) (s : St) (ht : t.holeFree = true) (hD : DHF s.dctx)
    (hst : wellScoped s.dctx.length t = true) (hS : DSc s.dctx) :
    (∀ site, whnfS f t s ≠ .panic site) ∧
    ∀ r s', whnfS f t s = .ok r s' → wellScoped s.dctx.length r = true := by
  have h := whnfS_out true f t s ht hD (fun _ => ⟨hst, hS⟩)
  generalize whnfS f t s = x at h
  cases h with
  | fuel => exact ⟨fun _ e => (by cases e), fun _ _ e => by cases e⟩
  | panic hp => exact absurd hp.2 (by decide)
  | ok hq => exact ⟨fun _ e => (by cases e), fun _ _ e => by cases e; exact hq.2 rfl⟩

end UnifyAgree
