import GramModel.Parser
import GramModel.Lemmas.ParserNoPanicDefs

/-! The three re-association passes (`Parser.lean` §6) never panic on a surface tree without
`ParseError` node, and their output has no `ParseError` node either. -/

namespace PModel

/-- The accumulator (if any) has no `ParseError` node. -/
def AccOK (acc : Option (Src × Link)) : Prop := ∀ ac l, acc = some (ac, l) → NoPE ac

theorem AccOK_none : AccOK none := by intro _ _ h; cases h

theorem AccOK_some {ac : Src} {l : Link} (h : NoPE ac) : AccOK (some (ac, l)) := by
  intro ac' l' e; cases e; exact h

theorem NoPE_build (r : SourceRange) (g : Bool) (es : List PErr) (l : Link) (a b : Src) :
    NoPE (.mk r g (l.build a b) es) ↔ NoPE a ∧ NoPE b := by
  cases l <;> simp [Link.build, NoPE]

theorem NoPE_reassocTail {acc : Option (Src × Link)} {reduced : Src}
    (h : NoPE reduced) (hacc : AccOK acc) : NoPE (reassocTail acc reduced) := by
  cases acc with
  | none => exact h
  | some p =>
    obtain ⟨ac, l⟩ := p
    simp only [reassocTail]
    exact (NoPE_build _ _ _ _ _ _).2 ⟨hacc ac l rfl, h⟩

/-- What the recursive calls provide for a subterm. -/
def IH (fam : Family) (t : Src) : Prop :=
  ∀ acc, AccOK acc → ∃ t', reassoc fam acc t = some t' ∧ NoPE t'

mutual
theorem reassoc_noPE' : ∀ (fam : Family) (t : Src), NoPE t → IH fam t
  | fam, .mk range g .parseError es, h => by
      simp [NoPE] at h
  | fam, .mk range g .type es, h => by
      intro acc hacc
      unfold reassoc
      exact ⟨_, rfl, NoPE_reassocTail h hacc⟩
  | fam, .mk range g (.lam x imp dom body) es, h => by
      intro acc hacc
      simp only [NoPE] at h
      obtain ⟨d', hd, hd'⟩ := reassocOpt_noPE' fam dom h.1
      obtain ⟨b', hb, hb'⟩ := reassoc_noPE' fam body h.2 none AccOK_none
      unfold reassoc
      simp only [hd, hb]
      refine ⟨_, rfl, NoPE_reassocTail ?_ hacc⟩
      simp only [NoPE]; exact ⟨hd', hb'⟩
  | fam, .mk range g (.var x) es, h => by
      intro acc hacc
      unfold reassoc
      exact ⟨_, rfl, NoPE_reassocTail h hacc⟩
  | fam, .mk range g .int es, h => by
      intro acc hacc
      unfold reassoc
      exact ⟨_, rfl, NoPE_reassocTail h hacc⟩
  | fam, .mk range g (.lit n) es, h => by
      intro acc hacc
      unfold reassoc
      exact ⟨_, rfl, NoPE_reassocTail h hacc⟩
  | fam, .mk range g .bool es, h => by
      intro acc hacc
      unfold reassoc
      exact ⟨_, rfl, NoPE_reassocTail h hacc⟩
  | fam, .mk range g .tt es, h => by
      intro acc hacc
      unfold reassoc
      exact ⟨_, rfl, NoPE_reassocTail h hacc⟩
  | fam, .mk range g .ff es, h => by
      intro acc hacc
      unfold reassoc
      exact ⟨_, rfl, NoPE_reassocTail h hacc⟩
  | fam, .mk range g (.pi x imp dom cod) es, h => by
      intro acc hacc
      simp only [NoPE] at h
      obtain ⟨d', hd, hd'⟩ := reassoc_noPE' fam dom h.1 none AccOK_none
      obtain ⟨c', hc, hc'⟩ := reassoc_noPE' fam cod h.2 none AccOK_none
      unfold reassoc
      simp only [hd, hc]
      refine ⟨_, rfl, NoPE_reassocTail ?_ hacc⟩
      simp only [NoPE]; exact ⟨hd', hc'⟩
  | fam, .mk range g (.let_ x ann defn body) es, h => by
      intro acc hacc
      simp only [NoPE] at h
      obtain ⟨n', hn, hn'⟩ := reassocOpt_noPE' fam ann h.1
      obtain ⟨d', hd, hd'⟩ := reassoc_noPE' fam defn h.2.1 none AccOK_none
      obtain ⟨b', hb, hb'⟩ := reassoc_noPE' fam body h.2.2 none AccOK_none
      unfold reassoc
      simp only [hn, hd, hb]
      refine ⟨_, rfl, NoPE_reassocTail ?_ hacc⟩
      simp only [NoPE]; exact ⟨hn', hd', hb'⟩
  | fam, .mk range g (.neg a) es, h => by
      intro acc hacc
      simp only [NoPE] at h
      obtain ⟨a', ha, ha'⟩ := reassoc_noPE' fam a h none AccOK_none
      unfold reassoc
      simp only [ha]
      refine ⟨_, rfl, NoPE_reassocTail ?_ hacc⟩
      simp only [NoPE]; exact ha'
  | fam, .mk range g (.ite c a b) es, h => by
      intro acc hacc
      simp only [NoPE] at h
      obtain ⟨c', hc, hc'⟩ := reassoc_noPE' fam c h.1 none AccOK_none
      obtain ⟨a', ha, ha'⟩ := reassoc_noPE' fam a h.2.1 none AccOK_none
      obtain ⟨b', hb, hb'⟩ := reassoc_noPE' fam b h.2.2 none AccOK_none
      unfold reassoc
      simp only [hc, ha, hb]
      refine ⟨_, rfl, NoPE_reassocTail ?_ hacc⟩
      simp only [NoPE]; exact ⟨hc', ha', hb'⟩
  | fam, .mk range g (.app f a) es, h => by
      intro acc hacc
      simp only [NoPE] at h
      have IHf := reassoc_noPE' fam f h.1
      have IHa := reassoc_noPE' fam a h.2
      unfold reassoc
      dsimp only
      by_cases hfam : fam = .applications
      · rw [if_pos hfam]
        obtain ⟨f0, hf0, hf0'⟩ := IHf none AccOK_none
        by_cases hg : a.group = true
        · obtain ⟨a0, ha0, ha0'⟩ := IHa none AccOK_none
          cases acc with
          | none =>
            simp [hg, hf0, ha0]
            simp only [NoPE]; exact ⟨hf0', ha0'⟩
          | some p =>
            obtain ⟨ac, l⟩ := p
            cases g with
            | true =>
              simp [hg, hf0, ha0]
              refine NoPE_reassocTail ?_ hacc
              simp only [NoPE]; exact ⟨hf0', ha0'⟩
            | false =>
              obtain ⟨f1, hf1, hf1'⟩ := IHf _ hacc
              simp [hg, hf1, ha0]
              simp only [NoPE]; exact ⟨hf1', ha0'⟩
        · cases acc with
          | none =>
            obtain ⟨a1, ha1, ha1'⟩ := IHa (some (f0, .app)) (AccOK_some hf0')
            simp [hg, hf0, ha1]
            exact ha1'
          | some p =>
            obtain ⟨ac, l⟩ := p
            cases g with
            | true =>
              obtain ⟨a1, ha1, ha1'⟩ := IHa (some (f0, .app)) (AccOK_some hf0')
              simp [hg, hf0, ha1]
              exact NoPE_reassocTail ha1' hacc
            | false =>
              have hacc' : NoPE (Src.mk (span ac.range f.range) true (l.build ac f0) []) :=
                (NoPE_build _ _ _ _ _ _).2 ⟨hacc ac l rfl, hf0'⟩
              obtain ⟨a2, ha2, ha2'⟩ := IHa (some (_, .app)) (AccOK_some hacc')
              simp [hg, hf0, ha2]
              exact ha2'
      · rw [if_neg hfam]
        obtain ⟨f', hf, hf'⟩ := IHf none AccOK_none
        obtain ⟨a', ha, ha'⟩ := IHa none AccOK_none
        simp only [hf, ha]
        refine ⟨_, rfl, NoPE_reassocTail ?_ hacc⟩
        simp only [NoPE]; exact ⟨hf', ha'⟩
  | fam, .mk range g (.bin o a b) es, h => by
      intro acc hacc
      simp only [NoPE] at h
      have IHf := reassoc_noPE' fam a h.1
      have IHa := reassoc_noPE' fam b h.2
      unfold reassoc
      dsimp only
      by_cases hfam : (fam = .productsAndQuotients ∧ (o = .prod ∨ o = .quot)) ∨ (fam = .sumsAndDifferences ∧ (o = .sum ∨ o = .diff))
      · rw [if_pos hfam]
        obtain ⟨f0, hf0, hf0'⟩ := IHf none AccOK_none
        by_cases hg : b.group = true
        · obtain ⟨a0, ha0, ha0'⟩ := IHa none AccOK_none
          cases acc with
          | none =>
            simp [hg, hf0, ha0]
            simp only [NoPE]; exact ⟨hf0', ha0'⟩
          | some p =>
            obtain ⟨ac, l⟩ := p
            cases g with
            | true =>
              simp [hg, hf0, ha0]
              refine NoPE_reassocTail ?_ hacc
              simp only [NoPE]; exact ⟨hf0', ha0'⟩
            | false =>
              obtain ⟨f1, hf1, hf1'⟩ := IHf _ hacc
              simp [hg, hf1, ha0]
              simp only [NoPE]; exact ⟨hf1', ha0'⟩
        · cases acc with
          | none =>
            obtain ⟨a1, ha1, ha1'⟩ := IHa (some (f0, .op o)) (AccOK_some hf0')
            simp [hg, hf0, ha1]
            exact ha1'
          | some p =>
            obtain ⟨ac, l⟩ := p
            cases g with
            | true =>
              obtain ⟨a1, ha1, ha1'⟩ := IHa (some (f0, .op o)) (AccOK_some hf0')
              simp [hg, hf0, ha1]
              exact NoPE_reassocTail ha1' hacc
            | false =>
              have hacc' : NoPE (Src.mk (span ac.range a.range) true (l.build ac f0) []) :=
                (NoPE_build _ _ _ _ _ _).2 ⟨hacc ac l rfl, hf0'⟩
              obtain ⟨a2, ha2, ha2'⟩ := IHa (some (_, .op o)) (AccOK_some hacc')
              simp [hg, hf0, ha2]
              exact ha2'
      · rw [if_neg hfam]
        obtain ⟨f', hf, hf'⟩ := IHf none AccOK_none
        obtain ⟨a', ha, ha'⟩ := IHa none AccOK_none
        simp only [hf, ha]
        refine ⟨_, rfl, NoPE_reassocTail ?_ hacc⟩
        simp only [NoPE]; exact ⟨hf', ha'⟩
theorem reassocOpt_noPE' : ∀ (fam : Family) (o : OptSrc), NoPEOpt o →
    ∃ o', reassocOpt fam o = some o' ∧ NoPEOpt o'
  | fam, .none, h => by
      unfold reassocOpt
      exact ⟨_, rfl, by simp [NoPEOpt]⟩
  | fam, .some t, h => by
      simp only [NoPEOpt] at h
      obtain ⟨t', ht, ht'⟩ := reassoc_noPE' fam t h none AccOK_none
      unfold reassocOpt
      simp only [ht]
      exact ⟨_, rfl, by simp only [NoPEOpt]; exact ht'⟩
end

/-- `reassoc` fails (`none` = the Rust `panic!`) only on a tree with a `ParseError` node, and its
output has no `ParseError` node. -/
theorem reassoc_noPE : ∀ (fam : Family) (t : Src) (acc : Option (Src × Link)),
    NoPE t → (∀ ac l, acc = some (ac, l) → NoPE ac) →
    ∃ t', reassoc fam acc t = some t' ∧ NoPE t' :=
  fun fam t acc h hacc => reassoc_noPE' fam t h acc hacc

theorem reassocOpt_noPE : ∀ (fam : Family) (o : OptSrc), NoPEOpt o →
    ∃ o', reassocOpt fam o = some o' ∧ NoPEOpt o' :=
  reassocOpt_noPE'

/-- The three passes chain on a tree without `ParseError` node. -/
theorem reassoc_passes_noPE (t : Src) (h : NoPE t) :
    ∃ t1 t2 t3, reassociateApplications t = some t1 ∧
      reassociateProductsAndQuotients t1 = some t2 ∧
      reassociateSumsAndDifferences t2 = some t3 ∧ NoPE t3 := by
  obtain ⟨t1, h1, h1'⟩ := reassoc_noPE .applications t none h (by intro _ _ e; cases e)
  obtain ⟨t2, h2, h2'⟩ := reassoc_noPE .productsAndQuotients t1 none h1' (by intro _ _ e; cases e)
  obtain ⟨t3, h3, h3'⟩ := reassoc_noPE .sumsAndDifferences t2 none h2' (by intro _ _ e; cases e)
  exact ⟨t1, t2, t3, h1, h2, h3, h3'⟩

end PModel
