import GramModel.Lemmas.ParsePrinted2

/-! # Completeness of the parser model on printed terms, part 3: atoms, atom sequences, lifting -/

namespace PModel
open PrintDerives

/-- the kinds an `atom` can start with -/
def atomStartK : PKind → Bool
  | .type_ | .identifier _ | .integer | .integerLiteral _ | .boolean | .true_ | .false_
  | .leftParen => true
  | _ => false

/-- the kinds that can follow a printed term in a bare position -/
def stopK : PKind → Bool
  | .rightParen | .rightCurly | .then_ | .else_ | .terminator _ => true
  | _ => false

/-- … or a printed operand of a definition's annotation -/
def jstopK : PKind → Bool
  | .equals => true
  | k => stopK k

/-- the token at `b`, if there is one, satisfies `p` -/
def Follow (toks : Array PTok) (b : Nat) (p : PKind → Bool) : Prop := ∀ k, KAt toks b k → p k = true

theorem Follow.not {toks : Array PTok} {b : Nat} {p : PKind → Bool} (h : Follow toks b p)
    {k : PKind} (hk : p k = false) : ¬KAt toks b k := fun h' => by
  rw [h k h'] at hk; cases hk

theorem Follow.of_kat {toks : Array PTok} {b : Nat} {p : PKind → Bool} {k : PKind}
    (h : KAt toks b k) (hk : p k = true) : Follow toks b p := fun k' h' => by
  rw [← KAt.unique h h']; exact hk

theorem Follow.mono {toks : Array PTok} {b : Nat} {p q : PKind → Bool} (h : Follow toks b p)
    (hpq : ∀ k, p k = true → q k = true) : Follow toks b q := fun k hk => hpq k (h k hk)

theorem stop_jstop : ∀ k, stopK k = true → jstopK k = true := by
  intro k h; cases k <;> simp_all [stopK, jstopK]

theorem KAt.ne {toks : Array PTok} {b : Nat} {k k' : PKind} (h : KAt toks b k) (hne : k ≠ k') :
    ¬KAt toks b k' := fun h' => hne (KAt.unique h h')

/-- a successful parse with a given shape -/
def Parses (toks : Array PTok) (nt : NT) (a b : Nat) (e : Src) : Prop :=
  ∃ tr, RetN toks nt a ⟨tr, b, true⟩ ∧ shape tr = e

theorem bp_al : (NT.annotatedLambda, PKind.leftParen, PKind.rightParen, PKind.thickArrow) ∈ binderProds := by decide
theorem bp_ali : (NT.annotatedLambdaImplicit, PKind.leftCurly, PKind.rightCurly, PKind.thickArrow) ∈ binderProds := by decide
theorem bp_pi : (NT.pi, PKind.leftParen, PKind.rightParen, PKind.thinArrow) ∈ binderProds := by decide
theorem bp_pii : (NT.piImplicit, PKind.leftCurly, PKind.rightCurly, PKind.thinArrow) ∈ binderProds := by decide
theorem bn_sum : (NT.sum, NT.largeTerm, PKind.plus, NT.hugeTerm) ∈ binProds := by decide
theorem bn_diff : (NT.difference, NT.largeTerm, PKind.minus, NT.hugeTerm) ∈ binProds := by decide
theorem bn_prod : (NT.product, NT.smallTerm, PKind.asterisk, NT.largeTerm) ∈ binProds := by decide
theorem bn_quot : (NT.quotient, NT.smallTerm, PKind.slash, NT.largeTerm) ∈ binProds := by decide
theorem bn_lt : (NT.lessThan, NT.hugeTerm, PKind.lessThan, NT.hugeTerm) ∈ binProds := by decide
theorem bn_le : (NT.lessThanOrEqualTo, NT.hugeTerm, PKind.lessThanOrEqualTo, NT.hugeTerm) ∈ binProds := by decide
theorem bn_eq : (NT.equalTo, NT.hugeTerm, PKind.doubleEquals, NT.hugeTerm) ∈ binProds := by decide
theorem bn_gt : (NT.greaterThan, NT.hugeTerm, PKind.greaterThan, NT.hugeTerm) ∈ binProds := by decide
theorem bn_ge : (NT.greaterThanOrEqualTo, NT.hugeTerm, PKind.greaterThanOrEqualTo, NT.hugeTerm) ∈ binProds := by decide

/-- both `( x : A ) => …` and `( x : A ) -> …` fail at `a` -/
def NB (toks : Array PTok) (a : Nat) : Prop :=
  FailsN toks .annotatedLambda a ∧ FailsN toks .pi a

theorem NB.of_start {toks : Array PTok} {a : Nat}
    (h : ¬KAt toks a .leftParen ∨ (∀ x, ¬KAt toks (a + 1) (.identifier x)) ∨
      ¬KAt toks (a + 1 + 1) .colon) : NB toks a :=
  ⟨binder_fail_start bp_al h,
   binder_fail_start bp_pi h⟩

theorem NB.of_close {toks : Array PTok} {a : Nat} {r1 : PResult}
    (h1 : RetN toks .jumboTerm (a + 1 + 1 + 1) r1) (hr1 : r1.term.isParseError = false)
    (h : ¬KAt toks r1.next .rightParen) : NB toks a :=
  ⟨binder_fail_close bp_al h1 hr1 (Or.inl h),
   binder_fail_close bp_pi h1 hr1 (Or.inl h)⟩

section Lift
variable {toks : Array PTok}

/-! ## No atom starts here -/

theorem atom_fails {b : Nat} (h : Follow toks b (fun k => !atomStartK k)) : FailsN toks .atom b := by
  refine choice_fail (by simp [altsOf]) ?_
  intro X hX
  simp only [altsOf, List.mem_cons, List.mem_nil_iff, or_false] at hX
  rcases hX with rfl | rfl | rfl | rfl | rfl | rfl | rfl | rfl
  · exact leaf_fail rfl (h.not rfl)
  · exact variable_fail (fun x => h.not rfl)
  · exact leaf_fail rfl (h.not rfl)
  · exact literal_fail (fun n => h.not rfl)
  · exact leaf_fail rfl (h.not rfl)
  · exact leaf_fail rfl (h.not rfl)
  · exact leaf_fail rfl (h.not rfl)
  · exact group_fail (h.not rfl)

theorem small_fails {b : Nat} (h : Follow toks b (fun k => !atomStartK k)) :
    FailsN toks .smallTerm b := by
  refine choice_fail (by simp [altsOf]) ?_
  intro X hX
  simp only [altsOf, List.mem_cons, List.mem_nil_iff, or_false] at hX
  rcases hX with rfl | rfl
  · exact application_fail_head (atom_fails h)
  · exact atom_fails h

/-! ## Through the precedence levels -/

theorem up_small {a : Nat} {r : PResult} (h : RetN toks .atom a r)
    (hr : r.term.isParseError = false) (hf : Follow toks r.next (fun k => !atomStartK k)) :
    RetN toks .smallTerm a r :=
  choice_ok [.application] [] rfl
    (fun X hX => by
      simp only [List.mem_cons, List.mem_nil_iff, or_false] at hX; subst hX
      exact application_fail_arg h hr (small_fails hf)) h hr

theorem up_medium {a : Nat} {r : PResult} (h : RetN toks .smallTerm a r)
    (hr : r.term.isParseError = false) (h1 : ¬KAt toks r.next .asterisk)
    (h2 : ¬KAt toks r.next .slash) : RetN toks .mediumTerm a r :=
  choice_ok [.product, .quotient] [] rfl
    (fun X hX => by
      simp only [List.mem_cons, List.mem_nil_iff, or_false] at hX
      rcases hX with rfl | rfl
      · exact binary_fail_op bn_prod h hr h1
      · exact binary_fail_op bn_quot h hr h2) h hr

theorem up_large {a : Nat} {r : PResult} (h : RetN toks .mediumTerm a r)
    (hr : r.term.isParseError = false) (h0 : ¬KAt toks a .minus) : RetN toks .largeTerm a r :=
  choice_ok [.negation] [] rfl
    (fun X hX => by
      simp only [List.mem_cons, List.mem_nil_iff, or_false] at hX; subst hX
      exact negation_fail h0) h hr

theorem up_huge {a : Nat} {r : PResult} (h : RetN toks .largeTerm a r)
    (hr : r.term.isParseError = false) (h1 : ¬KAt toks r.next .plus)
    (h2 : ¬KAt toks r.next .minus) : RetN toks .hugeTerm a r :=
  choice_ok [.sum, .difference] [] rfl
    (fun X hX => by
      simp only [List.mem_cons, List.mem_nil_iff, or_false] at hX
      rcases hX with rfl | rfl
      · exact binary_fail_op bn_sum h hr h1
      · exact binary_fail_op bn_diff h hr h2) h hr

theorem up_giant {a : Nat} {r : PResult} (h : RetN toks .hugeTerm a r)
    (hr : r.term.isParseError = false) (h1 : ¬KAt toks r.next .lessThan)
    (h2 : ¬KAt toks r.next .lessThanOrEqualTo) (h3 : ¬KAt toks r.next .doubleEquals)
    (h4 : ¬KAt toks r.next .greaterThan) (h5 : ¬KAt toks r.next .greaterThanOrEqualTo) :
    RetN toks .giantTerm a r :=
  choice_ok [.lessThan, .lessThanOrEqualTo, .equalTo, .greaterThan, .greaterThanOrEqualTo] [] rfl
    (fun X hX => by
      simp only [List.mem_cons, List.mem_nil_iff, or_false] at hX
      rcases hX with rfl | rfl | rfl | rfl | rfl
      · exact binary_fail_op bn_lt h hr h1
      · exact binary_fail_op bn_le h hr h2
      · exact binary_fail_op bn_eq h hr h3
      · exact binary_fail_op bn_gt h hr h4
      · exact binary_fail_op bn_ge h hr h5) h hr

/-- the kinds that are not an infix operator or `->` -/
def opFreeK : PKind → Bool
  | .asterisk | .slash | .plus | .minus | .lessThan | .lessThanOrEqualTo | .doubleEquals
  | .greaterThan | .greaterThanOrEqualTo | .thinArrow => false
  | _ => true

theorem small_to_large {a : Nat} {r : PResult} (h : RetN toks .smallTerm a r)
    (hr : r.term.isParseError = false) (h0 : ¬KAt toks a .minus)
    (h1 : ¬KAt toks r.next .asterisk) (h2 : ¬KAt toks r.next .slash) : RetN toks .largeTerm a r :=
  up_large (up_medium h hr h1 h2) hr h0

theorem small_to_huge {a : Nat} {r : PResult} (h : RetN toks .smallTerm a r)
    (hr : r.term.isParseError = false) (h0 : ¬KAt toks a .minus)
    (h1 : ¬KAt toks r.next .asterisk) (h2 : ¬KAt toks r.next .slash)
    (h3 : ¬KAt toks r.next .plus) (h4 : ¬KAt toks r.next .minus) : RetN toks .hugeTerm a r :=
  up_huge (small_to_large h hr h0 h1 h2) hr h3 h4

theorem large_to_giant {a : Nat} {r : PResult} (h : RetN toks .largeTerm a r)
    (hr : r.term.isParseError = false) (hf : Follow toks r.next opFreeK) :
    RetN toks .giantTerm a r :=
  up_giant (up_huge h hr (hf.not rfl) (hf.not rfl)) hr (hf.not rfl) (hf.not rfl) (hf.not rfl)
    (hf.not rfl) (hf.not rfl)

theorem small_to_giant {a : Nat} {r : PResult} (h : RetN toks .smallTerm a r)
    (hr : r.term.isParseError = false) (h0 : ¬KAt toks a .minus)
    (hf : Follow toks r.next opFreeK) : RetN toks .giantTerm a r :=
  large_to_giant (small_to_large h hr h0 (hf.not rfl) (hf.not rfl)) hr hf

/-- the jumbo level, when the alternative that succeeds is `B` and those before it fail -/
theorem jumbo_of {a : Nat} {r : PResult} {B : NT} (pre post : List NT)
    (hA : altsOf .jumboTerm = pre ++ B :: post) (hpre : ∀ X ∈ pre, FailsN toks X a)
    (hB : RetN toks B a r) (hr : r.term.isParseError = false) : RetN toks .jumboTerm a r :=
  choice_ok pre post hA hpre hB hr

theorem up_term {a : Nat} {r : PResult} (h : RetN toks .jumboTerm a r)
    (hr : r.term.isParseError = false) (hl : FailsN toks .let_ a) : RetN toks .term a r :=
  choice_ok [.let_] [] rfl
    (fun X hX => by
      simp only [List.mem_cons, List.mem_nil_iff, or_false] at hX; subst hX; exact hl) h hr

/-! ## Atoms -/

/-- what the induction knows about a printed operand (a leaf token, or a parenthesised term) -/
structure AtomOK (toks : Array PTok) (a b : Nat) (e : Src) : Prop where
  parses : Parses toks .atom a b e
  notPE : e.isParseError = false
  start : ∃ k, KAt toks a k ∧ atomStartK k = true
  nb : NB toks a
  ident : ∀ x, KAt toks a (.identifier x) → b = a + 1
  lt : a < b

/-- the token after the first atom is not `=>`, `:` or `=` -/
def SafeNext (toks : Array PTok) (m : Nat) : Prop :=
  ¬KAt toks m .thickArrow ∧ ¬KAt toks m .colon ∧ ¬KAt toks m .equals

theorem SafeNext.of_follow {m : Nat} {p : PKind → Bool} (h : Follow toks m p)
    (h1 : p .thickArrow = false) (h2 : p .colon = false) (h3 : p .equals = false) :
    SafeNext toks m := ⟨h.not h1, h.not h2, h.not h3⟩

/-- what fails at a position where a printed atom starts -/
structure PreFails (toks : Array PTok) (a : Nat) : Prop where
  lambda : FailsN toks .lambda a
  lambdaImplicit : FailsN toks .lambdaImplicit a
  annotatedLambda : FailsN toks .annotatedLambda a
  annotatedLambdaImplicit : FailsN toks .annotatedLambdaImplicit a
  pi : FailsN toks .pi a
  piImplicit : FailsN toks .piImplicit a
  if_ : FailsN toks .if_ a
  noMinus : ¬KAt toks a .minus

theorem AtomOK.pre {a m : Nat} {e : Src} (A : AtomOK toks a m e) (h : ¬KAt toks m .thickArrow) :
    PreFails toks a := by
  obtain ⟨k, hk, hs⟩ := A.start
  have hne : ∀ k', atomStartK k' = false → ¬KAt toks a k' := fun k' hk' h' => by
    rw [← KAt.unique hk h'] at hk'; rw [hs] at hk'; cases hk'
  refine ⟨lambda_fail ?_, lambdaImplicit_fail (Or.inl (hne _ rfl)), A.nb.1,
    binder_fail_start bp_ali (Or.inl (hne _ rfl)), A.nb.2,
    binder_fail_start bp_pii (Or.inl (hne _ rfl)), if_fail (hne _ rfl),
    hne _ rfl⟩
  by_cases hx : ∃ x, KAt toks a (.identifier x)
  · obtain ⟨x, hx⟩ := hx
    rw [A.ident x hx] at h
    exact Or.inr h
  · exact Or.inl (fun x hx' => hx ⟨x, hx'⟩)

theorem AtomOK.let_fails {a m : Nat} {e : Src} (A : AtomOK toks a m e) (h : SafeNext toks m) :
    FailsN toks .let_ a := by
  refine let_fail ?_
  by_cases hx : ∃ x, KAt toks a (.identifier x)
  · obtain ⟨x, hx⟩ := hx
    have := A.ident x hx
    subst this
    exact Or.inr ⟨h.2.1, h.2.2⟩
  · exact Or.inl (fun x hx' => hx ⟨x, hx'⟩)

/-- the binder functions fail at the parenthesis before a printed atom -/
theorem AtomOK.nb_before {a m : Nat} {e : Src} (A : AtomOK toks a m e) (h : SafeNext toks m)
    {p : Nat} (hp : p + 1 = a) : NB toks p := by
  subst hp
  refine NB.of_start ?_
  by_cases hx : ∃ x, KAt toks (p + 1) (.identifier x)
  · obtain ⟨x, hx⟩ := hx
    have := A.ident x hx
    subst this
    exact Or.inr (Or.inr h.2.1)
  · exact Or.inr (Or.inl (fun x hx' => hx ⟨x, hx'⟩))

/-! ## Atom sequences -/

/-- consecutive printed atoms -/
inductive AtomSeq (toks : Array PTok) : Nat → Nat → List Src → Prop
  | one {a b e} : AtomOK toks a b e → AtomSeq toks a b [e]
  | cons {a m b e l} : AtomOK toks a m e → AtomSeq toks m b l → AtomSeq toks a b (e :: l)

theorem AtomSeq.snoc {a m b : Nat} {l : List Src} {e : Src} (h : AtomSeq toks a m l)
    (A : AtomOK toks m b e) : AtomSeq toks a b (l ++ [e]) := by
  induction h with
  | one A0 => exact .cons A0 (.one A)
  | cons A0 _ ih => exact .cons A0 (ih A)

theorem AtomSeq.ne_nil {a b : Nat} {l : List Src} (h : AtomSeq toks a b l) : l ≠ [] := by
  cases h <;> simp

theorem AtomSeq.lt {a b : Nat} {l : List Src} (h : AtomSeq toks a b l) : a < b := by
  induction h with
  | one A => exact A.lt
  | cons A _ ih => have := A.lt; omega

theorem AtomSeq.startsAtom {a b : Nat} {l : List Src} (h : AtomSeq toks a b l) :
    ∃ k, KAt toks a k ∧ atomStartK k = true := by
  cases h with
  | one A => exact A.start
  | cons A _ => exact A.start

/-- the first atom of a sequence, and the token after it -/
theorem AtomSeq.first {a b : Nat} {l : List Src} (h : AtomSeq toks a b l) (hb : SafeNext toks b) :
    ∃ m e, AtomOK toks a m e ∧ SafeNext toks m := by
  cases h with
  | one A => exact ⟨_, _, A, hb⟩
  | cons A hs =>
    obtain ⟨k, hk, hst⟩ := hs.startsAtom
    refine ⟨_, _, A, ?_⟩
    refine ⟨hk.ne ?_, hk.ne ?_, hk.ne ?_⟩ <;> (intro h; subst h; cases hst)

theorem nestL_notPE {l : List Src} (h : ∀ e ∈ l, e.isParseError = false) (hne : l ≠ []) :
    (nestL l).isParseError = false := by
  match l, hne with
  | [e], _ => exact h e (by simp)
  | e :: e' :: l, _ => rfl

theorem AtomSeq.notPE {a b : Nat} {l : List Src} (h : AtomSeq toks a b l) :
    ∀ e ∈ l, e.isParseError = false := by
  induction h with
  | one A => intro e he; simp only [List.mem_cons, List.mem_nil_iff, or_false] at he; subst he; exact A.notPE
  | cons A _ ih =>
    intro e he
    rcases List.mem_cons.mp he with rfl | he
    · exact A.notPE
    · exact ih e he

/-- an atom sequence not followed by an atom is a `small_term`: the right-nested application -/
theorem AtomSeq.small {a b : Nat} {l : List Src} (h : AtomSeq toks a b l)
    (hf : Follow toks b (fun k => !atomStartK k)) : Parses toks .smallTerm a b (nestL l) := by
  induction h with
  | one A =>
    obtain ⟨tr, h1, hs⟩ := A.parses
    have hr : tr.isParseError = false := by rw [← shape_pe, hs]; exact A.notPE
    exact ⟨tr, up_small h1 hr hf, hs⟩
  | @cons a m b e l A hs ih =>
    obtain ⟨tr1, h1, hs1⟩ := A.parses
    have hr1 : tr1.isParseError = false := by rw [← shape_pe, hs1]; exact A.notPE
    obtain ⟨tr2, h2, hs2⟩ := ih hf
    have hr2 : tr2.isParseError = false := by
      rw [← shape_pe, hs2]; exact nestL_notPE hs.notPE hs.ne_nil
    have happ := application_ok h1 hr1 h2 hr2
    refine ⟨_, choice_ok [] [.atom] rfl (fun _ hX => by cases hX) happ rfl, ?_⟩
    obtain ⟨e', l', rfl⟩ : ∃ e' l', l = e' :: l' := by
      cases l with
      | nil => exact absurd rfl hs.ne_nil
      | cons e' l' => exact ⟨e', l', rfl⟩
    simp only [shape, shapeV, hs1, hs2, nestL, mk0]

/-- … a `jumbo_term`, if what follows is not an operator either … -/
theorem AtomSeq.jumbo {a b : Nat} {l : List Src} (h : AtomSeq toks a b l)
    (hf : Follow toks b jstopK) : Parses toks .jumboTerm a b (nestL l) := by
  have hfa : Follow toks b (fun k => !atomStartK k) :=
    hf.mono (fun k hk => by cases k <;> simp_all [jstopK, stopK, atomStartK])
  have hfo : Follow toks b opFreeK :=
    hf.mono (fun k hk => by cases k <;> simp_all [jstopK, stopK, opFreeK])
  have hsafe0 : ¬KAt toks b .thickArrow := hf.not rfl
  obtain ⟨tr, h1, hs⟩ := h.small hfa
  have hr : tr.isParseError = false := by
    rw [← shape_pe, hs]; exact nestL_notPE h.notPE h.ne_nil
  obtain ⟨m, e, A, hm⟩ : ∃ m e, AtomOK toks a m e ∧ ¬KAt toks m .thickArrow := by
    cases h with
    | one A => exact ⟨_, _, A, hsafe0⟩
    | cons A hs' =>
      obtain ⟨k, hk, hst⟩ := hs'.startsAtom
      exact ⟨_, _, A, hk.ne (by intro h; subst h; cases hst)⟩
  have P := A.pre hm
  have hg := small_to_giant h1 hr P.noMinus hfo
  have hnd : FailsN toks .nonDependentPi a := ndpi_fail_arrow h1 hr (hfo.not rfl)
  refine ⟨tr, jumbo_of [.lambda, .lambdaImplicit, .annotatedLambda, .annotatedLambdaImplicit, .pi,
    .piImplicit, .nonDependentPi, .if_] [] rfl ?_ hg hr, hs⟩
  intro X hX
  simp only [List.mem_cons, List.mem_nil_iff, or_false] at hX
  rcases hX with rfl | rfl | rfl | rfl | rfl | rfl | rfl | rfl
  · exact P.lambda
  · exact P.lambdaImplicit
  · exact P.annotatedLambda
  · exact P.annotatedLambdaImplicit
  · exact P.pi
  · exact P.piImplicit
  · exact hnd
  · exact P.if_

theorem stop_safe {b : Nat} (hf : Follow toks b stopK) : SafeNext toks b :=
  SafeNext.of_follow hf rfl rfl rfl

/-- … and a `term` in a bare position. -/
theorem AtomSeq.term {a b : Nat} {l : List Src} (h : AtomSeq toks a b l)
    (hf : Follow toks b stopK) : Parses toks .term a b (nestL l) := by
  obtain ⟨tr, h1, hs⟩ := h.jumbo (hf.mono stop_jstop)
  have hr : tr.isParseError = false := by
    rw [← shape_pe, hs]; exact nestL_notPE h.notPE h.ne_nil
  obtain ⟨m, e, A, hm⟩ := h.first (stop_safe hf)
  exact ⟨tr, up_term h1 hr (A.let_fails hm), hs⟩

theorem AtomSeq.nb_before {a b : Nat} {l : List Src} (h : AtomSeq toks a b l)
    (hb : SafeNext toks b) {p : Nat} (hp : p + 1 = a) : NB toks p := by
  obtain ⟨m, e, A, hm⟩ := h.first hb
  exact A.nb_before hm hp

end Lift

end PModel
