import GramModel.Lemmas.ParsePrinted6

/-! # Completeness of the parser model on printed terms: the parse phase reads a printed term of the
fragment back as its tree -/

namespace PModel
open PrintDerives

theorem ce_setG (e : Src) : collectErrors (setG e) = collectErrors e := by
  obtain ⟨r, g, v, es⟩ := e
  cases v <;> simp [setG, collectErrors]

theorem ce_nestL : ∀ (l : List Src), (∀ e ∈ l, collectErrors e = []) → l ≠ [] →
    collectErrors (nestL l) = []
  | [e], h, _ => h e (by simp)
  | e :: e' :: l, h, _ => by
    have ih := ce_nestL (e' :: l) (fun x hx => h x (by simp [hx])) (by simp)
    simp [nestL, mk0, collectErrors, ih, h e (by simp)]

section
variable (I : List Char → Name) (nm : Name → List Char)

theorem ce_srcOf : ∀ t : Tm, frag t = true →
    collectErrors (srcOf I nm t) = [] ∧ (∀ e ∈ atomsOf I nm t, collectErrors e = [])
  | .hole _ _, _ => by simp [srcOf, atomsOf, mk0, collectErrors]
  | .var _ _, _ => by simp [srcOf, atomsOf, mk0, collectErrors]
  | .type, _ => by simp [srcOf, atomsOf, mk0, collectErrors]
  | .int, _ => by simp [srcOf, atomsOf, mk0, collectErrors]
  | .bool, _ => by simp [srcOf, atomsOf, mk0, collectErrors]
  | .tt, _ => by simp [srcOf, atomsOf, mk0, collectErrors]
  | .ff, _ => by simp [srcOf, atomsOf, mk0, collectErrors]
  | .lit _, _ => by simp [srcOf, atomsOf, mk0, collectErrors]
  | .lam _ _ _ _, h => by simp [frag] at h
  | .pi _ _ _ _, h => by simp [frag] at h
  | .letg _ _, h => by simp [frag] at h
  | .app f x, h => by
      simp only [frag, Bool.and_eq_true] at h
      have hf := ce_srcOf f h.1
      have hx := ce_srcOf x h.2
      have hgx : collectErrors (grpS I nm x) = [] := by
        unfold grpS; split
        · exact hx.1
        · rw [ce_setG]; exact hx.1
      have hgf : collectErrors (grpS I nm f) = [] := by
        unfold grpS; split
        · exact hf.1
        · rw [ce_setG]; exact hf.1
      have hall : ∀ e ∈ headAtoms I nm f ++ [grpS I nm x], collectErrors e = [] := by
        intro e he
        rcases List.mem_append.mp he with he | he
        · unfold headAtoms at he
          split at he
          · exact hf.2 e he
          · simp only [List.mem_cons, List.mem_nil_iff, or_false] at he; subst he; exact hgf
        · simp only [List.mem_cons, List.mem_nil_iff, or_false] at he; subst he; exact hgx
      rw [srcOf_app, atomsOf_app]
      exact ⟨ce_nestL _ hall (by simp), hall⟩
  | .neg x, h => by
      simp only [frag] at h
      have hx := ce_srcOf x h
      have hgx : collectErrors (grpS I nm x) = [] := by
        unfold grpS; split
        · exact hx.1
        · rw [ce_setG]; exact hx.1
      rw [srcOf_neg]
      simp [mk0, collectErrors, hgx, atomsOf]
  | .bin op x y, h => by
      simp only [frag, Bool.and_eq_true] at h
      have hx := ce_srcOf x h.1
      have hy := ce_srcOf y h.2
      have hgx : collectErrors (grpS I nm x) = [] := by
        unfold grpS; split
        · exact hx.1
        · rw [ce_setG]; exact hx.1
      have hgy : collectErrors (grpS I nm y) = [] := by
        unfold grpS; split
        · exact hy.1
        · rw [ce_setG]; exact hy.1
      rw [srcOf_bin]
      simp [mk0, collectErrors, hgx, hgy, atomsOf]
  | .ite c x y, h => by
      simp only [frag, Bool.and_eq_true] at h
      have hc := ce_srcOf c h.1.1
      have hx := ce_srcOf x h.1.2
      have hy := ce_srcOf y h.2
      rw [srcOf_ite]
      simp [mk0, collectErrors, hc.1, hx.1, hy.1, atomsOf]

end

/-- **The parse phase reads a printed term of the fragment back**: on any token array whose kinds are
the kinds the printer model prints for `t` (identifier spellings interned by `I`; any ranges), the
parse phase succeeds, consumes every token, records no error, and returns the tree of `t`: as a shape
`srcOf I nm t`, as a tree the parse tree (`SegT`, exact ranges) of the whole token array. -/
theorem parse_printed_frag (toks : Array PTok) (I : List Char → Name) (nm : Name → List Char)
    (t : Tm) (hfr : frag t = true)
    (hk : toks.toList.map (·.kind) = (printKinds nm t).map (kindP I)) :
    ∃ r st, runParser toks = some (r, st) ∧ r.next = toks.size ∧ r.confident = true ∧
      collectErrors r.term = [] ∧ shape r.term = srcOf I nm t ∧
      SegT toks .term 0 toks.size r.term := by
  rw [← pk_eq] at hk
  obtain ⟨hsub, hsz⟩ := Sub_of_kinds hk
  have G := main toks I nm t hfr 0 hsub
  have hf : Follow toks (0 + (pk I nm t).length) stopK := by
    intro k ⟨hlt, _⟩; omega
  obtain ⟨tr, ⟨F, hF⟩, hs⟩ := G.term hf
  have hrun := hF F (Nat.le_refl _) PState.init
  obtain ⟨st, hr⟩ := runParser_eq_pure hrun
  have hce : collectErrors tr = [] := by
    rw [← collectErrors_shape, hs]; exact (ce_srcOf I nm t hfr).1
  have hnext : 0 + (pk I nm t).length = toks.size := by omega
  refine ⟨_, st, hr, hnext, rfl, hce, hs, ?_⟩
  have := runParser_spans hr hce
  rw [← hnext]
  exact this

end PModel
