import GramModel.Lemmas.ParsePrinted3
import GramModel.Lemmas.Unambiguous

/-! # General completeness of the parser model w.r.t. the grammar, stage 1

Every sentence of `grammar.y` over the *operator sublanguage* (leaf tokens, parentheses, the nine
binary operators, `-`) is accepted by the packrat functions with its (unique) parse tree: for every
tower nonterminal `A`, if `SegT toks A a b t` and the token at `b` is not in the extension set of `A`
(the segment is maximal), `parse_A(tokens, a)` returns `t`, `next = b`, confident.  The ordered
choice is handled alternative by alternative: the alternatives tried before the right one fail. -/

namespace PModel
open Unamb

section
variable {toks : Array PTok}

theorem segT_facts {A : NT} {a b : Nat} {t : Src} (h : SegT toks A a b t) :
    t.errors = [] ∧ t.isParseError = false := by
  induction h with
  | unit _ _ ih => exact ih
  | leaf hm _ =>
    refine ⟨rfl, ?_⟩
    simp only [leafProds, List.mem_cons, Prod.mk.injEq, List.mem_nil_iff, or_false] at hm
    rcases hm with ⟨rfl, _⟩ | ⟨rfl, _⟩ | ⟨rfl, _⟩ | ⟨rfl, _⟩ | ⟨rfl, _⟩ <;> rfl
  | binder hm _ _ _ _ _ _ _ _ _ =>
    refine ⟨rfl, ?_⟩
    simp only [binderProds, List.mem_cons, Prod.mk.injEq, List.mem_nil_iff, or_false] at hm
    rcases hm with ⟨rfl, _⟩ | ⟨rfl, _⟩ | ⟨rfl, _⟩ | ⟨rfl, _⟩ <;> rfl
  | group _ _ _ ih =>
    exact ⟨rfl, ih.2⟩
  | _ => exact ⟨rfl, rfl⟩

theorem atomStartK_eq_isF (k : PKind) : atomStartK k = isF k := by cases k <;> rfl

/-- the token at `b`, if any, is not in `e` -/
def NoExt (toks : Array PTok) (b : Nat) (e : PKind → Bool) : Prop := ∀ k, KAt toks b k → e k = false

theorem NoExt.not {b : Nat} {e : PKind → Bool} (h : NoExt toks b e) {k : PKind} (hk : e k = true) :
    ¬KAt toks b k := fun h' => by rw [h k h'] at hk; cases hk

theorem NoExt.mono {b : Nat} {e e' : PKind → Bool} (h : NoExt toks b e)
    (he : ∀ k, e' k = true → e k = true) : NoExt toks b e' := fun k hk => by
  cases h' : e' k with
  | false => rfl
  | true => have := he k h'; rw [h k hk] at this; cases this

theorem NoExt.of_kat {b : Nat} {e : PKind → Bool} {k : PKind} (h : KAt toks b k) (hk : e k = false) :
    NoExt toks b e := fun k' h' => by rw [← KAt.unique h h']; exact hk

theorem NoExt.follow {b : Nat} (h : NoExt toks b isF) : Follow toks b (fun k => !atomStartK k) :=
  fun k hk => by show (!atomStartK k) = true; rw [atomStartK_eq_isF, h k hk]; rfl

/-- completeness of `parse_A` on maximal segments of length at most `n`; the function also returns
*something* for `small_term` at the same start (needed for the alternative `a -> b`) -/
def Comp (toks : Array PTok) (A : NT) (n : Nat) : Prop :=
  ∀ a b t, b - a ≤ n → SegT toks A a b t → NoExt toks b (ext A) →
    RetN toks A a ⟨t, b, true⟩ ∧ ∃ r0, RetN toks .smallTerm a r0

/-! ## Atoms -/

theorem atom_leaf_complete {a : Nat} {k : PKind} (h : KAt toks a k) (hl : isLeafK k = true) :
    RetN toks .atom a ⟨leafTree toks a k, a + 1, true⟩ := by
  have fl : ∀ nt k', leafKind nt = some k' → k ≠ k' → FailsN toks nt a :=
    fun nt k' h1 h2 => leaf_fail h1 (h.ne h2)
  cases k <;> simp [isLeafK] at hl
  · -- boolean
    refine choice_ok [.type, .variable, .integer, .integerLiteral] _ rfl ?_
      (leaf_ok (nt := .boolean) rfl h) rfl
    intro X hX
    simp only [List.mem_cons, List.mem_nil_iff, or_false] at hX
    rcases hX with rfl | rfl | rfl | rfl
    · exact fl _ _ rfl (by decide)
    · exact variable_fail (fun x => h.ne (by simp))
    · exact fl _ _ rfl (by decide)
    · exact literal_fail (fun n => h.ne (by simp))
  · -- false
    refine choice_ok [.type, .variable, .integer, .integerLiteral, .boolean, .true_] _ rfl ?_
      (leaf_ok (nt := .false_) rfl h) rfl
    intro X hX
    simp only [List.mem_cons, List.mem_nil_iff, or_false] at hX
    rcases hX with rfl | rfl | rfl | rfl | rfl | rfl
    · exact fl _ _ rfl (by decide)
    · exact variable_fail (fun x => h.ne (by simp))
    · exact fl _ _ rfl (by decide)
    · exact literal_fail (fun n => h.ne (by simp))
    · exact fl _ _ rfl (by decide)
    · exact fl _ _ rfl (by decide)
  · -- identifier
    refine choice_ok [.type] _ rfl ?_ (variable_ok h) rfl
    intro X hX
    simp only [List.mem_cons, List.mem_nil_iff, or_false] at hX
    subst hX
    exact fl _ _ rfl (by simp)
  · -- integer
    refine choice_ok [.type, .variable] _ rfl ?_ (leaf_ok (nt := .integer) rfl h) rfl
    intro X hX
    simp only [List.mem_cons, List.mem_nil_iff, or_false] at hX
    rcases hX with rfl | rfl
    · exact fl _ _ rfl (by decide)
    · exact variable_fail (fun x => h.ne (by simp))
  · -- integer literal
    refine choice_ok [.type, .variable, .integer] _ rfl ?_ (literal_ok h) rfl
    intro X hX
    simp only [List.mem_cons, List.mem_nil_iff, or_false] at hX
    rcases hX with rfl | rfl | rfl
    · exact fl _ _ rfl (by simp)
    · exact variable_fail (fun x => h.ne (by simp))
    · exact fl _ _ rfl (by simp)
  · -- true
    refine choice_ok [.type, .variable, .integer, .integerLiteral, .boolean] _ rfl ?_
      (leaf_ok (nt := .true_) rfl h) rfl
    intro X hX
    simp only [List.mem_cons, List.mem_nil_iff, or_false] at hX
    rcases hX with rfl | rfl | rfl | rfl | rfl
    · exact fl _ _ rfl (by decide)
    · exact variable_fail (fun x => h.ne (by simp))
    · exact fl _ _ rfl (by decide)
    · exact literal_fail (fun n => h.ne (by simp))
    · exact fl _ _ rfl (by decide)
  · -- type
    exact choice_ok [] _ rfl (fun _ hX => by cases hX) (leaf_ok (nt := .type) rfl h) rfl

theorem atom_group_complete {a m : Nat} {inner : Src} (h0 : KAt toks a .leftParen)
    (hin : RetN toks .term (a + 1) ⟨inner, m, true⟩) (hi : SegT toks .term (a + 1) m inner)
    (hc : KAt toks m .rightParen) :
    RetN toks .atom a ⟨.mk (rng toks a (m + 1)) true inner.variant [], m + 1, true⟩ := by
  have hf := segT_facts hi
  have hg := group_ok h0 hin hf.2 hc
  rw [show (⟨inner, m, true⟩ : PResult).term.errors = [] from hf.1] at hg
  refine choice_ok [.type, .variable, .integer, .integerLiteral, .boolean, .true_, .false_] [] rfl ?_
    hg ?_
  · intro X hX
    simp only [List.mem_cons, List.mem_nil_iff, or_false] at hX
    rcases hX with rfl | rfl | rfl | rfl | rfl | rfl | rfl
    · exact leaf_fail rfl (h0.ne (by decide))
    · exact variable_fail (fun x => h0.ne (by simp))
    · exact leaf_fail rfl (h0.ne (by decide))
    · exact literal_fail (fun n => h0.ne (by simp))
    · exact leaf_fail rfl (h0.ne (by decide))
    · exact leaf_fail rfl (h0.ne (by decide))
    · exact leaf_fail rfl (h0.ne (by decide))
  · exact hf.2

end

end PModel
